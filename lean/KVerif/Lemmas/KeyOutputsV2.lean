/-
Helper lemmas for Props/C14v2.lean: the key-output table with the chords-v2 contribution.
-/
import KVerif.Model.KeyOutputsV2
import KVerif.Props.C14
namespace KVerif.KO2
open KVerif.L KVerif.K KVerif.KO KVerif.C14

/-! ### `add_kc_output` with the override table = the walk without it, overrides applied afterwards -/

theorem addKc_of_mem (outs : List Nat) (kc : Nat) (h : kc ∈ outs) : addKc outs kc = outs := by
  unfold addKc
  have : outs.contains kc = true := by simpa using h
  rw [if_pos this]

theorem foldl_addKc_of_subset (ks : List Nat) : ∀ (outs : List Nat), (∀ x ∈ ks, x ∈ outs) → ks.foldl addKc outs = outs := by
  induction ks with
  | nil => intro outs _; rfl
  | cons k rest ih =>
    intro outs h
    simp only [List.foldl_cons]
    rw [addKc_of_mem outs k (h k (by simp))]
    exact ih outs (fun x hx => h x (by simp [hx]))

theorem withOverrides_eq_foldl (t : Override.Overrides) (base : List Nat) :
    withOverrides t base = base.foldl (addKcOv t) [] := rfl

theorem withOverrides_snoc (t : Override.Overrides) (outs : List Nat) (kc : Nat) :
    withOverrides t (outs ++ [kc]) = addKcOv t (withOverrides t outs) kc := by
  simp only [withOverrides_eq_foldl, List.foldl_append, List.foldl_cons, List.foldl_nil]

theorem addKcOv_of_mem (t : Override.Overrides) (outs : List Nat) (kc : Nat) (h : kc ∈ outs) :
    addKcOv t (withOverrides t outs) kc = withOverrides t outs := by
  have h1 : kc ∈ withOverrides t outs := withOverrides_go t outs [] kc (Or.inr (Or.inl h))
  have h2 : ∀ o ∈ overrideOuts t kc, o ∈ withOverrides t outs :=
    fun o ho => withOverrides_go t outs [] o (Or.inr (Or.inr ⟨kc, h, ho⟩))
  unfold addKcOv
  rw [addKc_of_mem _ _ h1]
  exact foldl_addKc_of_subset _ _ h2

/-- one `add_kc_output` call on the list with overrides = `addKc` on the list without, then overrides -/
theorem addKcOv_withOverrides (t : Override.Overrides) (outs : List Nat) (kc : Nat) :
    addKcOv t (withOverrides t outs) kc = withOverrides t (addKc outs kc) := by
  by_cases h : kc ∈ outs
  · rw [addKc_of_mem outs kc h]; exact addKcOv_of_mem t outs kc h
  · have : outs.contains kc = false := by simpa using h
    have e : addKc outs kc = outs ++ [kc] := by unfold addKc; rw [this]; rfl
    rw [e, withOverrides_snoc]

theorem foldl_addKcOv_withOverrides (t : Override.Overrides) (kcs : List Nat) : ∀ (outs : List Nat),
    kcs.foldl (addKcOv t) (withOverrides t outs) = withOverrides t (kcs.foldl addKc outs) := by
  induction kcs with
  | nil => intro outs; rfl
  | cons k rest ih =>
    intro outs
    simp only [List.foldl_cons]
    rw [addKcOv_withOverrides, ih]

mutual
  /-- **the override table can be applied after the walk**: `add_key_output_from_action_to_key_pos`
  with the table passed down, run on a row that is the override closure of `outs`, gives the override
  closure of what the plain walk gives on `outs` -/
  theorem addOutputsOv_withOverrides (t : Override.Overrides) (customs : List (List CAct)) (slot : Nat) :
      (a : Action) → (outs : List Nat) →
      addOutputsOv t customs slot a (withOverrides t outs) = withOverrides t (addOutputs customs slot a outs)
    | .keyCode kc, outs => by simp only [addOutputsOv, addOutputs]; exact addKcOv_withOverrides t outs kc
    | .holdTap _ hold tap ta _ _, outs => by
      simp only [addOutputsOv, addOutputs]
      rw [addOutputsOv_withOverrides t customs slot tap outs, addOutputsOv_withOverrides t customs slot hold _,
        addOutputsOv_withOverrides t customs slot ta _]
    | .oneShot a _ _, outs => by simp only [addOutputsOv, addOutputs]; exact addOutputsOv_withOverrides t customs slot a outs
    | .multipleKeyCodes kcs, outs => by simp only [addOutputsOv, addOutputs]; exact foldl_addKcOv_withOverrides t kcs outs
    | .multipleActions acs, outs => by simp only [addOutputsOv, addOutputs]; exact addOutputsOvL_withOverrides t customs slot acs outs
    | .tapDance acs _ _, outs => by simp only [addOutputsOv, addOutputs]; exact addOutputsOvL_withOverrides t customs slot acs outs
    | .fork l r _, outs => by
      simp only [addOutputsOv, addOutputs]
      rw [addOutputsOv_withOverrides t customs slot l outs, addOutputsOv_withOverrides t customs slot r _]
    | .chords _ chs _, outs => by simp only [addOutputsOv, addOutputs]; exact addOutputsOvC_withOverrides t customs slot chs outs
    | .switch cases, outs => by simp only [addOutputsOv, addOutputs]; exact addOutputsOvS_withOverrides t customs slot cases outs
    | .custom id, outs => by simp only [addOutputsOv, addOutputs]; exact foldl_addKcOv_withOverrides t _ outs
    | .src, outs => by simp only [addOutputsOv, addOutputs]; exact addKcOv_withOverrides t outs slot
    | .noOp, _ | .trans, _ | .layer _, _ | .defaultLayer _, _ | .bufKeyCodes _, _
    | .sequence _, _ | .repeatableSequence _, _ | .cancelSequences, _
    | .releaseState _, _ | .oneShotIgnoreEventsTicks _, _ | .repeat, _ => by
      simp only [addOutputsOv, addOutputs]
  theorem addOutputsOvL_withOverrides (t : Override.Overrides) (customs : List (List CAct)) (slot : Nat) :
      (acs : List Action) → (outs : List Nat) →
      addOutputsOvL t customs slot acs (withOverrides t outs) = withOverrides t (addOutputsL customs slot acs outs)
    | [], _ => by simp only [addOutputsOvL, addOutputsL]
    | a :: rest, outs => by
      simp only [addOutputsOvL, addOutputsL]
      rw [addOutputsOv_withOverrides t customs slot a outs, addOutputsOvL_withOverrides t customs slot rest _]
  theorem addOutputsOvC_withOverrides (t : Override.Overrides) (customs : List (List CAct)) (slot : Nat) :
      (chs : List (Nat × Action)) → (outs : List Nat) →
      addOutputsOvC t customs slot chs (withOverrides t outs) = withOverrides t (addOutputsC customs slot chs outs)
    | [], _ => by simp only [addOutputsOvC, addOutputsC]
    | (_, a) :: rest, outs => by
      simp only [addOutputsOvC, addOutputsC]
      rw [addOutputsOv_withOverrides t customs slot a outs, addOutputsOvC_withOverrides t customs slot rest _]
  theorem addOutputsOvS_withOverrides (t : Override.Overrides) (customs : List (List CAct)) (slot : Nat) :
      (cs : List (List Nat × Action × Bool)) → (outs : List Nat) →
      addOutputsOvS t customs slot cs (withOverrides t outs) = withOverrides t (addOutputsS customs slot cs outs)
    | [], _ => by simp only [addOutputsOvS, addOutputsS]
    | (_, a, _) :: rest, outs => by
      simp only [addOutputsOvS, addOutputsS]
      rw [addOutputsOv_withOverrides t customs slot a outs, addOutputsOvS_withOverrides t customs slot rest _]
end

/-! ### nothing but the leaves of the action gets into the row -/

theorem addKc_sound (outs : List Nat) (kc x : Nat) (h : x ∈ addKc outs kc) : x ∈ outs ∨ x = kc := by
  unfold addKc at h
  split at h
  · exact Or.inl h
  · rcases List.mem_append.mp h with h | h
    · exact Or.inl h
    · exact Or.inr (by simpa using h)

theorem foldl_addKc_sound (ks : List Nat) : ∀ (outs : List Nat) (x : Nat), x ∈ ks.foldl addKc outs → x ∈ outs ∨ x ∈ ks := by
  induction ks with
  | nil => intro outs x h; exact Or.inl h
  | cons k rest ih =>
    intro outs x h
    simp only [List.foldl_cons] at h
    rcases ih _ x h with h | h
    · rcases addKc_sound outs k x h with h | h
      · exact Or.inl h
      · exact Or.inr (by simp [h])
    · exact Or.inr (by simp [h])

mutual
  theorem add_sound (customs : List (List CAct)) (slot : Nat) : (a : Action) → (outs : List Nat) → (x : Nat) →
      x ∈ addOutputs customs slot a outs → x ∈ outs ∨ x ∈ possibleOutputs customs slot a
    | .keyCode kc, outs, x, h => by
      simp only [addOutputs] at h; simp only [possibleOutputs, List.mem_singleton]
      exact addKc_sound outs kc x h
    | .holdTap _ hold tap ta _ _, outs, x, h => by
      simp only [addOutputs] at h; simp only [possibleOutputs, List.mem_append]
      rcases add_sound customs slot ta _ x h with h | h
      · rcases add_sound customs slot hold _ x h with h | h
        · rcases add_sound customs slot tap _ x h with h | h
          · exact Or.inl h
          · exact Or.inr (Or.inl (Or.inl h))
        · exact Or.inr (Or.inl (Or.inr h))
      · exact Or.inr (Or.inr h)
    | .oneShot a _ _, outs, x, h => by
      simp only [addOutputs] at h; simp only [possibleOutputs]; exact add_sound customs slot a outs x h
    | .multipleKeyCodes kcs, outs, x, h => by
      simp only [addOutputs] at h; simp only [possibleOutputs]; exact foldl_addKc_sound kcs outs x h
    | .multipleActions acs, outs, x, h => by
      simp only [addOutputs] at h; simp only [possibleOutputs]; exact addL_sound customs slot acs outs x h
    | .tapDance acs _ _, outs, x, h => by
      simp only [addOutputs] at h; simp only [possibleOutputs]; exact addL_sound customs slot acs outs x h
    | .fork l r _, outs, x, h => by
      simp only [addOutputs] at h; simp only [possibleOutputs, List.mem_append]
      rcases add_sound customs slot r _ x h with h | h
      · rcases add_sound customs slot l _ x h with h | h
        · exact Or.inl h
        · exact Or.inr (Or.inl h)
      · exact Or.inr (Or.inr h)
    | .chords _ chs _, outs, x, h => by
      simp only [addOutputs] at h; simp only [possibleOutputs]; exact addC_sound customs slot chs outs x h
    | .switch cases, outs, x, h => by
      simp only [addOutputs] at h; simp only [possibleOutputs]; exact addS_sound customs slot cases outs x h
    | .custom id, outs, x, h => by
      simp only [addOutputs] at h; simp only [possibleOutputs]; exact foldl_addKc_sound _ outs x h
    | .src, outs, x, h => by
      simp only [addOutputs] at h; simp only [possibleOutputs, List.mem_singleton]
      exact addKc_sound outs slot x h
    | .noOp, _, _, h | .trans, _, _, h | .layer _, _, _, h | .defaultLayer _, _, _, h | .bufKeyCodes _, _, _, h
    | .sequence _, _, _, h | .repeatableSequence _, _, _, h | .cancelSequences, _, _, h
    | .releaseState _, _, _, h | .oneShotIgnoreEventsTicks _, _, _, h | .repeat, _, _, h => by
      simp only [addOutputs] at h; exact Or.inl h
  theorem addL_sound (customs : List (List CAct)) (slot : Nat) : (acs : List Action) → (outs : List Nat) → (x : Nat) →
      x ∈ addOutputsL customs slot acs outs → x ∈ outs ∨ x ∈ possibleOutputsL customs slot acs
    | [], _, _, h => by simp only [addOutputsL] at h; exact Or.inl h
    | a :: rest, outs, x, h => by
      simp only [addOutputsL] at h; simp only [possibleOutputsL, List.mem_append]
      rcases addL_sound customs slot rest _ x h with h | h
      · rcases add_sound customs slot a outs x h with h | h
        · exact Or.inl h
        · exact Or.inr (Or.inl h)
      · exact Or.inr (Or.inr h)
  theorem addC_sound (customs : List (List CAct)) (slot : Nat) : (chs : List (Nat × Action)) → (outs : List Nat) → (x : Nat) →
      x ∈ addOutputsC customs slot chs outs → x ∈ outs ∨ x ∈ possibleOutputsC customs slot chs
    | [], _, _, h => by simp only [addOutputsC] at h; exact Or.inl h
    | (_, a) :: rest, outs, x, h => by
      simp only [addOutputsC] at h; simp only [possibleOutputsC, List.mem_append]
      rcases addC_sound customs slot rest _ x h with h | h
      · rcases add_sound customs slot a outs x h with h | h
        · exact Or.inl h
        · exact Or.inr (Or.inl h)
      · exact Or.inr (Or.inr h)
  theorem addS_sound (customs : List (List CAct)) (slot : Nat) : (cs : List (List Nat × Action × Bool)) → (outs : List Nat) → (x : Nat) →
      x ∈ addOutputsS customs slot cs outs → x ∈ outs ∨ x ∈ possibleOutputsS customs slot cs
    | [], _, _, h => by simp only [addOutputsS] at h; exact Or.inl h
    | (_, a, _) :: rest, outs, x, h => by
      simp only [addOutputsS] at h; simp only [possibleOutputsS, List.mem_append]
      rcases addS_sound customs slot rest _ x h with h | h
      · rcases add_sound customs slot a outs x h with h | h
        · exact Or.inl h
        · exact Or.inr (Or.inl h)
      · exact Or.inr (Or.inr h)
end

theorem withOverrides_sound_go (t : Override.Overrides) (base : List Nat) : ∀ (acc : List Nat) (x : Nat),
    x ∈ base.foldl (addKcOv t) acc → x ∈ acc ∨ x ∈ base ∨ ∃ c ∈ base, x ∈ overrideOuts t c := by
  induction base with
  | nil => intro acc x h; exact Or.inl h
  | cons b rest ih =>
    intro acc x h
    simp only [List.foldl_cons] at h
    rcases ih _ x h with h | h | ⟨c, hc, hx⟩
    · unfold addKcOv at h
      rcases foldl_addKc_sound _ _ x h with h | h
      · rcases addKc_sound acc b x h with h | h
        · exact Or.inl h
        · exact Or.inr (Or.inl (by simp [h]))
      · exact Or.inr (Or.inr ⟨b, by simp, h⟩)
    · exact Or.inr (Or.inl (by simp [h]))
    · exact Or.inr (Or.inr ⟨c, by simp [hc], hx⟩)

/-- what `withOverrides` holds is a member of the list or the output key of an override of one -/
theorem withOverrides_sound (t : Override.Overrides) (base : List Nat) (x : Nat) (h : x ∈ withOverrides t base) :
    x ∈ base ∨ ∃ c ∈ base, x ∈ overrideOuts t c := by
  rcases withOverrides_sound_go t base [] x h with h | h | h
  · cases h
  · exact Or.inl h
  · exact Or.inr h

/-! ### visiting an action whose leaves are all listed already changes nothing (why the hold-tap arm
may skip a timeout action that is the hold action) -/

mutual
  theorem add_noop (customs : List (List CAct)) (slot : Nat) : (a : Action) → (outs : List Nat) →
      (∀ x ∈ possibleOutputs customs slot a, x ∈ outs) → addOutputs customs slot a outs = outs
    | .keyCode kc, outs, h => by
      simp only [addOutputs]; exact addKc_of_mem outs kc (h kc (by simp [possibleOutputs]))
    | .holdTap _ hold tap ta _ _, outs, h => by
      simp only [possibleOutputs, List.mem_append] at h
      simp only [addOutputs]
      rw [add_noop customs slot tap outs (fun x hx => h x (Or.inl (Or.inl hx))),
        add_noop customs slot hold outs (fun x hx => h x (Or.inl (Or.inr hx))),
        add_noop customs slot ta outs (fun x hx => h x (Or.inr hx))]
    | .oneShot a _ _, outs, h => by
      simp only [possibleOutputs] at h; simp only [addOutputs]; exact add_noop customs slot a outs h
    | .multipleKeyCodes kcs, outs, h => by
      simp only [possibleOutputs] at h; simp only [addOutputs]; exact foldl_addKc_of_subset kcs outs h
    | .multipleActions acs, outs, h => by
      simp only [possibleOutputs] at h; simp only [addOutputs]; exact addL_noop customs slot acs outs h
    | .tapDance acs _ _, outs, h => by
      simp only [possibleOutputs] at h; simp only [addOutputs]; exact addL_noop customs slot acs outs h
    | .fork l r _, outs, h => by
      simp only [possibleOutputs, List.mem_append] at h
      simp only [addOutputs]
      rw [add_noop customs slot l outs (fun x hx => h x (Or.inl hx)),
        add_noop customs slot r outs (fun x hx => h x (Or.inr hx))]
    | .chords _ chs _, outs, h => by
      simp only [possibleOutputs] at h; simp only [addOutputs]; exact addC_noop customs slot chs outs h
    | .switch cases, outs, h => by
      simp only [possibleOutputs] at h; simp only [addOutputs]; exact addS_noop customs slot cases outs h
    | .custom id, outs, h => by
      simp only [possibleOutputs] at h; simp only [addOutputs]; exact foldl_addKc_of_subset _ outs h
    | .src, outs, h => by
      simp only [addOutputs]; exact addKc_of_mem outs slot (h slot (by simp [possibleOutputs]))
    | .noOp, _, _ | .trans, _, _ | .layer _, _, _ | .defaultLayer _, _, _ | .bufKeyCodes _, _, _
    | .sequence _, _, _ | .repeatableSequence _, _, _ | .cancelSequences, _, _
    | .releaseState _, _, _ | .oneShotIgnoreEventsTicks _, _, _ | .repeat, _, _ => by
      simp only [addOutputs]
  theorem addL_noop (customs : List (List CAct)) (slot : Nat) : (acs : List Action) → (outs : List Nat) →
      (∀ x ∈ possibleOutputsL customs slot acs, x ∈ outs) → addOutputsL customs slot acs outs = outs
    | [], _, _ => by simp only [addOutputsL]
    | a :: rest, outs, h => by
      simp only [possibleOutputsL, List.mem_append] at h
      simp only [addOutputsL]
      rw [add_noop customs slot a outs (fun x hx => h x (Or.inl hx)),
        addL_noop customs slot rest outs (fun x hx => h x (Or.inr hx))]
  theorem addC_noop (customs : List (List CAct)) (slot : Nat) : (chs : List (Nat × Action)) → (outs : List Nat) →
      (∀ x ∈ possibleOutputsC customs slot chs, x ∈ outs) → addOutputsC customs slot chs outs = outs
    | [], _, _ => by simp only [addOutputsC]
    | (_, a) :: rest, outs, h => by
      simp only [possibleOutputsC, List.mem_append] at h
      simp only [addOutputsC]
      rw [add_noop customs slot a outs (fun x hx => h x (Or.inl hx)),
        addC_noop customs slot rest outs (fun x hx => h x (Or.inr hx))]
  theorem addS_noop (customs : List (List CAct)) (slot : Nat) : (cs : List (List Nat × Action × Bool)) → (outs : List Nat) →
      (∀ x ∈ possibleOutputsS customs slot cs, x ∈ outs) → addOutputsS customs slot cs outs = outs
    | [], _, _ => by simp only [addOutputsS]
    | (_, a, _) :: rest, outs, h => by
      simp only [possibleOutputsS, List.mem_append] at h
      simp only [addOutputsS]
      rw [add_noop customs slot a outs (fun x hx => h x (Or.inl hx)),
        addS_noop customs slot rest outs (fun x hx => h x (Or.inr hx))]
end

/-- visiting an action a second time adds nothing -/
theorem add_idem (customs : List (List CAct)) (slot : Nat) (a : Action) (outs : List Nat) :
    addOutputs customs slot a (addOutputs customs slot a outs) = addOutputs customs slot a outs :=
  add_noop customs slot a _ (fun x hx => add_complete customs slot a outs x hx)

/-- the same for the walk that carries the override table, on a row that is an override closure (every
row the table builder ever holds is one: it starts empty and `addOutputsOv_withOverrides` keeps the form) -/
theorem addOutputsOv_idem (t : Override.Overrides) (customs : List (List CAct)) (slot : Nat) (a : Action) (outs : List Nat) :
    addOutputsOv t customs slot a (addOutputsOv t customs slot a (withOverrides t outs)) =
      addOutputsOv t customs slot a (withOverrides t outs) := by
  rw [addOutputsOv_withOverrides, addOutputsOv_withOverrides, add_idem]

/-! ### the walk only appends -/

theorem addKc_prefix (outs : List Nat) (kc : Nat) : outs <+: addKc outs kc := by
  unfold addKc; split
  · exact List.prefix_refl _
  · exact List.prefix_append _ _

theorem foldl_addKc_prefix (ks : List Nat) : ∀ (outs : List Nat), outs <+: ks.foldl addKc outs := by
  induction ks with
  | nil => intro outs; exact List.prefix_refl _
  | cons k rest ih => intro outs; exact List.IsPrefix.trans (addKc_prefix outs k) (ih _)

mutual
  theorem add_prefix (customs : List (List CAct)) (slot : Nat) : (a : Action) → (outs : List Nat) →
      outs <+: addOutputs customs slot a outs
    | .keyCode kc, outs => by simp only [addOutputs]; exact addKc_prefix outs kc
    | .holdTap _ hold tap ta _ _, outs => by
      simp only [addOutputs]
      exact List.IsPrefix.trans (add_prefix customs slot tap outs)
        (List.IsPrefix.trans (add_prefix customs slot hold _) (add_prefix customs slot ta _))
    | .oneShot a _ _, outs => by simp only [addOutputs]; exact add_prefix customs slot a outs
    | .multipleKeyCodes kcs, outs => by simp only [addOutputs]; exact foldl_addKc_prefix kcs outs
    | .multipleActions acs, outs => by simp only [addOutputs]; exact addL_prefix customs slot acs outs
    | .tapDance acs _ _, outs => by simp only [addOutputs]; exact addL_prefix customs slot acs outs
    | .fork l r _, outs => by
      simp only [addOutputs]
      exact List.IsPrefix.trans (add_prefix customs slot l outs) (add_prefix customs slot r _)
    | .chords _ chs _, outs => by simp only [addOutputs]; exact addC_prefix customs slot chs outs
    | .switch cases, outs => by simp only [addOutputs]; exact addS_prefix customs slot cases outs
    | .custom id, outs => by simp only [addOutputs]; exact foldl_addKc_prefix _ outs
    | .src, outs => by simp only [addOutputs]; exact addKc_prefix outs slot
    | .noOp, _ | .trans, _ | .layer _, _ | .defaultLayer _, _ | .bufKeyCodes _, _
    | .sequence _, _ | .repeatableSequence _, _ | .cancelSequences, _
    | .releaseState _, _ | .oneShotIgnoreEventsTicks _, _ | .repeat, _ => by
      simp only [addOutputs]; exact List.prefix_refl _
  theorem addL_prefix (customs : List (List CAct)) (slot : Nat) : (acs : List Action) → (outs : List Nat) →
      outs <+: addOutputsL customs slot acs outs
    | [], _ => by simp only [addOutputsL]; exact List.prefix_refl _
    | a :: rest, outs => by
      simp only [addOutputsL]
      exact List.IsPrefix.trans (add_prefix customs slot a outs) (addL_prefix customs slot rest _)
  theorem addC_prefix (customs : List (List CAct)) (slot : Nat) : (chs : List (Nat × Action)) → (outs : List Nat) →
      outs <+: addOutputsC customs slot chs outs
    | [], _ => by simp only [addOutputsC]; exact List.prefix_refl _
    | (_, a) :: rest, outs => by
      simp only [addOutputsC]
      exact List.IsPrefix.trans (add_prefix customs slot a outs) (addC_prefix customs slot rest _)
  theorem addS_prefix (customs : List (List CAct)) (slot : Nat) : (cs : List (List Nat × Action × Bool)) → (outs : List Nat) →
      outs <+: addOutputsS customs slot cs outs
    | [], _ => by simp only [addOutputsS]; exact List.prefix_refl _
    | (_, a, _) :: rest, outs => by
      simp only [addOutputsS]
      exact List.IsPrefix.trans (add_prefix customs slot a outs) (addS_prefix customs slot rest _)
end

theorem foldChords_prefix (customs : List (List CAct)) (slot : Nat) (E : List ChordV2) : ∀ (outs : List Nat),
    outs <+: E.foldl (fun o c => addOutputs customs slot c.action o) outs := by
  induction E with
  | nil => intro outs; exact List.prefix_refl _
  | cons c rest ih => intro outs; exact List.IsPrefix.trans (add_prefix customs slot c.action outs) (ih _)

theorem foldl_addKcOv_prefix (t : Override.Overrides) (ks : List Nat) : ∀ (acc : List Nat), acc <+: ks.foldl (addKcOv t) acc := by
  induction ks with
  | nil => intro acc; exact List.prefix_refl _
  | cons k rest ih =>
    intro acc
    simp only [List.foldl_cons]
    refine List.IsPrefix.trans ?_ (ih _)
    unfold addKcOv
    exact List.IsPrefix.trans (addKc_prefix acc k) (foldl_addKc_prefix _ _)

/-- the override closure of a prefix is a prefix of the override closure -/
theorem withOverrides_prefix (t : Override.Overrides) (A B : List Nat) (h : A <+: B) :
    withOverrides t A <+: withOverrides t B := by
  obtain ⟨C, rfl⟩ := h
  simp only [withOverrides_eq_foldl, List.foldl_append]
  exact foldl_addKcOv_prefix t C _

/-! ### the loop over the chords of a key -/

/-- the chords-v2 loop with the override table, on an override closure, is the plain walk over the
chords NOT disabled on the layer -/
theorem addChordsRow_withOverrides (t : Override.Overrides) (customs : List (List CAct)) (slot layerIdx : Nat)
    (chs : List ChordV2) : ∀ (outs : List Nat),
    addChordsRow t customs slot layerIdx chs (withOverrides t outs) =
      withOverrides t ((enabledChords layerIdx chs).foldl (fun o c => addOutputs customs slot c.action o) outs) := by
  induction chs with
  | nil => intro outs; rfl
  | cons c rest ih =>
    intro outs
    unfold addChordsRow enabledChords
    simp only [List.foldl_cons, List.filter_cons]
    by_cases hd : c.disabledLayers.contains layerIdx = true
    · simp only [hd, if_true, Bool.not_true, Bool.false_eq_true, if_false]
      exact ih outs
    · have hd' : c.disabledLayers.contains layerIdx = false := by simpa using hd
      simp only [hd', Bool.false_eq_true, if_false, Bool.not_false, if_true, List.foldl_cons]
      rw [addOutputsOv_withOverrides]
      exact ih _

theorem foldChords_mono (customs : List (List CAct)) (slot : Nat) (E : List ChordV2) : ∀ (outs : List Nat) (x : Nat),
    x ∈ outs → x ∈ E.foldl (fun o c => addOutputs customs slot c.action o) outs := by
  induction E with
  | nil => intro outs x h; exact h
  | cons c rest ih => intro outs x h; exact ih _ x (add_mono customs slot c.action outs x h)

theorem foldChords_complete (customs : List (List CAct)) (slot : Nat) (E : List ChordV2) : ∀ (outs : List Nat) (C : ChordV2) (x : Nat),
    C ∈ E → x ∈ possibleOutputs customs slot C.action → x ∈ E.foldl (fun o c => addOutputs customs slot c.action o) outs := by
  induction E with
  | nil => intro _ _ _ h; cases h
  | cons c rest ih =>
    intro outs C x hC hx
    simp only [List.foldl_cons]
    rcases List.mem_cons.mp hC with h | h
    · subst h; exact foldChords_mono customs slot rest _ x (add_complete customs slot C.action outs x hx)
    · exact ih _ C x h hx

theorem foldChords_sound (customs : List (List CAct)) (slot : Nat) (E : List ChordV2) : ∀ (outs : List Nat) (x : Nat),
    x ∈ E.foldl (fun o c => addOutputs customs slot c.action o) outs →
    x ∈ outs ∨ ∃ C ∈ E, x ∈ possibleOutputs customs slot C.action := by
  induction E with
  | nil => intro outs x h; exact Or.inl h
  | cons c rest ih =>
    intro outs x h
    simp only [List.foldl_cons] at h
    rcases ih _ x h with h | ⟨C, hC, hx⟩
    · rcases add_sound customs slot c.action outs x h with h | h
      · exact Or.inl h
      · exact Or.inr ⟨c, by simp, h⟩
    · exact Or.inr ⟨C, by simp [hC], hx⟩

theorem mem_enabledChords (layerIdx : Nat) (chs : List ChordV2) (C : ChordV2) :
    C ∈ enabledChords layerIdx chs ↔ C ∈ chs ∧ layerIdx ∉ C.disabledLayers := by
  unfold enabledChords
  simp [List.mem_filter]

/-! ### rows -/

theorem Rows.get_put_same (m : Rows) (k : Nat) (v : List Nat) : (Rows.put m k v).get k = v := by
  induction m with
  | nil =>
    unfold Rows.put
    split
    · rename_i h; simp only [Rows.get]; exact (List.isEmpty_iff.mp h).symm
    · simp [Rows.get]
  | cons e rest ih =>
    unfold Rows.put
    split
    · simp [Rows.get]
    · rename_i h
      simp only [Rows.get, h]
      exact ih

theorem Rows.get_put_other (m : Rows) (k k' : Nat) (v : List Nat) (hne : k' ≠ k) : (Rows.put m k v).get k' = m.get k' := by
  have h1 : (k == k') = false := by simpa using (Ne.symm hne)
  induction m with
  | nil =>
    unfold Rows.put
    split
    · rfl
    · simp [Rows.get, h1]
  | cons e rest ih =>
    unfold Rows.put
    split
    · rename_i h
      have hk : e.1 = k := by simpa using h
      have h2 : (e.1 == k') = false := by rw [hk]; exact h1
      simp [Rows.get, h1, h2]
    · simp only [Rows.get]
      rw [ih]

theorem addOutputsAt_get (t : Override.Overrides) (customs : List (List CAct)) (i : Nat) (a : Action) (m : Rows) (k : Nat) :
    (addOutputsAt t customs i a m).get k = if k = i then addOutputsOv t customs i a (m.get i) else m.get k := by
  unfold addOutputsAt
  split
  · rename_i h; subst h; exact Rows.get_put_same _ _ _
  · rename_i h; exact Rows.get_put_other _ _ _ _ h

theorem addChordsV2At_get (t : Override.Overrides) (customs : List (List CAct)) (i layerIdx : Nat)
    (chv2 : Option ChV2Cfg) (m : Rows) (hL : layerIdx ≤ LAYER_IDX_MAX) :
    ∃ m2, addChordsV2At t customs i layerIdx chv2 m = .ok m2 ∧
      ∀ k, m2.get k = if k = i then addChordsRow t customs i layerIdx (chordsFor chv2 i) (m.get i) else m.get k := by
  unfold addChordsV2At
  rw [if_neg (by omega)]
  cases chv2 with
  | none => exact ⟨m, rfl, fun k => by split <;> simp_all [chordsFor, addChordsRow]⟩
  | some c =>
    simp only [chordsFor]
    cases hg : c.get i with
    | none => exact ⟨m, rfl, fun k => by split <;> simp_all [addChordsRow]⟩
    | some chords =>
      refine ⟨_, rfl, fun k => ?_⟩
      simp only [Option.getD_some]
      split
      · rename_i h; subst h; exact Rows.get_put_same _ _ _
      · rename_i h; exact Rows.get_put_other _ _ _ _ h

/-- the row of key `k` after the loop over the positions, as a fold over the positions equal to `k` -/
def rowFold (t : Override.Overrides) (customs : List (List CAct)) (valid : Nat → Bool) (chv2 : Option ChV2Cfg)
    (layerIdx k : Nat) : List (Nat × Action) → List Nat → List Nat
  | [], r => r
  | (i, a) :: rest, r =>
    if valid i = true ∧ i = k then
      rowFold t customs valid chv2 layerIdx k rest (addChordsRow t customs k layerIdx (chordsFor chv2 k) (addOutputsOv t customs k a r))
    else rowFold t customs valid chv2 layerIdx k rest r

theorem layerOutputs_get (t : Override.Overrides) (customs : List (List CAct)) (valid : Nat → Bool)
    (chv2 : Option ChV2Cfg) (layerIdx : Nat) (hL : layerIdx ≤ LAYER_IDX_MAX) (layer : List (Nat × Action)) :
    ∀ (m : Rows), ∃ m', layerOutputs t customs valid chv2 layerIdx layer m = .ok m' ∧
      ∀ k, m'.get k = rowFold t customs valid chv2 layerIdx k layer (m.get k) := by
  induction layer with
  | nil => intro m; exact ⟨m, rfl, fun _ => rfl⟩
  | cons e rest ih =>
    intro m
    obtain ⟨i, a⟩ := e
    unfold layerOutputs
    by_cases hv : valid i = true
    · simp only [hv, Bool.not_true, Bool.false_eq_true, if_false]
      obtain ⟨m2, h2, g2⟩ := addChordsV2At_get t customs i layerIdx chv2 (addOutputsAt t customs i a m) hL
      rw [h2]
      obtain ⟨m', h', g'⟩ := ih m2
      refine ⟨m', h', fun k => ?_⟩
      rw [g' k, g2 k]
      simp only [rowFold, hv, true_and]
      by_cases hk : k = i
      · subst hk
        simp only [if_true, addOutputsAt_get]
      · have hk' : ¬ i = k := fun h => hk h.symm
        simp only [hk, hk', if_false, addOutputsAt_get]
    · have hv' : valid i = false := by simpa using hv
      simp only [hv', Bool.not_false, if_true]
      obtain ⟨m', h', g'⟩ := ih m
      refine ⟨m', h', fun k => ?_⟩
      rw [g' k]
      simp [rowFold, hv']

theorem rowFold_absent (t : Override.Overrides) (customs : List (List CAct)) (valid : Nat → Bool) (chv2 : Option ChV2Cfg)
    (layerIdx k : Nat) (layer : List (Nat × Action)) : ∀ (r : List Nat),
    (∀ e ∈ layer, e.1 = k → valid k = false) → rowFold t customs valid chv2 layerIdx k layer r = r := by
  induction layer with
  | nil => intro r _; rfl
  | cons e rest ih =>
    intro r h
    obtain ⟨i, a⟩ := e
    unfold rowFold
    have : ¬ (valid i = true ∧ i = k) := by
      rintro ⟨hv, rfl⟩
      have := h (i, a) (by simp) rfl
      rw [this] at hv; cases hv
    rw [if_neg this]
    exact ih r (fun e he => h e (by simp [he]))

/-- with distinct positions, the row of a valid position `k` carrying action `a` is: the action's
outputs, then the chords' -/
theorem rowFold_nodup (t : Override.Overrides) (customs : List (List CAct)) (valid : Nat → Bool) (chv2 : Option ChV2Cfg)
    (layerIdx k : Nat) (a : Action) (hv : valid k = true) (layer : List (Nat × Action)) : ∀ (r : List Nat),
    (layer.map (·.1)).Nodup → (k, a) ∈ layer →
    rowFold t customs valid chv2 layerIdx k layer r =
      addChordsRow t customs k layerIdx (chordsFor chv2 k) (addOutputsOv t customs k a r) := by
  induction layer with
  | nil => intro _ _ h; cases h
  | cons e rest ih =>
    intro r hnd hmem
    obtain ⟨i, b⟩ := e
    simp only [List.map_cons, List.nodup_cons] at hnd
    unfold rowFold
    rcases List.mem_cons.mp hmem with h | h
    · injection h with h1 h2
      subst h1; subst h2
      rw [if_pos ⟨hv, rfl⟩]
      apply rowFold_absent
      intro e he hek
      exfalso
      apply hnd.1
      rw [← hek]
      exact List.mem_map_of_mem (f := (·.1)) he
    · have hne : ¬ (valid i = true ∧ i = k) := by
        rintro ⟨_, rfl⟩
        exact hnd.1 (List.mem_map_of_mem (f := (·.1)) h)
      rw [if_neg hne]
      exact ih r hnd.2 h

/-! ### layers -/

theorem createFrom_get (t : Override.Overrides) (customs : List (List CAct)) (valid : Nat → Bool)
    (chv2 : Option ChV2Cfg) (layers : List (List (Nat × Action))) : ∀ (li : Nat) (tbl : List Rows),
    createFrom t customs valid chv2 li layers = .ok tbl →
    tbl.length = layers.length ∧
    ∀ j (hj : j < layers.length) (hj' : j < tbl.length),
      layerOutputs t customs valid chv2 (li + j) layers[j] [] = .ok tbl[j] := by
  induction layers with
  | nil =>
    intro li tbl h
    simp only [createFrom] at h
    injection h with h; subst h
    exact ⟨rfl, fun j hj => absurd hj (by simp)⟩
  | cons layer rest ih =>
    intro li tbl h
    simp only [createFrom] at h
    split at h
    · cases h
    · rename_i r hr
      split at h
      · cases h
      · rename_i rs hrs
        injection h with h; subst h
        obtain ⟨hlen, hget⟩ := ih (li + 1) rs hrs
        refine ⟨by simp [hlen], fun j hj hj' => ?_⟩
        cases j with
        | zero => simpa using hr
        | succ j =>
          have := hget j (by simpa using hj) (by simpa using hj')
          simpa [Nat.add_assoc, Nat.add_comm 1 j] using this

theorem createFrom_ok (t : Override.Overrides) (customs : List (List CAct)) (valid : Nat → Bool)
    (chv2 : Option ChV2Cfg) (layers : List (List (Nat × Action))) : ∀ (li : Nat),
    li + layers.length ≤ LAYER_IDX_MAX + 1 → ∃ tbl, createFrom t customs valid chv2 li layers = .ok tbl := by
  induction layers with
  | nil => intro li _; exact ⟨[], rfl⟩
  | cons layer rest ih =>
    intro li h
    simp only [List.length_cons] at h
    obtain ⟨r, hr, _⟩ := layerOutputs_get t customs valid chv2 li (by omega) layer []
    obtain ⟨rs, hrs⟩ := ih (li + 1) (by omega)
    exact ⟨r :: rs, by simp only [createFrom, hr, hrs]⟩

/-- a layer index beyond `u16::MAX` with at least one key position: the assertion fails -/
theorem layerOutputs_crash (t : Override.Overrides) (customs : List (List CAct)) (valid : Nat → Bool)
    (chv2 : Option ChV2Cfg) (layerIdx : Nat) (hL : layerIdx > LAYER_IDX_MAX) (layer : List (Nat × Action)) :
    ∀ (m : Rows), (∃ e ∈ layer, valid e.1 = true) →
      layerOutputs t customs valid chv2 layerIdx layer m = .error .layerIdxAssert := by
  induction layer with
  | nil => intro _ ⟨e, he, _⟩; cases he
  | cons e rest ih =>
    intro m ⟨e', he', hv'⟩
    obtain ⟨i, a⟩ := e
    unfold layerOutputs
    by_cases hv : valid i = true
    · simp only [hv, Bool.not_true, Bool.false_eq_true, if_false]
      have : addChordsV2At t customs i layerIdx chv2 (addOutputsAt t customs i a m) = .error .layerIdxAssert := by
        unfold addChordsV2At; rw [if_pos hL]
      rw [this]
    · have hvf : valid i = false := by simpa using hv
      simp only [hvf, Bool.not_false, if_true]
      apply ih
      rcases List.mem_cons.mp he' with h | h
      · subst h; simp only [hvf] at hv'; cases hv'
      · exact ⟨e', h, hv'⟩

/-! ### registration -/

/-- `mapping.get(&k)` as the list of chords (none = empty) -/
def regGet : List (Nat × List ChordV2) → Nat → List ChordV2
  | [], _ => []
  | e :: rest, k => if e.1 == k then e.2 else regGet rest k

theorem regGet_pushChord_same (m : List (Nat × List ChordV2)) (k : Nat) (ch : ChordV2) :
    regGet (pushChord m k ch) k = regGet m k ++ [ch] := by
  induction m with
  | nil => simp [pushChord, regGet]
  | cons e rest ih =>
    unfold pushChord
    split
    · rename_i h; simp [regGet, h]
    · rename_i h
      simp only [regGet, h]
      exact ih

theorem regGet_pushChord_other (m : List (Nat × List ChordV2)) (k k' : Nat) (ch : ChordV2) (hne : k' ≠ k) :
    regGet (pushChord m k ch) k' = regGet m k' := by
  have h1 : (k == k') = false := by simpa using (Ne.symm hne)
  induction m with
  | nil => simp [pushChord, regGet, h1]
  | cons e rest ih =>
    unfold pushChord
    split
    · rename_i h
      have hk : e.1 = k := by simpa using h
      have h2 : (e.1 == k') = false := by rw [hk]; exact h1
      simp [regGet, h2]
    · simp only [regGet]
      rw [ih]

theorem mem_regGet_pushChord (m : List (Nat × List ChordV2)) (k k' : Nat) (ch C : ChordV2) :
    C ∈ regGet (pushChord m k ch) k' ↔ C ∈ regGet m k' ∨ (k' = k ∧ C = ch) := by
  by_cases h : k' = k
  · subst h; rw [regGet_pushChord_same]; simp
  · rw [regGet_pushChord_other m k k' ch h]; simp [h]

theorem mem_regGet_registerChord (ch : ChordV2) (k' : Nat) (C : ChordV2) : ∀ (ks : List Nat) (m : List (Nat × List ChordV2)),
    C ∈ regGet (ks.foldl (fun m k => pushChord m k ch) m) k' ↔ C ∈ regGet m k' ∨ (k' ∈ ks ∧ C = ch) := by
  intro ks
  induction ks with
  | nil => intro m; simp
  | cons k rest ih =>
    intro m
    simp only [List.foldl_cons]
    rw [ih, mem_regGet_pushChord]
    constructor
    · rintro ((h | ⟨h1, h2⟩) | ⟨h1, h2⟩)
      · exact Or.inl h
      · exact Or.inr ⟨by simp [h1], h2⟩
      · exact Or.inr ⟨by simp [h1], h2⟩
    · rintro (h | ⟨h1, h2⟩)
      · exact Or.inl (Or.inl h)
      · rcases List.mem_cons.mp h1 with h | h
        · exact Or.inl (Or.inr ⟨h, h2⟩)
        · exact Or.inr ⟨h, h2⟩

theorem mem_regGet_registerChords_go (k' : Nat) (C : ChordV2) : ∀ (chords : List ChordV2) (m : List (Nat × List ChordV2)),
    C ∈ regGet (chords.foldl registerChord m) k' ↔ C ∈ regGet m k' ∨ (C ∈ chords ∧ k' ∈ C.keys) := by
  intro chords
  induction chords with
  | nil => intro m; simp
  | cons ch rest ih =>
    intro m
    simp only [List.foldl_cons]
    rw [ih]
    unfold registerChord
    rw [mem_regGet_registerChord]
    constructor
    · rintro ((h | ⟨h1, h2⟩) | ⟨h1, h2⟩)
      · exact Or.inl h
      · subst h2; exact Or.inr ⟨by simp, h1⟩
      · exact Or.inr ⟨by simp [h1], h2⟩
    · rintro (h | ⟨h1, h2⟩)
      · exact Or.inl (Or.inl h)
      · rcases List.mem_cons.mp h1 with h | h
        · subst h; exact Or.inl (Or.inr ⟨h2, rfl⟩)
        · exact Or.inr ⟨h, h2⟩

/-- **a chord is registered for a key exactly when the key takes part in it** -/
theorem mem_regGet_registerChords (chords : List ChordV2) (k : Nat) (C : ChordV2) :
    C ∈ regGet (registerChords chords) k ↔ C ∈ chords ∧ k ∈ C.keys := by
  unfold registerChords
  rw [mem_regGet_registerChords_go]
  simp [regGet]

theorem chordsFor_eq_regGet (mapping : List (Nat × List ChordV2)) (minIdle k : Nat) :
    chordsFor (some { mapping, minIdle }) k = regGet mapping k := by
  simp only [chordsFor, ChV2Cfg.get]
  induction mapping with
  | nil => rfl
  | cons e rest ih =>
    simp only [List.find?_cons, regGet]
    cases h : (e.1 == k) with
    | true => simp
    | false => simpa using ih

end KVerif.KO2
