/-
Helper lemmas for Props/C09kan.lean: the chords-v2 machine at rest (empty queue, no active chord, no
cool-down), the chords-v2 prologue of `Layout::tick` in that state, and the kanata tick stages of
Model/KanataV2.lean when the layout tick returns no custom event.
-/
import KVerif.Model.KanataV2
import KVerif.Props.C07
namespace KVerif.C09
open KVerif.L KVerif.K

/-- what one tick does to a chords-v2 machine at rest: only the three fields of the "skip the scan"
optimisation move (`ticks_until_next_state_change`, `prev_active_layer`, `prev_queue_len`) -/
def restSkip (ch : ChV2) (layer : Nat) : Bool :=
  decide (ch.ticksUntilChange > 0) && ch.prevActiveLayer == layer && ch.prevQueueLen == 0

def restTick (ch : ChV2) (layer : Nat) : ChV2 :=
  { ch with ticksUntilChange := if restSkip ch layer then ch.ticksUntilChange - 1 else 0,
            prevActiveLayer := if restSkip ch layer then ch.prevActiveLayer else layer,
            prevQueueLen := if restSkip ch layer then ch.prevQueueLen else 0 }

/-- the conditions `is_idle_chv2` and `accepts_chords_chv2` check -/
structure Chv2Rest (ch : ChV2) : Prop where
  queue : ch.queue = []
  active : ch.active = []
  cool : ch.ticksToIgnore = 0

theorem restTick_rest (ch : ChV2) (layer : Nat) (h : Chv2Rest ch) : Chv2Rest (restTick ch layer) :=
  ⟨h.queue, h.active, h.cool⟩

theorem drainInputs_rest (ch : ChV2) (layer : Nat) (h : Chv2Rest ch) :
    drainInputs ch [] layer = .ok (restTick ch layer, []) := by
  obtain ⟨hq, ha, hc⟩ := h
  cases ch with
  | mk cfg queue active ti tu pl pq nc =>
    simp only at hq ha hc
    subst hq ha hc
    unfold drainInputs restTick
    simp only [Nat.lt_irrefl, gt_iff_lt, ↓reduceIte, List.length_nil]
    cases hcnd : restSkip { cfg, queue := [], active := [], ticksToIgnore := 0, ticksUntilChange := tu,
                            prevActiveLayer := pl, prevQueueLen := pq, nextCoord := nc } layer
    · have hcnd' := hcnd
      unfold restSkip at hcnd'
      simp only [gt_iff_lt] at hcnd'
      simp only [hcnd', Bool.false_eq_true, ↓reduceIte]
      rfl
    · have hcnd' := hcnd
      unfold restSkip at hcnd'
      simp only [gt_iff_lt] at hcnd'
      simp only [hcnd', ↓reduceIte]

theorem tickChv2_rest (ch : ChV2) (layer : Nat) (h : Chv2Rest ch) :
    tickChv2 ch layer = .ok (restTick ch layer, []) := by
  have hd := drainInputs_rest ch layer h
  obtain ⟨hq, ha, hc⟩ := h
  cases ch with
  | mk cfg queue active ti tu pl pq nc =>
    simp only at hq ha hc
    subst hq ha hc
    unfold tickChv2
    simp only [List.map_nil, hd]
    rfl

/-- the chords-v2 prologue of `Layout::tick` on a machine at rest hands nothing to the layout -/
theorem tickV2Pre_rest (lay : Layout) (ch : ChV2) (h : Chv2Rest ch) :
    tickV2Pre { lay, chv2 := some ch } = .ok { lay, chv2 := some (restTick ch lay.currentLayer) } := by
  have ht := tickChv2_rest ch lay.currentLayer h
  obtain ⟨hq, ha, hc⟩ := h
  cases ch with
  | mk cfg queue active ti tu pl pq nc =>
    simp only at hq ha hc
    subst hq ha hc
    unfold tickV2Pre
    simp only [ht]
    rfl

theorem layoutV2_tick_rest (lay : Layout) (ch : ChV2) (h : Chv2Rest ch) (l' : Layout) (ce : CustomEv)
    (ht : tick lay = .ok (l', ce)) :
    LayoutV2.tick { lay, chv2 := some ch } = .ok ({ lay := l', chv2 := some (restTick ch lay.currentLayer) }, ce) := by
  unfold LayoutV2.tick
  simp only [tickV2Pre_rest lay ch h, ht]

/-- `handle_keystate_changes` after a layout tick that returned no custom event -/
def hkcNoEv (k : KState) : Except K.Crash KState :=
  match k.overrides.overrideKeys (adjustKeys k (k.curKeys ++ k.layout.keycodes)) k.overrideStates with
  | .error c => .error (.override c)
  | .ok (cur, ost) =>
    let k := eraseOverridden { k with overrideStates := ost } ost.toRemove
    let (cur, k) := applyCapsWord k cur
    let k := pressNew (releaseOld k cur false) cur
    .ok { k with curKeys := cur }

theorem hkcRestV2_noEvent (s : KV2) :
    hkcRestV2 s .noEvent = (match hkcNoEv s.k with | .error c => .error c | .ok k => .ok { s with k }) := by
  unfold hkcRestV2 hkcNoEv
  simp only [applyUnmodEvent, hkcCustomV2]
  cases s.k.overrides.overrideKeys (adjustKeys s.k (s.k.curKeys ++ s.k.layout.keycodes)) s.k.overrideStates with
  | error c => rfl
  | ok r => rfl

theorem handleKeystateChanges_noEvent (k : KState) (l' : Layout) (ht : tick k.layout = .ok (l', .noEvent)) :
    handleKeystateChanges k = hkcNoEv { k with layout := l' } := by
  unfold handleKeystateChanges hkcNoEv
  simp only [ht, applyUnmodEvent, hkcCustom]
  cases ({ k with layout := l' } : KState).overrides.overrideKeys
      (adjustKeys { k with layout := l' } (({ k with layout := l' } : KState).curKeys ++ l'.keycodes))
      ({ k with layout := l' } : KState).overrideStates with
  | error c => rfl
  | ok r => rfl

/-- with the chords-v2 machine at rest and a layout tick without custom event, `handle_keystate_changes`
over the layout with chords v2 is the original one, next to one `restTick` of the machine -/
theorem handleKeystateChangesV2_rest (k : KState) (ch : ChV2) (h : Chv2Rest ch) (l' : Layout)
    (ht : tick k.layout = .ok (l', .noEvent)) (k' : KState) (hk : handleKeystateChanges k = .ok k') :
    handleKeystateChangesV2 { k, chv2 := some ch } = .ok { k := k', chv2 := some (restTick ch k.layout.currentLayer) } := by
  rw [handleKeystateChanges_noEvent k l' ht] at hk
  unfold handleKeystateChangesV2
  simp only [KV2.lv, layoutV2_tick_rest k.layout ch h l' .noEvent ht, KV2.setLv, hkcRestV2_noEvent, hk]

theorem tickIdleTimeoutV2_nil (s : KV2) (h : s.k.waitingForIdle = []) : tickIdleTimeoutV2 s = .ok s := by
  unfold tickIdleTimeoutV2
  rw [h]
  simp only [tickIdleTimeoutV2Go, List.reverse_nil]
  cases s with | mk k c => cases k; simp_all

theorem tickHeldVkeysV2_nil (s : KV2) (h : s.k.vkeysPendingRelease = []) : tickHeldVkeysV2 s = .ok s := by
  unfold tickHeldVkeysV2
  rw [h]
  simp only [tickHeldVkeysV2Go, List.reverse_nil]
  cases s with | mk k c => cases k; simp_all

/-- `restTick` on the optional chords-v2 state -/
def restTickO (c : Option ChV2) (layer : Nat) : Option ChV2 := c.map (restTick · layer)

def Chv2RestO (c : Option ChV2) : Prop := ∀ ch, c = some ch → Chv2Rest ch

theorem restTickO_rest (c : Option ChV2) (layer : Nat) (h : Chv2RestO c) : Chv2RestO (restTickO c layer) := by
  intro ch hch
  cases c with
  | none => cases hch
  | some c0 =>
    simp only [restTickO, Option.map_some, Option.some.injEq] at hch
    rw [← hch]; exact restTick_rest c0 layer (h c0 rfl)

theorem handleKeystateChangesV2_restO (k : KState) (c : Option ChV2) (h : Chv2RestO c) (l' : Layout)
    (ht : tick k.layout = .ok (l', .noEvent)) (k' : KState) (hk : handleKeystateChanges k = .ok k') :
    handleKeystateChangesV2 { k, chv2 := c } = .ok { k := k', chv2 := restTickO c k.layout.currentLayer } := by
  cases c with
  | some ch => exact handleKeystateChangesV2_rest k ch (h ch rfl) l' ht k' hk
  | none =>
    rw [handleKeystateChanges_noEvent k l' ht] at hk
    unfold handleKeystateChangesV2
    simp only [KV2.lv, LayoutV2.tick, tickV2Pre, ht, KV2.setLv, hkcRestV2_noEvent, hk]
    rfl

end KVerif.C09
