/-
Helper lemmas for Props/C09kan.lean: the chords-v2 machine at rest (empty queue, no active chord, no
cool-down), the chords-v2 prologue of `Layout::tick` in that state, and the kanata tick stages of
Model/KanataV2.lean when the layout tick returns no custom event.
-/
import KVerif.Model.KanataV2
import KVerif.Props.C07
namespace KVerif.C09
open KVerif.L KVerif.K

/-- what one tick does to a chords-v2 machine at rest: only the three fields of the "skip the scan"
optimisation move (`ticks_until_next_state_change`, `prev_active_layer`, `prev_queue_len`) -/
def restSkip (ch : ChV2) (layer : Nat) : Bool :=
  decide (ch.ticksUntilChange > 0) && ch.prevActiveLayer == layer && ch.prevQueueLen == 0

def restTick (ch : ChV2) (layer : Nat) : ChV2 :=
  { ch with ticksUntilChange := if restSkip ch layer then ch.ticksUntilChange - 1 else 0,
            prevActiveLayer := if restSkip ch layer then ch.prevActiveLayer else layer,
            prevQueueLen := if restSkip ch layer then ch.prevQueueLen else 0 }

/-- the conditions `is_idle_chv2` and `accepts_chords_chv2` check -/
structure Chv2Rest (ch : ChV2) : Prop where
  queue : ch.queue = []
  active : ch.active = []
  cool : ch.ticksToIgnore = 0

theorem restTick_rest (ch : ChV2) (layer : Nat) (h : Chv2Rest ch) : Chv2Rest (restTick ch layer) :=
  ⟨h.queue, h.active, h.cool⟩

theorem drainInputs_rest (ch : ChV2) (layer : Nat) (h : Chv2Rest ch) :
    drainInputs ch [] layer = .ok (restTick ch layer, []) := by
  obtain ⟨hq, ha, hc⟩ := h
  cases ch with
  | mk cfg queue active ti tu pl pq nc =>
    simp only at hq ha hc
    subst hq ha hc
    unfold drainInputs restTick
    simp only [Nat.lt_irrefl, gt_iff_lt, ↓reduceIte, List.length_nil]
    cases hcnd : restSkip { cfg, queue := [], active := [], ticksToIgnore := 0, ticksUntilChange := tu,
                            prevActiveLayer := pl, prevQueueLen := pq, nextCoord := nc } layer
    · have hcnd' := hcnd
      unfold restSkip at hcnd'
      simp only [gt_iff_lt] at hcnd'
      simp only [hcnd', Bool.false_eq_true, ↓reduceIte]
      rfl
    · have hcnd' := hcnd
      unfold restSkip at hcnd'
      simp only [gt_iff_lt] at hcnd'
      simp only [hcnd', ↓reduceIte]

theorem tickChv2_rest (ch : ChV2) (layer : Nat) (h : Chv2Rest ch) :
    tickChv2 ch layer = .ok (restTick ch layer, []) := by
  have hd := drainInputs_rest ch layer h
  obtain ⟨hq, ha, hc⟩ := h
  cases ch with
  | mk cfg queue active ti tu pl pq nc =>
    simp only at hq ha hc
    subst hq ha hc
    unfold tickChv2
    simp only [List.map_nil, hd]
    rfl

/-- the chords-v2 prologue of `Layout::tick` on a machine at rest hands nothing to the layout -/
theorem tickV2Pre_rest (lay : Layout) (ch : ChV2) (h : Chv2Rest ch) :
    tickV2Pre { lay, chv2 := some ch } = .ok { lay, chv2 := some (restTick ch lay.currentLayer) } := by
  have ht := tickChv2_rest ch lay.currentLayer h
  obtain ⟨hq, ha, hc⟩ := h
  cases ch with
  | mk cfg queue active ti tu pl pq nc =>
    simp only at hq ha hc
    subst hq ha hc
    unfold tickV2Pre
    simp only [ht]
    rfl

theorem layoutV2_tick_rest (lay : Layout) (ch : ChV2) (h : Chv2Rest ch) (l' : Layout) (ce : CustomEv)
    (ht : tick lay = .ok (l', ce)) :
    LayoutV2.tick { lay, chv2 := some ch } = .ok ({ lay := l', chv2 := some (restTick ch lay.currentLayer) }, ce) := by
  unfold LayoutV2.tick
  simp only [tickV2Pre_rest lay ch h, ht]

/-! [seq] the sequence hooks of the twins when sequence mode is off / the key lists are in sync -/

theorem eraseOverridden_seq (k : KState) (r : List Nat) : (eraseOverridden k r).seq = k.seq := by
  unfold eraseOverridden
  simp only []
  split <;> rfl

theorem applyCapsWord_seq (k : KState) (cur : List KeyCode) : (applyCapsWord k cur).2.seq = k.seq := by
  unfold applyCapsWord
  split
  · rfl
  · rfl

theorem seqReleasedHookV2_inactive (s : KV2) (cur : List KeyCode) (h : s.k.seq.st.active = false) :
    seqReleasedHookV2 s cur = .ok s := by
  unfold seqReleasedHookV2
  simp only [h, Bool.not_false, if_true]
  split <;> rfl

theorem seqReleasedHookV2_synced (s : KV2) (cur : List KeyCode) (h : ∀ x ∈ s.k.prevKeys, x ∈ cur) :
    seqReleasedHookV2 s cur = .ok s := by
  unfold seqReleasedHookV2
  cases cur with
  | cons c cs => simp
  | nil =>
    have : s.k.prevKeys = [] := by
      cases hp : s.k.prevKeys with
      | nil => rfl
      | cons y ys => exact absurd (h y (by simp [hp])) (by simp)
    simp [this]

theorem pressLoopV2_synced (cur xs : List KeyCode) (s : KV2) (h : ∀ x ∈ xs, x ∈ s.k.prevKeys) :
    pressLoopV2 cur xs s = .ok s := by
  induction xs with
  | nil => rfl
  | cons x xs ih =>
    have hc : s.k.prevKeys.contains x = true := by simpa using h x (by simp)
    unfold pressLoopV2
    simp only [hc, if_true]
    exact ih (fun y hy => h y (by simp [hy]))

theorem pressLoopV2_off (cur xs : List KeyCode) (s : KV2) (h : s.k.seq.off = true) :
    pressLoopV2 cur xs s = .ok { s with k := pressNew s.k xs } := by
  induction xs generalizing s with
  | nil => rfl
  | cons x xs ih =>
    unfold pressLoopV2 pressNew
    simp only [List.foldl_cons]
    split
    · have := ih s h
      unfold pressNew at this
      exact this
    · simp only [off_alwaysOnStep s.k.seq h, off_inactive s.k.seq h, Bool.false_eq_true, if_false]
      have := ih { s with k := pressKey { s.k with prevKeys := s.k.prevKeys ++ [x], lastPressedKey := x } x }
        (by show (pressKey _ x).seq.off = true; rw [pressKey_seq]; exact h)
      unfold pressNew at this
      exact this

/-- `handle_keystate_changes` after a layout tick that returned no custom event -/
def hkcNoEv (k : KState) : Except K.Crash KState :=
  match k.overrides.overrideKeys (adjustKeys k (k.curKeys ++ k.layout.keycodes)) k.overrideStates with
  | .error c => .error (.override c)
  | .ok (cur, ost) =>
    let k := eraseOverridden { k with overrideStates := ost } ost.toRemove
    let (cur, k) := applyCapsWord k cur
    let k := pressNew (releaseOld k cur false) cur
    .ok { k with curKeys := cur }

/-- [seq] the state the key diff starts from has sequence mode off when `k` has -/
theorem diffStart_off (k : KState) (ost : Override.OverrideStates) (cur : List KeyCode) (rev : Bool)
    (h : k.seq.off = true) :
    (releaseOld (applyCapsWord (eraseOverridden { k with overrideStates := ost } ost.toRemove) cur).2
      (applyCapsWord (eraseOverridden { k with overrideStates := ost } ost.toRemove) cur).1 rev).seq.off = true := by
  rw [releaseOld_seq, applyCapsWord_seq, eraseOverridden_seq]; exact h

theorem hkcRestV2_noEvent (s : KV2) (hoff : s.k.seq.off = true) :
    hkcRestV2 s .noEvent = (match hkcNoEv s.k with | .error c => .error c | .ok k => .ok { s with k }) := by
  unfold hkcRestV2 hkcNoEv
  simp only [applyUnmodEvent, hkcCustomV2]
  cases s.k.overrides.overrideKeys (adjustKeys s.k (s.k.curKeys ++ s.k.layout.keycodes)) s.k.overrideStates with
  | error c => rfl
  | ok r =>
    obtain ⟨cur, ost⟩ := r
    have h1 := diffStart_off s.k ost cur false hoff
    simp only []
    rw [seqReleasedHookV2_inactive _ _ (off_inactive _ h1)]
    simp only []
    rw [pressLoopV2_off _ _ _ h1]

theorem handleKeystateChanges_noEvent (k : KState) (l' : Layout) (ht : tick k.layout = .ok (l', .noEvent))
    (hoff : k.seq.off = true) :
    handleKeystateChanges k = hkcNoEv { k with layout := l' } := by
  unfold handleKeystateChanges hkcNoEv
  simp only [ht, applyUnmodEvent, hkcCustom]
  cases ({ k with layout := l' } : KState).overrides.overrideKeys
      (adjustKeys { k with layout := l' } (({ k with layout := l' } : KState).curKeys ++ l'.keycodes))
      ({ k with layout := l' } : KState).overrideStates with
  | error c => rfl
  | ok r =>
    obtain ⟨cur, ost⟩ := r
    have h1 := diffStart_off ({ k with layout := l' } : KState) ost cur false hoff
    simp only []
    rw [seqReleasedHook_inactive _ _ (off_inactive _ h1)]
    simp only []
    rw [pressLoop_off _ _ _ h1]

/-- with the chords-v2 machine at rest and a layout tick without custom event, `handle_keystate_changes`
over the layout with chords v2 is the original one, next to one `restTick` of the machine -/
theorem handleKeystateChangesV2_rest (k : KState) (ch : ChV2) (h : Chv2Rest ch) (l' : Layout)
    (ht : tick k.layout = .ok (l', .noEvent)) (k' : KState) (hk : handleKeystateChanges k = .ok k')
    (hoff : k.seq.off = true) :
    handleKeystateChangesV2 { k, chv2 := some ch } = .ok { k := k', chv2 := some (restTick ch k.layout.currentLayer) } := by
  rw [handleKeystateChanges_noEvent k l' ht hoff] at hk
  unfold handleKeystateChangesV2
  simp only [KV2.lv, layoutV2_tick_rest k.layout ch h l' .noEvent ht, KV2.setLv]
  rw [hkcRestV2_noEvent _ hoff]
  simp only [hk]

/-- [seq] `handle_keystate_changes` of the twin after a layout tick without custom event, when the OS key
state and the wanted list coincide (C07's `Synced`): nothing moves, whatever the sequence state (no
key is new, the all-released hook does not run) -/
theorem hkcRestV2_quiet (s : KV2) (cur' : List KeyCode) (ost : Override.OverrideStates)
    (hov : s.k.overrides.overrideKeys (adjustKeys s.k (s.k.curKeys ++ s.k.layout.keycodes)) s.k.overrideStates = .ok (cur', ost))
    (hrm : ost.toRemove = []) (hcw : s.k.capsWord = none) (hsync : C07.Synced s.k cur') :
    hkcRestV2 s .noEvent = .ok { s with k := { s.k with overrideStates := ost, curKeys := cur' } } := by
  have hsync' : C07.Synced ({ s.k with overrideStates := ost } : KState) cur' := hsync
  have hcw' : applyCapsWord ({ s.k with overrideStates := ost } : KState) cur'
      = (cur', { s.k with overrideStates := ost }) := by
    unfold applyCapsWord; simp only [hcw]
  have hro := C07.releaseOld_synced ({ s.k with overrideStates := ost } : KState) cur' false hsync'.1
  have hh : seqReleasedHookV2 { s with k := { s.k with overrideStates := ost } } cur'
      = .ok { s with k := { s.k with overrideStates := ost } } := seqReleasedHookV2_synced _ _ hsync'.1
  have hp : pressLoopV2 cur' cur' { s with k := { s.k with overrideStates := ost } }
      = .ok { s with k := { s.k with overrideStates := ost } } := pressLoopV2_synced _ _ _ hsync'.2
  unfold hkcRestV2
  simp only [applyUnmodEvent, hov, hrm, C07.eraseOverridden_nil, hcw', hro, hh, hp, hkcCustomV2]

theorem tickIdleTimeoutV2_nil (s : KV2) (h : s.k.waitingForIdle = []) : tickIdleTimeoutV2 s = .ok s := by
  unfold tickIdleTimeoutV2
  rw [h]
  simp only [tickIdleTimeoutV2Go, List.reverse_nil]
  cases s with | mk k c => cases k; simp_all

theorem tickHeldVkeysV2_nil (s : KV2) (h : s.k.vkeysPendingRelease = []) : tickHeldVkeysV2 s = .ok s := by
  unfold tickHeldVkeysV2
  rw [h]
  simp only [tickHeldVkeysV2Go, List.reverse_nil]
  cases s with | mk k c => cases k; simp_all

/-- `restTick` on the optional chords-v2 state -/
def restTickO (c : Option ChV2) (layer : Nat) : Option ChV2 := c.map (restTick · layer)

def Chv2RestO (c : Option ChV2) : Prop := ∀ ch, c = some ch → Chv2Rest ch

theorem restTickO_rest (c : Option ChV2) (layer : Nat) (h : Chv2RestO c) : Chv2RestO (restTickO c layer) := by
  intro ch hch
  cases c with
  | none => cases hch
  | some c0 =>
    simp only [restTickO, Option.map_some, Option.some.injEq] at hch
    rw [← hch]; exact restTick_rest c0 layer (h c0 rfl)

theorem handleKeystateChangesV2_restO (k : KState) (c : Option ChV2) (h : Chv2RestO c) (l' : Layout)
    (ht : tick k.layout = .ok (l', .noEvent)) (k' : KState) (hk : handleKeystateChanges k = .ok k')
    (hoff : k.seq.off = true) :
    handleKeystateChangesV2 { k, chv2 := c } = .ok { k := k', chv2 := restTickO c k.layout.currentLayer } := by
  cases c with
  | some ch => exact handleKeystateChangesV2_rest k ch (h ch rfl) l' ht k' hk hoff
  | none =>
    rw [handleKeystateChanges_noEvent k l' ht hoff] at hk
    unfold handleKeystateChangesV2
    simp only [KV2.lv, LayoutV2.tick, tickV2Pre, ht, KV2.setLv]
    rw [hkcRestV2_noEvent _ hoff]
    simp only [hk]
    rfl

/-- [seq] `handle_keystate_changes` of the twin from a quiet, synced state (C07's hypotheses), whatever
the sequence state: the layout ages, the chords-v2 machine does one `restTick`, nothing else moves -/
theorem handleKeystateChangesV2_quiet (s : KV2) (hr : Chv2RestO s.chv2) (hq : C07.QuietLayout s.k.layout)
    (hcw : s.k.capsWord = none) (hcur : s.k.curKeys = []) (cur' : List KeyCode) (ost : Override.OverrideStates)
    (hov : s.k.overrides.overrideKeys (adjustKeys s.k s.k.layout.keycodes) s.k.overrideStates = .ok (cur', ost))
    (hrm : ost.toRemove = []) (hsync : C07.Synced s.k cur') :
    handleKeystateChangesV2 s = .ok { k := { s.k with layout := tickPre s.k.layout, overrideStates := ost, curKeys := cur' },
                                      chv2 := restTickO s.chv2 s.k.layout.currentLayer } := by
  have ht := C07.tick_quiet_eq s.k.layout hq
  have hst := (C07.tickPre_quiet s.k.layout hq).1
  have hkc : (tickPre s.k.layout).keycodes = s.k.layout.keycodes := by unfold Layout.keycodes; rw [hst]
  have hov' : ({ s.k with layout := tickPre s.k.layout } : KState).overrides.overrideKeys
      (adjustKeys { s.k with layout := tickPre s.k.layout }
        (({ s.k with layout := tickPre s.k.layout } : KState).curKeys ++ (tickPre s.k.layout).keycodes))
      ({ s.k with layout := tickPre s.k.layout } : KState).overrideStates = .ok (cur', ost) := by
    have : adjustKeys { s.k with layout := tickPre s.k.layout }
        (({ s.k with layout := tickPre s.k.layout } : KState).curKeys ++ (tickPre s.k.layout).keycodes)
        = adjustKeys s.k s.k.layout.keycodes := by
      simp only [hcur, List.nil_append, hkc]; rfl
    rw [this]; exact hov
  have hq2 := hkcRestV2_quiet
  obtain ⟨k, c⟩ := s
  cases c with
  | some ch =>
    unfold handleKeystateChangesV2
    simp only [KV2.lv, layoutV2_tick_rest k.layout ch (hr ch rfl) _ .noEvent ht, KV2.setLv]
    exact hq2 { k := { k with layout := tickPre k.layout }, chv2 := some (restTick ch k.layout.currentLayer) } cur' ost hov' hrm hcw hsync
  | none =>
    unfold handleKeystateChangesV2
    simp only [KV2.lv, LayoutV2.tick, tickV2Pre, ht, KV2.setLv]
    exact hq2 { k := { k with layout := tickPre k.layout }, chv2 := none } cur' ost hov' hrm hcw hsync

end KVerif.C09
