/-
Small facts about the kanata-level tick stages when their component is at rest (used by Props/C07).
-/
import KVerif.Model.Kanata
import KVerif.Lemmas.KanataSeqOff
namespace KVerif.C07
open KVerif.L KVerif.K

theorem markEager_nil (states : List St) : markEager [] states = states := by
  unfold markEager
  conv => rhs; rw [← List.map_id states]
  apply List.map_congr_left
  intro s _
  cases s <;> simp

theorem eraseOverridden_nil (k : KState) : eraseOverridden k [] = k := by
  unfold eraseOverridden
  have hf : ∀ (l : List St), l.filter (fun _ => true) = l := fun l => List.filter_eq_self.mpr (fun _ _ => rfl)
  simp only [markEager_nil, List.any_nil, Bool.not_false, hf]
  split <;> rfl

theorem handleScrolling_none (k : KState) (h1 : k.scroll = none) (h2 : k.hscroll = none) :
    handleScrolling k = .ok k := by
  unfold handleScrolling tickScroll
  simp only [h1, h2]
  cases k; simp_all

theorem handleMoveMouse_none (k : KState) (h1 : k.moveV = none) (h2 : k.moveH = none) :
    handleMoveMouse k = .ok k := by
  unfold handleMoveMouse tickMove
  simp only [h1, h2]
  cases k; simp_all

theorem tickIdleTimeout_nil (k : KState) (h : k.waitingForIdle = []) : tickIdleTimeout k = .ok k := by
  unfold tickIdleTimeout
  rw [h]
  simp only [tickIdleTimeout.go, List.reverse_nil]
  cases k; simp_all

theorem tickHeldVkeys_nil (k : KState) (h : k.vkeysPendingRelease = []) : tickHeldVkeys k = .ok k := by
  unfold tickHeldVkeys
  rw [h]
  simp only [tickHeldVkeys.go, List.reverse_nil]
  cases k; simp_all

end KVerif.C07
