/-
Frame properties of the stand-alone sequence functions (Model/Sequences.lean), used to carry the
engine-level theorems of Props/C12.lean over to the composed kanata-level model:

* `kbd_out` and the virtual-key taps are write-only for sequences.rs: running any function with
  earlier output / earlier taps in front (`Eng.pre`) gives the same result with them in front;
* taps only grow; a step that taps nothing leaves `layout.states` alone (only
  `do_successful_sequence_termination` touches the states, and it always taps);
* no step of the stream turns sequence mode on.
-/
import KVerif.Lemmas.SeqRunPlain
namespace KVerif.Seq

/-- the same engine record with earlier output and earlier taps in front -/
def Eng.pre (o : List Out) (p : List Nat) (e : Eng) : Eng := { e with out := o ++ e.out, taps := p ++ e.taps }

theorem pre_st (o p) (e : Eng) : (e.pre o p).st = e.st := rfl
theorem pre_states (o p) (e : Eng) : (e.pre o p).states = e.states := rfl

theorem pressBase_pre (o : List Out) (p : List Nat) (e : Eng) (k : Nat) :
    pressBase (e.pre o p) k = (pressBase e k).pre o p := by
  unfold pressBase Eng.pre
  cases h : e.st.mode <;> simp [h, List.append_assoc]

theorem cancelSequence_pre (o : List Out) (p : List Nat) (e : Eng) :
    cancelSequence (e.pre o p) = (cancelSequence e).pre o p := by
  unfold cancelSequence Eng.pre
  cases h : e.st.mode <;> simp [h, List.append_assoc]

theorem terminate_pre (o : List Out) (p : List Nat) (e : Eng) (j : Nat) (b : Bool) :
    terminate (e.pre o p) j b = (terminate e j b).pre o p := by
  unfold terminate Eng.pre
  cases h : e.st.mode <;> simp [h, List.append_assoc]

theorem reconcile_pre (t : Trie Nat) (o : List Out) (p : List Nat) (e : Eng) (std ovl : List Nat × Res × Bool) :
    reconcile t (e.pre o p) std ovl = ((reconcile t e std ovl).1.pre o p, (reconcile t e std ovl).2) := by
  unfold reconcile
  split
  · rfl
  · rfl
  · rfl
  · simp only []
    split
    · congr 1
      exact cancelSequence_pre o p
        { e with st := { e.st with sequence := (dropFront t std.1 std.2.1).1, overlapped := ovl.1 } }
    · rfl

theorem finish_pre (t : Trie Nat) (o : List Out) (p : List Nat) (x : Eng × Res × Res) :
    finish t (x.1.pre o p, x.2) = (finish t x).pre o p := by
  obtain ⟨e, r1, r2⟩ := x
  cases r2 with
  | hasValue j => exact terminate_pre o p e j true
  | notInTrie =>
    cases r1 with
    | hasValue j =>
      simp only [finish, pre_st]
      cases hg : t.getOrDescendant (e.st.overlapped ++ [KEY_OVERLAP_MARKER]) with
      | hasValue oj => exact terminate_pre o p { e with st := { e.st with overlapped := e.st.overlapped ++ [KEY_OVERLAP_MARKER] } } oj true
      | notInTrie => exact terminate_pre o p { e with st := { e.st with overlapped := e.st.overlapped ++ [KEY_OVERLAP_MARKER] } } j false
      | inTrie => exact terminate_pre o p { e with st := { e.st with overlapped := e.st.overlapped ++ [KEY_OVERLAP_MARKER] } } j false
    | notInTrie => rfl
    | inTrie => rfl
  | inTrie =>
    cases r1 with
    | hasValue j =>
      simp only [finish, pre_st]
      cases hg : t.getOrDescendant (e.st.overlapped ++ [KEY_OVERLAP_MARKER]) with
      | hasValue oj => exact terminate_pre o p { e with st := { e.st with overlapped := e.st.overlapped ++ [KEY_OVERLAP_MARKER] } } oj true
      | notInTrie => exact terminate_pre o p { e with st := { e.st with overlapped := e.st.overlapped ++ [KEY_OVERLAP_MARKER] } } j false
      | inTrie => exact terminate_pre o p { e with st := { e.st with overlapped := e.st.overlapped ++ [KEY_OVERLAP_MARKER] } } j false
    | notInTrie => rfl
    | inTrie => rfl

theorem doSeqPress_pre (t : Trie Nat) (mc : Bool) (o : List Out) (p : List Nat) (e : Eng) (k mm : Nat) :
    doSeqPress t mc (e.pre o p) k mm = (doSeqPress t mc e k mm).pre o p := by
  unfold doSeqPress
  simp only [pressBase_pre, reconcile_pre, pre_st]
  exact finish_pre t o p _

theorem allReleasedHook_pre (t : Trie Nat) (o : List Out) (p : List Nat) (e : Eng) :
    allReleasedHook t (e.pre o p) = (allReleasedHook t e).pre o p := by
  cases ha : e.st.active with
  | false =>
    have h1 : (e.pre o p).st.active = false := ha
    simp only [allReleasedHook, h1, ha, Bool.not_false, if_true]
  | true =>
    have h1 : (e.pre o p).st.active = true := ha
    simp only [allReleasedHook, ha, Bool.not_true, Bool.false_eq_true, if_false, pre_st]
    cases hg : t.getOrDescendant (e.st.overlapped ++ [KEY_OVERLAP_MARKER]) with
    | hasValue j =>
      simp only []
      exact terminate_pre o p
        { e with st := { e.st with overlapped := e.st.overlapped ++ [KEY_OVERLAP_MARKER], active := true } } j true
    | notInTrie => rfl
    | inTrie => rfl

theorem tickSeq_pre (o : List Out) (p : List Nat) (e : Eng) :
    tickSeq (e.pre o p) = (match tickSeq e with | .ok e' => .ok (e'.pre o p) | .error c => .error c) := by
  cases ha : e.st.active with
  | false =>
    have h1 : (e.pre o p).st.active = false := ha
    simp only [tickSeq, h1, ha, Bool.not_false, if_true]
  | true =>
    have h1 : (e.pre o p).st.active = true := ha
    simp only [tickSeq, ha, Bool.not_true, Bool.false_eq_true, if_false, pre_st]
    by_cases h0 : e.st.ticksUntilTimeout = 0
    · simp only [h0, if_true]
    · simp only [h0, if_false]
      by_cases h1 : e.st.ticksUntilTimeout - 1 = 0
      · simp only [h1, if_true]
        congr 1
        exact cancelSequence_pre o p { e with st := { e.st with ticksUntilTimeout := 0, active := true } }
      · simp only [h1, if_false]
        rfl

theorem reconcile_taps_states (t : Trie Nat) (e : Eng) (std ovl : List Nat × Res × Bool) :
    (reconcile t e std ovl).1.taps = e.taps ∧ (reconcile t e std ovl).1.states = e.states := by
  unfold reconcile
  split
  · exact ⟨rfl, rfl⟩
  · exact ⟨rfl, rfl⟩
  · exact ⟨rfl, rfl⟩
  · simp only []
    split
    · exact ⟨(cancelSequence_fields _).2.1, (cancelSequence_fields _).2.2.1⟩
    · exact ⟨rfl, rfl⟩

theorem append_singleton_ne_self {α} (l : List α) (a : α) : l ++ [a] ≠ l := by
  intro h
  have := congrArg List.length h
  simp at this

/-- a call of the completion check that taps nothing leaves `layout.states` alone -/
theorem finish_notap (t : Trie Nat) (x : Eng × Res × Res) (h : (finish t x).taps = x.1.taps) :
    (finish t x).states = x.1.states := by
  obtain ⟨e, r1, r2⟩ := x
  have hterm : ∀ (e' : Eng) j b, (terminate e' j b).taps = e.taps → e'.taps = e.taps → False := by
    intro e' j b h2 h1
    rw [(terminate_fields e' j b).2.1, h1] at h2
    exact append_singleton_ne_self _ _ h2
  cases r2 with
  | hasValue j => exact (hterm e j true h rfl).elim
  | notInTrie =>
    cases r1 with
    | hasValue j =>
      simp only [finish] at h
      split at h
      · exact (hterm _ _ _ h rfl).elim
      · exact (hterm _ _ _ h rfl).elim
    | notInTrie => rfl
    | inTrie => rfl
  | inTrie =>
    cases r1 with
    | hasValue j =>
      simp only [finish] at h
      split at h
      · exact (hterm _ _ _ h rfl).elim
      · exact (hterm _ _ _ h rfl).elim
    | notInTrie => rfl
    | inTrie => rfl

theorem doSeqPress_notap (t : Trie Nat) (mc : Bool) (e : Eng) (k mm : Nat)
    (h : (doSeqPress t mc e k mm).taps = e.taps) : (doSeqPress t mc e k mm).states = e.states := by
  unfold doSeqPress at h ⊢
  have hr := reconcile_taps_states t (pressBase e k) (stdVariant t mc (e.st.sequence ++ [normaliseMod k ||| mm]))
    (overlapFix t e.st.overlapped (normaliseMod k ||| mm) ((normaliseMod k ||| mm) &&& MASK_KEYCODES ||| KEY_OVERLAP_MARKER))
  have hpb : (pressBase e k).taps = e.taps ∧ (pressBase e k).states = e.states := ⟨rfl, rfl⟩
  rw [finish_notap t _ (by rw [h, hr.1, hpb.1]), hr.2, hpb.2]

theorem allReleasedHook_notap (t : Trie Nat) (e : Eng) (h : (allReleasedHook t e).taps = e.taps) :
    (allReleasedHook t e).states = e.states := by
  cases ha : e.st.active with
  | false => simp only [allReleasedHook, ha, Bool.not_false, if_true]
  | true =>
    simp only [allReleasedHook, ha, Bool.not_true, Bool.false_eq_true, if_false] at h ⊢
    cases hg : t.getOrDescendant (e.st.overlapped ++ [KEY_OVERLAP_MARKER]) with
    | hasValue j =>
      simp only [hg] at h
      rw [(terminate_fields _ j true).2.1] at h
      exact (append_singleton_ne_self _ _ h).elim
    | notInTrie => rfl
    | inTrie => rfl

theorem tickSeq_states_taps (e e' : Eng) (h : tickSeq e = .ok e') : e'.states = e.states ∧ e'.taps = e.taps := by
  unfold tickSeq at h
  split at h
  · injection h with h; subst h; exact ⟨rfl, rfl⟩
  · split at h
    · cases h
    · simp only [] at h
      split at h
      · injection h with h; subst h
        exact ⟨(cancelSequence_fields _).2.2.1, (cancelSequence_fields _).2.1⟩
      · injection h with h; subst h; exact ⟨rfl, rfl⟩

/-- a step that taps nothing leaves `layout.states` alone -/
theorem engStep_notap (t : Trie Nat) (mc : Bool) (e e' : Eng) (i : Inp) (h : engStep t mc e i = .ok e')
    (ht : e'.taps = e.taps) : e'.states = e.states := by
  cases i with
  | key k =>
    simp only [engStep] at h
    injection h with h
    subst h
    split
    · rename_i ha
      simp only [ha, if_true] at ht
      exact doSeqPress_notap t mc e k 0 ht
    · rfl
  | tick => exact (tickSeq_states_taps e e' h).1
  | released =>
    simp only [engStep] at h
    injection h with h
    subst h
    exact allReleasedHook_notap t e ht


def mapPre (o : List Out) (p : List Nat) : Except Crash Eng → Except Crash Eng
  | .ok e => .ok (e.pre o p)
  | .error c => .error c

theorem engStep_pre (t : Trie Nat) (mc : Bool) (o : List Out) (p : List Nat) (e : Eng) (i : Inp) :
    engStep t mc (e.pre o p) i = mapPre o p (engStep t mc e i) := by
  cases i with
  | key k =>
    cases ha : e.st.active with
    | true => simp only [engStep, pre_st, mapPre, ha, if_true, doSeqPress_pre]
    | false =>
      simp only [engStep, pre_st, mapPre, ha, Bool.false_eq_true, if_false]
      simp only [Eng.pre, List.append_assoc]
  | tick =>
    simp only [engStep, tickSeq_pre, mapPre]
  | released => simp only [engStep, allReleasedHook_pre, mapPre]

theorem engRun_pre (t : Trie Nat) (mc : Bool) (o : List Out) (p : List Nat) : ∀ (is : List Inp) (e : Eng),
    engRun t mc (e.pre o p) is = mapPre o p (engRun t mc e is)
  | [], e => rfl
  | i :: is, e => by
    simp only [engRun, engStep_pre]
    cases h : engStep t mc e i with
    | error c => rfl
    | ok e1 => simp only [mapPre]; exact engRun_pre t mc o p is e1

theorem pre_zero (e : Eng) : ({ e with out := [], taps := [] } : Eng).pre e.out e.taps = e := by
  simp [Eng.pre]

theorem engStep_taps_mono (t : Trie Nat) (mc : Bool) (e e' : Eng) (i : Inp) (h : engStep t mc e i = .ok e') :
    ∃ p, e'.taps = e.taps ++ p := by
  rw [← pre_zero e, engStep_pre] at h
  cases hr : engStep t mc { e with out := [], taps := [] } i with
  | error c => rw [hr] at h; cases h
  | ok r =>
    rw [hr] at h
    simp only [mapPre] at h
    injection h with h
    exact ⟨r.taps, by rw [← h]; rfl⟩

theorem engRun_taps_mono (t : Trie Nat) (mc : Bool) : ∀ (is : List Inp) (e e' : Eng),
    engRun t mc e is = .ok e' → ∃ p, e'.taps = e.taps ++ p
  | [], e, e', h => by simp only [engRun] at h; injection h with h; exact ⟨[], by rw [← h]; simp⟩
  | i :: is, e, e', h => by
    simp only [engRun] at h
    cases h1 : engStep t mc e i with
    | error c => rw [h1] at h; cases h
    | ok e1 =>
      rw [h1] at h
      obtain ⟨p1, hp1⟩ := engStep_taps_mono t mc e e1 i h1
      obtain ⟨p2, hp2⟩ := engRun_taps_mono t mc is e1 e' h
      exact ⟨p1 ++ p2, by rw [hp2, hp1, List.append_assoc]⟩

/-- no step of the stream turns sequence mode on (only the leader action and always-on do) -/
theorem engStep_active_back (t : Trie Nat) (mc : Bool) (e e' : Eng) (i : Inp) (h : engStep t mc e i = .ok e')
    (ha : e'.st.active = true) : e.st.active = true := by
  cases hact : e.st.active with
  | true => rfl
  | false =>
    exfalso
    cases i with
    | key k =>
      simp only [engStep, hact, Bool.false_eq_true, if_false] at h
      injection h with h; subst h
      simp only [hact] at ha; cases ha
    | tick =>
      simp only [engStep, tickSeq, hact, Bool.not_false, if_true] at h
      injection h with h; subst h
      rw [hact] at ha; cases ha
    | released =>
      simp only [engStep, allReleasedHook, hact, Bool.not_false, if_true] at h
      injection h with h; subst h
      rw [hact] at ha; cases ha

theorem engRun_active_back (t : Trie Nat) (mc : Bool) : ∀ (is : List Inp) (e e' : Eng),
    engRun t mc e is = .ok e' → e'.st.active = true → e.st.active = true
  | [], e, e', h, ha => by simp only [engRun] at h; injection h with h; rw [h]; exact ha
  | i :: is, e, e', h, ha => by
    simp only [engRun] at h
    cases h1 : engStep t mc e i with
    | error c => rw [h1] at h; cases h
    | ok e1 =>
      rw [h1] at h
      exact engStep_active_back t mc e e1 i h1 (engRun_active_back t mc is e1 e' h ha)

end KVerif.Seq
