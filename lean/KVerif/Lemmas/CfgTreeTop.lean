/-
Lemmas for C16 about the top-level machinery: include splicing, platform filtering, the alias table
and the two layer-table fillers.
-/
import KVerif.Model.CfgTree
namespace KVerif.CfgTree

/-! ### include -/

theorem expandIncludes_append (files : Files) (a b : List (List Tree)) :
    expandIncludes files (a ++ b) =
      match expandIncludes files a with
      | .error e => .error e
      | .ok ra => match expandIncludes files b with
        | .error e => .error e
        | .ok rb => .ok (ra ++ rb) := by
  induction a with
  | nil =>
    simp only [List.nil_append, expandIncludes]
    cases expandIncludes files b <;> rfl
  | cons item rest ih =>
    simp only [List.cons_append, expandIncludes]
    split
    · rfl
    · rename_i xs hxs
      rw [ih]
      cases expandIncludes files rest with
      | error e => rfl
      | ok ra =>
        cases expandIncludes files b with
        | error e => rfl
        | ok rb => simp

/-- items that are not `(include …)` pass through unchanged -/
theorem expandIncludes_noinclude (files : Files) (xs : List (List Tree))
    (h : ∀ i ∈ xs, headIs sInclude i = false) : expandIncludes files xs = .ok xs := by
  induction xs with
  | nil => rfl
  | cons item rest ih =>
    have h1 : headIs sInclude item = false := h item (by simp)
    have h2 : ∀ i ∈ rest, headIs sInclude i = false := fun i hi => h i (by simp [hi])
    simp [expandIncludes, h1, ih h2]

theorem expandIncludes_single (files : Files) (path : Str) (xs : List (List Tree))
    (hf : lookup (trimAtomQuotes path) files = some xs) :
    expandIncludes files [[.atom sInclude, .atom path]] = .ok xs := by
  simp [expandIncludes, headIs, hf]

/-! ### platform -/

theorem filterPlatform_append (cur : Str) (a b : List (List Tree)) :
    filterPlatform cur (a ++ b) =
      match filterPlatform cur a with
      | .error e => .error e
      | .ok ra => match filterPlatform cur b with
        | .error e => .error e
        | .ok rb => .ok (ra ++ rb) := by
  induction a with
  | nil =>
    simp only [List.nil_append, filterPlatform]
    cases filterPlatform cur b <;> rfl
  | cons item rest ih =>
    simp only [List.cons_append, filterPlatform]
    split
    · rfl
    · rw [ih]
      cases filterPlatform cur rest with
      | error e => rfl
      | ok ra =>
        cases filterPlatform cur b with
        | error e => rfl
        | ok rb => simp

/-- a list of valid platform names is accepted and returned as it is -/
theorem checkPlatformNames_ok (ps : List Str) (h : ∀ p ∈ ps, p ∈ validPlatforms) :
    checkPlatformNames (ps.map .atom) = .ok ps := by
  induction ps with
  | nil => rfl
  | cons p rest ih =>
    have h1 : p ∈ validPlatforms := h p (by simp)
    have h2 : ∀ q ∈ rest, q ∈ validPlatforms := fun q hq => h q (by simp [hq])
    simp [checkPlatformNames, h1, ih h2]

/-! ### aliases -/

theorem lookup_append_left {β} (k : Str) (l1 l2 : List (Str × β)) (v : β)
    (h : lookup k l1 = some v) : lookup k (l1 ++ l2) = some v := by
  induction l1 with
  | nil => simp [lookup] at h
  | cons p rest ih =>
    obtain ⟨k', v'⟩ := p
    simp only [lookup, List.cons_append] at h ⊢
    split
    · rename_i hk; simpa [hk] using h
    · rename_i hk; simp only [hk, if_false] at h; exact ih h

theorem lookup_append_right {β} (k : Str) (l1 l2 : List (Str × β))
    (h : lookup k l1 = none) : lookup k (l1 ++ l2) = lookup k l2 := by
  induction l1 with
  | nil => rfl
  | cons p rest ih =>
    obtain ⟨k', v'⟩ := p
    simp only [lookup, List.cons_append] at h ⊢
    split
    · rename_i hk; simp [hk] at h
    · rename_i hk; simp only [hk, if_false] at h; exact ih h


theorem lookup_isSome_append {β} (k : Str) (l1 l2 : List (Str × β)) :
    (lookup k (l1 ++ l2)).isSome = ((lookup k l1).isSome || (lookup k l2).isSome) := by
  cases h : lookup k l1 with
  | none => simp [lookup_append_right k l1 l2 h]
  | some v => simp [lookup_append_left k l1 l2 v h]

/-- `t1 ⊑ t2`: every binding of `t1` is a binding of `t2` -/
def SubTable {β} (t1 t2 : List (Str × β)) : Prop := ∀ k v, lookup k t1 = some v → lookup k t2 = some v

theorem SubTable.refl {β} (t : List (Str × β)) : SubTable t t := fun _ _ h => h

theorem SubTable.trans {β} {a b c : List (Str × β)} (h1 : SubTable a b) (h2 : SubTable b c) :
    SubTable a c := fun k v h => h2 k v (h1 k v h)

theorem SubTable.append_fresh {β} (t : List (Str × β)) (n : Str) (a : β) :
    SubTable t (t ++ [(n, a)]) := fun k v h => lookup_append_left k t _ v h

/-- The alias table only grows, and what it returns is determined pair by pair: after the pairs
`ps`, the table holds for each name the parse of its action *in the table as it was when the pair
was read*. -/
theorem parseAliasPairs_sub {α} (parse : List (Str × α) → Tree → Res α)
    (al : List (Str × α)) (ps : List Tree) (al' : List (Str × α))
    (h : parseAliasPairs parse al ps = .ok al') : SubTable al al' := by
  fun_induction parseAliasPairs parse al ps generalizing al' with
  | case1 al => cases h; exact SubTable.refl _
  | case2 => simp [rej] at h
  | case3 => simp [rej] at h
  | case4 al n e rest err hp => simp at h
  | case5 al n e rest a hp hdup => simp [rej] at h
  | case6 al n e rest a hp hdup ih =>
    exact SubTable.trans (SubTable.append_fresh al n a) (ih al' h)

/-- name/action pairs as they are written inside `(defalias …)` -/
def flatPairs : List (Str × Tree) → List Tree
  | [] => []
  | (n, e) :: rest => .atom n :: e :: flatPairs rest

theorem parseAliasPairs_flat_append {α} (parse : List (Str × α) → Tree → Res α)
    (ps : List (Str × Tree)) (al : List (Str × α)) (rest : List Tree) :
    parseAliasPairs parse al (flatPairs ps ++ rest) =
      match parseAliasPairs parse al (flatPairs ps) with
      | .error e => .error e
      | .ok al1 => parseAliasPairs parse al1 rest := by
  induction ps generalizing al with
  | nil => simp [flatPairs, parseAliasPairs]
  | cons p more ih =>
    obtain ⟨n, e⟩ := p
    simp only [flatPairs, List.cons_append, parseAliasPairs]
    cases parse al e with
    | error err => rfl
    | ok a =>
      simp only
      split
      · rfl
      · exact ih _

theorem inlineList_append (al : List (Str × Tree)) (a b : List Tree) :
    inlineList al (a ++ b) =
      match inlineList al a with
      | .error e => .error e
      | .ok ra => match inlineList al b with
        | .error e => .error e
        | .ok rb => .ok (ra ++ rb) := by
  induction a with
  | nil => simp only [List.nil_append, inlineList]; cases inlineList al b <;> rfl
  | cons t rest ih =>
    simp only [List.cons_append, inlineList]
    cases inlineTree al t with
    | error e => rfl
    | ok t' =>
      simp only [ih]
      cases inlineList al rest with
      | error e => rfl
      | ok ra => cases inlineList al b <;> simp

/-- replacing a subexpression by one with the same alias-resolved view does not change the view of
the whole -/
theorem inlineTree_congr (al : List (Str × Tree)) (t1 t2 : Tree)
    (h : inlineTree al t1 = inlineTree al t2) (c : Ctx) :
    inlineTree al (c.plug t1) = inlineTree al (c.plug t2) := by
  induction c with
  | hole => exact h
  | node pre c post ih =>
    simp only [Ctx.plug, inlineTree, inlineList_append, inlineList, ih]

mutual
  theorem inlineTree_mono (al1 al2 : List (Str × Tree)) (hs : SubTable al1 al2) :
      ∀ (t r : Tree), inlineTree al1 t = .ok r → inlineTree al2 t = .ok r
    | .atom a, r, h => by
      simp only [inlineTree] at h ⊢
      split at h
      · exact h
      · rename_i n hn
        split at h
        · rename_i t ht
          simp only [hn, hs n t ht]; exact h
        · simp [rej] at h
    | .list l, r, h => by
      simp only [inlineTree] at h ⊢
      cases hl : inlineList al1 l with
      | error e => simp [hl] at h
      | ok l' =>
        simp only [hl] at h
        simp only [inlineList_mono al1 al2 hs l l' hl]; exact h
  theorem inlineList_mono (al1 al2 : List (Str × Tree)) (hs : SubTable al1 al2) :
      ∀ (l r : List Tree), inlineList al1 l = .ok r → inlineList al2 l = .ok r
    | [], r, h => by simpa [inlineList] using h
    | t :: rest, r, h => by
      simp only [inlineList] at h ⊢
      cases ht : inlineTree al1 t with
      | error e => simp [ht] at h
      | ok t' =>
        simp only [ht] at h
        cases hr : inlineList al1 rest with
        | error e => simp [hr] at h
        | ok r' =>
          simp only [hr] at h
          simp only [inlineTree_mono al1 al2 hs t t' ht, inlineList_mono al1 al2 hs rest r' hr]
          exact h
end

/-! ### the value of an alias; naming an action -/

theorem aliasName?_eq_some (s n : Str) : aliasName? s = some n ↔ s = '@' :: n := by
  cases s with
  | nil => simp [aliasName?]
  | cons c cs =>
    by_cases hc : c = '@'
    · subst hc; simp [aliasName?]
    · simp only [List.cons.injEq, hc, false_and, iff_false]
      unfold aliasName?
      split
      · rename_i heq; simp only [List.cons.injEq] at heq; exact absurd heq.1 hc
      · simp

/-- After all pairs are read, an alias holds the parse of its action *in the table as it was when
its pair was read*; later pairs cannot change it (a duplicate name is an error). -/
theorem parseAliasPairs_value {α} (parse : List (Str × α) → Tree → Res α)
    (ps : List (Str × Tree)) (n : Str) (e : Tree) (rest : List Tree) (al al' : List (Str × α))
    (h : parseAliasPairs parse al (flatPairs ps ++ .atom n :: e :: rest) = .ok al') :
    ∃ al1 a, parseAliasPairs parse al (flatPairs ps) = .ok al1 ∧ parse al1 e = .ok a ∧
      lookup n al1 = none ∧ lookup n al' = some a := by
  rw [parseAliasPairs_flat_append] at h
  cases h1 : parseAliasPairs parse al (flatPairs ps) with
  | error err => simp [h1] at h
  | ok al1 =>
    simp only [h1, parseAliasPairs] at h
    cases h2 : parse al1 e with
    | error err => simp [h2] at h
    | ok a =>
      simp only [h2] at h
      split at h
      · simp [rej] at h
      · rename_i hdup
        have hnone : lookup n al1 = none := by
          cases hl : lookup n al1 with
          | none => rfl
          | some v => simp [hl] at hdup
        refine ⟨al1, a, rfl, h2, hnone, ?_⟩
        apply parseAliasPairs_sub parse _ rest al' h n a
        rw [lookup_append_right n al1 _ hnone]
        simp [lookup]

/-- the atom `s` occurs nowhere in the context -/
def Ctx.Avoids (s : Str) : Ctx → Prop
  | .hole => True
  | .node pre c post => (∀ t ∈ pre, s ∉ atomsOfTree t) ∧ c.Avoids s ∧ (∀ t ∈ post, s ∉ atomsOfTree t)

theorem atomsOfList_append (a b : List Tree) : atomsOfList (a ++ b) = atomsOfList a ++ atomsOfList b := by
  induction a with
  | nil => rfl
  | cons t rest ih => simp [atomsOfList, ih]

theorem not_mem_atomsOfList (s : Str) (l : List Tree) (h : ∀ t ∈ l, s ∉ atomsOfTree t) :
    s ∉ atomsOfList l := by
  induction l with
  | nil => simp [atomsOfList]
  | cons t rest ih =>
    simp only [atomsOfList, List.mem_append, not_or]
    exact ⟨h t (by simp), ih (fun t ht => h t (by simp [ht]))⟩

theorem Ctx.Avoids.plug {s : Str} {c : Ctx} (hc : c.Avoids s) {e : Tree} (he : s ∉ atomsOfTree e) :
    s ∉ atomsOfTree (c.plug e) := by
  induction c with
  | hole => exact he
  | node pre c post ih =>
    obtain ⟨h1, h2, h3⟩ := hc
    simp only [Ctx.plug, atomsOfTree, atomsOfList_append, atomsOfList, List.mem_append, not_or]
    exact ⟨not_mem_atomsOfList s pre h1, ih h2, not_mem_atomsOfList s post h3⟩

mutual
  /-- an alias nothing refers to can be removed from the table -/
  theorem inlineTree_strengthen (al : List (Str × Tree)) (n : Str) (a : Tree) :
      ∀ (t r : Tree), ('@' :: n) ∉ atomsOfTree t → inlineTree (al ++ [(n, a)]) t = .ok r →
        inlineTree al t = .ok r
    | .atom s, r, hs, h => by
      simp only [inlineTree] at h ⊢
      cases hn : aliasName? s with
      | none => simp only [hn] at h ⊢; exact h
      | some m =>
        simp only [hn] at h ⊢
        have hm : m ≠ n := by
          intro hmn; subst hmn
          apply hs; simp [atomsOfTree, (aliasName?_eq_some s m).mp hn]
        cases hl : lookup m al with
        | some v => simp only [lookup_append_left m al _ v hl] at h; exact h
        | none =>
          rw [lookup_append_right m al _ hl] at h
          simp only [lookup] at h
          rw [if_neg (fun hh : n = m => hm hh.symm)] at h
          simp [rej] at h
    | .list l, r, hs, h => by
      simp only [inlineTree] at h ⊢
      cases hl : inlineList (al ++ [(n, a)]) l with
      | error e => simp [hl] at h
      | ok l' =>
        simp only [hl] at h
        rw [inlineList_strengthen al n a l l' (by simpa [atomsOfTree] using hs) hl]
        exact h
  theorem inlineList_strengthen (al : List (Str × Tree)) (n : Str) (a : Tree) :
      ∀ (l r : List Tree), ('@' :: n) ∉ atomsOfList l → inlineList (al ++ [(n, a)]) l = .ok r →
        inlineList al l = .ok r
    | [], r, _, h => by simpa [inlineList] using h
    | t :: rest, r, hs, h => by
      simp only [atomsOfList, List.mem_append, not_or] at hs
      simp only [inlineList] at h ⊢
      cases ht : inlineTree (al ++ [(n, a)]) t with
      | error e => simp [ht] at h
      | ok t' =>
        simp only [ht] at h
        cases hr : inlineList (al ++ [(n, a)]) rest with
        | error e => simp [hr] at h
        | ok r' =>
          simp only [hr] at h
          rw [inlineTree_strengthen al n a t t' hs.1 ht, inlineList_strengthen al n a rest r' hs.2 hr]
          exact h
end

end KVerif.CfgTree
