/-
C04 helper lemmas, part 2: one `tick` / `event` of the layout model on an inert state.
-/
import KVerif.Lemmas.Layered
namespace KVerif.C04
open KVerif.L KVerif.Spec.Layered

theorem Inert.of_eq {s s' : Layout} (h : Inert s)
    (h1 : s'.waiting = s.waiting) (h2 : s'.extraWaiting = s.extraWaiting)
    (h3 : s'.tapDanceEager = s.tapDanceEager) (h4 : s'.actionQueue = s.actionQueue)
    (h5 : s'.activeSequences = s.activeSequences) (h6 : s'.oneshot = s.oneshot)
    (h7 : s'.states = s.states) : Inert s' :=
  ⟨h1 ▸ h.waiting, h2 ▸ h.extra, h3 ▸ h.tde, h4 ▸ h.aq, h5 ▸ h.seqs, h6 ▸ h.osh, h6 ▸ h.pause, h7 ▸ h.states⟩

/-- what `tick` keeps on the fragment -/
structure Static (s s' : Layout) : Prop where
  cfg : s'.cfg = s.cfg
  tv2 : s'.transV2 = s.transV2
  dfl : s'.delegateToFirstLayer = s.delegateToFirstLayer

theorem Static.km {s s' : Layout} (h : Static s s') : km s' = km s := by
  simp [C04.km, h.cfg, h.tv2, h.dfl]

theorem processSequences_inert (s : Layout) (h1 : s.activeSequences = [])
    (h2 : ∀ st ∈ s.states, StOK st) : processSequences s = s := by
  unfold processSequences
  simp only [h1, List.length_nil, processSequences.go, List.isEmpty_nil, if_true]
  split
  · rename_i evs heq
    exfalso
    obtain ⟨st, hst, hf⟩ := List.exists_of_findSome?_eq_some heq
    have := h2 st (List.mem_reverse.mp hst)
    cases st <;> simp only [StOK] at this <;> first | cases hf | exact this
  · rfl

theorem tickPre_spec {s : Layout} (h : Inert s) :
    Inert (tickPre s) ∧ Static s (tickPre s) ∧ abs (tickPre s) = abs s := by
  unfold tickPre
  simp only [h.tde]
  simp (disch := first | exact h.seqs | exact h.states) only [processSequences_inert]
  refine ⟨h.of_eq rfl rfl h.tde.symm rfl rfl rfl rfl, ⟨rfl, rfl, rfl⟩, ?_⟩
  simp only [abs, List.map_map]
  congr 1

theorem tickOneshot_spec {s : Layout} (h : Inert s) : tickOneshot s = .ok (s, .noEvent) := by
  unfold tickOneshot OneShotState.tick
  simp [h.osh]

theorem filterMap_congr' {α β} {f g : α → Option β} : ∀ {l : List α}, (∀ x ∈ l, f x = g x) →
    l.filterMap f = l.filterMap g
  | [], _ => rfl
  | x :: xs, h => by
    have hx := h x (by simp)
    have ih := filterMap_congr' (l := xs) (fun y hy => h y (by simp [hy]))
    simp only [List.filterMap_cons, hx, ih]

theorem keycodes_abs {s : Layout} (h : ∀ st ∈ s.states, StOK st) : s.keycodes = keys (abs s) := by
  unfold Layout.keycodes keys abs
  simp only [List.filterMap_map]
  apply filterMap_congr'
  intro st hst
  have := h st hst
  cases st <;> simp only [StOK] at this <;> first | rfl | exact absurd this id

theorem heldLayers_abs {s : Layout} (h : ∀ st ∈ s.states, StOK st) :
    s.activeHeldLayers = heldLayers (abs s) := by
  unfold Layout.activeHeldLayers heldLayers abs
  simp only [List.filterMap_map]
  congr 1
  apply filterMap_congr'
  intro st hst
  have := h st hst
  cases st <;> simp only [StOK] at this <;> first | rfl | exact absurd this id

theorem findSome_head (l : List St) :
    l.findSome? St.getLayer = (l.filterMap St.getLayer).head? := by
  induction l with
  | nil => rfl
  | cons x xs ih =>
    simp only [List.findSome?_cons, List.filterMap_cons]
    cases hx : St.getLayer x with
    | none => exact ih
    | some v => rfl

theorem currentLayer_abs {s : Layout} (h : ∀ st ∈ s.states, StOK st) :
    s.currentLayer = currentLayer (abs s) := by
  have hh := heldLayers_abs h
  unfold Layout.activeHeldLayers at hh
  unfold Layout.currentLayer Spec.Layered.currentLayer
  rw [← hh, findSome_head, List.filterMap_reverse]
  cases (s.states.filterMap St.getLayer).reverse <;> rfl

theorem transOrder_spec {s : Layout} (h : Inert s) (order : List Nat)
    (ho : s.transOrder = .ok order) (hl : (heldLayers (abs s)).length + 2 ≤ MAX_ACTIVE_LAYERS) :
    order = searchOrder (km s) (abs s) := by
  have hh := heldLayers_abs h.states
  have hc := currentLayer_abs h.states
  unfold Layout.transOrder at ho
  unfold searchOrder
  simp only [km, ← hh, ← hc]
  have hlen : s.activeHeldLayers.length + 2 ≤ 12 := hh ▸ hl
  have habs : (abs s).base = s.defaultLayer := rfl
  simp only [habs]
  have htake : (if s.cfg.pinnedLayerStack = true then s.activeHeldLayers
      else s.activeHeldLayers.take MAX_ACTIVE_LAYERS) = s.activeHeldLayers := by
    split
    · rfl
    · exact List.take_of_length_le (by simp only [MAX_ACTIVE_LAYERS]; omega)
  by_cases hv : s.transV2 = true
  · simp only [hv, if_true, htake] at ho ⊢
    rw [if_neg (by simp only [MAX_ACTIVE_LAYERS]; omega)] at ho
    have p1 : pushCap MAX_ACTIVE_LAYERS s.activeHeldLayers s.defaultLayer = s.activeHeldLayers ++ [s.defaultLayer] := by
      unfold pushCap; rw [if_pos (by simp only [MAX_ACTIVE_LAYERS]; omega)]
    have p2 : pushCap MAX_ACTIVE_LAYERS (s.activeHeldLayers ++ [s.defaultLayer]) 0 = s.activeHeldLayers ++ [s.defaultLayer] ++ [0] := by
      unfold pushCap; rw [if_pos (by simp only [MAX_ACTIVE_LAYERS, List.length_append, List.length_cons, List.length_nil]; omega)]
    simp only [p1, p2] at ho
    split at ho <;> rename_i hcond <;> injection ho with ho <;> simp [← ho, hcond]
  · simp only [hv] at ho ⊢
    injection ho with ho
    rw [← ho]
    split <;> simp_all

theorem releaseStates_spec (c : Coord) : ∀ (states : List St), (∀ st ∈ states, StOK st) →
    releaseStates true c states .noEvent =
      (states.filter (fun st => st.coord != some c), .noEvent) := by
  intro states
  induction states with
  | nil => intro _; rfl
  | cons st rest ih =>
    intro h
    have hst := h st (by simp)
    have ihr := ih (fun x hx => h x (by simp [hx]))
    cases st <;> simp only [StOK] at hst <;> try exact absurd hst id
    · rename_i kc co f
      have hcl : (St.normalKey kc co f).clearOnNextRelease = false := by
        rcases hst with h0 | h0 <;> subst h0 <;> rfl
      simp only [releaseStates, hcl, Bool.and_false, Bool.false_eq_true, if_false, St.release, ihr]
      by_cases hco : co = c
      · simp [hco, St.coord, ihr]
      · have : (co == c) = false := by simpa using hco
        simp [this, St.coord, hco, ihr]
    · rename_i v co
      simp only [releaseStates, St.clearOnNextRelease, Bool.and_false, Bool.false_eq_true, if_false, St.release, ihr]
      by_cases hco : co = c
      · simp [hco, St.coord, ihr]
      · have : (co == c) = false := by simpa using hco
        simp [this, St.coord, hco, ihr]

theorem dequeue_release_spec {s : Layout} (h : Inert s) (c : Coord) (since : Nat) :
    ∃ s', dequeue FUEL s ⟨.release c, since⟩ = .ok (s', .noEvent) ∧ Inert s' ∧ Static s s' ∧
      s'.queue = s.queue ∧
      abs s' = { abs s with contribs := (abs s).contribs.filter (fun x => contribCoord x != c) } := by
  have hr := releaseStates_spec c s.states h.states
  refine ⟨{ s with states := s.states.filter (fun st => st.coord != some c) }, ?_, ?_, ⟨rfl, rfl, rfl⟩, rfl, ?_⟩
  · rw [FUEL_succ]
    simp only [dequeue, OneShotState.handleRelease, h.osh, List.isEmpty_nil, if_true, hr]
  · exact ⟨h.waiting, h.extra, h.tde, h.aq, h.seqs, h.osh, h.pause, stok_filter _ h.states⟩
  · have hm := map_filter_abs s.states (fun st => st.coord != some c) (fun x => contribCoord x != c)
      (by intro st _ hok; cases st <;> simp only [StOK] at hok <;>
            first | exact absurd hok id | simp [St.coord, absSt, contribCoord, bne])
      h.states
    simp only [abs, hm]

theorem dequeue_press_spec {s : Layout} (hc : CfgFrag s.cfg) (h : Inert s) (c : Coord) (since : Nat)
    (hl : (heldLayers (abs s)).length + 2 ≤ MAX_ACTIVE_LAYERS) (s' : Layout) (cu : CustomEv)
    (hd : dequeue FUEL s ⟨.press c, since⟩ = .ok (s', cu)) :
    Inert s' ∧ Same s s' ∧ cu = .noEvent ∧
      abs s' = perform (km s) c DEPTH (abs s) .trans (searchOrder (km s) (abs s)) := by
  rw [FUEL_succ] at hd
  simp only [dequeue, h.tde, bind, Except.bind] at hd
  split at hd
  · cases hd
  · rename_i order ho
    have hso := transOrder_spec h order ho hl
    subst hso
    exact (refines_all 3999).1 s .trans c since _ s' cu hc h trivial hd

theorem processExtraWaitings_inert {s : Layout} (h : s.extraWaiting = []) (cu : CustomEv) :
    processExtraWaitings s cu = .ok (s, cu) := by
  unfold processExtraWaitings
  split
  · rfl
  · simp only [h, tickExtraWaitings, List.reverse_nil]
    congr
    cases s; simp_all

theorem processSequenceCustom_inert {s : Layout} (h : ∀ st ∈ s.states, StOK st) (cu : CustomEv) :
    processSequenceCustom s cu = (s, cu) := by
  unfold processSequenceCustom
  split
  · rfl
  · have hf : s.states.filter (· != .tombstone) = s.states := by
      apply List.filter_eq_self.mpr
      intro st hst
      have := h st hst
      cases st <;> simp only [StOK] at this <;> first | exact absurd this id | simp
    have hgo : ∀ (l : List St), (∀ st ∈ l, StOK st) → processSequenceCustom.go cu l = (l, cu) := by
      intro l
      induction l with
      | nil => intro _; rfl
      | cons st rest ih =>
        intro hl
        have hst := hl st (by simp)
        have ihr := ih (fun x hx => hl x (by simp [hx]))
        cases st <;> simp only [StOK] at hst <;> first | exact absurd hst id | simp [processSequenceCustom.go, ihr]
    simp only [hf, hgo s.states h]

/-- **one tick of the layout on an inert state of the fragment is one step of the layered machine** -/
theorem tick_step {s : Layout} (hc : CfgFrag s.cfg) (h : Inert s)
    (hl : (heldLayers (abs s)).length + 2 ≤ MAX_ACTIVE_LAYERS) (s' : Layout) (cu : CustomEv)
    (ht : tick s = .ok (s', cu)) :
    Inert s' ∧ Static s s' ∧ cu = .noEvent ∧ abs s' = step (km s) (abs s) := by
  obtain ⟨p1, p2, p3⟩ := tickPre_spec h
  unfold tick at ht
  simp only [h.aq, tickOneshot_spec p1] at ht
  -- the main stage
  have hmain : ∀ s2 c2, tickMain (tickPre s) = .ok (s2, c2) →
      Inert s2 ∧ Static s s2 ∧ c2 = .noEvent ∧ abs s2 = step (km s) (abs s) := by
    intro s2 c2 hm
    unfold tickMain at hm
    simp only [p1.waiting, p1.extra, List.isEmpty_nil, if_true, p1.pause, Nat.lt_irrefl, if_false] at hm
    have hq : (abs s).pending = (tickPre s).queue.map (·.ev) := by rw [← p3]; rfl
    cases hqq : (tickPre s).queue with
    | nil =>
      simp only [hqq] at hm
      injection hm with hm; injection hm with h1 h2; subst h1; subst h2
      refine ⟨p1, p2, rfl, ?_⟩
      rw [p3]
      simp only [step, hq, hqq, List.map_nil]
    | cons q rest =>
      simp only [hqq] at hm
      have hi' : Inert ((tickPre s).setQueue rest) := p1.of_eq rfl rfl rfl rfl rfl rfl rfl
      have habs' : abs ((tickPre s).setQueue rest) = { abs s with pending := rest.map (·.ev) } := by
        have := p3; simp only [abs] at this ⊢
        injection this with t1 t2 t3
        simp [Layout.setQueue, t2, t3]
      obtain ⟨ev, since⟩ := q
      cases ev with
      | press c =>
        have := dequeue_press_spec (s := (tickPre s).setQueue rest) (p2.cfg ▸ hc) hi' c since
          (by rw [habs']; exact hl) s2 c2 hm
        obtain ⟨r1, r2, r3, r4⟩ := this
        have hkm : km ((tickPre s).setQueue rest) = km s := by
          simp [km, Layout.setQueue, p2.cfg, p2.tv2, p2.dfl]
        refine ⟨r1, ⟨r2.cfg.trans p2.cfg, r2.tv2.trans p2.tv2, r2.dfl.trans p2.dfl⟩, r3, ?_⟩
        rw [r4, hkm, habs']
        simp only [step, hq, hqq, List.map_cons]
      | release c =>
        obtain ⟨sx, e1, e2, e3, _, e5⟩ := dequeue_release_spec hi' c since
        rw [e1] at hm
        injection hm with hm; injection hm with h1 h2; subst h1; subst h2
        refine ⟨e2, ⟨e3.cfg.trans p2.cfg, e3.tv2.trans p2.tv2, e3.dfl.trans p2.dfl⟩, rfl, ?_⟩
        rw [e5, habs']
        simp only [step, hq, hqq, List.map_cons]
  split at ht
  · cases ht
  · rename_i s2 c2 hm
    obtain ⟨m1, m2, m3, m4⟩ := hmain s2 c2 hm
    subst m3
    rw [processExtraWaitings_inert m1.extra] at ht
    simp only [processSequenceCustom_inert m1.states] at ht
    injection ht with ht; injection ht with h1 h2; subst h1; subst h2
    exact ⟨m1, m2, rfl, m4⟩

/-- an input event is appended to the pending queue while fewer than 32 are pending -/
theorem event_input {s : Layout} (h : Inert s) (e : Ev) (hq : (abs s).pending.length < QUEUE_SIZE) :
    ∃ s', s.event e = .ok s' ∧ Inert s' ∧ Static s s' ∧ abs s' = input (abs s) e := by
  have hlen : s.queue.length < QUEUE_SIZE := by simpa [abs] using hq
  unfold Layout.event
  rw [FUEL_succ]
  cases e with
  | press c =>
    simp only [event, pushBackWrap, hlen, if_true]
    exact ⟨_, rfl, h.of_eq rfl rfl rfl rfl rfl rfl rfl, ⟨rfl, rfl, rfl⟩, by simp [abs, input]⟩
  | release c =>
    simp only [event, pushBackWrap, hlen, if_true]
    exact ⟨_, rfl, h.of_eq rfl rfl rfl rfl rfl rfl rfl, ⟨rfl, rfl, rfl⟩, by simp [abs, input]⟩

end KVerif.C04
