/-
C01 helper lemmas: quiescence of the stateful action kinds, derived from the invariants of the other
property files.

Part 1 (one-shot fragment of C06): a potential function on layout states that every tick without
input decreases, built from the queue (each queued press weighs `rapid-event-delay + 2`, each queued
release 1), the one-shot countdown (or a reserve of `B + 1` while a press is still queued that may
restart it) and the input pause.
-/
import KVerif.Lemmas.OneShotStep
namespace KVerif.Quiesce
open KVerif.L KVerif.C06

/-! ## the largest one-shot timeout of a configuration -/

/-- the timeout of a one-shot action -/
def oshT : Action → Nat
  | .oneShot _ T _ => T
  | _ => 0

def listMax (l : List Nat) : Nat := l.foldl max 0

theorem foldl_max_ge : ∀ (l : List Nat) (a : Nat), a ≤ l.foldl max a ∧ ∀ x ∈ l, x ≤ l.foldl max a := by
  intro l
  induction l with
  | nil => intro a; exact ⟨Nat.le_refl _, fun _ h => by cases h⟩
  | cons y ys ih =>
    intro a
    obtain ⟨i1, i2⟩ := ih (max a y)
    simp only [List.foldl_cons]
    refine ⟨Nat.le_trans (Nat.le_max_left a y) i1, fun x hx => ?_⟩
    rcases List.mem_cons.mp hx with rfl | hx
    · exact Nat.le_trans (Nat.le_max_right a x) i1
    · exact i2 x hx

theorem le_listMax {l : List Nat} {x : Nat} (h : x ∈ l) : x ≤ listMax l := (foldl_max_ge l 0).2 x h

/-- the largest timeout of any one-shot key of the configuration -/
def maxOneShot (c : LCfg) : Nat :=
  max (listMax (c.layers.map fun tbl => listMax (tbl.map fun e => oshT e.2)))
      (listMax (c.srcKeys.map fun e => oshT e.2))

/-- every one-shot timeout of the configuration is at most `B` -/
def OshBound (c : LCfg) (B : Nat) : Prop :=
  (∀ tbl ∈ c.layers, ∀ e ∈ tbl, oshT e.2 ≤ B) ∧ (∀ e ∈ c.srcKeys, oshT e.2 ≤ B)

theorem oshBound_max (c : LCfg) : OshBound c (maxOneShot c) := by
  refine ⟨fun tbl ht e he => ?_, fun e he => ?_⟩
  · have h1 : oshT e.2 ≤ listMax (tbl.map fun e => oshT e.2) :=
      le_listMax (List.mem_map.mpr ⟨e, he, rfl⟩)
    have h2 : listMax (tbl.map fun e => oshT e.2) ≤ listMax (c.layers.map fun tbl => listMax (tbl.map fun e => oshT e.2)) :=
      le_listMax (List.mem_map.mpr ⟨tbl, ht, rfl⟩)
    exact Nat.le_trans h1 (Nat.le_trans h2 (Nat.le_max_left _ _))
  · have h1 : oshT e.2 ≤ listMax (c.srcKeys.map fun e => oshT e.2) :=
      le_listMax (List.mem_map.mpr ⟨e, he, rfl⟩)
    exact Nat.le_trans h1 (Nat.le_max_right _ _)

/-- resolution returns an action of the configuration (or `NoOp`): any predicate that holds of every
configured action, of `NoOp` and of `Trans` holds of what `resolve_coord` finds -/
theorem resolve_pred (P : Action → Prop) (h0 : P .noOp) (ht : P .trans) (s : Layout) (coord : Coord)
    (hl : ∀ tbl ∈ s.cfg.layers, ∀ e ∈ tbl, P e.2) (hs : ∀ e ∈ s.cfg.srcKeys, P e.2) :
    ∀ (ls : List Nat) (a : Action) (rest : List Nat), s.resolveCoord coord ls = .ok (a, rest) → P a := by
  have hsrc : ∀ y, P (s.cfg.srcKey y) := by
    intro y
    unfold LCfg.srcKey
    split
    · rename_i a hf
      exact hs _ (List.mem_of_find?_eq_some hf)
    · exact h0
  have hlay : ∀ l co a, s.cfg.layerAction l co = .ok a → P a := by
    intro l co a h
    unfold LCfg.layerAction at h
    split at h; · cases h
    rename_i tbl htbl
    split at h; · cases h
    split at h; · cases h
    have hmem : tbl ∈ s.cfg.layers := List.mem_of_getElem? htbl
    split at h
    · rename_i e a' hf
      injection h with h; subst h
      exact hl tbl hmem _ (List.mem_of_find?_eq_some hf)
    · injection h with h; subst h; exact ht
  intro ls
  induction ls with
  | nil =>
    intro a rest h
    simp only [Layout.resolveCoord] at h
    split at h; · cases h
    split at h; · cases h
    split at h
    · split at h; · cases h
      injection h with h; injection h with h1 h2; subst h1
      exact hsrc _
    · injection h with h; injection h with h1 h2; subst h1; exact h0
  | cons l rest' ih =>
    intro a rest h
    simp only [Layout.resolveCoord] at h
    split at h; · cases h
    split at h; · cases h
    split at h
    · cases h
    · exact ih a rest h
    · rename_i x hnt hx
      injection h with h; injection h with h1 h2; subst h1
      exact hlay _ _ _ hx

/-! ## a dequeued press on the fragment: the one-shot operation with its timeout bounded, and the
quick-tap tracker -/

/-- as `C06.OshOp`, with the timeout an activation installs bounded by `B` -/
inductive OshOpT (B : Nat) (o : OneShotState) (c : Coord) : OneShotState → Option Coord → Prop
  | other : OshOpT B o c (o.handlePress (.other c)).1 none
  | activate (T : Nat) (v : OneShotEnd) (hT : T ≤ B) : OshOpT B o c (activate o c T v) (activateOverflow o c)
  | skip : OshOpT B o c o none

theorem prelude_lpt (s : Layout) (c : Coord) : (prelude s c).lptTapHoldTimeout ≤ s.lptTapHoldTimeout := by
  unfold prelude
  split
  · exact Nat.zero_le _
  · exact Nat.le_refl _

theorem updateCoord_lpt (s : Layout) (c : Coord) : (updateCoord s c).lptTapHoldTimeout = s.lptTapHoldTimeout := by
  unfold updateCoord
  split <;> rfl

theorem oshOther_lpt (s : Layout) (os : Bool) (c : Coord) :
    (oshOther s os c).1.lptTapHoldTimeout = s.lptTapHoldTimeout := by
  rw [oshOther_spec]

theorem pushKeyCodes_lpt (kcs : List KeyCode) (c : Coord) (f : Nat) : ∀ (s : Layout),
    (pushKeyCodes s kcs c f).lptTapHoldTimeout = s.lptTapHoldTimeout := by
  induction kcs with
  | nil => intro s; rfl
  | cons kc rest ih =>
    intro s
    have := ih (({ s with histKeys := histPush s.histKeys kc } : Layout).pushState (.normalKey kc c f))
    simp only [pushKeyCodes, List.foldl_cons] at this ⊢
    rw [this]; rfl

theorem armKeyCode_lpt (s : Layout) (a : Action) (kc : KeyCode) (c : Coord) (os : Bool) :
    (armKeyCode s a kc c os).lptTapHoldTimeout = s.lptTapHoldTimeout := by
  unfold armKeyCode
  simp only []
  split <;> simp only [oshOther_lpt, Layout.pushState, updateCoord_lpt]

theorem armMultipleKeyCodes_lpt (s : Layout) (a : Action) (kcs : List KeyCode) (c : Coord) (os : Bool) :
    (armMultipleKeyCodes s a kcs c os).lptTapHoldTimeout = s.lptTapHoldTimeout := by
  unfold armMultipleKeyCodes
  cases os
  · simp only [Bool.false_eq_true, if_false]
    split <;> simp only [oshOther_lpt, pushKeyCodes_lpt, updateCoord_lpt]
  · simp only [if_true]
    split <;> simp only [oshOther_lpt, pushKeyCodes_lpt, updateCoord_lpt]

theorem armLayer_lpt (s : Layout) (v : Nat) (c : Coord) (os : Bool) :
    (armLayer s v c os).lptTapHoldTimeout = s.lptTapHoldTimeout := by
  unfold armLayer
  simp only [oshOther_lpt, Layout.pushState, updateCoord_lpt]

theorem armNoOp_lpt (s : Layout) (a : Action) (c : Coord) (os : Bool) :
    (armNoOp s a c os).lptTapHoldTimeout = s.lptTapHoldTimeout := by
  unfold armNoOp Layout.oshPress
  simp only []
  split <;> rfl

theorem simpleArm_lpt (s : Layout) (a : Action) (c : Coord) (os : Bool) :
    (simpleArm s a c os).lptTapHoldTimeout = s.lptTapHoldTimeout := by
  unfold simpleArm
  split
  · exact armKeyCode_lpt ..
  · exact armMultipleKeyCodes_lpt ..
  · exact armLayer_lpt ..
  · rfl

theorem oneShotArm_lpt (s : Layout) (inner : Action) (T : Nat) (v : OneShotEnd) (c : Coord) :
    (oneShotArm s inner T v c).1.lptTapHoldTimeout ≤ s.lptTapHoldTimeout := by
  have h1 : (oneShotArm s inner T v c).1.lptTapHoldTimeout =
      (simpleArm (prelude (updateCoord s c) c) inner c true).lptTapHoldTimeout := by
    unfold oneShotArm armOneShotPost Layout.oshPress
    rfl
  rw [h1, simpleArm_lpt]
  exact Nat.le_trans (prelude_lpt _ _) (Nat.le_of_eq (updateCoord_lpt s c))

theorem event_room_lpt (fuel : Nat) (s : Layout) (e : Ev) (hq : s.queue.length < QUEUE_SIZE) (s' : Layout)
    (h : event (fuel + 1) s e = .ok s') : s'.lptTapHoldTimeout = s.lptTapHoldTimeout := by
  cases e <;> simp only [event, pushBackWrap, hq, if_true] at h <;>
    (injection h with h; subst h; rfl)

/-- `dispatch_frag` of C06 with the activation's timeout bounded and the quick-tap tracker followed -/
theorem dispatch_fragT (fuel : Nat) (B : Nat) (s : Layout) (a : Action) (hf : Frag a) (hT : oshT a ≤ B)
    (c : Coord) (d : Nat) (ls : List Nat) (s' : Layout) (cu : CustomEv) (hq : s.queue.length < QUEUE_SIZE)
    (h : dispatch (fuel + 3) s a c d false ls = .ok (s', cu)) :
    s'.lptTapHoldTimeout ≤ s.lptTapHoldTimeout ∧
    ∃ ov, OshOpT B s.oneshot c s'.oneshot ov ∧ s'.queue = s.queue ++ ovq ov := by
  cases a <;> simp only [Frag] at hf
  case noOp =>
    simp only [dispatch] at h
    injection h with h; injection h with h1 h2; subst h1
    obtain ⟨n1, n2, n3, n4⟩ := armNoOp_spec s .noOp c
    refine ⟨Nat.le_of_eq (armNoOp_lpt ..), ?_⟩
    by_cases hc : (c != (0, 0)) = true
    · exact ⟨none, by rw [n4, if_pos hc]; exact .other, by rw [n2]; simp [ovq]⟩
    · exact ⟨none, by rw [n4, if_neg hc]; exact .skip, by rw [n2]; simp [ovq]⟩
  case trans => simp only [dispatch] at h; cases h
  case keyCode kc =>
    simp only [dispatch] at h
    injection h with h; injection h with h1 h2; subst h1
    have a := armKeyCode_spec s (.keyCode kc) kc c false
    exact ⟨Nat.le_of_eq (armKeyCode_lpt ..), none, by rw [a.osh]; exact .other, by rw [a.queue]; simp [ovq]⟩
  case multipleKeyCodes kcs =>
    simp only [dispatch] at h
    injection h with h; injection h with h1 h2; subst h1
    have a := armMultipleKeyCodes_spec s (.multipleKeyCodes kcs) kcs c false
    exact ⟨Nat.le_of_eq (armMultipleKeyCodes_lpt ..), none, by rw [a.osh]; exact .other, by rw [a.queue]; simp [ovq]⟩
  case layer v =>
    simp only [dispatch] at h
    injection h with h; injection h with h1 h2; subst h1
    have a := armLayer_spec s v c false
    exact ⟨Nat.le_of_eq (armLayer_lpt ..), none, by rw [a.osh]; exact .other, by rw [a.queue]; simp [ovq]⟩
  case oneShot inner T v =>
    simp only [oshT] at hT
    rw [dispatch_oneShot fuel s inner hf] at h
    obtain ⟨o1, o2, o3, o4, o5⟩ := oneShotArm_spec s inner hf T v c
    have o6 := oneShotArm_lpt s inner T v c
    generalize oneShotArm s inner T v c = r at h o1 o2 o3 o4 o5 o6
    obtain ⟨s2, ov⟩ := r
    simp only at o1 o2 o3 o4 o5 o6
    cases ov with
    | none =>
      simp only at h
      injection h with h; injection h with h1 h2; subst h1
      exact ⟨o6, none, by rw [o4, o5]; exact .activate T v hT, by rw [o2]; simp [ovq]⟩
    | some k =>
      simp only at h
      obtain ⟨s3, e1, e2, e3, e4, e5⟩ := event_room (fuel + 1) s2 (.release k) (by rw [o2]; exact hq)
      have e6 := event_room_lpt (fuel + 1) s2 (.release k) (by rw [o2]; exact hq) s3 e1
      rw [e1] at h
      simp only at h
      injection h with h; injection h with h1 h2; subst h1
      refine ⟨by rw [e6]; exact o6, some k, ?_, ?_⟩
      · rw [e4, o4, o5]; exact .activate T v hT
      · rw [e2, o2]; rfl

/-- the predicate `resolve_pred` is used with -/
def FragT (B : Nat) (a : Action) : Prop := Frag a ∧ oshT a ≤ B

theorem dequeue_press_fragT {s : Layout} {B : Nat} (hc : CfgFrag s.cfg) (hb : OshBound s.cfg B) (h : Calm s)
    (hq : s.queue.length < QUEUE_SIZE) (c : Coord) (since : Nat) (s' : Layout) (cu : CustomEv)
    (hd : dequeue FUEL s ⟨.press c, since⟩ = .ok (s', cu)) :
    s'.lptTapHoldTimeout ≤ s.lptTapHoldTimeout ∧
    ∃ ov, OshOpT B s.oneshot c s'.oneshot ov ∧ s'.queue = s.queue ++ ovq ov := by
  rw [FUEL_5] at hd
  simp only [dequeue, h.tde, bind, Except.bind] at hd
  split at hd
  · cases hd
  · rename_i order ho
    simp only [doAction] at hd
    split at hd
    · cases hd
    · rename_i a ls hm
      have hfa : FragT B a := resolve_pred (FragT B) ⟨trivial, Nat.zero_le _⟩ ⟨trivial, Nat.zero_le _⟩ s c
        (fun tbl ht e he => ⟨hc.1 tbl ht e he, hb.1 tbl ht e he⟩) (fun e he => ⟨hc.2 e he, hb.2 e he⟩) _ _ _ hm
      obtain ⟨p1, p2, p3, p4⟩ := prelude_spec s c
      obtain ⟨r1, ov, q1, q2⟩ := dispatch_fragT 3995 B (prelude s c) a hfa.1 hfa.2 c since ls s' cu (by rw [p3]; exact hq) hd
      exact ⟨Nat.le_trans r1 (prelude_lpt s c), ov, by rw [p2] at q1; exact q1, by rw [q2, p3]⟩

/-! ## the potential -/

/-- what the one-shot countdown still costs: nothing when no one-shot key is active, one tick when a
release is requested, otherwise the remaining countdown (at least one tick) -/
def oshLoad (o : OneShotState) : Nat :=
  if o.keys = [] then 0 else if o.releaseOnNextTick then 1 else max o.timeout 1

/-- weight of a queued event: a press may start an input pause of `d` ticks -/
def evW (d : Nat) (q : Queued) : Nat :=
  match q.ev with
  | .press _ => d + 2
  | .release _ => 1

def queueLoad (d : Nat) (q : List Queued) : Nat := (q.map (evW d)).sum

/-- while a press is queued it may be that of a one-shot key, restarting the countdown at up to `B` -/
def reserve (B : Nat) (q : List Queued) : Nat := if q.any (·.ev.isPress) then B + 1 else 0

/-- an upper bound for the number of ticks until the layout is at rest -/
def potential (B d : Nat) (s : Layout) : Nat :=
  queueLoad d s.queue + max (oshLoad s.oneshot) (reserve B s.queue) + s.oneshot.pauseInputProcessingTicks

/-- the one-shot countdown never exceeds the configuration's largest timeout, the input pause never
the rapid-event delay `d`, and the quick-tap tracker is never armed on this fragment -/
structure OshB (B d : Nat) (s : Layout) : Prop where
  load : oshLoad s.oneshot ≤ B + 1
  pause : s.oneshot.pauseInputProcessingTicks ≤ d
  delay : s.oneshot.pauseInputProcessingDelay = d
  lpt : s.lptTapHoldTimeout = 0

theorem queueLoad_age (d : Nat) (q : List Queued) : queueLoad d (age q) = queueLoad d q := by
  unfold queueLoad age
  rw [List.map_map]
  rfl

theorem reserve_age (B : Nat) (q : List Queued) : reserve B (age q) = reserve B q := by
  unfold reserve age
  rw [List.any_map]
  rfl

theorem queueLoad_cons (d : Nat) (x : Queued) (q : List Queued) : queueLoad d (x :: q) = evW d x + queueLoad d q := by
  simp [queueLoad]

theorem queueLoad_append (d : Nat) (p q : List Queued) : queueLoad d (p ++ q) = queueLoad d p + queueLoad d q := by
  simp [queueLoad]

theorem queueLoad_le (d : Nat) : ∀ q : List Queued, queueLoad d q ≤ (d + 2) * q.length := by
  intro q
  induction q with
  | nil => simp [queueLoad]
  | cons x rest ih =>
    rw [queueLoad_cons, List.length_cons, Nat.mul_succ]
    have : evW d x ≤ d + 2 := by
      unfold evW; split <;> omega
    omega

theorem queueLoad_zero (d : Nat) : ∀ q : List Queued, queueLoad d q = 0 → q = [] := by
  intro q h
  cases q with
  | nil => rfl
  | cons x rest =>
    rw [queueLoad_cons] at h
    have : 1 ≤ evW d x := by
      unfold evW; split <;> omega
    omega

theorem reserve_le (B : Nat) (q : List Queued) : reserve B q ≤ B + 1 := by
  unfold reserve; split <;> omega

theorem reserve_nil (B : Nat) : reserve B [] = 0 := rfl

theorem ovq_load (d : Nat) (ov : Option Coord) : queueLoad d (ovq ov) ≤ 1 := by
  cases ov <;> simp [ovq, queueLoad, evW]

theorem reserve_append_ovq (B : Nat) (q : List Queued) (ov : Option Coord) : reserve B (q ++ ovq ov) = reserve B q := by
  cases ov <;> simp [ovq, reserve, Ev.isPress]

theorem reserve_tail_le (B : Nat) (x : Queued) (q : List Queued) : reserve B q ≤ reserve B (x :: q) := by
  unfold reserve
  simp only [List.any_cons]
  split
  · rename_i h; simp [h]
  · exact Nat.zero_le _

theorem reserve_press (B : Nat) (c : Coord) (n : Nat) (q : List Queued) : reserve B (⟨.press c, n⟩ :: q) = B + 1 := by
  simp [reserve, Ev.isPress]

/-! ### the one-shot operations and the load -/

theorem oshLoad_pos {o : OneShotState} (h : o.keys ≠ []) : 1 ≤ oshLoad o := by
  unfold oshLoad
  rw [if_neg h]
  split
  · exact Nat.le_refl _
  · exact Nat.le_max_right _ _

theorem oshLoad_inactive {o : OneShotState} (h : o.keys = []) : oshLoad o = 0 := by
  unfold oshLoad; rw [if_pos h]

theorem oshLoad_zero {o : OneShotState} (h : oshLoad o = 0) : o.keys = [] := by
  by_cases hk : o.keys = []
  · exact hk
  · have := oshLoad_pos hk; omega

theorem oshLoad_cleared (o : OneShotState) : oshLoad (OneShotState.cleared o) = 0 := rfl

theorem oshLoad_waits (o : OneShotState) (hk : o.keys ≠ []) (h1 : o.releaseOnNextTick = false) (h2 : 2 ≤ o.timeout) :
    oshLoad { o with ticksToIgnoreEvents := o.ticksToIgnoreEvents - 1, timeout := o.timeout - 1 } = oshLoad o - 1 := by
  unfold oshLoad
  simp only [if_neg hk, h1, Bool.false_eq_true, if_false]
  omega

/-- `handle_release` never raises the load and leaves the pause alone -/
theorem handleRelease_load (o : OneShotState) (c : Coord) :
    oshLoad (o.handleRelease c).1 ≤ oshLoad o ∧
    (o.handleRelease c).1.pauseInputProcessingTicks = o.pauseInputProcessingTicks ∧
    (o.handleRelease c).1.pauseInputProcessingDelay = o.pauseInputProcessingDelay := by
  by_cases hk : o.keys = []
  · rw [handleRelease_inactive _ c hk]; exact ⟨Nat.le_refl _, rfl, rfl⟩
  · by_cases hc : o.keys.contains c = true
    · rw [handleRelease_active _ c hc]
      exact ⟨Nat.le_refl _, rfl, rfl⟩
    · have hc' : o.keys.contains c = false := by simpa using hc
      rw [handleRelease_other _ c hk hc']
      refine ⟨?_, rfl, rfl⟩
      unfold oshLoad
      simp only [if_neg hk]
      cases o.releaseOnNextTick
      · simp only [Bool.false_or, Bool.false_eq_true, if_false]
        split
        · exact Nat.le_max_right _ _
        · exact Nat.le_refl _
      · simp

/-- `handle_press(Other)` (events not ignored) never raises the load; the pause becomes the delay or
stays -/
theorem handlePress_other_load (o : OneShotState) (c : Coord) (hi : o.ticksToIgnoreEvents = 0) :
    oshLoad (o.handlePress (.other c)).1 ≤ oshLoad o ∧
    ((o.handlePress (.other c)).1.pauseInputProcessingTicks = o.pauseInputProcessingTicks ∨
     (o.handlePress (.other c)).1.pauseInputProcessingTicks = o.pauseInputProcessingDelay) ∧
    (o.handlePress (.other c)).1.pauseInputProcessingDelay = o.pauseInputProcessingDelay := by
  by_cases hk : o.keys = []
  · rw [handlePress_inactive _ _ hk]; exact ⟨Nat.le_refl _, Or.inl rfl, rfl⟩
  · cases he : isPressEnd o.endConfig
    · rw [handlePress_other_releaseEnd _ c hk hi he]
      exact ⟨Nat.le_refl _, Or.inl rfl, rfl⟩
    · rw [handlePress_other_pressEnd _ c hk hi he]
      refine ⟨?_, Or.inr rfl, rfl⟩
      unfold oshLoad
      simp only [if_neg hk]
      split
      · exact Nat.le_refl _
      · omega

/-- the activation of a one-shot key with timeout `T`: the load is at most `max T 1`; pause and delay stay -/
theorem activate_load (o : OneShotState) (c : Coord) (T : Nat) (v : OneShotEnd) :
    oshLoad (activate o c T v) ≤ max T 1 ∧
    (activate o c T v).pauseInputProcessingTicks = o.pauseInputProcessingTicks ∧
    (activate o c T v).pauseInputProcessingDelay = o.pauseInputProcessingDelay := by
  obtain ⟨a1, a2, _, _, a5, _, _, _⟩ := activate_fields o c T v
  refine ⟨?_, ?_, a5⟩
  · unfold oshLoad
    rw [if_neg a1, a2]
    split
    · exact Nat.le_max_right _ _
    · exact Nat.le_refl _
  · simp only [activate]
    unfold OneShotState.handlePress
    split
    · rfl
    · simp only []; split <;> rfl

theorem oshLoad_pause (o : OneShotState) (x : Nat) :
    oshLoad { o with pauseInputProcessingTicks := x } = oshLoad o := rfl

/-! ## one tick, stage by stage -/

theorem pre_stage {s : Layout} {down : List Coord} {B d : Nat} (h : Inv s down) (hB : OshB B d s) :
    OshB B d (tickPre s) ∧ potential B d (tickPre s) = potential B d s := by
  rw [tickPre_calm h.calm]
  refine ⟨⟨hB.load, hB.pause, hB.delay, by simp [hB.lpt]⟩, ?_⟩
  simp only [potential, queueLoad_age, reserve_age]

theorem osh_stage {s : Layout} {down : List Coord} {B d : Nat} (h : Inv s down) (hB : OshB B d s) :
    ∃ s1, tickOneshot s = .ok (s1, .noEvent) ∧ Inv s1 down ∧ OshB B d s1 ∧ s1.queue = s.queue ∧
      s1.cfg = s.cfg ∧ oshLoad s1.oneshot ≤ oshLoad s.oneshot - 1 ∧
      s1.oneshot.pauseInputProcessingTicks ≤ s.oneshot.pauseInputProcessingTicks := by
  obtain ⟨s1, e1, i1, q1, fr⟩ := h.osh
  refine ⟨s1, e1, i1, ?_, q1, fr.cfg, ?_⟩
  all_goals
    by_cases hk : s.oneshot.keys = []
    · rw [tickOneshot_inactive hk] at e1
      injection e1 with e1; injection e1 with e1; subst e1
      first
        | exact hB
        | exact ⟨by rw [oshLoad_inactive hk]; exact Nat.zero_le _, Nat.le_refl _⟩
    · by_cases hf : s.oneshot.releaseOnNextTick = true ∨ s.oneshot.timeout ≤ 1
      · rw [tickOneshot_fires h.calm.states hk hf] at e1
        injection e1 with e1; injection e1 with e1; subst e1
        first
          | exact ⟨Nat.zero_le _, Nat.zero_le _, hB.delay, hB.lpt⟩
          | exact ⟨Nat.zero_le _, Nat.zero_le _⟩
      · have h1 : s.oneshot.releaseOnNextTick = false := by
          cases hr : s.oneshot.releaseOnNextTick
          · rfl
          · exact absurd (Or.inl hr) hf
        have h2 : 2 ≤ s.oneshot.timeout := by omega
        rw [tickOneshot_waits hk h1 h2] at e1
        injection e1 with e1; injection e1 with e1; subst e1
        have hl := oshLoad_waits s.oneshot hk h1 h2
        first
          | exact ⟨by rw [hl]; have := hB.load; omega, hB.pause, hB.delay, hB.lpt⟩
          | exact ⟨Nat.le_of_eq hl, Nat.le_refl _⟩

theorem main_stage {s : Layout} {down : List Coord} {B d : Nat} (h : Inv s down) (hb : OshBound s.cfg B)
    (hB : OshB B d s) (s2 : Layout) (c2 : CustomEv) (hm : tickMain s = .ok (s2, c2)) :
    OshB B d s2 ∧ s2.cfg = s.cfg ∧ (potential B d s2 + 1 ≤ potential B d s ∨
      (s.queue = [] ∧ s.oneshot.pauseInputProcessingTicks = 0 ∧ s2 = s)) := by
  by_cases hp : 0 < s.oneshot.pauseInputProcessingTicks
  · rw [tickMain_paused h.calm.waiting h.calm.extra hp] at hm
    injection hm with hm; injection hm with h1 h2; subst h1
    refine ⟨⟨hB.load, ?_, hB.delay, hB.lpt⟩, rfl, Or.inl ?_⟩
    · have := hB.pause
      show s.oneshot.pauseInputProcessingTicks - 1 ≤ d
      omega
    · show queueLoad d s.queue + max (oshLoad s.oneshot) (reserve B s.queue) +
        (s.oneshot.pauseInputProcessingTicks - 1) + 1 ≤ potential B d s
      unfold potential
      omega
  · have hp0 : s.oneshot.pauseInputProcessingTicks = 0 := by omega
    cases hq : s.queue with
    | nil =>
      rw [tickMain_empty h.calm.waiting h.calm.extra hp0 hq] at hm
      injection hm with hm; injection hm with h1 h2; subst h1
      exact ⟨hB, rfl, Or.inr ⟨rfl, hp0, rfl⟩⟩
    | cons q rest =>
      rw [tickMain_pops h.calm.waiting h.calm.extra hp0 q rest hq] at hm
      obtain ⟨ev, n⟩ := q
      cases ev with
      | release c =>
        rw [dequeue_release_calm (s := s.setQueue rest) h.calm.states c n] at hm
        injection hm with hm; injection hm with h1 h2; subst h1
        obtain ⟨l1, l2, l3⟩ := handleRelease_load s.oneshot c
        refine ⟨⟨Nat.le_trans l1 hB.load, by show (s.oneshot.handleRelease c).1.pauseInputProcessingTicks ≤ d; rw [l2]; exact hB.pause,
          by show (s.oneshot.handleRelease c).1.pauseInputProcessingDelay = d; rw [l3]; exact hB.delay, hB.lpt⟩, rfl, Or.inl ?_⟩
        show queueLoad d rest + max (oshLoad (s.oneshot.handleRelease c).1) (reserve B rest) +
          (s.oneshot.handleRelease c).1.pauseInputProcessingTicks + 1 ≤ potential B d s
        unfold potential
        rw [hq, queueLoad_cons, l2]
        have hr := reserve_tail_le B ⟨.release c, n⟩ rest
        have hw : evW d ⟨.release c, n⟩ = 1 := rfl
        omega
      | press c =>
        have hlen : rest.length < QUEUE_SIZE := by
          have := h.qlen; rw [hq] at this; simp only [List.length_cons] at this; omega
        have hcfg2 : s2.cfg = s.cfg :=
          (dequeue_press_frag (s := s.setQueue rest) h.cfg (h.calm.setQueue rest) hlen c n s2 c2 hm).2.frame.cfg
        obtain ⟨r1, ov, op, hqq⟩ := dequeue_press_fragT (s := s.setQueue rest) (B := B) h.cfg hb (h.calm.setQueue rest)
          hlen c n s2 c2 hm
        have hlpt : s2.lptTapHoldTimeout = 0 := by
          have : (s.setQueue rest).lptTapHoldTimeout = 0 := hB.lpt
          omega
        have hq2 : s2.queue = rest ++ ovq ov := hqq
        have hQ : queueLoad d s2.queue ≤ queueLoad d rest + 1 := by
          rw [hq2, queueLoad_append]; have := ovq_load d ov; omega
        have hR : reserve B s2.queue = reserve B rest := by rw [hq2, reserve_append_ovq]
        have hR0 : reserve B s.queue = B + 1 := by rw [hq]; exact reserve_press B c n rest
        have hR1 := reserve_le B rest
        have hQ0 : queueLoad d s.queue = d + 2 + queueLoad d rest := by rw [hq, queueLoad_cons]; rfl
        have hL := hB.load
        have hD := hB.delay
        have hos : (s.setQueue rest).oneshot = s.oneshot := rfl
        rw [hos] at op
        have key : oshLoad s2.oneshot ≤ B + 1 ∧ s2.oneshot.pauseInputProcessingTicks ≤ d ∧
            s2.oneshot.pauseInputProcessingDelay = d ∧
            queueLoad d s2.queue + max (oshLoad s2.oneshot) (reserve B rest) + s2.oneshot.pauseInputProcessingTicks + 1 ≤
              d + 2 + queueLoad d rest + max (oshLoad s.oneshot) (B + 1) + s.oneshot.pauseInputProcessingTicks := by
          generalize s2.oneshot = o2 at op ⊢
          cases op with
          | other =>
            obtain ⟨l1, l2, l3⟩ := handlePress_other_load s.oneshot c h.calm.ignore
            refine ⟨Nat.le_trans l1 hL, ?_, l3.trans hD, ?_⟩
            · rcases l2 with l2 | l2 <;> rw [l2] <;> omega
            · rcases l2 with l2 | l2 <;> rw [l2] <;> omega
          | activate T v hT =>
            obtain ⟨l1, l2, l3⟩ := activate_load s.oneshot c T v
            refine ⟨by omega, by rw [l2]; omega, l3.trans hD, ?_⟩
            rw [l2]; omega
          | skip =>
            exact ⟨hL, hB.pause, hD, by omega⟩
        obtain ⟨k1, k2, k3, k4⟩ := key
        refine ⟨⟨k1, k2, k3, hlpt⟩, hcfg2, Or.inl ?_⟩
        unfold potential
        rw [hR, hR0, hQ0]
        exact k4

/-- **one tick without input**: the invariants are kept and the potential goes down by one (it stays
at zero once it is there) -/
theorem tick_potential {s : Layout} {down : List Coord} {B d : Nat} (h : Inv s down) (hb : OshBound s.cfg B)
    (hB : OshB B d s) (s' : Layout) (cu : CustomEv) (ht : tick s = .ok (s', cu)) :
    Inv s' down ∧ OshB B d s' ∧ s'.cfg = s.cfg ∧ potential B d s' ≤ potential B d s - 1 := by
  obtain ⟨b0, p0⟩ := pre_stage h hB
  obtain ⟨t1, t2, t3, t4, t5, _⟩ := tickPre_fields h.calm
  obtain ⟨s1, e1, i1, b1, q1, c1, l1, pp1⟩ := osh_stage h.pre b0
  cases hm : tickMain s1 with
  | error c =>
    unfold KVerif.L.tick at ht
    simp only [h.calm.aq, e1, hm] at ht
    cases ht
  | ok r =>
    obtain ⟨s2, c2⟩ := r
    obtain ⟨i2, hc2⟩ := i1.main s2 c2 hm
    subst hc2
    obtain ⟨b2, cf2, m2⟩ := main_stage i1 (by rw [c1, t5]; exact hb) b1 s2 .noEvent hm
    rw [tick_calm h.calm e1 hm i2.calm] at ht
    injection ht with ht; injection ht with h1 h2; subst h1
    refine ⟨i2, b2, by rw [cf2, c1, t5], ?_⟩
    -- the potential of `s1` against that of `s`
    have hs1 : potential B d s1 ≤ potential B d s := by
      rw [← p0]
      unfold potential
      rw [q1]
      have := reserve_le B (tickPre s).queue
      omega
    rcases m2 with m2 | ⟨m2, m3, m4⟩
    · omega
    · subst m4
      rw [← p0]
      unfold potential
      rw [q1] at m2
      rw [m2, m3, q1, m2]
      simp only [queueLoad, reserve_nil, List.map_nil, List.sum_nil, Nat.zero_add, Nat.add_zero, Nat.max_zero]
      omega

/-! ## runs -/

theorem input_oshB {s : Layout} {B d : Nat} (hB : OshB B d s) (e : Ev) (hq : s.queue.length < QUEUE_SIZE)
    (s' : Layout) (he : s.event e = .ok s') : OshB B d s' ∧ s'.cfg = s.cfg := by
  unfold Layout.event at he
  rw [FUEL_succ] at he
  obtain ⟨s1, e1, _, _, e4, e5⟩ := event_room 3999 s e hq
  have e6 := event_room_lpt 3999 s e hq s1 e1
  rw [e1] at he
  injection he with he; subst he
  exact ⟨⟨e4 ▸ hB.load, e4 ▸ hB.pause, e4 ▸ hB.delay, e6.trans hB.lpt⟩, e5.cfg⟩

/-- every history keeps the bounds (together with `no_state_stranded`'s invariant) -/
theorem run_oshB {B d : Nat} : ∀ (ins : List In) (s : Layout) (down : List Coord), Inv s down →
    OshBound s.cfg B → OshB B d s → ∀ s' down', run s down ins = some (.ok (s', down')) →
    Inv s' down' ∧ OshBound s'.cfg B ∧ OshB B d s' := by
  intro ins
  induction ins with
  | nil =>
    intro s down h hb hB s' down' hr
    simp only [run] at hr
    injection hr with hr; injection hr with hr; injection hr with h1 h2
    subst h1; subst h2; exact ⟨h, hb, hB⟩
  | cons i rest ih =>
    intro s down h hb hB s' down' hr
    simp only [run] at hr
    split at hr
    · cases hr
    · rename_i hov
      cases i with
      | ev e =>
        have hq : s.queue.length < QUEUE_SIZE := by
          simp only [overflows, decide_eq_true_eq] at hov; omega
        obtain ⟨s1, e1, i1, _⟩ := h.input e hq
        obtain ⟨b1, c1⟩ := input_oshB hB e hq s1 e1
        simp only [stepIn, e1] at hr
        exact ih s1 _ i1 (c1 ▸ hb) b1 s' down' hr
      | tick =>
        simp only [stepIn] at hr
        cases ht : tick s with
        | error c => simp only [ht] at hr; cases hr
        | ok r =>
          obtain ⟨s1, cu⟩ := r
          simp only [ht] at hr
          obtain ⟨i1, b1, c1, _⟩ := tick_potential h hb hB s1 cu ht
          exact ih s1 _ i1 (c1 ▸ hb) b1 s' down' hr

/-- `N` ticks without input: the potential goes down by `N` (or reaches zero) -/
theorem quiet_ticks {B d : Nat} : ∀ (N : Nat) (s : Layout) (down : List Coord), Inv s down →
    OshBound s.cfg B → OshB B d s → ∀ s' down', run s down (List.replicate N .tick) = some (.ok (s', down')) →
    down' = down ∧ Inv s' down ∧ OshB B d s' ∧ potential B d s' ≤ potential B d s - N := by
  intro N
  induction N with
  | zero =>
    intro s down h hb hB s' down' hr
    simp only [List.replicate, run] at hr
    injection hr with hr; injection hr with hr; injection hr with h1 h2
    subst h1; subst h2; exact ⟨rfl, h, hB, Nat.le_refl _⟩
  | succ N ih =>
    intro s down h hb hB s' down' hr
    simp only [List.replicate, run, overflows, Bool.false_eq_true, if_false, stepIn] at hr
    cases ht : tick s with
    | error c => simp only [ht] at hr; cases hr
    | ok r =>
      obtain ⟨s1, cu⟩ := r
      simp only [ht, downAfter] at hr
      obtain ⟨i1, b1, c1, p1⟩ := tick_potential h hb hB s1 cu ht
      obtain ⟨r1, r2, r3, r4⟩ := ih s1 down i1 (c1 ▸ hb) b1 s' down' hr
      exact ⟨r1, r2, r3, by omega⟩

theorem potential_le {B d : Nat} {s : Layout} (hB : OshB B d s) :
    potential B d s ≤ (d + 2) * s.queue.length + B + d + 1 := by
  unfold potential
  have h1 := queueLoad_le d s.queue
  have h2 := reserve_le B s.queue
  have h3 := hB.load
  have h4 := hB.pause
  omega

theorem potential_zero {B d : Nat} {s : Layout} (h : potential B d s = 0) :
    s.queue = [] ∧ s.oneshot.keys = [] ∧ s.oneshot.pauseInputProcessingTicks = 0 := by
  unfold potential at h
  exact ⟨queueLoad_zero d _ (by omega), oshLoad_zero (by omega), by omega⟩

/-- a freshly created layout satisfies the bounds -/
theorem init_oshB (cfg : LCfg) (tv2 dfl qth : Bool) (osd B : Nat) :
    OshB B osd ({ cfg := cfg, transV2 := tv2, delegateToFirstLayer := dfl, quickTapHoldTimeout := qth,
                  oneshot := { pauseInputProcessingDelay := osd } } : Layout) :=
  ⟨Nat.zero_le _, Nat.zero_le _, rfl, rfl⟩

/-! ## the fragment never crashes

The crash outcomes of the model that a configuration of the fragment can reach are the index checks
of `resolve_coord` (a coordinate outside the layer tables, a layer number beyond the last layer) and
a `Trans` left unresolved by the defsrc row.  They are excluded by what the parser guarantees:
layer references in range, a defsrc row of keys, coordinates of real keys. -/

def CoordOK (c : LCfg) (co : Coord) : Prop := co.1 < c.rows ∧ co.2 < c.cols

/-- the layer a key of the fragment can activate -/
def layerRef : Action → Option Nat
  | .layer v => some v
  | .oneShot (.layer v) _ _ => some v
  | _ => none

def ActSafe (L : Nat) (a : Action) : Prop := ∀ v, layerRef a = some v → v < L

structure CfgSafe (c : LCfg) : Prop where
  pinned : c.pinnedLayerStack = false
  layers : 0 < c.layers.length
  refsL : ∀ tbl ∈ c.layers, ∀ e ∈ tbl, ActSafe c.layers.length e.2
  refsS : ∀ e ∈ c.srcKeys, ActSafe c.layers.length e.2 ∧ e.2 ≠ .trans

structure Safe (s : Layout) : Prop where
  cfg : CfgSafe s.cfg
  dl : s.defaultLayer < s.cfg.layers.length
  held : ∀ st ∈ s.states, ∀ v, st.getLayer = some v → v < s.cfg.layers.length
  queue : ∀ q ∈ s.queue, ∀ c, q.ev = .press c → CoordOK s.cfg c

theorem transOrder_total (s : Layout) (L : Nat) (hp : s.cfg.pinnedLayerStack = false) (hd : s.defaultLayer < L)
    (h0 : 0 < L) (hh : ∀ st ∈ s.states, ∀ v, st.getLayer = some v → v < L) :
    ∃ order, s.transOrder = .ok order ∧ ∀ l ∈ order, l < L := by
  have hheld : ∀ l ∈ s.activeHeldLayers, l < L := by
    intro l hl
    unfold Layout.activeHeldLayers at hl
    obtain ⟨st, hst, hg⟩ := List.mem_filterMap.mp (List.mem_reverse.mp hl)
    exact hh st hst l hg
  have hcur : s.currentLayer < L := by
    unfold Layout.currentLayer
    split
    · rename_i l heq
      obtain ⟨st, hst, hg⟩ := List.exists_of_findSome?_eq_some heq
      exact hh st (List.mem_reverse.mp hst) l hg
    · exact hd
  have hpc : ∀ (l : List Nat) (x : Nat), (∀ y ∈ l, y < L) → x < L →
      ∀ y ∈ pushCap MAX_ACTIVE_LAYERS l x, y < L := by
    intro l x hl hx y hy
    rcases mem_pushCap hy with h | h
    · exact hl y h
    · exact h ▸ hx
  unfold Layout.transOrder
  simp only [hp, Bool.false_eq_true, if_false]
  have hl : (s.activeHeldLayers.take MAX_ACTIVE_LAYERS).length ≤ MAX_ACTIVE_LAYERS := by
    rw [List.length_take]; omega
  have htk : ∀ y ∈ s.activeHeldLayers.take MAX_ACTIVE_LAYERS, y < L :=
    fun y hy => hheld y (List.mem_of_mem_take hy)
  by_cases hv : s.transV2 = true
  · simp only [hv, if_true]
    rw [if_neg (by omega)]
    split
    · exact ⟨_, rfl, hpc _ _ (hpc _ _ htk hd) h0⟩
    · exact ⟨_, rfl, hpc _ _ htk hd⟩
  · simp only [hv, Bool.false_eq_true, if_false]
    split
    · refine ⟨_, rfl, ?_⟩
      intro l hl
      simp only [List.cons_append, List.nil_append, List.mem_cons, List.mem_nil_iff, or_false] at hl
      rcases hl with rfl | rfl
      · exact hcur
      · exact h0
    · refine ⟨_, rfl, ?_⟩
      intro l hl
      simp only [List.mem_cons, List.mem_nil_iff, or_false] at hl
      subst hl; exact hcur

theorem layerAction_total (c : LCfg) (l : Nat) (co : Coord) (hl : l < c.layers.length) (hc : CoordOK c co) :
    ∃ a, c.layerAction l co = .ok a := by
  unfold LCfg.layerAction
  rw [List.getElem?_eq_getElem hl]
  simp only []
  rw [if_neg (by have := hc.1; omega), if_neg (by have := hc.2; omega)]
  split
  · exact ⟨_, rfl⟩
  · exact ⟨_, rfl⟩

theorem resolve_total (s : Layout) (c : Coord) (hc : CoordOK s.cfg c) :
    ∀ ls : List Nat, (∀ l ∈ ls, l < s.cfg.layers.length) → ∃ a rest, s.resolveCoord c ls = .ok (a, rest) := by
  intro ls
  induction ls with
  | nil =>
    intro _
    simp only [Layout.resolveCoord]
    rw [if_neg (by have := hc.1; omega), if_neg (by have := hc.2; omega)]
    split
    · rw [if_neg (by have := hc.2; omega)]; exact ⟨_, _, rfl⟩
    · exact ⟨_, _, rfl⟩
  | cons l rest ih =>
    intro hl
    simp only [Layout.resolveCoord]
    rw [if_neg (by have := hc.1; omega), if_neg (by have := hc.2; omega)]
    obtain ⟨a, ha⟩ := layerAction_total s.cfg l c (hl l (by simp)) hc
    split
    · rename_i e he; rw [ha] at he; cases he
    · exact ih (fun x hx => hl x (by simp [hx]))
    · exact ⟨_, _, rfl⟩

theorem resolve_ne_trans (s : Layout) (c : Coord) (hs : ∀ e ∈ s.cfg.srcKeys, e.2 ≠ .trans) :
    ∀ (ls : List Nat) (a : Action) (rest : List Nat), s.resolveCoord c ls = .ok (a, rest) → a ≠ .trans := by
  intro ls
  induction ls with
  | nil =>
    intro a rest h
    simp only [Layout.resolveCoord] at h
    split at h; · cases h
    split at h; · cases h
    split at h
    · split at h; · cases h
      injection h with h; injection h with h1 h2; subst h1
      unfold LCfg.srcKey
      split
      · rename_i a hf
        exact hs _ (List.mem_of_find?_eq_some hf)
      · intro hc; cases hc
    · injection h with h; injection h with h1 h2; subst h1; intro hc; cases hc
  | cons l rest' ih =>
    intro a rest h
    simp only [Layout.resolveCoord] at h
    split at h; · cases h
    split at h; · cases h
    split at h
    · cases h
    · exact ih a rest h
    · rename_i x hnt hx
      injection h with h; injection h with h1 h2; subst h1
      intro hc; subst hc
      exact hnt rfl

/-- the states after a press: what was there, or states whose layer (if any) is below `L` -/
def GrowsL (L : Nat) (old new : List St) : Prop :=
  ∀ st ∈ new, st ∈ old ∨ ∀ v, st.getLayer = some v → v < L

theorem GrowsL.refl (L : Nat) (l : List St) : GrowsL L l l := fun _ h => Or.inl h
theorem GrowsL.trans {L : Nat} {a b c : List St} (h1 : GrowsL L a b) (h2 : GrowsL L b c) : GrowsL L a c := by
  intro st hst
  rcases h2 st hst with h | h
  · exact h1 st h
  · exact Or.inr h
theorem GrowsL.filter (L : Nat) (l : List St) (p : St → Bool) : GrowsL L l (l.filter p) :=
  fun _ h => Or.inl (List.mem_filter.mp h).1
theorem GrowsL.push (L : Nat) (l : List St) (st : St) (h : ∀ v, st.getLayer = some v → v < L) :
    GrowsL L l (pushCap STATES_CAP l st) := by
  intro x hx
  rcases mem_pushCap hx with h1 | h1
  · exact Or.inl h1
  · exact Or.inr (h1 ▸ h)

theorem oshOther_states (s : Layout) (os : Bool) (c : Coord) : (oshOther s os c).1.states = s.states := by
  rw [oshOther_spec]

theorem pushKeyCodes_growsL (L : Nat) (kcs : List KeyCode) (c : Coord) (f : Nat) : ∀ (s : Layout),
    GrowsL L s.states (pushKeyCodes s kcs c f).states := by
  induction kcs with
  | nil => intro s; exact GrowsL.refl L _
  | cons kc rest ih =>
    intro s
    have := ih (({ s with histKeys := histPush s.histKeys kc } : Layout).pushState (.normalKey kc c f))
    simp only [pushKeyCodes, List.foldl_cons] at this ⊢
    exact (GrowsL.push L s.states (.normalKey kc c f) (fun v hv => by cases hv)).trans this

theorem armKeyCode_growsL (L : Nat) (s : Layout) (a : Action) (kc : KeyCode) (c : Coord) (os : Bool) :
    GrowsL L s.states (armKeyCode s a kc c os).states := by
  have h : (armKeyCode s a kc c os).states = pushCap STATES_CAP s.states (.normalKey kc c 0) := by
    unfold armKeyCode
    simp only []
    split <;> simp only [oshOther_states, Layout.pushState, (updateCoord_spec s c).2.2.2]
  rw [h]
  exact GrowsL.push L _ _ (fun v hv => by cases hv)

theorem armMultipleKeyCodes_growsL (L : Nat) (s : Layout) (a : Action) (kcs : List KeyCode) (c : Coord) (os : Bool) :
    GrowsL L s.states (armMultipleKeyCodes s a kcs c os).states := by
  have h : ∃ f, (armMultipleKeyCodes s a kcs c os).states = (pushKeyCodes (updateCoord s c) kcs c f).states := by
    unfold armMultipleKeyCodes
    cases os
    · simp only [Bool.false_eq_true, if_false]
      split <;> exact ⟨NORMAL_KEY_FLAG_CLEAR_ON_NEXT_ACTION, by simp only [oshOther_states]⟩
    · simp only [if_true]
      split <;> exact ⟨0, by simp only [oshOther_states]⟩
  obtain ⟨f, hf⟩ := h
  rw [hf]
  have := pushKeyCodes_growsL L kcs c f (updateCoord s c)
  rw [(updateCoord_spec s c).2.2.2] at this
  exact this

theorem armLayer_growsL (L : Nat) (s : Layout) (v : Nat) (hv : v < L) (c : Coord) (os : Bool) :
    GrowsL L s.states (armLayer s v c os).states := by
  have h : (armLayer s v c os).states = pushCap STATES_CAP s.states (.layerModifier v c) := by
    unfold armLayer
    simp only [oshOther_states, Layout.pushState, (updateCoord_spec s c).2.2.2]
  rw [h]
  exact GrowsL.push L _ _ (fun w hw => by simp only [St.getLayer] at hw; injection hw with hw; omega)

theorem simpleArm_growsL (L : Nat) (s : Layout) (a : Action) (ha : ∀ v, a = .layer v → v < L) (c : Coord) (os : Bool) :
    GrowsL L s.states (simpleArm s a c os).states := by
  unfold simpleArm
  split
  · exact armKeyCode_growsL L s _ _ c os
  · exact armMultipleKeyCodes_growsL L s _ _ c os
  · exact armLayer_growsL L s _ (ha _ rfl) c os
  · exact GrowsL.refl L _

/-- a dispatched action of the fragment returns a state -/
theorem dispatch_total (fuel : Nat) (L : Nat) (s : Layout) (a : Action) (hf : Frag a) (hnt : a ≠ .trans)
    (hs : ActSafe L a) (c : Coord) (d : Nat) (ls : List Nat) (hq : s.queue.length < QUEUE_SIZE) :
    ∃ s', dispatch (fuel + 3) s a c d false ls = .ok (s', .noEvent) ∧ GrowsL L s.states s'.states := by
  cases a <;> simp only [Frag] at hf
  case noOp =>
    exact ⟨armNoOp s .noOp c false, by simp only [dispatch],
      by rw [(armNoOp_spec s .noOp c).2.2.1]; exact GrowsL.refl L _⟩
  case trans => exact absurd rfl hnt
  case keyCode kc =>
    exact ⟨armKeyCode s (.keyCode kc) kc c false, by simp only [dispatch], armKeyCode_growsL L s _ kc c false⟩
  case multipleKeyCodes kcs =>
    exact ⟨armMultipleKeyCodes s (.multipleKeyCodes kcs) kcs c false, by simp only [dispatch],
      armMultipleKeyCodes_growsL L s _ kcs c false⟩
  case layer v =>
    exact ⟨armLayer s v c false, by simp only [dispatch], armLayer_growsL L s v (hs v rfl) c false⟩
  case oneShot inner T v =>
    rw [dispatch_oneShot fuel s inner hf]
    have hg : GrowsL L s.states (oneShotArm s inner T v c).1.states := by
      have h1 : (oneShotArm s inner T v c).1.states =
          (simpleArm (prelude (updateCoord s c) c) inner c true).states := by
        unfold oneShotArm armOneShotPost Layout.oshPress
        rfl
      rw [h1]
      refine GrowsL.trans ?_ (simpleArm_growsL L _ inner (fun w hw => hs w (by subst hw; rfl)) c true)
      rw [(prelude_spec (updateCoord s c) c).2.2.2, (updateCoord_spec s c).2.2.2]
      exact GrowsL.filter L _ _
    obtain ⟨_, o2, _, _, _⟩ := oneShotArm_spec s inner hf T v c
    generalize oneShotArm s inner T v c = r at hg o2
    obtain ⟨s2, ov⟩ := r
    simp only at hg o2
    cases ov with
    | none => exact ⟨s2, rfl, hg⟩
    | some k =>
      obtain ⟨s3, e1, _, e3, _, _⟩ := event_room (fuel + 1) s2 (.release k) (by rw [o2]; exact hq)
      simp only [e1]
      exact ⟨s3, rfl, by rw [e3]; exact hg⟩

/-- **a press taken from the queue returns a state**, and keeps the conditions -/
theorem dequeue_press_total {s : Layout} (hc : CfgFrag s.cfg) (h : Calm s) (hS : Safe s)
    (hq : s.queue.length < QUEUE_SIZE) (c : Coord) (hco : CoordOK s.cfg c) (since : Nat) :
    ∃ s', dequeue FUEL s ⟨.press c, since⟩ = .ok (s', .noEvent) ∧
      GrowsL s.cfg.layers.length s.states s'.states := by
  obtain ⟨order, ho, hol⟩ := transOrder_total s s.cfg.layers.length hS.cfg.pinned hS.dl hS.cfg.layers hS.held
  obtain ⟨a, ls, hr⟩ := resolve_total s c hco order hol
  have hP := resolve_pred (fun a => Frag a ∧ ActSafe s.cfg.layers.length a)
    ⟨trivial, fun v hv => by cases hv⟩ ⟨trivial, fun v hv => by cases hv⟩ s c
    (fun tbl ht e he => ⟨hc.1 tbl ht e he, hS.cfg.refsL tbl ht e he⟩)
    (fun e he => ⟨hc.2 e he, (hS.cfg.refsS e he).1⟩) _ _ _ hr
  have hnt := resolve_ne_trans s c (fun e he => (hS.cfg.refsS e he).2) _ _ _ hr
  obtain ⟨p1, p2, p3, p4⟩ := prelude_spec s c
  obtain ⟨s', e1, g1⟩ := dispatch_total 3995 s.cfg.layers.length (prelude s c) a hP.1 hnt hP.2 c since ls
    (by rw [p3]; exact hq)
  refine ⟨s', ?_, ?_⟩
  · rw [FUEL_5]
    simp only [dequeue, h.tde, bind, Except.bind, ho, doAction, hr]
    exact e1
  · refine GrowsL.trans ?_ g1
    rw [p4]; exact GrowsL.filter _ _ _

theorem mem_afterRelease {states : List St} {c : Coord} {b : Bool} {ov : Option Coord} {st : St}
    (h : st ∈ afterRelease states c b ov) : st ∈ states := by
  unfold afterRelease at h
  cases b <;> cases ov <;> simp only [Bool.false_eq_true, if_false, if_true] at h
  · exact h
  · exact (List.mem_filter.mp h).1
  · exact (List.mem_filter.mp h).1
  · exact (List.mem_filter.mp (List.mem_filter.mp h).1).1

theorem osh_safe {s : Layout} {down : List Coord} (h : Inv s down) (hS : Safe s) (s1 : Layout) (cu : CustomEv)
    (e1 : tickOneshot s = .ok (s1, cu)) : Safe s1 := by
  by_cases hk : s.oneshot.keys = []
  · rw [tickOneshot_inactive hk] at e1
    injection e1 with e1; injection e1 with e1; subst e1
    exact hS
  · by_cases hf : s.oneshot.releaseOnNextTick = true ∨ s.oneshot.timeout ≤ 1
    · rw [tickOneshot_fires h.calm.states hk hf] at e1
      injection e1 with e1; injection e1 with e1; subst e1
      exact ⟨hS.cfg, hS.dl, fun st hst => hS.held st (mem_dropCoords.mp hst).1, hS.queue⟩
    · have h1 : s.oneshot.releaseOnNextTick = false := by
        cases hr : s.oneshot.releaseOnNextTick
        · rfl
        · exact absurd (Or.inl hr) hf
      have h2 : 2 ≤ s.oneshot.timeout := by omega
      rw [tickOneshot_waits hk h1 h2] at e1
      injection e1 with e1; injection e1 with e1; subst e1
      exact ⟨hS.cfg, hS.dl, hS.held, hS.queue⟩

theorem main_total {s : Layout} {down : List Coord} (h : Inv s down) (hS : Safe s) :
    ∃ s2, tickMain s = .ok (s2, .noEvent) ∧ Safe s2 ∧ s2.queue.length ≤ s.queue.length ∧ s2.cfg = s.cfg := by
  by_cases hp : 0 < s.oneshot.pauseInputProcessingTicks
  · rw [tickMain_paused h.calm.waiting h.calm.extra hp]
    exact ⟨_, rfl, ⟨hS.cfg, hS.dl, hS.held, hS.queue⟩, Nat.le_refl _, rfl⟩
  · have hp0 : s.oneshot.pauseInputProcessingTicks = 0 := by omega
    cases hq : s.queue with
    | nil =>
      rw [tickMain_empty h.calm.waiting h.calm.extra hp0 hq]
      exact ⟨s, rfl, hS, by rw [hq]; exact Nat.le_refl _, rfl⟩
    | cons q rest =>
      rw [tickMain_pops h.calm.waiting h.calm.extra hp0 q rest hq]
      have hrestq : ∀ x ∈ rest, ∀ c, x.ev = .press c → CoordOK s.cfg c :=
        fun x hx => hS.queue x (by rw [hq]; exact List.mem_cons_of_mem _ hx)
      obtain ⟨ev, n⟩ := q
      cases ev with
      | release c =>
        rw [dequeue_release_calm (s := s.setQueue rest) h.calm.states c n]
        exact ⟨_, rfl, ⟨hS.cfg, hS.dl, fun st hst => hS.held st (mem_afterRelease hst), hrestq⟩,
          by simp [Layout.setQueue], rfl⟩
      | press c =>
        have hlen : rest.length < QUEUE_SIZE := by
          have := h.qlen; rw [hq] at this; simp only [List.length_cons] at this; omega
        have hS' : Safe (s.setQueue rest) := ⟨hS.cfg, hS.dl, hS.held, hrestq⟩
        have hco : CoordOK s.cfg c := hS.queue ⟨.press c, n⟩ (by rw [hq]; exact List.mem_cons_self) c rfl
        obtain ⟨s2, e2, g2⟩ := dequeue_press_total (s := s.setQueue rest) h.cfg (h.calm.setQueue rest) hS' hlen c hco n
        obtain ⟨_, po⟩ := dequeue_press_frag (s := s.setQueue rest) h.cfg (h.calm.setQueue rest) hlen c n s2 _ e2
        obtain ⟨ov, _, hqq⟩ := po.osh
        have hcfg : s2.cfg = s.cfg := po.frame.cfg
        have hq2 : s2.queue = rest ++ ovq ov := hqq
        refine ⟨s2, e2, ⟨hcfg ▸ hS.cfg, by rw [hcfg, po.frame.dl]; exact hS.dl, ?_, ?_⟩, ?_, hcfg⟩
        · intro st hst v hv
          rw [hcfg]
          rcases g2 st hst with g | g
          · exact hS.held st g v hv
          · exact g v hv
        · intro x hx c' hc'
          rw [hcfg]
          rw [hq2] at hx
          rcases List.mem_append.mp hx with hx | hx
          · exact hrestq x hx c' hc'
          · cases ov with
            | none => cases hx
            | some k =>
              simp only [ovq, List.mem_cons, List.mem_nil_iff, or_false] at hx
              subst hx; cases hc'
        · rw [hq2]
          cases ov <;> simp [ovq]

/-- **a tick on the fragment never crashes** (layer references in range, defsrc row of keys, queued
presses inside the tables), raises no custom event, keeps these conditions and does not lengthen the queue -/
theorem tick_total {s : Layout} {down : List Coord} (h : Inv s down) (hS : Safe s) :
    ∃ s', tick s = .ok (s', .noEvent) ∧ Safe s' ∧ s'.queue.length ≤ s.queue.length ∧ s'.cfg = s.cfg := by
  obtain ⟨t1, t2, t3, t4, t5, t6, _⟩ := tickPre_fields h.calm
  have S0 : Safe (tickPre s) := by
    refine ⟨t5 ▸ hS.cfg, by rw [t5, t6]; exact hS.dl, by rw [t3, t5]; exact hS.held, ?_⟩
    intro q hq c hc
    rw [t4] at hq
    obtain ⟨y, hy, hyq⟩ := List.mem_map.mp hq
    rw [t5]
    exact hS.queue y hy c (by rw [← hc, ← hyq])
  obtain ⟨s1, e1, i1, q1, fr⟩ := h.pre.osh
  have S1 := osh_safe h.pre S0 s1 _ e1
  obtain ⟨s2, e2, S2, l2, c2⟩ := main_total i1 S1
  have i2 := (i1.main s2 _ e2).1
  refine ⟨s2, tick_calm h.calm e1 e2 i2.calm, S2, ?_, by rw [c2, fr.cfg, t5]⟩
  rw [q1, t4] at l2
  simpa [age] using l2

theorem input_safe {s : Layout} (hS : Safe s) (e : Ev) (hq : s.queue.length < QUEUE_SIZE)
    (hco : ∀ c, e = .press c → CoordOK s.cfg c) (s' : Layout) (he : s.event e = .ok s') :
    Safe s' ∧ s'.cfg = s.cfg := by
  unfold Layout.event at he
  rw [FUEL_succ] at he
  obtain ⟨s1, e1, e2, e3, _, e5⟩ := event_room 3999 s e hq
  rw [e1] at he
  injection he with he; subst he
  refine ⟨⟨e5.cfg ▸ hS.cfg, by rw [e5.cfg, e5.dl]; exact hS.dl, by rw [e3, e5.cfg]; exact hS.held, ?_⟩, e5.cfg⟩
  intro q hq' c hc
  rw [e5.cfg]
  rw [e2] at hq'
  rcases List.mem_append.mp hq' with hq' | hq'
  · exact hS.queue q hq' c hc
  · simp only [List.mem_cons, List.mem_nil_iff, or_false] at hq'
    subst hq'
    exact hco c hc

/-- the presses of a history are inside the layer tables -/
def PressesOK (cfg : LCfg) (ins : List In) : Prop := ∀ c, In.ev (.press c) ∈ ins → CoordOK cfg c

def evCount : List In → Nat
  | [] => 0
  | .ev _ :: r => evCount r + 1
  | .tick :: r => evCount r

/-- which keys are physically down after a history -/
def downs : List Coord → List In → List Coord
  | down, [] => down
  | down, i :: r => downs (downAfter down i) r

/-- **run_never_crashes**: on the fragment, a history whose presses lie inside the layer tables never
ends in a crash: either an event arrives while 32 are pending (`none`) or the run returns a state, and
the set of keys physically down is `downs`. -/
theorem run_never_crashes : ∀ (ins : List In) (s : Layout) (down : List Coord), Inv s down → Safe s →
    PressesOK s.cfg ins →
    run s down ins = none ∨ ∃ s', run s down ins = some (.ok (s', downs down ins)) ∧ Safe s' := by
  intro ins
  induction ins with
  | nil => intro s down _ hS _; exact Or.inr ⟨s, rfl, hS⟩
  | cons i rest ih =>
    intro s down h hS hP
    simp only [run, downs]
    split
    · exact Or.inl rfl
    · rename_i hov
      cases i with
      | ev e =>
        have hq : s.queue.length < QUEUE_SIZE := by
          simp only [overflows, decide_eq_true_eq] at hov; omega
        obtain ⟨s1, e1, i1, _⟩ := h.input e hq
        obtain ⟨S1, c1⟩ := input_safe hS e hq (fun c hc => hP c (by rw [hc]; exact List.mem_cons_self)) s1 e1
        simp only [stepIn, e1]
        exact ih s1 _ i1 S1 (fun c hc => c1 ▸ hP c (List.mem_cons_of_mem _ hc))
      | tick =>
        obtain ⟨s1, e1, S1, _, c1⟩ := tick_total h hS
        obtain ⟨i1, _⟩ := h.step s1 _ e1
        simp only [stepIn, e1]
        exact ih s1 _ i1 S1 (fun c hc => c1 ▸ hP c (List.mem_cons_of_mem _ hc))

/-- ticks without input always return a state -/
theorem quiet_total : ∀ (N : Nat) (s : Layout) (down : List Coord), Inv s down → Safe s →
    ∃ s', run s down (List.replicate N .tick) = some (.ok (s', down)) := by
  intro N
  induction N with
  | zero => intro s down _ _; exact ⟨s, rfl⟩
  | succ N ih =>
    intro s down h hS
    obtain ⟨s1, e1, S1, _, _⟩ := tick_total h hS
    obtain ⟨i1, _⟩ := h.step s1 _ e1
    obtain ⟨s', e'⟩ := ih s1 down i1 S1
    refine ⟨s', ?_⟩
    simp only [List.replicate, run, overflows, Bool.false_eq_true, if_false, stepIn, e1, downAfter]
    exact e'

/-- **a history of at most 32 events in all** (counting those already queued) never meets a full
queue, so the run returns a state -/
theorem run_defined : ∀ (ins : List In) (s : Layout) (down : List Coord), Inv s down → Safe s →
    PressesOK s.cfg ins → evCount ins + s.queue.length ≤ QUEUE_SIZE →
    ∃ s', run s down ins = some (.ok (s', downs down ins)) ∧ Safe s' := by
  intro ins
  induction ins with
  | nil => intro s down _ hS _ _; exact ⟨s, rfl, hS⟩
  | cons i rest ih =>
    intro s down h hS hP hn
    cases i with
    | ev e =>
      simp only [evCount] at hn
      have hq : s.queue.length < QUEUE_SIZE := by omega
      obtain ⟨s1, e1, i1, q1, _⟩ := h.input e hq
      obtain ⟨S1, c1⟩ := input_safe hS e hq (fun c hc => hP c (by rw [hc]; exact List.mem_cons_self)) s1 e1
      obtain ⟨s', r1, r2⟩ := ih s1 _ i1 S1 (fun c hc => c1 ▸ hP c (List.mem_cons_of_mem _ hc))
        (by rw [q1]; simp only [List.length_append, List.length_cons, List.length_nil]; omega)
      refine ⟨s', ?_, r2⟩
      have hov : overflows s (.ev e) = false := by
        simp only [overflows, decide_eq_false_iff_not]; omega
      simp only [run, hov, Bool.false_eq_true, if_false, stepIn, e1, downs]
      exact r1
    | tick =>
      simp only [evCount] at hn
      obtain ⟨s1, e1, S1, l1, c1⟩ := tick_total h hS
      obtain ⟨i1, _⟩ := h.step s1 _ e1
      obtain ⟨s', r1, r2⟩ := ih s1 _ i1 S1 (fun c hc => c1 ▸ hP c (List.mem_cons_of_mem _ hc)) (by omega)
      refine ⟨s', ?_, r2⟩
      simp only [run, overflows, Bool.false_eq_true, if_false, stepIn, e1, downs]
      exact r1

/-- a freshly created layout meets the conditions when its configuration does -/
theorem init_safe (cfg : LCfg) (hc : CfgSafe cfg) (tv2 dfl qth : Bool) (osd : Nat) :
    Safe ({ cfg := cfg, transV2 := tv2, delegateToFirstLayer := dfl, quickTapHoldTimeout := qth,
            oneshot := { pauseInputProcessingDelay := osd } } : Layout) :=
  ⟨hc, hc.layers, fun _ h => (by cases h), fun _ h => (by cases h)⟩

/-! ## at rest -/

/-- the layout holds no state and nothing is pending in it: every component `Kanata::is_idle` looks at
in the layout is at rest, and the key-code list is empty -/
structure LayoutAtRest (s : Layout) : Prop where
  states : s.states = []
  queue : s.queue = []
  waiting : s.waiting = none
  extra : s.extraWaiting = []
  lpt : s.lptTapHoldTimeout = 0
  osh : s.oneshot.keys = []
  pause : s.oneshot.pauseInputProcessingTicks = 0
  seqs : s.activeSequences = []
  tde : s.tapDanceEager = none
  aq : s.actionQueue = []

end KVerif.Quiesce
