/-
Helper lemmas for C15 (success half): two instances whose states agree on every field outside a list
`op` of retained fields produce the same outputs, notifications and crashes on every later history —
including later reloads — provided the parts of kanata outside the reload bookkeeping do not read the
fields of `op`.
-/
import KVerif.Lemmas.ReloadFresh
namespace KVerif.Reload
open KVerif.Gen.Reload

variable {W : World}

/-! ### lifting a relation to `Except Crash` -/

/-- both crash in the same way, or both succeed with related results -/
def ExRel {α : Type} (P : α → α → Prop) : Except Crash α → Except Crash α → Prop
  | .ok x, .ok y => P x y
  | .error e, .error e' => e = e'
  | _, _ => False

@[simp] theorem exRel_ok {α : Type} (P : α → α → Prop) (x y : α) :
    ExRel P (.ok x : Except Crash α) (.ok y) ↔ P x y := Iff.rfl

@[simp] theorem exRel_error {α : Type} (P : α → α → Prop) (e e' : Crash) :
    ExRel P (.error e : Except Crash α) (.error e') ↔ e = e' := Iff.rfl

theorem ExRel.cases {α : Type} {P : α → α → Prop} {x y : Except Crash α} (h : ExRel P x y) :
    (∃ e, x = .error e ∧ y = .error e) ∨ (∃ u v, x = .ok u ∧ y = .ok v ∧ P u v) := by
  cases x with
  | error e =>
    cases y with
    | error e' => left; exact ⟨e, rfl, by rw [(exRel_error P e e').1 h]⟩
    | ok v => exact False.elim h
  | ok u =>
    cases y with
    | error e' => exact False.elim h
    | ok v => right; exact ⟨u, v, rfl, rfl, h⟩

/-! ### agreement off a list of fields -/

/-- the two states agree on every field outside `op` -/
def Eqv (op : List Field) (a b : KSt W) : Prop := ∀ f, f ∉ op → a f = b f

/-- `op` contains only retained fields that the reload bookkeeping does not read itself -/
def OpOK (op : List Field) : Prop := ∀ f, f ∈ op → f ∈ retainedOpaque

theorem OpOK.nm {op : List Field} (h : OpOK op) {f : Field} (hf : f ∉ retainedOpaque) : f ∉ op :=
  fun hm => hf (h f hm)

/-- The parts of kanata outside the reload bookkeeping do not read the fields of `op`: on two states
that agree everywhere else they produce the same OS events and custom actions and leave states that
again agree everywhere else. -/
structure BlindTo (op : List Field) (W : World) : Prop where
  ksc : ∀ a b : KSt W, Eqv op a b →
    (∀ f, f ∉ framed → f ∉ op → (W.ksc a).1 f = (W.ksc b).1 f) ∧ (W.ksc a).2 = (W.ksc b).2
  late : ∀ a b : KSt W, Eqv op a b →
    (∀ f, f ∉ framedK → f ∉ op → (W.late a).1 f = (W.late b).1 f) ∧ (W.late a).2 = (W.late b).2
  replay : ∀ a b : KSt W, Eqv op a b →
    (∀ f, f ∉ framedK → f ∉ op → (W.replay a).1 f = (W.replay b).1 f) ∧ (W.replay a).2 = (W.replay b).2
  inputEvent : ∀ (a b : KSt W) (e : W.Input), Eqv op a b →
    (∀ f, f ∉ framedK → f ∉ op → (W.inputEvent a e).1 f = (W.inputEvent b e).1 f) ∧
      (W.inputEvent a e).2 = (W.inputEvent b e).2
  coreIdle : ∀ a b : KSt W, Eqv op a b → W.coreIdle a = W.coreIdle b

variable {op : List Field}

theorem eqv_refl (a : KSt W) : Eqv op a a := fun _ _ => rfl

theorem eqv_set {a b : KSt W} (h : Eqv op a b) (f : Field) (v : Val W.toTypes f) :
    Eqv op (a.set f v) (b.set f v) := by
  intro g hg
  by_cases e : g = f
  · subst e; simp
  · rw [St.set_other _ _ _ _ e, St.set_other _ _ _ _ e]; exact h g hg

theorem eqv_frame {a b na nb : KSt W} (h : Eqv op a b)
    (hn : ∀ f, f ∉ framed → f ∉ op → na f = nb f) : Eqv op (frame a na) (frame b nb) := by
  intro f hf
  by_cases hk : f ∈ framed
  · rw [frame_in _ _ _ hk, frame_in _ _ _ hk]; exact h f hf
  · rw [frame_out _ _ _ hk, frame_out _ _ _ hk]; exact hn f hk hf

theorem eqv_frameK {a b na nb : KSt W} (h : Eqv op a b)
    (hn : ∀ f, f ∉ framedK → f ∉ op → na f = nb f) : Eqv op (frameK a na) (frameK b nb) := by
  intro f hf
  by_cases hk : f ∈ framedK
  · simp only [frameK, hk, if_true]; exact h f hf
  · simp only [frameK, hk, if_false]; exact hn f hk hf

/-! ### `tick_states` -/

theorem eqv_applyAct (hop : OpOK op) {a b : KSt W} (h : Eqv op a b) (x : KAct W.toTypes) :
    ExRel (Eqv op) (applyAct a x) (applyAct b x) := by
  have h1 : a .cfg_paths = b .cfg_paths := h _ (hop.nm (by decide))
  have h2 : a .cur_cfg_idx = b .cur_cfg_idx := h _ (hop.nm (by decide))
  have h3 : a .waiting_for_idle = b .waiting_for_idle := h _ (hop.nm (by decide))
  cases x with
  | reload r =>
    simp only [applyAct, h1, h2]
    cases selectIndex (b .cfg_paths) (b .cur_cfg_idx) r with
    | error c => simp only [exRel_error]
    | ok v =>
      obtain ⟨i, req⟩ := v
      cases req
      · simp only [exRel_ok]; exact eqv_set h _ _
      · simp only [exRel_ok]; exact eqv_set (eqv_set h _ _) _ _
  | onIdle w =>
    simp only [applyAct, h3, exRel_ok]
    exact eqv_set (eqv_set h _ _) _ _

theorem eqv_applyActs (hop : OpOK op) (xs : List (KAct W.toTypes)) : ∀ {a b : KSt W}, Eqv op a b →
    ExRel (Eqv op) (applyActs a xs) (applyActs b xs) := by
  induction xs with
  | nil => intro a b h; simp only [applyActs, exRel_ok]; exact h
  | cons x rest ih =>
    intro a b h
    simp only [applyActs]
    rcases (eqv_applyAct hop h x).cases with ⟨e, ha, hb⟩ | ⟨u, v, ha, hb, huv⟩
    · rw [ha, hb]; simp only [exRel_error]
    · rw [ha, hb]; exact ih huv

theorem eqv_tickIdleTimeout (hop : OpOK op) {a b : KSt W} (h : Eqv op a b) :
    Eqv op (tickIdleTimeout a) (tickIdleTimeout b) := by
  have h1 : a .waiting_for_idle = b .waiting_for_idle := h _ (hop.nm (by decide))
  have h2 : a .ticks_since_idle = b .ticks_since_idle := h _ (hop.nm (by decide))
  have h3 : a .layout = b .layout := h _ (hop.nm (by decide))
  unfold tickIdleTimeout
  rw [← h1]
  cases hwa : (a .waiting_for_idle : List W.OnIdle) with
  | nil => exact h
  | cons x xs =>
    simp only
    rw [← h2, ← h3]
    exact eqv_set (eqv_set h _ _) _ _

/-- related states, equal OS events -/
def PairRel (op : List Field) {β : Type} (x y : KSt W × β) : Prop := Eqv op x.1 y.1 ∧ x.2 = y.2

theorem eqv_tickStates (hop : OpOK op) (hB : BlindTo op W) (nr : Bool) {a b : KSt W} (h : Eqv op a b) :
    ExRel (PairRel op) (tickStatesG nr a) (tickStatesG nr b) := by
  unfold tickStatesG
  simp only
  have hk := hB.ksc a b h
  have s1 := eqv_frame h hk.1
  rw [← hk.2]
  rcases (eqv_applyActs hop (selActs nr (W.ksc a).2.1) s1).cases with ⟨e, ha, hb⟩ | ⟨u, v, ha, hb, huv⟩
  · rw [ha, hb]; simp only [exRel_error]
  · rw [ha, hb]
    simp only [exRel_ok]
    have s3 := eqv_tickIdleTimeout hop huv
    have hm : (tickIdleTimeout u) .macro_on_press_cancel_duration =
        (tickIdleTimeout v) .macro_on_press_cancel_duration := s3 _ (hop.nm (by decide))
    rw [← hm]
    have s4 := eqv_set s3 .macro_on_press_cancel_duration
      (((tickIdleTimeout u) .macro_on_press_cancel_duration : Nat) - 1)
    have hl := hB.late _ _ s4
    have s5 := eqv_frameK s4 hl.1
    have hc := s5 .cur_keys (hop.nm (by decide))
    refine ⟨?_, by rw [hl.2]⟩
    show Eqv op ((St.set _ .prev_keys _).set .cur_keys _) ((St.set _ .prev_keys _).set .cur_keys _)
    rw [← hc]
    exact eqv_set (eqv_set s5 _ _) _ _

/-! ### `tick_ms`, `check_handle_layer_change` -/

theorem eqv_replay (hB : BlindTo op W) {a b : KSt W} (h : Eqv op a b) :
    Eqv op (frameK a (W.replay a).1) (frameK b (W.replay b).1) ∧ (W.replay a).2 = (W.replay b).2 := by
  have hr := hB.replay a b h
  exact ⟨eqv_frameK h hr.1, hr.2⟩

theorem eqv_tickLoop1 (hop : OpOK op) (hB : BlindTo op W) (nr : Bool) (n : Nat) :
    ∀ {a b : KSt W} (extra : Nat) (os : List W.Os), Eqv op a b →
    ExRel (PairRel op) (tickLoop1G nr n a extra os) (tickLoop1G nr n b extra os) := by
  induction n with
  | zero => intro a b extra os h; simp only [tickLoop1G, exRel_ok]; exact ⟨h, rfl⟩
  | succ n ih =>
    intro a b extra os h
    simp only [tickLoop1G]
    rcases (eqv_tickStates hop hB nr h).cases with ⟨e, ha, hb⟩ | ⟨u, v, ha, hb, huv⟩
    · rw [ha, hb]; simp only [exRel_error]
    · obtain ⟨u1, uo⟩ := u
      obtain ⟨v1, vo⟩ := v
      obtain ⟨h1, ho⟩ := huv
      simp only at h1 ho
      subst ho
      rw [ha, hb]
      simp only
      obtain ⟨h2, he⟩ := eqv_replay hB h1
      rw [← he]
      exact ih _ _ h2

theorem eqv_tickLoop2 (hop : OpOK op) (hB : BlindTo op W) (nr : Bool) (n : Nat) :
    ∀ {a b : KSt W} (os : List W.Os), Eqv op a b →
    ExRel (PairRel op) (tickLoop2G nr n a os) (tickLoop2G nr n b os) := by
  induction n with
  | zero => intro a b os h; simp only [tickLoop2G, exRel_ok]; exact ⟨h, rfl⟩
  | succ n ih =>
    intro a b os h
    simp only [tickLoop2G]
    rcases (eqv_tickStates hop hB nr h).cases with ⟨e, ha, hb⟩ | ⟨u, v, ha, hb, huv⟩
    · rw [ha, hb]; simp only [exRel_error]
    · obtain ⟨u1, uo⟩ := u
      obtain ⟨v1, vo⟩ := v
      obtain ⟨h1, ho⟩ := huv
      simp only at h1 ho
      subst ho
      rw [ha, hb]
      simp only
      obtain ⟨h2, he⟩ := eqv_replay hB h1
      rw [← he]
      cases (W.replay u1).2 with
      | some d => simp only [exRel_ok]; exact ⟨h2, rfl⟩
      | none => exact ih _ h2

theorem eqv_tickMs (hop : OpOK op) (hB : BlindTo op W) (nr : Bool) (ms : Nat) {a b : KSt W}
    (h : Eqv op a b) : ExRel (PairRel op) (tickMsG nr ms a) (tickMsG nr ms b) := by
  unfold tickMsG
  rcases (eqv_tickLoop1 hop hB nr ms 0 [] h).cases with ⟨e, ha, hb⟩ | ⟨u, v, ha, hb, huv⟩
  · rw [ha, hb]; simp only [exRel_error]
  · obtain ⟨u1, ue, uo⟩ := u
    obtain ⟨v1, ve, vo⟩ := v
    obtain ⟨h1, ho⟩ := huv
    simp only at h1 ho
    simp only [Prod.mk.injEq] at ho
    obtain ⟨rfl, rfl⟩ := ho
    rw [ha, hb]
    exact eqv_tickLoop2 hop hB nr _ _ h1

theorem eqv_checkLayerChange (hop : OpOK op) (tx : Bool) {a b : KSt W} (h : Eqv op a b) :
    ExRel (PairRel op) (checkLayerChange tx a) (checkLayerChange tx b) := by
  have h1 : a .layout = b .layout := h _ (hop.nm (by decide))
  have h2 : a .prev_layer = b .prev_layer := h _ (hop.nm (by decide))
  have h3 : a .layer_info = b .layer_info := h _ (hop.nm (by decide))
  unfold checkLayerChange
  simp only [h1, h2, h3]
  by_cases hne : W.currentLayer (b .layout) ≠ b .prev_layer
  · rw [if_pos hne, if_pos hne]
    cases W.layerName (b .layer_info) (W.currentLayer (b .layout)) with
    | none => simp only [exRel_error]
    | some name => simp only [exRel_ok]; exact ⟨eqv_set h _ _, rfl⟩
  · rw [if_neg hne, if_neg hne]
    simp only [exRel_ok]
    exact ⟨h, rfl⟩

/-! ### `do_live_reload` (a later reload, on both sides) -/

def RResRel (op : List Field) (x y : RRes W.toTypes) : Prop :=
  Eqv (W := W) op x.st y.st ∧ x.msgs = y.msgs ∧ x.ok = y.ok

theorem eqv_runSteps (hop : OpOK op) (env : Env W.toTypes) (c : W.Cfg) (steps : List RStep) :
    ∀ (cur : Option Nat) {a b : KSt W} (log : List Msg), Eqv op a b →
    ExRel (RResRel op) (runSteps env c steps cur a log) (runSteps env c steps cur b log) := by
  induction steps with
  | nil => intro cur a b log h; simp only [runSteps, exRel_ok]; exact ⟨h, rfl, rfl⟩
  | cons st rest ih =>
    intro cur a b log h
    have h1 : a .cfg_paths = b .cfg_paths := h _ (hop.nm (by decide))
    have h2 : a .cur_cfg_idx = b .cur_cfg_idx := h _ (hop.nm (by decide))
    have h3 : a .layout = b .layout := h _ (hop.nm (by decide))
    have h4 : a .layer_info = b .layer_info := h _ (hop.nm (by decide))
    simp only [runSteps]
    cases st with
    | parse => simp only [stepOne, exRel_error]
    | fallible callee =>
      cases hc : env.callFails callee c with
      | true => simp only [stepOne, hc, if_true, exRel_ok]; exact ⟨h, rfl, rfl⟩
      | false => simp [stepOne, hc]; exact ih _ _ h
    | assign f fromCfg =>
      cases fromCfg with
      | true => simp only [stepOne]; exact ih _ _ (eqv_set h _ _)
      | false =>
        by_cases hb : f = .prev_layer ∧ cur = none
        · simp only [stepOne, hb, and_self, if_true, exRel_error]
        · simp only [stepOne, hb, if_false]; exact ih _ _ (eqv_set h _ _)
    | bindCurLayer => simp only [stepOne, h3]; exact ih _ _ h
    | effect m => simp only [stepOne]; exact ih _ _ h
    | notify m =>
      by_cases hm1 : m = "ConfigFileReload"
      · cases htx : env.tx with
        | false => simp [stepOne, hm1, htx]; exact ih _ _ h
        | true =>
          cases hg : (b .cfg_paths : List Nat)[(b .cur_cfg_idx : Nat)]? with
          | none => simp [stepOne, hm1, htx, h1, h2, hg]
          | some p => simp [stepOne, hm1, htx, h1, h2, hg]; exact ih _ _ h
      · by_cases hm2 : m = "LayerChange"
        · cases htx : env.tx with
          | false => simp [stepOne, hm2, htx]; exact ih _ _ h
          | true =>
            cases cur with
            | none => simp [stepOne, hm2, htx]
            | some l =>
              cases hn : W.layerName (b .layer_info) l with
              | none => simp [stepOne, hm2, htx, h4, hn]
              | some name => simp [stepOne, hm2, htx, h4, hn]; exact ih _ _ h
        · simp [stepOne, hm1, hm2]
    | unknown t => simp only [stepOne, exRel_error]

theorem eqv_doLiveReload (hop : OpOK op) (env : Env W.toTypes) {a b : KSt W} (h : Eqv op a b) :
    ExRel (RResRel op) (doLiveReload env a) (doLiveReload env b) := by
  have h1 : a .cfg_paths = b .cfg_paths := h _ (hop.nm (by decide))
  have h2 : a .cur_cfg_idx = b .cur_cfg_idx := h _ (hop.nm (by decide))
  have hs : reloadSteps = .parse :: reloadSteps.tail := by decide
  unfold doLiveReload doLiveReloadWith
  rw [hs]
  simp only [h1, h2]
  cases (b .cfg_paths : List Nat)[(b .cur_cfg_idx : Nat)]? with
  | none => simp only [exRel_error]
  | some p =>
    simp only
    cases newFromFile env p with
    | none => simp only [exRel_ok]; exact ⟨h, rfl, rfl⟩
    | some c => exact eqv_runSteps hop env c _ none [] h

/-! ### `handle_time_ticks`, the loop, a whole history -/

theorem eqv_reloadDue (hop : OpOK op) {a b : KSt W} (h : Eqv op a b) : reloadDue a = reloadDue b := by
  have h1 : a .live_reload_requested = b .live_reload_requested := h _ (hop.nm (by decide))
  have h2 : a .prev_keys = b .prev_keys := h _ (hop.nm (by decide))
  have h3 : a .cur_keys = b .cur_keys := h _ (hop.nm (by decide))
  have h4 : a .ticks_since_idle = b .ticks_since_idle := h _ (hop.nm (by decide))
  unfold reloadDue
  rw [h1, h2, h3, h4]

def HResRel (op : List Field) (x y : HRes W.toTypes) : Prop :=
  Eqv (W := W) op x.st y.st ∧ x.os = y.os ∧ x.msgs = y.msgs ∧ x.attempt = y.attempt

theorem eqv_handleTimeTicks (hop : OpOK op) (hB : BlindTo op W) (nr : Bool) (env : Env W.toTypes) (ms : Nat)
    {a b : KSt W} (h : Eqv op a b) :
    ExRel (HResRel op) (handleTimeTicksG nr env ms a) (handleTimeTicksG nr env ms b) := by
  unfold handleTimeTicksG handleTimeTicksWithG
  rcases (eqv_tickMs hop hB nr ms h).cases with ⟨e, ha, hb⟩ | ⟨u, v, ha, hb, huv⟩
  · rw [ha, hb]; simp only [exRel_error]
  · obtain ⟨u1, uo⟩ := u
    obtain ⟨v1, vo⟩ := v
    obtain ⟨h1, ho⟩ := huv
    simp only at h1 ho
    subst ho
    rw [ha, hb]
    simp only
    rcases (eqv_checkLayerChange hop env.tx h1).cases with ⟨e, ha2, hb2⟩ | ⟨u2, v2, ha2, hb2, huv2⟩
    · rw [ha2, hb2]; simp only [exRel_error]
    · obtain ⟨u3, um⟩ := u2
      obtain ⟨v3, vm⟩ := v2
      obtain ⟨h2, hm⟩ := huv2
      simp only at h2 hm
      subst hm
      rw [ha2, hb2]
      simp only
      rw [eqv_reloadDue hop h2]
      cases hd : reloadDue v3 with
      | false => simp only [Bool.false_eq_true, if_false, exRel_ok]; exact ⟨h2, rfl, rfl, rfl⟩
      | true =>
        simp only [if_true]
        rcases (eqv_doLiveReload hop env (eqv_set h2 .live_reload_requested false)).cases with
          ⟨e, ha3, hb3⟩ | ⟨ru, rv, ha3, hb3, hr⟩
        · rw [ha3, hb3]; simp only [exRel_error]
        · rw [ha3, hb3]
          simp only [exRel_ok]
          obtain ⟨r1, r2, r3⟩ := hr
          exact ⟨r1, rfl, by rw [r2], by rw [r3]⟩

theorem eqv_isIdle (hop : OpOK op) (hB : BlindTo op W) {a b : KSt W} (h : Eqv op a b) :
    isIdle a = isIdle b ∧ pressedKeysMeanNotIdle a = pressedKeysMeanNotIdle b := by
  have h1 : a .waiting_for_idle = b .waiting_for_idle := h _ (hop.nm (by decide))
  have h2 : a .live_reload_requested = b .live_reload_requested := h _ (hop.nm (by decide))
  have h3 : a .layout = b .layout := h _ (hop.nm (by decide))
  have hp : pressedKeysMeanNotIdle a = pressedKeysMeanNotIdle b := by
    unfold pressedKeysMeanNotIdle; rw [h1, h2]
  refine ⟨?_, hp⟩
  unfold isIdle
  rw [hp, h3, hB.coreIdle a b h]

theorem eqv_canBlockUpdate (hop : OpOK op) (hB : BlindTo op W) (m : Nat) {a b : KSt W} (h : Eqv op a b) :
    Eqv op (canBlockUpdate m a).1 (canBlockUpdate m b).1 := by
  obtain ⟨hi, hp⟩ := eqv_isIdle hop hB h
  have h4 : a .ticks_since_idle = b .ticks_since_idle := h _ (hop.nm (by decide))
  simp only [canBlockUpdate, hi, hp, h4]
  split
  · exact eqv_set h _ _
  · split
    · exact eqv_set h _ _
    · exact h

theorem eqv_handleInput (hB : BlindTo op W) (e : W.Input) {a b : KSt W} (h : Eqv op a b) :
    Eqv op (handleInput a e).1 (handleInput b e).1 ∧ (handleInput a e).2 = (handleInput b e).2 := by
  have h0 := eqv_set h .ticks_since_idle (0 : Nat)
  have hb := hB.inputEvent _ _ e h0
  exact ⟨eqv_frameK h0 hb.1, hb.2⟩

def IterRel (op : List Field) (x y : IterRes W.toTypes) : Prop :=
  Eqv (W := W) op x.st y.st ∧ x.os = y.os ∧ x.msgs = y.msgs ∧ x.msNext = y.msNext

theorem eqv_loopIterNB (hop : OpOK op) (hB : BlindTo op W) (nr : Bool) (env : Env W.toTypes)
    (inp : Option W.Input) (ms msPrev : Nat) {a b : KSt W} (h : Eqv op a b) :
    ExRel (IterRel op) (loopIterNB nr env inp ms msPrev a) (loopIterNB nr env inp ms msPrev b) := by
  unfold loopIterNB
  simp only
  have s0 := eqv_canBlockUpdate hop hB msPrev h
  cases inp with
  | none =>
    simp only
    rcases (eqv_handleTimeTicks hop hB nr env ms s0).cases with ⟨e, ha, hb⟩ | ⟨u, v, ha, hb, huv⟩
    · rw [ha, hb]; simp only [exRel_error]
    · rw [ha, hb]
      simp only [exRel_ok]
      obtain ⟨r1, r2, r3, _⟩ := huv
      exact ⟨r1, by simp only [r2], r3, rfl⟩
  | some e =>
    simp only
    obtain ⟨s1, eo⟩ := eqv_handleInput hB e s0
    rcases (eqv_handleTimeTicks hop hB nr env ms s1).cases with ⟨e', ha, hb⟩ | ⟨u, v, ha, hb, huv⟩
    · rw [ha, hb]; simp only [exRel_error]
    · rw [ha, hb]
      simp only [exRel_ok]
      obtain ⟨r1, r2, r3, _⟩ := huv
      exact ⟨r1, by simp only [r2, eo], r3, rfl⟩

/-- **the whole history**: related instances produce the same OS events and notifications, iteration
by iteration, crash in the same way, and end in related states -/
theorem eqv_runNB (hop : OpOK op) (hB : BlindTo op W) (nr : Bool) (script : List (Tick W.toTypes)) :
    ∀ (msPrev : Nat) {a b : KSt W}, Eqv op a b →
    ExRel (PairRel op) (runNB nr script msPrev a) (runNB nr script msPrev b) := by
  induction script with
  | nil => intro msPrev a b h; simp only [runNB, exRel_ok]; exact ⟨h, rfl⟩
  | cons t rest ih =>
    intro msPrev a b h
    simp only [runNB]
    rcases (eqv_loopIterNB hop hB nr t.env t.inp t.ms msPrev h).cases with ⟨e, ha, hb⟩ | ⟨u, v, ha, hb, huv⟩
    · rw [ha, hb]; simp only [exRel_error]
    · rw [ha, hb]
      simp only
      obtain ⟨r1, r2, r3, r4⟩ := huv
      rw [r4]
      rcases (ih v.msNext r1).cases with ⟨e, ha2, hb2⟩ | ⟨u2, v2, ha2, hb2, huv2⟩
      · rw [ha2, hb2]; simp only [exRel_error]
      · obtain ⟨u3, uo⟩ := u2
        obtain ⟨v3, vo⟩ := v2
        obtain ⟨h2, ho⟩ := huv2
        simp only at h2 ho
        subst ho
        rw [ha2, hb2]
        simp only [exRel_ok]
        exact ⟨h2, by simp only [r2, r3]⟩

end KVerif.Reload
