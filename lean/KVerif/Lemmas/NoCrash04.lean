/-
C02 helper lemmas: on the layered fragment of C04 the layout model never takes a crash branch.

`Lemmas/Layered.lean` / `Lemmas/LayeredTick.lean` show what `doAction`/`tick` compute *if* they return
`.ok`.  This file shows the missing half: they do return `.ok`, given
* the recursion budget suffices (`DepthOK`: a bound on the fuel cost of every configured action —
  nesting depth of `multi` plus position inside the `multi` lists, see `cost`),
* layer indices stay inside the layer table (`RangeOK` on the configuration, `InRange` on the state),
* the defsrc row holds nothing transparent (`RangeOK`),
* press coordinates stay inside the table (`evOK`).
-/
import KVerif.Lemmas.LayeredTick
namespace KVerif.C04
open KVerif.L KVerif.Spec.Layered

/-! ### fuel cost, references, layer targets of an action -/

mutual
  /-- Fuel that `doAction` needs for an action, not counting what a transparent / use-defsrc leaf
  resolves to: 2 for anything that is not a `multi` (one unit for `doAction`, one for `dispatch`);
  a `multi` adds one unit per member already run (the model's `doActions` loop is fuelled, Rust's
  is a `for` loop) on top of the cost of the member. -/
  def cost : Action → Nat
    | .multipleActions acs => 2 + costL acs
    | _ => 2
  def costL : List Action → Nat
    | [] => 1
    | a :: rest => 1 + max (cost a) (costL rest)
end

mutual
  /-- no transparent and no use-defsrc item anywhere inside -/
  def refFree : Action → Bool
    | .trans | .src => false
    | .multipleActions acs => refFreeL acs
    | _ => true
  def refFreeL : List Action → Bool
    | [] => true
    | a :: rest => refFree a && refFreeL rest
end

mutual
  /-- every `layer-while-held` target is a layer that exists -/
  def layersIn (n : Nat) : Action → Bool
    | .layer l => decide (l < n)
    | .multipleActions acs => layersInL n acs
    | _ => true
  def layersInL (n : Nat) : List Action → Bool
    | [] => true
    | a :: rest => layersIn n a && layersInL n rest
end

mutual
  /-- nesting depth of `multi` -/
  def depth : Action → Nat
    | .multipleActions acs => 1 + depthL acs
    | _ => 0
  def depthL : List Action → Nat
    | [] => 0
    | a :: rest => max (depth a) (depthL rest)
end

mutual
  /-- longest `multi` list anywhere inside -/
  def width : Action → Nat
    | .multipleActions acs => max acs.length (widthL acs)
    | _ => 0
  def widthL : List Action → Nat
    | [] => 0
    | a :: rest => max (width a) (widthL rest)
end

/-- the bound on `cost` of every configured action: `2 + (MAX_ACTIVE_LAYERS + 1) * COST_MAX ≤ 3999` -/
abbrev COST_MAX : Nat := 300

/-- all entries of the layer tables and of the defsrc row -/
def allActions (c : LCfg) : List Action :=
  (c.layers.flatMap fun tbl => tbl.map (·.2)) ++ c.srcKeys.map (·.2)

/-- **the recursion bound** (decidable): every configured action has fuel cost at most `COST_MAX` -/
def DepthOK (c : LCfg) : Prop := ((allActions c).all fun a => decide (cost a ≤ COST_MAX)) = true

/-- **indices in range** (decidable): there is a layer; every `layer-while-held` target exists; the
defsrc row holds no transparent / use-defsrc item (kanata fills it with plain key codes) -/
def RangeOK (c : LCfg) : Prop :=
  (decide (0 < c.layers.length) && ((allActions c).all (layersIn c.layers.length)) &&
    (c.srcKeys.all fun e => refFree e.2)) = true

instance (c : LCfg) : Decidable (DepthOK c) := by unfold DepthOK; exact inferInstance
instance (c : LCfg) : Decidable (RangeOK c) := by unfold RangeOK; exact inferInstance

/-- a press lies inside the layer table (`rows` × `cols`; 2 × 767 in kanata) -/
def coordOK (c : LCfg) (co : Coord) : Bool := decide (co.1 < c.rows) && decide (co.2 < c.cols)

def evOK (c : LCfg) : Ev → Bool
  | .press co => coordOK c co
  | .release _ => true

def contribOK (n : Nat) : Contrib → Bool
  | .layer l _ => decide (l < n)
  | .key _ _ _ => true

/-- the dynamic counterpart of `RangeOK`, on the abstraction of the state: the base layer and every
held layer exist, every pending press lies inside the table -/
def InRangeT (c : LCfg) (t : State) : Prop :=
  (decide (t.base < c.layers.length) && t.contribs.all (contribOK c.layers.length) &&
    t.pending.all (evOK c)) = true

instance (c : LCfg) (t : State) : Decidable (InRangeT c t) := by unfold InRangeT; exact inferInstance

def InRange (s : Layout) : Prop := InRangeT s.cfg (abs s)
instance (s : Layout) : Decidable (InRange s) := by unfold InRange; exact inferInstance

/-! ### unpacking the configuration predicates -/

theorem mem_allActions_layer {c : LCfg} {tbl : List (Coord × Action)} {e : Coord × Action}
    (ht : tbl ∈ c.layers) (he : e ∈ tbl) : e.2 ∈ (allActions c) := by
  unfold allActions
  exact List.mem_append_left _ (List.mem_flatMap.mpr ⟨tbl, ht, List.mem_map.mpr ⟨e, he, rfl⟩⟩)

theorem mem_allActions_src {c : LCfg} {e : Nat × Action} (he : e ∈ c.srcKeys) : e.2 ∈ (allActions c) := by
  unfold allActions
  exact List.mem_append_right _ (List.mem_map.mpr ⟨e, he, rfl⟩)

theorem DepthOK.cost_le {c : LCfg} (h : DepthOK c) {a : Action} (ha : a ∈ (allActions c)) : cost a ≤ COST_MAX := by
  have := List.all_eq_true.mp h a ha
  simpa using this

structure RangeOK' (c : LCfg) : Prop where
  pos : 0 < c.layers.length
  layers : ∀ a ∈ (allActions c), layersIn c.layers.length a = true
  src : ∀ e ∈ c.srcKeys, refFree e.2 = true

theorem RangeOK.unpack {c : LCfg} (h : RangeOK c) : RangeOK' c := by
  unfold RangeOK at h
  simp only [Bool.and_eq_true, decide_eq_true_eq, List.all_eq_true] at h
  exact ⟨h.1.1, h.1.2, h.2⟩

theorem cost_ge (a : Action) : 2 ≤ cost a := by
  cases a <;> simp only [cost] <;> omega

theorem costL_ge (acs : List Action) : 1 ≤ costL acs := by
  cases acs <;> simp only [costL] <;> omega

/-- the fuel cost in terms of nesting depth and list length: each nesting level costs at most the
longest `multi` list plus two -/
theorem cost_le_depth (w : Nat) : ∀ (n : Nat) (a : Action), cost a ≤ n → width a ≤ w →
    cost a ≤ 2 + depth a * (w + 2) := by
  intro n
  induction n with
  | zero => intro a h; have := cost_ge a; omega
  | succ n ih =>
    intro a hn hw
    cases a
    case multipleActions acs =>
      simp only [cost] at hn ⊢
      simp only [width] at hw
      simp only [depth]
      have hL : ∀ l : List Action, costL l ≤ n → widthL l ≤ w →
          costL l ≤ l.length + 2 + depthL l * (w + 2) := by
        intro l
        induction l with
        | nil => intro _ _; simp only [costL, List.length_nil]; omega
        | cons b r ihr =>
          intro h1 h2
          simp only [costL] at h1 ⊢
          simp only [widthL] at h2
          simp only [depthL, List.length_cons]
          have hb := ih b (by omega) (by omega)
          have hr := ihr (by omega) (by omega)
          have m1 : depth b * (w + 2) ≤ max (depth b) (depthL r) * (w + 2) :=
            Nat.mul_le_mul_right _ (Nat.le_max_left _ _)
          have m2 : depthL r * (w + 2) ≤ max (depth b) (depthL r) * (w + 2) :=
            Nat.mul_le_mul_right _ (Nat.le_max_right _ _)
          omega
      have := hL acs (by omega) (by omega)
      rw [Nat.add_mul, Nat.one_mul]
      omega
    all_goals simp [cost]

/-- **a readable sufficient condition** (decidable): no `multi` nested deeper than `d`, none with
more than `w` members.  `nesting_bound_suffices` accepts any `d`, `w` with `d * (w + 2) + 2 ≤ COST_MAX`,
e.g. 16 levels of at most 16 members, or one level (what `parse_multi` produces on this fragment: it
splices a `multi` written directly inside a `multi` into its parent) of at most 296 members. -/
def NestingOK (d w : Nat) (c : LCfg) : Prop :=
  ((allActions c).all fun a => decide (depth a ≤ d) && decide (width a ≤ w)) = true

instance (d w : Nat) (c : LCfg) : Decidable (NestingOK d w c) := by unfold NestingOK; exact inferInstance

theorem nesting_bound_suffices {d w : Nat} (hdw : d * (w + 2) + 2 ≤ COST_MAX) {c : LCfg}
    (h : NestingOK d w c) : DepthOK c := by
  unfold DepthOK
  unfold NestingOK at h
  simp only [List.all_eq_true, Bool.and_eq_true, decide_eq_true_eq] at h ⊢
  intro a ha
  obtain ⟨h1, h2⟩ := h a ha
  have := cost_le_depth w (cost a) a (Nat.le_refl _) h2
  have hm : depth a * (w + 2) ≤ d * (w + 2) := Nat.mul_le_mul_right _ h1
  omega

theorem srcKey_props {c : LCfg} (hd : DepthOK c) (hr : RangeOK c) (y : Nat) :
    cost (c.srcKey y) ≤ COST_MAX ∧ refFree (c.srcKey y) = true ∧
      layersIn c.layers.length (c.srcKey y) = true := by
  unfold LCfg.srcKey
  split
  · rename_i a hf
    have hm := List.mem_of_find?_eq_some hf
    exact ⟨hd.cost_le (mem_allActions_src hm), hr.unpack.src _ hm, hr.unpack.layers _ (mem_allActions_src hm)⟩
  · exact ⟨by simp [cost, COST_MAX], rfl, rfl⟩

/-! ### `resolve_coord` stays inside the table -/

theorem layerAction_ok {c : LCfg} (hd : DepthOK c) (hr : RangeOK c) {co : Coord} (hco : coordOK c co = true)
    {l : Nat} (hl : l < c.layers.length) :
    ∃ a, c.layerAction l co = .ok a ∧ cost a ≤ COST_MAX ∧ layersIn c.layers.length a = true := by
  simp only [coordOK, Bool.and_eq_true, decide_eq_true_eq] at hco
  unfold LCfg.layerAction
  rw [List.getElem?_eq_getElem hl]
  simp only [ge_iff_le, Nat.not_le.mpr hco.1, Nat.not_le.mpr hco.2, if_false]
  split
  · rename_i e a hf
    have hm := List.mem_of_find?_eq_some hf
    have hmem := mem_allActions_layer (List.getElem_mem hl) hm
    exact ⟨a, rfl, hd.cost_le hmem, hr.unpack.layers _ hmem⟩
  · exact ⟨.trans, rfl, by simp [cost, COST_MAX], rfl⟩

/-- on coordinates inside the table and layers that exist, `resolve_coord` returns an action that is
not transparent, within the cost bound, and either free of references (the defsrc key) or found
strictly above the end of the layer stack -/
theorem resolve_ok (s : Layout) (hd : DepthOK s.cfg) (hr : RangeOK s.cfg) {co : Coord}
    (hco : coordOK s.cfg co = true) :
    ∀ ls : List Nat, (∀ l ∈ ls, l < s.cfg.layers.length) →
      ∃ a ls', s.resolveCoord co ls = .ok (a, ls') ∧ a ≠ .trans ∧ cost a ≤ COST_MAX ∧
        (refFree a = true ∨ ls'.length < ls.length) ∧ (∀ l ∈ ls', l ∈ ls) := by
  have hco' := hco
  simp only [coordOK, Bool.and_eq_true, decide_eq_true_eq] at hco'
  have hx : ¬ co.1 > s.cfg.rows := by omega
  have hy : ¬ co.2 > s.cfg.cols := by omega
  intro ls
  induction ls with
  | nil =>
    intro _
    simp only [Layout.resolveCoord, hx, hy, if_false, ge_iff_le, Nat.not_le.mpr hco'.2]
    split
    · obtain ⟨h1, h2, _⟩ := srcKey_props hd hr co.2
      refine ⟨_, _, rfl, ?_, h1, Or.inl h2, fun _ h => h⟩
      intro h; rw [h] at h2; simp [refFree] at h2
    · exact ⟨_, _, rfl, by simp, by simp [cost, COST_MAX], Or.inl rfl, fun _ h => h⟩
  | cons l rest ih =>
    intro hls
    obtain ⟨a, ha, hc, _⟩ := layerAction_ok hd hr hco (hls l (by simp))
    obtain ⟨a', ls', i1, i2, i3, i4, i5⟩ := ih (fun x hx => hls x (by simp [hx]))
    simp only [Layout.resolveCoord, hx, hy, if_false, ha]
    by_cases hat : a = .trans
    · subst hat
      refine ⟨a', ls', i1, i2, i3, ?_, fun x hx => List.mem_cons_of_mem _ (i5 x hx)⟩
      rcases i4 with i4 | i4
      · exact Or.inl i4
      · exact Or.inr (by simp only [List.length_cons]; omega)
    · refine ⟨a, rest, ?_, hat, hc, Or.inr (by simp), fun x hx => List.mem_cons_of_mem _ hx⟩
      cases a <;> first | rfl | exact absurd rfl hat

/-! ### `do_action` on the fragment returns -/

/-- **no crash branch, no fuel exhaustion in `do_action`** on the fragment.  `x` is the part of the
budget reserved for what transparent / use-defsrc leaves resolve to: `COST_MAX` for each layer still
to search plus one for the defsrc row. -/
theorem total_all : ∀ fuel : Nat,
    (∀ s a coord delay ls x, CfgFrag s.cfg → DepthOK s.cfg → RangeOK s.cfg → Inert s → Frag a →
      coordOK s.cfg coord = true → (∀ l ∈ ls, l < s.cfg.layers.length) →
      (refFree a = true ∨ COST_MAX * (ls.length + 1) ≤ x) → cost a + x ≤ fuel →
      ∃ r, doAction fuel s a coord delay false ls = .ok r) ∧
    (∀ s a coord delay ls x, CfgFrag s.cfg → DepthOK s.cfg → RangeOK s.cfg → Inert s → Frag a →
      coordOK s.cfg coord = true → (∀ l ∈ ls, l < s.cfg.layers.length) → a ≠ .trans →
      (refFree a = true ∨ COST_MAX * (ls.length + 1) ≤ x) → cost a + x ≤ fuel + 1 →
      ∃ r, dispatch fuel s a coord delay false ls = .ok r) ∧
    (∀ s acs coord delay ls x cu, CfgFrag s.cfg → DepthOK s.cfg → RangeOK s.cfg → Inert s → FragL acs →
      coordOK s.cfg coord = true → (∀ l ∈ ls, l < s.cfg.layers.length) →
      (refFreeL acs = true ∨ COST_MAX * (ls.length + 1) ≤ x) → costL acs + x ≤ fuel →
      ∃ r, doActions fuel s acs coord delay false ls cu = .ok r) := by
  intro fuel
  induction fuel with
  | zero =>
    refine ⟨?_, ?_, ?_⟩
    · intro s a coord delay ls x _ _ _ _ _ _ _ _ h
      have := cost_ge a; omega
    · intro s a coord delay ls x _ _ _ _ _ _ _ _ _ h
      have := cost_ge a; omega
    · intro s acs coord delay ls x cu _ _ _ _ _ _ _ _ h
      have := costL_ge acs; omega
  | succ fuel ih =>
    obtain ⟨ih1, ih2, ih3⟩ := ih
    refine ⟨?_, ?_, ?_⟩
    · -- doAction
      intro s a coord delay ls x hc hd hr hi hf hco hls hb hfuel
      have hpi := prelude_inert coord hi
      have hps := prelude_same s coord
      have hls' : ∀ l ∈ ls, l < (prelude s coord).cfg.layers.length := by rw [hps.cfg]; exact hls
      cases a <;> simp only [Frag] at hf
      case trans =>
        obtain ⟨a', ls', e1, e2, e3, e4, e5⟩ := resolve_ok s hd hr hco ls hls
        have hfa' : Frag a' := (resolve_lookup s coord hc ls a' ls' e1).2
        have hx : COST_MAX * (ls.length + 1) ≤ x := by simpa [refFree] using hb
        simp only [cost] at hfuel
        simp only [COST_MAX] at hx e3
        simp only [doAction, e1]
        have hls'' : ∀ l ∈ ls', l < (prelude s coord).cfg.layers.length := fun l hl => hls' l (e5 l hl)
        rcases e4 with e4 | e4
        · exact ih2 (prelude s coord) a' coord delay ls' 0 (hps.cfg ▸ hc) (hps.cfg ▸ hd) (hps.cfg ▸ hr) hpi hfa'
            (hps.cfg ▸ hco) hls'' e2 (Or.inl e4) (by omega)
        · exact ih2 (prelude s coord) a' coord delay ls' (x - 300) (hps.cfg ▸ hc) (hps.cfg ▸ hd) (hps.cfg ▸ hr) hpi hfa'
            (hps.cfg ▸ hco) hls'' e2 (Or.inr (by show 300 * (ls'.length + 1) ≤ x - 300; omega)) (by omega)
      all_goals
        simp only [doAction]
        exact ih2 (prelude s coord) _ coord delay ls x (hps.cfg ▸ hc) (hps.cfg ▸ hd) (hps.cfg ▸ hr) hpi
          (by simp only [Frag] <;> exact hf) (hps.cfg ▸ hco) hls' (by simp) hb (by omega)
    · -- dispatch
      intro s a coord delay ls x hc hd hr hi hf hco hls hnt hb hfuel
      cases a <;> simp only [Frag] at hf <;> simp only [dispatch]
      case noOp => exact ⟨_, rfl⟩
      case trans => exact absurd rfl hnt
      case keyCode => exact ⟨_, rfl⟩
      case multipleKeyCodes => exact ⟨_, rfl⟩
      case layer => exact ⟨_, rfl⟩
      case defaultLayer => exact ⟨_, rfl⟩
      case releaseState => exact ⟨_, rfl⟩
      case src =>
        have hco' := hco
        simp only [coordOK, Bool.and_eq_true, decide_eq_true_eq] at hco'
        rw [if_neg (by omega)]
        have hx : COST_MAX * (ls.length + 1) ≤ x := by simpa [refFree] using hb
        simp only [cost] at hfuel
        obtain ⟨h1, h2, _⟩ := srcKey_props hd hr coord.2
        simp only [COST_MAX] at hx h1
        obtain ⟨⟨s1, c1⟩, hr'⟩ := ih1 s (s.cfg.srcKey coord.2) coord delay [] 0 hc hd hr hi (srcKey_frag hc _) hco
          (by simp) (Or.inl h2) (by omega)
        rw [hr']
        exact ⟨_, rfl⟩
      case multipleActions acs =>
        have hu := updateCoord_inert coord hi
        have hus := updateCoord_same s coord
        simp only [refFree] at hb
        simp only [cost] at hfuel
        obtain ⟨⟨s1, c1⟩, hr'⟩ := ih3 (updateCoord s coord) acs coord delay ls x .noEvent (hus.cfg ▸ hc) (hus.cfg ▸ hd)
          (hus.cfg ▸ hr) hu hf (hus.cfg ▸ hco) (by rw [hus.cfg]; exact hls) hb (by omega)
        rw [hr']
        exact ⟨_, rfl⟩
    · -- doActions
      intro s acs coord delay ls x cu hc hd hr hi hf hco hls hb hfuel
      cases acs with
      | nil => exact ⟨(s, cu), by simp only [doActions]⟩
      | cons a rest =>
        simp only [FragL] at hf
        simp only [refFreeL, Bool.and_eq_true] at hb
        simp only [costL] at hfuel
        obtain ⟨⟨s1, c1⟩, h1⟩ := ih1 s a coord delay ls x hc hd hr hi hf.1 hco hls (hb.imp (·.1) id) (by omega)
        obtain ⟨r1, r2, _, _⟩ := (refines_all fuel).1 s a coord delay ls s1 c1 hc hi hf.1 h1
        obtain ⟨r, h2⟩ := ih3 s1 rest coord delay ls x (cu.update c1) (r2.cfg ▸ hc) (r2.cfg ▸ hd) (r2.cfg ▸ hr) r1 hf.2
          (r2.cfg ▸ hco) (by rw [r2.cfg]; exact hls) (hb.imp (·.2) id) (by omega)
        exact ⟨r, by simp only [doActions, h1, h2]⟩

/-! ### the layered machine keeps layer indices in range -/

/-- base layer and held layers exist -/
structure TOK (n : Nat) (t : State) : Prop where
  base : t.base < n
  contribs : ∀ x ∈ t.contribs, contribOK n x = true

theorem InRangeT.unpack {c : LCfg} {t : State} (h : InRangeT c t) :
    TOK c.layers.length t ∧ ∀ e ∈ t.pending, evOK c e = true := by
  unfold InRangeT at h
  simp only [Bool.and_eq_true, decide_eq_true_eq, List.all_eq_true] at h
  exact ⟨⟨h.1.1, h.1.2⟩, h.2⟩

theorem InRangeT.pack {c : LCfg} {t : State} (h1 : TOK c.layers.length t)
    (h2 : ∀ e ∈ t.pending, evOK c e = true) : InRangeT c t := by
  unfold InRangeT
  simp only [Bool.and_eq_true, decide_eq_true_eq, List.all_eq_true]
  exact ⟨⟨h1.base, h1.contribs⟩, h2⟩

theorem cok_add {n : Nat} {cs : List Contrib} {c : Contrib} (h : ∀ x ∈ cs, contribOK n x = true)
    (hc : contribOK n c = true) : ∀ x ∈ add cs c, contribOK n x = true := by
  intro x hx
  unfold add at hx
  split at hx
  · rcases List.mem_append.mp hx with h1 | h1
    · exact h x h1
    · simp at h1; subst h1; exact hc
  · exact h x hx

theorem cok_foldl {n : Nat} (co : Coord) (kcs : List KeyCode) : ∀ {cs : List Contrib},
    (∀ x ∈ cs, contribOK n x = true) →
    ∀ x ∈ kcs.foldl (fun cs kc => add cs (.key kc co true)) cs, contribOK n x = true := by
  induction kcs with
  | nil => intro cs h; exact h
  | cons kc rest ih => intro cs h; exact ih (cok_add h rfl)

theorem cok_filter {n : Nat} {cs : List Contrib} (p : Contrib → Bool) (h : ∀ x ∈ cs, contribOK n x = true) :
    ∀ x ∈ cs.filter p, contribOK n x = true := fun x hx => h x (List.mem_filter.mp hx).1

theorem srcKey_layersIn {c : LCfg} (hr : RangeOK c) (y : Nat) : layersIn c.layers.length (c.srcKey y) = true := by
  unfold LCfg.srcKey
  split
  · rename_i a hf
    exact hr.unpack.layers _ (mem_allActions_src (List.mem_of_find?_eq_some hf))
  · rfl

theorem lookup_layersIn (km : Keymap) (hr : RangeOK km.cfg) (c : Coord) :
    ∀ ls, layersIn km.cfg.layers.length (lookup km c ls).1 = true := by
  intro ls
  induction ls with
  | nil =>
    simp only [lookup]
    split
    · exact srcKey_layersIn hr _
    · rfl
  | cons l rest ih =>
    have hta : layersIn km.cfg.layers.length (tableAction km l c) = true := by
      unfold tableAction
      split
      · rename_i tbl htbl
        split
        · rename_i e a hf
          exact hr.unpack.layers _ (mem_allActions_layer (List.mem_of_getElem? htbl) (List.mem_of_find?_eq_some hf))
        · rfl
      · rfl
    simp only [lookup]
    split
    · exact ih
    · exact hta

/-- `perform` keeps the base layer and the held layers inside the table and leaves the pending
events alone -/
theorem perform_tok (km : Keymap) (hr : RangeOK km.cfg) (c : Coord) : ∀ fuel : Nat,
    (∀ t a ls, TOK km.cfg.layers.length t → layersIn km.cfg.layers.length a = true →
      TOK km.cfg.layers.length (perform km c fuel t a ls) ∧ (perform km c fuel t a ls).pending = t.pending) ∧
    (∀ t a ls, TOK km.cfg.layers.length t → layersIn km.cfg.layers.length a = true →
      TOK km.cfg.layers.length (performFound km c fuel t a ls) ∧ (performFound km c fuel t a ls).pending = t.pending) ∧
    (∀ t acs ls, TOK km.cfg.layers.length t → layersInL km.cfg.layers.length acs = true →
      TOK km.cfg.layers.length (performAll km c fuel t acs ls) ∧ (performAll km c fuel t acs ls).pending = t.pending) := by
  intro fuel
  induction fuel with
  | zero => exact ⟨fun t a ls ht _ => ⟨ht, rfl⟩, fun t a ls ht _ => ⟨ht, rfl⟩, fun t a ls ht _ => ⟨ht, rfl⟩⟩
  | succ fuel ih =>
    obtain ⟨ih1, ih2, ih3⟩ := ih
    refine ⟨?_, ?_, ?_⟩
    · intro t a ls ht ha
      have ht' : TOK km.cfg.layers.length { t with contribs := dropUntilNextAction t.contribs } :=
        ⟨ht.base, cok_filter _ ht.contribs⟩
      have hres : ∃ a' ls', layersIn km.cfg.layers.length a' = true ∧
          perform km c (fuel + 1) t a ls =
            performFound km c fuel { t with contribs := dropUntilNextAction t.contribs } a' ls' := by
        cases a
        case trans =>
          cases hl : lookup km c ls with
          | mk a' ls' =>
            refine ⟨a', ls', ?_, by simp only [perform, hl]⟩
            have := lookup_layersIn km hr c ls
            rw [hl] at this; exact this
        all_goals exact ⟨_, ls, ha, by simp only [perform]⟩
      obtain ⟨a', ls', h1, h2⟩ := hres
      rw [h2]
      exact ih2 _ a' ls' ht' h1
    · intro t a ls ht ha
      cases a <;> simp only [performFound] <;> try exact ⟨ht, by first | rfl | trivial⟩
      case keyCode kc => exact ⟨⟨ht.base, cok_add ht.contribs rfl⟩, by first | rfl | trivial⟩
      case multipleKeyCodes kcs => exact ⟨⟨ht.base, cok_foldl c kcs ht.contribs⟩, by first | rfl | trivial⟩
      case multipleActions acs =>
        simp only [layersIn] at ha
        exact ih3 t acs ls ht ha
      case layer l =>
        exact ⟨⟨ht.base, cok_add ht.contribs (by simpa [layersIn, contribOK] using ha)⟩, by first | rfl | trivial⟩
      case defaultLayer l =>
        split
        · rename_i hl; exact ⟨⟨hl, ht.contribs⟩, by first | rfl | trivial⟩
        · exact ⟨ht, by first | rfl | trivial⟩
      case releaseState rs =>
        cases rs <;> exact ⟨⟨ht.base, cok_filter _ ht.contribs⟩, by first | rfl | trivial⟩
      case src => exact ih1 t _ [] ht (srcKey_layersIn hr _)
    · intro t acs ls ht ha
      cases acs with
      | nil => exact ⟨ht, rfl⟩
      | cons a rest =>
        simp only [layersInL, Bool.and_eq_true] at ha
        simp only [performAll]
        obtain ⟨h1, h2⟩ := ih1 t a ls ht ha.1
        obtain ⟨h3, h4⟩ := ih3 _ rest ls h1 ha.2
        exact ⟨h3, h4.trans h2⟩

theorem step_inRange (km : Keymap) (hr : RangeOK km.cfg) {t : State} (h : InRangeT km.cfg t) :
    InRangeT km.cfg (step km t) := by
  obtain ⟨h1, h2⟩ := h.unpack
  unfold step
  split
  · exact h
  · rename_i c rest hp
    have ht' : TOK km.cfg.layers.length { t with pending := rest } := ⟨h1.base, h1.contribs⟩
    obtain ⟨p1, p2⟩ := (perform_tok km hr c DEPTH).1 { t with pending := rest } .trans
      (searchOrder km { t with pending := rest }) ht' rfl
    refine InRangeT.pack p1 ?_
    rw [p2]
    intro e he
    exact h2 e (by rw [hp]; exact List.mem_cons_of_mem _ he)
  · rename_i c rest hp
    refine InRangeT.pack ⟨h1.base, cok_filter _ h1.contribs⟩ ?_
    intro e he
    exact h2 e (by rw [hp]; exact List.mem_cons_of_mem _ he)

theorem input_inRange {c : LCfg} {t : State} (h : InRangeT c t) {e : Ev} (he : evOK c e = true) :
    InRangeT c (input t e) := by
  obtain ⟨h1, h2⟩ := h.unpack
  refine InRangeT.pack ⟨h1.base, h1.contribs⟩ ?_
  intro x hx
  simp only [input] at hx
  rcases List.mem_append.mp hx with h3 | h3
  · exact h2 x h3
  · simp at h3; subst h3; exact he

/-! ### the search order is short and inside the table -/

theorem heldLayers_lt {n : Nat} {t : State} (h : TOK n t) : ∀ l ∈ heldLayers t, l < n := by
  intro l hl
  unfold heldLayers at hl
  obtain ⟨x, hx, hf⟩ := List.mem_filterMap.mp (List.mem_reverse.mp hl)
  have := h.contribs x hx
  cases x with
  | key => cases hf
  | layer v co =>
    injection hf with hf; subst hf
    simpa [contribOK] using this

theorem currentLayer_lt {n : Nat} {t : State} (h : TOK n t) : Spec.Layered.currentLayer t < n := by
  unfold Spec.Layered.currentLayer
  split
  · rename_i l rest hh
    exact heldLayers_lt h l (by rw [hh]; simp)
  · exact h.base

theorem searchOrder_lt (km : Keymap) {n : Nat} (hn : 0 < n) {t : State} (h : TOK n t) :
    ∀ l ∈ searchOrder km t, l < n := by
  intro l hl
  unfold searchOrder at hl
  have h0 : ∀ (b : Bool), l ∈ (if b = true then [0] else []) → l < n := by
    intro b hb
    split at hb
    · simp at hb; omega
    · cases hb
  split at hl
  · rcases List.mem_append.mp hl with h1 | h1
    · rcases List.mem_append.mp h1 with h2 | h2
      · exact heldLayers_lt h l h2
      · simp at h2; subst h2; exact h.base
    · exact h0 _ h1
  · rcases List.mem_append.mp hl with h1 | h1
    · simp at h1; subst h1; exact currentLayer_lt h
    · exact h0 _ h1

theorem searchOrder_len (km : Keymap) (t : State) (hl : (heldLayers t).length + 2 ≤ MAX_ACTIVE_LAYERS) :
    (searchOrder km t).length ≤ MAX_ACTIVE_LAYERS := by
  unfold searchOrder
  simp only [MAX_ACTIVE_LAYERS] at hl ⊢
  split <;> simp only [List.length_append, List.length_cons, List.length_nil] <;> split <;>
    simp only [List.length_cons, List.length_nil] <;> omega

/-! ### `tick` returns -/

/-- with at most 10 layers held the layer stack (capacity 12) does not overflow — before the fix
31b82c0 (`pinnedLayerStack`) as well as after it -/
theorem transOrder_total {s : Layout} (h : Inert s)
    (hl : (heldLayers (abs s)).length + 2 ≤ MAX_ACTIVE_LAYERS) : ∃ o, s.transOrder = .ok o := by
  have hlen : s.activeHeldLayers.length + 2 ≤ 12 := heldLayers_abs h.states ▸ hl
  unfold Layout.transOrder
  simp only []
  split
  · have : ¬ (if s.cfg.pinnedLayerStack = true then s.activeHeldLayers
        else s.activeHeldLayers.take MAX_ACTIVE_LAYERS).length > MAX_ACTIVE_LAYERS := by
      simp only [MAX_ACTIVE_LAYERS]
      split
      · omega
      · rw [List.length_take]; omega
    rw [if_neg this]
    exact ⟨_, rfl⟩
  · exact ⟨_, rfl⟩

theorem dequeue_press_total {s : Layout} (hc : CfgFrag s.cfg) (hd : DepthOK s.cfg) (hr : RangeOK s.cfg)
    (h : Inert s) (ht : TOK s.cfg.layers.length (abs s)) (c : Coord) (hco : coordOK s.cfg c = true)
    (since : Nat) (hl : (heldLayers (abs s)).length + 2 ≤ MAX_ACTIVE_LAYERS) :
    ∃ r, dequeue FUEL s ⟨.press c, since⟩ = .ok r := by
  obtain ⟨order, ho⟩ := transOrder_total h hl
  have hso := transOrder_spec h order ho hl
  have hlen := searchOrder_len (km s) (abs s) hl
  have hlt := searchOrder_lt (km s) hr.unpack.pos ht
  rw [← hso] at hlen hlt
  rw [FUEL_succ]
  simp only [dequeue, h.tde, bind, Except.bind, ho]
  simp only [MAX_ACTIVE_LAYERS] at hlen
  exact (total_all 3999).1 s .trans c since order 3900 hc hd hr h trivial hco hlt
    (Or.inr (by simp only [COST_MAX]; omega)) (by simp only [cost]; omega)

/-- **one tick of the layout on an inert state of the fragment returns** -/
theorem tick_total {s : Layout} (hc : CfgFrag s.cfg) (hd : DepthOK s.cfg) (hr : RangeOK s.cfg)
    (h : Inert s) (hin : InRange s) (hl : (heldLayers (abs s)).length + 2 ≤ MAX_ACTIVE_LAYERS) :
    ∃ r, tick s = .ok r := by
  obtain ⟨p1, p2, p3⟩ := tickPre_spec h
  obtain ⟨i1, i2⟩ := InRangeT.unpack hin
  have hmain : ∃ s2 c2, tickMain (tickPre s) = .ok (s2, c2) ∧ Inert s2 := by
    unfold tickMain
    simp only [p1.waiting, p1.extra, List.isEmpty_nil, if_true, p1.pause, Nat.lt_irrefl, if_false]
    have hq : (abs s).pending = (tickPre s).queue.map (·.ev) := by rw [← p3]; rfl
    cases hqq : (tickPre s).queue with
    | nil => exact ⟨_, _, rfl, p1⟩
    | cons q rest =>
      simp only []
      have hi' : Inert ((tickPre s).setQueue rest) := p1.of_eq rfl rfl rfl rfl rfl rfl rfl
      have habs' : abs ((tickPre s).setQueue rest) = { abs s with pending := rest.map (·.ev) } := by
        have := p3; simp only [abs] at this ⊢
        injection this with t1 t2 t3
        simp [Layout.setQueue, t2, t3]
      have hcfg' : ((tickPre s).setQueue rest).cfg = s.cfg := p2.cfg
      obtain ⟨ev, since⟩ := q
      cases ev with
      | press c =>
        have hco : coordOK s.cfg c = true := by
          have := i2 (.press c) (by rw [hq, hqq]; simp)
          exact this
        have ht' : TOK ((tickPre s).setQueue rest).cfg.layers.length (abs ((tickPre s).setQueue rest)) := by
          rw [habs', hcfg']; exact ⟨i1.base, i1.contribs⟩
        obtain ⟨⟨s2, c2⟩, hd'⟩ := dequeue_press_total (s := (tickPre s).setQueue rest) (hcfg' ▸ hc) (hcfg' ▸ hd)
          (hcfg' ▸ hr) hi' ht' c (hcfg' ▸ hco) since (by rw [habs']; exact hl)
        exact ⟨s2, c2, hd', (dequeue_press_spec (s := (tickPre s).setQueue rest) (hcfg' ▸ hc) hi' c since
          (by rw [habs']; exact hl) s2 c2 hd').1⟩
      | release c =>
        obtain ⟨sx, e1, e2, _⟩ := dequeue_release_spec hi' c since
        exact ⟨sx, .noEvent, e1, e2⟩
  obtain ⟨s2, c2, hm, m1⟩ := hmain
  unfold tick
  simp only [h.aq, tickOneshot_spec p1, hm, processExtraWaitings_inert m1.extra]
  exact ⟨_, rfl⟩

end KVerif.C04
