/-
C10 helper lemmas, part 3: the checked compiler (`parse_switch_case_bool` with its length and depth
bails) produces `compileListAt 0 es`, and success implies the depth and end-index bounds.
-/
import KVerif.Lemmas.SwitchCompile
namespace KVerif.Switch

theorem set_mid (ops body : List Nat) (a b : Nat) :
    (ops ++ [a] ++ body).set ops.length b = ops ++ [b] ++ body := by
  induction ops with
  | nil => simp
  | cons x xs ih => simp

mutual
  theorem compileChk_ok (d : Nat) (ops : List Nat) : (e : BExpr) → (ops' : List Nat) →
      compileChk d ops e = .ok ops' →
      ops' = ops ++ compileAt ops.length e ∧ d + e.depth ≤ MAX_BOOL_EXPR_DEPTH + 1 ∧ e.EndsOK ops.length
    | .leaf l, ops', h => by
      simp only [compileChk] at h
      split at h
      · cases h
      · split at h
        · cases h
        · injection h with h; subst h
          simp only [compileAt, BExpr.depth, BExpr.EndsOK, and_true, true_and]; omega
    | .node o cs, ops', h => by
      simp only [compileChk] at h
      split at h
      · cases h
      · split at h
        · cases h
        · split at h
          · cases h
          · rename_i hlen hdep opsB hB
            split at h
            · cases h
            · rename_i hlenB
              injection h with h
              have ih := compileChkList_ok (d + 1) (ops ++ [o.toVal + ops.length]) cs opsB hB
              obtain ⟨hB1, hB2, hB3⟩ := ih
              have hlen1 : (ops ++ [o.toVal + ops.length]).length = ops.length + 1 := by simp
              rw [hlen1] at hB1 hB3
              have hBl : opsB.length = ops.length + 1 + BExpr.sizeList cs := by
                rw [hB1]; simp [compileListAt_length]; omega
              refine ⟨?_, ?_, ?_⟩
              · rw [← h, hB1, set_mid]
                simp only [compileAt, List.append_assoc, List.cons_append, List.nil_append,
                  List.length_append, List.length_cons, compileListAt_length]
                congr 3; omega
              · simp only [BExpr.depth]
                by_cases hcs : cs = []
                · subst hcs; simp only [BExpr.depthList]; omega
                · have := hB2 hcs; omega
              · simp only [BExpr.EndsOK]
                exact ⟨by omega, hB3⟩
  theorem compileChkList_ok (d : Nat) (ops : List Nat) : (es : List BExpr) → (ops' : List Nat) →
      compileChkList d ops es = .ok ops' →
      ops' = ops ++ compileListAt ops.length es ∧
        (es ≠ [] → d + BExpr.depthList es ≤ MAX_BOOL_EXPR_DEPTH + 1) ∧ BExpr.EndsOKList ops.length es
    | [], ops', h => by
      simp only [compileChkList] at h
      injection h with h; subst h
      simp [compileListAt, BExpr.EndsOKList]
    | e :: es, ops', h => by
      simp only [compileChkList] at h
      split at h
      · cases h
      · rename_i opsA hA
        obtain ⟨hA1, hA2, hA3⟩ := compileChk_ok d ops e opsA hA
        obtain ⟨hB1, hB2, hB3⟩ := compileChkList_ok d opsA es ops' h
        have hAl : opsA.length = ops.length + e.size := by rw [hA1]; simp [compileAt_length]
        rw [hAl] at hB1 hB3
        refine ⟨?_, ?_, ?_⟩
        · rw [hB1, hA1]; simp [compileListAt, compileAt_length]
        · intro _
          simp only [BExpr.depthList]
          by_cases hes : es = []
          · subst hes; simp only [BExpr.depthList]; omega
          · have := hB2 hes; omega
        · exact ⟨hA3, hB3⟩
end

theorem compileTop_ok (es : List BExpr) (ops : List Nat) (h : compileTop es = .ok ops) :
    ops = compileListAt 0 es ∧ BExpr.depthList es ≤ MAX_BOOL_EXPR_DEPTH ∧ BExpr.EndsOKList 0 es := by
  obtain ⟨h1, h2, h3⟩ := compileChkList_ok 1 [] es ops h
  refine ⟨by simpa using h1, ?_, by simpa using h3⟩
  by_cases hes : es = []
  · subst hes; simp [BExpr.depthList]
  · have := h2 hes; omega

end KVerif.Switch
