/-
C05 helper lemmas: the tap-hold waiting state (`WaitingState::tick_wt` / `handle_hold_tap`).
-/
import KVerif.Model.Layout
namespace KVerif.C05
open KVerif.L

/-- the variants whose timeout is never skipped -/
def Plain : HTConfig → Prop
  | .customExcept _ => False
  | _ => True

/-- no press event in the queue -/
def NoPress (q : List Queued) : Prop := ∀ x ∈ q, x.ev.isPress = false

theorem permissive_noPress {q : List Queued} (h : NoPress q) : permissiveHoldHit q = false := by
  induction q with
  | nil => rfl
  | cons x xs ih =>
    have hx := h x (by simp)
    simp only [permissiveHoldHit, hx, Bool.false_and, Bool.false_or]
    exact ih (fun y hy => h y (by simp [hy]))

theorem customRelease_noPress (keys : List Nat) {q : List Queued} (h : NoPress q) :
    customRelease keys q = none := by
  induction q with
  | nil => rfl
  | cons x xs ih =>
    have hx := h x (by simp)
    simp only [customRelease, hx, Bool.false_eq_true, if_false]
    exact ih (fun y hy => h y (by simp [hy]))

theorem customExcept_noPress (keys : List Nat) {q : List Queued} (h : NoPress q) :
    customExcept keys q = (none, true) := by
  induction q with
  | nil => rfl
  | cons x xs ih =>
    have hx := h x (by simp)
    simp only [customExcept, hx, Bool.false_eq_true, if_false]
    exact ih (fun y hy => h y (by simp [hy]))

theorem any_noPress {q : List Queued} (h : NoPress q) : q.any (·.ev.isPress) = false := by
  rw [List.any_eq_false]
  intro x hx
  simp [h x hx]

def skips : HTConfig → Bool
  | .customExcept _ => true
  | _ => false

/-- the early-trigger part of `handle_hold_tap` is silent while no other key is pressed -/
theorem early_noPress (cfg : HTConfig) {q : List Queued} (h : NoPress q) :
    earlyTrigger cfg q = (none, skips cfg) := by
  cases cfg <;> simp [earlyTrigger, skips, any_noPress h, permissive_noPress h,
    customRelease_noPress _ h, customExcept_noPress _ h]

/-- [t8:while-down] the events before the key's own release are among the queued ones -/
theorem mem_whileDown (c : Coord) : ∀ {q : List Queued} {x : Queued}, x ∈ whileDown c q → x ∈ q
  | [], _, h => by simp [whileDown] at h
  | s :: rest, x, h => by
    simp only [whileDown] at h
    split at h
    · simp at h
    · rcases List.mem_cons.mp h with rfl | h'
      · simp
      · exact List.mem_cons_of_mem _ (mem_whileDown c h')

/-- a key that has not been released: the whole queue is from while it was down -/
theorem whileDown_of_no_release (c : Coord) : ∀ (q : List Queued),
    q.find? (fun s => s.ev == .release c) = none → whileDown c q = q
  | [], _ => rfl
  | s :: rest, h => by
    simp only [List.find?_cons] at h
    split at h
    · cases h
    · rename_i hne
      simp only [whileDown, hne, Bool.false_eq_true, if_false]
      rw [whileDown_of_no_release c rest h]

theorem whileDown_noPress (c : Coord) {q : List Queued} (h : NoPress q) : NoPress (whileDown c q) :=
  fun x hx => h x (mem_whileDown c hx)

/-- `handle_hold_tap` when no other key has been pressed: the decision depends only on the
countdown and on whether this key's release is in the queue. -/
theorem handleHoldTap_noPress (w : Waiting) (cfg : HTConfig) (q : List Queued) (h : NoPress q) :
    handleHoldTap w cfg q =
      if q.length % 256 == w.prevQueueLen && w.timeout > 0 then (w, none)
      else
        match q.find? (fun s => s.ev == .release w.coord) with
        | some r =>
          if w.timeout > w.delay - r.since then ({ w with prevQueueLen := q.length % 256 }, some .tap)
          else ({ w with prevQueueLen := q.length % 256 }, some .timeout)
        | none =>
          if w.timeout == 0 && !skips cfg then ({ w with prevQueueLen := q.length % 256 }, some .timeout)
          else ({ w with prevQueueLen := q.length % 256 }, none) := by
  unfold handleHoldTap
  split
  · rfl
  · simp only [early_noPress cfg (whileDown_noPress _ h), isCorrespondingRelease]
    rfl

/-- `tick_wt` of a tap-hold waiting state: the queue and the action queue are untouched, the
countdown advances by one, and the decision is `handle_hold_tap`'s -/
theorem tickWt_holdTap (w : Waiting) (cfg : HTConfig) (hc : w.config = .holdTap cfg) (q : List Queued)
    (aq : ActionQueue) :
    tickWt w q aq =
      .ok ((handleHoldTap { w with timeout := w.timeout - 1, ticks := min (w.ticks + 1) U16_MAX } cfg q).1, q, aq,
           (handleHoldTap { w with timeout := w.timeout - 1, ticks := min (w.ticks + 1) U16_MAX } cfg q).2.map (·, none)) := by
  unfold tickWt
  simp only [hc]

theorem handleHoldTap_fields (w : Waiting) (cfg : HTConfig) (q : List Queued) :
    (handleHoldTap w cfg q).1.timeout = w.timeout ∧ (handleHoldTap w cfg q).1.config = w.config ∧
    (handleHoldTap w cfg q).1.coord = w.coord ∧ (handleHoldTap w cfg q).1.delay = w.delay ∧
    (handleHoldTap w cfg q).1.hold = w.hold ∧ (handleHoldTap w cfg q).1.tap = w.tap ∧
    (handleHoldTap w cfg q).1.timeoutAction = w.timeoutAction ∧
    (handleHoldTap w cfg q).1.layerStack = w.layerStack ∧
    (handleHoldTap w cfg q).1.ticks = w.ticks := by
  unfold handleHoldTap
  split
  · simp
  · split
    · simp
    · simp only []
      split
      · split <;> simp
      · split <;> simp

theorem customRelease_ne_noOp (keys : List Nat) : ∀ q, customRelease keys q ≠ some .noOp := by
  intro q
  induction q with
  | nil => simp [customRelease]
  | cons x xs ih =>
    simp only [customRelease]
    split
    · split
      · simp
      · split
        · simp
        · exact ih
    · exact ih

theorem customExcept_ne_noOp (keys : List Nat) : ∀ q, (customExcept keys q).1 ≠ some .noOp := by
  intro q
  induction q with
  | nil => simp [customExcept]
  | cons x xs ih =>
    simp only [customExcept]
    split
    · split <;> simp
    · exact ih

theorem earlyTrigger_ne_noOp (cfg : HTConfig) (q : List Queued) : (earlyTrigger cfg q).1 ≠ some .noOp := by
  cases cfg <;> simp only [earlyTrigger]
  · simp
  · split <;> simp
  · split <;> simp
  · exact customRelease_ne_noOp _ q
  · exact customExcept_ne_noOp _ q

/-- `handle_hold_tap` answers tap, hold, timeout or nothing — never "drop" -/
theorem handleHoldTap_ne_noOp (w : Waiting) (cfg : HTConfig) (q : List Queued) :
    (handleHoldTap w cfg q).2 ≠ some .noOp := by
  unfold handleHoldTap
  split
  · simp
  · have he := earlyTrigger_ne_noOp cfg (whileDown w.coord q)
    split
    · rename_i a sk heq
      simp only [heq] at he
      simpa using he
    · simp only []
      split
      · split <;> simp
      · split <;> simp

end KVerif.C05
