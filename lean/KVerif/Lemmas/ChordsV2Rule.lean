/-
C09 helper lemmas for chords v2: the release rule - which releases `drain_inputs` applies to the
active chords, a chord with a key still to be released stays, a chord none of whose keys is released
is untouched.
-/
import KVerif.Lemmas.ChordsV2Sched
namespace KVerif.C09
open KVerif.L

/-- `drainInputs_active` with the converse: the releases applied are releases queued -/
theorem drainInputs_active2 (s s1 : ChV2) (dq dq1 : List Queued) (layer : Nat) (h : drainInputs s dq layer = .ok (s1, dq1))
    (hproc : processesQueue s layer) :
    ∃ q, (∀ k, (∃ qd ∈ s.queue, qd.ev = .release (0, k)) → k ∈ releasedKeys q) ∧ (∀ x ∈ q, x ∈ s.queue) ∧
      (s1.active = applyReleases q s.active ∨
       ∃ ach, s1.active = applyReleases q s.active ++ [ach] ∧ unreadClass ach.status = true) := by
  have hmemrel : ∀ (q : List Queued) (k : Nat), (∃ qd ∈ q, qd.ev = .release (0, k)) → k ∈ releasedKeys q := by
    intro q k ⟨qd, hq, he⟩
    simp only [releasedKeys, List.mem_filterMap]
    exact ⟨qd, hq, by simp [he]⟩
  unfold drainInputs at h
  split at h
  · cases h
    refine ⟨realInputs s.queue, ?_, fun x hx => (List.mem_filter.mp hx).1, Or.inl rfl⟩
    intro k ⟨qd, hq, he⟩
    apply hmemrel
    exact ⟨qd, List.mem_filter.mpr ⟨hq, by simp [he, Ev.coord]⟩, he⟩
  · rename_i hti
    split at h
    · rename_i hskip
      exfalso
      simp only [Bool.and_eq_true, decide_eq_true_eq, beq_iff_eq] at hskip
      rcases hproc with hp | hp
      · exact hti hp
      · exact hp ⟨hskip.1.1, hskip.1.2, hskip.2⟩
    · simp only [] at h
      split at h
      · cases h
      · rename_i q0 dq0 hv
        split at h
        · cases h
        · rename_i q1 achs1 dq2 hr
          split at h
          · cases h
          · rename_i s2 hpp
            cases h
            have hq0 := drainVirtualKeys_ok _ _ _ _ hv
            have ha1 := drainReleases_active _ _ _ _ _ _ _ hr
            refine ⟨q0, ?_, ?_, ?_⟩
            · intro k ⟨qd, hq, he⟩
              apply hmemrel
              refine ⟨qd, ?_, he⟩
              rw [hq0]
              exact List.mem_filter.mpr ⟨hq, by simp [he, Ev.coord]⟩
            · intro x hx
              rw [hq0] at hx
              exact (List.mem_filter.mp hx).1
            · rcases processPresses_spec _ _ _ hpp with ⟨h1, _⟩ | ⟨_, rf, _, _, cch, coord, _, _, _, _, _, _, _, _, _, h9, _⟩
              · left; rw [h1, ha1]
              · right
                refine ⟨_, by rw [h9, ha1], ?_⟩
                simp only [getActiveChord, unreadClass]
                split <;> rfl

/-- a key still to be released that is not among the released keys keeps the chord held -/
theorem relAll_keeps : ∀ (js : List Nat) (a : ActiveChord) (k : Nat), k ∈ a.remaining → k ∉ js →
    (relAll js a).status = a.status ∧ k ∈ (relAll js a).remaining := by
  intro js
  induction js with
  | nil => intro a k hk _; exact ⟨rfl, hk⟩
  | cons j js ih =>
    intro a k hk hn
    rw [relAll_cons]
    have hkj : k ≠ j := fun e => hn (by rw [e]; exact List.mem_cons_self)
    have hnj : k ∉ js := fun h => hn (List.mem_cons_of_mem _ h)
    have h1 : (releaseInActive j a).status = a.status ∧ k ∈ (releaseInActive j a).remaining := by
      unfold releaseInActive
      split
      · exact ⟨rfl, hk⟩
      · have hmem : k ∈ a.remaining.filter (· != j) := List.mem_filter.mpr ⟨hk, by simpa using hkj⟩
        simp only []
        split
        · rename_i hemp
          rw [List.isEmpty_iff] at hemp
          rw [hemp] at hmem
          cases hmem
        · exact ⟨rfl, hmem⟩
    obtain ⟨h2, h3⟩ := ih (releaseInActive j a) k h1.2 hnj
    exact ⟨by rw [h2, h1.1], h3⟩

/-- no participant among the released keys: the chord is untouched -/
theorem relAll_noop : ∀ (js : List Nat) (a : ActiveChord), (∀ j ∈ js, a.keys.contains j = false) → relAll js a = a := by
  intro js
  induction js with
  | nil => intro a _; rfl
  | cons j js ih =>
    intro a h
    rw [relAll_cons]
    have : releaseInActive j a = a := by
      unfold releaseInActive
      simp only [h j (List.mem_cons_self), Bool.not_false, if_true]
    rw [this]
    exact ih a (fun x hx => h x (List.mem_cons_of_mem _ hx))

theorem mem_releasedKeys {q : List Queued} {k : Nat} (h : k ∈ releasedKeys q) :
    ∃ qd ∈ q, ∃ c, qd.ev = .release c ∧ c.2 = k := by
  simp only [releasedKeys, List.mem_filterMap] at h
  obtain ⟨qd, hq, he⟩ := h
  refine ⟨qd, hq, ?_⟩
  cases hev : qd.ev with
  | press c => rw [hev] at he; simp at he
  | release c => rw [hev] at he; simp at he; exact ⟨c, rfl, he⟩

end KVerif.C09
