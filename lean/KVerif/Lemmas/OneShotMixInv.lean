/-
C06 on the mixed fragment, helper lemmas part 2: the invariant `MInv` — the C06 invariant `Inv`
extended with the pending tap-hold key (`waiting`) and the fact that `extra_waiting` stays empty —
is preserved by every event and every stage of a tick.
-/
import KVerif.Lemmas.OneShotMix
namespace KVerif.C06
open KVerif.L

structure MInv (s : Layout) (down : List Coord) : Prop where
  /-- nothing is taken from the queue while a tap-hold key is pending, so a second one never joins -/
  extra : s.extraWaiting = []
  tde : s.tapDanceEager = none
  aq : s.actionQueue = []
  seqs : s.activeSequences = []
  states : ∀ st ∈ s.states, StOK st
  ignore : s.oneshot.ticksToIgnoreEvents = 0
  cfg : CfgM s.cfg
  qlen : s.queue.length ≤ QUEUE_SIZE
  /-- with no one-shot key active nothing is deferred and no release is requested -/
  idle : s.oneshot.keys = [] → s.oneshot.releasedKeys = [] ∧ s.oneshot.releaseOnNextTick = false
  qwf : QWF down s.queue
  /-- **no state is stranded** -/
  owned : ∀ st ∈ s.states, ∀ c, st.coord = some c →
    c ∈ down ∨ c ∈ s.oneshot.releasedKeys ∨ ∃ x ∈ s.queue, x.ev = .release c
  /-- the pending tap-hold key is of the fragment, and it is down or its release is queued -/
  wok : ∀ w, s.waiting = some w → WOKm w ∧ (w.coord ∈ down ∨ ∃ x ∈ s.queue, x.ev = .release w.coord)

/-! ### events -/

theorem MInv.input {s : Layout} {down : List Coord} (h : MInv s down) (e : Ev)
    (hq : s.queue.length < QUEUE_SIZE) :
    ∃ s', s.event e = .ok s' ∧ MInv s' (downAfter down (.ev e)) ∧ s'.queue = s.queue ++ [⟨e, 0⟩] ∧
      s'.states = s.states ∧ s'.oneshot = s.oneshot ∧ s'.waiting = s.waiting := by
  unfold Layout.event
  rw [FUEL_succ]
  obtain ⟨s', e1, e2, e3, e4, e5⟩ := event_room 3999 s e hq
  refine ⟨s', e1, ?_, e2, e3, e4, e5.waiting⟩
  have hrel : ∀ c, (c ∈ down ∨ ∃ x ∈ s.queue, x.ev = .release c) →
      (c ∈ downAfter down (.ev e) ∨ ∃ x ∈ s.queue ++ [⟨e, 0⟩], x.ev = .release c) := by
    intro c hc
    rcases hc with h1 | ⟨x, hx, hxe⟩
    · cases e with
      | press c' => exact Or.inl (List.mem_cons_of_mem _ h1)
      | release c' =>
        by_cases hcc : c = c'
        · subst hcc; exact Or.inr ⟨⟨.release c, 0⟩, by simp, rfl⟩
        · exact Or.inl (List.mem_filter.mpr ⟨h1, by simpa using hcc⟩)
    · exact Or.inr ⟨x, List.mem_append_left _ hx, hxe⟩
  refine ⟨e5.extra.trans h.extra, e5.tde.trans h.tde, e5.aq.trans h.aq, e5.seqs.trans h.seqs, e3 ▸ h.states,
    e4 ▸ h.ignore, e5.cfg ▸ h.cfg,
    by rw [e2]; simp only [List.length_append, List.length_cons, List.length_nil]; omega, e4 ▸ h.idle, ?_, ?_, ?_⟩
  · rw [e2]
    cases e with
    | press c =>
      exact QWF_append _ _ (QWF_mono (fun x hx => List.mem_cons_of_mem _ hx) _ h.qwf) (by simp [downAfter])
    | release c => exact QWF_release c 0 _ h.qwf
  · intro st hst c hc
    rw [e3] at hst
    rw [e4, e2]
    rcases h.owned st hst c hc with h1 | h1 | h1
    · rcases hrel c (Or.inl h1) with g | g
      · exact Or.inl g
      · exact Or.inr (Or.inr g)
    · exact Or.inr (Or.inl h1)
    · rcases hrel c (Or.inr h1) with g | g
      · exact Or.inl g
      · exact Or.inr (Or.inr g)
  · intro w hw
    rw [e5.waiting] at hw
    obtain ⟨w1, w2⟩ := h.wok w hw
    exact ⟨w1, by rw [e2]; exact hrel _ w2⟩

/-! ### the stages of a tick -/

theorem tickPre_M {s : Layout} {down : List Coord} (h : MInv s down) :
    tickPre s = { s with queue := age s.queue, lptTapHoldTimeout := s.lptTapHoldTimeout - 1,
                         histKeys := histTick s.histKeys, histInputs := histTick s.histInputs } := by
  unfold tickPre
  simp only [h.tde]
  simp (disch := first | exact h.seqs | exact h.states) only [C04.processSequences_inert]
  rfl

theorem MInv.pre {s : Layout} {down : List Coord} (h : MInv s down) :
    MInv (tickPre s) down ∧ (tickPre s).queue = age s.queue ∧ (tickPre s).waiting = s.waiting ∧
    (tickPre s).oneshot = s.oneshot ∧ (tickPre s).states = s.states ∧ (tickPre s).cfg = s.cfg ∧
    (tickPre s).defaultLayer = s.defaultLayer ∧ (tickPre s).transV2 = s.transV2 ∧
    (tickPre s).delegateToFirstLayer = s.delegateToFirstLayer := by
  rw [tickPre_M h]
  refine ⟨⟨h.extra, h.tde, h.aq, h.seqs, h.states, h.ignore, h.cfg, by simpa [age] using h.qlen, h.idle,
    QWF_age _ h.qwf, ?_, ?_⟩, rfl, rfl, rfl, rfl, rfl, rfl, rfl, rfl⟩
  · intro st hst c hc
    rcases h.owned st hst c hc with g | g | g
    · exact Or.inl g
    · exact Or.inr (Or.inl g)
    · exact Or.inr (Or.inr (mem_age_release g))
  · intro w hw
    obtain ⟨w1, w2⟩ := h.wok w hw
    refine ⟨w1, ?_⟩
    rcases w2 with g | g
    · exact Or.inl g
    · exact Or.inr (mem_age_release g)

/-- the one-shot stage never looks at the pending tap-hold key -/
theorem MInv.osh {s : Layout} {down : List Coord} (h : MInv s down) :
    ∃ s1, tickOneshot s = .ok (s1, .noEvent) ∧ MInv s1 down ∧ s1.queue = s.queue ∧ s1.waiting = s.waiting ∧
      Frame s s1 := by
  by_cases hk : s.oneshot.keys = []
  · exact ⟨s, tickOneshot_inactive hk, h, rfl, rfl, Frame.refl s⟩
  · by_cases hf : s.oneshot.releaseOnNextTick = true ∨ s.oneshot.timeout ≤ 1
    · refine ⟨_, tickOneshot_fires h.states hk hf, ?_, rfl, rfl, ⟨rfl, rfl, rfl, rfl, rfl, rfl, rfl, rfl, rfl⟩⟩
      refine ⟨h.extra, h.tde, h.aq, h.seqs, fun st hst => h.states st (mem_dropCoords.mp hst).1, rfl, h.cfg, h.qlen,
        fun _ => ⟨rfl, rfl⟩, h.qwf, ?_, h.wok⟩
      intro st hst c hc
      obtain ⟨m1, m2⟩ := mem_dropCoords.mp hst
      rcases h.owned st m1 c hc with h1 | h1 | h1
      · exact Or.inl h1
      · exact absurd hc (m2 c h1)
      · exact Or.inr (Or.inr h1)
    · have h1 : s.oneshot.releaseOnNextTick = false := by
        cases hr : s.oneshot.releaseOnNextTick
        · rfl
        · exact absurd (Or.inl hr) hf
      have h2 : 2 ≤ s.oneshot.timeout := by omega
      refine ⟨_, tickOneshot_waits hk h1 h2, ?_, rfl, rfl, ⟨rfl, rfl, rfl, rfl, rfl, rfl, rfl, rfl, rfl⟩⟩
      exact ⟨h.extra, h.tde, h.aq, h.seqs, h.states, by simp [h.ignore], h.cfg, h.qlen,
        fun hk' => absurd hk' hk, h.qwf, h.owned, h.wok⟩

/-- **the main stage with a tap-hold key pending**: the key is counted down and nothing else
happens, or it is resolved — `resolved`, one `do_action` of the chosen action, which is where the
`handle_press(Other coord)` of the one-shot state happens -/
theorem tickMain_pending {s : Layout} {down : List Coord} (h : MInv s down) (w : Waiting)
    (hw : s.waiting = some w) :
    tickMain s = .ok
      (match (C05.htStep w s.queue).2 with
        | none => { s with waiting := some (C05.htStep w s.queue).1 }
        | some a => resolved { s with waiting := none } (C05.htStep w s.queue).1 a, .noEvent) := by
  obtain ⟨wk, _⟩ := h.wok w hw
  rw [C05.tickMain_ht s w hw wk.isHT]
  cases hd : (C05.htStep w s.queue).2 with
  | none => rfl
  | some a =>
    simp only []
    exact resolveAct_simple _ _ (wk.counted (C05.htStep_counted w s.queue)) a
      (fun h0 => C05.htStep_ne_noOp w s.queue (h0 ▸ hd))

theorem MInv.pending_step {s : Layout} {down : List Coord} (h : MInv s down) (w : Waiting)
    (hw : s.waiting = some w) : MInv ({ s with waiting := some (C05.htStep w s.queue).1 } : Layout) down := by
  obtain ⟨wk, wr⟩ := h.wok w hw
  have hc := C05.htStep_counted w s.queue
  refine ⟨h.extra, h.tde, h.aq, h.seqs, h.states, h.ignore, h.cfg, h.qlen, h.idle, h.qwf, h.owned, ?_⟩
  intro w' hw'
  have : w' = (C05.htStep w s.queue).1 := by injection hw' with hw'; exact hw'.symm
  subst this
  exact ⟨wk.counted hc, by rw [hc.coord]; exact wr⟩

theorem MInv.resolve {s : Layout} {down : List Coord} (h : MInv s down) (w : Waiting)
    (hw : s.waiting = some w) (a : WAct) (ha : a ≠ .noOp) :
    MInv (resolved { s with waiting := none } (C05.htStep w s.queue).1 a) down ∧
    (resolved { s with waiting := none } (C05.htStep w s.queue).1 a).waiting = none := by
  obtain ⟨wk, wr⟩ := h.wok w hw
  have hc := C05.htStep_counted w s.queue
  obtain ⟨f, q, ad, o⟩ := resolved_spec { s with waiting := none } (C05.htStep w s.queue).1 (wk.counted hc) a ha
  rw [hc.coord] at ad o
  obtain ⟨k1, k2, k3, k4, k5, k6⟩ := resolvedOsh_fields s.oneshot w.coord a
  generalize resolved { s with waiting := none } (C05.htStep w s.queue).1 a = R at f q ad o
  have ho : R.oneshot = resolvedOsh s.oneshot w.coord a := o
  have hq : R.queue = s.queue := q
  refine ⟨⟨f.extra.trans h.extra, f.tde.trans h.tde, f.aq.trans h.aq, f.seqs.trans h.seqs, ?_, by rw [ho, k4]; exact h.ignore,
    f.cfg ▸ h.cfg, hq ▸ h.qlen, by rw [ho, k1, k2, k3]; exact h.idle, hq ▸ h.qwf, ?_, ?_⟩, f.waiting⟩
  · intro st hst
    rcases ad.new st hst with g | g
    · exact h.states st g
    · exact g.2
  · intro st hst c hc'
    rw [ho, k2, hq]
    rcases ad.new st hst with g | g
    · exact h.owned st g c hc'
    · have : c = w.coord := by
        have := g.1; rw [hc'] at this; injection this
      subst this
      rcases wr with g1 | g1
      · exact Or.inl g1
      · exact Or.inr (Or.inr g1)
  · intro w' hw'
    have : R.waiting = none := f.waiting
    rw [this] at hw'; cases hw'

theorem MInv.pop_press {s : Layout} {down : List Coord} (h : MInv s down) (hw : s.waiting = none) (c : Coord) (n : Nat)
    (rest : List Queued) (hq : s.queue = ⟨.press c, n⟩ :: rest) (s' : Layout) (cu : CustomEv)
    (hd : dequeue FUEL (s.setQueue rest) ⟨.press c, n⟩ = .ok (s', cu)) : MInv s' down ∧ cu = .noEvent := by
  have hlen : rest.length < QUEUE_SIZE := by
    have := h.qlen; rw [hq] at this; simp only [List.length_cons] at this; omega
  obtain ⟨r1, r2, r3⟩ := dequeue_press_M (s := s.setQueue rest) h.cfg h.tde hw hlen c n s' cu hd
  obtain ⟨ov, op, hqq⟩ := r2.osh
  obtain ⟨k1, _, k3, k4⟩ := op.keeps
  have hwf := h.qwf
  rw [hq] at hwf
  have hhead : c ∈ down ∨ ∃ x ∈ rest, x.ev = .release c := hwf.1
  have hq' : s'.queue = rest ++ ovq ov := hqq
  have ho' : ∀ P : OneShotState → Prop, P ({ s' with waiting := none } : Layout).oneshot → P s'.oneshot := fun _ hp => hp
  have inRest : ∀ c', (∃ x ∈ rest, x.ev = .release c') → ∃ x ∈ rest ++ ovq ov, x.ev = .release c' :=
    fun c' ⟨x, hx, hxe⟩ => ⟨x, List.mem_append_left _ hx, hxe⟩
  refine ⟨⟨r2.frame.extra.trans h.extra, r2.frame.tde.trans h.tde, r2.frame.aq.trans h.aq,
    r2.frame.seqs.trans h.seqs, ?_, k1.trans h.ignore, r2.frame.cfg ▸ h.cfg, ?_, k4 h.idle, ?_, ?_, ?_⟩, r1⟩
  · intro st hst
    rcases r2.adds.new st hst with h1 | h1
    · exact h.states st h1
    · exact h1.2
  · rw [hq']
    cases ov <;> simp only [ovq, List.length_append, List.length_cons, List.length_nil] <;> omega
  · rw [hq']
    cases ov with
    | none => simpa [ovq] using hwf.2
    | some k => exact QWF_append _ _ hwf.2 trivial
  · intro st hst c' hc'
    rw [hq']
    have viaHead : c' = c → c' ∈ down ∨ c' ∈ s'.oneshot.releasedKeys ∨ ∃ x ∈ rest ++ ovq ov, x.ev = .release c' := by
      intro hcc; subst hcc
      rcases hhead with h1 | h1
      · exact Or.inl h1
      · exact Or.inr (Or.inr (inRest _ h1))
    rcases r2.adds.new st hst with h1 | h1
    · rcases h.owned st h1 c' hc' with g | g | ⟨x, hx, hxe⟩
      · exact Or.inl g
      · rcases k3 c' g with g2 | g2
        · exact Or.inr (Or.inl g2)
        · exact viaHead g2
      · rw [hq] at hx
        rcases List.mem_cons.mp hx with hx | hx
        · subst hx; cases hxe
        · exact Or.inr (Or.inr (inRest _ ⟨x, hx, hxe⟩))
    · have : c' = c := by
        have := h1.1; rw [hc'] at this; injection this
      exact viaHead this
  · intro w' hw'
    rcases r3 with g | ⟨w'', g1, g2, g3⟩
    · rw [g] at hw'; cases hw'
    · rw [g1] at hw'
      injection hw' with hw'; subst hw'
      refine ⟨g3, ?_⟩
      rw [g2, hq']
      rcases hhead with g | g
      · exact Or.inl g
      · exact Or.inr (inRest _ g)

theorem MInv.pop_release {s : Layout} {down : List Coord} (h : MInv s down) (hw : s.waiting = none) (c : Coord) (n : Nat)
    (rest : List Queued) (hq : s.queue = ⟨.release c, n⟩ :: rest) :
    ∃ s', dequeue FUEL (s.setQueue rest) ⟨.release c, n⟩ = .ok (s', .noEvent) ∧ MInv s' down ∧ s'.waiting = none := by
  have hlen : rest.length ≤ QUEUE_SIZE := by
    have := h.qlen; rw [hq] at this; simp only [List.length_cons] at this; omega
  have hwf := h.qwf
  rw [hq] at hwf
  refine ⟨_, dequeue_release_calm (s := s.setQueue rest) h.states c n, ?_, hw⟩
  have inRest : ∀ c', c' ≠ c → (∃ x ∈ s.queue, x.ev = .release c') → ∃ x ∈ rest, x.ev = .release c' := by
    intro c' hne ⟨x, hx, hxe⟩
    rw [hq] at hx
    rcases List.mem_cons.mp hx with hx | hx
    · subst hx; injection hxe with hxe; exact absurd hxe.symm hne
    · exact ⟨x, hx, hxe⟩
  have hwk : ∀ (o : OneShotState) (st : List St) (w : Waiting),
      ({ s.setQueue rest with oneshot := o, states := st } : Layout).waiting = some w → False := by
    intro o st w hw'
    have : s.waiting = some w := hw'
    rw [hw] at this; cases this
  have hS : s.setQueue rest = { s with queue := rest } := rfl
  by_cases hk : s.oneshot.keys = []
  · rw [show (s.setQueue rest).oneshot = s.oneshot from rfl, handleRelease_inactive _ c hk]
    simp only [afterRelease, if_true]
    refine ⟨h.extra, h.tde, h.aq, h.seqs, C04.stok_filter _ h.states, h.ignore, h.cfg, hlen, h.idle, hwf.2, ?_,
      fun w hw' => (hwk _ _ w hw').elim⟩
    intro st hst c' hc'
    obtain ⟨m1, m2⟩ := List.mem_filter.mp hst
    have hne : c' ≠ c := by
      intro hcc; subst hcc; simp [hc'] at m2
    rcases h.owned st m1 c' hc' with g | g | g
    · exact Or.inl g
    · exact Or.inr (Or.inl g)
    · exact Or.inr (Or.inr (inRest c' hne g))
  · by_cases hcc : s.oneshot.keys.contains c = true
    · rw [show (s.setQueue rest).oneshot = s.oneshot from rfl, handleRelease_active _ c hcc]
      simp only [afterRelease, Bool.false_eq_true, if_false]
      have hnew : c ∈ (pushBackWrap ONE_SHOT_MAX_ACTIVE s.oneshot.releasedKeys c).1 :=
        mem_pushBackWrap_new _ (by decide) _ _
      have hold := mem_pushBackWrap_old ONE_SHOT_MAX_ACTIVE s.oneshot.releasedKeys c
      generalize pushBackWrap ONE_SHOT_MAX_ACTIVE s.oneshot.releasedKeys c = pr at hnew hold
      obtain ⟨rk, ov⟩ := pr
      simp only at hnew hold ⊢
      have owned' : ∀ st ∈ s.states, ∀ c', st.coord = some c' → ov ≠ some c' →
          c' ∈ down ∨ c' ∈ rk ∨ ∃ x ∈ rest, x.ev = .release c' := by
        intro st hst c' hc' hov
        rcases h.owned st hst c' hc' with g | g | g
        · exact Or.inl g
        · rcases hold c' g with g2 | g2
          · exact Or.inr (Or.inl g2)
          · exact absurd g2 hov
        · by_cases hne : c' = c
          · subst hne; exact Or.inr (Or.inl hnew)
          · exact Or.inr (Or.inr (inRest c' hne g))
      cases ov with
      | none =>
        simp only
        exact ⟨h.extra, h.tde, h.aq, h.seqs, h.states, h.ignore, h.cfg, hlen,
          fun hk' => absurd hk' hk, hwf.2, fun st hst c' hc' => owned' st hst c' hc' (by simp),
          fun w hw' => (hwk _ _ w hw').elim⟩
      | some c2 =>
        simp only
        refine ⟨h.extra, h.tde, h.aq, h.seqs, C04.stok_filter _ h.states, h.ignore, h.cfg, hlen,
          fun hk' => absurd hk' hk, hwf.2, ?_, fun w hw' => (hwk _ _ w hw').elim⟩
        intro st hst c' hc'
        obtain ⟨m1, m2⟩ := List.mem_filter.mp hst
        refine owned' st m1 c' hc' ?_
        intro hov; injection hov with hov; subst hov; simp [hc'] at m2
    · have hcc' : s.oneshot.keys.contains c = false := by simpa using hcc
      rw [show (s.setQueue rest).oneshot = s.oneshot from rfl, handleRelease_other _ c hk hcc']
      simp only [afterRelease, if_true]
      refine ⟨h.extra, h.tde, h.aq, h.seqs, C04.stok_filter _ h.states, h.ignore, h.cfg, hlen,
        fun hk' => absurd hk' hk, hwf.2, ?_, fun w hw' => (hwk _ _ w hw').elim⟩
      intro st hst c' hc'
      obtain ⟨m1, m2⟩ := List.mem_filter.mp hst
      have hne : c' ≠ c := by
        intro hcc; subst hcc; simp [hc'] at m2
      rcases h.owned st m1 c' hc' with g | g | g
      · exact Or.inl g
      · exact Or.inr (Or.inl g)
      · exact Or.inr (Or.inr (inRest c' hne g))

theorem MInv.main {s : Layout} {down : List Coord} (h : MInv s down) (s2 : Layout) (c2 : CustomEv)
    (hm : tickMain s = .ok (s2, c2)) : MInv s2 down ∧ c2 = .noEvent := by
  cases hw : s.waiting with
  | some w =>
    rw [tickMain_pending h w hw] at hm
    injection hm with hm; injection hm with h1 h2; subst h1
    refine ⟨?_, h2.symm⟩
    cases hd : (C05.htStep w s.queue).2 with
    | none => exact h.pending_step w hw
    | some a => exact (h.resolve w hw a (fun h0 => C05.htStep_ne_noOp w s.queue (h0 ▸ hd))).1
  | none =>
    by_cases hp : 0 < s.oneshot.pauseInputProcessingTicks
    · rw [tickMain_paused hw h.extra hp] at hm
      injection hm with hm; injection hm with h1 h2; subst h1; subst h2
      refine ⟨⟨h.extra, h.tde, h.aq, h.seqs, h.states, h.ignore, h.cfg, h.qlen, h.idle, h.qwf, h.owned, ?_⟩, rfl⟩
      intro w hw'
      have : s.waiting = some w := hw'
      rw [hw] at this; cases this
    · have hp0 : s.oneshot.pauseInputProcessingTicks = 0 := by omega
      cases hq : s.queue with
      | nil =>
        rw [tickMain_empty hw h.extra hp0 hq] at hm
        injection hm with hm; injection hm with h1 h2; subst h1; subst h2
        exact ⟨h, rfl⟩
      | cons q rest =>
        rw [tickMain_pops hw h.extra hp0 q rest hq] at hm
        obtain ⟨ev, n⟩ := q
        cases ev with
        | press c => exact h.pop_press hw c n rest hq s2 c2 hm
        | release c =>
          obtain ⟨s', e1, e2, _⟩ := h.pop_release hw c n rest hq
          rw [e1] at hm
          injection hm with hm; injection hm with h1 h2; subst h1; subst h2
          exact ⟨e2, rfl⟩

/-- on the mixed fragment `tick` is its three stages -/
theorem tick_M {s s1 s2 : Layout} {down : List Coord} (h : MInv s down)
    (e1 : tickOneshot (tickPre s) = .ok (s1, .noEvent)) (e2 : tickMain s1 = .ok (s2, .noEvent))
    (h2 : MInv s2 down) : tick s = .ok (s2, .noEvent) := by
  unfold tick
  simp only [h.aq, e1, e2, C04.processExtraWaitings_inert h2.extra, C04.processSequenceCustom_inert h2.states]
  rfl

/-- **one tick keeps the invariant** -/
theorem MInv.step {s : Layout} {down : List Coord} (h : MInv s down) (s' : Layout) (cu : CustomEv)
    (ht : tick s = .ok (s', cu)) : MInv s' down ∧ cu = .noEvent := by
  obtain ⟨i0, _⟩ := h.pre
  obtain ⟨s1, e1, i1, _, _, _⟩ := i0.osh
  cases hm : tickMain s1 with
  | error c =>
    unfold KVerif.L.tick at ht
    simp only [h.aq, e1, hm] at ht
    cases ht
  | ok r =>
    obtain ⟨s2, c2⟩ := r
    obtain ⟨i2, hc2⟩ := i1.main s2 c2 hm
    subst hc2
    rw [tick_M h e1 hm i2] at ht
    injection ht with ht; injection ht with h1 h2; subst h1; subst h2
    exact ⟨i2, rfl⟩

/-- the tick never crashes on the mixed fragment, given that the main stage does not (layer stack /
coordinate range, which `tickMain` reports) -/
theorem tick_iff_main {s : Layout} {down : List Coord} (h : MInv s down) :
    ∃ s1, tickOneshot (tickPre s) = .ok (s1, .noEvent) ∧ MInv s1 down ∧
      ∀ s' cu, tick s = .ok (s', cu) ↔ tickMain s1 = .ok (s', cu) := by
  obtain ⟨i0, _⟩ := h.pre
  obtain ⟨s1, e1, i1, _, _, _⟩ := i0.osh
  refine ⟨s1, e1, i1, fun s' cu => ⟨fun ht => ?_, fun hm => ?_⟩⟩
  · cases hm : tickMain s1 with
    | error c =>
      unfold KVerif.L.tick at ht
      simp only [h.aq, e1, hm] at ht
      cases ht
    | ok r =>
      obtain ⟨s2, c2⟩ := r
      obtain ⟨i2, hc2⟩ := i1.main s2 c2 hm
      subst hc2
      rw [tick_M h e1 hm i2] at ht
      exact ht
  · obtain ⟨i2, hc2⟩ := i1.main s' cu hm
    subst hc2
    exact tick_M h e1 hm i2

end KVerif.C06
