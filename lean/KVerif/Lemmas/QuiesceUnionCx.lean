/-
C01 helper lemmas, part 8: the stuck state behind `quiesce_union_counterexample` - an undecided
`tap-hold-except-keys` key whose release is no longer queued and behind which only releases are
queued is never decided by a tick without input: every such tick leaves the waiting state, the
queue (aged) and the key states as they are.
-/
import KVerif.Lemmas.QuiesceUnionTick
import KVerif.Props.C07
namespace KVerif.QU
open KVerif.L KVerif.C06 KVerif.Quiesce

/-- the waiting key is of the except-keys variant, no press is queued, its own release is not queued -/
def stuckW (w : Waiting) (q : List Queued) : Bool :=
  (match w.config with | .holdTap (.customExcept _) => true | _ => false) &&
  q.all fun x => !x.ev.isPress && x.ev != .release w.coord

def stokB : St → Bool
  | .normalKey _ _ f => f == 0 || f == 1
  | .layerModifier _ _ => true
  | _ => false

theorem stokB_ok {st : St} (h : stokB st = true) : StOK st := by
  cases st <;> simp only [stokB, Bool.false_eq_true] at h <;> simp only [C04.StOK]
  simpa using h

/-- **the stuck state** (decidable): an except-keys tap-hold key is undecided, its release is not in the
queue and no press is queued; nothing else is pending (no extra waiting state, eager tap-dance, queued
action, sequence, active one-shot key); every state is a plain key or a held layer -/
def stuckB (s : Layout) : Bool :=
  (match s.waiting with | some w => stuckW w s.queue | none => false) &&
  s.extraWaiting.isEmpty && s.tapDanceEager.isNone && s.actionQueue.isEmpty && s.activeSequences.isEmpty &&
  s.oneshot.keys.isEmpty && s.states.all stokB

theorem handleHoldTap_stuck (w : Waiting) (ks : List Nat) (q : List Queued)
    (h : ∀ x ∈ q, x.ev.isPress = false ∧ x.ev ≠ .release w.coord) :
    (handleHoldTap w (.customExcept ks) q).2 = none := by
  rw [C05.handleHoldTap_noPress w _ q (fun x hx => (h x hx).1)]
  split
  · rfl
  · have hf : q.find? (fun s => s.ev == .release w.coord) = none := by
      apply List.find?_eq_none.mpr
      intro x hx
      simpa using (h x hx).2
    rw [hf]
    simp [C05.skips]

/-- **a tick without input leaves the stuck state stuck**: no crash, the same key states, the same
number of queued events, still undecided -/
theorem stuck_tick (s : Layout) (h : stuckB s = true) :
    ∃ s' cu, tick s = .ok (s', cu) ∧ stuckB s' = true ∧ s'.states = s.states ∧ s'.queue.length = s.queue.length := by
  unfold stuckB at h
  simp only [Bool.and_eq_true, List.isEmpty_iff, Option.isNone_iff_eq_none, List.all_eq_true] at h
  obtain ⟨⟨⟨⟨⟨⟨h1, h2⟩, h3⟩, h4⟩, h5⟩, h6⟩, h7⟩ := h
  have hst : ∀ st ∈ s.states, StOK st := fun st hst => stokB_ok (h7 st hst)
  cases hw : s.waiting with
  | none => rw [hw] at h1; cases h1
  | some w =>
    rw [hw] at h1
    simp only [stuckW, Bool.and_eq_true, List.all_eq_true, Bool.not_eq_true', bne_iff_ne, ne_eq] at h1
    obtain ⟨hcfg, hq⟩ := h1
    obtain ⟨ks, hc⟩ : ∃ ks, w.config = .holdTap (.customExcept ks) := by
      cases hcc : w.config with
      | holdTap c =>
        cases c with
        | customExcept ks => exact ⟨ks, rfl⟩
        | _ => rw [hcc] at hcfg; cases hcfg
      | _ => rw [hcc] at hcfg; cases hcfg
    -- first stage
    have hpre : tickPre s = { s with queue := age s.queue, lptTapHoldTimeout := s.lptTapHoldTimeout - 1,
                                     histKeys := histTick s.histKeys, histInputs := histTick s.histInputs } := by
      unfold tickPre
      simp only [h3]
      simp (disch := first | exact h5 | exact hst) only [C04.processSequences_inert]
      rfl
    have hosh : tickOneshot (tickPre s) = .ok (tickPre s, .noEvent) :=
      tickOneshot_inactive (by rw [hpre]; exact h6)
    -- the aged queue still holds no press and not the key's release
    have hq' : ∀ x ∈ age s.queue, x.ev.isPress = false ∧ x.ev ≠ .release w.coord := by
      intro x hx
      unfold age at hx
      obtain ⟨y, hy, rfl⟩ := List.mem_map.mp hx
      exact hq y hy
    have hwp : (tickPre s).waiting = some w := by rw [hpre]; exact hw
    have hqp : (tickPre s).queue = age s.queue := by rw [hpre]
    have hq'' : ∀ x ∈ (tickPre s).queue, x.ev.isPress = false ∧ x.ev ≠ .release w.coord := by
      rw [hqp]; exact hq'
    have hmain := tickMain_waiting_eq (tickPre s) w (.customExcept ks) hwp hc
    have hnone := handleHoldTap_stuck { w with timeout := w.timeout - 1, ticks := min (w.ticks + 1) U16_MAX } ks
      (tickPre s).queue hq''
    have hf := C05.handleHoldTap_fields { w with timeout := w.timeout - 1, ticks := min (w.ticks + 1) U16_MAX }
      (.customExcept ks) (tickPre s).queue
    generalize handleHoldTap { w with timeout := w.timeout - 1, ticks := min (w.ticks + 1) U16_MAX }
      (.customExcept ks) (tickPre s).queue = res at hmain hnone hf
    obtain ⟨w1, r⟩ := res
    simp only at hnone hf
    subst hnone
    simp only [Option.map_none, applyWaitingAction] at hmain
    obtain ⟨_, f2, f3, _⟩ := hf
    have e2 : ({ tickPre s with waiting := some w1 } : Layout).extraWaiting = [] := by
      show (tickPre s).extraWaiting = []
      rw [hpre]; exact h2
    have st2 : ∀ st ∈ ({ tickPre s with waiting := some w1 } : Layout).states, StOK st := by
      show ∀ st ∈ (tickPre s).states, StOK st
      rw [hpre]; exact hst
    have ht : tick s = .ok ({ tickPre s with waiting := some w1 }, .noEvent) := by
      unfold KVerif.L.tick
      simp only [h4, hosh, hmain, C04.processExtraWaitings_inert e2, C04.processSequenceCustom_inert st2]
      rfl
    refine ⟨{ tickPre s with waiting := some w1 }, .noEvent, ht, ?_, by rw [hpre], by rw [hpre]; simp [age]⟩
    · unfold stuckB
      simp only [Bool.and_eq_true, List.isEmpty_iff, Option.isNone_iff_eq_none, List.all_eq_true]
      refine ⟨⟨⟨⟨⟨⟨?_, by rw [hpre]; exact h2⟩, by rw [hpre]; exact h3⟩, by rw [hpre]; exact h4⟩, by rw [hpre]; exact h5⟩,
        by rw [hpre]; exact h6⟩, by rw [hpre]; exact h7⟩
      simp only [stuckW, Bool.and_eq_true, List.all_eq_true, Bool.not_eq_true', bne_iff_ne, ne_eq]
      refine ⟨by rw [f2, hc], ?_⟩
      intro x hx
      rw [f3]
      exact hq'' x hx

/-- any number of ticks without input -/
theorem stuck_forever : ∀ (N : Nat) (s : Layout), stuckB s = true →
    ∃ s', run s [] (List.replicate N .tick) = some (.ok (s', [])) ∧ stuckB s' = true ∧ s'.states = s.states ∧
      s'.queue.length = s.queue.length := by
  intro N
  induction N with
  | zero => intro s h; exact ⟨s, rfl, h, rfl, rfl⟩
  | succ N ih =>
    intro s h
    obtain ⟨s1, cu, e1, h1, st1, q1⟩ := stuck_tick s h
    obtain ⟨s2, e2, h2, st2, q2⟩ := ih s1 h1
    refine ⟨s2, ?_, h2, st2.trans st1, q2.trans q1⟩
    simp only [List.replicate, run, overflows, Bool.false_eq_true, if_false, stepIn, e1, downAfter]
    exact e2

theorem stuckB_waiting {s : Layout} (h : stuckB s = true) : s.waiting.isSome = true := by
  unfold stuckB at h
  simp only [Bool.and_eq_true] at h
  cases hw : s.waiting with
  | none => rw [hw] at h; exact absurd h.1.1.1.1.1.1 (by simp)
  | some w => rfl

/-! ## a quiet layout that still holds a key -/

def plainB : St → Bool
  | .repeatingSequence .. | .seqCustomPending _ | .seqCustomActive _ | .tombstone => false
  | _ => true

/-- decidable form of `C07.QuietLayout`: nothing queued, waiting, counting or playing (key states may remain) -/
def quietB (l : Layout) : Bool :=
  l.queue.isEmpty && l.waiting.isNone && l.extraWaiting.isEmpty && l.oneshot.keys.isEmpty &&
  (l.oneshot.pauseInputProcessingTicks == 0) && l.activeSequences.isEmpty && l.tapDanceEager.isNone &&
  l.actionQueue.isEmpty && l.states.all plainB

theorem quietB_quiet {l : Layout} (h : quietB l = true) : C07.QuietLayout l := by
  unfold quietB at h
  simp only [Bool.and_eq_true, List.isEmpty_iff, Option.isNone_iff_eq_none, List.all_eq_true, beq_iff_eq] at h
  obtain ⟨⟨⟨⟨⟨⟨⟨⟨h1, h2⟩, h3⟩, h4⟩, h5⟩, h6⟩, h7⟩, h8⟩, h9⟩ := h
  refine ⟨h1, h2, h3, h4, h5, h6, h7, h8, ?_⟩
  intro st hst
  have := h9 st hst
  cases st <;> simp only [plainB] at this <;> first | trivial | cases this

/-- a quiet layout stays as it is under any number of ticks without input: whatever key state it
still holds, it holds for good -/
theorem quiet_forever : ∀ (N : Nat) (s : Layout), C07.QuietLayout s →
    ∃ s', run s [] (List.replicate N .tick) = some (.ok (s', [])) ∧ s'.states = s.states ∧ C07.QuietLayout s' := by
  intro N
  induction N with
  | zero => intro s h; exact ⟨s, rfl, rfl, h⟩
  | succ N ih =>
    intro s h
    obtain ⟨s1, e1, st1, _, _, _, _, _, _, _, _, _, q1⟩ := C07.layout_tick_silent_when_quiet s h
    obtain ⟨s2, e2, st2, q2⟩ := ih s1 q1
    refine ⟨s2, ?_, st2.trans st1, q2⟩
    simp only [List.replicate, run, overflows, Bool.false_eq_true, if_false, stepIn, e1, downAfter]
    exact e2

end KVerif.QU
