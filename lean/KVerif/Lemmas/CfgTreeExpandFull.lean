/-
Lemmas for C16 (templates): under the decidable "keywords only in head position" hypothesis
(`headSafe`), the loop of `expand` (deftemplate.rs, `expandLoop`) and the substitution semantics
(`expandSpec`) compute the same results.
-/
import KVerif.Lemmas.CfgTreeHeadOnly
import KVerif.Lemmas.CfgTreeExpand
import KVerif.Lemmas.CfgTreeSubst
namespace KVerif.CfgTree

def xBadT (a : Str) : Bool := a = sTemplateExpand || a = sTBang || a = sConcat
def xBadH (a : Str) : Bool := a = sConcat

theorem xBad_sub : ∀ a, xBadH a = true → xBadT a = true := by
  intro a h
  simp only [xBadH, xBadT, Bool.or_eq_true] at h ⊢
  exact Or.inr h

/-- keywords only in head position: in every list the atoms after the head are not
template-expand / t! / concat and the head is not concat -/
abbrev xho (ts : List Tree) : Bool := hoList xBadH xBadT ts
def tmplSafe (T : List Template) : Bool := T.all fun t => xho t.content && freeTop xBadT t.content
def headSafe (T : List Template) (ts : List Tree) : Bool := tmplSafe T && xho ts

/-! ### elementwise reading of `freeTop` / `headOK` -/

def atomOK (bad : Str → Bool) : Tree → Bool
  | .atom a => !bad a
  | .list _ => true

theorem freeTop_cons (bad : Str → Bool) (t : Tree) (rest : List Tree) :
    freeTop bad (t :: rest) = (atomOK bad t && freeTop bad rest) := by
  cases t <;> simp [freeTop, atomOK]

theorem headOK_cons (bad : Str → Bool) (t : Tree) (rest : List Tree) :
    headOK bad (t :: rest) = atomOK bad t := by
  cases t <;> simp [headOK, atomOK]

theorem atomOK_mono (b1 b2 : Str → Bool) (hsub : ∀ a, b1 a = true → b2 a = true) (t : Tree)
    (h : atomOK b2 t = true) : atomOK b1 t = true := by
  cases t with
  | list _ => rfl
  | atom a =>
    simp only [atomOK, Bool.not_eq_true'] at h ⊢
    cases hb : b1 a with
    | false => rfl
    | true => rw [hsub a hb] at h; exact absurd h (by simp)

theorem freeTop_mono (b1 b2 : Str → Bool) (hsub : ∀ a, b1 a = true → b2 a = true) :
    ∀ (l : List Tree), freeTop b2 l = true → freeTop b1 l = true
  | [], _ => rfl
  | t :: rest, h => by
    rw [freeTop_cons, Bool.and_eq_true] at h ⊢
    exact ⟨atomOK_mono b1 b2 hsub t h.1, freeTop_mono b1 b2 hsub rest h.2⟩

theorem freeTop_get (bad : Str → Bool) : ∀ (l : List Tree) (i : Nat) (t : Tree),
    freeTop bad l = true → l[i]? = some t → atomOK bad t = true
  | [], i, t, _, h => by simp at h
  | x :: rest, 0, t, hf, h => by
    simp only [List.getElem?_cons_zero, Option.some.injEq] at h
    subst h
    rw [freeTop_cons, Bool.and_eq_true] at hf
    exact hf.1
  | x :: rest, i + 1, t, hf, h => by
    rw [freeTop_cons, Bool.and_eq_true] at hf
    simp only [List.getElem?_cons_succ] at h
    exact freeTop_get bad rest i t hf.2 h

theorem hoList_get (bH bT : Str → Bool) : ∀ (l : List Tree) (i : Nat) (t : Tree),
    hoList bH bT l = true → l[i]? = some t → hoTree bH bT t = true
  | [], i, t, _, h => by simp at h
  | x :: rest, 0, t, hf, h => by
    simp only [List.getElem?_cons_zero, Option.some.injEq] at h
    subst h
    simp only [hoList, Bool.and_eq_true] at hf
    exact hf.1
  | x :: rest, i + 1, t, hf, h => by
    simp only [hoList, Bool.and_eq_true] at hf
    simp only [List.getElem?_cons_succ] at h
    exact hoList_get bH bT rest i t hf.2 h

theorem hoList_mem (bH bT : Str → Bool) (l : List Tree) (t : Tree)
    (h : hoList bH bT l = true) (hm : t ∈ l) : hoTree bH bT t = true := by
  induction l with
  | nil => simp at hm
  | cons x rest ih =>
    simp only [hoList, Bool.and_eq_true] at h
    simp only [List.mem_cons] at hm
    cases hm with
    | inl hm => subst hm; exact h.1
    | inr hm => exact ih h.2 hm

/-! ### 1. substitution keeps the discipline -/

theorem substTree_atomOK (bad : Str → Bool) (ps : List Str) (args : List Tree)
    (hf : freeTop bad args = true) (t : Tree) (h : atomOK bad t = true) :
    atomOK bad (substTree ps args t) = true := by
  cases t with
  | list l => simp [substTree, atomOK]
  | atom a =>
    simp only [substTree]
    split
    · exact h
    · rename_i i _
      cases hg : args[i]? with
      | none => simpa using h
      | some t => simpa using freeTop_get bad args i t hf hg

mutual
  theorem substTree_ho (ps : List Str) (args : List Tree) (ha : xho args = true)
      (hf : freeTop xBadT args = true) : ∀ (t : Tree), hoTree xBadH xBadT t = true →
      hoTree xBadH xBadT (substTree ps args t) = true
    | .atom a, _ => by
      simp only [substTree]
      split
      · rfl
      · rename_i i _
        cases hg : args[i]? with
        | none => simp [hoTree]
        | some t => simpa using hoList_get xBadH xBadT args i t ha hg
    | .list l, h => by
      rw [hoTree_list] at h
      simp only [Bool.and_eq_true] at h
      obtain ⟨k1, _, k3, k4⟩ := substList_ho ps args ha hf l h.2
      simp only [substTree]
      rw [hoTree_list]
      simp only [Bool.and_eq_true]
      exact ⟨⟨k3 h.1.1, k4 h.1.2⟩, k1⟩
  theorem substList_ho (ps : List Str) (args : List Tree) (ha : xho args = true)
      (hf : freeTop xBadT args = true) : ∀ (l : List Tree), xho l = true →
      xho (substList ps args l) = true ∧
      (freeTop xBadT l = true → freeTop xBadT (substList ps args l) = true) ∧
      (headOK xBadH l = true → headOK xBadH (substList ps args l) = true) ∧
      (freeTop xBadT l.tail = true → freeTop xBadT (substList ps args l).tail = true)
    | [], _ => by simp [substList, hoList, freeTop, headOK]
    | t :: rest, h => by
      simp only [xho, hoList, Bool.and_eq_true] at h
      obtain ⟨k1, k2, _, _⟩ := substList_ho ps args ha hf rest h.2
      have kt := substTree_ho ps args ha hf t h.1
      simp only [substList, List.tail_cons]
      refine ⟨?_, ?_, ?_, k2⟩
      · simp only [xho, hoList, Bool.and_eq_true]; exact ⟨kt, k1⟩
      · intro hh
        rw [freeTop_cons, Bool.and_eq_true] at hh ⊢
        exact ⟨substTree_atomOK xBadT ps args hf t hh.1, k2 hh.2⟩
      · intro hh
        rw [headOK_cons] at hh ⊢
        exact substTree_atomOK xBadH ps args (freeTop_mono xBadH xBadT xBad_sub args hf) t hh
end

/-! ### 2. no `concat` list -/

mutual
  theorem concatTree_id_xho : ∀ (t : Tree), hoTree xBadH xBadT t = true → concatTree t = t
    | .atom _, _ => rfl
    | .list l, h => by
      rw [hoTree_list] at h
      simp only [Bool.and_eq_true] at h
      match l, h with
      | [], _ => simp [concatTree, concatList]
      | .list l0 :: rest, h =>
        simp only [concatTree]
        rw [concatList_id_xho _ h.2]
      | .atom a :: rest, h =>
        have : ¬ a = sConcat := by
          intro ha; have := h.1.1; simp [headOK, xBadH, ha] at this
        simp only [concatTree, this, if_false]
        rw [concatList_id_xho _ h.2]
  theorem concatList_id_xho : ∀ (l : List Tree), xho l = true → concatList l = l
    | [], _ => rfl
    | t :: rest, h => by
      simp only [xho, hoList, Bool.and_eq_true] at h
      simp only [concatList]
      rw [concatTree_id_xho t h.1, concatList_id_xho rest h.2]
end

/-! ### 3. an instantiated body keeps the discipline -/

theorem findTemplate_mem (name : Str) : ∀ (T : List Template) (tpl : Template),
    findTemplate name T = some tpl → tpl ∈ T
  | [], tpl, h => by simp [findTemplate] at h
  | t :: rest, tpl, h => by
    simp only [findTemplate] at h
    split at h
    · simp only [Option.some.injEq] at h; subst h; simp
    · exact List.mem_cons_of_mem _ (findTemplate_mem name rest tpl h)

theorem tmplSafe_mem (T : List Template) (tpl : Template) (h : tmplSafe T = true) (hm : tpl ∈ T) :
    xho tpl.content = true ∧ freeTop xBadT tpl.content = true := by
  simp only [tmplSafe, List.all_eq_true, Bool.and_eq_true] at h
  exact h tpl hm

theorem instantiate_xho (T : List Template) (l repl : List Tree) (hT : tmplSafe T = true)
    (hl : hoTree xBadH xBadT (.list l) = true) (h : instantiate T l = .ok repl) :
    xho repl = true ∧ freeTop xBadT repl = true := by
  rw [hoTree_list] at hl
  simp only [Bool.and_eq_true] at hl
  unfold instantiate at h
  split at h
  · rename_i hd name args
    cases hft : findTemplate name T with
    | none => simp [hft, rej] at h
    | some tpl =>
      simp only [hft] at h
      split at h
      · simp [rej] at h
      · obtain ⟨c1, c2⟩ := tmplSafe_mem T tpl hT (findTemplate_mem name T tpl hft)
        have hargs : xho args = true := by
          have := hl.2
          simp only [hoList, Bool.and_eq_true] at this
          exact this.2.2
        have hfargs : freeTop xBadT args = true := by
          have := hl.1.2
          simp only [List.tail_cons, freeTop, Bool.and_eq_true] at this
          exact this.2
        obtain ⟨k1, k2, _, _⟩ := substList_ho tpl.params args hargs hfargs tpl.content c1
        rw [concatList_id_xho _ k1] at h
        obtain ⟨j1, j2⟩ := condLoop_ho xBadH xBadT xBad_sub _ _ _ h k1
        exact ⟨j1, j2 (k2 c2)⟩
  · simp [rej] at h
  · simp [rej] at h

/-! ### 4./5. the pass and the loop keep the discipline -/

/-- what a step `l ↦ l'` of the expander has to keep: the discipline, "the atoms directly in the
forest avoid the keywords", and a leading atom -/
def Keeps (l l' : List Tree) : Prop :=
  xho l' = true ∧ (freeTop xBadT l = true → freeTop xBadT l' = true) ∧
  (∀ a tl, l = .atom a :: tl → ∃ tl1, l' = .atom a :: tl1 ∧
    (freeTop xBadT tl = true → freeTop xBadT tl1 = true))

theorem Keeps.trans {a b c : List Tree} (h1 : Keeps a b) (h2 : Keeps b c) : Keeps a c := by
  refine ⟨h2.1, fun hf => h2.2.1 (h1.2.1 hf), ?_⟩
  intro x tl hx
  obtain ⟨tl1, rfl, k1⟩ := h1.2.2 x tl hx
  obtain ⟨tl2, rfl, k2⟩ := h2.2.2 x tl1 rfl
  exact ⟨tl2, rfl, fun hf => k2 (k1 hf)⟩

theorem Keeps.nil : Keeps [] [] := ⟨rfl, fun h => h, fun a tl h => by cases h⟩

theorem Keeps.cons_atom {rest r : List Tree} (a : Str) (h : Keeps rest r) :
    Keeps (.atom a :: rest) (.atom a :: r) := by
  refine ⟨by simp only [xho, hoList, hoTree, Bool.true_and]; exact h.1, ?_, ?_⟩
  · intro hf
    simp only [freeTop, Bool.and_eq_true] at hf ⊢
    exact ⟨hf.1, h.2.1 hf.2⟩
  · intro a' tl hh
    cases hh
    exact ⟨r, rfl, h.2.1⟩

theorem Keeps.cons_splice {rest r r1 : List Tree} (l : List Tree) (h : Keeps rest r)
    (h1 : xho r1 = true) (h2 : freeTop xBadT r1 = true) : Keeps (.list l :: rest) (r1 ++ r) := by
  refine ⟨by simp only [xho]; rw [hoList_append, Bool.and_eq_true]; exact ⟨h1, h.1⟩, ?_, fun a tl hh => by cases hh⟩
  intro hf
  simp only [freeTop] at hf
  rw [freeTop_append, h2, h.2.1 hf]; rfl

theorem Keeps.cons_list {rest r : List Tree} (l l' : List Tree) (h : Keeps rest r)
    (h1 : hoTree xBadH xBadT (.list l') = true) : Keeps (.list l :: rest) (.list l' :: r) := by
  refine ⟨by simp only [xho, hoList, h1, Bool.true_and]; exact h.1, ?_, fun a tl hh => by cases hh⟩
  intro hf
  simp only [freeTop] at hf ⊢
  exact h.2.1 hf

/-- inside a list: the head stays a legal head, the tail stays free of keywords -/
theorem Keeps.tree {l l' : List Tree} (h : Keeps l l')
    (hl : hoTree xBadH xBadT (.list l) = true) : hoTree xBadH xBadT (.list l') = true := by
  rw [hoTree_list] at hl ⊢
  simp only [Bool.and_eq_true] at hl ⊢
  obtain ⟨k1, k2, k3⟩ := h
  refine ⟨?_, k1⟩
  match l, hl, k2, k3 with
  | [], _, k2, _ =>
    have := k2 rfl
    exact ⟨freeTop_headOK xBadH xBadT xBad_sub l' this, freeTop_tail xBadT l' this⟩
  | .list l0 :: tl, hl, k2, _ =>
    have := k2 (by simpa [freeTop] using hl.1.2)
    exact ⟨freeTop_headOK xBadH xBadT xBad_sub l' this, freeTop_tail xBadT l' this⟩
  | .atom a :: tl, hl, _, k3 =>
    obtain ⟨tl1, rfl, k4⟩ := k3 a tl rfl
    exact ⟨hl.1.1, k4 (by simpa using hl.1.2)⟩

theorem freeTop_notHead (l : List Tree) (h : freeTop xBadT l = true) : isExpandHead l = false := by
  match l, h with
  | [], _ => rfl
  | .list _ :: _, _ => rfl
  | .atom a :: tl, h =>
    simp only [freeTop, xBadT, Bool.and_eq_true, Bool.not_eq_true', Bool.or_eq_false_iff,
      decide_eq_false_iff_not] at h
    simp [isExpandHead, headIs, h.1.1.1, h.1.1.2]

/-- 6. a list that is not a call does not become one -/
theorem Keeps.notHead {l l' : List Tree} (h : Keeps l l')
    (hl : hoTree xBadH xBadT (.list l) = true) (hh : isExpandHead l = false) :
    isExpandHead l' = false := by
  rw [hoTree_list] at hl
  simp only [Bool.and_eq_true] at hl
  obtain ⟨_, k2, k3⟩ := h
  match l, hl, hh, k2, k3 with
  | [], _, _, k2, _ => exact freeTop_notHead l' (k2 rfl)
  | .list l0 :: tl, hl, _, k2, _ =>
    exact freeTop_notHead l' (k2 (by simpa [freeTop] using hl.1.2))
  | .atom a :: tl, _, hh, _, k3 =>
    obtain ⟨tl1, rfl, -⟩ := k3 a tl rfl
    rw [isExpandHead_cons _ tl1 tl]; exact hh

theorem xho_cons_list (l rest : List Tree) (h : xho (.list l :: rest) = true) :
    hoTree xBadH xBadT (.list l) = true ∧ xho l = true ∧ xho rest = true := by
  simp only [xho, hoList, Bool.and_eq_true] at h
  have := h.1
  rw [hoTree_list] at this
  simp only [Bool.and_eq_true] at this
  exact ⟨h.1, this.2, h.2⟩

/-- the recursive call keeps the discipline -/
def RecOK (rec : List Tree → Res (List Tree)) : Prop :=
  ∀ l l', xho l = true → rec l = .ok l' → Keeps l l'

theorem expandPass_xho (rec : List Tree → Res (List Tree)) (T : List Template) (hrec : RecOK rec)
    (hT : tmplSafe T = true) : ∀ (ts ts1 : List Tree) (c : Bool),
    expandPass rec T ts = .ok (ts1, c) → xho ts = true → Keeps ts ts1
  | [], ts1, c, h, _ => by
    simp only [expandPass, Except.ok.injEq, Prod.mk.injEq] at h
    obtain ⟨rfl, rfl⟩ := h
    exact Keeps.nil
  | .atom a :: rest, ts1, c, h, ho => by
    simp only [expandPass] at h
    cases hr : expandPass rec T rest with
    | error e => simp [hr] at h
    | ok p =>
      obtain ⟨r, c'⟩ := p
      simp only [hr, Except.ok.injEq, Prod.mk.injEq] at h
      obtain ⟨rfl, rfl⟩ := h
      simp only [xho, hoList, Bool.and_eq_true] at ho
      exact Keeps.cons_atom a (expandPass_xho rec T hrec hT rest r c' hr ho.2)
  | .list l :: rest, ts1, c, h, ho => by
    obtain ⟨ho1, ho2, ho3⟩ := xho_cons_list l rest ho
    simp only [expandPass] at h
    split at h
    · cases hi : instantiate T l with
      | error e => simp [hi] at h
      | ok repl =>
        simp only [hi] at h
        cases hr : expandPass rec T rest with
        | error e => simp [hr] at h
        | ok p =>
          obtain ⟨r, c'⟩ := p
          simp only [hr, Except.ok.injEq, Prod.mk.injEq] at h
          obtain ⟨rfl, rfl⟩ := h
          obtain ⟨j1, j2⟩ := instantiate_xho T l repl hT ho1 hi
          exact Keeps.cons_splice l (expandPass_xho rec T hrec hT rest r c' hr ho3) j1 j2
    · cases hl : rec l with
      | error e => simp [hl] at h
      | ok l' =>
        simp only [hl] at h
        cases hr : expandPass rec T rest with
        | error e => simp [hr] at h
        | ok p =>
          obtain ⟨r, c'⟩ := p
          simp only [hr, Except.ok.injEq, Prod.mk.injEq] at h
          obtain ⟨rfl, rfl⟩ := h
          exact Keeps.cons_list l l' (expandPass_xho rec T hrec hT rest r c' hr ho3)
            ((hrec l l' ho2 hl).tree ho1)

theorem expandLoop_xho (T : List Template) (hT : tmplSafe T = true) :
    ∀ (F : Nat), RecOK (expandLoop F T) := by
  intro F
  induction F with
  | zero => intro ts r _ h; simp [expandLoop, fuelOut] at h
  | succ F ih =>
    intro ts r ho h
    simp only [expandLoop] at h
    cases hp : expandPass (expandLoop F T) T ts with
    | error e => simp [hp] at h
    | ok p =>
      obtain ⟨ts1, c⟩ := p
      simp only [hp] at h
      have k := expandPass_xho (expandLoop F T) T ih hT ts ts1 c hp ho
      cases c with
      | false =>
        simp only [Bool.false_eq_true, if_false, Except.ok.injEq] at h
        subst h
        exact k
      | true =>
        simp only [if_true] at h
        exact k.trans (ih ts1 r k.1 h)

/-- 6. -/
theorem isExpandHead_stable (T : List Template) (hT : tmplSafe T = true) (F : Nat)
    (l l' : List Tree) (hl : hoTree xBadH xBadT (.list l) = true) (hh : isExpandHead l = false)
    (h : expandLoop F T l = .ok l') : isExpandHead l' = false := by
  have hx : xho l = true := by
    rw [hoTree_list] at hl
    simp only [Bool.and_eq_true] at hl
    exact hl.2
  exact (expandLoop_xho T hT F l l' hx h).notHead hl hh

/-! ### 7. the result of the loop is fully expanded -/

theorem expandPass_false_nf (rec : List Tree → Res (List Tree)) (T : List Template) :
    ∀ (ts ts1 : List Tree), expandPass rec T ts = .ok (ts1, false) →
    (∀ l l', Tree.list l ∈ ts → isExpandHead l = false → rec l = .ok l' →
      nfList l' = true ∧ isExpandHead l' = false) → nfList ts1 = true
  | [], ts1, h, _ => by
    simp only [expandPass, Except.ok.injEq, Prod.mk.injEq] at h
    rw [← h.1]; rfl
  | .atom a :: rest, ts1, h, hrec => by
    simp only [expandPass] at h
    cases hr : expandPass rec T rest with
    | error e => simp [hr] at h
    | ok p =>
      obtain ⟨r, c'⟩ := p
      simp only [hr, Except.ok.injEq, Prod.mk.injEq] at h
      obtain ⟨rfl, rfl⟩ := h
      simp only [nfList, nfTree, Bool.true_and]
      exact expandPass_false_nf rec T rest r hr
        (fun l l' hm => hrec l l' (List.mem_cons_of_mem _ hm))
  | .list l :: rest, ts1, h, hrec => by
    simp only [expandPass] at h
    split at h
    · cases hi : instantiate T l with
      | error e => simp [hi] at h
      | ok repl =>
        simp only [hi] at h
        cases hr : expandPass rec T rest with
        | error e => simp [hr] at h
        | ok p => simp [hr] at h
    · rename_i hh
      cases hl : rec l with
      | error e => simp [hl] at h
      | ok l' =>
        simp only [hl] at h
        cases hr : expandPass rec T rest with
        | error e => simp [hr] at h
        | ok p =>
          obtain ⟨r, c'⟩ := p
          simp only [hr, Except.ok.injEq, Prod.mk.injEq] at h
          obtain ⟨rfl, rfl⟩ := h
          obtain ⟨j1, j2⟩ := hrec l l' (by simp) (by simpa using hh) hl
          simp only [nfList, nfTree, j1, j2, Bool.not_false, Bool.true_and]
          exact expandPass_false_nf rec T rest r hr
            (fun l l' hm => hrec l l' (List.mem_cons_of_mem _ hm))

theorem expandLoop_nf' (T : List Template) (hT : tmplSafe T = true) : ∀ (F : Nat)
    (ts r : List Tree), xho ts = true → expandLoop F T ts = .ok r → nfList r = true := by
  intro F
  induction F with
  | zero => intro ts r _ h; simp [expandLoop, fuelOut] at h
  | succ F ih =>
    intro ts r ho h
    simp only [expandLoop] at h
    cases hp : expandPass (expandLoop F T) T ts with
    | error e => simp [hp] at h
    | ok p =>
      obtain ⟨ts1, c⟩ := p
      simp only [hp] at h
      cases c with
      | true =>
        simp only [if_true] at h
        exact ih ts1 r (expandPass_xho (expandLoop F T) T (expandLoop_xho T hT F) hT ts ts1 _ hp ho).1 h
      | false =>
        simp only [Bool.false_eq_true, if_false, Except.ok.injEq] at h
        subst h
        refine expandPass_false_nf (expandLoop F T) T ts ts1 hp ?_
        intro l l' hm hh hl
        have hlt := hoList_mem xBadH xBadT ts (.list l) ho hm
        have hx : xho l = true := by
          rw [hoTree_list] at hlt
          simp only [Bool.and_eq_true] at hlt
          exact hlt.2
        exact ⟨ih l l' hx hl, isExpandHead_stable T hT F l l' hlt hh hl⟩

theorem expandLoop_result_nf (T : List Template) (ts : List Tree) (h : headSafe T ts = true)
    (F : Nat) (r : List Tree) : expandLoop F T ts = .ok r → nfList r = true := by
  simp only [headSafe, Bool.and_eq_true] at h
  exact expandLoop_nf' T h.1 F ts r h.2

/-! ### 8./9. soundness of the loop for the substitution semantics -/

/-- on a fully expanded forest the substitution semantics is the identity -/
theorem expandSpec_nf_id (T : List Template) : ∀ (f : Nat) (x y : List Tree), nfList x = true →
    expandSpec f T x = .ok y → y = x := by
  intro f
  induction f with
  | zero => intro x y _ h; simp [expandSpec, fuelOut] at h
  | succ f ih =>
    intro x
    induction x with
    | nil =>
      intro y _ h
      simp only [expandSpec_succ, flatMapR, Except.ok.injEq] at h
      exact h.symm
    | cons t rest ihr =>
      intro y hn h
      simp only [nfList, Bool.and_eq_true] at hn
      rw [expandSpec_succ, flatMapR_cons] at h
      cases h1 : specStep f T t with
      | error e => simp [h1] at h
      | ok r1 =>
        simp only [h1] at h
        cases h2 : flatMapR (specStep f T) rest with
        | error e => simp [h2] at h
        | ok r2 =>
          simp only [h2, Except.ok.injEq] at h
          subst h
          have e2 : r2 = rest := ihr r2 hn.2 (by rw [expandSpec_succ]; exact h2)
          subst e2
          cases t with
          | atom a =>
            simp only [specStep, Except.ok.injEq] at h1
            subst h1; rfl
          | list l =>
            have hn1 := hn.1
            simp only [nfTree, Bool.and_eq_true, Bool.not_eq_true'] at hn1
            simp only [specStep, hn1.1] at h1
            cases hl : expandSpec f T l with
            | error e => simp [hl] at h1
            | ok l' =>
              simp only [hl] at h1
              have := ih l l' hn1.2 hl
              subst this
              simp only [Bool.false_eq_true, if_false, Except.ok.injEq] at h1
              subst h1; rfl

theorem Expands.nf_id {T : List Template} {x y : List Tree} (hn : nfList x = true)
    (h : Expands T x y) : y = x := by
  obtain ⟨f, h⟩ := h
  exact expandSpec_nf_id T f x y hn h

theorem expandSpec_nf_refl (T : List Template) : ∀ (f : Nat) (x : List Tree), nfList x = true →
    depthList x < f → expandSpec f T x = .ok x := by
  intro f
  induction f with
  | zero => intro x _ h; omega
  | succ f ih =>
    intro x
    induction x with
    | nil => intro _ _; simp [expandSpec_succ, flatMapR]
    | cons t rest ihr =>
      intro hn hd
      simp only [nfList, Bool.and_eq_true] at hn
      simp only [depthList] at hd
      have hrest := ihr hn.2 (by omega)
      rw [expandSpec_succ] at hrest
      rw [expandSpec_succ, flatMapR_cons, hrest]
      cases t with
      | atom a => simp [specStep]
      | list l =>
        have hn1 := hn.1
        simp only [nfTree, Bool.and_eq_true, Bool.not_eq_true'] at hn1
        simp only [depthTree] at hd
        simp [specStep, hn1.1, ih l hn1.2 (by omega)]

theorem Expands.nf_refl {T : List Template} {x : List Tree} (hn : nfList x = true) :
    Expands T x x := ⟨depthList x + 1, expandSpec_nf_refl T _ x hn (by omega)⟩

/-- 8. one pass reflects the substitution semantics -/
theorem expandPass_reflects (T : List Template) (hT : tmplSafe T = true) (F : Nat)
    (ih : ∀ l l', xho l = true → expandLoop F T l = .ok l' → Expands T l l') :
    ∀ (ts ts1 r : List Tree) (c : Bool), xho ts = true →
      expandPass (expandLoop F T) T ts = .ok (ts1, c) → Expands T ts1 r → Expands T ts r
  | [], ts1, r, c, _, h, he => by
    simp only [expandPass, Except.ok.injEq, Prod.mk.injEq] at h
    rw [h.1]; exact he
  | .atom a :: rest, ts1, r, c, ho, h, he => by
    simp only [expandPass] at h
    cases hr : expandPass (expandLoop F T) T rest with
    | error e => simp [hr] at h
    | ok p =>
      obtain ⟨r1, c'⟩ := p
      simp only [hr, Except.ok.injEq, Prod.mk.injEq] at h
      obtain ⟨rfl, rfl⟩ := h
      simp only [xho, hoList, Bool.and_eq_true] at ho
      obtain ⟨ra, rb, rfl, ha, hb⟩ := Expands.split (a := [.atom a]) (b := r1) he
      exact Expands.append (a := [.atom a]) ha
        (expandPass_reflects T hT F ih rest r1 rb c' ho.2 hr hb)
  | .list l :: rest, ts1, r, c, ho, h, he => by
    obtain ⟨ho1, ho2, ho3⟩ := xho_cons_list l rest ho
    simp only [expandPass] at h
    split at h
    · rename_i hh
      cases hi : instantiate T l with
      | error e => simp [hi] at h
      | ok repl =>
        simp only [hi] at h
        cases hr : expandPass (expandLoop F T) T rest with
        | error e => simp [hr] at h
        | ok p =>
          obtain ⟨r1, c'⟩ := p
          simp only [hr, Except.ok.injEq, Prod.mk.injEq] at h
          obtain ⟨rfl, rfl⟩ := h
          obtain ⟨ra, rb, rfl, ha, hb⟩ := Expands.split he
          exact Expands.append (a := [.list l]) ((Expands.call hh hi).mpr ha)
            (expandPass_reflects T hT F ih rest r1 rb c' ho3 hr hb)
    · rename_i hh
      have hh : isExpandHead l = false := by simpa using hh
      cases hl : expandLoop F T l with
      | error e => simp [hl] at h
      | ok l' =>
        simp only [hl] at h
        cases hr : expandPass (expandLoop F T) T rest with
        | error e => simp [hr] at h
        | ok p =>
          obtain ⟨r1, c'⟩ := p
          simp only [hr, Except.ok.injEq, Prod.mk.injEq] at h
          obtain ⟨rfl, rfl⟩ := h
          obtain ⟨ra, rb, rfl, ha, hb⟩ := Expands.split (a := [.list l']) (b := r1) he
          have hh' := isExpandHead_stable T hT F l l' ho1 hh hl
          obtain ⟨l'', rfl, hl''⟩ := (Expands.nested hh').mp ha
          have hnf := expandLoop_nf' T hT F l l' ho2 hl
          have := Expands.nf_id hnf hl''
          subst this
          exact Expands.append (a := [.list l]) ((Expands.nested hh).mpr ⟨l'', rfl, ih l l'' ho2 hl⟩)
            (expandPass_reflects T hT F ih rest r1 rb c' ho3 hr hb)

/-- 9. -/
theorem expandLoop_sound' (T : List Template) (hT : tmplSafe T = true) : ∀ (F : Nat)
    (ts r : List Tree), xho ts = true → expandLoop F T ts = .ok r → Expands T ts r := by
  intro F
  induction F with
  | zero => intro ts r _ h; simp [expandLoop, fuelOut] at h
  | succ F ih =>
    intro ts r ho h
    have hnf := expandLoop_nf' T hT (F + 1) ts r ho h
    simp only [expandLoop] at h
    cases hp : expandPass (expandLoop F T) T ts with
    | error e => simp [hp] at h
    | ok p =>
      obtain ⟨ts1, c⟩ := p
      simp only [hp] at h
      refine expandPass_reflects T hT F ih ts ts1 r c ho hp ?_
      cases c with
      | false =>
        simp only [Bool.false_eq_true, if_false, Except.ok.injEq] at h
        subst h
        exact Expands.nf_refl hnf
      | true =>
        simp only [if_true] at h
        exact ih ts1 r (expandPass_xho (expandLoop F T) T (expandLoop_xho T hT F) hT ts ts1 _ hp ho).1 h

theorem expandLoop_sound (T : List Template) (ts : List Tree) (h : headSafe T ts = true)
    (F : Nat) (r : List Tree) : expandLoop F T ts = .ok r → Expands T ts r := by
  simp only [headSafe, Bool.and_eq_true] at h
  exact expandLoop_sound' T h.1 F ts r h.2

/-! ### 10. the substitution semantics keeps the discipline and ends fully expanded -/

theorem expandSpec_xho (T : List Template) (hT : tmplSafe T = true) : ∀ (f : Nat),
    RecOK (expandSpec f T) := by
  intro f
  induction f with
  | zero => intro ts r _ h; simp [expandSpec, fuelOut] at h
  | succ f ih =>
    intro ts
    induction ts with
    | nil =>
      intro r _ h
      simp only [expandSpec_succ, flatMapR, Except.ok.injEq] at h
      subst h; exact Keeps.nil
    | cons t rest ihr =>
      intro r ho h
      rw [expandSpec_succ, flatMapR_cons] at h
      cases h1 : specStep f T t with
      | error e => simp [h1] at h
      | ok r1 =>
        simp only [h1] at h
        cases h2 : flatMapR (specStep f T) rest with
        | error e => simp [h2] at h
        | ok r2 =>
          simp only [h2, Except.ok.injEq] at h
          subst h
          cases t with
          | atom a =>
            simp only [specStep, Except.ok.injEq] at h1
            subst h1
            simp only [xho, hoList, Bool.and_eq_true] at ho
            exact Keeps.cons_atom a (ihr r2 ho.2 (by rw [expandSpec_succ]; exact h2))
          | list l =>
            obtain ⟨ho1, ho2, ho3⟩ := xho_cons_list l rest ho
            have krest := ihr r2 ho3 (by rw [expandSpec_succ]; exact h2)
            simp only [specStep] at h1
            split at h1
            · cases hi : instantiate T l with
              | error e => simp [hi] at h1
              | ok repl =>
                simp only [hi] at h1
                obtain ⟨j1, j2⟩ := instantiate_xho T l repl hT ho1 hi
                have k := ih repl r1 j1 h1
                exact Keeps.cons_splice l krest k.1 (k.2.1 j2)
            · cases hl : expandSpec f T l with
              | error e => simp [hl] at h1
              | ok l' =>
                simp only [hl, Except.ok.injEq] at h1
                subst h1
                exact Keeps.cons_list l l' krest ((ih l l' ho2 hl).tree ho1)

theorem expandSpec_nf' (T : List Template) (hT : tmplSafe T = true) : ∀ (f : Nat)
    (ts r : List Tree), xho ts = true → expandSpec f T ts = .ok r → nfList r = true := by
  intro f
  induction f with
  | zero => intro ts r _ h; simp [expandSpec, fuelOut] at h
  | succ f ih =>
    intro ts
    induction ts with
    | nil =>
      intro r _ h
      simp only [expandSpec_succ, flatMapR, Except.ok.injEq] at h
      subst h; rfl
    | cons t rest ihr =>
      intro r ho h
      rw [expandSpec_succ, flatMapR_cons] at h
      cases h1 : specStep f T t with
      | error e => simp [h1] at h
      | ok r1 =>
        simp only [h1] at h
        cases h2 : flatMapR (specStep f T) rest with
        | error e => simp [h2] at h
        | ok r2 =>
          simp only [h2, Except.ok.injEq] at h
          subst h
          rw [nfList_append, Bool.and_eq_true]
          cases t with
          | atom a =>
            simp only [specStep, Except.ok.injEq] at h1
            subst h1
            simp only [xho, hoList, Bool.and_eq_true] at ho
            exact ⟨rfl, ihr r2 ho.2 (by rw [expandSpec_succ]; exact h2)⟩
          | list l =>
            obtain ⟨ho1, ho2, ho3⟩ := xho_cons_list l rest ho
            refine ⟨?_, ihr r2 ho3 (by rw [expandSpec_succ]; exact h2)⟩
            simp only [specStep] at h1
            split at h1
            · cases hi : instantiate T l with
              | error e => simp [hi] at h1
              | ok repl =>
                simp only [hi] at h1
                exact ih repl r1 (instantiate_xho T l repl hT ho1 hi).1 h1
            · rename_i hh
              cases hl : expandSpec f T l with
              | error e => simp [hl] at h1
              | ok l' =>
                simp only [hl, Except.ok.injEq] at h1
                subst h1
                have hh' := (expandSpec_xho T hT f l l' ho2 hl).notHead ho1 (by simpa using hh)
                simp only [nfList, nfTree, hh', ih l l' ho2 hl, Bool.not_false, Bool.and_self]

theorem expandSpec_nf (T : List Template) (ts : List Tree) (h : headSafe T ts = true)
    (f : Nat) (r : List Tree) : expandSpec f T ts = .ok r → nfList r = true := by
  simp only [headSafe, Bool.and_eq_true] at h
  exact expandSpec_nf' T h.1 f ts r h.2

/-! ### 11. the loop of `expand` computes exactly the substitution semantics -/

/-- **`expand` = substitution.**  When the keywords `template-expand`, `t!`, `concat` occur only in
head position (in the configuration and in every template body; `concat` not at all as a head), the
loop of `expand` terminates with `r` for some amount of stack iff substituting template bodies for
their calls, everywhere and recursively, yields `r`. -/
theorem expandLoop_iff_spec (T : List Template) (ts : List Tree) (h : headSafe T ts = true)
    (r : List Tree) :
    (∃ F, expandLoop F T ts = .ok r) ↔ (∃ f, expandSpec f T ts = .ok r) := by
  constructor
  · rintro ⟨F, hF⟩
    exact expandLoop_sound T ts h F r hF
  · rintro ⟨f, hf⟩
    exact expandLoop_complete T f ts r hf (expandSpec_nf T ts h f r hf)

end KVerif.CfgTree
