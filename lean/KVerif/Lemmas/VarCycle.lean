/-
Lemmas for Props/C03vars.lean: the work-list search `reachesVar` of the `defvar` cycle check decides
reachability in the reference graph; inserting a variable into an acyclic table can only close a
cycle through that variable; a counting argument (a duplicate-free list of keys is no longer than
the table) that bounds both the search and the depth of variable expansion.
-/
import KVerif.Model.VarCycle
namespace KVerif.SExpr

/-! ## 1. the graph -/

theorem edge_iff {vars : Vars} {n m : Bytes} :
    Edge vars n m ↔ ∃ v, vars.lookup n = some v ∧ m ∈ v.refs ∧ Defined vars m := by
  unfold Edge varSuccs Defined
  cases h : vars.lookup n with
  | none => simp
  | some v => simp [List.mem_filter]

theorem Edge.defined_left {vars : Vars} {n m : Bytes} (h : Edge vars n m) : Defined vars n := by
  obtain ⟨v, hv, _, _⟩ := edge_iff.mp h
  simp [Defined, hv]

theorem Edge.defined_right {vars : Vars} {n m : Bytes} (h : Edge vars n m) : Defined vars m :=
  (edge_iff.mp h).choose_spec.2.2

theorem Reaches.trans {vars : Vars} {a b c : Bytes} (h1 : Reaches vars a b) (h2 : Reaches vars b c) :
    Reaches vars a c := by
  induction h1 with
  | one e => exact .step e h2
  | step e _ ih => exact .step e (ih h2)

theorem Reaches.snoc {vars : Vars} {a b c : Bytes} (h1 : Reaches vars a b) (h2 : Edge vars b c) :
    Reaches vars a c := h1.trans (.one h2)

theorem Reaches.defined_left {vars : Vars} {a b : Bytes} (h : Reaches vars a b) : Defined vars a := by
  cases h with
  | one e => exact e.defined_left
  | step e _ => exact e.defined_left

theorem Reaches.defined_right {vars : Vars} {a b : Bytes} (h : Reaches vars a b) : Defined vars b := by
  induction h with
  | one e => exact e.defined_right
  | step _ _ ih => exact ih

/-- a set of names that contains the successors of each of its members and has no edge into `t`
contains no name that reaches `t` -/
theorem closed_no_reach {vars : Vars} {t : Bytes} (D : List Bytes)
    (hD : ∀ q ∈ D, ∀ m ∈ varSuccs vars q, m ≠ t ∧ m ∈ D) {p : Bytes} (hp : p ∈ D) : ¬ Reaches vars p t := by
  intro h
  induction h with
  | one e => exact (hD _ hp _ e).1 rfl
  | step e _ ih => exact ih hD (hD _ hp _ e).2

/-! ## 2. counting -/

theorem nodup_eraseDups_aux : ∀ (k : Nat) (l : List Bytes), l.length ≤ k → l.eraseDups.Nodup := by
  intro k
  induction k with
  | zero =>
    intro l h
    have : l = [] := List.eq_nil_of_length_eq_zero (by omega)
    subst this; simp
  | succ k ih =>
    intro l h
    cases l with
    | nil => simp
    | cons a as =>
      rw [List.eraseDups_cons, List.nodup_cons]
      constructor
      · intro hm
        have := (List.mem_eraseDups.mp hm)
        simp at this
      · apply ih
        have := List.length_filter_le (fun b => !b == a) as
        simp at h; omega

theorem nodup_eraseDups (l : List Bytes) : l.eraseDups.Nodup := nodup_eraseDups_aux l.length l (Nat.le_refl _)

/-- the keys of the table that are not in `vis` -/
def unvisited (vars : Vars) (vis : List Bytes) : Nat :=
  ((vars.map (·.1)).filter (fun k => !vis.contains k)).length

theorem defined_iff_mem_keys {vars : Vars} {n : Bytes} : Defined vars n ↔ n ∈ vars.map (·.1) := by
  unfold Defined
  induction vars with
  | nil => simp [List.lookup]
  | cons p r ih =>
    obtain ⟨k, v⟩ := p
    simp only [List.lookup_cons, List.map_cons, List.mem_cons]
    cases h : n == k with
    | true => simp at h; simp [h]
    | false =>
      have : n ≠ k := by intro e; simp [e] at h
      simp [this, ih]

theorem filter_len_mono (K : List Bytes) (p q : Bytes → Bool) (h : ∀ x, p x = true → q x = true) :
    (K.filter p).length ≤ (K.filter q).length := by
  induction K with
  | nil => simp
  | cons k K ih =>
    simp only [List.filter_cons]
    cases hp : p k with
    | true => simp [h k hp]; omega
    | false =>
      cases hq : q k with
      | true => simp; omega
      | false => simpa using ih

theorem filter_len_lt (K : List Bytes) (p q : Bytes → Bool) (a : Bytes) (ha : a ∈ K)
    (hpq : ∀ x, p x = true → q x = true) (hpa : p a = false) (hqa : q a = true) :
    (K.filter p).length + 1 ≤ (K.filter q).length := by
  induction K with
  | nil => simp at ha
  | cons k K ih =>
    by_cases hk : k = a
    · subst hk
      have := filter_len_mono K p q hpq
      simp only [List.filter_cons, hpa, hqa, if_true, List.length_cons]
      simpa using this
    · have ha' : a ∈ K := by
        cases ha with
        | head => exact absurd rfl hk
        | tail _ h => exact h
      have ih' := ih ha'
      simp only [List.filter_cons]
      cases hp : p k with
      | true => simp [hpq k hp]; omega
      | false =>
        cases hq : q k with
        | true => simp; omega
        | false => simpa using ih'

theorem unvisited_cons_aux (K : List Bytes) (vis : List Bytes) (a : Bytes) (ha : a ∈ K) (hv : a ∉ vis) :
    (K.filter (fun k => !(a :: vis).contains k)).length + 1 ≤ (K.filter (fun k => !vis.contains k)).length := by
  apply filter_len_lt K _ _ a ha
  · intro x hx; simp at hx ⊢; exact hx.2
  · simp
  · simp [hv]

theorem unvisited_append (vars : Vars) (vis fresh : List Bytes) (hn : fresh.Nodup)
    (hf : ∀ x ∈ fresh, Defined vars x ∧ x ∉ vis) :
    unvisited vars (fresh ++ vis) + fresh.length ≤ unvisited vars vis := by
  induction fresh with
  | nil => simp
  | cons a f ih =>
    have hn' := List.nodup_cons.mp hn
    have ih' := ih hn'.2 (fun x hx => hf x (List.mem_cons_of_mem _ hx))
    have ha := hf a (List.mem_cons_self)
    have := unvisited_cons_aux (vars.map (·.1)) (f ++ vis) a (defined_iff_mem_keys.mp ha.1)
      (by simp [hn'.1, ha.2])
    unfold unvisited at ih' ⊢
    simp only [List.cons_append, List.length_cons] at this ⊢
    omega

theorem unvisited_nil (vars : Vars) : unvisited vars [] = vars.length := by
  unfold unvisited
  rw [List.filter_eq_self.mpr (by simp), List.length_map]

/-- a duplicate-free list of keys is no longer than the table -/
theorem nodup_keys_length (vars : Vars) (l : List Bytes) (hn : l.Nodup) (hd : ∀ x ∈ l, Defined vars x) :
    l.length ≤ vars.length := by
  have := unvisited_append vars [] l hn (fun x hx => ⟨hd x hx, by simp⟩)
  rw [unvisited_nil] at this
  omega

/-! ## 3. the work-list search of the cycle check -/

/-- the references of `name` that are queued when `name` is taken off the work list -/
def freshOf (vars : Vars) (name : Bytes) (visited : List Bytes) : List Bytes :=
  ((varSuccs vars name).filter (fun n => !visited.contains n)).eraseDups

theorem reachesVar_succ (vars : Vars) (t : Bytes) (fuel : Nat) (name : Bytes) (pending visited : List Bytes) :
    reachesVar vars t (fuel + 1) (name :: pending) visited =
      if (varSuccs vars name).contains t then true
      else reachesVar vars t fuel (freshOf vars name visited ++ pending) (freshOf vars name visited ++ visited) := by
  unfold freshOf varSuccs
  rw [reachesVar]
  cases h : vars.lookup name with
  | none => simp
  | some v => simp only []

theorem mem_freshOf {vars : Vars} {name : Bytes} {visited : List Bytes} {x : Bytes} :
    x ∈ freshOf vars name visited ↔ x ∈ varSuccs vars name ∧ x ∉ visited := by
  unfold freshOf
  rw [List.mem_eraseDups, List.mem_filter]
  simp

theorem nodup_freshOf (vars : Vars) (name : Bytes) (visited : List Bytes) : (freshOf vars name visited).Nodup :=
  nodup_eraseDups _

/-- a refusal is justified: when the search answers `true`, some queued name reaches the target -/
theorem reachesVar_true (vars : Vars) (t : Bytes) : ∀ (fuel : Nat) (pending visited : List Bytes),
    reachesVar vars t fuel pending visited = true → ∃ p ∈ pending, Reaches vars p t := by
  intro fuel
  induction fuel with
  | zero => intro pending visited h; simp [reachesVar] at h
  | succ fuel ih =>
    intro pending visited h
    cases pending with
    | nil => simp [reachesVar] at h
    | cons name pending =>
      rw [reachesVar_succ] at h
      by_cases hc : (varSuccs vars name).contains t = true
      · exact ⟨name, List.mem_cons_self, .one (List.contains_iff_mem.mp hc)⟩
      · rw [if_neg hc] at h
        obtain ⟨p, hp, hr⟩ := ih _ _ h
        rcases List.mem_append.mp hp with hf | hp'
        · exact ⟨name, List.mem_cons_self, .step (mem_freshOf.mp hf).1 hr⟩
        · exact ⟨p, List.mem_cons_of_mem _ hp', hr⟩

/-- an acceptance is justified: with enough fuel, when the search answers `false` the names handled
so far (`done`) and the queued ones lie in a set that is closed under references and has no edge
into the target -/
theorem reachesVar_false (vars : Vars) (t : Bytes) : ∀ (fuel : Nat) (pending visited done : List Bytes),
    pending.length + unvisited vars visited ≤ fuel →
    (∀ q ∈ done, ∀ m ∈ varSuccs vars q, m ≠ t ∧ (m ∈ done ∨ m ∈ pending)) →
    (∀ m ∈ visited, m ∈ done ∨ m ∈ pending) →
    reachesVar vars t fuel pending visited = false →
    ∃ D : List Bytes, (∀ x, x ∈ done ∨ x ∈ pending → x ∈ D) ∧
      ∀ q ∈ D, ∀ m ∈ varSuccs vars q, m ≠ t ∧ m ∈ D := by
  intro fuel
  induction fuel with
  | zero =>
    intro pending visited done hf hD _ _
    have : pending = [] := List.eq_nil_of_length_eq_zero (by omega)
    subst this
    refine ⟨done, ?_, ?_⟩
    · intro x hx; simpa using hx
    · intro q hq m hm; simpa using hD q hq m hm
  | succ fuel ih =>
    intro pending visited done hf hD hV h
    cases pending with
    | nil =>
      refine ⟨done, ?_, ?_⟩
      · intro x hx; simpa using hx
      · intro q hq m hm; simpa using hD q hq m hm
    | cons name pending =>
      rw [reachesVar_succ] at h
      by_cases hc : (varSuccs vars name).contains t = true
      · rw [if_pos hc] at h; exact absurd h (by simp)
      · rw [if_neg hc] at h
        have hcnt := unvisited_append vars visited (freshOf vars name visited) (nodup_freshOf _ _ _)
          (fun x hx => by
            have := mem_freshOf.mp hx
            exact ⟨Edge.defined_right this.1, this.2⟩)
        obtain ⟨D, hD1, hD2⟩ := ih (freshOf vars name visited ++ pending) (freshOf vars name visited ++ visited)
          (name :: done)
          (by simp only [List.length_append, List.length_cons] at hf ⊢; omega)
          (by
            intro q hq m hm
            rcases List.mem_cons.mp hq with rfl | hq'
            · refine ⟨fun e => hc (List.contains_iff_mem.mpr (e ▸ hm)), ?_⟩
              by_cases hv : m ∈ visited
              · rcases hV m hv with h1 | h1
                · exact Or.inl (List.mem_cons_of_mem _ h1)
                · rcases List.mem_cons.mp h1 with rfl | h2
                  · exact Or.inl List.mem_cons_self
                  · exact Or.inr (List.mem_append_right _ h2)
              · exact Or.inr (List.mem_append_left _ (mem_freshOf.mpr ⟨hm, hv⟩))
            · obtain ⟨h1, h2⟩ := hD q hq' m hm
              refine ⟨h1, ?_⟩
              rcases h2 with h2 | h2
              · exact Or.inl (List.mem_cons_of_mem _ h2)
              · rcases List.mem_cons.mp h2 with rfl | h3
                · exact Or.inl List.mem_cons_self
                · exact Or.inr (List.mem_append_right _ h3))
          (by
            intro m hm
            rcases List.mem_append.mp hm with h1 | h1
            · exact Or.inr (List.mem_append_left _ h1)
            · rcases hV m h1 with h2 | h2
              · exact Or.inl (List.mem_cons_of_mem _ h2)
              · rcases List.mem_cons.mp h2 with rfl | h3
                · exact Or.inl List.mem_cons_self
                · exact Or.inr (List.mem_append_right _ h3))
          h
        refine ⟨D, ?_, hD2⟩
        intro x hx
        rcases hx with hx | hx
        · exact hD1 x (Or.inl (List.mem_cons_of_mem _ hx))
        · rcases List.mem_cons.mp hx with rfl | hx'
          · exact hD1 _ (Or.inl List.mem_cons_self)
          · exact hD1 x (Or.inr (List.mem_append_right _ hx'))

/-- **the check of `parse_vars` decides self-reachability**: run as `parse_vars` runs it (work list
`[name]`, nothing visited, the fuel the model gives it), the search answers `true` exactly when
`name` reaches itself through one or more references in the table -/
theorem reachesVar_iff (vars : Vars) (name : Bytes) :
    reachesVar vars name (vars.length + 1) [name] [] = true ↔ Reaches vars name name := by
  constructor
  · intro h
    obtain ⟨p, hp, hr⟩ := reachesVar_true vars name _ _ _ h
    simp at hp; subst hp; exact hr
  · intro hr
    cases h : reachesVar vars name (vars.length + 1) [name] [] with
    | true => rfl
    | false =>
      obtain ⟨D, hD1, hD2⟩ := reachesVar_false vars name (vars.length + 1) [name] [] []
        (by rw [unvisited_nil]; simp; omega) (by simp) (by simp) h
      exact absurd hr (closed_no_reach D hD2 (hD1 name (Or.inr List.mem_cons_self)))

/-! ## 4. inserting a variable -/

theorem lookup_append_some {vars more : Vars} {n : Bytes} {x : SExpr} (h : vars.lookup n = some x) :
    (vars ++ more).lookup n = some x := by
  rw [List.lookup_append, h]; rfl

theorem lookup_snoc_ne (vars : Vars) {name n : Bytes} (v : SExpr) (h : n ≠ name) :
    (vars ++ [(name, v)]).lookup n = vars.lookup n := by
  rw [List.lookup_append]
  have hb : (n == name) = false := by simp [h]
  have : List.lookup n [(name, v)] = none := by simp [List.lookup, hb]
  rw [this]; cases vars.lookup n <;> rfl

theorem lookup_snoc_self {vars : Vars} {name : Bytes} (v : SExpr) (h : vars.lookup name = none) :
    (vars ++ [(name, v)]).lookup name = some v := by
  rw [List.lookup_append, h]; simp [List.lookup]

theorem Defined.append {vars : Vars} (more : Vars) {n : Bytes} (h : Defined vars n) : Defined (vars ++ more) n := by
  unfold Defined at h ⊢
  cases hl : vars.lookup n with
  | none => simp [hl] at h
  | some x => simp [lookup_append_some hl]

theorem Edge.append {vars : Vars} (more : Vars) {n m : Bytes} (h : Edge vars n m) : Edge (vars ++ more) n m := by
  obtain ⟨v, hv, hm, hd⟩ := edge_iff.mp h
  exact edge_iff.mpr ⟨v, lookup_append_some hv, hm, hd.append more⟩

/-- references are never lost when the table grows -/
theorem Reaches.append {vars : Vars} (more : Vars) {a b : Bytes} (h : Reaches vars a b) :
    Reaches (vars ++ more) a b := by
  induction h with
  | one e => exact .one (e.append more)
  | step e _ ih => exact .step (e.append more) ih

theorem Edge.of_snoc {vars : Vars} {name : Bytes} {v : SExpr} {n m : Bytes}
    (h : Edge (vars ++ [(name, v)]) n m) (hn : n ≠ name) (hm : m ≠ name) : Edge vars n m := by
  obtain ⟨x, hx, hr, hd⟩ := edge_iff.mp h
  rw [lookup_snoc_ne vars v hn] at hx
  unfold Defined at hd
  rw [lookup_snoc_ne vars v hm] at hd
  exact edge_iff.mpr ⟨x, hx, hr, hd⟩

/-- a path in the table with the new variable `name` either existed before or passes through `name` -/
theorem Reaches.split_snoc {vars : Vars} {name : Bytes} {v : SExpr} {a b : Bytes}
    (h : Reaches (vars ++ [(name, v)]) a b) :
    Reaches vars a b ∨ a = name ∨ b = name ∨
      (Reaches (vars ++ [(name, v)]) a name ∧ Reaches (vars ++ [(name, v)]) name b) := by
  induction h with
  | @one n m e =>
    by_cases hn : n = name
    · exact Or.inr (Or.inl hn)
    · by_cases hm : m = name
      · exact Or.inr (Or.inr (Or.inl hm))
      · exact Or.inl (.one (e.of_snoc hn hm))
  | @step n k m e hr ih =>
    by_cases hn : n = name
    · exact Or.inr (Or.inl hn)
    · by_cases hm : m = name
      · exact Or.inr (Or.inr (Or.inl hm))
      · by_cases hk : k = name
        · subst hk
          exact Or.inr (Or.inr (Or.inr ⟨.one e, hr⟩))
        · rcases ih with h1 | h1 | h1 | ⟨h1, h2⟩
          · exact Or.inl (.step (e.of_snoc hn hk) h1)
          · exact absurd h1 hk
          · exact absurd h1 hm
          · exact Or.inr (Or.inr (Or.inr ⟨.step e h1, h2⟩))

/-- inserting `name` into an acyclic table can only close a cycle through `name` -/
theorem acyclic_snoc {vars : Vars} {name : Bytes} {v : SExpr} (hac : Acyclic vars)
    (hself : ¬ Reaches (vars ++ [(name, v)]) name name) : Acyclic (vars ++ [(name, v)]) := by
  intro a ha
  rcases ha.split_snoc with h | h | h | ⟨h1, h2⟩
  · exact hac a h
  · subst h; exact hself ha
  · subst h; exact hself ha
  · exact hself (h2.trans h1)

theorem acyclic_nil : Acyclic [] := by
  intro n h
  have := h.defined_left
  simp [Defined, List.lookup] at this

/-- a sub-table of an acyclic table is acyclic -/
theorem Acyclic.of_append {vars more : Vars} (h : Acyclic (vars ++ more)) : Acyclic vars :=
  fun n hn => h n (hn.append more)

/-! ## 5. `parse_vars` step by step -/

/-- the value stored for a definition: an atom as it is, a list through `parse_list_var` -/
def evalValue (fuel : Nat) (vars : Vars) : SExpr → Except Crash SExpr
  | .atom t s => .ok (.atom t s)
  | .list xs s => parseListVar fuel vars xs s

/-- the diagnostic of the cycle check -/
def selfRefDiag (sp : Span) : Diag := ⟨some sp, "variable is defined in terms of itself"⟩

theorem parseVarsPairs_cons2 (fx : Fixes) (fuel : Nat) (name : Bytes) (sp : Span) (valE : SExpr)
    (rest : List SExpr) (vars : Vars) :
    parseVarsPairs fx fuel (.atom name sp :: valE :: rest) vars =
      match evalValue fuel vars valE with
      | .error c => .error c
      | .ok v =>
        if (vars.lookup name).isSome then .ok (.error ⟨some sp, "duplicate variable name"⟩)
        else if fx.varCycle && reachesVar (vars ++ [(name, v)]) name ((vars ++ [(name, v)]).length + 1) [name] [] then
          .ok (.error (selfRefDiag sp))
        else parseVarsPairs fx fuel rest (vars ++ [(name, v)]) := by
  conv => lhs; unfold parseVarsPairs
  cases valE with
  | atom t s => simp [evalValue, selfRefDiag, bind, Except.bind, pure, Except.pure]
  | list xs s =>
    simp only [evalValue, selfRefDiag, bind, Except.bind, pure, Except.pure]
    cases parseListVar fuel vars xs s <;> rfl

/-- what an accepted pair list went through at its first pair -/
theorem parseVarsPairs_ok_cons {fx : Fixes} {fuel : Nat} {nameE valE : SExpr} {rest : List SExpr}
    {vars out : Vars} (h : parseVarsPairs fx fuel (nameE :: valE :: rest) vars = .ok (.ok out)) :
    ∃ name sp v, nameE = .atom name sp ∧ evalValue fuel vars valE = .ok v ∧ vars.lookup name = none ∧
      (fx.varCycle = true →
        reachesVar (vars ++ [(name, v)]) name ((vars ++ [(name, v)]).length + 1) [name] [] = false) ∧
      parseVarsPairs fx fuel rest (vars ++ [(name, v)]) = .ok (.ok out) := by
  cases nameE with
  | list xs sp => simp [parseVarsPairs, pure, Except.pure] at h
  | atom name sp =>
    rw [parseVarsPairs_cons2] at h
    cases hv : evalValue fuel vars valE with
    | error c => simp [hv] at h
    | ok v =>
      simp only [hv] at h
      by_cases hl : (vars.lookup name).isSome = true
      · rw [if_pos hl] at h; simp at h
      · rw [if_neg hl] at h
        have hl' : vars.lookup name = none := by
          cases hx : vars.lookup name with
          | none => rfl
          | some x => simp [hx] at hl
        by_cases hr : (fx.varCycle && reachesVar (vars ++ [(name, v)]) name ((vars ++ [(name, v)]).length + 1) [name] []) = true
        · rw [if_pos hr] at h; simp at h
        · rw [if_neg hr] at h
          refine ⟨name, sp, v, rfl, rfl, hl', ?_, h⟩
          intro hc
          rw [hc] at hr
          simpa using hr

theorem parseVarsPairs_single {fx : Fixes} {fuel : Nat} {nameE : SExpr} {vars out : Vars} :
    parseVarsPairs fx fuel [nameE] vars ≠ .ok (.ok out) := by
  cases nameE <;> simp [parseVarsPairs, pure, Except.pure]

/-- a list of length-indexed induction for the pair loop -/
theorem parseVarsPairs_induct (fx : Fixes) (fuel : Nat) (Q : Vars → Vars → Prop)
    (h0 : ∀ vars, Q vars vars)
    (hstep : ∀ vars name v out, vars.lookup name = none →
      (fx.varCycle = true →
        reachesVar (vars ++ [(name, v)]) name ((vars ++ [(name, v)]).length + 1) [name] [] = false) →
      Q (vars ++ [(name, v)]) out → Q vars out) :
    ∀ (xs : List SExpr) (vars out : Vars), parseVarsPairs fx fuel xs vars = .ok (.ok out) → Q vars out := by
  intro xs
  induction hn : xs.length using Nat.strongRecOn generalizing xs with
  | _ n ih =>
    intro vars out h
    match xs, hn with
    | [], _ =>
      simp [parseVarsPairs, pure, Except.pure] at h
      subst h; exact h0 _
    | [x], _ => exact absurd h parseVarsPairs_single
    | nameE :: valE :: rest, hn =>
      obtain ⟨name, sp, v, _, _, hl, hr, hrest⟩ := parseVarsPairs_ok_cons h
      exact hstep vars name v out hl hr
        (ih rest.length (by simp at hn; omega) rest rfl _ _ hrest)

/-- the pair loop only appends to the table -/
theorem parseVarsPairs_grows (fx : Fixes) (fuel : Nat) (xs : List SExpr) (vars out : Vars)
    (h : parseVarsPairs fx fuel xs vars = .ok (.ok out)) : ∃ more, out = vars ++ more := by
  refine parseVarsPairs_induct fx fuel (fun vars out => ∃ more, out = vars ++ more) ?_ ?_ xs vars out h
  · intro vars; exact ⟨[], by simp⟩
  · intro vars name v out _ _ ⟨more, hm⟩
    exact ⟨(name, v) :: more, by simp [hm]⟩

/-- with the cycle check, the pair loop keeps the table acyclic -/
theorem parseVarsPairs_acyclic (fx : Fixes) (hfx : fx.varCycle = true) (fuel : Nat) (xs : List SExpr)
    (vars out : Vars) (h : parseVarsPairs fx fuel xs vars = .ok (.ok out)) (hac : Acyclic vars) : Acyclic out := by
  refine parseVarsPairs_induct fx fuel (fun vars out => Acyclic vars → Acyclic out) ?_ ?_ xs vars out h hac
  · intro vars h; exact h
  · intro vars name v out _ hr ih hac
    exact ih (acyclic_snoc hac (fun hc => by
      have := (reachesVar_iff _ _).mpr hc
      rw [hr hfx] at this; exact absurd this (by simp)))

/-- two revisions of the pair loop agree on an accepted list whenever the final table passes the
check of the second one -/
theorem parseVarsPairs_agree (fx fx' : Fixes) (fuel : Nat) :
    ∀ (xs : List SExpr) (vars out : Vars), parseVarsPairs fx fuel xs vars = .ok (.ok out) →
      (fx'.varCycle = true → Acyclic out) → parseVarsPairs fx' fuel xs vars = .ok (.ok out) := by
  intro xs
  induction hn : xs.length using Nat.strongRecOn generalizing xs with
  | _ n ih =>
    intro vars out h hac
    match xs, hn with
    | [], _ =>
      simp [parseVarsPairs, pure, Except.pure] at h ⊢
      exact h
    | [x], _ => exact absurd h parseVarsPairs_single
    | nameE :: valE :: rest, hn =>
      obtain ⟨name, sp, v, rfl, hv, hl, _, hrest⟩ := parseVarsPairs_ok_cons h
      have ih' := ih rest.length (by simp at hn; omega) rest rfl _ _ hrest hac
      rw [parseVarsPairs_cons2]
      simp only [hv, hl, Option.isSome_none, Bool.false_eq_true, if_false]
      have hno : (fx'.varCycle && reachesVar (vars ++ [(name, v)]) name ((vars ++ [(name, v)]).length + 1) [name] []) = false := by
        cases hc : fx'.varCycle with
        | false => rfl
        | true =>
          cases hr : reachesVar (vars ++ [(name, v)]) name ((vars ++ [(name, v)]).length + 1) [name] [] with
          | false => rfl
          | true =>
            obtain ⟨more, hm⟩ := parseVarsPairs_grows fx fuel rest _ _ hrest
            have := ((reachesVar_iff _ _).mp hr).append more
            rw [← hm] at this
            exact absurd this (hac hc name)
      rw [hno]
      exact ih'

/-! ## 6. `parse_vars` over the `defvar` items -/

theorem parseVars_cons (fx : Fixes) (fuel : Nat) (item : List SExpr) (items : List (List SExpr)) (vars : Vars) :
    parseVars fx fuel (item :: items) vars =
      match checkFirstExpr "defvar" item with
      | .error d => .ok (.error d)
      | .ok sub =>
        match parseVarsPairs fx fuel sub vars with
        | .error c => .error c
        | .ok (.error d) => .ok (.error d)
        | .ok (.ok vars') => parseVars fx fuel items vars' := by
  conv => lhs; unfold parseVars
  cases checkFirstExpr "defvar" item with
  | error d => rfl
  | ok sub =>
    simp only [bind, Except.bind, pure, Except.pure]
    cases parseVarsPairs fx fuel sub vars with
    | error c => rfl
    | ok r => cases r <;> rfl

theorem parseVars_ok_cons {fx : Fixes} {fuel : Nat} {item : List SExpr} {items : List (List SExpr)}
    {vars out : Vars} (h : parseVars fx fuel (item :: items) vars = .ok (.ok out)) :
    ∃ sub mid, checkFirstExpr "defvar" item = .ok sub ∧ parseVarsPairs fx fuel sub vars = .ok (.ok mid) ∧
      parseVars fx fuel items mid = .ok (.ok out) := by
  rw [parseVars_cons] at h
  cases hc : checkFirstExpr "defvar" item with
  | error d => simp [hc] at h
  | ok sub =>
    simp only [hc] at h
    cases hp : parseVarsPairs fx fuel sub vars with
    | error c => simp [hp] at h
    | ok r =>
      cases r with
      | error d => simp [hp] at h
      | ok mid => simp only [hp] at h; exact ⟨sub, mid, rfl, hp, h⟩

theorem parseVars_grows (fx : Fixes) (fuel : Nat) : ∀ (items : List (List SExpr)) (vars out : Vars),
    parseVars fx fuel items vars = .ok (.ok out) → ∃ more, out = vars ++ more := by
  intro items
  induction items with
  | nil => intro vars out h; simp [parseVars, pure, Except.pure] at h; exact ⟨[], by simp [h]⟩
  | cons item items ih =>
    intro vars out h
    obtain ⟨sub, mid, _, hp, hrest⟩ := parseVars_ok_cons h
    obtain ⟨m1, h1⟩ := parseVarsPairs_grows fx fuel sub vars mid hp
    obtain ⟨m2, h2⟩ := ih mid out hrest
    exact ⟨m1 ++ m2, by rw [h2, h1, List.append_assoc]⟩

theorem parseVars_acyclic (fx : Fixes) (hfx : fx.varCycle = true) (fuel : Nat) :
    ∀ (items : List (List SExpr)) (vars out : Vars),
      parseVars fx fuel items vars = .ok (.ok out) → Acyclic vars → Acyclic out := by
  intro items
  induction items with
  | nil => intro vars out h hac; simp [parseVars, pure, Except.pure] at h; exact h ▸ hac
  | cons item items ih =>
    intro vars out h hac
    obtain ⟨sub, mid, _, hp, hrest⟩ := parseVars_ok_cons h
    exact ih mid out hrest (parseVarsPairs_acyclic fx hfx fuel sub vars mid hp hac)

theorem parseVars_agree (fx fx' : Fixes) (fuel : Nat) :
    ∀ (items : List (List SExpr)) (vars out : Vars), parseVars fx fuel items vars = .ok (.ok out) →
      (fx'.varCycle = true → Acyclic out) → parseVars fx' fuel items vars = .ok (.ok out) := by
  intro items
  induction items with
  | nil => intro vars out h _; simp [parseVars, pure, Except.pure] at h ⊢; exact h
  | cons item items ih =>
    intro vars out h hac
    obtain ⟨sub, mid, hc, hp, hrest⟩ := parseVars_ok_cons h
    obtain ⟨more, hm⟩ := parseVars_grows fx fuel items mid out hrest
    have hp' := parseVarsPairs_agree fx fx' fuel sub vars mid hp
      (fun hx => (hm ▸ hac hx : Acyclic (mid ++ more)).of_append)
    rw [parseVars_cons]
    simp only [hc, hp']
    exact ih mid out hrest hac

/-! ## 7. depth of the reference graph of an acyclic table -/

theorem acyclic_fuel_induction_aux {vars : Vars} (hac : Acyclic vars) (P : Nat → Bytes → Prop)
    (h : ∀ d n, Defined vars n → (∀ m, Edge vars n m → ∃ d', d = d' + 1 ∧ P d' m) → P d n) :
    ∀ (d : Nat) (seen : List Bytes) (n : Bytes), seen.Nodup → (∀ s ∈ seen, Reaches vars s n) →
      Defined vars n → vars.length ≤ d + seen.length + 1 → P d n := by
  intro d
  induction d with
  | zero =>
    intro seen n hnd hre hn hlen
    apply h 0 n hn
    intro m e
    exfalso
    have hn1 : n ∉ seen := fun hx => hac n (hre n hx)
    have hm1 : m ∉ n :: seen := by
      intro hx
      rcases List.mem_cons.mp hx with rfl | hx'
      · exact hac _ (.one e)
      · exact hac m ((hre m hx').snoc e)
    have hnd' : (m :: n :: seen).Nodup := List.nodup_cons.mpr ⟨hm1, List.nodup_cons.mpr ⟨hn1, hnd⟩⟩
    have := nodup_keys_length vars (m :: n :: seen) hnd' (by
      intro x hx
      rcases List.mem_cons.mp hx with rfl | hx
      · exact e.defined_right
      · rcases List.mem_cons.mp hx with rfl | hx
        · exact hn
        · exact (hre x hx).defined_left)
    simp only [List.length_cons] at this
    omega
  | succ d ih =>
    intro seen n hnd hre hn hlen
    apply h (d + 1) n hn
    intro m e
    have hn1 : n ∉ seen := fun hx => hac n (hre n hx)
    refine ⟨d, rfl, ih (n :: seen) m (List.nodup_cons.mpr ⟨hn1, hnd⟩) ?_ e.defined_right (by simp only [List.length_cons]; omega)⟩
    intro s hs
    rcases List.mem_cons.mp hs with rfl | hs'
    · exact .one e
    · exact (hre s hs').snoc e

/-- **induction along the references of an acyclic table, with a depth budget**: a property of
(budget, variable) that holds for a variable whenever it holds with a budget one smaller for every
variable it refers to (and that asks for no budget when there is nothing to refer to) holds for
every variable with budget `vars.length - 1` — a chain of references never revisits a variable, so
it is shorter than the table. -/
theorem acyclic_fuel_induction {vars : Vars} (hac : Acyclic vars) (P : Nat → Bytes → Prop)
    (h : ∀ d n, Defined vars n → (∀ m, Edge vars n m → ∃ d', d = d' + 1 ∧ P d' m) → P d n)
    (d : Nat) (n : Bytes) (hn : Defined vars n) (hd : vars.length ≤ d + 1) : P d n :=
  acyclic_fuel_induction_aux hac P h d [] n (by simp) (by simp) hn (by simpa using hd)

theorem defined_length_pos {vars : Vars} {n : Bytes} (h : Defined vars n) : 0 < vars.length := by
  cases vars with
  | nil => simp [Defined, List.lookup] at h
  | cons _ _ => simp

/-- the values of an acyclic table resolve (`SExpr::atom(vars)`, `SExpr::list(vars)`) with a
recursion depth below the number of variables -/
theorem value_resolves {vars : Vars} (hac : Acyclic vars) (d : Nat) (n : Bytes) (hn : Defined vars n)
    (hd : vars.length ≤ d + 1) :
    ∀ v, vars.lookup n = some v → ∀ f, d ≤ f →
      (∃ r, v.atomV f (some vars) = .ok r) ∧ (∃ r, v.listV f (some vars) = .ok r) := by
  refine acyclic_fuel_induction hac
    (fun d n => ∀ v, vars.lookup n = some v → ∀ f, d ≤ f →
      (∃ r, v.atomV f (some vars) = .ok r) ∧ (∃ r, v.listV f (some vars) = .ok r)) ?_ d n hn hd
  intro d n _ hstep v hv f hf
  cases v with
  | list xs sp => exact ⟨⟨none, by simp [SExpr.atomV]⟩, ⟨some xs, by simp [SExpr.listV]⟩⟩
  | atom t sp =>
    cases hs : stripDollar t with
    | none => unfold SExpr.atomV SExpr.listV; simp [hs]
    | some m =>
      cases hl : vars.lookup m with
      | none => unfold SExpr.atomV SExpr.listV; simp [hs, hl]
      | some v' =>
        have e : Edge vars n m := edge_iff.mpr ⟨_, hv, by simp [SExpr.refs, hs], by simp [Defined, hl]⟩
        obtain ⟨d', rfl, hP⟩ := hstep m e
        obtain ⟨f', rfl⟩ : ∃ f', f = f' + 1 := ⟨f - 1, by omega⟩
        unfold SExpr.atomV SExpr.listV
        simp only [hs, hl]
        exact hP v' hl f' (by omega)

/-- every expression resolves against an acyclic table with recursion depth `vars.length` -/
theorem resolves_of_acyclic {vars : Vars} (hac : Acyclic vars) (e : SExpr) (f : Nat) (hf : vars.length ≤ f) :
    (∃ r, e.atomV f (some vars) = .ok r) ∧ (∃ r, e.listV f (some vars) = .ok r) := by
  cases e with
  | list xs sp => exact ⟨⟨none, by simp [SExpr.atomV]⟩, ⟨some xs, by simp [SExpr.listV]⟩⟩
  | atom t sp =>
    cases hs : stripDollar t with
    | none => unfold SExpr.atomV SExpr.listV; simp [hs]
    | some m =>
      cases hl : vars.lookup m with
      | none => unfold SExpr.atomV SExpr.listV; simp [hs, hl]
      | some v' =>
        have hm : Defined vars m := by simp [Defined, hl]
        have := defined_length_pos hm
        obtain ⟨f', rfl⟩ : ∃ f', f = f' + 1 := ⟨f - 1, by omega⟩
        unfold SExpr.atomV SExpr.listV
        simp only [hs, hl]
        exact value_resolves hac (vars.length - 1) m hm (by omega) v' hl f' (by omega)

/-! ## 8. the complete expansion -/

mutual
theorem expandW_total (hop : SExpr → Except Crash SExpr) (vars : Vars) :
    ∀ e : SExpr, (∀ m ∈ e.refs, ∀ v, vars.lookup m = some v → ∃ r, hop v = .ok r) →
      ∃ r, e.expandW hop vars = .ok r
  | .atom t sp, h => by
    unfold SExpr.expandW
    cases hs : stripDollar t with
    | none => exact ⟨_, rfl⟩
    | some m =>
      cases hl : vars.lookup m with
      | none => exact ⟨.atom t sp, by simp only [hl]⟩
      | some v => simpa only [hl] using h m (by simp [SExpr.refs, hs]) v hl
  | .list xs sp, h => by
    obtain ⟨ys, hy⟩ := expandWL_total hop vars xs (by simpa [SExpr.refs] using h)
    exact ⟨.list ys sp, by simp [SExpr.expandW, hy]⟩
theorem expandWL_total (hop : SExpr → Except Crash SExpr) (vars : Vars) :
    ∀ xs : List SExpr, (∀ m ∈ SExpr.refsList xs, ∀ v, vars.lookup m = some v → ∃ r, hop v = .ok r) →
      ∃ r, SExpr.expandWL hop vars xs = .ok r
  | [], _ => ⟨[], rfl⟩
  | x :: r, h => by
    obtain ⟨a, ha⟩ := expandW_total hop vars x (fun m hm => h m (by simp [SExpr.refsList, hm]))
    obtain ⟨b, hb⟩ := expandWL_total hop vars r (fun m hm => h m (by simp [SExpr.refsList, hm]))
    exact ⟨a :: b, by simp [SExpr.expandWL, ha, hb]⟩
end

/-- the values of an acyclic table expand completely with a hop budget below the number of variables -/
theorem value_expands {vars : Vars} (hac : Acyclic vars) (d : Nat) (n : Bytes) (hn : Defined vars n)
    (hd : vars.length ≤ d + 1) :
    ∀ v, vars.lookup n = some v → ∀ f, d ≤ f → ∃ r, v.expand f vars = .ok r := by
  refine acyclic_fuel_induction hac
    (fun d n => ∀ v, vars.lookup n = some v → ∀ f, d ≤ f → ∃ r, v.expand f vars = .ok r) ?_ d n hn hd
  intro d n _ hstep v hv f hf
  have key : ∀ m ∈ v.refs, ∀ v', vars.lookup m = some v' → ∃ d', d = d' + 1 ∧
      ∀ f, d' ≤ f → ∃ r, v'.expand f vars = .ok r := by
    intro m hm v' hl
    obtain ⟨d', hd', hP⟩ := hstep m (edge_iff.mpr ⟨v, hv, hm, by simp [Defined, hl]⟩)
    exact ⟨d', hd', hP v' hl⟩
  cases f with
  | zero =>
    unfold SExpr.expand
    apply expandW_total
    intro m hm v' hl
    obtain ⟨d', hd', _⟩ := key m hm v' hl
    omega
  | succ f =>
    unfold SExpr.expand
    apply expandW_total
    intro m hm v' hl
    obtain ⟨d', hd', hP⟩ := key m hm v' hl
    exact hP f (by omega)

/-- every expression expands completely against an acyclic table with a hop budget of `vars.length` -/
theorem expands_of_acyclic {vars : Vars} (hac : Acyclic vars) (e : SExpr) (f : Nat) (hf : vars.length ≤ f) :
    ∃ r, e.expand f vars = .ok r := by
  have key : ∀ m ∈ e.refs, ∀ v, vars.lookup m = some v → ∀ f', vars.length ≤ f' + 1 → ∃ r, v.expand f' vars = .ok r := by
    intro m _ v hl f' hf'
    have hm : Defined vars m := by simp [Defined, hl]
    exact value_expands hac (vars.length - 1) m hm (by omega) v hl f' (by omega)
  cases f with
  | zero =>
    unfold SExpr.expand
    apply expandW_total
    intro m hm v hl
    have : Defined vars m := by simp [Defined, hl]
    have := defined_length_pos this
    omega
  | succ f =>
    unfold SExpr.expand
    apply expandW_total
    intro m hm v hl
    exact key m hm v hl f (by omega)

mutual
theorem expandW_no_refs (hop : SExpr → Except Crash SExpr) (vars : Vars)
    (hh : ∀ v r, hop v = .ok r → ∀ m ∈ r.refs, ¬ Defined vars m) :
    ∀ (e r : SExpr), e.expandW hop vars = .ok r → ∀ m ∈ r.refs, ¬ Defined vars m
  | .atom t sp, r, h => by
    unfold SExpr.expandW at h
    cases hs : stripDollar t with
    | none =>
      simp only [hs] at h; cases h
      simp [SExpr.refs, hs]
    | some n =>
      cases hl : vars.lookup n with
      | none =>
        simp only [hs, hl] at h; cases h
        intro m hm; simp [SExpr.refs, hs] at hm; subst hm
        simp [Defined, hl]
      | some v =>
        simp only [hs, hl] at h
        exact hh v r h
  | .list xs sp, r, h => by
    unfold SExpr.expandW at h
    cases hy : SExpr.expandWL hop vars xs with
    | error c => simp [hy] at h
    | ok ys =>
      simp only [hy] at h; cases h
      simpa [SExpr.refs] using expandWL_no_refs hop vars hh xs ys hy
theorem expandWL_no_refs (hop : SExpr → Except Crash SExpr) (vars : Vars)
    (hh : ∀ v r, hop v = .ok r → ∀ m ∈ r.refs, ¬ Defined vars m) :
    ∀ (xs rs : List SExpr), SExpr.expandWL hop vars xs = .ok rs → ∀ m ∈ SExpr.refsList rs, ¬ Defined vars m
  | [], rs, h => by
    simp [SExpr.expandWL] at h; subst h; simp [SExpr.refsList]
  | x :: r, rs, h => by
    unfold SExpr.expandWL at h
    cases ha : x.expandW hop vars with
    | error c => simp [ha] at h
    | ok a =>
      cases hb : SExpr.expandWL hop vars r with
      | error c => simp [ha, hb] at h
      | ok b =>
        simp only [ha, hb] at h; cases h
        intro m hm
        simp only [SExpr.refsList, List.mem_append] at hm
        rcases hm with hm | hm
        · exact expandW_no_refs hop vars hh x a ha m hm
        · exact expandWL_no_refs hop vars hh r b hb m hm
end

/-- what `expand` returns mentions no defined variable any more -/
theorem expand_no_refs (vars : Vars) : ∀ (f : Nat) (e r : SExpr), e.expand f vars = .ok r →
    ∀ m ∈ r.refs, ¬ Defined vars m := by
  intro f
  induction f with
  | zero =>
    intro e r h
    unfold SExpr.expand at h
    exact expandW_no_refs _ vars (by intro v r h; simp at h) e r h
  | succ f ih =>
    intro e r h
    unfold SExpr.expand at h
    exact expandW_no_refs _ vars (fun v r h => ih v r h) e r h

/-! ## 9. `concat` inside `parse_vars`: `push_all_atoms` over an acyclic table returns -/

/-- what one element contributes to `push_all_atoms` -/
def elemAtoms (fuel : Nat) (vars : Vars) (e : SExpr) : Except Crash Bytes :=
  match e.atomV (fuel + 1) (some vars) with
  | .error c => .error c
  | .ok (some a) => .ok (trimAtomQuotes a)
  | .ok none =>
    match e.listV (fuel + 1) (some vars) with
    | .error c => .error c
    | .ok (some l) => pushAllAtoms fuel vars l
    | .ok none => .ok []

theorem pushAllAtoms_cons (fuel : Nat) (vars : Vars) (e : SExpr) (rest : List SExpr) :
    pushAllAtoms (fuel + 1) vars (e :: rest) =
      match elemAtoms fuel vars e with
      | .error c => .error c
      | .ok a =>
        match pushAllAtoms fuel vars rest with
        | .error c => .error c
        | .ok b => .ok (a ++ b) := by
  conv => lhs; unfold pushAllAtoms
  unfold elemAtoms
  simp only [bind, Except.bind, pure, Except.pure]
  cases e.atomV (fuel + 1) (some vars) with
  | error c => rfl
  | ok r =>
    cases r with
    | some a => simp only []; cases pushAllAtoms fuel vars rest <;> rfl
    | none =>
      simp only []
      cases e.listV (fuel + 1) (some vars) with
      | error c => rfl
      | ok r2 =>
        cases r2 with
        | some l => simp only []; cases pushAllAtoms fuel vars l <;> cases pushAllAtoms fuel vars rest <;> rfl
        | none => simp only []; cases pushAllAtoms fuel vars rest <;> rfl

theorem pushAllAtoms_nil (fuel : Nat) (vars : Vars) : pushAllAtoms fuel vars [] = .ok [] := by
  cases fuel <;> rfl

theorem atomV_mono (vars : Vars) : ∀ (f : Nat) (e : SExpr) (r : Option Bytes),
    e.atomV f (some vars) = .ok r → ∀ f', f ≤ f' → e.atomV f' (some vars) = .ok r := by
  intro f
  induction f with
  | zero =>
    intro e r h f' _
    cases e with
    | list xs sp => simpa [SExpr.atomV] using h
    | atom t sp =>
      unfold SExpr.atomV at h ⊢
      cases hs : stripDollar t with
      | none => simpa [hs] using h
      | some m =>
        cases hl : vars.lookup m with
        | none => simpa [hs, hl] using h
        | some v => simp [hs, hl] at h
  | succ f ih =>
    intro e r h f' hf
    cases e with
    | list xs sp => simpa [SExpr.atomV] using h
    | atom t sp =>
      unfold SExpr.atomV at h ⊢
      cases hs : stripDollar t with
      | none => simpa [hs] using h
      | some m =>
        cases hl : vars.lookup m with
        | none => simpa [hs, hl] using h
        | some v =>
          obtain ⟨f'', rfl⟩ : ∃ f'', f' = f'' + 1 := ⟨f' - 1, by omega⟩
          simp only [hs, hl] at h ⊢
          exact ih v r h f'' (by omega)

theorem listV_mono (vars : Vars) : ∀ (f : Nat) (e : SExpr) (r : Option (List SExpr)),
    e.listV f (some vars) = .ok r → ∀ f', f ≤ f' → e.listV f' (some vars) = .ok r := by
  intro f
  induction f with
  | zero =>
    intro e r h f' _
    cases e with
    | list xs sp => simpa [SExpr.listV] using h
    | atom t sp =>
      unfold SExpr.listV at h ⊢
      cases hs : stripDollar t with
      | none => simpa [hs] using h
      | some m =>
        cases hl : vars.lookup m with
        | none => simpa [hs, hl] using h
        | some v => simp [hs, hl] at h
  | succ f ih =>
    intro e r h f' hf
    cases e with
    | list xs sp => simpa [SExpr.listV] using h
    | atom t sp =>
      unfold SExpr.listV at h ⊢
      cases hs : stripDollar t with
      | none => simpa [hs] using h
      | some m =>
        cases hl : vars.lookup m with
        | none => simpa [hs, hl] using h
        | some v =>
          obtain ⟨f'', rfl⟩ : ∃ f'', f' = f'' + 1 := ⟨f' - 1, by omega⟩
          simp only [hs, hl] at h ⊢
          exact ih v r h f'' (by omega)

theorem pushAllAtoms_mono (vars : Vars) : ∀ (f : Nat) (xs : List SExpr) (r : Bytes),
    pushAllAtoms f vars xs = .ok r → ∀ f', f ≤ f' → pushAllAtoms f' vars xs = .ok r := by
  intro f
  induction f with
  | zero =>
    intro xs r h f' _
    cases xs with
    | nil => rw [pushAllAtoms_nil] at h ⊢; exact h
    | cons e rest => simp [pushAllAtoms] at h
  | succ f ih =>
    intro xs r h f' hf
    cases xs with
    | nil => rw [pushAllAtoms_nil] at h ⊢; exact h
    | cons e rest =>
      obtain ⟨f'', rfl⟩ : ∃ f'', f' = f'' + 1 := ⟨f' - 1, by omega⟩
      have hf'' : f ≤ f'' := by omega
      rw [pushAllAtoms_cons] at h ⊢
      cases ha : elemAtoms f vars e with
      | error c => simp [ha] at h
      | ok a =>
        cases hb : pushAllAtoms f vars rest with
        | error c => simp [ha, hb] at h
        | ok b =>
          simp only [ha, hb] at h
          have ha' : elemAtoms f'' vars e = .ok a := by
            unfold elemAtoms at ha ⊢
            cases h1 : e.atomV (f + 1) (some vars) with
            | error c => simp [h1] at ha
            | ok r1 =>
              rw [atomV_mono vars _ _ _ h1 (f'' + 1) (by omega)]
              cases r1 with
              | some a1 => simpa [h1] using ha
              | none =>
                simp only [h1] at ha ⊢
                cases h2 : e.listV (f + 1) (some vars) with
                | error c => simp [h2] at ha
                | ok r2 =>
                  rw [listV_mono vars _ _ _ h2 (f'' + 1) (by omega)]
                  cases r2 with
                  | none => simpa [h2] using ha
                  | some l =>
                    simp only [h2] at ha ⊢
                    exact ih l a ha f'' hf''
          simp only [ha', ih rest b hb f'' hf'']
          exact h

/-- from some recursion budget on, `push_all_atoms` over `xs` returns -/
def PushTotal (vars : Vars) (xs : List SExpr) : Prop :=
  ∃ F, ∀ f, F ≤ f → ∃ r, pushAllAtoms f vars xs = .ok r

/-- the list that `e` resolves to, if any, can be pushed -/
def ListPushTotal (vars : Vars) (e : SExpr) : Prop :=
  ∀ l, e.listV vars.length (some vars) = .ok (some l) → PushTotal vars l

theorem listV_ref (vars : Vars) {t : Bytes} {sp : Span} {m : Bytes} {v : SExpr} (hs : stripDollar t = some m)
    (hl : vars.lookup m = some v) (f : Nat) :
    (SExpr.atom t sp).listV (f + 1) (some vars) = v.listV f (some vars) := by
  conv => lhs; unfold SExpr.listV
  simp only [hs, hl]

mutual
theorem elemAtoms_total {vars : Vars} (hac : Acyclic vars) :
    ∀ e : SExpr, (∀ m ∈ e.refs, ∀ v, vars.lookup m = some v → ListPushTotal vars v) →
      ∃ F, ∀ f, F ≤ f → ∃ a, elemAtoms f vars e = .ok a
  | .atom t sp, h => by
    obtain ⟨⟨ra, hra⟩, ⟨rl, hrl⟩⟩ := resolves_of_acyclic hac (.atom t sp) vars.length (Nat.le_refl _)
    cases ra with
    | some a =>
      refine ⟨vars.length, fun f hf => ⟨trimAtomQuotes a, ?_⟩⟩
      unfold elemAtoms
      rw [atomV_mono vars _ _ _ hra (f + 1) (by omega)]
    | none =>
      cases rl with
      | none =>
        refine ⟨vars.length, fun f hf => ⟨[], ?_⟩⟩
        unfold elemAtoms
        rw [atomV_mono vars _ _ _ hra (f + 1) (by omega), listV_mono vars _ _ _ hrl (f + 1) (by omega)]
      | some l =>
        have hpl : PushTotal vars l := by
          cases hs : stripDollar t with
          | none => unfold SExpr.listV at hrl; simp [hs] at hrl
          | some m =>
            cases hl : vars.lookup m with
            | none => unfold SExpr.listV at hrl; simp [hs, hl] at hrl
            | some v =>
              have hpos := defined_length_pos (vars := vars) (n := m) (by simp [Defined, hl])
              obtain ⟨k, hk⟩ : ∃ k, vars.length = k + 1 := ⟨vars.length - 1, by omega⟩
              rw [hk, listV_ref vars hs hl] at hrl
              exact h m (by simp [SExpr.refs, hs]) v hl l (listV_mono vars _ _ _ hrl _ (by omega))
        obtain ⟨F, hF⟩ := hpl
        refine ⟨max vars.length F, fun f hf => ?_⟩
        obtain ⟨r, hr⟩ := hF f (by omega)
        refine ⟨r, ?_⟩
        unfold elemAtoms
        rw [atomV_mono vars _ _ _ hra (f + 1) (by omega), listV_mono vars _ _ _ hrl (f + 1) (by omega)]
        exact hr
  | .list xs sp, h => by
    obtain ⟨F, hF⟩ := pushAllAtoms_total hac xs (by simpa [SExpr.refs] using h)
    refine ⟨F, fun f hf => ?_⟩
    obtain ⟨r, hr⟩ := hF f hf
    exact ⟨r, by simp [elemAtoms, SExpr.atomV, SExpr.listV, hr]⟩
theorem pushAllAtoms_total {vars : Vars} (hac : Acyclic vars) :
    ∀ xs : List SExpr, (∀ m ∈ SExpr.refsList xs, ∀ v, vars.lookup m = some v → ListPushTotal vars v) →
      PushTotal vars xs
  | [], _ => ⟨0, fun f _ => ⟨[], pushAllAtoms_nil f vars⟩⟩
  | x :: r, h => by
    obtain ⟨F1, h1⟩ := elemAtoms_total hac x (fun m hm => h m (by simp [SExpr.refsList, hm]))
    obtain ⟨F2, h2⟩ := pushAllAtoms_total hac r (fun m hm => h m (by simp [SExpr.refsList, hm]))
    refine ⟨max F1 F2 + 1, fun f hf => ?_⟩
    obtain ⟨f', rfl⟩ : ∃ f', f = f' + 1 := ⟨f - 1, by omega⟩
    obtain ⟨a, ha⟩ := h1 f' (by omega)
    obtain ⟨b, hb⟩ := h2 f' (by omega)
    exact ⟨a ++ b, by rw [pushAllAtoms_cons]; simp only [ha, hb]⟩
end

/-- the value of every variable of an acyclic table resolves to a list that can be pushed -/
theorem value_listPushTotal {vars : Vars} (hac : Acyclic vars) (n : Bytes) (hn : Defined vars n) :
    ∀ v, vars.lookup n = some v → ListPushTotal vars v := by
  refine acyclic_fuel_induction hac (fun _ n => ∀ v, vars.lookup n = some v → ListPushTotal vars v) ?_
    (vars.length - 1) n hn (by omega)
  intro d n _ hstep v hv
  cases v with
  | list xs sp =>
    intro l hl
    simp [SExpr.listV] at hl
    subst hl
    apply pushAllAtoms_total hac
    intro m hm v' hl'
    obtain ⟨_, _, hP⟩ := hstep m (edge_iff.mpr ⟨_, hv, by simpa [SExpr.refs] using hm, by simp [Defined, hl']⟩)
    exact hP v' hl'
  | atom t sp =>
    intro l hl
    cases hs : stripDollar t with
    | none => unfold SExpr.listV at hl; simp [hs] at hl
    | some m =>
      cases hm : vars.lookup m with
      | none => unfold SExpr.listV at hl; simp [hs, hm] at hl
      | some v' =>
        have hpos := defined_length_pos hn
        obtain ⟨k, hk⟩ : ∃ k, vars.length = k + 1 := ⟨vars.length - 1, by omega⟩
        obtain ⟨_, _, hP⟩ := hstep m (edge_iff.mpr ⟨_, hv, by simp [SExpr.refs, hs], by simp [Defined, hm]⟩)
        rw [hk, listV_ref vars hs hm] at hl
        exact hP v' hm l (listV_mono vars _ _ _ hl _ (by omega))

/-- `push_all_atoms` over any expressions returns when the table is acyclic -/
theorem pushAllAtoms_total_of_acyclic {vars : Vars} (hac : Acyclic vars) (xs : List SExpr) : PushTotal vars xs :=
  pushAllAtoms_total hac xs (fun m _ v hl => value_listPushTotal hac m (by simp [Defined, hl]) v hl)

theorem parseListVar_atom (f : Nat) (vars : Vars) (t : Bytes) (s : Span) (rest : List SExpr) (sp : Span) :
    parseListVar f vars (.atom t s :: rest) sp =
      if t = kw "concat" then
        match pushAllAtoms f vars rest with
        | .error c => .error c
        | .ok str => .ok (.atom str sp)
      else .ok (.list (.atom t s :: rest) sp) := by
  unfold parseListVar
  simp only [bind, Except.bind, pure, Except.pure]
  split
  · cases pushAllAtoms f vars rest <;> rfl
  · rfl

theorem evalValue_list (f : Nat) (vars : Vars) (xs : List SExpr) (sp : Span) :
    evalValue f vars (.list xs sp) = parseListVar f vars xs sp := rfl

theorem evalValue_mono (vars : Vars) (f : Nat) (e r : SExpr) (h : evalValue f vars e = .ok r) (f' : Nat)
    (hf : f ≤ f') : evalValue f' vars e = .ok r := by
  cases e with
  | atom t sp => exact h
  | list xs sp =>
    rw [evalValue_list] at h ⊢
    match xs, h with
    | [], h => exact h
    | .list _ _ :: _, h => exact h
    | .atom t s :: rest, h =>
      rw [parseListVar_atom] at h ⊢
      by_cases hk : t = kw "concat"
      · rw [if_pos hk] at h ⊢
        cases hp : pushAllAtoms f vars rest with
        | error c => simp [hp] at h
        | ok b => rw [pushAllAtoms_mono vars f rest b hp f' hf]; simpa [hp] using h
      · rw [if_neg hk] at h ⊢; exact h

theorem evalValue_total {vars : Vars} (hac : Acyclic vars) (e : SExpr) :
    ∃ F, ∀ f, F ≤ f → ∃ r, evalValue f vars e = .ok r := by
  cases e with
  | atom t sp => exact ⟨0, fun f _ => ⟨_, rfl⟩⟩
  | list xs sp =>
    simp only [evalValue_list]
    match xs with
    | [] => exact ⟨0, fun f _ => ⟨_, rfl⟩⟩
    | .list _ _ :: _ => exact ⟨0, fun f _ => ⟨_, rfl⟩⟩
    | .atom t s :: rest =>
      obtain ⟨F, hF⟩ := pushAllAtoms_total_of_acyclic hac rest
      refine ⟨F, fun f hf => ?_⟩
      obtain ⟨b, hb⟩ := hF f hf
      rw [parseListVar_atom]
      by_cases hk : t = kw "concat"
      · rw [if_pos hk]; exact ⟨.atom b sp, by simp only [hb]⟩
      · rw [if_neg hk]; exact ⟨_, rfl⟩

/-! ## 10. `parse_vars` returns -/

theorem parseVarsPairs_nil (fx : Fixes) (f : Nat) (vars : Vars) : parseVarsPairs fx f [] vars = .ok (.ok vars) := by
  unfold parseVarsPairs; rfl

theorem parseVarsPairs_list (fx : Fixes) (f : Nat) (xs : List SExpr) (sp : Span) (valE : SExpr) (rest : List SExpr)
    (vars : Vars) : parseVarsPairs fx f (.list xs sp :: valE :: rest) vars =
      .ok (.error ⟨some sp, "variable name must not be a list"⟩) := by
  unfold parseVarsPairs; rfl

theorem parseVarsPairs_one (fx : Fixes) (f f' : Nat) (x : SExpr) (vars : Vars) :
    parseVarsPairs fx f [x] vars = parseVarsPairs fx f' [x] vars := by
  unfold parseVarsPairs; rfl

theorem parseVarsPairs_one_ok (fx : Fixes) (f : Nat) (x : SExpr) (vars : Vars) :
    ∃ r, parseVarsPairs fx f [x] vars = .ok r := by
  unfold parseVarsPairs; cases x <;> exact ⟨_, rfl⟩

theorem parseVarsPairs_mono (fx : Fixes) (f f' : Nat) (hf : f ≤ f') :
    ∀ (xs : List SExpr) (vars : Vars) (r : Except Diag Vars),
      parseVarsPairs fx f xs vars = .ok r → parseVarsPairs fx f' xs vars = .ok r := by
  intro xs
  induction hn : xs.length using Nat.strongRecOn generalizing xs with
  | _ n ih =>
    intro vars r h
    match xs, hn with
    | [], _ => rw [parseVarsPairs_nil] at h ⊢; exact h
    | [x], _ => rw [parseVarsPairs_one fx f' f]; exact h
    | .list ys sp :: valE :: rest, _ => rw [parseVarsPairs_list] at h ⊢; exact h
    | .atom name sp :: valE :: rest, hn =>
      rw [parseVarsPairs_cons2] at h ⊢
      cases hv : evalValue f vars valE with
      | error c => simp [hv] at h
      | ok v =>
        rw [evalValue_mono vars f valE v hv f' hf]
        simp only [hv] at h ⊢
        by_cases h1 : (vars.lookup name).isSome = true
        · rw [if_pos h1] at h ⊢; exact h
        · rw [if_neg h1] at h ⊢
          by_cases h2 : (fx.varCycle && reachesVar (vars ++ [(name, v)]) name ((vars ++ [(name, v)]).length + 1) [name] []) = true
          · rw [if_pos h2] at h ⊢; exact h
          · rw [if_neg h2] at h ⊢
            exact ih rest.length (by simp at hn; omega) rest rfl _ _ h

/-- **the pair loop of the repaired `parse_vars` returns**: started on an acyclic table, no
recursion inside it (the resolution of `$name`, `push_all_atoms` for `concat`) is unbounded -/
theorem parseVarsPairs_total (fx : Fixes) (hfx : fx.varCycle = true) :
    ∀ (xs : List SExpr) (vars : Vars), Acyclic vars →
      ∃ F, ∀ f, F ≤ f → ∃ r, parseVarsPairs fx f xs vars = .ok r := by
  intro xs
  induction hn : xs.length using Nat.strongRecOn generalizing xs with
  | _ n ih =>
    intro vars hac
    match xs, hn with
    | [], _ => exact ⟨0, fun f _ => ⟨_, parseVarsPairs_nil fx f vars⟩⟩
    | [x], _ => exact ⟨0, fun f _ => parseVarsPairs_one_ok fx f x vars⟩
    | .list ys sp :: valE :: rest, _ => exact ⟨0, fun f _ => ⟨_, parseVarsPairs_list fx f ys sp valE rest vars⟩⟩
    | .atom name sp :: valE :: rest, hn =>
      obtain ⟨F1, h1⟩ := evalValue_total hac valE
      obtain ⟨v, hv⟩ := h1 F1 (Nat.le_refl _)
      by_cases hd : (vars.lookup name).isSome = true
      · refine ⟨F1, fun f hf => ?_⟩
        rw [parseVarsPairs_cons2, evalValue_mono vars F1 valE v hv f hf]
        simp only [if_pos hd]
        exact ⟨_, rfl⟩
      · by_cases h2 : (fx.varCycle && reachesVar (vars ++ [(name, v)]) name ((vars ++ [(name, v)]).length + 1) [name] []) = true
        · refine ⟨F1, fun f hf => ?_⟩
          rw [parseVarsPairs_cons2, evalValue_mono vars F1 valE v hv f hf]
          simp only [if_neg hd, if_pos h2]
          exact ⟨_, rfl⟩
        · have hac' : Acyclic (vars ++ [(name, v)]) := by
            apply acyclic_snoc hac
            intro hc
            have := (reachesVar_iff _ _).mpr hc
            rw [hfx, this] at h2
            exact h2 rfl
          obtain ⟨F2, hF2⟩ := ih rest.length (by simp at hn; omega) rest rfl _ hac'
          refine ⟨max F1 F2, fun f hf => ?_⟩
          rw [parseVarsPairs_cons2, evalValue_mono vars F1 valE v hv f (by omega)]
          simp only [if_neg hd, if_neg h2]
          exact hF2 f (by omega)

theorem parseVars_nil (fx : Fixes) (f : Nat) (vars : Vars) : parseVars fx f [] vars = .ok (.ok vars) := by
  unfold parseVars; rfl

theorem parseVars_mono (fx : Fixes) (f f' : Nat) (hf : f ≤ f') :
    ∀ (items : List (List SExpr)) (vars : Vars) (r : Except Diag Vars),
      parseVars fx f items vars = .ok r → parseVars fx f' items vars = .ok r := by
  intro items
  induction items with
  | nil => intro vars r h; rw [parseVars_nil] at h ⊢; exact h
  | cons item items ih =>
    intro vars r h
    rw [parseVars_cons] at h ⊢
    cases hc : checkFirstExpr "defvar" item with
    | error d => simpa [hc] using h
    | ok sub =>
      simp only [hc] at h ⊢
      cases hp : parseVarsPairs fx f sub vars with
      | error c => simp [hp] at h
      | ok r1 =>
        rw [parseVarsPairs_mono fx f f' hf sub vars r1 hp]
        cases r1 with
        | error d => simpa [hp] using h
        | ok mid => simp only [hp] at h ⊢; exact ih mid r h

/-- **the repaired `parse_vars` returns** (on the model): for every list of `defvar` items there is
a recursion budget from which on the outcome is a table or a diagnostic, never a crash -/
theorem parseVars_total (fx : Fixes) (hfx : fx.varCycle = true) :
    ∀ (items : List (List SExpr)) (vars : Vars), Acyclic vars →
      ∃ F, ∀ f, F ≤ f → ∃ r, parseVars fx f items vars = .ok r := by
  intro items
  induction items with
  | nil => intro vars _; exact ⟨0, fun f _ => ⟨_, parseVars_nil fx f vars⟩⟩
  | cons item items ih =>
    intro vars hac
    cases hc : checkFirstExpr "defvar" item with
    | error d => exact ⟨0, fun f _ => ⟨.error d, by rw [parseVars_cons]; simp only [hc]⟩⟩
    | ok sub =>
      obtain ⟨F1, h1⟩ := parseVarsPairs_total fx hfx sub vars hac
      obtain ⟨r1, hr1⟩ := h1 F1 (Nat.le_refl _)
      cases r1 with
      | error d =>
        refine ⟨F1, fun f hf => ⟨.error d, ?_⟩⟩
        rw [parseVars_cons]
        simp only [hc, parseVarsPairs_mono fx F1 f hf sub vars _ hr1]
      | ok mid =>
        have hac' := parseVarsPairs_acyclic fx hfx F1 sub vars mid hr1 hac
        obtain ⟨F2, h2⟩ := ih mid hac'
        refine ⟨max F1 F2, fun f hf => ?_⟩
        rw [parseVars_cons]
        simp only [hc, parseVarsPairs_mono fx F1 f (by omega) sub vars _ hr1]
        exact h2 f (by omega)

/-! ## 11. the check loop by loop (`walkValue`, `checkLoop`) gives the verdict of `reachesVar` -/

/-- what the inner loop of the check does with the references `refs` of the values it walks -/
def WalkSpec (vars : Vars) (t : Bytes) (refs : List Bytes) (st : ChkSt) (out : Option ChkSt) : Prop :=
  (out = none ∧ t ∈ refs ∧ Defined vars t) ∨
  (∃ new, out = some ⟨new ++ st.pending, new ++ st.visited⟩ ∧ new.Nodup ∧
    (∀ x, x ∈ new ↔ (x ∈ refs ∧ Defined vars x ∧ x ∉ st.visited)) ∧ ¬ (t ∈ refs ∧ Defined vars t))

mutual
theorem walkValue_spec (vars : Vars) (t : Bytes) : ∀ (e : SExpr) (st : ChkSt),
    WalkSpec vars t e.refs st (walkValue vars t e st)
  | .atom a sp, st => by
    unfold walkValue SExpr.refs
    cases hs : stripDollar a with
    | none => exact Or.inr ⟨[], by simp⟩
    | some n =>
      simp only []
      by_cases hd : (vars.lookup n).isSome = true
      · rw [if_pos hd]
        by_cases hn : n = t
        · rw [if_pos hn]; subst hn; exact Or.inl ⟨rfl, by simp, hd⟩
        · rw [if_neg hn]
          by_cases hv : st.visited.contains n = true
          · rw [if_pos hv]
            have hv' := List.contains_iff_mem.mp hv
            refine Or.inr ⟨[], by simp, by simp, ?_, ?_⟩
            · intro x; simp; intro hx; subst hx; intro _; exact hv'
            · intro ⟨h1, _⟩; simp at h1; exact hn h1.symm
          · rw [if_neg hv]
            have hv' : n ∉ st.visited := fun h => hv (List.contains_iff_mem.mpr h)
            refine Or.inr ⟨[n], by simp, by simp, ?_, ?_⟩
            · intro x; simp; intro hx; subst hx; exact ⟨hd, hv'⟩
            · intro ⟨h1, _⟩; simp at h1; exact hn h1.symm
      · rw [if_neg hd]
        refine Or.inr ⟨[], by simp, by simp, ?_, ?_⟩
        · intro x; simp; intro hx; subst hx; intro h; exact absurd h hd
        · intro ⟨h1, h2⟩; simp at h1; subst h1; exact hd h2
  | .list xs sp, st => by
    unfold walkValue SExpr.refs
    exact walkValuesRev_spec vars t xs st
theorem walkValuesRev_spec (vars : Vars) (t : Bytes) : ∀ (xs : List SExpr) (st : ChkSt),
    WalkSpec vars t (SExpr.refsList xs) st (walkValuesRev vars t xs st)
  | [], st => by
    unfold walkValuesRev SExpr.refsList
    exact Or.inr ⟨[], by simp⟩
  | x :: r, st => by
    unfold walkValuesRev SExpr.refsList
    rcases walkValuesRev_spec vars t r st with ⟨h0, h1, h2⟩ | ⟨nr, h0, hnd, hmem, hnt⟩
    · rw [h0]; exact Or.inl ⟨rfl, List.mem_append_right _ h1, h2⟩
    · rw [h0]
      simp only []
      rcases walkValue_spec vars t x ⟨nr ++ st.pending, nr ++ st.visited⟩ with ⟨g0, g1, g2⟩ | ⟨nx, g0, gnd, gmem, gnt⟩
      · rw [g0]; exact Or.inl ⟨rfl, List.mem_append_left _ g1, g2⟩
      · rw [g0]
        refine Or.inr ⟨nx ++ nr, by simp [List.append_assoc], ?_, ?_, ?_⟩
        · rw [List.nodup_append]
          refine ⟨gnd, hnd, ?_⟩
          intro a ha b hb hab
          subst hab
          have := ((gmem a).mp ha).2.2
          exact this (List.mem_append_left _ hb)
        · intro y
          simp only [List.mem_append]
          constructor
          · rintro (hy | hy)
            · have := (gmem y).mp hy
              exact ⟨Or.inl this.1, this.2.1, fun h => this.2.2 (List.mem_append_right _ h)⟩
            · have := (hmem y).mp hy
              exact ⟨Or.inr this.1, this.2.1, this.2.2⟩
          · rintro ⟨hy | hy, hd, hv⟩
            · by_cases hr : y ∈ nr
              · exact Or.inr hr
              · exact Or.inl ((gmem y).mpr ⟨hy, hd, fun h => by
                  rcases List.mem_append.mp h with h | h
                  · exact hr h
                  · exact hv h⟩)
            · exact Or.inr ((hmem y).mpr ⟨hy, hd, hv⟩)
        · intro ⟨h1, h2⟩
          rcases List.mem_append.mp h1 with h1 | h1
          · exact gnt ⟨h1, h2⟩
          · exact hnt ⟨h1, h2⟩
end

theorem checkLoop_nil (vars : Vars) (t : Bytes) (fuel : Nat) (visited : List Bytes) :
    checkLoop vars t fuel [] visited = .pass := by
  cases fuel <;> rfl

theorem checkLoop_succ (vars : Vars) (t : Bytes) (fuel : Nat) (name : Bytes) (pending visited : List Bytes)
    (v : SExpr) (hv : vars.lookup name = some v) :
    checkLoop vars t (fuel + 1) (name :: pending) visited =
      match walkValue vars t v ⟨pending, visited⟩ with
      | none => .bail
      | some st => checkLoop vars t fuel st.pending st.visited := by
  conv => lhs; unfold checkLoop
  simp only [hv]
  cases walkValue vars t v ⟨pending, visited⟩ <;> rfl

theorem mem_varSuccs {vars : Vars} {name : Bytes} {v : SExpr} (hv : vars.lookup name = some v) {x : Bytes} :
    x ∈ varSuccs vars name ↔ x ∈ v.refs ∧ Defined vars x := by
  unfold varSuccs Defined
  simp [hv, List.mem_filter]

/-- the outer loop, with enough fuel and only keys on the work list, ends in `bail` with a queued
name that reaches the target, or in `pass` with a closed set without an edge into the target -/
theorem checkLoop_spec (vars : Vars) (t : Bytes) : ∀ (fuel : Nat) (pending visited done : List Bytes),
    pending.length + unvisited vars visited ≤ fuel →
    (∀ p ∈ pending, Defined vars p) →
    (∀ q ∈ done, ∀ m ∈ varSuccs vars q, m ≠ t ∧ (m ∈ done ∨ m ∈ pending)) →
    (∀ m ∈ visited, m ∈ done ∨ m ∈ pending) →
    (checkLoop vars t fuel pending visited = .bail ∧ ∃ p ∈ pending, Reaches vars p t) ∨
    (checkLoop vars t fuel pending visited = .pass ∧
      ∃ D : List Bytes, (∀ x, x ∈ done ∨ x ∈ pending → x ∈ D) ∧
        ∀ q ∈ D, ∀ m ∈ varSuccs vars q, m ≠ t ∧ m ∈ D) := by
  intro fuel
  induction fuel with
  | zero =>
    intro pending visited done hf _ hD _
    have : pending = [] := List.eq_nil_of_length_eq_zero (by omega)
    subst this
    refine Or.inr ⟨checkLoop_nil _ _ _ _, done, ?_, ?_⟩
    · intro x hx; simpa using hx
    · intro q hq m hm; simpa using hD q hq m hm
  | succ fuel ih =>
    intro pending visited done hf hP hD hV
    cases pending with
    | nil =>
      refine Or.inr ⟨checkLoop_nil _ _ _ _, done, ?_, ?_⟩
      · intro x hx; simpa using hx
      · intro q hq m hm; simpa using hD q hq m hm
    | cons name pending =>
      have hdn := hP name List.mem_cons_self
      obtain ⟨v, hv⟩ : ∃ v, vars.lookup name = some v := by
        unfold Defined at hdn
        cases h : vars.lookup name with
        | none => simp [h] at hdn
        | some v => exact ⟨v, rfl⟩
      rw [checkLoop_succ vars t fuel name pending visited v hv]
      rcases walkValue_spec vars t v ⟨pending, visited⟩ with ⟨h0, h1, h2⟩ | ⟨new, h0, hnd, hmem, hnt⟩
      · rw [h0]
        exact Or.inl ⟨rfl, name, List.mem_cons_self, .one ((mem_varSuccs hv).mpr ⟨h1, h2⟩)⟩
      · rw [h0]
        simp only []
        have hmem' : ∀ x, x ∈ new ↔ x ∈ varSuccs vars name ∧ x ∉ visited := by
          intro x
          rw [hmem x, mem_varSuccs hv]
          exact ⟨fun ⟨a, b, c⟩ => ⟨⟨a, b⟩, c⟩, fun ⟨⟨a, b⟩, c⟩ => ⟨a, b, c⟩⟩
        have hnt' : t ∉ varSuccs vars name := fun h => hnt ((mem_varSuccs hv).mp h)
        have hcnt := unvisited_append vars visited new hnd
          (fun x hx => ⟨Edge.defined_right ((hmem' x).mp hx).1, ((hmem' x).mp hx).2⟩)
        rcases ih (new ++ pending) (new ++ visited) (name :: done)
          (by simp only [List.length_append, List.length_cons] at hf ⊢; omega)
          (by
            intro p hp
            rcases List.mem_append.mp hp with h | h
            · exact Edge.defined_right ((hmem' p).mp h).1
            · exact hP p (List.mem_cons_of_mem _ h))
          (by
            intro q hq m hm
            rcases List.mem_cons.mp hq with rfl | hq'
            · refine ⟨fun e => hnt' (e ▸ hm), ?_⟩
              by_cases hvis : m ∈ visited
              · rcases hV m hvis with h1 | h1
                · exact Or.inl (List.mem_cons_of_mem _ h1)
                · rcases List.mem_cons.mp h1 with rfl | h2
                  · exact Or.inl List.mem_cons_self
                  · exact Or.inr (List.mem_append_right _ h2)
              · exact Or.inr (List.mem_append_left _ ((hmem' m).mpr ⟨hm, hvis⟩))
            · obtain ⟨h1, h2⟩ := hD q hq' m hm
              refine ⟨h1, ?_⟩
              rcases h2 with h2 | h2
              · exact Or.inl (List.mem_cons_of_mem _ h2)
              · rcases List.mem_cons.mp h2 with rfl | h3
                · exact Or.inl List.mem_cons_self
                · exact Or.inr (List.mem_append_right _ h3))
          (by
            intro m hm
            rcases List.mem_append.mp hm with h1 | h1
            · exact Or.inr (List.mem_append_left _ h1)
            · rcases hV m h1 with h2 | h2
              · exact Or.inl (List.mem_cons_of_mem _ h2)
              · rcases List.mem_cons.mp h2 with rfl | h3
                · exact Or.inl List.mem_cons_self
                · exact Or.inr (List.mem_append_right _ h3))
          with ⟨hb, p, hp, hr⟩ | ⟨hps, D, hD1, hD2⟩
        · refine Or.inl ⟨hb, ?_⟩
          rcases List.mem_append.mp hp with h | h
          · exact ⟨name, List.mem_cons_self, .step ((hmem' p).mp h).1 hr⟩
          · exact ⟨p, List.mem_cons_of_mem _ h, hr⟩
        · refine Or.inr ⟨hps, D, ?_, hD2⟩
          intro x hx
          rcases hx with hx | hx
          · exact hD1 x (Or.inl (List.mem_cons_of_mem _ hx))
          · rcases List.mem_cons.mp hx with rfl | hx'
            · exact hD1 _ (Or.inl List.mem_cons_self)
            · exact hD1 x (Or.inr (List.mem_append_right _ hx'))

/-- **the check as written in `parse_vars`**, for a variable that is in the table: it ends in
`bail` or in `pass` (the `vars[name]` index cannot panic and the outer loop finishes within
`vars.length + 1` rounds), and it bails exactly when the variable reaches itself -/
theorem selfRefCheck_spec (vars : Vars) (name : Bytes) (hn : Defined vars name) :
    (selfRefCheck vars name = .bail ∧ Reaches vars name name) ∨
    (selfRefCheck vars name = .pass ∧ ¬ Reaches vars name name) := by
  unfold selfRefCheck
  rcases checkLoop_spec vars name (vars.length + 1) [name] [] []
    (by rw [unvisited_nil]; simp; omega) (by simpa using hn) (by simp) (by simp)
    with ⟨hb, p, hp, hr⟩ | ⟨hps, D, hD1, hD2⟩
  · simp at hp; subst hp; exact Or.inl ⟨hb, hr⟩
  · exact Or.inr ⟨hps, closed_no_reach D hD2 (hD1 name (Or.inr List.mem_cons_self))⟩

/-- the loop-by-loop check and the search used by the model of `parse_vars` give the same verdict -/
theorem selfRefCheck_eq_reachesVar (vars : Vars) (name : Bytes) (hn : Defined vars name) :
    selfRefCheck vars name =
      if reachesVar vars name (vars.length + 1) [name] [] then .bail else .pass := by
  rcases selfRefCheck_spec vars name hn with ⟨h1, h2⟩ | ⟨h1, h2⟩
  · rw [h1, (reachesVar_iff vars name).mpr h2]; rfl
  · rw [h1]
    cases hr : reachesVar vars name (vars.length + 1) [name] [] with
    | false => rfl
    | true => exact absurd ((reachesVar_iff vars name).mp hr) h2

end KVerif.SExpr
