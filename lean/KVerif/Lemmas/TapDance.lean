/-
C17 helper lemmas, part 1: the queue functions of `WaitingState::handle_tap_dance`
(`evict_same_coord_events`, the tap-counting `try_fold`) and the `TapDance` arm of `tick_wt`.
-/
import KVerif.Model.Layout
namespace KVerif.C17
open KVerif.L

/-! ## Vocabulary -/

/-- a queued press of the dance key -/
def isPr (w : Waiting) (s : Queued) : Bool := isCorrespondingPress w s.ev
/-- a queued release of the dance key -/
def isRel (w : Waiting) (s : Queued) : Bool := isCorrespondingRelease w s.ev
/-- a queued press of another key -/
def otherPress (w : Waiting) (s : Queued) : Bool := s.ev.isPress && !isPr w s
/-- an event of another coordinate -/
def otherCoord (w : Waiting) (s : Queued) : Bool := s.ev.coord != w.coord

def nPr (w : Waiting) (q : List Queued) : Nat := (q.filter (isPr w)).length
def nRel (w : Waiting) (q : List Queued) : Nat := (q.filter (isRel w)).length

theorem isPr_iff (w : Waiting) (s : Queued) : isPr w s = true ↔ s.ev = .press w.coord := by
  simp [isPr, isCorrespondingPress]

theorem isRel_iff (w : Waiting) (s : Queued) : isRel w s = true ↔ s.ev = .release w.coord := by
  simp [isRel, isCorrespondingRelease]

theorem not_isPr_and_isRel (w : Waiting) (s : Queued) : ¬ (isPr w s = true ∧ isRel w s = true) := by
  rw [isPr_iff, isRel_iff]
  rintro ⟨h1, h2⟩
  rw [h1] at h2
  cases h2

/-- an event is of another coordinate iff it is neither the key's press nor its release -/
theorem otherCoord_iff (w : Waiting) (s : Queued) :
    otherCoord w s = true ↔ isPr w s = false ∧ isRel w s = false := by
  unfold otherCoord isPr isRel isCorrespondingPress isCorrespondingRelease
  cases h : s.ev with
  | press c => simp [Ev.coord]
  | release c => simp [Ev.coord]

theorem otherPress_not_isPr {w : Waiting} {s : Queued} (h : otherPress w s = true) : isPr w s = false := by
  unfold otherPress at h
  cases hp : isPr w s <;> simp_all

theorem otherPress_isPress {w : Waiting} {s : Queued} (h : otherPress w s = true) : s.ev.isPress = true := by
  unfold otherPress at h
  simp_all

theorem isPr_isPress {w : Waiting} {s : Queued} (h : isPr w s = true) : s.ev.isPress = true := by
  rw [isPr_iff] at h
  rw [h]; rfl

theorem isRel_not_isPress {w : Waiting} {s : Queued} (h : isRel w s = true) : s.ev.isPress = false := by
  rw [isRel_iff] at h
  rw [h]; rfl

/-- the three functions only look at the coordinate of the waiting state -/
theorem evict_coord_congr {w w' : Waiting} (h : w'.coord = w.coord) (k : Nat) (q : List Queued) :
    evictSameCoord w' k q = evictSameCoord w k q := by
  induction q generalizing k with
  | nil => rfl
  | cons s rest ih =>
    simp only [evictSameCoord, isCorrespondingRelease, isCorrespondingPress, h, ih]
    rfl

theorem countTaps_coord_congr {w w' : Waiting} (h : w'.coord = w.coord) (n : Nat) (q : List Queued) :
    countTaps w' n q = countTaps w n q := by
  induction q generalizing n with
  | nil => rfl
  | cons s rest ih =>
    simp only [countTaps, isCorrespondingPress, h, ih]
    rfl

/-! ## The eviction -/

/-- unfolded once, in the vocabulary above -/
theorem evict_cons (w : Waiting) (k : Nat) (s : Queued) (rest : List Queued) :
    evictSameCoord w k (s :: rest) =
      if isRel w s then
        if k > 0 then evictSameCoord w (k - 1) rest else s :: evictSameCoord w k rest
      else if isPr w s then evictSameCoord w k rest
      else s :: evictSameCoord w k rest := rfl

/-- **events of other coordinates are all kept, in order** -/
theorem evict_others_kept (w : Waiting) (k : Nat) (q : List Queued) :
    (evictSameCoord w k q).filter (otherCoord w) = q.filter (otherCoord w) := by
  induction q generalizing k with
  | nil => rfl
  | cons s rest ih =>
    rw [evict_cons]
    cases hr : isRel w s with
    | true =>
      have ho : otherCoord w s = false := by
        cases h : otherCoord w s with
        | false => rfl
        | true => rw [otherCoord_iff] at h; rw [h.2] at hr; cases hr
      simp only [if_true, List.filter_cons, ho, Bool.false_eq_true, if_false]
      split
      · exact ih _
      · simp only [List.filter_cons, ho, Bool.false_eq_true, if_false]; exact ih _
    | false =>
      cases hp : isPr w s with
      | true =>
        have ho : otherCoord w s = false := by
          cases h : otherCoord w s with
          | false => rfl
          | true => rw [otherCoord_iff] at h; rw [h.1] at hp; cases hp
        simp only [Bool.false_eq_true, if_false, if_true, List.filter_cons, ho]
        exact ih _
      | false =>
        have ho : otherCoord w s = true := (otherCoord_iff w s).mpr ⟨hp, hr⟩
        simp only [Bool.false_eq_true, if_false, List.filter_cons, ho, if_true, ih]

/-- **every press of the key is dropped** (counted or not) -/
theorem evict_no_press (w : Waiting) (k : Nat) (q : List Queued) :
    ∀ s ∈ evictSameCoord w k q, isPr w s = false := by
  induction q generalizing k with
  | nil => intro s hs; cases hs
  | cons x rest ih =>
    rw [evict_cons]
    cases hr : isRel w x with
    | true =>
      simp only [if_true]
      have hx : isPr w x = false := by
        cases h : isPr w x with
        | false => rfl
        | true => exact absurd ⟨h, hr⟩ (not_isPr_and_isRel w x)
      split
      · exact ih _
      · intro s hs
        rcases List.mem_cons.mp hs with rfl | h
        · exact hx
        · exact ih _ s h
    | false =>
      cases hp : isPr w x with
      | true => simp only [Bool.false_eq_true, if_false, if_true]; exact ih _
      | false =>
        simp only [Bool.false_eq_true, if_false]
        intro s hs
        rcases List.mem_cons.mp hs with rfl | h
        · exact hp
        · exact ih _ s h

/-- **the first `k` releases of the key are dropped, the later ones kept** -/
theorem evict_releases (w : Waiting) (k : Nat) (q : List Queued) :
    (evictSameCoord w k q).filter (isRel w) = (q.filter (isRel w)).drop k := by
  induction q generalizing k with
  | nil => simp [evictSameCoord]
  | cons x rest ih =>
    rw [evict_cons]
    cases hr : isRel w x with
    | true =>
      simp only [if_true, List.filter_cons, hr]
      cases k with
      | zero =>
        simp only [Nat.lt_irrefl, if_false, List.filter_cons, hr, if_true, List.drop_zero]
        rw [ih 0]; rfl
      | succ k => simp only [Nat.succ_pos, if_true, Nat.add_sub_cancel, List.drop_succ_cons]; exact ih k
    | false =>
      cases hp : isPr w x with
      | true => simp only [Bool.false_eq_true, if_false, if_true, List.filter_cons, hr]; exact ih k
      | false => simp only [Bool.false_eq_true, if_false, List.filter_cons, hr]; exact ih k

/-- the retained queue is a subsequence of the queue (nothing is reordered or invented) -/
theorem evict_sublist (w : Waiting) (k : Nat) (q : List Queued) :
    (evictSameCoord w k q).Sublist q := by
  induction q generalizing k with
  | nil => exact List.Sublist.slnil
  | cons x rest ih =>
    rw [evict_cons]
    split
    · split
      · exact (ih _).cons _
      · exact (ih _).cons_cons _
    · split
      · exact (ih _).cons _
      · exact (ih _).cons_cons _

/-- how many events of the key survive: no press, and all releases but the first `k` -/
theorem evict_key_events (w : Waiting) (k : Nat) (q : List Queued) :
    nPr w (evictSameCoord w k q) = 0 ∧ nRel w (evictSameCoord w k q) = nRel w q - k := by
  constructor
  · unfold nPr
    rw [List.length_eq_zero_iff, List.filter_eq_nil_iff]
    intro s hs
    simp [evict_no_press w k q s hs]
  · unfold nRel
    rw [evict_releases, List.length_drop]

/-! ### Alternation: on a physically possible history the key's events in the queue alternate,
starting with a release (the press that opened the dance has been taken out of the queue) -/

/-- the key's events in queue order: `true` = press, `false` = release -/
def keyEvs (w : Waiting) : List Queued → List Bool
  | [] => []
  | s :: rest => if isRel w s then false :: keyEvs w rest else if isPr w s then true :: keyEvs w rest else keyEvs w rest

/-- alternating, the next expected being `b` -/
def Alt : Bool → List Bool → Prop
  | _, [] => True
  | b, x :: r => x = b ∧ Alt (!b) r

theorem alt_counts : ∀ (l : List Bool) (b : Bool), Alt b l →
    (b = false → l.count true ≤ l.count false ∧ l.count false ≤ l.count true + 1) ∧
    (b = true → l.count false ≤ l.count true ∧ l.count true ≤ l.count false + 1)
  | [], _, _ => by simp
  | x :: r, b, h => by
    obtain ⟨hx, hr⟩ := h
    have ih := alt_counts r (!b) hr
    subst hx
    cases x with
    | false =>
      have := ih.2 rfl
      refine ⟨fun _ => ?_, fun h => nomatch h⟩
      simp only [List.count_cons, beq_self_eq_true, if_true]
      simp
      omega
    | true =>
      have := ih.1 rfl
      refine ⟨(fun h => nomatch h), fun _ => ?_⟩
      simp only [List.count_cons, beq_self_eq_true, if_true]
      simp
      omega

theorem keyEvs_counts (w : Waiting) (q : List Queued) :
    (keyEvs w q).count true = nPr w q ∧ (keyEvs w q).count false = nRel w q := by
  induction q with
  | nil => exact ⟨rfl, rfl⟩
  | cons s rest ih =>
    unfold nPr nRel at *
    simp only [keyEvs, List.filter_cons]
    cases hr : isRel w s with
    | true =>
      have hp : isPr w s = false := by
        cases h : isPr w s with
        | false => rfl
        | true => exact absurd ⟨h, hr⟩ (not_isPr_and_isRel w s)
      simp [hp, ih.1, ih.2]
    | false =>
      cases hp : isPr w s <;> simp [ih.1, ih.2]

/-- **one press, one release**: if the key's queued events alternate starting with a release and all
its queued presses were counted (`k` = their number = taps − 1), then of all the key's events the
retained queue holds exactly the LAST release if the key has been released after its last press,
and nothing if it is still held -/
theorem evict_leaves_last_release (w : Waiting) (q : List Queued) (halt : Alt false (keyEvs w q)) :
    nPr w (evictSameCoord w (nPr w q) q) = 0 ∧
    (evictSameCoord w (nPr w q) q).filter (isRel w) = (q.filter (isRel w)).drop (nPr w q) ∧
    ((nRel w q = nPr w q ∧ nRel w (evictSameCoord w (nPr w q) q) = 0) ∨
     (nRel w q = nPr w q + 1 ∧ nRel w (evictSameCoord w (nPr w q) q) = 1 ∧
      (evictSameCoord w (nPr w q) q).filter (isRel w) = ((q.filter (isRel w)).getLast?).toList)) := by
  have hc := (alt_counts _ false halt).1 rfl
  rw [(keyEvs_counts w q).1, (keyEvs_counts w q).2] at hc
  have he := evict_key_events w (nPr w q) q
  refine ⟨he.1, evict_releases w _ q, ?_⟩
  by_cases h : nRel w q = nPr w q
  · left; exact ⟨h, by rw [he.2]; omega⟩
  · right
    have h1 : nRel w q = nPr w q + 1 := by omega
    refine ⟨h1, by rw [he.2]; omega, ?_⟩
    rw [evict_releases]
    have hl : (q.filter (isRel w)).length = nPr w q + 1 := h1
    generalize q.filter (isRel w) = l at hl
    generalize nPr w q = n at hl
    induction l generalizing n with
    | nil => cases hl
    | cons a t ih =>
      cases n with
      | zero =>
        have : t = [] := by
          cases t with
          | nil => rfl
          | cons _ _ => simp at hl
        subst this; rfl
      | succ n =>
        simp only [List.drop_succ_cons]
        rw [ih n (by simpa using hl)]
        cases t with
        | nil => simp at hl
        | cons b t' => simp [List.getLast?_cons_cons]

/-! ## Counting taps -/

theorem countTaps_cons (w : Waiting) (n : Nat) (s : Queued) (rest : List Queued) :
    countTaps w n (s :: rest) =
      if isPr w s then countTaps w (n + 1) rest
      else if s.ev.isPress then .error n
      else countTaps w n rest := rfl

/-- **closed form of the tap count**: `.error` exactly when another key's press is queued, and the
count is the start value plus the presses of the key queued before that press (all of them if there
is none); releases — of any key — never end or change the count -/
theorem countTaps_eq (w : Waiting) (n : Nat) (q : List Queued) :
    countTaps w n q =
      if q.any (otherPress w) then .error (n + nPr w (q.takeWhile (fun s => !otherPress w s)))
      else .ok (n + nPr w q) := by
  induction q generalizing n with
  | nil => simp [countTaps, nPr]
  | cons s rest ih =>
    rw [countTaps_cons]
    cases hp : isPr w s with
    | true =>
      have ho : otherPress w s = false := by simp [otherPress, hp]
      simp only [if_true, List.any_cons, ho, Bool.false_or, List.takeWhile_cons, Bool.not_false, nPr,
        List.filter_cons, hp, List.length_cons]
      rw [ih (n + 1)]
      unfold nPr
      split <;> (congr 1; omega)
    | false =>
      cases hi : s.ev.isPress with
      | true =>
        have ho : otherPress w s = true := by simp [otherPress, hp, hi]
        simp [ho, nPr]
      | false =>
        have ho : otherPress w s = false := by simp [otherPress, hi]
        simp only [Bool.false_eq_true, if_false, List.any_cons, ho, Bool.false_or, List.takeWhile_cons,
          Bool.not_false, if_true, nPr, List.filter_cons, hp]
        rw [ih n]
        rfl

theorem countTaps_error_iff (w : Waiting) (n : Nat) (q : List Queued) :
    (∃ m, countTaps w n q = .error m) ↔ ∃ s ∈ q, otherPress w s = true := by
  rw [countTaps_eq]
  constructor
  · rintro ⟨m, h⟩
    split at h
    · rename_i ha; simpa using ha
    · cases h
  · intro h
    have : q.any (otherPress w) = true := by simpa using h
    simp [this]

/-- releases never end or change the count: dropping every release from the queue gives the same answer -/
theorem countTaps_ignores_releases (w : Waiting) (n : Nat) (q : List Queued) :
    countTaps w n (q.filter (·.ev.isPress)) = countTaps w n q := by
  induction q generalizing n with
  | nil => rfl
  | cons s rest ih =>
    cases hi : s.ev.isPress with
    | true =>
      simp only [List.filter_cons, hi, if_true, countTaps_cons, ih]
    | false =>
      have hp : isPr w s = false := by
        cases h : isPr w s with
        | false => rfl
        | true => rw [isPr_isPress h] at hi; cases hi
      simp only [List.filter_cons, hi, Bool.false_eq_true, if_false, countTaps_cons, hp, ih]

/-! ## `handle_tap_dance` and the `TapDance` arm of `tick_wt` -/

/-- taps the queue shows: 1 + the presses of the key queued before the first press of another key -/
def seenTaps (w : Waiting) (q : List Queued) : Nat := 1 + nPr w (q.takeWhile (fun s => !otherPress w s))
/-- a press of another key is queued -/
def interrupted (w : Waiting) (q : List Queued) : Bool := q.any (otherPress w)

theorem takeWhile_all {α} {p : α → Bool} : ∀ {l : List α}, (∀ x ∈ l, p x = true) → l.takeWhile p = l
  | [], _ => rfl
  | x :: r, h => by
    rw [List.takeWhile_cons, h x (by simp), if_pos rfl, takeWhile_all (fun y hy => h y (by simp [hy]))]

theorem countTaps_one (w : Waiting) (q : List Queued) :
    countTaps w 1 q = if interrupted w q then .error (seenTaps w q) else .ok (seenTaps w q) := by
  rw [countTaps_eq]
  unfold interrupted seenTaps
  split
  · rfl
  · rename_i h
    have : q.takeWhile (fun s => !otherPress w s) = q := by
      apply takeWhile_all
      intro s hs
      have := List.any_eq_false.mp (by simpa using h) s hs
      simpa using this
    rw [this]

theorem seenTaps_not_interrupted {w : Waiting} {q : List Queued} (h : interrupted w q = false) :
    seenTaps w q = 1 + nPr w q := by
  unfold seenTaps
  have : q.takeWhile (fun s => !otherPress w s) = q := by
    apply takeWhile_all
    intro s hs
    have := List.any_eq_false.mp h s hs
    simpa using this
  rw [this]

/-- **`handle_tap_dance`, in closed form**: nothing happens while the queue length is unchanged and
the countdown has not ended; at the end of the countdown the dance is decided with the count
recorded EARLIER (`k`), without looking at the queue again; otherwise it is decided with the count
the queue shows iff another key's press is queued or the count has reached the list length. -/
theorem handleTapDance_spec (w : Waiting) (k len : Nat) (q : List Queued) :
    handleTapDance w k len q =
      if q.length % 256 == w.prevQueueLen && w.timeout > 0 then (q, none, k)
      else if w.timeout == 0 then (evictSameCoord w (k - 1) q, some .tap, k)
      else if interrupted w q || decide (seenTaps w q ≥ len) then
        (evictSameCoord w (seenTaps w q - 1) q, some .tap, seenTaps w q)
      else (q, none, seenTaps w q) := by
  unfold handleTapDance
  split
  · rfl
  · split
    · rfl
    · rw [countTaps_one]
      cases hi : interrupted w q with
      | true => simp
      | false =>
        simp only [Bool.false_eq_true, if_false, Bool.false_or, decide_eq_true_eq]

theorem tdPick_some {acts : List Action} (h : acts ≠ []) (n : Nat) : ∃ a, tdPick acts n = some a ∧ a ∈ acts := by
  unfold tdPick
  have hl : 0 < acts.length := List.length_pos_iff.mpr h
  have hi : min n acts.length - 1 < acts.length := by omega
  exact ⟨acts[min n acts.length - 1], List.getElem?_eq_getElem hi, List.getElem_mem hi⟩

theorem tdPick_none_iff (acts : List Action) (n : Nat) : tdPick acts n = none ↔ acts = [] := by
  constructor
  · intro h
    cases acts with
    | nil => rfl
    | cons a t =>
      obtain ⟨x, hx, _⟩ := tdPick_some (acts := a :: t) (by simp) n
      rw [hx] at h; cases h
  · rintro rfl; rfl

/-- the N-th listed action for `1 ≤ N ≤ len` -/
theorem tdPick_nth (acts : List Action) (n : Nat) (h2 : n ≤ acts.length) :
    tdPick acts n = acts[n - 1]? := by
  unfold tdPick
  rw [Nat.min_eq_left h2]

/-- the last listed action once `N` reaches the list length -/
theorem tdPick_last (acts : List Action) (n : Nat) (h : acts.length ≤ n) :
    tdPick acts n = acts.getLast? := by
  unfold tdPick
  rw [Nat.min_eq_right h, List.getLast?_eq_getElem?]

/-- the countdown step at the top of `tick_wt` -/
def cd (w : Waiting) : Waiting := { w with timeout := w.timeout - 1, ticks := min (w.ticks + 1) U16_MAX }

theorem tickWt_td (w : Waiting) (acts : List Action) (T k : Nat) (hc : w.config = .tapDance acts T k)
    (q : List Queued) (aq : ActionQueue) :
    tickWt w q aq =
      match tickWtTd (cd w) acts T k q with
      | .error c => .error c
      | .ok (w', q', r) => .ok (w', q', aq, r.map (·, none)) := by
  cases w with
  | mk coord timeout delay ticks hold tap ta config ls pql =>
    simp only at hc
    subst hc
    rfl

/-- what one tick of a pending lazy tap-dance can be -/
inductive TdStep (w : Waiting) (acts : List Action) (T k : Nat) (q : List Queued) :
    Except Crash (Waiting × List Queued × Option WAct) → Prop
  /-- queue length unchanged, countdown not over: only the countdown moved -/
  | idle : (q.length % 256 == w.prevQueueLen) = true → 0 < w.timeout →
      TdStep w acts T k q (.ok ({ w with prevQueueLen := q.length % 256, config := .tapDance acts T k }, q, none))
  /-- the queue shows `n` taps, fewer than the list is long, and no other key: keep waiting; the
  countdown RESTARTS at `T` iff the count grew -/
  | counting (n : Nat) : 0 < w.timeout → interrupted w q = false → n = seenTaps w q → n < acts.length →
      TdStep w acts T k q (.ok ({ w with prevQueueLen := q.length % 256,
                                          timeout := if n > k then T else w.timeout,
                                          config := .tapDance acts T n }, q, none))
  /-- decided on `n` taps: the chosen action is `tdPick acts n`, the first `n − 1` releases and all
  presses of the key leave the queue -/
  | decided (n : Nat) (a : Action) : tdPick acts n = some a →
      TdStep w acts T k q (.ok ({ w with prevQueueLen := (evictSameCoord w (n - 1) q).length % 256, tap := a,
                                          timeout := if n > k then T else w.timeout,
                                          config := .tapDance acts T n }, evictSameCoord w (n - 1) q, some .tap))
  /-- decided, but the list is empty: `tds.actions[0]` panics -/
  | crash : acts = [] → TdStep w acts T k q (.error (.indexOOB "tap-dance actions"))

/-- the cause of a decision and the count it is taken on -/
def decidesOn (w : Waiting) (len k : Nat) (q : List Queued) : Option Nat :=
  if q.length % 256 == w.prevQueueLen && w.timeout > 0 then none
  else if w.timeout == 0 then some k                                     -- the countdown ended
  else if interrupted w q || decide (seenTaps w q ≥ len) then some (seenTaps w q)   -- other key / list exhausted
  else none

/-- **one tick of the `TapDance` arm** (`w` = the state after the countdown step), complete case
analysis: it decides exactly when `decidesOn` says so, on that count, with the action
`tdPick acts n`; it panics exactly when it decides and the list is empty. -/
theorem tickWtTd_cases (w : Waiting) (acts : List Action) (T k : Nat) (q : List Queued) :
    TdStep w acts T k q (tickWtTd w acts T k q) ∧
    (∀ n, decidesOn w acts.length k q = some n →
      (∃ a, tdPick acts n = some a ∧ ∃ w', tickWtTd w acts T k q = .ok (w', evictSameCoord w (n - 1) q, some .tap) ∧ w'.tap = a) ∨
      (acts = [] ∧ tickWtTd w acts T k q = .error (.indexOOB "tap-dance actions"))) ∧
    (decidesOn w acts.length k q = none → ∃ w', tickWtTd w acts T k q = .ok (w', q, none)) := by
  unfold tickWtTd decidesOn
  rw [handleTapDance_spec]
  by_cases h1 : (q.length % 256 == w.prevQueueLen && decide (w.timeout > 0)) = true
  · simp only [h1, if_true]
    refine ⟨?_, (fun n h => nomatch h), fun _ => ⟨_, rfl⟩⟩
    simp only [Bool.and_eq_true, decide_eq_true_eq] at h1
    have : (if k > k then T else w.timeout) = w.timeout := by simp
    rw [this]
    exact TdStep.idle h1.1 h1.2
  · simp only [h1, Bool.false_eq_true, if_false]
    by_cases h2 : (w.timeout == 0) = true
    · simp only [h2, if_true]
      cases hp : tdPick acts k with
      | none =>
        have he := (tdPick_none_iff acts k).mp hp
        exact ⟨TdStep.crash he, fun n hn => by injection hn with hn; subst hn; exact Or.inr ⟨he, rfl⟩, fun h => nomatch h⟩
      | some a =>
        refine ⟨TdStep.decided k a hp, fun n hn => ?_, fun h => nomatch h⟩
        injection hn with hn; subst hn
        exact Or.inl ⟨a, hp, _, rfl, rfl⟩
    · simp only [h2, Bool.false_eq_true, if_false]
      by_cases h3 : (interrupted w q || decide (seenTaps w q ≥ acts.length)) = true
      · simp only [h3, if_true]
        cases hp : tdPick acts (seenTaps w q) with
        | none =>
          have he := (tdPick_none_iff acts _).mp hp
          exact ⟨TdStep.crash he, fun n hn => by injection hn with hn; subst hn; exact Or.inr ⟨he, rfl⟩, fun h => nomatch h⟩
        | some a =>
          refine ⟨TdStep.decided _ a hp, fun n hn => ?_, fun h => nomatch h⟩
          injection hn with hn; subst hn
          exact Or.inl ⟨a, hp, _, rfl, rfl⟩
      · simp only [h3, Bool.false_eq_true, if_false]
        refine ⟨?_, (fun n h => nomatch h), fun _ => ⟨_, rfl⟩⟩
        simp only [Bool.or_eq_true, decide_eq_true_eq, not_or, Nat.not_le] at h3
        have ht : 0 < w.timeout := by
          have : w.timeout ≠ 0 := by simpa using h2
          omega
        exact TdStep.counting (seenTaps w q) ht (by simpa using h3.1) rfl h3.2

/-- the `TapDance` arm never touches anything but the countdown, the count, `tap` and the queue
length memo; while undecided the queue and `tap` are untouched; the only decision is `Tap` -/
theorem tickWtTd_fields {w : Waiting} {acts : List Action} {T k : Nat} {q : List Queued}
    {w' : Waiting} {q' : List Queued} {r : Option WAct} (h : tickWtTd w acts T k q = .ok (w', q', r)) :
    w'.coord = w.coord ∧ w'.delay = w.delay ∧ w'.ticks = w.ticks ∧ w'.hold = w.hold ∧
    w'.timeoutAction = w.timeoutAction ∧ w'.layerStack = w.layerStack ∧
    w'.prevQueueLen = q'.length % 256 ∧ (r = none → w'.tap = w.tap ∧ q' = q) ∧
    (r = none ∨ r = some .tap) ∧ (∃ n, w'.config = .tapDance acts T n) := by
  have hc := (tickWtTd_cases w acts T k q).1
  rw [h] at hc
  cases hc with
  | idle _ _ => exact ⟨rfl, rfl, rfl, rfl, rfl, rfl, rfl, fun _ => ⟨rfl, rfl⟩, Or.inl rfl, _, rfl⟩
  | counting n _ _ _ _ => exact ⟨rfl, rfl, rfl, rfl, rfl, rfl, rfl, fun _ => ⟨rfl, rfl⟩, Or.inl rfl, _, rfl⟩
  | decided n a _ => exact ⟨rfl, rfl, rfl, rfl, rfl, rfl, rfl, (fun h => nomatch h), Or.inr rfl, _, rfl⟩

/-! ## The queue's `since` counters are never read -/

theorem evict_map (w : Waiting) (f : Queued → Queued) (hf : ∀ x, (f x).ev = x.ev) (k : Nat) (q : List Queued) :
    evictSameCoord w k (q.map f) = (evictSameCoord w k q).map f := by
  induction q generalizing k with
  | nil => rfl
  | cons x rest ih =>
    simp only [List.map_cons, evictSameCoord, hf, ih]
    split
    · split <;> simp
    · split <;> simp

theorem countTaps_map (w : Waiting) (f : Queued → Queued) (hf : ∀ x, (f x).ev = x.ev) (n : Nat) (q : List Queued) :
    countTaps w n (q.map f) = countTaps w n q := by
  induction q generalizing n with
  | nil => rfl
  | cons x rest ih => simp only [List.map_cons, countTaps, hf, ih]

/-- the `TapDance` arm commutes with any relabelling of the queue that keeps the events (such as the
ageing of `since` done by `tick`): it decides the same, on the same count, and evicts the same entries -/
theorem tickWtTd_ignores_since (w : Waiting) (acts : List Action) (T k : Nat) (f : Queued → Queued)
    (hf : ∀ x, (f x).ev = x.ev) (q : List Queued) :
    tickWtTd w acts T k (q.map f) =
      match tickWtTd w acts T k q with
      | .error c => .error c
      | .ok (w', q', r) => .ok (w', q'.map f, r) := by
  have hh : handleTapDance w k acts.length (q.map f) =
      ((handleTapDance w k acts.length q).1.map f, (handleTapDance w k acts.length q).2) := by
    unfold handleTapDance
    simp only [List.length_map, countTaps_map w f hf, evict_map w f hf]
    split
    · rfl
    · split
      · rfl
      · split
        · split <;> rfl
        · rfl
  unfold tickWtTd
  rw [hh]
  generalize handleTapDance w k acts.length q = res
  obtain ⟨q', r, n⟩ := res
  cases r with
  | none => simp
  | some r =>
    simp only [List.length_map]
    cases tdPick acts n <;> rfl

end KVerif.C17
