/-
C17 helper lemmas, part 1: the queue functions of `WaitingState::handle_tap_dance`
(`evict_same_coord_events`, the tap-counting `try_fold`) and the `TapDance` arm of `tick_wt`.
-/
import KVerif.Model.Layout
namespace KVerif.C17
open KVerif.L

/-! ## Vocabulary -/

/-- a queued press of the dance key -/
def isPr (w : Waiting) (s : Queued) : Bool := isCorrespondingPress w s.ev
/-- a queued release of the dance key -/
def isRel (w : Waiting) (s : Queued) : Bool := isCorrespondingRelease w s.ev
/-- a queued press of another key -/
def otherPress (w : Waiting) (s : Queued) : Bool := s.ev.isPress && !isPr w s
/-- an event of another coordinate -/
def otherCoord (w : Waiting) (s : Queued) : Bool := s.ev.coord != w.coord

def nPr (w : Waiting) (q : List Queued) : Nat := (q.filter (isPr w)).length
def nRel (w : Waiting) (q : List Queued) : Nat := (q.filter (isRel w)).length

theorem isPr_iff (w : Waiting) (s : Queued) : isPr w s = true ↔ s.ev = .press w.coord := by
  simp [isPr, isCorrespondingPress]

theorem isRel_iff (w : Waiting) (s : Queued) : isRel w s = true ↔ s.ev = .release w.coord := by
  simp [isRel, isCorrespondingRelease]

theorem not_isPr_and_isRel (w : Waiting) (s : Queued) : ¬ (isPr w s = true ∧ isRel w s = true) := by
  rw [isPr_iff, isRel_iff]
  rintro ⟨h1, h2⟩
  rw [h1] at h2
  cases h2

/-- an event is of another coordinate iff it is neither the key's press nor its release -/
theorem otherCoord_iff (w : Waiting) (s : Queued) :
    otherCoord w s = true ↔ isPr w s = false ∧ isRel w s = false := by
  unfold otherCoord isPr isRel isCorrespondingPress isCorrespondingRelease
  cases h : s.ev with
  | press c => simp [Ev.coord]
  | release c => simp [Ev.coord]

theorem otherPress_not_isPr {w : Waiting} {s : Queued} (h : otherPress w s = true) : isPr w s = false := by
  unfold otherPress at h
  cases hp : isPr w s <;> simp_all

theorem otherPress_isPress {w : Waiting} {s : Queued} (h : otherPress w s = true) : s.ev.isPress = true := by
  unfold otherPress at h
  simp_all

theorem isPr_isPress {w : Waiting} {s : Queued} (h : isPr w s = true) : s.ev.isPress = true := by
  rw [isPr_iff] at h
  rw [h]; rfl

theorem isRel_not_isPress {w : Waiting} {s : Queued} (h : isRel w s = true) : s.ev.isPress = false := by
  rw [isRel_iff] at h
  rw [h]; rfl

/-- the three functions only look at the coordinate of the waiting state -/
theorem evict_coord_congr {w w' : Waiting} (h : w'.coord = w.coord) (r p : Nat) (q : List Queued) :
    evictSameCoord w' r p q = evictSameCoord w r p q := by
  induction q generalizing r p with
  | nil => rfl
  | cons s rest ih =>
    simp only [evictSameCoord, isCorrespondingRelease, isCorrespondingPress, h, ih]
    rfl

theorem evictTaps_coord_congr {w w' : Waiting} (h : w'.coord = w.coord) (n : Nat) (q : List Queued) :
    evictTaps w' n q = evictTaps w n q := evict_coord_congr h _ _ q

theorem countTaps_coord_congr {w w' : Waiting} (h : w'.coord = w.coord) (n : Nat) (q : List Queued) :
    countTaps w' n q = countTaps w n q := by
  induction q generalizing n with
  | nil => rfl
  | cons s rest ih =>
    simp only [countTaps, isCorrespondingPress, h, ih]
    rfl

/-! ## The eviction -/

/-- unfolded once, in the vocabulary above (`r` releases, `p` presses of the key still to remove) -/
theorem evict_cons (w : Waiting) (r p : Nat) (s : Queued) (rest : List Queued) :
    evictSameCoord w r p (s :: rest) =
      if isRel w s then
        if r > 0 then evictSameCoord w (r - 1) p rest else s :: evictSameCoord w r p rest
      else if isPr w s && decide (p > 0) then evictSameCoord w r (p - 1) rest
      else s :: evictSameCoord w r p rest := rfl

theorem isPr_false_of_isRel {w : Waiting} {s : Queued} (h : isRel w s = true) : isPr w s = false := by
  cases hp : isPr w s with
  | false => rfl
  | true => exact absurd ⟨hp, h⟩ (not_isPr_and_isRel w s)

theorem otherCoord_false_of_isRel {w : Waiting} {s : Queued} (h : isRel w s = true) : otherCoord w s = false := by
  cases ho : otherCoord w s with
  | false => rfl
  | true => rw [otherCoord_iff] at ho; rw [ho.2] at h; cases h

theorem otherCoord_false_of_isPr {w : Waiting} {s : Queued} (h : isPr w s = true) : otherCoord w s = false := by
  cases ho : otherCoord w s with
  | false => rfl
  | true => rw [otherCoord_iff] at ho; rw [ho.1] at h; cases h

/-- with nothing left to remove the queue is untouched -/
theorem evict_zero (w : Waiting) (q : List Queued) : evictSameCoord w 0 0 q = q := by
  induction q with
  | nil => rfl
  | cons s rest ih =>
    rw [evict_cons]
    simp only [Nat.lt_irrefl, if_false, decide_false, Bool.and_false, Bool.false_eq_true, ih]
    split <;> rfl

/-- a generic description of the eviction as three independent filters: for any predicate that is
constant on the three classes of events -/
theorem evict_filter (w : Waiting) (f : Queued → Bool) (r p : Nat) (q : List Queued) :
    (evictSameCoord w r p q).filter (fun s => f s && otherCoord w s) = q.filter (fun s => f s && otherCoord w s) := by
  induction q generalizing r p with
  | nil => rfl
  | cons s rest ih =>
    rw [evict_cons]
    cases hr : isRel w s with
    | true =>
      have ho := otherCoord_false_of_isRel hr
      simp only [if_true, List.filter_cons, ho, Bool.and_false, Bool.false_eq_true, if_false]
      split
      · exact ih _ _
      · simp only [List.filter_cons, ho, Bool.and_false, Bool.false_eq_true, if_false]; exact ih _ _
    | false =>
      cases hp : isPr w s with
      | true =>
        have ho := otherCoord_false_of_isPr hp
        simp only [Bool.false_eq_true, if_false, Bool.true_and, List.filter_cons, ho, Bool.and_false]
        split
        · exact ih _ _
        · simp only [List.filter_cons, ho, Bool.and_false, Bool.false_eq_true, if_false]; exact ih _ _
      | false =>
        simp only [Bool.false_eq_true, if_false, Bool.false_and, List.filter_cons, ih]

/-- **events of other coordinates are all kept, in order** -/
theorem evict_others_kept (w : Waiting) (r p : Nat) (q : List Queued) :
    (evictSameCoord w r p q).filter (otherCoord w) = q.filter (otherCoord w) := by
  have := evict_filter w (fun _ => true) r p q
  simpa using this

/-- **the first `p` presses of the key are dropped, every later one is kept, in order** -/
theorem evict_presses (w : Waiting) (r p : Nat) (q : List Queued) :
    (evictSameCoord w r p q).filter (isPr w) = (q.filter (isPr w)).drop p := by
  induction q generalizing r p with
  | nil => simp [evictSameCoord]
  | cons x rest ih =>
    rw [evict_cons]
    cases hr : isRel w x with
    | true =>
      have hp := isPr_false_of_isRel hr
      simp only [if_true, List.filter_cons, hp, Bool.false_eq_true, if_false]
      split
      · exact ih _ _
      · simp only [List.filter_cons, hp, Bool.false_eq_true, if_false]; exact ih _ _
    | false =>
      cases hp : isPr w x with
      | true =>
        simp only [Bool.false_eq_true, if_false, Bool.true_and, List.filter_cons, hp, if_true]
        cases p with
        | zero =>
          simp only [Nat.lt_irrefl, decide_false, Bool.false_eq_true, if_false, List.filter_cons, hp, if_true,
            List.drop_zero]
          rw [ih r 0]; rfl
        | succ p => simp only [Nat.succ_pos, decide_true, if_true, Nat.add_sub_cancel, List.drop_succ_cons]; exact ih r p
      | false => simp only [Bool.false_eq_true, if_false, Bool.false_and, List.filter_cons, hp]; exact ih r p

/-- **the first `r` releases of the key are dropped, the later ones kept, in order** -/
theorem evict_releases (w : Waiting) (r p : Nat) (q : List Queued) :
    (evictSameCoord w r p q).filter (isRel w) = (q.filter (isRel w)).drop r := by
  induction q generalizing r p with
  | nil => simp [evictSameCoord]
  | cons x rest ih =>
    rw [evict_cons]
    cases hr : isRel w x with
    | true =>
      simp only [if_true, List.filter_cons, hr]
      cases r with
      | zero =>
        simp only [Nat.lt_irrefl, if_false, List.filter_cons, hr, if_true, List.drop_zero]
        rw [ih 0 p]; rfl
      | succ r => simp only [Nat.succ_pos, if_true, Nat.add_sub_cancel, List.drop_succ_cons]; exact ih r p
    | false =>
      simp only [Bool.false_eq_true, if_false, List.filter_cons, hr]
      split
      · exact ih _ _
      · simp only [List.filter_cons, hr, Bool.false_eq_true, if_false]; exact ih _ _

/-- the retained queue is a subsequence of the queue (nothing is reordered or invented) -/
theorem evict_sublist (w : Waiting) (r p : Nat) (q : List Queued) :
    (evictSameCoord w r p q).Sublist q := by
  induction q generalizing r p with
  | nil => exact List.Sublist.slnil
  | cons x rest ih =>
    rw [evict_cons]
    split
    · split
      · exact (ih _ _).cons _
      · exact (ih _ _).cons_cons _
    · split
      · exact (ih _ _).cons _
      · exact (ih _ _).cons_cons _

/-- how many events of the key survive: all presses but the first `p`, all releases but the first `r` -/
theorem evict_key_events (w : Waiting) (r p : Nat) (q : List Queued) :
    nPr w (evictSameCoord w r p q) = nPr w q - p ∧ nRel w (evictSameCoord w r p q) = nRel w q - r := by
  unfold nPr nRel
  rw [evict_presses, evict_releases, List.length_drop, List.length_drop]
  exact ⟨rfl, rfl⟩

/-- **no press is lost**: a press of the key is missing from the retained queue only if it was one
of the `p` counted ones — the retained queue still holds `nPr q − p` presses of the key -/
theorem evict_keeps_uncounted_presses (w : Waiting) (r p : Nat) (q : List Queued) (h : p < nPr w q) :
    ∃ s ∈ evictSameCoord w r p q, isPr w s = true := by
  have hk := (evict_key_events w r p q).1
  have hpos : 0 < nPr w (evictSameCoord w r p q) := by omega
  unfold nPr at hpos
  obtain ⟨s, hs⟩ := List.exists_mem_of_length_pos hpos
  rw [List.mem_filter] at hs
  exact ⟨s, hs.1, hs.2⟩

/-! ### Alternation: on a physically possible history the key's events in the queue alternate,
starting with a release (the press that opened the dance has been taken out of the queue) -/

/-- the key's events in queue order: `true` = press, `false` = release -/
def keyEvs (w : Waiting) : List Queued → List Bool
  | [] => []
  | s :: rest => if isRel w s then false :: keyEvs w rest else if isPr w s then true :: keyEvs w rest else keyEvs w rest

/-- alternating, the next expected being `b` -/
def Alt : Bool → List Bool → Prop
  | _, [] => True
  | b, x :: r => x = b ∧ Alt (!b) r

theorem alt_counts : ∀ (l : List Bool) (b : Bool), Alt b l →
    (b = false → l.count true ≤ l.count false ∧ l.count false ≤ l.count true + 1) ∧
    (b = true → l.count false ≤ l.count true ∧ l.count true ≤ l.count false + 1)
  | [], _, _ => by simp
  | x :: r, b, h => by
    obtain ⟨hx, hr⟩ := h
    have ih := alt_counts r (!b) hr
    subst hx
    cases x with
    | false =>
      have := ih.2 rfl
      refine ⟨fun _ => ?_, fun h => nomatch h⟩
      simp only [List.count_cons, beq_self_eq_true, if_true]
      simp
      omega
    | true =>
      have := ih.1 rfl
      refine ⟨(fun h => nomatch h), fun _ => ?_⟩
      simp only [List.count_cons, beq_self_eq_true, if_true]
      simp
      omega

theorem keyEvs_counts (w : Waiting) (q : List Queued) :
    (keyEvs w q).count true = nPr w q ∧ (keyEvs w q).count false = nRel w q := by
  induction q with
  | nil => exact ⟨rfl, rfl⟩
  | cons s rest ih =>
    unfold nPr nRel at *
    simp only [keyEvs, List.filter_cons]
    cases hr : isRel w s with
    | true =>
      have hp := isPr_false_of_isRel hr
      simp [hp, ih.1, ih.2]
    | false =>
      cases hp : isPr w s <;> simp [ih.1, ih.2]

theorem keyEvs_cons_other {w : Waiting} {s : Queued} (hr : isRel w s = false) (hp : isPr w s = false)
    (rest : List Queued) : keyEvs w (s :: rest) = keyEvs w rest := by
  simp only [keyEvs, hr, hp, Bool.false_eq_true, if_false]

/-- the key's events after the eviction, on an alternating queue: with `j` taps' worth still to
remove and a release expected next, the first `2j` of the key's events go; with a press expected next
(one release more has been removed than presses) the first `2j + 1` go -/
theorem evict_keyEvs_aux (w : Waiting) : ∀ (q : List Queued) (j : Nat),
    (Alt false (keyEvs w q) → j ≤ nPr w q →
      keyEvs w (evictSameCoord w j j q) = (keyEvs w q).drop (2 * j)) ∧
    (Alt true (keyEvs w q) → j + 1 ≤ nPr w q →
      keyEvs w (evictSameCoord w j (j + 1) q) = (keyEvs w q).drop (2 * j + 1))
  | [], j => by
    constructor
    · intro _ _; simp [evictSameCoord, keyEvs]
    · intro _ h; simp [nPr] at h
  | s :: rest, j => by
    have ih := evict_keyEvs_aux w rest
    cases hr : isRel w s with
    | true =>
      have hp := isPr_false_of_isRel hr
      have hk : keyEvs w (s :: rest) = false :: keyEvs w rest := by simp only [keyEvs, hr, if_true]
      have hn : nPr w (s :: rest) = nPr w rest := by simp [nPr, List.filter_cons, hp]
      constructor
      · intro halt hj
        rw [hk] at halt ⊢
        rw [hn] at hj
        rw [evict_cons]
        simp only [hr, if_true]
        cases j with
        | zero =>
          simp only [Nat.lt_irrefl, if_false, evict_zero, Nat.mul_zero, List.drop_zero, hk]
        | succ i =>
          simp only [Nat.succ_pos, if_true, Nat.add_sub_cancel]
          rw [(ih i).2 halt.2 hj]
          have : 2 * (i + 1) = (2 * i + 1) + 1 := by omega
          rw [this, List.drop_succ_cons]
      · intro halt _
        rw [hk] at halt
        exact absurd halt.1 (by simp)
    | false =>
      cases hp : isPr w s with
      | true =>
        have hk : keyEvs w (s :: rest) = true :: keyEvs w rest := by
          simp only [keyEvs, hr, hp, Bool.false_eq_true, if_false, if_true]
        have hn : nPr w (s :: rest) = nPr w rest + 1 := by simp [nPr, List.filter_cons, hp]
        constructor
        · intro halt _
          rw [hk] at halt
          exact absurd halt.1 (by simp)
        · intro halt hj
          rw [hk] at halt ⊢
          rw [hn] at hj
          rw [evict_cons]
          simp only [hr, Bool.false_eq_true, if_false, hp, Bool.true_and, Nat.succ_pos, decide_true, if_true,
            Nat.add_sub_cancel]
          rw [(ih j).1 halt.2 (by omega), List.drop_succ_cons]
      | false =>
        have hk := keyEvs_cons_other hr hp rest
        have hn : nPr w (s :: rest) = nPr w rest := by simp [nPr, List.filter_cons, hp]
        have hko : ∀ r p, keyEvs w (evictSameCoord w r p (s :: rest)) = keyEvs w (evictSameCoord w r p rest) := by
          intro r p
          rw [evict_cons]
          simp only [hr, hp, Bool.false_eq_true, if_false, Bool.false_and]
          exact keyEvs_cons_other hr hp _
        rw [hk, hn]
        exact ⟨fun h1 h2 => by rw [hko]; exact (ih j).1 h1 h2, fun h1 h2 => by rw [hko]; exact (ih j).2 h1 h2⟩

/-- **one press, one release, and nothing else is touched**: if the key's queued events alternate
release, press, release, … and `j` of its queued presses were counted (`j` = taps − 1), then of the
key's events the retained queue holds exactly those after the first `j` release/press pairs, in
order: first the release that belongs to the LAST counted tap (if the key has been let go), then —
untouched — any later press of the key with its release, … -/
theorem evict_keyEvs (w : Waiting) (q : List Queued) (halt : Alt false (keyEvs w q)) (j : Nat) (hj : j ≤ nPr w q) :
    keyEvs w (evictSameCoord w j j q) = (keyEvs w q).drop (2 * j) :=
  (evict_keyEvs_aux w q j).1 halt hj

theorem alt_drop_two : ∀ (l : List Bool) (b : Bool) (j : Nat), Alt b l → Alt b (l.drop (2 * j))
  | _, _, 0, h => by simpa using h
  | [], _, j + 1, _ => by simp [Alt]
  | [_], _, j + 1, _ => by
    have : 2 * (j + 1) = (2 * j + 1) + 1 := by omega
    rw [this, List.drop_succ_cons]; simp [Alt]
  | x :: y :: r, b, j + 1, h => by
    have : 2 * (j + 1) = (2 * j + 1) + 1 := by omega
    rw [this, List.drop_succ_cons, List.drop_succ_cons]
    have h2 := h.2.2
    simp only [Bool.not_not] at h2
    exact alt_drop_two r b j h2

/-! ### The closure `evict_same_coord_events(num_taps, …)` -/

theorem evictTaps_others_kept (w : Waiting) (n : Nat) (q : List Queued) :
    (evictTaps w n q).filter (otherCoord w) = q.filter (otherCoord w) := evict_others_kept w _ _ q

theorem evictTaps_presses (w : Waiting) (n : Nat) (q : List Queued) :
    (evictTaps w n q).filter (isPr w) = (q.filter (isPr w)).drop (n - 1) := evict_presses w _ _ q

theorem evictTaps_releases (w : Waiting) (n : Nat) (q : List Queued) :
    (evictTaps w n q).filter (isRel w) = (q.filter (isRel w)).drop (n - 1) := evict_releases w _ _ q

theorem evictTaps_sublist (w : Waiting) (n : Nat) (q : List Queued) : (evictTaps w n q).Sublist q :=
  evict_sublist w _ _ q

theorem evictTaps_nPr (w : Waiting) (n : Nat) (q : List Queued) : nPr w (evictTaps w n q) = nPr w q - (n - 1) :=
  (evict_key_events w _ _ q).1

/-! ### The eviction of the pinned commit (before the `fix:` commit): counterexample material only -/

/-- the pinned eviction dropped EVERY press of the key, counted or not -/
theorem pinned_no_press (w : Waiting) (k : Nat) (q : List Queued) :
    ∀ s ∈ evictSameCoordPinned w k q, isPr w s = false := by
  induction q generalizing k with
  | nil => intro s hs; cases hs
  | cons x rest ih =>
    show ∀ s ∈ (if isRel w x then
        if k > 0 then evictSameCoordPinned w (k - 1) rest else x :: evictSameCoordPinned w k rest
      else if isPr w x then evictSameCoordPinned w k rest
      else x :: evictSameCoordPinned w k rest), isPr w s = false
    cases hr : isRel w x with
    | true =>
      simp only [if_true]
      have hx := isPr_false_of_isRel hr
      split
      · exact ih _
      · intro s hs
        rcases List.mem_cons.mp hs with rfl | h
        · exact hx
        · exact ih _ s h
    | false =>
      cases hp : isPr w x with
      | true => simp only [Bool.false_eq_true, if_false, if_true]; exact ih _
      | false =>
        simp only [Bool.false_eq_true, if_false]
        intro s hs
        rcases List.mem_cons.mp hs with rfl | h
        · exact hp
        · exact ih _ s h

/-! ## Counting taps -/

theorem countTaps_cons (w : Waiting) (n : Nat) (s : Queued) (rest : List Queued) :
    countTaps w n (s :: rest) =
      if isPr w s then countTaps w (n + 1) rest
      else if s.ev.isPress then .error n
      else countTaps w n rest := rfl

/-- **closed form of the tap count**: `.error` exactly when another key's press is queued, and the
count is the start value plus the presses of the key queued before that press (all of them if there
is none); releases — of any key — never end or change the count -/
theorem countTaps_eq (w : Waiting) (n : Nat) (q : List Queued) :
    countTaps w n q =
      if q.any (otherPress w) then .error (n + nPr w (q.takeWhile (fun s => !otherPress w s)))
      else .ok (n + nPr w q) := by
  induction q generalizing n with
  | nil => simp [countTaps, nPr]
  | cons s rest ih =>
    rw [countTaps_cons]
    cases hp : isPr w s with
    | true =>
      have ho : otherPress w s = false := by simp [otherPress, hp]
      simp only [if_true, List.any_cons, ho, Bool.false_or, List.takeWhile_cons, Bool.not_false, nPr,
        List.filter_cons, hp, List.length_cons]
      rw [ih (n + 1)]
      unfold nPr
      split <;> (congr 1; omega)
    | false =>
      cases hi : s.ev.isPress with
      | true =>
        have ho : otherPress w s = true := by simp [otherPress, hp, hi]
        simp [ho, nPr]
      | false =>
        have ho : otherPress w s = false := by simp [otherPress, hi]
        simp only [Bool.false_eq_true, if_false, List.any_cons, ho, Bool.false_or, List.takeWhile_cons,
          Bool.not_false, if_true, nPr, List.filter_cons, hp]
        rw [ih n]
        rfl

theorem countTaps_error_iff (w : Waiting) (n : Nat) (q : List Queued) :
    (∃ m, countTaps w n q = .error m) ↔ ∃ s ∈ q, otherPress w s = true := by
  rw [countTaps_eq]
  constructor
  · rintro ⟨m, h⟩
    split at h
    · rename_i ha; simpa using ha
    · cases h
  · intro h
    have : q.any (otherPress w) = true := by simpa using h
    simp [this]

/-- releases never end or change the count: dropping every release from the queue gives the same answer -/
theorem countTaps_ignores_releases (w : Waiting) (n : Nat) (q : List Queued) :
    countTaps w n (q.filter (·.ev.isPress)) = countTaps w n q := by
  induction q generalizing n with
  | nil => rfl
  | cons s rest ih =>
    cases hi : s.ev.isPress with
    | true =>
      simp only [List.filter_cons, hi, if_true, countTaps_cons, ih]
    | false =>
      have hp : isPr w s = false := by
        cases h : isPr w s with
        | false => rfl
        | true => rw [isPr_isPress h] at hi; cases hi
      simp only [List.filter_cons, hi, Bool.false_eq_true, if_false, countTaps_cons, hp, ih]

/-! ## `handle_tap_dance` and the `TapDance` arm of `tick_wt` -/

/-- taps the queue shows: 1 + the presses of the key queued before the first press of another key -/
def seenTaps (w : Waiting) (q : List Queued) : Nat := 1 + nPr w (q.takeWhile (fun s => !otherPress w s))
/-- a press of another key is queued -/
def interrupted (w : Waiting) (q : List Queued) : Bool := q.any (otherPress w)

theorem takeWhile_all {α} {p : α → Bool} : ∀ {l : List α}, (∀ x ∈ l, p x = true) → l.takeWhile p = l
  | [], _ => rfl
  | x :: r, h => by
    rw [List.takeWhile_cons, h x (by simp), if_pos rfl, takeWhile_all (fun y hy => h y (by simp [hy]))]

theorem countTaps_one (w : Waiting) (q : List Queued) :
    countTaps w 1 q = if interrupted w q then .error (seenTaps w q) else .ok (seenTaps w q) := by
  rw [countTaps_eq]
  unfold interrupted seenTaps
  split
  · rfl
  · rename_i h
    have : q.takeWhile (fun s => !otherPress w s) = q := by
      apply takeWhile_all
      intro s hs
      have := List.any_eq_false.mp (by simpa using h) s hs
      simpa using this
    rw [this]

theorem seenTaps_not_interrupted {w : Waiting} {q : List Queued} (h : interrupted w q = false) :
    seenTaps w q = 1 + nPr w q := by
  unfold seenTaps
  have : q.takeWhile (fun s => !otherPress w s) = q := by
    apply takeWhile_all
    intro s hs
    have := List.any_eq_false.mp h s hs
    simpa using this
  rw [this]

/-- **`handle_tap_dance`, in closed form**: nothing happens while the queue length is unchanged and
the countdown has not ended; at the end of the countdown the dance is decided with the count
recorded EARLIER (`k`), without looking at the queue again; otherwise it is decided with the count
the queue shows iff another key's press is queued or the count has reached the list length. -/
theorem handleTapDance_spec (w : Waiting) (k len : Nat) (q : List Queued) :
    handleTapDance w k len q =
      if q.length % 256 == w.prevQueueLen && w.timeout > 0 then (q, none, k)
      else if w.timeout == 0 then (evictTaps w k q, some .tap, k)
      else if interrupted w q || decide (seenTaps w q ≥ len) then
        (evictTaps w (inThisDance (seenTaps w q) len) q, some .tap, inThisDance (seenTaps w q) len)
      else (q, none, seenTaps w q) := by
  unfold handleTapDance
  split
  · rfl
  · split
    · rfl
    · rw [countTaps_one]
      cases hi : interrupted w q with
      | true => simp
      | false =>
        simp only [Bool.false_eq_true, if_false, Bool.false_or, decide_eq_true_eq]

theorem tdPick_some {acts : List Action} (h : acts ≠ []) (n : Nat) : ∃ a, tdPick acts n = some a ∧ a ∈ acts := by
  unfold tdPick
  have hl : 0 < acts.length := List.length_pos_iff.mpr h
  have hi : min n acts.length - 1 < acts.length := by omega
  exact ⟨acts[min n acts.length - 1], List.getElem?_eq_getElem hi, List.getElem_mem hi⟩

theorem tdPick_none_iff (acts : List Action) (n : Nat) : tdPick acts n = none ↔ acts = [] := by
  constructor
  · intro h
    cases acts with
    | nil => rfl
    | cons a t =>
      obtain ⟨x, hx, _⟩ := tdPick_some (acts := a :: t) (by simp) n
      rw [hx] at h; cases h
  · rintro rfl; rfl

/-- the N-th listed action for `1 ≤ N ≤ len` -/
theorem tdPick_nth (acts : List Action) (n : Nat) (h2 : n ≤ acts.length) :
    tdPick acts n = acts[n - 1]? := by
  unfold tdPick
  rw [Nat.min_eq_left h2]

/-- the last listed action once `N` reaches the list length -/
theorem tdPick_last (acts : List Action) (n : Nat) (h : acts.length ≤ n) :
    tdPick acts n = acts.getLast? := by
  unfold tdPick
  rw [Nat.min_eq_right h, List.getLast?_eq_getElem?]

/-- the countdown step at the top of `tick_wt` -/
def cd (w : Waiting) : Waiting := { w with timeout := w.timeout - 1, ticks := min (w.ticks + 1) U16_MAX }

theorem tickWt_td (w : Waiting) (acts : List Action) (T k : Nat) (hc : w.config = .tapDance acts T k)
    (q : List Queued) (aq : ActionQueue) :
    tickWt w q aq =
      match tickWtTd (cd w) acts T k q with
      | .error c => .error c
      | .ok (w', q', r) => .ok (w', q', aq, r.map (·, none)) := by
  cases w with
  | mk coord timeout delay ticks hold tap ta config ls pql =>
    simp only at hc
    subst hc
    rfl

/-- what one tick of a pending lazy tap-dance can be -/
inductive TdStep (w : Waiting) (acts : List Action) (T k : Nat) (q : List Queued) :
    Except Crash (Waiting × List Queued × Option WAct) → Prop
  /-- queue length unchanged, countdown not over: only the countdown moved -/
  | idle : (q.length % 256 == w.prevQueueLen) = true → 0 < w.timeout →
      TdStep w acts T k q (.ok ({ w with prevQueueLen := q.length % 256, config := .tapDance acts T k }, q, none))
  /-- the queue shows `n` taps, fewer than the list is long, and no other key: keep waiting; the
  countdown RESTARTS at `T` iff the count grew -/
  | counting (n : Nat) : 0 < w.timeout → interrupted w q = false → n = seenTaps w q → n < acts.length →
      TdStep w acts T k q (.ok ({ w with prevQueueLen := q.length % 256,
                                          timeout := if n > k then T else w.timeout,
                                          config := .tapDance acts T n }, q, none))
  /-- decided on `n` taps: the chosen action is `tdPick acts n`, the first `n − 1` releases and all
  presses of the key leave the queue -/
  | decided (n : Nat) (a : Action) : tdPick acts n = some a →
      TdStep w acts T k q (.ok ({ w with prevQueueLen := (evictTaps w n q).length % 256, tap := a,
                                          timeout := if n > k then T else w.timeout,
                                          config := .tapDance acts T n }, evictTaps w n q, some .tap))
  /-- decided, but the list is empty: `tds.actions[0]` panics -/
  | crash : acts = [] → TdStep w acts T k q (.error (.indexOOB "tap-dance actions"))

/-- the cause of a decision and the count it is taken on -/
def decidesOn (w : Waiting) (len k : Nat) (q : List Queued) : Option Nat :=
  if q.length % 256 == w.prevQueueLen && w.timeout > 0 then none
  else if w.timeout == 0 then some k                                     -- the countdown ended
  else if interrupted w q || decide (seenTaps w q ≥ len) then some (inThisDance (seenTaps w q) len)   -- other key / list exhausted
  else none

/-- **one tick of the `TapDance` arm** (`w` = the state after the countdown step), complete case
analysis: it decides exactly when `decidesOn` says so, on that count, with the action
`tdPick acts n`; it panics exactly when it decides and the list is empty. -/
theorem tickWtTd_cases (w : Waiting) (acts : List Action) (T k : Nat) (q : List Queued) :
    TdStep w acts T k q (tickWtTd w acts T k q) ∧
    (∀ n, decidesOn w acts.length k q = some n →
      (∃ a, tdPick acts n = some a ∧ ∃ w', tickWtTd w acts T k q = .ok (w', evictTaps w n q, some .tap) ∧ w'.tap = a) ∨
      (acts = [] ∧ tickWtTd w acts T k q = .error (.indexOOB "tap-dance actions"))) ∧
    (decidesOn w acts.length k q = none → ∃ w', tickWtTd w acts T k q = .ok (w', q, none)) := by
  unfold tickWtTd decidesOn
  rw [handleTapDance_spec]
  by_cases h1 : (q.length % 256 == w.prevQueueLen && decide (w.timeout > 0)) = true
  · simp only [h1, if_true]
    refine ⟨?_, (fun n h => nomatch h), fun _ => ⟨_, rfl⟩⟩
    simp only [Bool.and_eq_true, decide_eq_true_eq] at h1
    have : (if k > k then T else w.timeout) = w.timeout := by simp
    rw [this]
    exact TdStep.idle h1.1 h1.2
  · simp only [h1, Bool.false_eq_true, if_false]
    by_cases h2 : (w.timeout == 0) = true
    · simp only [h2, if_true]
      cases hp : tdPick acts k with
      | none =>
        have he := (tdPick_none_iff acts k).mp hp
        exact ⟨TdStep.crash he, fun n hn => by injection hn with hn; subst hn; exact Or.inr ⟨he, rfl⟩, fun h => nomatch h⟩
      | some a =>
        refine ⟨TdStep.decided k a hp, fun n hn => ?_, fun h => nomatch h⟩
        injection hn with hn; subst hn
        exact Or.inl ⟨a, hp, _, rfl, rfl⟩
    · simp only [h2, Bool.false_eq_true, if_false]
      by_cases h3 : (interrupted w q || decide (seenTaps w q ≥ acts.length)) = true
      · simp only [h3, if_true]
        cases hp : tdPick acts (inThisDance (seenTaps w q) acts.length) with
        | none =>
          have he := (tdPick_none_iff acts _).mp hp
          exact ⟨TdStep.crash he, fun n hn => by injection hn with hn; subst hn; exact Or.inr ⟨he, rfl⟩, fun h => nomatch h⟩
        | some a =>
          refine ⟨TdStep.decided _ a hp, fun n hn => ?_, fun h => nomatch h⟩
          injection hn with hn; subst hn
          exact Or.inl ⟨a, hp, _, rfl, rfl⟩
      · simp only [h3, Bool.false_eq_true, if_false]
        refine ⟨?_, (fun n h => nomatch h), fun _ => ⟨_, rfl⟩⟩
        simp only [Bool.or_eq_true, decide_eq_true_eq, not_or, Nat.not_le] at h3
        have ht : 0 < w.timeout := by
          have : w.timeout ≠ 0 := by simpa using h2
          omega
        exact TdStep.counting (seenTaps w q) ht (by simpa using h3.1) rfl h3.2

/-- the `TapDance` arm never touches anything but the countdown, the count, `tap` and the queue
length memo; while undecided the queue and `tap` are untouched; the only decision is `Tap` -/
theorem tickWtTd_fields {w : Waiting} {acts : List Action} {T k : Nat} {q : List Queued}
    {w' : Waiting} {q' : List Queued} {r : Option WAct} (h : tickWtTd w acts T k q = .ok (w', q', r)) :
    w'.coord = w.coord ∧ w'.delay = w.delay ∧ w'.ticks = w.ticks ∧ w'.hold = w.hold ∧
    w'.timeoutAction = w.timeoutAction ∧ w'.layerStack = w.layerStack ∧
    w'.prevQueueLen = q'.length % 256 ∧ (r = none → w'.tap = w.tap ∧ q' = q) ∧
    (r = none ∨ r = some .tap) ∧ (∃ n, w'.config = .tapDance acts T n) := by
  have hc := (tickWtTd_cases w acts T k q).1
  rw [h] at hc
  cases hc with
  | idle _ _ => exact ⟨rfl, rfl, rfl, rfl, rfl, rfl, rfl, fun _ => ⟨rfl, rfl⟩, Or.inl rfl, _, rfl⟩
  | counting n _ _ _ _ => exact ⟨rfl, rfl, rfl, rfl, rfl, rfl, rfl, fun _ => ⟨rfl, rfl⟩, Or.inl rfl, _, rfl⟩
  | decided n a _ => exact ⟨rfl, rfl, rfl, rfl, rfl, rfl, rfl, (fun h => nomatch h), Or.inr rfl, _, rfl⟩

/-! ## The queue's `since` counters are never read -/

theorem evict_map (w : Waiting) (f : Queued → Queued) (hf : ∀ x, (f x).ev = x.ev) (r p : Nat) (q : List Queued) :
    evictSameCoord w r p (q.map f) = (evictSameCoord w r p q).map f := by
  induction q generalizing r p with
  | nil => rfl
  | cons x rest ih =>
    simp only [List.map_cons, evictSameCoord, hf, ih]
    split
    · split <;> simp
    · split <;> simp

theorem evictTaps_map (w : Waiting) (f : Queued → Queued) (hf : ∀ x, (f x).ev = x.ev) (n : Nat) (q : List Queued) :
    evictTaps w n (q.map f) = (evictTaps w n q).map f := evict_map w f hf _ _ q

theorem countTaps_map (w : Waiting) (f : Queued → Queued) (hf : ∀ x, (f x).ev = x.ev) (n : Nat) (q : List Queued) :
    countTaps w n (q.map f) = countTaps w n q := by
  induction q generalizing n with
  | nil => rfl
  | cons x rest ih => simp only [List.map_cons, countTaps, hf, ih]

/-- the `TapDance` arm commutes with any relabelling of the queue that keeps the events (such as the
ageing of `since` done by `tick`): it decides the same, on the same count, and evicts the same entries -/
theorem tickWtTd_ignores_since (w : Waiting) (acts : List Action) (T k : Nat) (f : Queued → Queued)
    (hf : ∀ x, (f x).ev = x.ev) (q : List Queued) :
    tickWtTd w acts T k (q.map f) =
      match tickWtTd w acts T k q with
      | .error c => .error c
      | .ok (w', q', r) => .ok (w', q'.map f, r) := by
  have hh : handleTapDance w k acts.length (q.map f) =
      ((handleTapDance w k acts.length q).1.map f, (handleTapDance w k acts.length q).2) := by
    unfold handleTapDance
    simp only [List.length_map, countTaps_map w f hf, evictTaps_map w f hf]
    split
    · rfl
    · split
      · rfl
      · split
        · split <;> rfl
        · rfl
  unfold tickWtTd
  rw [hh]
  generalize handleTapDance w k acts.length q = res
  obtain ⟨q', r, n⟩ := res
  cases r with
  | none => simp
  | some r =>
    simp only [List.length_map]
    cases tdPick acts n <;> rfl

/-! ## What the parser guarantees -/

/-- what `parse_tap_dance` (parser/src/cfg/mod.rs) guarantees of an accepted
`(tap-dance[-eager] T (actions…))`: a non-zero timeout (`parse_non_zero_u16`) and a non-empty list
(checked since the `fix:` commit).  The drivers check it on every configuration the REAL parser
produced (C17 oracle; `WF.actionWF` of C02). -/
structure Accepted (acts : List Action) (T : Nat) : Prop where
  nonempty : acts ≠ []
  timeout : 1 ≤ T

/-- the `TapDance` arm of `tick_wt` cannot panic on an accepted tap-dance -/
theorem tickWtTd_total {acts : List Action} {T : Nat} (h : Accepted acts T) (w : Waiting) (k : Nat) (q : List Queued) :
    ∃ r, tickWtTd w acts T k q = .ok r := by
  have hc := tickWtTd_cases w acts T k q
  cases hd : decidesOn w acts.length k q with
  | none =>
    obtain ⟨w', hw'⟩ := hc.2.2 hd
    exact ⟨_, hw'⟩
  | some n =>
    rcases hc.2.1 n hd with ⟨a, _, w', hw', _⟩ | ⟨he, _⟩
    · exact ⟨_, hw'⟩
    · exact absurd he h.nonempty

end KVerif.C17
