/-
C09 helper lemmas for chords v2: sizes.  How long the kept queue, the hand-over queue (`DrainQueue`)
and the list of active chords can get in one tick of the v2 machine, that the two assertions on the
hand-over queue cannot fail when the input queue and the active chords have their container sizes,
that these sizes are an invariant of `LayoutV2.event` / `tickV2Pre` / `LayoutV2.tick`, and what the
hand-over loop does to the layout queue.
-/
import KVerif.Lemmas.ChordsV2Release
import KVerif.Props.C09V2
namespace KVerif.C09
open KVerif.L

/-! ## Containers -/

theorem pushBackWrap_length_le {α : Type} (cap : Nat) (l : List α) (x : α) (h : l.length ≤ cap) :
    (pushBackWrap cap l x).1.length ≤ cap := by
  unfold pushBackWrap
  split
  · simp only [List.length_append, List.length_cons, List.length_nil]; omega
  · cases l with
    | nil => simp
    | cons a t =>
      simp only [List.length_cons, List.length_append, List.length_nil] at h ⊢
      omega

theorem pushBackWrap_length_le_succ {α : Type} (cap : Nat) (l : List α) (x : α) :
    (pushBackWrap cap l x).1.length ≤ l.length + 1 := by
  unfold pushBackWrap
  split
  · simp only [List.length_append, List.length_cons, List.length_nil]; omega
  · cases l with
    | nil => simp
    | cons a t => simp only [List.length_cons, List.length_append, List.length_nil]; omega

/-- the non-asserting push never makes the hand-over queue longer than one more -/
theorem drainPush_length_le (q : List Queued) (x : Queued) : (drainPush q x).length ≤ q.length + 1 :=
  pushBackWrap_length_le_succ _ _ _

theorem drainExtend_length_le (dq q : List Queued) : (drainExtend dq q).length ≤ dq.length + q.length := by
  unfold drainExtend
  rw [List.length_append, List.length_take]
  omega

theorem drainPushAssert_fits (q : List Queued) (x : Queued) (h : q.length < DRAIN_Q_LEN) :
    drainPushAssert q x = .ok (q ++ [x]) := by
  unfold drainPushAssert
  rw [if_pos h]

/-! ## `drain_virtual_keys`: every queued event goes either to the kept queue or to the hand-over queue -/

theorem drainVirtualKeys_total : ∀ (q dq : List Queued), dq.length + q.length ≤ DRAIN_Q_LEN →
    ∃ k dq', drainVirtualKeys q dq = .ok (k, dq') ∧ k.length + dq'.length = q.length + dq.length := by
  intro q
  induction q with
  | nil => intro dq _; exact ⟨[], dq, rfl, by simp⟩
  | cons qd rest ih =>
    intro dq h
    simp only [List.length_cons] at h
    simp only [drainVirtualKeys]
    split
    · obtain ⟨k, dq', he, hl⟩ := ih dq (by omega)
      refine ⟨qd :: k, dq', by rw [he], ?_⟩
      simp only [List.length_cons]; omega
    · rw [drainPushAssert_fits dq qd (by omega)]
      obtain ⟨k, dq', he, hl⟩ := ih (dq ++ [qd]) (by simp only [List.length_append, List.length_cons, List.length_nil]; omega)
      refine ⟨k, dq', he, ?_⟩
      simp only [List.length_append, List.length_cons, List.length_nil] at hl ⊢
      omega

/-- without the size hypothesis: when it succeeds, nothing is lost or duplicated -/
theorem drainVirtualKeys_length : ∀ (q dq k dq' : List Queued), drainVirtualKeys q dq = .ok (k, dq') →
    k.length + dq'.length = q.length + dq.length := by
  intro q
  induction q with
  | nil => intro dq k dq' h; simp only [drainVirtualKeys] at h; cases h; simp
  | cons qd rest ih =>
    intro dq k dq' h
    simp only [drainVirtualKeys] at h
    split at h
    · split at h
      · cases h
      · rename_i k1 d1 hr
        cases h
        have := ih _ _ _ hr
        simp only [List.length_cons]; omega
    · split at h
      · cases h
      · rename_i dq1 hp
        have hp' : dq1 = dq ++ [qd] := by
          unfold drainPushAssert at hp
          split at hp
          · cases hp; rfl
          · cases hp
        have := ih _ _ _ h
        rw [hp'] at this
        simp only [List.length_append, List.length_cons, List.length_nil] at this ⊢
        omega

/-! ## `drain_releases`: never fails; what leaves the kept queue is at most what enters the hand-over queue -/

theorem drainReleases_length : ∀ (q : List Queued) (np : Nat) (achs : List ActiveChord) (dq k : List Queued)
    (achs' : List ActiveChord) (dq' : List Queued),
    drainReleases q np achs dq = .ok (k, achs', dq') →
    k.length + dq'.length ≤ q.length + dq.length ∧ k.length ≤ q.length := by
  intro q
  induction q with
  | nil => intro np achs dq k achs' dq' h; simp only [drainReleases] at h; cases h; simp
  | cons qd rest ih =>
    intro np achs dq k achs' dq' h
    simp only [drainReleases] at h
    split at h
    · split at h
      · cases h
      · rename_i k1 a1 d1 hr
        cases h
        have := ih _ _ _ _ _ _ hr
        simp only [List.length_cons]; omega
    · split at h
      · have := ih _ _ _ _ _ _ h
        have hp := drainPush_length_le dq qd
        simp only [List.length_cons]; omega
      · split at h
        · cases h
        · rename_i k1 a1 d1 hr
          cases h
          have := ih _ _ _ _ _ _ hr
          simp only [List.length_cons]; omega

theorem drainReleases_total (q : List Queued) (np : Nat) (achs : List ActiveChord) (dq : List Queued) :
    ∃ k achs' dq', drainReleases q np achs dq = .ok (k, achs', dq') := by
  cases h : drainReleases q np achs dq with
  | error c => exact absurd h (drainReleases_no_err _ _ _ _ _)
  | ok r => exact ⟨r.1, r.2.1, r.2.2, rfl⟩

/-! ## `process_presses`: never fails, the queue only shrinks, at most one chord - not yet Released - is appended -/

theorem ppRetain_length_le (q : List Queued) (acc : List Nat) : (ppRetain q acc).length ≤ q.length :=
  List.length_filter_le _ _

theorem getActiveChord_not_released (cch : ChordV2) (since coord : Nat) (rf : Option Nat) :
    ((getActiveChord cch since coord rf).status == AchStatus.released) = false := by
  unfold getActiveChord
  simp only []
  split <;> rfl

/-- the number of active chords marked Released (what `clear_released_chords` will push) -/
def relCount (achs : List ActiveChord) : Nat := (achs.filter (fun a => a.status == .released)).length

theorem relCount_le (achs : List ActiveChord) : relCount achs ≤ achs.length := List.length_filter_le _ _

theorem relCount_append_new (achs : List ActiveChord) (cch : ChordV2) (since coord : Nat) (rf : Option Nat) :
    relCount (achs ++ [getActiveChord cch since coord rf]) = relCount achs := by
  unfold relCount
  rw [List.filter_append, List.length_append]
  simp only [List.filter_cons, getActiveChord_not_released, Bool.false_eq_true, if_false, List.filter_nil,
    List.length_nil, Nat.add_zero]

theorem processPresses_total (s : ChV2) (layer : Nat) :
    ∃ s', processPresses s layer = .ok s' ∧ s'.queue.length ≤ s.queue.length ∧
      s'.active.length ≤ s.active.length + 1 ∧
      (s.active.length ≤ ACTIVE_CHORDS_CAP → s'.active.length ≤ ACTIVE_CHORDS_CAP) ∧
      relCount s'.active = relCount s.active := by
  cases h : processPresses s layer with
  | error c => exact absurd h (processPresses_no_err _ _ _)
  | ok s' =>
    refine ⟨s', rfl, ?_⟩
    rcases processPresses_spec s s' layer h with ⟨h1, h2⟩ | ⟨_, _, _, _, cch, coord, acc, _, _, _, _, _, _, _, h8, h9, h10⟩
    · rw [h1, h2]; exact ⟨Nat.le_refl _, Nat.le_succ _, fun hb => hb, rfl⟩
    · rw [h9, h10, relCount_append_new]
      refine ⟨ppRetain_length_le _ _, ?_, ?_, rfl⟩
      · simp only [List.length_append, List.length_cons, List.length_nil]; omega
      · intro _
        simp only [List.length_append, List.length_cons, List.length_nil]; omega

/-! ## `drain_inputs` -/

/-- `drain_inputs` with room in the hand-over queue for the whole input queue: it succeeds; every event
that leaves the input queue accounts for at most one event of the hand-over queue; the input queue
does not grow; at most one chord is appended and it is not marked Released -/
theorem drainInputs_cap (s : ChV2) (dq : List Queued) (layer : Nat) (h : dq.length + s.queue.length ≤ DRAIN_Q_LEN) :
    ∃ s1 dq1, drainInputs s dq layer = .ok (s1, dq1) ∧
      s1.queue.length + dq1.length ≤ s.queue.length + dq.length ∧ s1.queue.length ≤ s.queue.length ∧
      s1.active.length ≤ s.active.length + 1 ∧
      (s.active.length ≤ ACTIVE_CHORDS_CAP → s1.active.length ≤ ACTIVE_CHORDS_CAP) ∧
      relCount s1.active ≤ s.active.length := by
  unfold drainInputs
  split
  · -- cool-down
    refine ⟨_, _, rfl, ?_, ?_, ?_, ?_, ?_⟩
    · have := drainExtend_length_le dq s.queue
      simp only [List.length_nil]; omega
    · simp
    · simp only [applyReleases_length]; omega
    · intro hb; simpa only [applyReleases_length] using hb
    · exact Nat.le_trans (relCount_le _) (by simp only [applyReleases_length]; exact Nat.le_refl _)
  · split
    · -- nothing changed
      exact ⟨_, _, rfl, Nat.le_refl _, Nat.le_refl _, Nat.le_succ _, fun hb => hb, relCount_le _⟩
    · simp only []
      obtain ⟨k, dq1, hv, hvl⟩ := drainVirtualKeys_total s.queue dq h
      obtain ⟨k2, achs2, dq2, hr⟩ := drainReleases_total k 0 s.active dq1
      have hrl := drainReleases_length _ _ _ _ _ _ _ hr
      have hkl : k.length ≤ s.queue.length := by
        rw [drainVirtualKeys_ok _ _ _ _ hv]; exact List.length_filter_le _ _
      have ha2 : achs2.length = s.active.length := by
        rw [drainReleases_active _ _ _ _ _ _ _ hr, applyReleases_length]
      obtain ⟨s3, hp, hq3, ha3, hc3, hrel3⟩ := processPresses_total
        { s with ticksUntilChange := 0, prevActiveLayer := layer,
                 queue := k2, active := achs2 } layer
      simp only [hv, hr, hp]
      dsimp only at hq3 ha3 hc3 hrel3
      refine ⟨{ s3 with prevQueueLen := s3.queue.length % 256 }, dq2, rfl, by dsimp only; omega, by dsimp only; omega,
        by dsimp only; omega, ?_, ?_⟩
      · intro hb; exact hc3 (by omega)
      · rw [hrel3]; exact Nat.le_trans (relCount_le _) (by omega)

/-! ## `clear_released_chords` -/

theorem clearReleased_total : ∀ (achs : List ActiveChord) (dq : List Queued),
    dq.length + relCount achs ≤ DRAIN_Q_LEN →
    ∃ r dq', clearReleased achs dq = .ok (r, dq') ∧ r.length ≤ achs.length ∧
      dq'.length = dq.length + relCount achs := by
  intro achs
  induction achs with
  | nil => intro dq _; exact ⟨[], dq, rfl, Nat.le_refl _, rfl⟩
  | cons a rest ih =>
    intro dq h
    simp only [clearReleased]
    split
    · rename_i hs
      have hc : relCount (a :: rest) = relCount rest + 1 := by
        unfold relCount; simp only [List.filter_cons, hs, if_true, List.length_cons]
      rw [hc] at h ⊢
      rw [drainPushAssert_fits dq _ (by omega)]
      obtain ⟨r, dq', he, hl1, hl2⟩ := ih (dq ++ [⟨.release (0, a.coordinate), 0⟩])
        (by simp only [List.length_append, List.length_cons, List.length_nil]; omega)
      refine ⟨r, dq', he, ?_, ?_⟩
      · simp only [List.length_cons]; omega
      · rw [hl2]; simp only [List.length_append, List.length_cons, List.length_nil]; omega
    · rename_i hs
      have hc : relCount (a :: rest) = relCount rest := by
        unfold relCount; simp only [List.filter_cons, hs, Bool.false_eq_true, if_false]
      rw [hc] at h ⊢
      obtain ⟨r, dq', he, hl1, hl2⟩ := ih dq h
      refine ⟨a :: r, dq', by rw [he], ?_, hl2⟩
      simp only [List.length_cons]; omega

/-! ## `tick_chv2` -/

/-- the state as `tick_chv2` ages it before anything else -/
def agedV2 (s : ChV2) : ChV2 :=
  { s with queue := s.queue.map fun (q : Queued) => { q with since := min (q.since + 1) U16_MAX },
           active := s.active.map fun a => { a with delay := min (a.delay + 1) U16_MAX } }

/-- the part of `tick_chv2` after `drain_inputs`: the two tap-hold trigger events and `clear_released_chords` -/
def tickTail (prevLen : Nat) (s : ChV2) (dq : List Queued) : Except Crash (ChV2 × List Queued) :=
  let dq := if s.active.length != prevLen then drainPush dq ⟨.press (0, 0), 0⟩ else dq
  let dq := if s.active.any (fun a => a.status == .unreadReleased || a.status == .released) then
      drainPush dq ⟨.release (0, 0), 0⟩ else dq
  match clearReleased s.active dq with
  | .error c => .error c
  | .ok (achs, dq) => .ok ({ s with active := achs, ticksToIgnore := s.ticksToIgnore - 1 }, dq)

theorem tickChv2_eq (s : ChV2) (layer : Nat) :
    tickChv2 s layer =
      match drainInputs (agedV2 s) [] layer with
      | .error c => .error c
      | .ok (s1, dq) => tickTail (agedV2 s).active.length s1 dq := rfl

theorem agedV2_queue_length (s : ChV2) : (agedV2 s).queue.length = s.queue.length := by
  simp only [agedV2, List.length_map]

theorem agedV2_active_length (s : ChV2) : (agedV2 s).active.length = s.active.length := by
  simp only [agedV2, List.length_map]

theorem tickTail_cap (prevLen : Nat) (s : ChV2) (dq : List Queued) (h : dq.length + 2 + relCount s.active ≤ DRAIN_Q_LEN) :
    ∃ s' dq', tickTail prevLen s dq = .ok (s', dq') ∧ s'.queue = s.queue ∧ s'.active.length ≤ s.active.length ∧
      dq'.length ≤ dq.length + 2 + relCount s.active := by
  unfold tickTail
  simp only []
  generalize hd1 : (if s.active.length != prevLen then drainPush dq ⟨.press (0, 0), 0⟩ else dq) = d1
  have h1 : d1.length ≤ dq.length + 1 := by
    rw [← hd1]; split
    · exact drainPush_length_le _ _
    · omega
  generalize hd2 : (if s.active.any (fun a => a.status == .unreadReleased || a.status == .released) then
      drainPush d1 ⟨.release (0, 0), 0⟩ else d1) = d2
  have h2 : d2.length ≤ d1.length + 1 := by
    rw [← hd2]; split
    · exact drainPush_length_le _ _
    · omega
  obtain ⟨r, dq', he, hl1, hl2⟩ := clearReleased_total s.active d2 (by omega)
  rw [he]
  exact ⟨_, _, rfl, rfl, hl1, by omega⟩

/-- **one tick of the v2 machine with room in the hand-over queue** (`queue + active + 2 ≤ 48`): it
succeeds; the events handed over plus the events kept are at most the events queued, one release per
chord that was active, and the two tap-hold trigger events -/
theorem tickChv2_cap (s : ChV2) (layer : Nat) (h : s.queue.length + s.active.length + 2 ≤ DRAIN_Q_LEN) :
    ∃ s' dq, tickChv2 s layer = .ok (s', dq) ∧
      s'.queue.length + dq.length ≤ s.queue.length + s.active.length + 2 ∧
      s'.queue.length ≤ s.queue.length ∧
      s'.active.length ≤ s.active.length + 1 ∧
      (s.active.length ≤ ACTIVE_CHORDS_CAP → s'.active.length ≤ ACTIVE_CHORDS_CAP) := by
  rw [tickChv2_eq]
  have hq := agedV2_queue_length s
  have ha := agedV2_active_length s
  obtain ⟨s1, dq1, hd, hl, hq1, ha1, hc1, hrel⟩ := drainInputs_cap (agedV2 s) [] layer
    (by rw [hq]; simp only [List.length_nil]; omega)
  simp only [List.length_nil, Nat.add_zero] at hl
  rw [hd]
  simp only []
  obtain ⟨s', dq', ht, hq', ha', hl'⟩ := tickTail_cap (agedV2 s).active.length s1 dq1 (by omega)
  refine ⟨s', dq', ht, ?_, ?_, ?_, ?_⟩
  · rw [hq']; omega
  · rw [hq']; omega
  · omega
  · intro hb; exact Nat.le_trans ha' (hc1 (by omega))

/-! ## The sizes as an invariant of the whole machine -/

theorem getActionChv2_length : ∀ (achs : List ActiveChord), (getActionChv2 achs).1.length = achs.length := by
  intro achs
  induction achs with
  | nil => rfl
  | cons a rest ih =>
    simp only [getActionChv2]
    split
    · rfl
    · rfl
    · simp only [List.length_cons, ih]

/-- the size bounds of the two containers of `ChordsV2` (`queue`: ArrayDeque of 32, `active_chords`:
heapless Vec of 10) -/
def SizesOK (ch : ChV2) : Prop := ch.queue.length ≤ QUEUE_SIZE ∧ ch.active.length ≤ ACTIVE_CHORDS_CAP

instance (ch : ChV2) : Decidable (SizesOK ch) := by unfold SizesOK; infer_instance

/-- the bounds for a layout with or without chords v2 -/
def SizesOKL (s : LayoutV2) : Prop := ∀ ch, s.chv2 = some ch → SizesOK ch

instance (s : LayoutV2) : Decidable (SizesOKL s) := by
  unfold SizesOKL
  cases h : s.chv2 with
  | none => exact isTrue (fun ch hc => by cases hc)
  | some ch0 =>
    by_cases hs : SizesOK ch0
    · exact isTrue (fun ch hc => by cases hc; exact hs)
    · exact isFalse (fun hh => hs (hh ch0 rfl))

/-- what `Layout::event` does to the chords-v2 state: the event enters the 32-slot queue, nothing else -/
theorem LayoutV2.event_chv2 (s s' : LayoutV2) (ev : Ev) (h : s.event ev = .ok s') :
    s'.chv2 = s.chv2.map fun ch => { ch with queue := (pushBackWrap QUEUE_SIZE ch.queue ⟨ev, 0⟩).1 } := by
  unfold LayoutV2.event at h
  split at h
  · rename_i hn
    split at h
    · cases h
    · cases h; simp only [hn, Option.map_none]
  · rename_i ch hs
    simp only [] at h
    generalize hp : pushBackWrap QUEUE_SIZE ch.queue ⟨ev, 0⟩ = r at h
    obtain ⟨q, ov⟩ := r
    simp only [] at h
    rw [hs, Option.map_some, hp]
    split at h
    · cases h; rfl
    · split at h
      · cases h
      · split at h
        · cases h
        · cases h; rfl

theorem LayoutV2.event_sizes (s s' : LayoutV2) (ev : Ev) (h : s.event ev = .ok s') (hs : SizesOKL s) : SizesOKL s' := by
  intro ch' hc'
  rw [LayoutV2.event_chv2 s s' ev h] at hc'
  cases hch : s.chv2 with
  | none => rw [hch] at hc'; cases hc'
  | some ch =>
    rw [hch, Option.map_some] at hc'
    cases hc'
    obtain ⟨h1, h2⟩ := hs ch hch
    exact ⟨pushBackWrap_length_le _ _ _ h1, h2⟩

/-- what the chords-v2 prologue of `Layout::tick` does to the chords-v2 state -/
theorem tickV2Pre_chv2 (s s' : LayoutV2) (h : tickV2Pre s = .ok s') :
    (s.chv2 = none ∧ s'.chv2 = none) ∨
    ∃ ch ch1 dq, s.chv2 = some ch ∧ tickChv2 ch s.lay.currentLayer = .ok (ch1, dq) ∧
      s'.chv2 = some { ch1 with active := (getActionChv2 ch1.active).1 } := by
  unfold tickV2Pre at h
  split at h
  · rename_i hn
    cases h; exact Or.inl ⟨hn, hn⟩
  · rename_i ch hch
    split at h
    · cases h
    · rename_i ch1 dq hok
      right
      refine ⟨ch, ch1, dq, hch, hok, ?_⟩
      simp only [] at h
      split at h
      · cases h
      · split at h <;> (cases h; rfl)

theorem tickV2Pre_sizes (s s' : LayoutV2) (h : tickV2Pre s = .ok s') (hs : SizesOKL s) : SizesOKL s' := by
  intro ch' hc'
  rcases tickV2Pre_chv2 s s' h with ⟨_, hn⟩ | ⟨ch, ch1, dq, hch, hok, he⟩
  · rw [hn] at hc'; cases hc'
  · rw [he] at hc'
    cases hc'
    obtain ⟨h1, h2⟩ := hs ch hch
    have h1' : ch.queue.length ≤ 32 := h1
    have h2' : ch.active.length ≤ 10 := h2
    obtain ⟨s2, dq2, ht, _, hq, _, hc⟩ := tickChv2_cap ch s.lay.currentLayer
      (by show ch.queue.length + ch.active.length + 2 ≤ 48; omega)
    rw [hok] at ht
    cases ht
    refine ⟨Nat.le_trans hq h1, ?_⟩
    show (getActionChv2 ch1.active).1.length ≤ ACTIVE_CHORDS_CAP
    rw [getActionChv2_length]
    exact hc h2

theorem LayoutV2.tick_chv2 (s s' : LayoutV2) (cu : CustomEv) (h : s.tick = .ok (s', cu)) :
    ∃ s1, tickV2Pre s = .ok s1 ∧ s'.chv2 = s1.chv2 := by
  unfold LayoutV2.tick at h
  split at h
  · cases h
  · rename_i s1 h1
    split at h
    · cases h
    · cases h; exact ⟨s1, h1, rfl⟩

theorem LayoutV2.tick_sizes (s s' : LayoutV2) (cu : CustomEv) (h : s.tick = .ok (s', cu)) (hs : SizesOKL s) : SizesOKL s' := by
  obtain ⟨s1, h1, he⟩ := LayoutV2.tick_chv2 s s' cu h
  intro ch hc
  rw [he] at hc
  exact tickV2Pre_sizes s s1 h1 hs ch hc

/-! ## Reachability -/

/-- the states of the machine reachable from `s0` through key events and ticks that succeed -/
inductive ReachV2 (s0 : LayoutV2) : LayoutV2 → Prop
  | start : ReachV2 s0 s0
  | event (s s' : LayoutV2) (ev : Ev) : ReachV2 s0 s → s.event ev = .ok s' → ReachV2 s0 s'
  | tick (s s' : LayoutV2) (cu : CustomEv) : ReachV2 s0 s → s.tick = .ok (s', cu) → ReachV2 s0 s'

theorem ReachV2.sizes {s0 s : LayoutV2} (hr : ReachV2 s0 s) (h0 : SizesOKL s0) : SizesOKL s := by
  induction hr with
  | start => exact h0
  | event s s' ev _ he ih => exact LayoutV2.event_sizes s s' ev he ih
  | tick s s' cu _ ht ih => exact LayoutV2.tick_sizes s s' cu ht ih

/-- a layout whose chords-v2 state (if any) has just been built: nothing queued, no active chord -/
def FreshV2 (s : LayoutV2) : Prop := ∀ ch, s.chv2 = some ch → ch.queue = [] ∧ ch.active = []

theorem FreshV2.sizes {s : LayoutV2} (h : FreshV2 s) : SizesOKL s := by
  intro ch hc
  obtain ⟨h1, h2⟩ := h ch hc
  simp only [SizesOK, h1, h2, List.length_nil]
  exact ⟨Nat.zero_le _, Nat.zero_le _⟩

/-! ## The hand-over loop and the layout queue -/

/-- what `Layout::event` does with the event that falls out of the full layout queue: the waiting keys
are forced to hold, then the event is processed at once (`dequeue`) -/
def overflowStep (lay : Layout) (o : Queued) : Except Crash Layout :=
  match flushWaitings FUEL lay (none :: (List.range EXTRA_WAITING_LEN).map some) with
  | .error c => .error c
  | .ok lay =>
    match dequeue FUEL lay o with
    | .error c => .error c
    | .ok (lay, _) => .ok lay

theorem pushQueuedOv_eq (lay : Layout) (x : Queued) :
    pushQueuedOv lay x =
      match (pushBackWrap QUEUE_SIZE lay.queue x).2 with
      | none => .ok { lay with queue := (pushBackWrap QUEUE_SIZE lay.queue x).1 }
      | some o => overflowStep { lay with queue := (pushBackWrap QUEUE_SIZE lay.queue x).1 } o := by
  unfold pushQueuedOv overflowStep
  generalize pushBackWrap QUEUE_SIZE lay.queue x = r
  obtain ⟨q, ov⟩ := r
  cases ov <;> rfl

/-- `handOver` instrumented: besides the layout it returns the events `dequeue` was called on, in
order, and whether every overflow step left the layout queue as it found it (`do_action` can queue an
event itself: the release of a one-shot key evicted from the full one-shot list) -/
def handOverLog : Layout → List Queued → Except Crash (Layout × List Queued × Bool)
  | lay, [] => .ok (lay, [], true)
  | lay, x :: rest =>
    match (pushBackWrap QUEUE_SIZE lay.queue x).2 with
    | none => handOverLog { lay with queue := (pushBackWrap QUEUE_SIZE lay.queue x).1 } rest
    | some o =>
      match overflowStep { lay with queue := (pushBackWrap QUEUE_SIZE lay.queue x).1 } o with
      | .error c => .error c
      | .ok lay2 =>
        match handOverLog lay2 rest with
        | .error c => .error c
        | .ok (lay', log, st) =>
          .ok (lay', o :: log, st && decide (lay2.queue = (pushBackWrap QUEUE_SIZE lay.queue x).1))

/-- the instrumented loop is the loop: same failure, same layout -/
theorem handOverLog_fst : ∀ (dq : List Queued) (lay : Layout),
    handOver lay dq = match handOverLog lay dq with
      | .error c => .error c
      | .ok r => .ok r.1 := by
  intro dq
  induction dq with
  | nil => intro lay; rfl
  | cons x rest ih =>
    intro lay
    simp only [handOver, handOverLog, pushQueuedOv_eq]
    cases ho : (pushBackWrap QUEUE_SIZE lay.queue x).2 with
    | none => simp only []; exact ih _
    | some o =>
      simp only []
      cases hs : overflowStep { lay with queue := (pushBackWrap QUEUE_SIZE lay.queue x).1 } o with
      | error c => rfl
      | ok lay2 =>
        simp only []
        rw [ih lay2]
        cases handOverLog lay2 rest with
        | error c => rfl
        | ok r => rfl

theorem pushBackWrap_conserve {α : Type} (cap : Nat) (l : List α) (x : α) (hc : 0 < cap) :
    (match (pushBackWrap cap l x).2 with
      | none => l ++ [x] = (pushBackWrap cap l x).1
      | some o => l ++ [x] = o :: (pushBackWrap cap l x).1) := by
  unfold pushBackWrap
  by_cases hl : l.length < cap
  · simp only [hl, if_true]
  · simp only [hl, if_false]
    cases l with
    | nil => simp only [List.length_nil] at hl; omega
    | cons a t => rfl

/-- **nothing is lost in the hand-over** when every overflow step leaves the layout queue alone: the
old queue followed by the handed-over events is what was processed at once followed by the new queue -/
theorem handOverLog_conserve : ∀ (dq : List Queued) (lay lay' : Layout) (log : List Queued),
    handOverLog lay dq = .ok (lay', log, true) → lay.queue ++ dq = log ++ lay'.queue := by
  intro dq
  induction dq with
  | nil => intro lay lay' log h; simp only [handOverLog] at h; cases h; simp
  | cons x rest ih =>
    intro lay lay' log h
    have hcons := pushBackWrap_conserve QUEUE_SIZE lay.queue x (by decide)
    simp only [handOverLog] at h
    split at h
    · rename_i hn
      rw [hn] at hcons
      have := ih _ _ _ h
      simp only [] at this hcons
      rw [← this, ← hcons]; simp
    · rename_i o ho
      rw [ho] at hcons
      simp only [] at hcons
      split at h
      · cases h
      · rename_i lay2 hs
        split at h
        · cases h
        · rename_i lay3 log3 st3 hr
          injection h with h
          injection h with h1 h
          injection h with h2 h3
          subst h1 h2
          simp only [Bool.and_eq_true, decide_eq_true_eq] at h3
          obtain ⟨hst, hq⟩ := h3
          subst hst
          have := ih _ _ _ hr
          rw [hq] at this
          rw [List.cons_append, ← this, ← List.cons_append, ← hcons]; simp

/-- with room in the layout queue the hand-over is a plain append: no failure, no overflow step -/
theorem handOver_fits : ∀ (dq : List Queued) (lay : Layout), lay.queue.length + dq.length ≤ QUEUE_SIZE →
    handOver lay dq = .ok { lay with queue := lay.queue ++ dq } := by
  intro dq
  induction dq with
  | nil => intro lay _; simp [handOver]
  | cons x rest ih =>
    intro lay h
    simp only [List.length_cons] at h
    have hp : pushBackWrap QUEUE_SIZE lay.queue x = (lay.queue ++ [x], none) := by
      unfold pushBackWrap; rw [if_pos (by omega)]
    simp only [handOver, pushQueuedOv_eq, hp]
    rw [ih _ (by simp only [List.length_append, List.length_cons, List.length_nil]; omega)]
    simp

/-! ## Overflow steps that provably leave the layout queue alone: a release, no waiting key -/

theorem flushWaitings_none : ∀ (l : List (Option Nat)) (fuel : Nat) (s : Layout),
    s.waiting = none → s.extraWaiting = [] → l.length + 2 ≤ fuel → flushWaitings fuel s l = .ok s := by
  intro l
  induction l with
  | nil =>
    intro fuel s _ _ hf
    cases fuel with
    | zero => omega
    | succ fuel => simp only [flushWaitings]
  | cons i rest ih =>
    intro fuel s hw he hf
    cases fuel with
    | zero => omega
    | succ fuel =>
      cases fuel with
      | zero => simp only [List.length_cons] at hf; omega
      | succ fuel =>
        have hwh : waitingIntoHold (fuel + 1) s i = .ok (s, .noEvent) := by
          cases i with
          | none => simp [waitingIntoHold, takeWaiting, hw]
          | some j => simp [waitingIntoHold, takeWaiting, he]
        simp only [flushWaitings, bind, Except.bind, hwh]
        exact ih (fuel + 1) s hw he (by simp only [List.length_cons] at hf; omega)

/-- `dequeue` of a release touches only the key states and the one-shot bookkeeping -/
theorem dequeue_release_frame (fuel : Nat) (s : Layout) (c : Coord) (since : Nat) :
    ∃ s' cu, dequeue (fuel + 1) s ⟨.release c, since⟩ = .ok (s', cu) ∧ s'.queue = s.queue ∧
      s'.waiting = s.waiting ∧ s'.extraWaiting = s.extraWaiting := by
  simp only [dequeue]
  generalize s.oneshot.handleRelease c = p
  obtain ⟨o, dr, ov⟩ := p
  simp only []
  generalize (if dr = true then releaseStates true c s.states .noEvent else (s.states, CustomEv.noEvent)) = p1
  obtain ⟨st1, cu1⟩ := p1
  simp only []
  cases ov with
  | none => exact ⟨_, _, rfl, rfl, rfl, rfl⟩
  | some c2 => exact ⟨_, _, rfl, rfl, rfl, rfl⟩

theorem overflowStep_release (lay : Layout) (o : Queued) (hw : lay.waiting = none) (he : lay.extraWaiting = [])
    (ho : o.ev.isPress = false) :
    ∃ lay', overflowStep lay o = .ok lay' ∧ lay'.queue = lay.queue ∧ lay'.waiting = none ∧ lay'.extraWaiting = [] := by
  obtain ⟨ev, since⟩ := o
  cases ev with
  | press c => cases ho
  | release c =>
    unfold overflowStep
    rw [FUEL_succ, flushWaitings_none _ _ _ hw he (by decide)]
    simp only []
    obtain ⟨s', cu, hd, h1, h2, h3⟩ := dequeue_release_frame 3999 lay c since
    rw [hd]
    exact ⟨s', rfl, h1, h2.trans hw, h3.trans he⟩

/-- **a hand-over whose overflow consists of releases, with no key waiting, cannot fail and loses
nothing**: the events that do not fit (the oldest ones of the old queue followed by the handed-over
events) are all releases -/
theorem handOverLog_releases : ∀ (dq : List Queued) (lay : Layout), lay.waiting = none → lay.extraWaiting = [] →
    (∀ q ∈ (lay.queue ++ dq).take (lay.queue.length + dq.length - QUEUE_SIZE), q.ev.isPress = false) →
    ∃ lay' log, handOverLog lay dq = .ok (lay', log, true) ∧ lay'.waiting = none ∧ lay'.extraWaiting = [] := by
  intro dq
  induction dq with
  | nil => intro lay hw he _; exact ⟨lay, [], rfl, hw, he⟩
  | cons x rest ih =>
    intro lay hw he hrel
    simp only [handOverLog]
    by_cases hl : lay.queue.length < QUEUE_SIZE
    · have hp : pushBackWrap QUEUE_SIZE lay.queue x = (lay.queue ++ [x], none) := by
        unfold pushBackWrap; rw [if_pos hl]
      simp only [hp]
      apply ih { lay with queue := lay.queue ++ [x] } hw he
      intro q hq
      apply hrel q
      simp only [List.length_append, List.length_cons, List.length_nil, List.append_assoc, List.cons_append,
        List.nil_append] at hq ⊢
      have e : lay.queue.length + 1 + rest.length = lay.queue.length + (rest.length + 1) := by omega
      rw [e] at hq
      exact hq
    · cases hq0 : lay.queue with
      | nil => rw [hq0] at hl; exact absurd (by decide : ([] : List Queued).length < QUEUE_SIZE) hl
      | cons o t =>
        have hp : pushBackWrap QUEUE_SIZE lay.queue x = (t ++ [x], some o) := by
          unfold pushBackWrap; rw [if_neg hl, hq0]
        rw [hq0] at hrel hl
        simp only [List.length_cons] at hrel hl
        have hn : t.length + 1 + (rest.length + 1) - QUEUE_SIZE = (t.length + 1 + rest.length - QUEUE_SIZE) + 1 := by omega
        rw [hn, List.cons_append, List.take_succ_cons] at hrel
        have ho : o.ev.isPress = false := hrel o (List.mem_cons_self ..)
        rw [← hq0]
        simp only [hp]
        obtain ⟨lay2, hs, hq2, hw2, he2⟩ := overflowStep_release { lay with queue := t ++ [x] } o hw he ho
        rw [hs]
        simp only []
        have hq2' : lay2.queue = t ++ [x] := hq2
        obtain ⟨lay', log, hr, hw', he'⟩ := ih lay2 hw2 he2 (by
          intro q hq
          apply hrel q
          rw [hq2'] at hq
          simp only [List.length_append, List.length_cons, List.length_nil, List.append_assoc, List.cons_append,
            List.nil_append] at hq
          exact List.mem_cons_of_mem _ hq)
        rw [hr]
        simp only []
        refine ⟨lay', o :: log, ?_, hw', he'⟩
        simp only [hq2', decide_true, Bool.and_true]

/-! ## Histories (`stepsV2` of Props/C09V2.lean) reach only reachable states -/

theorem ticksV2_reach : ∀ (n : Nat) (s0 s s' : LayoutV2), ReachV2 s0 s → ticksV2 LayoutV2.tick n s = .ok s' → ReachV2 s0 s' := by
  intro n
  induction n with
  | zero => intro s0 s s' hr h; simp only [ticksV2] at h; cases h; exact hr
  | succ n ih =>
    intro s0 s s' hr h
    simp only [ticksV2] at h
    split at h
    · cases h
    · rename_i s1 cu ht
      exact ih s0 s1 s' (ReachV2.tick s s1 cu hr ht) h

theorem stepsV2_reach : ∀ (hist : List In) (s0 s s' : LayoutV2), ReachV2 s0 s → stepsV2 LayoutV2.tick hist s = .ok s' →
    ReachV2 s0 s' := by
  intro hist
  induction hist with
  | nil => intro s0 s s' hr h; simp only [stepsV2] at h; cases h; exact hr
  | cons i rest ih =>
    intro s0 s s' hr h
    cases i with
    | p y =>
      simp only [stepsV2] at h
      split at h
      · cases h
      · rename_i s1 he
        exact ih s0 s1 s' (ReachV2.event s s1 _ hr he) h
    | r y =>
      simp only [stepsV2] at h
      split at h
      · cases h
      · rename_i s1 he
        exact ih s0 s1 s' (ReachV2.event s s1 _ hr he) h
    | t n =>
      simp only [stepsV2] at h
      split at h
      · cases h
      · rename_i s1 ht
        exact ih s0 s1 s' (ticksV2_reach n s0 s s1 hr ht) h

end KVerif.C09
