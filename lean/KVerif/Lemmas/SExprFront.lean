/-
Helper lemmas and abbreviations for Props/C03.lean that are not about the lexer or the templates:
monotonicity of the "every node" predicate, totality of the repaired Debug printer, the ranked-chain
argument for variable resolution, and the two divergence lemmas for self-referential variables.
-/
import KVerif.Lemmas.SExprParse
import KVerif.Model.Template
namespace KVerif.SExpr

mutual
theorem SExpr.All.imp {P Q : Option (List Nat) → Span → Prop} (h : ∀ t sp, P t sp → Q t sp) :
    ∀ e : SExpr, e.All P → e.All Q
  | .atom _ _, he => h _ _ he
  | .list xs _, he => ⟨h _ _ he.1, SExpr.AllL.imp h xs he.2⟩
theorem SExpr.AllL.imp {P Q : Option (List Nat) → Span → Prop} (h : ∀ t sp, P t sp → Q t sp) :
    ∀ xs : List SExpr, SExpr.AllL P xs → SExpr.AllL Q xs
  | [], _ => trivial
  | x :: r, he => ⟨SExpr.All.imp h x he.1, SExpr.AllL.imp h r he.2⟩
end

mutual
theorem debug_total_aux (fx : Fixes) (h : fx.debugSat = true) : ∀ e : SExpr, ∃ bs, e.debug fx = .ok bs
  | .atom t _ => ⟨t, rfl⟩
  | .list xs _ => by
    obtain ⟨inner, hi⟩ := debugList_total_aux fx h xs
    refine ⟨[40] ++ inner ++ [41], ?_⟩
    simp [SExpr.debug, h, hi, bind, Except.bind, pure, Except.pure]
theorem debugList_total_aux (fx : Fixes) (h : fx.debugSat = true) : ∀ xs : List SExpr, ∃ bs, SExpr.debugList fx xs = .ok bs
  | [] => ⟨[], rfl⟩
  | [x] => by
    obtain ⟨a, ha⟩ := debug_total_aux fx h x
    exact ⟨a, by simp [SExpr.debugList, ha]⟩
  | x :: y :: r => by
    obtain ⟨a, ha⟩ := debug_total_aux fx h x
    obtain ⟨b, hb⟩ := debugList_total_aux fx h (y :: r)
    exact ⟨a ++ [32] ++ b, by simp [SExpr.debugList, ha, hb, bind, Except.bind, pure, Except.pure]⟩
end

/-- the `$name → value` hops that `SExpr::atom`/`SExpr::list` follow are ranked: some measure
strictly decreases along every hop from a variable whose value is an atom `$m` to the variable `m` -/
def ChainRanked (vars : Vars) (rank : Bytes → Nat) : Prop :=
  ∀ n t sp m v, vars.lookup n = some (.atom t sp) → stripDollar t = some m → vars.lookup m = some v →
    rank m < rank n

theorem resolve_value (vars : Vars) (rank : Bytes → Nat) (h : ChainRanked vars rank) :
    ∀ k m v, vars.lookup m = some v → rank m ≤ k → ∀ fuel, k ≤ fuel →
      (∃ r, v.atomV fuel (some vars) = .ok r) ∧ (∃ r, v.listV fuel (some vars) = .ok r) := by
  intro k
  induction k with
  | zero =>
    intro m v hm hk fuel _
    cases v with
    | list xs sp => exact ⟨⟨none, by simp [SExpr.atomV]⟩, ⟨some xs, by simp [SExpr.listV]⟩⟩
    | atom t sp =>
      cases hd : stripDollar t with
      | none => unfold SExpr.atomV SExpr.listV; simp [hd]
      | some m' =>
        cases hl : vars.lookup m' with
        | none => unfold SExpr.atomV SExpr.listV; simp [hd, hl]
        | some v' => have := h m t sp m' v' hm hd hl; omega
  | succ k ih =>
    intro m v hm hk fuel hf
    cases v with
    | list xs sp => exact ⟨⟨none, by simp [SExpr.atomV]⟩, ⟨some xs, by simp [SExpr.listV]⟩⟩
    | atom t sp =>
      cases hd : stripDollar t with
      | none => unfold SExpr.atomV SExpr.listV; simp [hd]
      | some m' =>
        cases hl : vars.lookup m' with
        | none => unfold SExpr.atomV SExpr.listV; simp [hd, hl]
        | some v' =>
          have hr := h m t sp m' v' hm hd hl
          obtain ⟨f, rfl⟩ : ∃ f, fuel = f + 1 := ⟨fuel - 1, by omega⟩
          unfold SExpr.atomV SExpr.listV
          simp only [hd, hl]
          exact ih m' v' hl (by omega) f (by omega)

theorem selfref_diverges (sp' : Span) : ∀ (fuel : Nat) (sp : Span),
    (SExpr.atom [36, 97] sp).atomV fuel (some [([97], .atom [36, 97] sp')]) = .error .fuelOut := by
  intro fuel
  induction fuel with
  | zero => intro sp; rfl
  | succ f ih => intro sp; exact ih sp'

theorem pushAllAtoms_list_cycle (sp1 sp2 sp3 : Span) :
    ∀ (fuel : Nat) (sp4 : Span),
      pushAllAtoms fuel [([108], .list [.atom [120] sp1, .atom [36, 108] sp2] sp3)] [.atom [36, 108] sp4] =
        .error .fuelOut := by
  intro fuel
  induction fuel using Nat.strongRecOn with
  | _ fuel ih =>
    intro sp4
    match fuel with
    | 0 => rfl
    | 1 => rfl
    | f + 2 =>
      have := ih f (by omega) sp2
      simp [pushAllAtoms, SExpr.atomV, SExpr.listV, stripDollar, List.lookup, bind, Except.bind, pure, Except.pure, this]

/-- single-line spans and trees, to write parse results compactly -/
def sp1 (a b : Nat) : Span := ⟨⟨a, 0, 0⟩, ⟨b, 0, 0⟩, 1⟩
def A (t : String) (a b : Nat) : SExpr := .atom (kw t) (sp1 a b)
def L (xs : List SExpr) (a b : Nat) : SExpr := .list xs (sp1 a b)


end KVerif.SExpr
