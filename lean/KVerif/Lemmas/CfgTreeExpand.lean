/-
Lemmas for C16 about template expansion: the loop of `expand` (deftemplate.rs) against the
substitution semantics `expandSpec`.
-/
import KVerif.Model.CfgTree
namespace KVerif.CfgTree

mutual
  /-- fully expanded: no `(template-expand …)` / `(t! …)` list anywhere -/
  def nfTree : Tree → Bool
    | .atom _ => true
    | .list l => !isExpandHead l && nfList l
  def nfList : List Tree → Bool
    | [] => true
    | t :: rest => nfTree t && nfList rest
end

mutual
  def depthTree : Tree → Nat
    | .atom _ => 0
    | .list l => 1 + depthList l
  def depthList : List Tree → Nat
    | [] => 0
    | t :: rest => max (depthTree t) (depthList rest)
end

theorem nfList_append (a b : List Tree) : nfList (a ++ b) = (nfList a && nfList b) := by
  induction a with
  | nil => simp [nfList]
  | cons t rest ih => simp [nfList, ih, Bool.and_assoc]

theorem depthList_append (a b : List Tree) : depthList (a ++ b) = max (depthList a) (depthList b) := by
  induction a with
  | nil => simp [depthList]
  | cons t rest ih => simp [depthList, ih, Nat.max_assoc]

/-! ### the pass -/

theorem expandPass_append (rec : List Tree → Res (List Tree)) (T : List Template) (a b : List Tree) :
    expandPass rec T (a ++ b) =
      match expandPass rec T a with
      | .error e => .error e
      | .ok (ra, ca) => match expandPass rec T b with
        | .error e => .error e
        | .ok (rb, cb) => .ok (ra ++ rb, ca || cb) := by
  induction a with
  | nil =>
    simp only [List.nil_append, expandPass]
    cases expandPass rec T b with
    | error e => rfl
    | ok p => obtain ⟨rb, cb⟩ := p; simp
  | cons t rest ih =>
    cases t with
    | atom s =>
      simp only [List.cons_append, expandPass, ih]
      cases expandPass rec T rest with
      | error e => rfl
      | ok p =>
        obtain ⟨ra, ca⟩ := p
        cases expandPass rec T b with
        | error e => rfl
        | ok q => obtain ⟨rb, cb⟩ := q; simp
    | list l =>
      simp only [List.cons_append, expandPass]
      split
      · cases instantiate T l with
        | error e => rfl
        | ok repl =>
          simp only [ih]
          cases expandPass rec T rest with
          | error e => rfl
          | ok p =>
            obtain ⟨ra, ca⟩ := p
            cases expandPass rec T b with
            | error e => rfl
            | ok q => obtain ⟨rb, cb⟩ := q; simp
      · cases rec l with
        | error e => rfl
        | ok l' =>
          simp only [ih]
          cases expandPass rec T rest with
          | error e => rfl
          | ok p =>
            obtain ⟨ra, ca⟩ := p
            cases expandPass rec T b with
            | error e => rfl
            | ok q => obtain ⟨rb, cb⟩ := q; simp

/-- a pass only uses `rec` on the nested lists: a more defined `rec` gives the same result -/
theorem expandPass_mono (rec rec' : List Tree → Res (List Tree)) (T : List Template)
    (h : ∀ l x, rec l = .ok x → rec' l = .ok x) :
    ∀ (ts : List Tree) (y : List Tree × Bool), expandPass rec T ts = .ok y →
      expandPass rec' T ts = .ok y := by
  intro ts
  induction ts with
  | nil => intro y hy; simpa [expandPass] using hy
  | cons t rest ih =>
    intro y hy
    cases t with
    | atom s =>
      simp only [expandPass] at hy ⊢
      cases hr : expandPass rec T rest with
      | error e => simp [hr] at hy
      | ok p =>
        rw [hr] at hy
        rw [ih p hr]; exact hy
    | list l =>
      simp only [expandPass] at hy ⊢
      split at hy
      · rename_i hh
        simp only [hh, if_true]
        cases hi : instantiate T l with
        | error e => simp [hi] at hy
        | ok repl =>
          simp only [hi] at hy ⊢
          cases hr : expandPass rec T rest with
          | error e => simp [hr] at hy
          | ok p => rw [hr] at hy; rw [ih p hr]; exact hy
      · rename_i hh
        simp only [hh]
        cases hl : rec l with
        | error e => simp [hl] at hy
        | ok l' =>
          simp only [hl] at hy
          simp only [h l l' hl]
          cases hr : expandPass rec T rest with
          | error e => simp [hr] at hy
          | ok p => rw [hr] at hy; rw [ih p hr]; exact hy

theorem expandLoop_mono (T : List Template) : ∀ (f f' : Nat) (ts r : List Tree),
    expandLoop f T ts = .ok r → f ≤ f' → expandLoop f' T ts = .ok r := by
  intro f
  induction f with
  | zero => intro f' ts r h; simp [expandLoop, fuelOut] at h
  | succ f ih =>
    intro f' ts r h hle
    obtain ⟨g, rfl⟩ : ∃ g, f' = g + 1 := ⟨f' - 1, by omega⟩
    have hg : f ≤ g := by omega
    simp only [expandLoop] at h ⊢
    cases hp : expandPass (expandLoop f T) T ts with
    | error e => simp [hp] at h
    | ok p =>
      obtain ⟨r1, c⟩ := p
      simp only [hp] at h
      have := expandPass_mono (expandLoop f T) (expandLoop g T) T
        (fun l x hx => ih g l x hx hg) ts (r1, c) hp
      simp only [this]
      cases c with
      | true => simp only [if_true] at h ⊢; exact ih g r1 r h hg
      | false => simpa using h


/-! ### fully expanded forests are left alone -/

theorem expandPass_nf (rec : List Tree → Res (List Tree)) (T : List Template) :
    ∀ (ts : List Tree), nfList ts = true → (∀ l, Tree.list l ∈ ts → rec l = .ok l) →
      expandPass rec T ts = .ok (ts, false) := by
  intro ts
  induction ts with
  | nil => intro _ _; rfl
  | cons t rest ih =>
    intro hn hrec
    simp only [nfList, Bool.and_eq_true] at hn
    have hrest := ih hn.2 (fun l hl => hrec l (List.mem_cons_of_mem _ hl))
    cases t with
    | atom s => simp [expandPass, hrest]
    | list l =>
      simp only [nfTree, Bool.and_eq_true, Bool.not_eq_true'] at hn
      simp [expandPass, hn.1.1, hrec l (by simp), hrest]

theorem depthList_mem (ts : List Tree) (l : List Tree) (h : Tree.list l ∈ ts) :
    depthList l < depthList ts := by
  induction ts with
  | nil => simp at h
  | cons t rest ih =>
    simp only [List.mem_cons] at h
    simp only [depthList]
    cases h with
    | inl h => subst h; simp only [depthTree]; omega
    | inr h => have := ih h; omega

theorem nfList_mem (ts : List Tree) (l : List Tree) (h : Tree.list l ∈ ts) (hn : nfList ts = true) :
    nfList l = true := by
  induction ts with
  | nil => simp at h
  | cons t rest ih =>
    simp only [nfList, Bool.and_eq_true] at hn
    simp only [List.mem_cons] at h
    cases h with
    | inl h => subst h; simp only [nfTree, Bool.and_eq_true] at hn; exact hn.1.2
    | inr h => exact ih h hn.2

/-- `expand` on a forest that contains no expansion returns it unchanged (given stack for its depth) -/
theorem expandLoop_nf (T : List Template) : ∀ (f : Nat) (ts : List Tree), nfList ts = true →
    depthList ts < f → expandLoop f T ts = .ok ts := by
  intro f
  induction f with
  | zero => intro ts _ h; omega
  | succ f ih =>
    intro ts hn hd
    have := expandPass_nf (expandLoop f T) T ts hn (fun l hl =>
      ih l (nfList_mem ts l hl hn) (by have := depthList_mem ts l hl; omega))
    simp [expandLoop, this]

/-! ### building blocks of the simulation -/

theorem expandLoop_list (T : List Template) (F : Nat) (l l' : List Tree)
    (hh : isExpandHead l = false) (h : expandLoop F T l = .ok l') :
    expandLoop (F + 1) T [.list l] = .ok [.list l'] := by
  simp [expandLoop, expandPass, hh, h]

theorem expandLoop_head (T : List Template) (F : Nat) (l repl r : List Tree)
    (hh : isExpandHead l = true) (hi : instantiate T l = .ok repl)
    (h : expandLoop F T repl = .ok r) :
    expandLoop (F + 1) T [.list l] = .ok r := by
  simp [expandLoop, expandPass, hh, hi, h]

theorem expandLoop_atom (T : List Template) (a : Str) :
    expandLoop 1 T [.atom a] = .ok [.atom a] := by
  simp [expandLoop, expandPass]

/-- fuel under which `rec := expandLoop G` is the identity on the nested lists of a fully
expanded forest -/
theorem rec_nf (T : List Template) (G : Nat) (b : List Tree) (hn : nfList b = true)
    (hG : depthList b ≤ G) : ∀ l, Tree.list l ∈ b → expandLoop G T l = .ok l := by
  intro l hl
  exact expandLoop_nf T G l (nfList_mem b l hl hn) (by have := depthList_mem b l hl; omega)

/-- a finished part on the right does not disturb the expansion of what is left of it -/
theorem expandLoop_append_nf_right (T : List Template) : ∀ (Fa : Nat) (a ra b : List Tree),
    nfList b = true → expandLoop Fa T a = .ok ra →
    ∃ F, expandLoop F T (a ++ b) = .ok (ra ++ b) := by
  intro Fa
  induction Fa with
  | zero => intro a ra b _ h; simp [expandLoop, fuelOut] at h
  | succ Fa ih =>
    intro a ra b hb h
    simp only [expandLoop] at h
    cases hp : expandPass (expandLoop Fa T) T a with
    | error e => simp [hp] at h
    | ok p =>
      obtain ⟨a1, ca⟩ := p
      simp only [hp] at h
      -- one combined pass, with enough fuel for the nested lists of both parts
      have pass : ∀ G, Fa ≤ G → depthList b ≤ G →
          expandPass (expandLoop G T) T (a ++ b) = .ok (a1 ++ b, ca) := by
        intro G h1 h2
        rw [expandPass_append]
        rw [expandPass_mono (expandLoop Fa T) (expandLoop G T) T
          (fun l x hx => expandLoop_mono T Fa G l x hx h1) a (a1, ca) hp]
        rw [expandPass_nf (expandLoop G T) T b hb (rec_nf T G b hb h2)]
        simp
      cases ca with
      | false =>
        simp only [Bool.false_eq_true, if_false, Except.ok.injEq] at h
        subst h
        refine ⟨max Fa (depthList b) + 1, ?_⟩
        simp [expandLoop, pass (max Fa (depthList b)) (Nat.le_max_left _ _) (Nat.le_max_right _ _)]
      | true =>
        simp only [if_true] at h
        obtain ⟨F, hF⟩ := ih a1 ra b hb h
        let G := max F (max Fa (depthList b))
        refine ⟨G + 1, ?_⟩
        have hG1 : Fa ≤ G := by simp only [G]; omega
        have hG2 : depthList b ≤ G := by simp only [G]; omega
        have hG3 : F ≤ G := by simp only [G]; omega
        simp only [expandLoop, pass G hG1 hG2, if_true]
        exact expandLoop_mono T F G _ _ hF hG3

/-- … nor does a finished part on the left -/
theorem expandLoop_append_nf_left (T : List Template) : ∀ (Fb : Nat) (a b rb : List Tree),
    nfList a = true → expandLoop Fb T b = .ok rb →
    ∃ F, expandLoop F T (a ++ b) = .ok (a ++ rb) := by
  intro Fb
  induction Fb with
  | zero => intro a b rb _ h; simp [expandLoop, fuelOut] at h
  | succ Fb ih =>
    intro a b rb ha h
    simp only [expandLoop] at h
    cases hp : expandPass (expandLoop Fb T) T b with
    | error e => simp [hp] at h
    | ok p =>
      obtain ⟨b1, cb⟩ := p
      simp only [hp] at h
      have pass : ∀ G, Fb ≤ G → depthList a ≤ G →
          expandPass (expandLoop G T) T (a ++ b) = .ok (a ++ b1, cb) := by
        intro G h1 h2
        rw [expandPass_append]
        rw [expandPass_nf (expandLoop G T) T a ha (rec_nf T G a ha h2)]
        rw [expandPass_mono (expandLoop Fb T) (expandLoop G T) T
          (fun l x hx => expandLoop_mono T Fb G l x hx h1) b (b1, cb) hp]
        simp
      cases cb with
      | false =>
        simp only [Bool.false_eq_true, if_false, Except.ok.injEq] at h
        subst h
        refine ⟨max Fb (depthList a) + 1, ?_⟩
        simp [expandLoop, pass (max Fb (depthList a)) (Nat.le_max_left _ _) (Nat.le_max_right _ _)]
      | true =>
        simp only [if_true] at h
        obtain ⟨F, hF⟩ := ih a b1 rb ha h
        let G := max F (max Fb (depthList a))
        refine ⟨G + 1, ?_⟩
        have hG1 : Fb ≤ G := by simp only [G]; omega
        have hG2 : depthList a ≤ G := by simp only [G]; omega
        have hG3 : F ≤ G := by simp only [G]; omega
        simp only [expandLoop, pass G hG1 hG2, if_true]
        exact expandLoop_mono T F G _ _ hF hG3


/-- `expand` works on the parts of a forest independently: if both parts expand to fully expanded
results, the concatenation expands to the concatenation of the results. -/
theorem expandLoop_append (T : List Template) : ∀ (Fa Fb : Nat) (a ra b rb : List Tree),
    expandLoop Fa T a = .ok ra → expandLoop Fb T b = .ok rb →
    nfList ra = true → nfList rb = true →
    ∃ F, expandLoop F T (a ++ b) = .ok (ra ++ rb) := by
  intro Fa
  induction Fa with
  | zero => intro Fb a ra b rb h; simp [expandLoop, fuelOut] at h
  | succ Fa ih =>
    intro Fb a ra b rb ha hb hna hnb
    cases Fb with
    | zero => simp [expandLoop, fuelOut] at hb
    | succ Fb =>
      simp only [expandLoop] at ha hb
      cases hpa : expandPass (expandLoop Fa T) T a with
      | error e => simp [hpa] at ha
      | ok pa =>
        obtain ⟨a1, ca⟩ := pa
        simp only [hpa] at ha
        cases hpb : expandPass (expandLoop Fb T) T b with
        | error e => simp [hpb] at hb
        | ok pb =>
          obtain ⟨b1, cb⟩ := pb
          simp only [hpb] at hb
          have pass : ∀ G, Fa ≤ G → Fb ≤ G →
              expandPass (expandLoop G T) T (a ++ b) = .ok (a1 ++ b1, ca || cb) := by
            intro G h1 h2
            rw [expandPass_append]
            rw [expandPass_mono (expandLoop Fa T) (expandLoop G T) T
              (fun l x hx => expandLoop_mono T Fa G l x hx h1) a (a1, ca) hpa]
            rw [expandPass_mono (expandLoop Fb T) (expandLoop G T) T
              (fun l x hx => expandLoop_mono T Fb G l x hx h2) b (b1, cb) hpb]
          -- what remains after the first pass
          have rest : (ca || cb) = true → ∃ F, expandLoop F T (a1 ++ b1) = .ok (ra ++ rb) := by
            intro hc
            cases ca with
            | false =>
              simp only [Bool.false_eq_true, if_false, Except.ok.injEq] at ha
              subst ha
              cases cb with
              | false => simp at hc
              | true =>
                simp only [if_true] at hb
                exact expandLoop_append_nf_left T Fb a1 b1 rb hna hb
            | true =>
              simp only [if_true] at ha
              cases cb with
              | false =>
                simp only [Bool.false_eq_true, if_false, Except.ok.injEq] at hb
                subst hb
                exact expandLoop_append_nf_right T Fa a1 ra b1 hnb ha
              | true =>
                simp only [if_true] at hb
                exact ih Fb a1 ra b1 rb ha hb hna hnb
          cases hc : (ca || cb) with
          | false =>
            simp only [Bool.or_eq_false_iff] at hc
            obtain ⟨rfl, rfl⟩ := hc
            simp only [Bool.false_eq_true, if_false, Except.ok.injEq] at ha hb
            subst ha; subst hb
            refine ⟨max Fa Fb + 1, ?_⟩
            simp [expandLoop, pass (max Fa Fb) (Nat.le_max_left _ _) (Nat.le_max_right _ _)]
          | true =>
            obtain ⟨F, hF⟩ := rest hc
            let G := max F (max Fa Fb)
            have hG1 : Fa ≤ G := by simp only [G]; omega
            have hG2 : Fb ≤ G := by simp only [G]; omega
            have hG3 : F ≤ G := by simp only [G]; omega
            refine ⟨G + 1, ?_⟩
            simp only [expandLoop, pass G hG1 hG2, hc, if_true]
            exact expandLoop_mono T F G _ _ hF hG3

/-! ### the substitution semantics -/

theorem flatMapR_cons (g : Tree → Res (List Tree)) (t : Tree) (rest : List Tree) :
    flatMapR g (t :: rest) =
      match g t with
      | .error e => .error e
      | .ok r1 => match flatMapR g rest with
        | .error e => .error e
        | .ok r2 => .ok (r1 ++ r2) := rfl

/-- one element of the forest under `expandSpec (f+1)` -/
def specStep (f : Nat) (T : List Template) (t : Tree) : Res (List Tree) :=
  match t with
  | .atom a => .ok [.atom a]
  | .list l =>
    if isExpandHead l then
      match instantiate T l with
      | .error e => .error e
      | .ok repl => expandSpec f T repl
    else
      match expandSpec f T l with
      | .error e => .error e
      | .ok l' => .ok [.list l']

theorem expandSpec_succ (f : Nat) (T : List Template) (ts : List Tree) :
    expandSpec (f + 1) T ts = flatMapR (specStep f T) ts := rfl

/-- **completeness of `expand` for the substitution semantics.** If substituting template bodies
for their calls (with conditional evaluation), everywhere and recursively, yields the fully expanded
forest `r`, then the loop of `expand` terminates with exactly `r`. -/
theorem expandLoop_complete (T : List Template) : ∀ (f : Nat) (ts r : List Tree),
    expandSpec f T ts = .ok r → nfList r = true → ∃ F, expandLoop F T ts = .ok r := by
  intro f
  induction f with
  | zero => intro ts r h; simp [expandSpec, fuelOut] at h
  | succ f ih =>
    intro ts
    induction ts with
    | nil =>
      intro r h _
      simp only [expandSpec_succ, flatMapR, Except.ok.injEq] at h
      subst h
      exact ⟨1, by simp [expandLoop, expandPass]⟩
    | cons t rest ihr =>
      intro r h hn
      rw [expandSpec_succ, flatMapR_cons] at h
      cases h1 : specStep f T t with
      | error e => simp [h1] at h
      | ok r1 =>
        simp only [h1] at h
        cases h2 : flatMapR (specStep f T) rest with
        | error e => simp [h2] at h
        | ok r2 =>
          simp only [h2, Except.ok.injEq] at h
          subst h
          rw [nfList_append, Bool.and_eq_true] at hn
          obtain ⟨F2, hF2⟩ := ihr r2 (by rw [expandSpec_succ]; exact h2) hn.2
          -- the first element on its own
          have first : ∃ F1, expandLoop F1 T [t] = .ok r1 := by
            cases t with
            | atom a =>
              simp only [specStep, Except.ok.injEq] at h1
              subst h1
              exact ⟨1, expandLoop_atom T a⟩
            | list l =>
              simp only [specStep] at h1
              split at h1
              · rename_i hh
                cases hi : instantiate T l with
                | error e => simp [hi] at h1
                | ok repl =>
                  simp only [hi] at h1
                  obtain ⟨F, hF⟩ := ih repl r1 h1 hn.1
                  exact ⟨F + 1, expandLoop_head T F l repl r1 hh hi hF⟩
              · rename_i hh
                cases hl : expandSpec f T l with
                | error e => simp [hl] at h1
                | ok l' =>
                  simp only [hl, Except.ok.injEq] at h1
                  subst h1
                  have hnl : nfList l' = true := by
                    have := hn.1
                    simp only [nfList, nfTree, Bool.and_true, Bool.and_eq_true] at this
                    exact this.2
                  obtain ⟨F, hF⟩ := ih l l' hl hnl
                  exact ⟨F + 1, expandLoop_list T F l l' (by simpa using hh) hF⟩
          obtain ⟨F1, hF1⟩ := first
          have := expandLoop_append T F1 F2 [t] r1 rest r2 hF1 hF2 hn.1 hn.2
          simpa using this


/-! ### the substitution semantics is compositional -/

theorem flatMapR_append (g : Tree → Res (List Tree)) (a b : List Tree) :
    flatMapR g (a ++ b) =
      match flatMapR g a with
      | .error e => .error e
      | .ok ra => match flatMapR g b with
        | .error e => .error e
        | .ok rb => .ok (ra ++ rb) := by
  induction a with
  | nil => simp only [List.nil_append, flatMapR]; cases flatMapR g b <;> rfl
  | cons t rest ih =>
    simp only [List.cons_append, flatMapR, ih]
    cases g t with
    | error e => rfl
    | ok r1 =>
      cases flatMapR g rest with
      | error e => rfl
      | ok ra => cases flatMapR g b <;> simp

theorem flatMapR_imp (g g' : Tree → Res (List Tree)) (h : ∀ t x, g t = .ok x → g' t = .ok x) :
    ∀ (ts r : List Tree), flatMapR g ts = .ok r → flatMapR g' ts = .ok r := by
  intro ts
  induction ts with
  | nil => intro r hr; simpa [flatMapR] using hr
  | cons t rest ih =>
    intro r hr
    simp only [flatMapR] at hr ⊢
    cases h1 : g t with
    | error e => simp [h1] at hr
    | ok r1 =>
      simp only [h1] at hr
      cases h2 : flatMapR g rest with
      | error e => simp [h2] at hr
      | ok r2 =>
        simp only [h2] at hr
        simp only [h t r1 h1, ih r2 h2]; exact hr

theorem expandSpec_mono (T : List Template) : ∀ (f f' : Nat) (ts r : List Tree),
    expandSpec f T ts = .ok r → f ≤ f' → expandSpec f' T ts = .ok r := by
  intro f
  induction f with
  | zero => intro f' ts r h; simp [expandSpec, fuelOut] at h
  | succ f ih =>
    intro f' ts r h hle
    obtain ⟨g, rfl⟩ : ∃ g, f' = g + 1 := ⟨f' - 1, by omega⟩
    have hg : f ≤ g := by omega
    rw [expandSpec_succ] at h ⊢
    refine flatMapR_imp _ _ ?_ ts r h
    intro t x hx
    cases t with
    | atom a => exact hx
    | list l =>
      simp only [specStep] at hx ⊢
      split
      · rename_i hh
        simp only [hh, if_true] at hx
        cases hi : instantiate T l with
        | error e => simp [hi] at hx
        | ok repl => simp only [hi] at hx ⊢; exact ih g repl x hx hg
      · rename_i hh
        simp only [hh] at hx
        cases hl : expandSpec f T l with
        | error e => simp [hl] at hx
        | ok l' =>
          simp only [hl] at hx
          simp only [ih g l l' hl hg]; exact hx

/-- the fuel-free reading of the substitution semantics -/
def Expands (T : List Template) (ts r : List Tree) : Prop := ∃ f, expandSpec f T ts = .ok r

theorem Expands.append {T : List Template} {a ra b rb : List Tree} (ha : Expands T a ra)
    (hb : Expands T b rb) : Expands T (a ++ b) (ra ++ rb) := by
  obtain ⟨fa, ha⟩ := ha
  obtain ⟨fb, hb⟩ := hb
  refine ⟨max fa fb + 1, ?_⟩
  have ha' := expandSpec_mono T fa (max fa fb + 1) a ra ha (by omega)
  have hb' := expandSpec_mono T fb (max fa fb + 1) b rb hb (by omega)
  rw [expandSpec_succ] at ha' hb' ⊢
  rw [flatMapR_append, ha', hb']

theorem Expands.split {T : List Template} {a b r : List Tree} (h : Expands T (a ++ b) r) :
    ∃ ra rb, r = ra ++ rb ∧ Expands T a ra ∧ Expands T b rb := by
  obtain ⟨f, h⟩ := h
  cases f with
  | zero => simp [expandSpec, fuelOut] at h
  | succ f =>
    rw [expandSpec_succ, flatMapR_append] at h
    cases ha : flatMapR (specStep f T) a with
    | error e => simp [ha] at h
    | ok ra =>
      simp only [ha] at h
      cases hb : flatMapR (specStep f T) b with
      | error e => simp [hb] at h
      | ok rb =>
        simp only [hb, Except.ok.injEq] at h
        exact ⟨ra, rb, h.symm, ⟨f + 1, ha⟩, ⟨f + 1, hb⟩⟩

/-- a template call expands to what its instantiated body expands to -/
theorem Expands.call {T : List Template} {l repl r : List Tree} (hh : isExpandHead l = true)
    (hi : instantiate T l = .ok repl) : Expands T [.list l] r ↔ Expands T repl r := by
  constructor
  · rintro ⟨f, h⟩
    cases f with
    | zero => simp [expandSpec, fuelOut] at h
    | succ f =>
      simp only [expandSpec_succ, flatMapR, specStep, hh, if_true, hi] at h
      cases hr : expandSpec f T repl with
      | error e => simp [hr] at h
      | ok x =>
        simp only [hr, List.append_nil, Except.ok.injEq] at h
        subst h
        exact ⟨f, hr⟩
  · rintro ⟨f, h⟩
    refine ⟨f + 1, ?_⟩
    simp [expandSpec_succ, flatMapR, specStep, hh, hi, h]

/-- a list that is not a call expands inside -/
theorem Expands.nested {T : List Template} {l : List Tree} {r : List Tree}
    (hh : isExpandHead l = false) :
    Expands T [.list l] r ↔ ∃ l', r = [.list l'] ∧ Expands T l l' := by
  constructor
  · rintro ⟨f, h⟩
    cases f with
    | zero => simp [expandSpec, fuelOut] at h
    | succ f =>
      simp only [expandSpec_succ, flatMapR, specStep, hh] at h
      cases hr : expandSpec f T l with
      | error e => simp [hr] at h
      | ok l' =>
        simp only [hr, List.append_nil, Except.ok.injEq] at h
        exact ⟨l', by simpa using h.symm, f, hr⟩
  · rintro ⟨l', rfl, f, h⟩
    refine ⟨f + 1, ?_⟩
    simp [expandSpec_succ, flatMapR, specStep, hh, h]

theorem isExpandHead_cons (hd : Tree) (a b : List Tree) :
    isExpandHead (hd :: a) = isExpandHead (hd :: b) := by
  cases hd <;> rfl

/-- **template call = substituted body, anywhere.**  In any context, a forest with the call
`(template-expand name args…)` and the same forest with the instantiated body spliced in its place
expand to the same result. -/
theorem Expands.fill_call {T : List Template} {l repl : List Tree} (hh : isExpandHead l = true)
    (hi : instantiate T l = .ok repl) (c : FCtx) (hc : c.Plain) (r : List Tree) :
    Expands T (c.fill [.list l]) r ↔ Expands T (c.fill repl) r := by
  induction c generalizing r with
  | here pre post =>
    simp only [FCtx.fill]
    constructor
    · intro h
      obtain ⟨r12, r3, rfl, h12, h3⟩ := Expands.split h
      obtain ⟨r1, r2, rfl, h1, h2⟩ := Expands.split h12
      exact (h1.append ((Expands.call hh hi).mp h2)).append h3
    · intro h
      obtain ⟨r12, r3, rfl, h12, h3⟩ := Expands.split h
      obtain ⟨r1, r2, rfl, h1, h2⟩ := Expands.split h12
      exact (h1.append ((Expands.call hh hi).mpr h2)).append h3
  | under pre hd c post ih =>
    simp only [FCtx.fill]
    have key : ∀ x, Expands T [.list (hd :: c.fill [.list l])] x ↔
        Expands T [.list (hd :: c.fill repl)] x := by
      intro x
      have hhd : isExpandHead (hd :: c.fill [.list l]) = false := by
        rw [isExpandHead_cons hd _ []]; exact hc.1
      have ih := ih hc.2
      have hhd' : isExpandHead (hd :: c.fill repl) = false := by
        rw [isExpandHead_cons hd _ (c.fill [.list l])]; exact hhd
      rw [Expands.nested hhd, Expands.nested hhd']
      constructor
      · rintro ⟨l', rfl, h⟩
        obtain ⟨ra, rb, rfl, h1, h2⟩ := Expands.split (a := [hd]) h
        exact ⟨ra ++ rb, rfl, h1.append ((ih rb).mp h2)⟩
      · rintro ⟨l', rfl, h⟩
        obtain ⟨ra, rb, rfl, h1, h2⟩ := Expands.split (a := [hd]) h
        exact ⟨ra ++ rb, rfl, h1.append ((ih rb).mpr h2)⟩
    constructor
    · intro h
      obtain ⟨r12, r3, rfl, h12, h3⟩ := Expands.split h
      obtain ⟨r1, r2, rfl, h1, h2⟩ := Expands.split h12
      exact (h1.append ((key r2).mp h2)).append h3
    · intro h
      obtain ⟨r12, r3, rfl, h12, h3⟩ := Expands.split h
      obtain ⟨r1, r2, rfl, h1, h2⟩ := Expands.split h12
      exact (h1.append ((key r2).mpr h2)).append h3

end KVerif.CfgTree
