/-
The dynamic-macro hooks of the kanata-level model do nothing when no recording is on
(`dyn.rcd = none`): used by the existing theorems about `tickStates` / `handleInputEvent`.
-/
import KVerif.Model.Kanata
namespace KVerif.K

theorem dynTickRecord_none (k : KState) (h : k.dyn.rcd = none) : dynTickRecord k = k := by
  unfold dynTickRecord; split
  · rfl
  · simp_all

theorem dynRecord_none (k : KState) (p : Bool) (c : Nat) (h : k.dyn.rcd = none) : dynRecord k p c = k := by
  unfold dynRecord; split
  · rfl
  · simp_all

/-- the hooks touch nothing but `dyn` -/
theorem dynTickRecord_fields (k : KState) :
    (dynTickRecord k).layout = k.layout ∧ (dynTickRecord k).out = k.out ∧
    (dynTickRecord k).curKeys = k.curKeys ∧ (dynTickRecord k).prevKeys = k.prevKeys ∧
    (dynTickRecord k).vkeysPendingRelease = k.vkeysPendingRelease ∧
    (dynTickRecord k).waitingForIdle = k.waitingForIdle ∧
    (dynTickRecord k).ticksSinceIdle = k.ticksSinceIdle ∧
    (dynTickRecord k).customs = k.customs ∧
    (dynTickRecord k).macroOnPressCancelDuration = k.macroOnPressCancelDuration := by
  unfold dynTickRecord; split <;> simp

theorem dynRecord_fields (k : KState) (p : Bool) (c : Nat) :
    (dynRecord k p c).layout = k.layout ∧ (dynRecord k p c).out = k.out ∧
    (dynRecord k p c).curKeys = k.curKeys ∧ (dynRecord k p c).prevKeys = k.prevKeys ∧
    (dynRecord k p c).vkeysPendingRelease = k.vkeysPendingRelease ∧
    (dynRecord k p c).waitingForIdle = k.waitingForIdle ∧
    (dynRecord k p c).ticksSinceIdle = k.ticksSinceIdle ∧
    (dynRecord k p c).customs = k.customs ∧
    (dynRecord k p c).macroOnPressCancelDuration = k.macroOnPressCancelDuration := by
  unfold dynRecord; split <;> simp

end KVerif.K
