/-
C09 helper lemmas for chords v2: releases and the active chords (`release_key_in_active_chords`,
`drain_releases`, the cool-down branch of `drain_inputs`, `clear_released_chords`).
-/
import KVerif.Lemmas.ChordsV2
namespace KVerif.C09
open KVerif.L

/-- all of `js` released, one after the other, seen by one active chord -/
def relAll (js : List Nat) (a : ActiveChord) : ActiveChord := js.foldl (fun a j => releaseInActive j a) a

/-- the keys released by the events of a queue, in queue order -/
def releasedKeys (q : List Queued) : List Nat :=
  q.filterMap fun qd => match qd.ev with | .release c => some c.2 | .press _ => none

theorem relAll_cons (j : Nat) (js : List Nat) (a : ActiveChord) : relAll (j :: js) a = relAll js (releaseInActive j a) := rfl

theorem applyReleases_eq : ∀ (q : List Queued) (achs : List ActiveChord),
    applyReleases q achs = achs.map (relAll (releasedKeys q)) := by
  intro q
  induction q with
  | nil =>
    intro achs
    have : relAll (releasedKeys []) = id := by funext a; rfl
    rw [this, List.map_id]; rfl
  | cons qd q ih =>
    intro achs
    have hstep : applyReleases (qd :: q) achs =
        applyReleases q (match qd.ev with | .release c => releaseKeyInActive achs c.2 | .press _ => achs) := by
      simp only [applyReleases, List.foldl_cons]
      rfl
    rw [hstep, ih]
    cases he : qd.ev with
    | press c => simp only [releasedKeys, List.filterMap_cons, he]
    | release c =>
      simp only [releasedKeys, List.filterMap_cons, he, releaseKeyInActive, List.map_map]
      rfl

theorem drainReleases_active : ∀ (q : List Queued) (np : Nat) (achs : List ActiveChord) (dq k : List Queued)
    (achs' : List ActiveChord) (dq' : List Queued),
    drainReleases q np achs dq = .ok (k, achs', dq') → achs' = applyReleases q achs := by
  intro q
  induction q with
  | nil => intro np achs dq k achs' dq' h; simp only [drainReleases] at h; cases h; rfl
  | cons qd rest ih =>
    intro np achs dq k achs' dq' h
    simp only [drainReleases] at h
    cases he : qd.ev with
    | press c =>
      simp only [he] at h
      split at h
      · cases h
      · rename_i k1 a1 d1 hr
        cases h
        have := ih _ _ _ _ _ _ hr
        simp only [this, applyReleases, List.foldl_cons, he]
    | release c =>
      simp only [he] at h
      have hstep : applyReleases (qd :: rest) achs = applyReleases rest (releaseKeyInActive achs c.2) := by
        simp only [applyReleases, List.foldl_cons, he]
      rw [hstep]
      split at h
      · exact ih _ _ _ _ _ _ h
      · split at h
        · cases h
        · rename_i k1 a1 d1 hr
          cases h
          exact ih _ _ _ _ _ _ hr

theorem drainVirtualKeys_ok : ∀ (q dq k dq' : List Queued), drainVirtualKeys q dq = .ok (k, dq') →
    k = q.filter (fun qd => qd.ev.coord.1 == 0) := by
  intro q
  induction q with
  | nil => intro dq k dq' h; simp only [drainVirtualKeys] at h; cases h; rfl
  | cons qd rest ih =>
    intro dq k dq' h
    simp only [drainVirtualKeys] at h
    split at h
    · rename_i h0
      split at h
      · cases h
      · rename_i k1 d1 hr
        cases h
        simp only [List.filter_cons, h0, if_true, ih _ _ _ hr]
    · rename_i h0
      split at h
      · cases h
      · simp only [List.filter_cons, h0, Bool.false_eq_true, if_false]
        exact ih _ _ _ h

/-! ## One chord under releases -/

/-- the chord's release is pending (it will be reported / its coordinate released) -/
def Pending (a : ActiveChord) : Prop := a.status = .unreadReleased ∨ a.status = .released

theorem releaseInActive_fields (j : Nat) (a : ActiveChord) :
    (releaseInActive j a).coordinate = a.coordinate ∧ (releaseInActive j a).keys = a.keys ∧
    (releaseInActive j a).action = a.action ∧ (releaseInActive j a).delay = a.delay := by
  unfold releaseInActive
  split
  · exact ⟨rfl, rfl, rfl, rfl⟩
  · simp only []
    split <;> exact ⟨rfl, rfl, rfl, rfl⟩

theorem relAll_fields : ∀ (js : List Nat) (a : ActiveChord),
    (relAll js a).coordinate = a.coordinate ∧ (relAll js a).keys = a.keys ∧
    (relAll js a).action = a.action ∧ (relAll js a).delay = a.delay := by
  intro js
  induction js with
  | nil => intro a; exact ⟨rfl, rfl, rfl, rfl⟩
  | cons j js ih =>
    intro a
    rw [relAll_cons]
    obtain ⟨h1, h2, h3, h4⟩ := ih (releaseInActive j a)
    obtain ⟨g1, g2, g3, g4⟩ := releaseInActive_fields j a
    exact ⟨h1.trans g1, h2.trans g2, h3.trans g3, h4.trans g4⟩

/-- the class of the status (not yet handed to the layout / already handed) never changes by a release -/
def unreadClass (s : AchStatus) : Bool := s == .unread || s == .unreadReleased

theorem releaseInActive_class (j : Nat) (a : ActiveChord) :
    unreadClass (releaseInActive j a).status = unreadClass a.status := by
  unfold releaseInActive
  split
  · rfl
  · simp only []
    split
    · cases a.status <;> rfl
    · rfl

theorem relAll_class : ∀ (js : List Nat) (a : ActiveChord), unreadClass (relAll js a).status = unreadClass a.status := by
  intro js
  induction js with
  | nil => intro a; rfl
  | cons j js ih => intro a; rw [relAll_cons, ih, releaseInActive_class]

/-- a chord whose release is pending with nothing left to release stays so -/
theorem releaseInActive_pending (j : Nat) (a : ActiveChord) (hp : Pending a) (hr : a.remaining = []) :
    Pending (releaseInActive j a) ∧ (releaseInActive j a).remaining = [] := by
  unfold releaseInActive
  split
  · exact ⟨hp, hr⟩
  · simp only [hr, List.filter_nil, List.isEmpty_nil, if_true]
    rcases hp with h | h <;> simp [Pending, h]

theorem relAll_pending : ∀ (js : List Nat) (a : ActiveChord), Pending a → a.remaining = [] →
    Pending (relAll js a) ∧ (relAll js a).remaining = [] := by
  intro js
  induction js with
  | nil => intro a hp hr; exact ⟨hp, hr⟩
  | cons j js ih =>
    intro a hp hr
    rw [relAll_cons]
    obtain ⟨h1, h2⟩ := releaseInActive_pending j a hp hr
    exact ih _ h1 h2

/-- **once every key still to be released has been released (and at least one participant was
released at all), the chord's release is pending** — whatever else was released in between, in any
order -/
theorem relAll_all_released : ∀ (js : List Nat) (a : ActiveChord),
    (∀ k ∈ a.remaining, a.keys.contains k = true) →
    (∀ k ∈ a.remaining, k ∈ js) →
    (∃ k ∈ js, a.keys.contains k = true) →
    Pending (relAll js a) ∧ (relAll js a).remaining = [] := by
  intro js
  induction js with
  | nil => intro a _ _ ⟨k, hk, _⟩; cases hk
  | cons j js ih =>
    intro a hsub hall hsome
    rw [relAll_cons]
    by_cases hc : a.keys.contains j = true
    · -- j is a participant
      have hrem : (releaseInActive j a).remaining = a.remaining.filter (· != j) := by
        unfold releaseInActive
        simp only [hc, Bool.not_true, Bool.false_eq_true, if_false]
        split <;> rfl
      by_cases he : (a.remaining.filter (· != j)).isEmpty = true
      · have hpend : Pending (releaseInActive j a) := by
          unfold releaseInActive
          simp only [hc, Bool.not_true, Bool.false_eq_true, if_false, he, if_true]
          cases a.status <;> simp [Pending]
        have hr0 : (releaseInActive j a).remaining = [] := by
          rw [hrem]; exact List.isEmpty_iff.mp he
        exact relAll_pending js _ hpend hr0
      · have hne : a.remaining.filter (· != j) ≠ [] := by
          intro h; rw [h] at he; simp at he
        obtain ⟨k0, hk0⟩ := List.exists_mem_of_ne_nil _ hne
        have hk0' := List.mem_filter.mp hk0
        have hkeys := (releaseInActive_fields j a).2.1
        apply ih
        · intro k hk
          rw [hrem] at hk
          rw [hkeys]
          exact hsub k (List.mem_filter.mp hk).1
        · intro k hk
          rw [hrem] at hk
          have hk' := List.mem_filter.mp hk
          rcases List.mem_cons.mp (hall k hk'.1) with rfl | h
          · simp at hk'
          · exact h
        · refine ⟨k0, ?_, ?_⟩
          · rcases List.mem_cons.mp (hall k0 hk0'.1) with rfl | h
            · simp at hk0'
            · exact h
          · rw [hkeys]; exact hsub k0 hk0'.1
    · -- j is not a participant: nothing changes
      have hid : releaseInActive j a = a := by
        unfold releaseInActive
        simp only [hc, Bool.not_false, if_true]
      rw [hid]
      apply ih a hsub
      · intro k hk
        rcases List.mem_cons.mp (hall k hk) with rfl | h
        · exact absurd (hsub _ hk) hc
        · exact h
      · obtain ⟨k, hk, hkc⟩ := hsome
        rcases List.mem_cons.mp hk with rfl | h
        · exact absurd hkc hc
        · exact ⟨k, h, hkc⟩

/-! ## `clear_released_chords` -/

theorem clearReleased_ok : ∀ (achs : List ActiveChord) (dq : List Queued) (r : List ActiveChord) (dq' : List Queued),
    clearReleased achs dq = .ok (r, dq') →
    r = achs.filter (fun a => !(a.status == .released)) ∧
    dq' = dq ++ (achs.filter (fun a => a.status == .released)).map (fun a => ⟨.release (0, a.coordinate), 0⟩) := by
  intro achs
  induction achs with
  | nil => intro dq r dq' h; simp only [clearReleased] at h; cases h; simp
  | cons a rest ih =>
    intro dq r dq' h
    simp only [clearReleased] at h
    split at h
    · rename_i hs
      split at h
      · cases h
      · rename_i dq1 hp
        obtain ⟨h1, h2⟩ := ih _ _ _ h
        have hp' : dq1 = dq ++ [⟨.release (0, a.coordinate), 0⟩] := by
          unfold drainPushAssert at hp
          split at hp
          · cases hp; rfl
          · cases hp
        simp only [List.filter_cons, hs, Bool.not_true, Bool.false_eq_true, if_false, if_true, List.map_cons]
        exact ⟨h1, by rw [h2, hp']; simp⟩
    · rename_i hs
      split at h
      · cases h
      · rename_i r1 d1 hr
        cases h
        obtain ⟨h1, h2⟩ := ih _ _ _ hr
        have hs' : (a.status == AchStatus.released) = false := by simpa using hs
        simp only [List.filter_cons, hs', Bool.not_false, if_true, Bool.false_eq_true, if_false]
        exact ⟨by rw [h1], h2⟩

/-! ## `drain_inputs` and `tick_chv2` -/

/-- the tick looks at the queue (cool-down: forwards it; otherwise: not the "nothing changed" fast path) -/
def processesQueue (s : ChV2) (layer : Nat) : Prop :=
  s.ticksToIgnore > 0 ∨ ¬ (s.ticksUntilChange > 0 ∧ s.prevActiveLayer = layer ∧ s.prevQueueLen = s.queue.length)

theorem drainInputs_err (s : ChV2) (dq : List Queued) (layer : Nat) (c : Crash) (h : drainInputs s dq layer = .error c) :
    c = crashDQ ∨ c = crashPR ∨ c = crashTM := by
  unfold drainInputs at h
  split at h
  · cases h
  · split at h
    · cases h
    · simp only [] at h
      split at h
      · rename_i c' he; cases h; exact Or.inl (drainVirtualKeys_err _ _ _ he)
      · split at h
        · rename_i c' he; cases h; exact Or.inr (Or.inl (drainReleases_err _ _ _ _ _ he))
        · split at h
          · rename_i c' he; cases h; exact Or.inr (Or.inr (processPresses_err _ _ _ he))
          · cases h

/-- the active chords after `drain_inputs`: the old ones with the queue's releases applied (all of the
queue in the cool-down, its row-0 part otherwise; untouched on the fast path), followed by at most
one newly activated chord -/
theorem drainInputs_active (s s1 : ChV2) (dq dq1 : List Queued) (layer : Nat) (h : drainInputs s dq layer = .ok (s1, dq1)) :
    (¬ processesQueue s layer ∧ s1.active = s.active) ∨
    (processesQueue s layer ∧ ∃ q, (∀ k, (∃ qd ∈ s.queue, qd.ev = .release (0, k)) → k ∈ releasedKeys q) ∧
      (s1.active = applyReleases q s.active ∨
       ∃ ach, s1.active = applyReleases q s.active ++ [ach] ∧ (applyReleases q s.active).length < ACTIVE_CHORDS_CAP)) := by
  have hmemrel : ∀ (q : List Queued) (k : Nat), (∃ qd ∈ q, qd.ev = .release (0, k)) → k ∈ releasedKeys q := by
    intro q k ⟨qd, hq, he⟩
    simp only [releasedKeys, List.mem_filterMap]
    exact ⟨qd, hq, by simp [he]⟩
  unfold drainInputs at h
  split at h
  · rename_i hti
    cases h
    refine Or.inr ⟨Or.inl hti, realInputs s.queue, ?_, Or.inl rfl⟩
    intro k ⟨qd, hq, he⟩
    apply hmemrel
    exact ⟨qd, List.mem_filter.mpr ⟨hq, by simp [he, Ev.coord]⟩, he⟩
  · rename_i hti
    split at h
    · rename_i hskip
      cases h
      left
      simp only [Bool.and_eq_true, decide_eq_true_eq, beq_iff_eq] at hskip
      refine ⟨?_, rfl⟩
      intro hp
      rcases hp with hp | hp
      · exact hti hp
      · exact hp ⟨hskip.1.1, hskip.1.2, hskip.2⟩
    · rename_i hskip
      right
      have hproc : processesQueue s layer := by
        right
        intro hh
        apply hskip
        simp only [Bool.and_eq_true, decide_eq_true_eq, beq_iff_eq]
        exact ⟨⟨hh.1, hh.2.1⟩, hh.2.2⟩
      simp only [] at h
      split at h
      · cases h
      · rename_i q0 dq0 hv
        split at h
        · cases h
        · rename_i q1 achs1 dq2 hr
          split at h
          · cases h
          · rename_i s2 hpp
            cases h
            have hq0 := drainVirtualKeys_ok _ _ _ _ hv
            have ha1 := drainReleases_active _ _ _ _ _ _ _ hr
            refine ⟨hproc, q0, ?_, ?_⟩
            · intro k ⟨qd, hq, he⟩
              apply hmemrel
              refine ⟨qd, ?_, he⟩
              rw [hq0]
              exact List.mem_filter.mpr ⟨hq, by simp [he, Ev.coord]⟩
            · rcases processPresses_spec _ _ _ hpp with ⟨h1, _⟩ | ⟨_, _, _, _, cch, coord, _, _, _, _, _, _, _, _, h8, h9, _⟩
              · left; rw [h1, ha1]
              · right
                exact ⟨_, by rw [h9, ha1], by rw [← ha1]; exact h8⟩

theorem applyReleases_length (q : List Queued) (achs : List ActiveChord) : (applyReleases q achs).length = achs.length := by
  rw [applyReleases_eq, List.length_map]

/-! ## The drain queue -/

/-- `smolPush` appends while the 16 slots are not full -/
theorem smolPush_fits (q : List Queued) (x : Queued) (h : q.length < SMOL_Q_LEN) : smolPush q x = q ++ [x] := by
  unfold smolPush pushBackWrap
  simp only [h, if_true]

theorem foldl_smolPush_fits : ∀ (q dq : List Queued), dq.length + q.length ≤ SMOL_Q_LEN → q.foldl smolPush dq = dq ++ q := by
  intro q
  induction q with
  | nil => intro dq _; simp
  | cons x q ih =>
    intro dq h
    simp only [List.length_cons] at h
    simp only [List.foldl_cons]
    rw [smolPush_fits dq x (by omega), ih _ (by simp; omega)]
    simp


/-- `drainPush` appends while the 48 slots are not full -/
theorem drainPush_fits (q : List Queued) (x : Queued) (h : q.length < DRAIN_Q_LEN) : drainPush q x = q ++ [x] := by
  unfold drainPush pushBackWrap
  simp only [h, if_true]

/-- `extend` hands over everything when there is room for it -/
theorem drainExtend_fits (dq q : List Queued) (h : dq.length + q.length ≤ DRAIN_Q_LEN) : drainExtend dq q = dq ++ q := by
  unfold drainExtend
  rw [List.take_of_length_le (by omega)]

/-! ## After the repair of the two press lists (their overflow is ignored, no `debug_assert`) -/

theorem drainReleases_no_err : ∀ (q : List Queued) (np : Nat) (achs : List ActiveChord) (dq : List Queued) (c : Crash),
    drainReleases q np achs dq ≠ .error c := by
  intro q
  induction q with
  | nil => intro np achs dq c h; cases h
  | cons qd rest ih =>
    intro np achs dq c h
    simp only [drainReleases] at h
    split at h
    · split at h
      · rename_i c' he; exact ih _ _ _ _ he
      · cases h
    · split at h
      · exact ih _ _ _ _ h
      · split at h
        · rename_i c' he; exact ih _ _ _ _ he
        · cases h

theorem collectPresses_no_err : ∀ (q : List Queued) (ps : List Nat) (c : Crash), collectPresses q ps ≠ .error c := by
  intro q
  induction q with
  | nil => intro ps c h; cases h
  | cons qd rest ih =>
    intro ps c h
    simp only [collectPresses] at h
    split at h
    · split at h
      · exact ih _ _ h
      · exact ih _ _ h
    · split at h
      · cases h
      · exact ih _ _ h

theorem processPresses_no_err (s : ChV2) (layer : Nat) (c : Crash) : processPresses s layer ≠ .error c := by
  intro h
  unfold processPresses at h
  split at h
  · rename_i c' he; exact collectPresses_no_err _ _ _ he
  · split at h
    · cases h
    · split at h
      · cases h
      · simp only [] at h
        split at h
        · rename_i c' he; exact absurd he (ppLoop_no_err _ _ _ _ _ _ _ _)
        · cases h

theorem drainInputs_err_dq (s : ChV2) (dq : List Queued) (layer : Nat) (c : Crash) (h : drainInputs s dq layer = .error c) :
    c = crashDQ := by
  unfold drainInputs at h
  split at h
  · cases h
  · split at h
    · cases h
    · simp only [] at h
      split at h
      · rename_i c' he; cases h; exact drainVirtualKeys_err _ _ _ he
      · split at h
        · rename_i c' he; exact absurd he (drainReleases_no_err _ _ _ _ _)
        · split at h
          · rename_i c' he; exact absurd he (processPresses_no_err _ _ _)
          · cases h

end KVerif.C09
