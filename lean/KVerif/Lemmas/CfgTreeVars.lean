/-
Lemmas for C16 about the resolved view (`deref`, `resolve`) and `defvar`.
-/
import KVerif.Lemmas.CfgTreeTop
namespace KVerif.CfgTree

theorem allSome_eq_some_iff {α} (l : List (Option α)) (r : List α) :
    allSome l = some r ↔ l = r.map some := by
  induction l generalizing r with
  | nil => cases r <;> simp [allSome]
  | cons x rest ih =>
    cases x with
    | none => cases r <;> simp [allSome]
    | some a =>
      simp only [allSome]
      cases h : allSome rest with
      | none =>
        cases r with
        | nil => simp
        | cons b r' =>
          simp only [List.map_cons, List.cons.injEq, Option.some.injEq, reduceCtorEq, false_iff, not_and]
          intro _ h2
          have := (ih r').mpr h2
          simp [h] at this
      | some r0 =>
        have h0 := (ih r0).mp h
        cases r with
        | nil => simp
        | cons b r' =>
          simp only [Option.some.injEq, List.cons.injEq, List.map_cons]
          constructor
          · rintro ⟨rfl, rfl⟩; exact ⟨rfl, h0⟩
          · rintro ⟨rfl, h2⟩
            refine ⟨rfl, ?_⟩
            have := (ih r').mpr h2
            rw [h] at this; exact Option.some.inj this

theorem allSome_map_some {α β} (f : α → Option β) (l : List α) (r : List β) :
    allSome (l.map f) = some r ↔ l.map f = r.map some := allSome_eq_some_iff _ _

/-- pointwise: if every element that succeeds under `f` succeeds with the same value under `g` -/
theorem allSome_map_imp {α β} (f g : α → Option β) (l : List α) (r : List β)
    (h : ∀ a ∈ l, ∀ b, f a = some b → g a = some b) (hf : allSome (l.map f) = some r) :
    allSome (l.map g) = some r := by
  induction l generalizing r with
  | nil => simpa [allSome] using hf
  | cons a rest ih =>
    simp only [List.map_cons] at hf ⊢
    cases hfa : f a with
    | none => simp [hfa, allSome] at hf
    | some b =>
      rw [hfa] at hf
      simp only [allSome] at hf
      cases hr : allSome (rest.map f) with
      | none => simp [hr] at hf
      | some r' =>
        rw [hr] at hf
        have := ih r' (fun a' ha' => h a' (by simp [ha'])) hr
        rw [h a (by simp) b hfa]
        simp only [allSome, this]
        exact hf

/-! ### fuel monotonicity -/

theorem resolve_mono (vars : Vars) : ∀ (f f' : Nat) (t r : Tree),
    resolve f vars t = some r → f ≤ f' → resolve f' vars t = some r := by
  intro f
  induction f with
  | zero => intro f' t r h; simp [resolve] at h
  | succ f ih =>
    intro f' t r h hle
    obtain ⟨g, rfl⟩ : ∃ g, f' = g + 1 := ⟨f' - 1, by omega⟩
    have hg : f ≤ g := by omega
    cases t with
    | atom s =>
      simp only [resolve] at h ⊢
      split at h
      · rename_i e he; exact ih g e r h hg
      · exact h
    | list ts =>
      simp only [resolve, Option.map_eq_some_iff] at h ⊢
      obtain ⟨l, hl, rfl⟩ := h
      exact ⟨l, allSome_map_imp _ _ ts l (fun a _ b hb => ih g a b hb hg) hl, rfl⟩

/-- the fuel-free reading: `t` resolves to `r` -/
def Resolves (vars : Vars) (t r : Tree) : Prop := ∃ f, resolve f vars t = some r

theorem Resolves.unique {vars : Vars} {t r1 r2 : Tree} (h1 : Resolves vars t r1)
    (h2 : Resolves vars t r2) : r1 = r2 := by
  obtain ⟨f1, h1⟩ := h1
  obtain ⟨f2, h2⟩ := h2
  have a := resolve_mono vars f1 (max f1 f2) t r1 h1 (Nat.le_max_left _ _)
  have b := resolve_mono vars f2 (max f1 f2) t r2 h2 (Nat.le_max_right _ _)
  rw [a] at b; exact Option.some.inj b


/-! ### adding a fresh variable -/

theorem varName?_eq_some (s n : Str) : varName? s = some n ↔ s = '$' :: n := by
  cases s with
  | nil => simp [varName?]
  | cons c cs =>
    by_cases hc : c = '$'
    · subst hc; simp [varName?]
    · simp only [List.cons.injEq, hc, false_and, iff_false]
      unfold varName?
      split
      · rename_i heq; simp only [List.cons.injEq] at heq; exact absurd heq.1 hc
      · simp

theorem lookup_mem {β} (k : Str) (v : β) (l : List (Str × β)) (h : lookup k l = some v) :
    (k, v) ∈ l := by
  induction l with
  | nil => simp [lookup] at h
  | cons p rest ih =>
    obtain ⟨k', v'⟩ := p
    simp only [lookup] at h
    split at h
    · rename_i hk; cases h; simp [hk]
    · exact List.mem_cons_of_mem _ (ih h)

/-- `$v` does not occur as an atom of `t` -/
def NoRef (v : Str) (t : Tree) : Prop := ('$' :: v) ∉ atomsOfTree t

instance (v : Str) (t : Tree) : Decidable (NoRef v t) := by unfold NoRef; infer_instance

/-- … nor in the value of any variable -/
def NoRefVars (v : Str) (vars : Vars) : Prop := ∀ n e, (n, e) ∈ vars → NoRef v e

def Ctx.NoRef (v : Str) : Ctx → Prop
  | .hole => True
  | .node pre c post => (∀ t ∈ pre, KVerif.CfgTree.NoRef v t) ∧ c.NoRef v ∧ (∀ t ∈ post, KVerif.CfgTree.NoRef v t)

theorem atomsOfList_mem (ts : List Tree) (t : Tree) (a : Str) (ht : t ∈ ts)
    (ha : a ∈ atomsOfTree t) : a ∈ atomsOfList ts := by
  induction ts with
  | nil => simp at ht
  | cons x rest ih =>
    simp only [atomsOfList, List.mem_append]
    simp only [List.mem_cons] at ht
    cases ht with
    | inl h => subst h; exact Or.inl ha
    | inr h => exact Or.inr (ih h)

theorem NoRef.of_list {v : Str} {ts : List Tree} (h : NoRef v (.list ts)) :
    ∀ t ∈ ts, NoRef v t := by
  intro t ht ha
  exact h (by simpa [atomsOfTree] using atomsOfList_mem ts t _ ht ha)

theorem varRef_append_fresh (vars : Vars) (v : Str) (e : Tree) (s : Str) (hs : s ≠ '$' :: v) :
    varRef (vars ++ [(v, e)]) s = varRef vars s := by
  unfold varRef
  cases hn : varName? s with
  | none => rfl
  | some n =>
    simp only
    have hnv : n ≠ v := by
      intro h; subst h
      exact hs ((varName?_eq_some s n).mp hn)
    cases hl : lookup n vars with
    | some x => exact lookup_append_left n vars _ x hl
    | none =>
      rw [lookup_append_right n vars _ hl]
      simp only [lookup]
      rw [if_neg (fun h => hnv h.symm)]

theorem varRef_append_self (vars : Vars) (v : Str) (e : Tree) (hfresh : lookup v vars = none) :
    varRef (vars ++ [(v, e)]) ('$' :: v) = some e := by
  simp [varRef, varName?, lookup_append_right v vars _ hfresh, lookup]

theorem varRef_mem (vars : Vars) (s : Str) (e : Tree) (h : varRef vars s = some e) :
    ∃ n, (n, e) ∈ vars ∧ s = '$' :: n := by
  unfold varRef at h
  cases hn : varName? s with
  | none => simp [hn] at h
  | some n =>
    simp only [hn] at h
    exact ⟨n, lookup_mem n e vars h, (varName?_eq_some s n).mp hn⟩

theorem allSome_map_congr {α β} (f g : α → Option β) (l : List α) (h : ∀ a ∈ l, f a = g a) :
    allSome (l.map f) = allSome (l.map g) := by
  congr 1
  exact List.map_congr_left h

/-- Weakening: a variable that nothing refers to does not change how anything resolves. -/
theorem resolve_weaken (vars : Vars) (v : Str) (e : Tree) (hv : NoRefVars v vars) :
    ∀ (f : Nat) (t : Tree), NoRef v t → resolve f (vars ++ [(v, e)]) t = resolve f vars t := by
  intro f
  induction f with
  | zero => intro t _; simp [resolve]
  | succ f ih =>
    intro t ht
    cases t with
    | atom s =>
      have hs : s ≠ '$' :: v := by
        intro h; apply ht; simp [atomsOfTree, h]
      simp only [resolve, varRef_append_fresh vars v e s hs]
      cases hr : varRef vars s with
      | none => rfl
      | some e' =>
        obtain ⟨n, hmem, -⟩ := varRef_mem vars s e' hr
        exact ih e' (hv n e' hmem)
    | list ts =>
      simp only [resolve]
      rw [allSome_map_congr _ _ ts (fun a ha => ih a (NoRef.of_list ht a ha))]

theorem allSome_map_plug {f g : Tree → Option Tree} (pre post : List Tree) (x y : Tree)
    (r : List Tree)
    (hside : ∀ a, a ∈ pre ∨ a ∈ post → ∀ b, f a = some b → g a = some b)
    (hxy : ∀ b, f x = some b → g y = some b)
    (h : allSome ((pre ++ x :: post).map f) = some r) :
    allSome ((pre ++ y :: post).map g) = some r := by
  induction pre generalizing r with
  | nil =>
    simp only [List.nil_append, List.map_cons] at h ⊢
    cases hfx : f x with
    | none => simp [hfx, allSome] at h
    | some b =>
      rw [hfx] at h
      simp only [allSome] at h
      cases hr : allSome (post.map f) with
      | none => simp [hr] at h
      | some r' =>
        rw [hr] at h
        have := allSome_map_imp f g post r' (fun a ha => hside a (Or.inr ha)) hr
        simp only [hxy b hfx, allSome, this]
        exact h
  | cons p rest ih =>
    simp only [List.cons_append, List.map_cons] at h ⊢
    cases hfp : f p with
    | none => simp [hfp, allSome] at h
    | some b =>
      rw [hfp] at h
      simp only [allSome] at h
      cases hr : allSome ((rest ++ x :: post).map f) with
      | none => rw [hr] at h; simp at h
      | some r' =>
        rw [hr] at h
        have := ih r' (fun a ha => hside a (by
          cases ha with
          | inl h => exact Or.inl (List.mem_cons_of_mem _ h)
          | inr h => exact Or.inr h)) hr
        simp only [hside p (Or.inl (by simp)) b hfp, allSome, this]
        exact h

/-- Naming a subexpression with a fresh variable: the rewritten expression resolves (one hop later)
to what the original resolves to. -/
theorem resolve_defvar_fwd (vars : Vars) (v : Str) (e : Tree) (hfresh : lookup v vars = none)
    (hv : NoRefVars v vars) (he : NoRef v e) (c : Ctx) (hc : c.NoRef v) :
    ∀ (f : Nat) (r : Tree), resolve f vars (c.plug e) = some r →
      resolve (f + 1) (vars ++ [(v, e)]) (c.plug (.atom ('$' :: v))) = some r := by
  induction c with
  | hole =>
    intro f r h
    simp only [Ctx.plug] at h ⊢
    simp only [resolve, varRef_append_self vars v e hfresh]
    rw [resolve_weaken vars v e hv f e he]; exact h
  | node pre c post ih =>
    intro f r h
    obtain ⟨hpre, hcc, hpost⟩ := hc
    simp only [Ctx.plug] at h ⊢
    cases f with
    | zero => simp [resolve] at h
    | succ f =>
      simp only [resolve, Option.map_eq_some_iff] at h ⊢
      obtain ⟨l, hl, rfl⟩ := h
      refine ⟨l, ?_, rfl⟩
      refine allSome_map_plug pre post _ _ l ?_ (fun b hb => ih hcc f b hb) hl
      intro a ha b hb
      have hna : NoRef v a := by
        cases ha with
        | inl h => exact hpre a h
        | inr h => exact hpost a h
      rw [resolve_weaken vars v e hv (f + 1) a hna]
      exact resolve_mono vars f (f + 1) a b hb (Nat.le_succ f)

/-- … and conversely: whatever the rewritten expression resolves to, the original resolves to. -/
theorem resolve_defvar_bwd (vars : Vars) (v : Str) (e : Tree) (hfresh : lookup v vars = none)
    (hv : NoRefVars v vars) (he : NoRef v e) (c : Ctx) (hc : c.NoRef v) :
    ∀ (f : Nat) (r : Tree), resolve f (vars ++ [(v, e)]) (c.plug (.atom ('$' :: v))) = some r →
      resolve f vars (c.plug e) = some r := by
  induction c with
  | hole =>
    intro f r h
    simp only [Ctx.plug] at h ⊢
    cases f with
    | zero => simp [resolve] at h
    | succ f =>
      simp only [resolve, varRef_append_self vars v e hfresh] at h
      rw [resolve_weaken vars v e hv f e he] at h
      exact resolve_mono vars f (f + 1) e r h (Nat.le_succ f)
  | node pre c post ih =>
    intro f r h
    obtain ⟨hpre, hcc, hpost⟩ := hc
    simp only [Ctx.plug] at h ⊢
    cases f with
    | zero => simp [resolve] at h
    | succ f =>
      simp only [resolve, Option.map_eq_some_iff] at h ⊢
      obtain ⟨l, hl, rfl⟩ := h
      refine ⟨l, ?_, rfl⟩
      refine allSome_map_plug pre post _ _ l ?_ (fun b hb => ih hcc f b hb) hl
      intro a ha b hb
      have hna : NoRef v a := by
        cases ha with
        | inl h => exact hpre a h
        | inr h => exact hpost a h
      rw [resolve_weaken vars v e hv f a hna] at hb
      exact hb


/-! ### acyclic variable graphs resolve -/

/-- The variable graph has no cycle: there is a rank under which the value of every variable only
mentions bound variables of smaller rank. -/
def Acyclic (vars : Vars) : Prop :=
  ∃ rank : Str → Nat, ∀ n e, lookup n vars = some e →
    ∀ m e', ('$' :: m) ∈ atomsOfTree e → lookup m vars = some e' → rank m < rank n

theorem varRef_lookup (vars : Vars) (s : Str) (e : Tree) (h : varRef vars s = some e) :
    ∃ n, lookup n vars = some e ∧ s = '$' :: n := by
  unfold varRef at h
  cases hn : varName? s with
  | none => simp [hn] at h
  | some n =>
    simp only [hn] at h
    exact ⟨n, h, (varName?_eq_some s n).mp hn⟩

mutual
  /-- if the values of the variables mentioned in `t` resolve, so does `t` -/
  theorem resolves_tree (vars : Vars) : ∀ (t : Tree),
      (∀ m e', lookup m vars = some e' → ('$' :: m) ∈ atomsOfTree t → ∃ r, Resolves vars e' r) →
      ∃ r, Resolves vars t r
    | .atom s, h => by
      cases hr : varRef vars s with
      | none => exact ⟨.atom s, 1, by simp [resolve, hr]⟩
      | some e =>
        obtain ⟨n, hl, hs⟩ := varRef_lookup vars s e hr
        obtain ⟨r, f, hf⟩ := h n e hl (by simp [atomsOfTree, hs])
        exact ⟨r, f + 1, by simp [resolve, hr, hf]⟩
    | .list ts, h => by
      obtain ⟨f, l, hl⟩ := resolves_list vars ts (fun m e' hm ha => h m e' hm (by simpa [atomsOfTree] using ha))
      exact ⟨.list l, f + 1, by simp [resolve, hl]⟩
  theorem resolves_list (vars : Vars) : ∀ (ts : List Tree),
      (∀ m e', lookup m vars = some e' → ('$' :: m) ∈ atomsOfList ts → ∃ r, Resolves vars e' r) →
      ∃ f l, allSome (ts.map (resolve f vars)) = some l
    | [], _ => ⟨0, [], rfl⟩
    | t :: rest, h => by
      obtain ⟨r, f1, h1⟩ := resolves_tree vars t (fun m e' hm ha => h m e' hm (by simp [atomsOfList, ha]))
      obtain ⟨f2, l, h2⟩ := resolves_list vars rest (fun m e' hm ha => h m e' hm (by simp [atomsOfList, ha]))
      refine ⟨max f1 f2, r :: l, ?_⟩
      have a := resolve_mono vars f1 (max f1 f2) t r h1 (Nat.le_max_left _ _)
      have b := allSome_map_imp (resolve f2 vars) (resolve (max f1 f2) vars) rest l
        (fun x _ y hy => resolve_mono vars f2 _ x y hy (Nat.le_max_right _ _)) h2
      simp [allSome, a, b]
end

theorem resolves_values (vars : Vars) (rank : Str → Nat)
    (hac : ∀ n e, lookup n vars = some e →
      ∀ m e', ('$' :: m) ∈ atomsOfTree e → lookup m vars = some e' → rank m < rank n) :
    ∀ (k : Nat) (n : Str) (e : Tree), lookup n vars = some e → rank n < k → ∃ r, Resolves vars e r := by
  intro k
  induction k with
  | zero => intro n e _ h; omega
  | succ k ih =>
    intro n e hl hk
    apply resolves_tree vars e
    intro m e' hm ha
    have := hac n e hl m e' ha hm
    exact ih m e' hm (by omega)

/-- **totality**: with an acyclic variable graph every expression has a resolved view (the recursion
of `SExpr::atom(vars)` / `SExpr::list(vars)` ends). -/
theorem resolves_of_acyclic (vars : Vars) (hac : Acyclic vars) (t : Tree) : ∃ r, Resolves vars t r := by
  obtain ⟨rank, hrank⟩ := hac
  apply resolves_tree vars t
  intro m e' hm _
  exact resolves_values vars rank hrank (rank m + 1) m e' hm (Nat.lt_succ_self _)

end KVerif.CfgTree
