/-
C01 helper lemmas, part 9: quiescence with the features combined, stage 3 - NESTING.  The layered
fragment of C04 (keys, output chords, `multi` and `fork` nested to any depth, no-op,
transparent, use-defsrc, layer-while-held, layer-switch, release-key / release-layer) and custom
actions together with one-shot keys and tap-hold keys, in one configuration:

  * inside `multi` (`InAct`): keys, output chords, no-op, layer-while-held, layer-switch, release-key /
    release-layer, custom actions, `CancelSequences`, `one-shot-pause-processing`, tap-hold keys, `multi`,
    `fork`;
  * on top of that, at a layer position or in the branches of a `fork` there (`TopAct`): transparent,
    use-defsrc, one-shot keys (a transparent or use-defsrc item may resolve to a one-shot key, so it
    is kept out of `multi` like the one-shot keys themselves);
  * at most one tap-hold key is performed per press (`htCount ≤ 1`: kanata's parser refuses a `multi`
    with two of them), so `extra_waiting` stays empty;
  * one-shot keys are not nested inside `multi`, so that a press performs at most one one-shot action
    and the `event` it re-enters (the 17th one-shot key pushes the oldest out) always finds room
    (`C01.quiesce_union_counterexample` shows what happens otherwise).

This file: the fragment, the effect of `do_action` on it by induction over the recursion budget
(`engineIn`, `engineTop`), and what a dequeued press does (`dequeue_press_K`).
-/
import KVerif.Lemmas.QuiesceUnion4Base
namespace KVerif.QU3
open KVerif.L KVerif.C06 KVerif.Quiesce KVerif.QU

/-! ## the fragment -/

def simpleB : Action → Bool
  | .keyCode _ | .multipleKeyCodes _ | .layer _ => true
  | _ => false

theorem simpleB_simple {a : Action} (h : simpleB a = true) : Simple a := by
  cases a <;> simp only [simpleB] at h <;> first | trivial | exact absurd h (by simp)

mutual
  /-- what may be nested inside `multi` -/
  def InAct : Action → Bool
    | .noOp | .keyCode _ | .multipleKeyCodes _ | .layer _ | .defaultLayer _ | .releaseState _ | .custom _
    | .cancelSequences | .oneShotIgnoreEventsTicks _ => true
    | .holdTap _ h t to _ _ => simpleB h && simpleB t && simpleB to
    | .multipleActions acs => InActL acs
    | .fork l r _ => InAct l && InAct r
    | _ => false
  def InActL : List Action → Bool
    | [] => true
    | a :: rest => InAct a && InActL rest
end

/-- what a layer position (or the defsrc row) may hold -/
def TopAct : Action → Bool
  | .trans | .src => true
  | .oneShot inner _ _ => simpleB inner
  | .fork l r _ => TopAct l && TopAct r
  | .multipleActions acs => InActL acs
  | .noOp | .keyCode _ | .multipleKeyCodes _ | .layer _ | .defaultLayer _ | .releaseState _ | .custom _
  | .cancelSequences | .oneShotIgnoreEventsTicks _ => true
  | .holdTap _ h t to _ _ => simpleB h && simpleB t && simpleB to
  | _ => false

mutual
  /-- the largest number of tap-hold keys one press of the action can perform -/
  def htCount : Action → Nat
    | .holdTap _ _ _ _ _ _ => 1
    | .multipleActions acs => htCountL acs
    | .fork l r _ => max (htCount l) (htCount r)
    | _ => 0
  def htCountL : List Action → Nat
    | [] => 0
    | a :: rest => htCount a + htCountL rest
end

mutual
  /-- the largest hold timeout inside -/
  def nT : Action → Nat
    | .holdTap T _ _ _ _ _ => T
    | .multipleActions acs => nTL acs
    | .fork l r _ => max (nT l) (nT r)
    | _ => 0
  def nTL : List Action → Nat
    | [] => 0
    | a :: rest => max (nT a) (nTL rest)
end

mutual
  /-- the largest tap-hold interval inside -/
  def nI : Action → Nat
    | .holdTap _ _ _ _ _ iv => iv
    | .multipleActions acs => nIL acs
    | .fork l r _ => max (nI l) (nI r)
    | _ => 0
  def nIL : List Action → Nat
    | [] => 0
    | a :: rest => max (nI a) (nIL rest)
end

/-- the largest one-shot timeout inside (one-shot keys are not nested in `multi`) -/
def nB : Action → Nat
  | .oneShot _ t _ => t
  | .fork l r _ => max (nB l) (nB r)
  | _ => 0

/-- an action of the configuration: in the fragment, at most one tap-hold key per press, timeouts bounded -/
def Ok3 (T I B : Nat) (a : Action) : Prop :=
  TopAct a = true ∧ htCount a ≤ 1 ∧ nT a ≤ T ∧ nI a ≤ I ∧ nB a ≤ B

def Cfg3 (T I B : Nat) (c : LCfg) : Prop :=
  (∀ tbl ∈ c.layers, ∀ e ∈ tbl, Ok3 T I B e.2) ∧ (∀ e ∈ c.srcKeys, Ok3 T I B e.2)

/-! ## effects -/

theorem update_noEvent (cu : CustomEv) : cu.update .noEvent = cu := by
  cases cu <;> rfl

/-- how the arms other than the one-shot arm change the `OneShotState`: by `handle_press(Other)` only -/
structure OshIn (o o' : OneShotState) : Prop where
  keys : o'.keys = o.keys
  rk : o'.releasedKeys = o.releasedKeys
  rnt : o'.releaseOnNextTick = o.releaseOnNextTick
  delay : o'.pauseInputProcessingDelay = o.pauseInputProcessingDelay
  pause : o'.pauseInputProcessingTicks = o.pauseInputProcessingTicks ∨
    o'.pauseInputProcessingTicks = o.pauseInputProcessingDelay
  load : oshLoad o' ≤ oshLoad o

theorem OshIn.refl (o : OneShotState) : OshIn o o := ⟨rfl, rfl, rfl, rfl, Or.inl rfl, Nat.le_refl _⟩

theorem OshIn.trans {a b c : OneShotState} (h1 : OshIn a b) (h2 : OshIn b c) : OshIn a c := by
  refine ⟨h2.keys.trans h1.keys, h2.rk.trans h1.rk, h2.rnt.trans h1.rnt,
    h2.delay.trans h1.delay, ?_, Nat.le_trans h2.load h1.load⟩
  rcases h2.pause with g | g
  · rw [g]; exact h1.pause
  · rw [g, h1.delay]; exact Or.inr rfl

theorem OshIn.other (o : OneShotState) (c : Coord) : OshIn o (o.handlePress (.other c)).1 := by
  obtain ⟨f1, f2, f3, f4, _, f6⟩ := handlePress_other_fields o c
  by_cases hi : o.ticksToIgnoreEvents = 0
  · obtain ⟨l1, l2, _⟩ := handlePress_other_load o c hi
    exact ⟨f1, f2, f3, f6, l2, l1⟩
  · have : o.handlePress (.other c) = (o, []) := by
      unfold OneShotState.handlePress
      rw [if_pos]
      simp only [Bool.or_eq_true, decide_eq_true_eq]
      exact Or.inr (by omega)
    rw [this]
    exact OshIn.refl o

/-- the effect of the arms of the layered fragment and of the tap-hold arm (no one-shot arm): nothing
pending is touched, the queue stays, states are only added at the coordinate of the press, the
`OneShotState` sees `handle_press(Other)` calls only, the quick-tap window is at most `max old I` -/
structure EffIn (I : Nat) (c : Coord) (s s' : Layout) : Prop where
  tde : s'.tapDanceEager = s.tapDanceEager
  aq : s'.actionQueue = s.actionQueue
  seqs : s.activeSequences = [] → s'.activeSequences = []
  cfg : s'.cfg = s.cfg
  queue : s'.queue = s.queue
  adds : ∀ st ∈ s'.states, st ∈ s.states ∨ (st.coord = some c ∧ StOK4 st)
  osh : OshIn s.oneshot s'.oneshot
  lpt : s'.lptTapHoldTimeout ≤ max s.lptTapHoldTimeout I

theorem EffIn.refl (I : Nat) (c : Coord) (s : Layout) : EffIn I c s s :=
  ⟨rfl, rfl, fun h => h, rfl, rfl, fun _ h => Or.inl h, OshIn.refl _, Nat.le_max_left _ _⟩

theorem EffIn.trans {I : Nat} {c : Coord} {a b d : Layout} (h1 : EffIn I c a b) (h2 : EffIn I c b d) : EffIn I c a d := by
  refine ⟨h2.tde.trans h1.tde, h2.aq.trans h1.aq, fun h => h2.seqs (h1.seqs h), h2.cfg.trans h1.cfg, h2.queue.trans h1.queue,
    fun st hst => ?_, h1.osh.trans h2.osh, ?_⟩
  · rcases h2.adds st hst with g | g
    · exact h1.adds st g
    · exact Or.inr g
  · have := h1.lpt; have := h2.lpt; omega

/-- ... and neither the waiting state nor `extra_waiting` changes -/
structure EffZ (I : Nat) (c : Coord) (s s' : Layout) : Prop where
  eff : EffIn I c s s'
  waiting : s'.waiting = s.waiting
  extra : s'.extraWaiting = s.extraWaiting

theorem EffZ.refl (I : Nat) (c : Coord) (s : Layout) : EffZ I c s s := ⟨EffIn.refl I c s, rfl, rfl⟩
theorem EffZ.trans {I : Nat} {c : Coord} {a b d : Layout} (h1 : EffZ I c a b) (h2 : EffZ I c b d) : EffZ I c a d :=
  ⟨h1.eff.trans h2.eff, h2.waiting.trans h1.waiting, h2.extra.trans h1.extra⟩

/-- ... or `extra_waiting` stays and the pressed key becomes the undecided tap-hold key -/
structure EffO (T I : Nat) (c : Coord) (s s' : Layout) : Prop where
  eff : EffIn I c s s'
  extra : s'.extraWaiting = s.extraWaiting
  wait : s'.waiting = none ∨ ∃ w, s'.waiting = some w ∧ w.coord = c ∧ WOK T w

theorem EffZ.toO {T I : Nat} {c : Coord} {s s' : Layout} (h : EffZ I c s s') (hw : s.waiting = none) : EffO T I c s s' :=
  ⟨h.eff, h.extra, Or.inl (h.waiting.trans hw)⟩

theorem EffZ.after {T I : Nat} {c : Coord} {a b d : Layout} (h1 : EffZ I c a b) (h2 : EffO T I c b d) : EffO T I c a d :=
  ⟨h1.eff.trans h2.eff, h2.extra.trans h1.extra, h2.wait⟩

theorem EffO.then {T I : Nat} {c : Coord} {a b d : Layout} (h1 : EffO T I c a b) (h2 : EffZ I c b d) : EffO T I c a d :=
  ⟨h1.eff.trans h2.eff, h2.extra.trans h1.extra, by rw [h2.waiting]; exact h1.wait⟩

/-! ### the pieces -/

theorem effZ_of_frame {I : Nat} {c : Coord} {s s' : Layout} (f : Frame s s') (hq : s'.queue = s.queue)
    (ha : ∀ st ∈ s'.states, st ∈ s.states ∨ (st.coord = some c ∧ StOK4 st)) (ho : OshIn s.oneshot s'.oneshot)
    (hl : s'.lptTapHoldTimeout ≤ s.lptTapHoldTimeout) : EffZ I c s s' :=
  ⟨⟨f.tde, f.aq, fun h => f.seqs.trans h, f.cfg, hq, ha, ho, Nat.le_trans hl (Nat.le_max_left _ _)⟩, f.waiting, f.extra⟩

theorem effZ_prelude (I : Nat) (s : Layout) (c : Coord) : EffZ I c s (prelude s c) := by
  obtain ⟨p1, p2, p3, p4⟩ := prelude_spec s c
  refine effZ_of_frame p1 p3 (fun st hst => Or.inl ?_) (p2 ▸ OshIn.refl _) (prelude_lpt s c)
  rw [p4] at hst; exact (List.mem_filter.mp hst).1

theorem effZ_updateCoord (I : Nat) (s : Layout) (c : Coord) : EffZ I c s (updateCoord s c) := by
  obtain ⟨u1, u2, u3, u4⟩ := updateCoord_spec s c
  exact effZ_of_frame u1 u3 (fun st hst => Or.inl (u4 ▸ hst)) (u2 ▸ OshIn.refl _) (Nat.le_of_eq (updateCoord_lpt s c))

theorem effZ_oshOther (I : Nat) (s : Layout) (c : Coord) : EffZ I c s (oshOther s false c).1 := by
  rw [oshOther_spec]
  simp only [Bool.false_eq_true, if_false]
  exact ⟨⟨rfl, rfl, fun h => h, rfl, rfl, fun _ h => Or.inl h, OshIn.other _ c, Nat.le_max_left _ _⟩, rfl, rfl⟩

theorem effZ_setRpt (I : Nat) (c : Coord) (s : Layout) (r : Option Action) : EffZ I c s { s with rptAction := r } :=
  ⟨⟨rfl, rfl, fun h => h, rfl, rfl, fun _ h => Or.inl h, OshIn.refl _, Nat.le_max_left _ _⟩, rfl, rfl⟩

theorem effZ_setDl (I : Nat) (c : Coord) (s : Layout) (v : Nat) : EffZ I c s { s with defaultLayer := v } :=
  ⟨⟨rfl, rfl, fun h => h, rfl, rfl, fun _ h => Or.inl h, OshIn.refl _, Nat.le_max_left _ _⟩, rfl, rfl⟩

theorem effZ_filter (I : Nat) (c : Coord) (s : Layout) (p : St → Bool) :
    EffZ I c s { s with states := s.states.filter p } :=
  ⟨⟨rfl, rfl, fun h => h, rfl, rfl, fun _ h => Or.inl (List.mem_filter.mp h).1, OshIn.refl _, Nat.le_max_left _ _⟩, rfl, rfl⟩

theorem effZ_of_armSpec {I : Nat} {c : Coord} {s s' : Layout} (h : ArmSpec c false s s')
    (hl : s'.lptTapHoldTimeout = s.lptTapHoldTimeout) : EffZ I c s s' := by
  refine effZ_of_frame h.frame h.queue (fun st hst => (h.adds.new st hst).imp id (fun g => ⟨g.1, StOK4.of g.2⟩)) ?_
    (Nat.le_of_eq hl)
  have := h.osh
  simp only [Bool.false_eq_true, if_false] at this
  rw [this]
  exact OshIn.other _ c

theorem effZ_noOp (I : Nat) (s : Layout) (a : Action) (c : Coord) : EffZ I c s (armNoOp s a c false) := by
  obtain ⟨n1, n2, n3, n4⟩ := armNoOp_spec s a c
  refine effZ_of_frame n1 n2 (fun st hst => Or.inl (n3 ▸ hst)) ?_ (Nat.le_of_eq (armNoOp_lpt s a c false))
  rw [n4]
  split
  · exact OshIn.other _ c
  · exact OshIn.refl _

theorem effZ_defaultLayer (I : Nat) (s : Layout) (v : Nat) (c : Coord) : EffZ I c s (armDefaultLayer s v c false) := by
  unfold armDefaultLayer
  simp only []
  split
  · exact ((effZ_updateCoord I s c).trans (effZ_setDl I c _ v)).trans (effZ_oshOther I _ c)
  · exact (effZ_updateCoord I s c).trans (effZ_oshOther I _ c)

theorem effZ_releaseState (I : Nat) (s : Layout) (a : Action) (rs : RelState) (c : Coord) :
    EffZ I c s (armReleaseState s a rs c false) := by
  unfold armReleaseState
  exact ((effZ_filter I c s _).trans (effZ_oshOther I _ c)).trans (effZ_setRpt I c _ _)

theorem effZ_pushState (I : Nat) (c : Coord) (s : Layout) (st : St) (h1 : st.coord = some c) (h2 : StOK4 st) :
    EffZ I c s (s.pushState st) :=
  ⟨⟨rfl, rfl, fun h => h, rfl, rfl, fun x hx => by
      rcases mem_pushCap hx with g | g
      · exact Or.inl g
      · exact Or.inr (g ▸ ⟨h1, h2⟩), OshIn.refl _, Nat.le_max_left _ _⟩, rfl, rfl⟩

/-- the `Custom` arm: the custom action is held as a state of the pressed coordinate (when there is room) -/
theorem effZ_custom (I : Nat) (s : Layout) (a : Action) (id : Nat) (c : Coord) : EffZ I c s (armCustom s a id c false).1 := by
  have z := ((effZ_updateCoord I s c).trans (effZ_oshOther I _ c)).trans (effZ_setRpt I c _ (some a))
  unfold armCustom
  simp only []
  split
  · exact z.trans (effZ_pushState I c _ _ rfl trivial)
  · exact z

/-- `CancelSequences`: with no sequence active it removes nothing but (absent) fake keys -/
theorem effZ_cancel (I : Nat) (s : Layout) (a : Action) (c : Coord) : EffZ I c s (armCancelSequences s a c false) := by
  unfold armCancelSequences
  have z0 : EffZ I c s { s with activeSequences := [], states := s.states.filter (fun st => !(match st with | .fakeKey _ => true | _ => false)) } :=
    ⟨⟨rfl, rfl, fun _ => rfl, rfl, rfl, fun _ h => Or.inl (List.mem_filter.mp h).1, OshIn.refl _, Nat.le_max_left _ _⟩, rfl, rfl⟩
  exact (z0.trans (effZ_oshOther I _ c)).trans (effZ_setRpt I c _ _)

/-- arming the ignore counter (only while a one-shot key is active) touches nothing else -/
theorem oshIn_armIgnore (o : OneShotState) (t : Nat) : OshIn o (o.armIgnore t) := by
  unfold OneShotState.armIgnore
  split
  · exact OshIn.refl o
  · exact ⟨rfl, rfl, rfl, rfl, Or.inl rfl, Nat.le_refl _⟩

/-- `one-shot-pause-processing`: only the number of ticks during which `handle_press` ignores events changes -/
theorem effZ_ignoreTicks (I : Nat) (s : Layout) (a : Action) (t : Nat) (c : Coord) :
    EffZ I c s { updateCoord s c with rptAction := some a, oneshot := (updateCoord s c).oneshot.armIgnore t } :=
  (effZ_updateCoord I s c).trans
    ⟨⟨rfl, rfl, fun h => h, rfl, rfl, fun _ h => Or.inl h, oshIn_armIgnore _ t, Nat.le_max_left _ _⟩, rfl, rfl⟩

/-- the tap-hold arm, nothing waiting: a new waiting state, or (inside the tap-hold interval of a
repeated tap) the tap action at once -/
theorem effO_holdTap (fuel T I : Nat) (s : Layout) (T0 : Nat) (hold tap to : Action) (cfg : HTConfig) (iv : Nat)
    (hh : Simple hold) (ht : Simple tap) (hto : Simple to) (hT : T0 ≤ T) (hI : iv ≤ I)
    (c : Coord) (dl : Nat) (ls : List Nat) (s' : Layout) (cu : CustomEv) (hw : s.waiting = none)
    (h : dispatch (fuel + 3) s (.holdTap T0 hold tap to cfg iv) c dl false ls = .ok (s', cu)) :
    EffO T I c s s' ∧ cu = .noEvent := by
  rw [dispatch_holdTap fuel s T0 hold tap to cfg iv c dl ls ht] at h
  split at h
  · split at h
    · cases h
    · injection h with h; injection h with h1 h2; subst h1
      obtain ⟨w, e1, e2, e3, e4, e5, e6, e7, e8, e9, e10, e11, e12, e13⟩ :=
        armHoldTapWait_spec s c dl T0 hold tap to cfg iv ls hw
      refine ⟨⟨⟨e8.tde, e8.aq, fun h => e8.seqs.trans h, e8.cfg, e9, fun st hst => Or.inl (e10 ▸ hst), e11 ▸ OshIn.refl _, ?_⟩, e13,
        Or.inr ⟨w, e1, e2, ⟨⟨cfg, e7⟩, e4 ▸ hh, e5 ▸ ht, e6 ▸ hto, Nat.le_trans e3 hT⟩⟩⟩, h2.symm⟩
      rw [e12]; exact Nat.le_trans hI (Nat.le_max_right _ _)
  · injection h with h; injection h with h1 h2; subst h1
    have sp := simpleArm_spec (prelude { s with lptTapHoldTimeout := 0 } c) tap ht c false
    have z0 : EffZ I c s { s with lptTapHoldTimeout := 0 } :=
      ⟨⟨rfl, rfl, fun h => h, rfl, rfl, fun _ h => Or.inl h, OshIn.refl _, Nat.zero_le _⟩, rfl, rfl⟩
    have z := ((z0.trans (effZ_prelude I _ c)).trans (effZ_of_armSpec sp (simpleArm_lpt _ _ _ _))).trans
      (effZ_updateCoord I _ c)
    exact ⟨z.toO hw, h2.symm⟩

/-- the tap-hold arm for any recursion budget: a result is the result with a larger budget -/
theorem dispatch_holdTap_lift (fuel : Nat) (s : Layout) (T0 : Nat) (hold tap to : Action) (cfg : HTConfig) (iv : Nat)
    (ht : Simple tap) (c : Coord) (dl : Nat) (ls : List Nat) (r : Layout × CustomEv)
    (h : dispatch (fuel + 1) s (.holdTap T0 hold tap to cfg iv) c dl false ls = .ok r) :
    dispatch (fuel + 3) s (.holdTap T0 hold tap to cfg iv) c dl false ls = .ok r := by
  match fuel, h with
  | 0, h =>
    simp only [dispatch, doAction] at h ⊢
    split at h
    · rw [if_pos (by assumption)]; exact h
    · cases h
  | 1, h =>
    simp only [dispatch] at h ⊢
    split at h
    · rw [if_pos (by assumption)]; exact h
    · exfalso
      cases tap <;> simp only [Simple] at ht <;> simp only [doAction, dispatch] at h <;> cases h
  | g + 2, h =>
    rw [dispatch_holdTap g s T0 hold tap to cfg iv c dl ls ht] at h
    rw [dispatch_holdTap (g + 2) s T0 hold tap to cfg iv c dl ls ht]
    exact h

/-! ## `do_action` inside `multi` -/

theorem doAction_ne_trans (fuel : Nat) (s : Layout) (a : Action) (hat : a ≠ .trans) (c : Coord) (dl : Nat) (os : Bool)
    (ls : List Nat) : doAction (fuel + 1) s a c dl os ls = dispatch fuel (prelude s c) a c dl os ls := by
  cases a <;> first | exact absurd rfl hat | simp only [doAction]

/-- **the effect of `do_action` on the actions nested in `multi`**, by induction over the recursion
budget: with no tap-hold key inside (`htCount = 0`) nothing pending changes (`EffZ`); with at most one
and nothing waiting, at most the pressed key becomes the undecided tap-hold key (`EffO`) -/
theorem engineIn (T I : Nat) : ∀ fuel : Nat,
    (∀ (s : Layout) (a : Action) (c : Coord) (dl : Nat) (ls : List Nat) (s' : Layout) (cu : CustomEv),
      doAction fuel s a c dl false ls = .ok (s', cu) → InAct a = true → htCount a = 0 → EffZ I c s s') ∧
    (∀ (s : Layout) (a : Action) (c : Coord) (dl : Nat) (ls : List Nat) (s' : Layout) (cu : CustomEv),
      dispatch fuel s a c dl false ls = .ok (s', cu) → InAct a = true → htCount a = 0 → EffZ I c s s') ∧
    (∀ (s : Layout) (acs : List Action) (c : Coord) (dl : Nat) (ls : List Nat) (cu0 : CustomEv) (s' : Layout) (cu : CustomEv),
      doActions fuel s acs c dl false ls cu0 = .ok (s', cu) → InActL acs = true → htCountL acs = 0 →
      EffZ I c s s') ∧
    (∀ (s : Layout) (a : Action) (c : Coord) (dl : Nat) (ls : List Nat) (s' : Layout) (cu : CustomEv),
      doAction fuel s a c dl false ls = .ok (s', cu) → InAct a = true → htCount a ≤ 1 → nT a ≤ T → nI a ≤ I →
      s.waiting = none → EffO T I c s s') ∧
    (∀ (s : Layout) (a : Action) (c : Coord) (dl : Nat) (ls : List Nat) (s' : Layout) (cu : CustomEv),
      dispatch fuel s a c dl false ls = .ok (s', cu) → InAct a = true → htCount a ≤ 1 → nT a ≤ T → nI a ≤ I →
      s.waiting = none → EffO T I c s s') ∧
    (∀ (s : Layout) (acs : List Action) (c : Coord) (dl : Nat) (ls : List Nat) (cu0 : CustomEv) (s' : Layout) (cu : CustomEv),
      doActions fuel s acs c dl false ls cu0 = .ok (s', cu) → InActL acs = true → htCountL acs ≤ 1 → nTL acs ≤ T →
      nIL acs ≤ I → s.waiting = none → EffO T I c s s') := by
  intro fuel
  induction fuel with
  | zero =>
    refine ⟨?_, ?_, ?_, ?_, ?_, ?_⟩
    · intro s a c dl ls s' cu h; simp only [doAction] at h; cases h
    · intro s a c dl ls s' cu h; simp only [dispatch] at h; cases h
    · intro s acs c dl ls cu0 s' cu h; simp only [doActions] at h; cases h
    · intro s a c dl ls s' cu h; simp only [doAction] at h; cases h
    · intro s a c dl ls s' cu h; simp only [dispatch] at h; cases h
    · intro s acs c dl ls cu0 s' cu h; simp only [doActions] at h; cases h
  | succ fuel ih =>
    obtain ⟨ihZ1, ihZ2, ihZ3, ihO1, ihO2, ihO3⟩ := ih
    -- the leaves, shared by both forms
    have leaf : ∀ (s : Layout) (a : Action) (c : Coord) (dl : Nat) (ls : List Nat) (s' : Layout) (cu : CustomEv),
        dispatch (fuel + 1) s a c dl false ls = .ok (s', cu) → InAct a = true →
        (match a with | .holdTap .. | .multipleActions _ | .fork .. => False | _ => True) →
        EffZ I c s s' := by
      intro s a c dl ls s' cu h hA hleaf
      cases a <;> try (simp only [InAct, Bool.false_eq_true] at hA; done)
      case noOp =>
        simp only [dispatch] at h
        injection h with h; injection h with h1 h2; subst h1
        exact effZ_noOp I s _ c
      case keyCode kc =>
        simp only [dispatch] at h
        injection h with h; injection h with h1 h2; subst h1
        exact effZ_of_armSpec (armKeyCode_spec s _ kc c false) (armKeyCode_lpt ..)
      case multipleKeyCodes kcs =>
        simp only [dispatch] at h
        injection h with h; injection h with h1 h2; subst h1
        exact effZ_of_armSpec (armMultipleKeyCodes_spec s _ kcs c false) (armMultipleKeyCodes_lpt ..)
      case layer v =>
        simp only [dispatch] at h
        injection h with h; injection h with h1 h2; subst h1
        exact effZ_of_armSpec (armLayer_spec s v c false) (armLayer_lpt ..)
      case defaultLayer v =>
        simp only [dispatch] at h
        injection h with h; injection h with h1 h2; subst h1
        exact effZ_defaultLayer I s v c
      case releaseState rs =>
        simp only [dispatch] at h
        injection h with h; injection h with h1 h2; subst h1
        exact effZ_releaseState I s _ rs c
      case custom id =>
        simp only [dispatch] at h
        injection h with h
        have e : s' = (armCustom s (.custom id) id c false).1 := by rw [h]
        rw [e]
        exact effZ_custom I s _ id c
      case cancelSequences =>
        simp only [dispatch] at h
        injection h with h; injection h with h1 h2; subst h1
        exact effZ_cancel I s _ c
      case oneShotIgnoreEventsTicks t =>
        simp only [dispatch] at h
        injection h with h; injection h with h1 h2; subst h1
        exact effZ_ignoreTicks I s _ t c
      case holdTap => exact absurd hleaf id
      case multipleActions => exact absurd hleaf id
      case fork => exact absurd hleaf id
    have hne : ∀ a : Action, InAct a = true → a ≠ .trans := by
      intro a hA hat; subst hat; simp [InAct] at hA
    refine ⟨?_, ?_, ?_, ?_, ?_, ?_⟩
    · -- doAction, no tap-hold key inside
      intro s a c dl ls s' cu h hA hc
      rw [doAction_ne_trans fuel s a (hne a hA)] at h
      exact (effZ_prelude I s c).trans (ihZ2 (prelude s c) a c dl ls s' cu h hA hc)
    · -- dispatch, no tap-hold key inside
      intro s a c dl ls s' cu h hA hc
      cases a
      case holdTap => simp [htCount] at hc
      case multipleActions acs =>
        simp only [InAct] at hA
        simp only [htCount] at hc
        simp only [dispatch] at h
        split at h
        · cases h
        · rename_i s1 c1 hr
          injection h with h; injection h with h1 h2; subst h1
          have z := ihZ3 (updateCoord s c) acs c dl ls .noEvent s1 c1 hr hA hc
          exact ((effZ_updateCoord I s c).trans z).trans (effZ_setRpt I c _ _)
      case fork l r ks =>
        simp only [InAct, Bool.and_eq_true] at hA
        simp only [htCount] at hc
        simp only [dispatch] at h
        split at h
        · cases h
        · rename_i s1 c1 hr
          injection h with h; injection h with h1 h2; subst h1
          have hb : InAct (if forkHit s ks = true then r else l) = true ∧ htCount (if forkHit s ks = true then r else l) = 0 := by
            split
            · exact ⟨hA.2, by omega⟩
            · exact ⟨hA.1, by omega⟩
          have z := ihZ1 s _ c dl ls s1 c1 hr hb.1 hb.2
          exact z.trans (effZ_setRpt I c _ _)
      all_goals exact leaf s _ c dl ls s' cu h hA trivial
    · -- doActions, no tap-hold key inside
      intro s acs c dl ls cu0 s' cu h hA hc
      cases acs with
      | nil =>
        simp only [doActions] at h
        injection h with h; injection h with h1 h2; subst h1
        exact EffZ.refl I c s
      | cons a rest =>
        simp only [InActL, Bool.and_eq_true] at hA
        simp only [htCountL] at hc
        simp only [doActions] at h
        split at h
        · cases h
        · rename_i s1 c1 hr
          have z1 := ihZ1 s a c dl ls s1 c1 hr hA.1 (by omega)
          have z2 := ihZ3 s1 rest c dl ls (cu0.update c1) s' cu h hA.2 (by omega)
          exact z1.trans z2
    · -- doAction, at most one tap-hold key inside
      intro s a c dl ls s' cu h hA hc hT hI hw
      rw [doAction_ne_trans fuel s a (hne a hA)] at h
      have zp := effZ_prelude I s c
      exact zp.after (ihO2 (prelude s c) a c dl ls s' cu h hA hc hT hI (zp.waiting.trans hw))
    · -- dispatch, at most one tap-hold key inside
      intro s a c dl ls s' cu h hA hc hT hI hw
      cases a
      case holdTap T0 hold tap to cfg iv =>
        simp only [InAct, Bool.and_eq_true] at hA
        simp only [nT] at hT
        simp only [nI] at hI
        have h3 := dispatch_holdTap_lift fuel s T0 hold tap to cfg iv (simpleB_simple hA.1.2) c dl ls (s', cu) h
        exact (effO_holdTap fuel T I s T0 hold tap to cfg iv (simpleB_simple hA.1.1) (simpleB_simple hA.1.2)
          (simpleB_simple hA.2) hT hI c dl ls s' cu hw h3).1
      case multipleActions acs =>
        simp only [InAct] at hA
        simp only [htCount] at hc
        simp only [nT] at hT
        simp only [nI] at hI
        simp only [dispatch] at h
        split at h
        · cases h
        · rename_i s1 c1 hr
          injection h with h; injection h with h1 h2; subst h1
          have zu := effZ_updateCoord I s c
          have z := ihO3 (updateCoord s c) acs c dl ls .noEvent s1 c1 hr hA hc hT hI (zu.waiting.trans hw)
          exact (zu.after z).then (effZ_setRpt I c _ _)
      case fork l r ks =>
        simp only [InAct, Bool.and_eq_true] at hA
        simp only [htCount] at hc
        simp only [nT] at hT
        simp only [nI] at hI
        simp only [dispatch] at h
        split at h
        · cases h
        · rename_i s1 c1 hr
          injection h with h; injection h with h1 h2; subst h1
          have hb : InAct (if forkHit s ks = true then r else l) = true ∧ htCount (if forkHit s ks = true then r else l) ≤ 1 ∧
              nT (if forkHit s ks = true then r else l) ≤ T ∧ nI (if forkHit s ks = true then r else l) ≤ I := by
            split
            · exact ⟨hA.2, by omega, by omega, by omega⟩
            · exact ⟨hA.1, by omega, by omega, by omega⟩
          have z := ihO1 s _ c dl ls s1 c1 hr hb.1 hb.2.1 hb.2.2.1 hb.2.2.2 hw
          exact z.then (effZ_setRpt I c _ _)
      all_goals exact (leaf s _ c dl ls s' cu h hA trivial).toO hw
    · -- doActions, at most one tap-hold key inside
      intro s acs c dl ls cu0 s' cu h hA hc hT hI hw
      cases acs with
      | nil =>
        simp only [doActions] at h
        injection h with h; injection h with h1 h2; subst h1
        exact (EffZ.refl I c s).toO hw
      | cons a rest =>
        simp only [InActL, Bool.and_eq_true] at hA
        simp only [htCountL] at hc
        simp only [nTL] at hT
        simp only [nIL] at hI
        simp only [doActions] at h
        split at h
        · cases h
        · rename_i s1 c1 hr
          by_cases hca : htCount a = 0
          · have z1 := ihZ1 s a c dl ls s1 c1 hr hA.1 hca
            have z2 := ihO3 s1 rest c dl ls (cu0.update c1) s' cu h hA.2 (by omega) (by omega) (by omega)
              (z1.waiting.trans hw)
            exact z1.after z2
          · have z1 := ihO1 s a c dl ls s1 c1 hr hA.1 (by omega) (by omega) (by omega) hw
            have z2 := ihZ3 s1 rest c dl ls (cu0.update c1) s' cu h hA.2 (by omega)
            exact z1.then z2

end KVerif.QU3
