/-
C07 helper lemmas, bisimulation part 1 (layout level): the ages of the key / input history
(`ticks_since_occurrence`) are the only thing a silent tick of a quiet layout changes, and on the
layered fragment nothing ever reads them.

`core l` is `l` with every history age set to 0; `AgeEq l l'` ("equal except history ages") is
`core l = core l'`.  Every function of the layout that does not tick is *equivariant*
(`f (core s) = core (f s)`), `tickPre` is equivariant up to `core`.
-/
import KVerif.Lemmas.BlockReach
namespace KVerif.C07
open KVerif.L KVerif.K

/-- forget the ages of a history -/
def zeroAges {α} (h : List (α × Nat)) : List (α × Nat) := h.map fun e => (e.1, 0)

/-- the layout with every history age forgotten -/
def core (l : Layout) : Layout :=
  { l with histKeys := zeroAges l.histKeys, histInputs := zeroAges l.histInputs }

/-- equal except for the ages of the key / input history -/
def AgeEq (l l' : Layout) : Prop := core l = core l'

theorem zeroAges_idem {α} (h : List (α × Nat)) : zeroAges (zeroAges h) = zeroAges h := by
  simp [zeroAges, List.map_map, Function.comp_def]

theorem zeroAges_histPush {α} (h : List (α × Nat)) (x : α) :
    zeroAges (histPush h x) = histPush (zeroAges h) x := by
  simp [zeroAges, histPush, pushFrontWrap, List.map_take]

theorem zeroAges_histTick {α} (h : List (α × Nat)) : zeroAges (histTick h) = zeroAges h := by
  simp [zeroAges, histTick, List.map_map, Function.comp_def]

theorem core_idem (l : Layout) : core (core l) = core l := by
  simp [core, zeroAges_idem]

theorem AgeEq.refl (l : Layout) : AgeEq l l := rfl
theorem AgeEq.symm {a b : Layout} (h : AgeEq a b) : AgeEq b a := Eq.symm h
theorem AgeEq.trans {a b c : Layout} (h1 : AgeEq a b) (h2 : AgeEq b c) : AgeEq a c := Eq.trans h1 h2
theorem ageEq_core (l : Layout) : AgeEq l (core l) := (core_idem l).symm

/-- outcome of a layout function, ages forgotten -/
def coreR (r : Except L.Crash (Layout × CustomEv)) : Except L.Crash (Layout × CustomEv) :=
  match r with
  | .ok (s, cu) => .ok (core s, cu)
  | .error c => .error c

def coreL (r : Except L.Crash Layout) : Except L.Crash Layout :=
  match r with
  | .ok s => .ok (core s)
  | .error c => .error c

/-! ### what `AgeEq` keeps -/

theorem AgeEq.states {a b : Layout} (h : AgeEq a b) : a.states = b.states := by
  have h2 := congrArg Layout.states (show core a = core b from h); exact h2
theorem AgeEq.queue {a b : Layout} (h : AgeEq a b) : a.queue = b.queue := by
  have h2 := congrArg Layout.queue (show core a = core b from h); exact h2
theorem AgeEq.cfg {a b : Layout} (h : AgeEq a b) : a.cfg = b.cfg := by
  have h2 := congrArg Layout.cfg (show core a = core b from h); exact h2
theorem AgeEq.waiting {a b : Layout} (h : AgeEq a b) : a.waiting = b.waiting := by
  have h2 := congrArg Layout.waiting (show core a = core b from h); exact h2
theorem AgeEq.extraWaiting {a b : Layout} (h : AgeEq a b) : a.extraWaiting = b.extraWaiting := by
  have h2 := congrArg Layout.extraWaiting (show core a = core b from h); exact h2
theorem AgeEq.tapDanceEager {a b : Layout} (h : AgeEq a b) : a.tapDanceEager = b.tapDanceEager := by
  have h2 := congrArg Layout.tapDanceEager (show core a = core b from h); exact h2
theorem AgeEq.actionQueue {a b : Layout} (h : AgeEq a b) : a.actionQueue = b.actionQueue := by
  have h2 := congrArg Layout.actionQueue (show core a = core b from h); exact h2
theorem AgeEq.activeSequences {a b : Layout} (h : AgeEq a b) : a.activeSequences = b.activeSequences := by
  have h2 := congrArg Layout.activeSequences (show core a = core b from h); exact h2
theorem AgeEq.oneshot {a b : Layout} (h : AgeEq a b) : a.oneshot = b.oneshot := by
  have h2 := congrArg Layout.oneshot (show core a = core b from h); exact h2
theorem AgeEq.defaultLayer {a b : Layout} (h : AgeEq a b) : a.defaultLayer = b.defaultLayer := by
  have h2 := congrArg Layout.defaultLayer (show core a = core b from h); exact h2
theorem AgeEq.lpt {a b : Layout} (h : AgeEq a b) : a.lptTapHoldTimeout = b.lptTapHoldTimeout := by
  have h2 := congrArg Layout.lptTapHoldTimeout (show core a = core b from h); exact h2
theorem AgeEq.transV2 {a b : Layout} (h : AgeEq a b) : a.transV2 = b.transV2 := by
  have h2 := congrArg Layout.transV2 (show core a = core b from h); exact h2
theorem AgeEq.dfl {a b : Layout} (h : AgeEq a b) : a.delegateToFirstLayer = b.delegateToFirstLayer := by
  have h2 := congrArg Layout.delegateToFirstLayer (show core a = core b from h); exact h2
theorem AgeEq.histKeyNames {a b : Layout} (h : AgeEq a b) :
    a.histKeys.map (·.1) = b.histKeys.map (·.1) := by
  have := congrArg (fun l => l.histKeys.map (·.1)) h
  simpa [core, zeroAges, List.map_map, Function.comp_def] using this
theorem AgeEq.histInputNames {a b : Layout} (h : AgeEq a b) :
    a.histInputs.map (·.1) = b.histInputs.map (·.1) := by
  have := congrArg (fun l => l.histInputs.map (·.1)) h
  simpa [core, zeroAges, List.map_map, Function.comp_def] using this

theorem AgeEq.keycodes {a b : Layout} (h : AgeEq a b) : a.keycodes = b.keycodes := by
  unfold Layout.keycodes; rw [h.states]

theorem AgeEq.transOrder {a b : Layout} (h : AgeEq a b) : a.transOrder = b.transOrder := by
  have e1 : a.transOrder = (core a).transOrder := rfl
  have e2 : b.transOrder = (core b).transOrder := rfl
  rw [e1, e2, h]

theorem inert_core {s : Layout} (h : C04.Inert s) : C04.Inert (core s) :=
  h.of_eq rfl rfl rfl rfl rfl rfl rfl

theorem inert_ageEq {a b : Layout} (h : AgeEq a b) (hi : C04.Inert a) : C04.Inert b :=
  hi.of_eq h.waiting.symm h.extraWaiting.symm h.tapDanceEager.symm h.actionQueue.symm
    h.activeSequences.symm h.oneshot.symm h.states.symm

/-! ### equivariance of the non-recursive pieces of `do_action` -/

theorem resolveCoord_core (s : Layout) (c : Coord) : ∀ ls, (core s).resolveCoord c ls = s.resolveCoord c ls := by
  intro ls
  induction ls with
  | nil => rfl
  | cons l rest ih =>
    simp only [Layout.resolveCoord]
    rw [ih]
    rfl

theorem prelude_core (s : Layout) (c : Coord) : prelude (core s) c = core (prelude s c) := by
  unfold prelude core
  simp only []
  split <;> rfl

theorem updateCoord_core (s : Layout) (c : Coord) : updateCoord (core s) c = core (updateCoord s c) := by
  unfold updateCoord core
  split <;> rfl

theorem oshOther_core (s : Layout) (b : Bool) (c : Coord) :
    oshOther (core s) b c = (core (oshOther s b c).1, (oshOther s b c).2) := by
  unfold oshOther Layout.oshPress
  split <;> rfl

theorem pushState_core (s : Layout) (st : St) : (core s).pushState st = core (s.pushState st) := rfl

theorem armNoOp_core (s : Layout) (a : Action) (c : Coord) (o : Bool) :
    armNoOp (core s) a c o = core (armNoOp s a c o) := by
  unfold armNoOp Layout.oshPress
  simp only []
  split <;> rfl

theorem histKeysPush_core (s : Layout) (kc : KeyCode) :
    ({ core s with histKeys := histPush (core s).histKeys kc } : Layout)
      = core { s with histKeys := histPush s.histKeys kc } := by
  simp only [core, zeroAges_histPush]

theorem armKeyCode_core (s : Layout) (a : Action) (kc : KeyCode) (c : Coord) (o : Bool) :
    armKeyCode (core s) a kc c o = core (armKeyCode s a kc c o) := by
  unfold armKeyCode
  simp only [updateCoord_core, histKeysPush_core, pushState_core, oshOther_core]
  generalize oshOther _ o c = r
  obtain ⟨s1, oc⟩ := r
  cases oc.isEmpty <;> rfl

theorem pushKeyCodes_core (kcs : List KeyCode) (c : Coord) (f : Nat) : ∀ (s : Layout),
    pushKeyCodes (core s) kcs c f = core (pushKeyCodes s kcs c f) := by
  induction kcs with
  | nil => intro s; rfl
  | cons kc rest ih =>
    intro s
    simp only [pushKeyCodes, List.foldl_cons] at ih ⊢
    rw [histKeysPush_core, pushState_core, ih]

theorem armMultipleKeyCodes_core (s : Layout) (a : Action) (kcs : List KeyCode) (c : Coord) (o : Bool) :
    armMultipleKeyCodes (core s) a kcs c o = core (armMultipleKeyCodes s a kcs c o) := by
  unfold armMultipleKeyCodes
  simp only [updateCoord_core, pushKeyCodes_core, oshOther_core]
  generalize oshOther _ o c = r
  obtain ⟨s1, oc⟩ := r
  cases oc.isEmpty <;> rfl

theorem armLayer_core (s : Layout) (v : Nat) (c : Coord) (o : Bool) :
    armLayer (core s) v c o = core (armLayer s v c o) := by
  unfold armLayer
  simp only [updateCoord_core, pushState_core, oshOther_core]

theorem armDefaultLayer_core (s : Layout) (v : Nat) (c : Coord) (o : Bool) :
    armDefaultLayer (core s) v c o = core (armDefaultLayer s v c o) := by
  unfold armDefaultLayer
  simp only [updateCoord_core]
  have : ∀ t : Layout, (if v < (core t).cfg.layers.length then { core t with defaultLayer := v } else core t)
      = core (if v < t.cfg.layers.length then { t with defaultLayer := v } else t) := by
    intro t
    by_cases hv : v < t.cfg.layers.length
    · rw [if_pos hv, if_pos (show v < (core t).cfg.layers.length from hv)]; rfl
    · rw [if_neg hv, if_neg (show ¬ v < (core t).cfg.layers.length from hv)]
  rw [this, oshOther_core]

theorem armReleaseState_core (s : Layout) (a : Action) (rs : RelState) (c : Coord) (o : Bool) :
    armReleaseState (core s) a rs c o = core (armReleaseState s a rs c o) := by
  unfold armReleaseState
  have : ({ core s with states := (core s).states.filter (fun st => st.releaseState rs) } : Layout)
      = core { s with states := s.states.filter (fun st => st.releaseState rs) } := rfl
  simp only [this, oshOther_core]
  rfl

/-! ### `do_action` on the layered fragment never reads a history age -/

/-- the `Trans` resolution at the top of `do_action` -/
def resolveFirst (s : Layout) (a : Action) (c : Coord) (ls : List Nat) : Except L.Crash (Action × List Nat) :=
  match a with
  | .trans => s.resolveCoord c ls
  | a => .ok (a, ls)

theorem doAction_succ (fuel : Nat) (s : Layout) (a : Action) (c : Coord) (d : Nat) (o : Bool) (ls : List Nat) :
    doAction (fuel + 1) s a c d o ls =
      match resolveFirst s a c ls with
      | .error e => .error e
      | .ok (a, ls) => dispatch fuel (prelude s c) a c d o ls := by
  cases a <;> rfl

theorem resolveFirst_core (s : Layout) (a : Action) (c : Coord) (ls : List Nat) :
    resolveFirst (core s) a c ls = resolveFirst s a c ls := by
  cases a <;> simp only [resolveFirst, resolveCoord_core]

theorem resolveFirst_frag {s : Layout} {a a' : Action} {c : Coord} {ls ls' : List Nat}
    (hc : C04.CfgFrag s.cfg) (hf : C04.Frag a) (h : resolveFirst s a c ls = .ok (a', ls')) : C04.Frag a' := by
  cases a
  case trans => exact (C04.resolve_lookup s c hc ls a' ls' h).2
  all_goals
    simp only [resolveFirst, Except.ok.injEq, Prod.mk.injEq] at h
    obtain ⟨h1, _⟩ := h
    subst h1; exact hf

theorem coreR_map_fst (r : Except L.Crash (Layout × CustomEv)) :
    (match coreR r with
      | .error c => Except.error c
      | .ok r => Except.ok (r.1, CustomEv.noEvent)) =
    coreR (match r with
      | .error c => Except.error c
      | .ok r => Except.ok (r.1, CustomEv.noEvent)) := by
  cases r with
  | error c => rfl
  | ok r => rfl

theorem equiv_all : ∀ fuel : Nat,
    (∀ s a coord delay ls, C04.CfgFrag s.cfg → C04.Inert s → C04.Frag a →
      doAction fuel (core s) a coord delay false ls = coreR (doAction fuel s a coord delay false ls)) ∧
    (∀ s a coord delay ls, C04.CfgFrag s.cfg → C04.Inert s → C04.Frag a →
      dispatch fuel (core s) a coord delay false ls = coreR (dispatch fuel s a coord delay false ls)) ∧
    (∀ s acs coord delay ls, C04.CfgFrag s.cfg → C04.Inert s → C04.FragL acs →
      doActions fuel (core s) acs coord delay false ls .noEvent
        = coreR (doActions fuel s acs coord delay false ls .noEvent)) := by
  intro fuel
  induction fuel with
  | zero =>
    refine ⟨?_, ?_, ?_⟩ <;> intros <;> simp only [doAction, dispatch, doActions] <;> rfl
  | succ fuel ih =>
    obtain ⟨ih1, ih2, ih3⟩ := ih
    refine ⟨?_, ?_, ?_⟩
    · intro s a coord delay ls hc hi hf
      rw [doAction_succ, doAction_succ, resolveFirst_core]
      cases hm : resolveFirst s a coord ls with
      | error e => rfl
      | ok r =>
        obtain ⟨a', ls'⟩ := r
        simp only []
        rw [prelude_core]
        exact ih2 (prelude s coord) a' coord delay ls' ((C04.prelude_same s coord).cfg ▸ hc)
          (C04.prelude_inert coord hi) (resolveFirst_frag hc hf hm)
    · intro s a coord delay ls hc hi hf
      cases a <;> simp only [C04.Frag] at hf <;> simp only [dispatch]
      case noOp => rw [armNoOp_core]; rfl
      case trans => rfl
      case keyCode kc => rw [armKeyCode_core]; rfl
      case multipleKeyCodes kcs => rw [armMultipleKeyCodes_core]; rfl
      case layer v => rw [armLayer_core]; rfl
      case defaultLayer v => rw [armDefaultLayer_core]; rfl
      case releaseState rs => rw [armReleaseState_core]; rfl
      case src =>
        show (if coord.2 ≥ s.cfg.cols then _ else
          match doAction fuel (core s) (s.cfg.srcKey coord.2) coord delay false [] with
          | .error c => Except.error c
          | .ok r => Except.ok (r.1, CustomEv.noEvent)) = _
        rw [ih1 s _ coord delay [] hc hi (C04.srcKey_frag hc _)]
        split
        · rfl
        · exact coreR_map_fst _
      case multipleActions acs =>
        rw [updateCoord_core, ih3 (updateCoord s coord) acs coord delay ls
          ((C04.updateCoord_same s coord).cfg ▸ hc) (C04.updateCoord_inert coord hi) hf]
        cases doActions fuel (updateCoord s coord) acs coord delay false ls .noEvent with
        | error c => rfl
        | ok r => rfl
    · intro s acs coord delay ls hc hi hf
      cases acs with
      | nil => simp only [doActions]; rfl
      | cons a rest =>
        simp only [C04.FragL] at hf
        simp only [doActions]
        rw [ih1 s a coord delay ls hc hi hf.1]
        cases hd : doAction fuel s a coord delay false ls with
        | error c => rfl
        | ok r =>
          obtain ⟨s1, c1⟩ := r
          obtain ⟨r1, r2, r3, _⟩ := (C04.refines_all fuel).1 s a coord delay ls s1 c1 hc hi hf.1 hd
          subst r3
          simp only [coreR]
          exact ih3 s1 rest coord delay ls (r2.cfg ▸ hc) r1 hf.2

/-! ### `dequeue`, `event`, `tick` on the layered fragment -/

theorem dequeue_core (fuel : Nat) {s : Layout} (hc : C04.CfgFrag s.cfg) (hi : C04.Inert s) (q : Queued) :
    dequeue (fuel + 1) (core s) q = coreR (dequeue (fuel + 1) s q) := by
  obtain ⟨ev, since⟩ := q
  cases ev with
  | release c =>
    simp only [dequeue]
    rfl
  | press c =>
    have ht : (core s).transOrder = s.transOrder := rfl
    have htde : (core s).tapDanceEager = none := hi.tde
    simp only [dequeue, ht, hi.tde, htde, bind, Except.bind]
    cases s.transOrder with
    | error e => rfl
    | ok order => exact (equiv_all fuel).1 s .trans c since order hc hi trivial

/-- the history part of `Layout::event` -/
def evPre (s : Layout) (e : Ev) : Layout :=
  match e with
  | .press c => { s with histInputs := histPush s.histInputs c }
  | .release _ => s

theorem evPre_core (s : Layout) (e : Ev) : evPre (core s) e = core (evPre s e) := by
  cases e with
  | press c => simp only [evPre, core, zeroAges_histPush]
  | release c => rfl

theorem evPre_inert {s : Layout} (hi : C04.Inert s) (e : Ev) : C04.Inert (evPre s e) := by
  cases e with
  | press c => exact hi.of_eq rfl rfl rfl rfl rfl rfl rfl
  | release c => exact hi

/-- `Layout::event` on an inert layout, in closed form: the event is queued; when the queue of 32 is
full the oldest event is processed at once (nothing waits, so the flush does nothing) -/
theorem event_inert_eq (f : Nat) (hf : 10 ≤ f) {s : Layout} (hi : C04.Inert s) (e : Ev) :
    event (f + 2) s e =
      match (pushBackWrap QUEUE_SIZE (evPre s e).queue ⟨e, 0⟩).2 with
      | none => .ok { evPre s e with queue := (pushBackWrap QUEUE_SIZE (evPre s e).queue ⟨e, 0⟩).1 }
      | some ov =>
        match dequeue (f + 1) { evPre s e with queue := (pushBackWrap QUEUE_SIZE (evPre s e).queue ⟨e, 0⟩).1 } ov with
        | .error c => .error c
        | .ok r => .ok r.1 := by
  have hfl : ∀ (t : Layout), C04.Inert t →
      flushWaitings (f + 1) t (none :: (List.range EXTRA_WAITING_LEN).map some) = .ok t := by
    intro t ht
    exact flushWaitings_inert ht _ _ (by simp only [List.length_cons, List.length_map, List.length_range, EXTRA_WAITING_LEN]; omega)
  cases e with
  | press c =>
    simp only [event, evPre, bind, Except.bind, pure, Except.pure]
    split
    · rename_i h1; simp only [h1]
    · rename_i ov h1
      simp only [h1]
      rw [hfl ({ s with histInputs := histPush s.histInputs c,
                        queue := (pushBackWrap QUEUE_SIZE s.queue ⟨.press c, 0⟩).1 } : Layout)
        (hi.of_eq rfl rfl rfl rfl rfl rfl rfl)]
      simp only []
      split <;> rename_i h2 <;> simp only [h2]
  | release c =>
    simp only [event, evPre, bind, Except.bind, pure, Except.pure]
    split
    · rename_i h1; simp only [h1]
    · rename_i ov h1
      simp only [h1]
      rw [hfl ({ s with queue := (pushBackWrap QUEUE_SIZE s.queue ⟨.release c, 0⟩).1 } : Layout)
        (hi.of_eq rfl rfl rfl rfl rfl rfl rfl)]
      simp only []
      split <;> rename_i h2 <;> simp only [h2]

/-- **an input event does not read a history age** (layered fragment, also when the queue of 32
overflows) -/
theorem event_core {s : Layout} (hc : C04.CfgFrag s.cfg) (hi : C04.Inert s) (e : Ev) :
    (core s).event e = coreL (s.event e) := by
  unfold Layout.event
  have h4000 : FUEL = 3998 + 2 := rfl
  rw [h4000, event_inert_eq 3998 (by omega) hi, event_inert_eq 3998 (by omega) (inert_core hi), evPre_core]
  have hq : (core (evPre s e)).queue = (evPre s e).queue := rfl
  rw [hq]
  cases (pushBackWrap QUEUE_SIZE (evPre s e).queue ⟨e, 0⟩).2 with
  | none => rfl
  | some ov =>
    simp only []
    have hcq : ({ core (evPre s e) with queue := (pushBackWrap QUEUE_SIZE (evPre s e).queue ⟨e, 0⟩).1 } : Layout)
        = core { evPre s e with queue := (pushBackWrap QUEUE_SIZE (evPre s e).queue ⟨e, 0⟩).1 } := rfl
    have hcfg : C04.CfgFrag ({ evPre s e with queue := (pushBackWrap QUEUE_SIZE (evPre s e).queue ⟨e, 0⟩).1 } : Layout).cfg := by
      cases e <;> exact hc
    rw [hcq, dequeue_core 3998 hcfg ((evPre_inert hi e).of_eq rfl rfl rfl rfl rfl rfl rfl)]
    cases dequeue (3998 + 1) { evPre s e with queue := (pushBackWrap QUEUE_SIZE (evPre s e).queue ⟨e, 0⟩).1 } ov with
    | error c => rfl
    | ok r => rfl

/-- `tickPre` on an inert layout: queue ages, quick-tap countdown, history ages -/
def tickPreI (s : Layout) : Layout :=
  { s with queue := s.queue.map (fun (q : Queued) => { q with since := min (q.since + 1) U16_MAX }),
           lptTapHoldTimeout := s.lptTapHoldTimeout - 1,
           histKeys := histTick s.histKeys, histInputs := histTick s.histInputs }

theorem tickPre_inert_eq {s : Layout} (hi : C04.Inert s) : tickPre s = tickPreI s := by
  unfold tickPre
  simp only [hi.tde]
  simp (disch := first | exact hi.seqs | exact hi.states) only [C04.processSequences_inert]
  simp only [tickPreI, hi.tde]

theorem tickPreI_core (s : Layout) : core (tickPreI (core s)) = core (tickPreI s) := by
  simp only [core, tickPreI, zeroAges_histTick, zeroAges_idem]

/-- a layout tick on an inert layout of the layered fragment, in closed form -/
theorem tick_inert_eq {s : Layout} (hc : C04.CfgFrag s.cfg) (hi : C04.Inert s) :
    tick s = match (tickPre s).queue with
      | [] => .ok (tickPre s, .noEvent)
      | q :: rest => dequeue FUEL ((tickPre s).setQueue rest) q := by
  obtain ⟨p1, p2, _⟩ := C04.tickPre_spec hi
  have hmain : tickMain (tickPre s) = match (tickPre s).queue with
      | [] => .ok (tickPre s, .noEvent)
      | q :: rest => dequeue FUEL ((tickPre s).setQueue rest) q := by
    unfold tickMain
    simp only [p1.waiting, p1.extra, List.isEmpty_nil, if_true, p1.pause, Nat.lt_irrefl, if_false]
    cases (tickPre s).queue <;> rfl
  unfold tick
  simp only [hi.aq, C04.tickOneshot_spec p1, hmain]
  cases hqq : (tickPre s).queue with
  | nil =>
    simp only []
    rw [C04.processExtraWaitings_inert p1.extra]
    simp only [C04.processSequenceCustom_inert p1.states]
    rfl
  | cons q rest =>
    simp only []
    cases hd : dequeue FUEL ((tickPre s).setQueue rest) q with
    | error c => rfl
    | ok r =>
      obtain ⟨s2, c2⟩ := r
      have hi' : C04.Inert ((tickPre s).setQueue rest) := p1.of_eq rfl rfl rfl rfl rfl rfl rfl
      have hd' := hd
      rw [FUEL_succ] at hd'
      obtain ⟨r1, _, _⟩ := dequeue_inert 3999 (s := (tickPre s).setQueue rest) q s2 c2 hd' (p2.cfg ▸ hc) hi'
      simp only []
      rw [C04.processExtraWaitings_inert r1.extra]
      simp only [C04.processSequenceCustom_inert r1.states]
      cases c2 <;> rfl

theorem coreR_eq_iff {r1 r2 : Except L.Crash (Layout × CustomEv)} (h : coreR r1 = coreR r2) :
    (∃ c, r1 = .error c ∧ r2 = .error c) ∨
    (∃ s1 s2 cu, r1 = .ok (s1, cu) ∧ r2 = .ok (s2, cu) ∧ AgeEq s1 s2) := by
  cases r1 with
  | error c1 =>
    cases r2 with
    | error c2 => simp only [coreR, Except.error.injEq] at h; subst h; exact .inl ⟨c1, rfl, rfl⟩
    | ok r => simp [coreR] at h
  | ok r1 =>
    cases r2 with
    | error c2 => simp [coreR] at h
    | ok r2 =>
      obtain ⟨s1, c1⟩ := r1
      obtain ⟨s2, c2⟩ := r2
      simp only [coreR, Except.ok.injEq, Prod.mk.injEq] at h
      obtain ⟨h1, h2⟩ := h
      subst h2
      exact .inr ⟨s1, s2, c1, rfl, rfl, h1⟩

theorem coreL_eq_iff {r1 r2 : Except L.Crash Layout} (h : coreL r1 = coreL r2) :
    (∃ c, r1 = .error c ∧ r2 = .error c) ∨ (∃ s1 s2, r1 = .ok s1 ∧ r2 = .ok s2 ∧ AgeEq s1 s2) := by
  cases r1 with
  | error c1 =>
    cases r2 with
    | error c2 => simp only [coreL, Except.error.injEq] at h; subst h; exact .inl ⟨c1, rfl, rfl⟩
    | ok r => simp [coreL] at h
  | ok r1 =>
    cases r2 with
    | error c2 => simp [coreL] at h
    | ok r2 =>
      simp only [coreL, Except.ok.injEq] at h
      exact .inr ⟨r1, r2, rfl, rfl, h⟩

/-- **layout tick, layered fragment: layouts equal except history ages tick to layouts equal except
history ages, with the same custom event and the same crash** -/
theorem tick_ageEq {a b : Layout} (h : AgeEq a b) (hc : C04.CfgFrag a.cfg) (hi : C04.Inert a) :
    coreR (tick a) = coreR (tick b) := by
  have hib := inert_ageEq h hi
  have hcb : C04.CfgFrag b.cfg := h.cfg ▸ hc
  rw [tick_inert_eq hc hi, tick_inert_eq hcb hib]
  have hpre : AgeEq (tickPre a) (tickPre b) := by
    show core (tickPre a) = core (tickPre b)
    rw [tickPre_inert_eq hi, tickPre_inert_eq hib, ← tickPreI_core a, ← tickPreI_core b, h]
  obtain ⟨p1, p2, _⟩ := C04.tickPre_spec hi
  obtain ⟨q1, q2, _⟩ := C04.tickPre_spec hib
  rw [← hpre.queue]
  cases (tickPre a).queue with
  | nil => exact congrArg (fun l => Except.ok (l, CustomEv.noEvent)) hpre
  | cons q rest =>
    simp only []
    have h1 : C04.Inert ((tickPre a).setQueue rest) := p1.of_eq rfl rfl rfl rfl rfl rfl rfl
    have h2 : C04.Inert ((tickPre b).setQueue rest) := q1.of_eq rfl rfl rfl rfl rfl rfl rfl
    have e1 : core ((tickPre a).setQueue rest) = core ((tickPre b).setQueue rest) :=
      congrArg (fun l : Layout => l.setQueue rest) hpre
    rw [FUEL_succ, ← dequeue_core 3999 (s := (tickPre a).setQueue rest) (p2.cfg ▸ hc) h1,
      ← dequeue_core 3999 (s := (tickPre b).setQueue rest) (q2.cfg ▸ hcb) h2, e1]

/-- **input event, layered fragment** -/
theorem event_ageEq {a b : Layout} (h : AgeEq a b) (hc : C04.CfgFrag a.cfg) (hi : C04.Inert a) (e : Ev) :
    coreL (a.event e) = coreL (b.event e) := by
  rw [← event_core hc hi, ← event_core (h.cfg ▸ hc) (inert_ageEq h hi), h]

end KVerif.C07
