/-
C05, several tap-hold keys pending at once (`waiting` + `extra_waiting`): helper lemmas.

Part 1  one `tick_wt` of a tap-hold entry (`htStep`), what it keeps (`Counted`), when it must decide.
Part 2  the scan of `process_extra_waitings` (`tickExtraWaitings`) as a decomposition of the list.
Part 3  the three `waiting_into_*` functions as one function of the decision (`resolveAct`).
Part 4  the actions that cannot touch the pending part of the layout (`Leaf`) and the frame they keep.
Part 5  the stages of `tick` on a state whose pending entries have such actions.
Part 6  the pending part as a machine of its own (`Pend`, `pendTick`), the simulation, the potential.
-/
import KVerif.Props.C05
import KVerif.Lemmas.MacroPlay
namespace KVerif.C05
open KVerif.L

/-! ## Part 1: one `tick_wt` of a tap-hold entry -/

/-- the entry was made by the `HoldTap` arm of `do_action` (the only arm that fills `extra_waiting`) -/
def isHT (w : Waiting) : Bool :=
  match w.config with
  | .holdTap _ => true
  | _ => false

def htCfg (w : Waiting) : HTConfig :=
  match w.config with
  | .holdTap c => c
  | _ => .default

theorem isHT_config {w : Waiting} (h : isHT w = true) : w.config = .holdTap (htCfg w) := by
  unfold isHT at h
  unfold htCfg
  split at h
  · rename_i c hc; simp only [hc]
  · cases h

/-- the countdown at the top of `tick_wt` -/
def cdown (w : Waiting) : Waiting :=
  { w with timeout := w.timeout - 1, ticks := min (w.ticks + 1) U16_MAX }

/-- `tick_wt` of a tap-hold entry against the queue `q`: the entry afterwards and its decision -/
def htStep (w : Waiting) (q : List Queued) : Waiting × Option WAct :=
  handleHoldTap (cdown w) (htCfg w) q

theorem tickWt_isHT (w : Waiting) (h : isHT w = true) (q : List Queued) (aq : ActionQueue) :
    tickWt w q aq = .ok ((htStep w q).1, q, aq, (htStep w q).2.map (·, none)) :=
  tickWt_holdTap w (htCfg w) (isHT_config h) q aq

/-- what a tick that does not resolve the entry changes: the countdown and the tick counter (and the
queue-length memo, which is not listed) -/
structure Counted (w w' : Waiting) : Prop where
  coord : w'.coord = w.coord
  timeout : w'.timeout = w.timeout - 1
  ticks : w'.ticks = min (w.ticks + 1) U16_MAX
  delay : w'.delay = w.delay
  hold : w'.hold = w.hold
  tap : w'.tap = w.tap
  timeoutAction : w'.timeoutAction = w.timeoutAction
  config : w'.config = w.config
  layerStack : w'.layerStack = w.layerStack

theorem htStep_counted (w : Waiting) (q : List Queued) : Counted w (htStep w q).1 := by
  obtain ⟨f1, f2, f3, f4, f5, f6, f7, f8, f9⟩ := handleHoldTap_fields (cdown w) (htCfg w) q
  exact ⟨f3, f1, f9, f4, f5, f6, f7, f2, f8⟩

theorem Counted.isHT {w w' : Waiting} (h : Counted w w') : isHT w' = isHT w := by
  unfold C05.isHT; rw [h.config]

theorem Counted.htCfg {w w' : Waiting} (h : Counted w w') : htCfg w' = htCfg w := by
  unfold C05.htCfg; rw [h.config]

theorem htStep_ne_noOp (w : Waiting) (q : List Queued) : (htStep w q).2 ≠ some .noOp :=
  handleHoldTap_ne_noOp _ _ _

/-- whether the timeout is skipped is a matter of the variant and of whether a press is queued -/
theorem earlyTrigger_skip (cfg : HTConfig) (q : List Queued) :
    (earlyTrigger cfg q).2 = (skips cfg && !q.any (·.ev.isPress)) := by
  cases cfg <;> simp only [earlyTrigger, skips, Bool.false_and]
  rename_i keys
  induction q with
  | nil => rfl
  | cons x xs ih =>
    simp only [customExcept, List.any_cons, Bool.true_and]
    cases hx : x.ev.isPress
    · simpa using ih
    · simp only [if_true]
      split <;> rfl

/-- the timeout applies to this entry: not the except-keys variant, or some press is queued -/
def timeoutApplies (q : List Queued) (w : Waiting) : Bool :=
  !skips (htCfg w) || q.any (·.ev.isPress)

/-- **an entry whose countdown is at 0 or 1 decides on its next `tick_wt`** (if the timeout applies) -/
theorem htStep_decides (w : Waiting) (q : List Queued) (ht : w.timeout ≤ 1)
    (hs : timeoutApplies q w = true) : ∃ a, (htStep w q).2 = some a := by
  have h0 : (cdown w).timeout = 0 := by show w.timeout - 1 = 0; omega
  unfold htStep handleHoldTap
  have hsk := earlyTrigger_skip (htCfg w) q
  have hsk2 : (earlyTrigger (htCfg w) q).2 = false := by
    rw [hsk]
    unfold timeoutApplies at hs
    cases h1 : skips (htCfg w) <;> cases h2 : q.any (·.ev.isPress) <;> simp_all
  split
  · rename_i hc
    exfalso
    simp [h0] at hc
  · simp only []
    split
    · exact ⟨_, rfl⟩
    · rename_i sk heq
      split
      · split <;> exact ⟨_, rfl⟩
      · rename_i hnone
        -- [t8:while-down] not released: the early triggers saw the whole queue
        have hwd : whileDown (cdown w).coord q = q := whileDown_of_no_release _ q hnone
        have : sk = false := by rw [hwd] at heq; rw [heq] at hsk2; exact hsk2
        subst this
        exact ⟨.timeout, by simp [h0]⟩

/-- an entry that stays undecided had more than one tick left -/
theorem htStep_undecided (w : Waiting) (q : List Queued) (hs : timeoutApplies q w = true)
    (h : (htStep w q).2 = none) : 2 ≤ w.timeout := by
  by_cases ht : w.timeout ≤ 1
  · obtain ⟨a, ha⟩ := htStep_decides w q ht hs
    rw [ha] at h; cases h
  · omega

/-! ## Part 2: the scan of `process_extra_waitings` -/

/-- the entry after a tick that did not resolve it -/
abbrev step1 (q : List Queued) (w : Waiting) : Waiting := (htStep w q).1

/-- `tickExtraWaitings`: every entry undecided and counted down, or the list splits at the FIRST
entry that decides: the ones before it are counted down, the ones behind it are not touched -/
theorem tickExtra_scan (q : List Queued) (aq : ActionQueue) :
    ∀ (l done : List Waiting), (∀ w ∈ l, isHT w = true) →
    ((∀ w ∈ l, (htStep w q).2 = none) ∧
      tickExtraWaitings l q aq done = .ok (done.reverse ++ l.map (step1 q), q, aq, none)) ∨
    (∃ pre w post a, l = pre ++ w :: post ∧ (∀ x ∈ pre, (htStep x q).2 = none) ∧
      (htStep w q).2 = some a ∧
      tickExtraWaitings l q aq done =
        .ok (done.reverse ++ (pre.map (step1 q) ++ (htStep w q).1 :: post), q, aq,
             some (done.length + pre.length, (a, none)))) := by
  intro l
  induction l with
  | nil =>
    intro done _
    left
    exact ⟨fun w h => (by cases h), by simp [tickExtraWaitings]⟩
  | cons w rest ih =>
    intro done hall
    have hw := hall w (by simp)
    have hrest : ∀ x ∈ rest, isHT x = true := fun x hx => hall x (by simp [hx])
    cases hd : (htStep w q).2 with
    | none =>
      have e : tickExtraWaitings (w :: rest) q aq done = tickExtraWaitings rest q aq ((htStep w q).1 :: done) := by
        rw [tickExtraWaitings, tickWt_isHT w hw, hd]
        rfl
      rcases ih ((htStep w q).1 :: done) hrest with ⟨h1, h2⟩ | ⟨pre, x, post, a, h1, h2, h3, h4⟩
      · left
        refine ⟨?_, ?_⟩
        · intro y hy
          rcases List.mem_cons.mp hy with rfl | hy
          · exact hd
          · exact h1 y hy
        · rw [e, h2]
          simp
      · right
        refine ⟨w :: pre, x, post, a, by rw [h1]; rfl, ?_, h3, ?_⟩
        · intro y hy
          rcases List.mem_cons.mp hy with rfl | hy
          · exact hd
          · exact h2 y hy
        · rw [e, h4]
          simp [Nat.add_assoc, Nat.add_comm 1]
    | some a =>
      right
      refine ⟨[], w, rest, a, rfl, fun x hx => (by cases hx), hd, ?_⟩
      rw [tickExtraWaitings, tickWt_isHT w hw, hd]
      rfl

theorem eraseIdx_mid {α} (A : List α) (x : α) (B : List α) : (A ++ x :: B).eraseIdx A.length = A ++ B := by
  induction A with
  | nil => rfl
  | cons a A ih => simp only [List.cons_append, List.length_cons, List.eraseIdx_cons_succ, ih]

theorem getElem?_mid {α} (A : List α) (x : α) (B : List α) : (A ++ x :: B)[A.length]? = some x := by
  induction A with
  | nil => rfl
  | cons a A _ => simp

/-! ## Part 3: the `waiting_into_*` functions as one function of the decision -/

/-- the action a decision selects -/
def pick (w : Waiting) : WAct → Action
  | .hold => w.hold
  | .tap => w.tap
  | .timeout => w.timeoutAction
  | .noOp => .noOp

theorem pick_mem_outcomes (w : Waiting) (a : WAct) (h : a ≠ .noOp) : pick w a ∈ outcomes w := by
  cases a <;> simp [pick, outcomes] at h ⊢

/-- `waiting_into_hold` / `waiting_into_tap` (no chord participants) / `waiting_into_timeout` /
`drop_waiting`, for the entry `w` already taken out of the layout `S` -/
def resolveAct (S : Layout) (w : Waiting) : WAct → Except Crash (Layout × CustomEv)
  | .hold => doAction 3999 (holdPrep S w) w.hold w.coord (waitingDelay w) false w.layerStack
  | .tap =>
    match doAction FUEL S w.tap w.coord (waitingDelay w) false w.layerStack with
    | .error e => .error e
    | .ok (s, ret) => .ok (tapPost s, ret)
  | .timeout => doAction FUEL (timeoutPrep S w) w.timeoutAction w.coord (waitingDelay w) false w.layerStack
  | .noOp => .ok ({ S with waiting := none }, .noEvent)

/-- resolving the entry at index `i` of `extra_waiting` -/
theorem apply_extra (s : Layout) (i : Nat) (w : Waiting) (a : WAct) (dflt : CustomEv)
    (hi : s.extraWaiting[i]? = some w) (ha : a ≠ .noOp) :
    applyWaitingAction s (some (a, none)) (some i) dflt =
      resolveAct { s with extraWaiting := s.extraWaiting.eraseIdx i } w a := by
  cases a with
  | hold =>
    simp only [applyWaitingAction, resolveAct]
    rw [FUEL_succ]
    simp only [waitingIntoHold, takeWaiting, hi, Option.map_some]
  | tap =>
    simp only [applyWaitingAction, resolveAct, waitingIntoTap, takeWaiting, hi, Option.map_some]
    generalize doAction FUEL _ w.tap w.coord (waitingDelay w) false w.layerStack = r
    cases r with
    | error e => rfl
    | ok p => rfl
  | timeout =>
    simp only [applyWaitingAction, resolveAct, waitingIntoTimeout, takeWaiting, hi, Option.map_some]
  | noOp => exact absurd rfl ha

/-- resolving the entry in `waiting` -/
theorem apply_main (s : Layout) (w : Waiting) (a : WAct) (dflt : CustomEv) (hw : s.waiting = some w) :
    applyWaitingAction s (some (a, none)) none dflt = resolveAct { s with waiting := none } w a := by
  cases a with
  | hold =>
    simp only [applyWaitingAction, resolveAct]
    rw [FUEL_succ]
    simp only [waitingIntoHold, takeWaiting, hw, Option.map_some, Layout.clearWaiting]
  | tap =>
    simp only [applyWaitingAction, resolveAct, waitingIntoTap, takeWaiting, hw, Option.map_some, Layout.clearWaiting]
    generalize doAction FUEL _ w.tap w.coord (waitingDelay w) false w.layerStack = r
    cases r with
    | error e => rfl
    | ok p => rfl
  | timeout =>
    simp only [applyWaitingAction, resolveAct, waitingIntoTimeout, takeWaiting, hw, Option.map_some, Layout.clearWaiting]
  | noOp => rfl

theorem waitingDelay_step (w : Waiting) (h : isHT w = true) (q : List Queued) :
    waitingDelay (htStep w q).1 = min (w.delay + min (w.ticks + 1) U16_MAX) U16_MAX := by
  have hc := htStep_counted w q
  unfold waitingDelay
  rw [hc.config, isHT_config h, hc.delay, hc.ticks]

/-- **the extra-waiting stage of `tick`, exactly**: all entries are counted down and nothing else
happens, or the FIRST entry that decides is taken out and resolved, on a layout in which the
entries before it are counted down and the entries behind it are as they were -/
theorem processExtra_eq (s : Layout) (hall : ∀ w ∈ s.extraWaiting, isHT w = true) :
    ((∀ w ∈ s.extraWaiting, (htStep w s.queue).2 = none) ∧
      processExtraWaitings s .noEvent =
        .ok ({ s with extraWaiting := s.extraWaiting.map (step1 s.queue) }, .noEvent)) ∨
    (∃ pre w post a, s.extraWaiting = pre ++ w :: post ∧ (∀ x ∈ pre, (htStep x s.queue).2 = none) ∧
      (htStep w s.queue).2 = some a ∧ a ≠ .noOp ∧
      processExtraWaitings s .noEvent =
        resolveAct { s with extraWaiting := pre.map (step1 s.queue) ++ post } (htStep w s.queue).1 a) := by
  rcases tickExtra_scan s.queue s.actionQueue s.extraWaiting [] hall with ⟨h1, h2⟩ | ⟨pre, w, post, a, h1, h2, h3, h4⟩
  · left
    refine ⟨h1, ?_⟩
    unfold processExtraWaitings
    simp only [h2, List.reverse_nil, List.nil_append]
    rfl
  · right
    have hne : a ≠ .noOp := by
      intro h; subst h; exact htStep_ne_noOp w s.queue h3
    refine ⟨pre, w, post, a, h1, h2, h3, hne, ?_⟩
    unfold processExtraWaitings
    simp only [h4, List.reverse_nil, List.nil_append, List.length_nil, Nat.zero_add]
    have hlen : pre.length = (pre.map (step1 s.queue)).length := by simp
    have e := apply_extra
      ({ s with extraWaiting := pre.map (step1 s.queue) ++ (htStep w s.queue).1 :: post,
                queue := s.queue, actionQueue := s.actionQueue } : Layout)
      pre.length (htStep w s.queue).1 a .noEvent
      (by show (pre.map (step1 s.queue) ++ (htStep w s.queue).1 :: post)[pre.length]? = _
          rw [hlen]; exact getElem?_mid _ _ _) hne
    have e2 : (pre.map (step1 s.queue) ++ (htStep w s.queue).1 :: post).eraseIdx pre.length =
        pre.map (step1 s.queue) ++ post := by
      rw [hlen]; exact eraseIdx_mid _ _ _
    simp only [e2] at e
    exact e

/-- when the tick already has a custom event, `extra_waiting` is not even counted down -/
theorem processExtra_frozen (s : Layout) (cu : CustomEv) (h : cu ≠ .noEvent) :
    processExtraWaitings s cu = .ok (s, cu) := by
  unfold processExtraWaitings
  simp [h]

/-- **the main stage of `tick` with a tap-hold entry in `waiting`, exactly** -/
theorem tickMain_ht (s : Layout) (w : Waiting) (hw : s.waiting = some w) (hh : isHT w = true) :
    tickMain s =
      match (htStep w s.queue).2 with
      | none => .ok ({ s with waiting := some (htStep w s.queue).1 }, .noEvent)
      | some a => resolveAct { s with waiting := none } (htStep w s.queue).1 a := by
  unfold tickMain
  simp only [hw, tickWt_isHT w hh]
  cases hd : (htStep w s.queue).2 with
  | none => rfl
  | some a =>
    simp only [Option.map_some]
    exact apply_main _ _ a .noEvent rfl

/-! ## Part 4: actions that cannot touch the pending part of the layout -/

/-- the actions `do_action` performs without recursion, without a custom event, and without
touching `waiting`, `extra_waiting`, the event queue, the action queue or (while no one-shot key is
active) the one-shot state: keys, output chords, layer-while-held, layer-switch, release-key /
release-layer, macros, cancel-macros, no-op -/
def Leaf : Action → Bool
  | .noOp | .keyCode _ | .multipleKeyCodes _ | .layer _ | .defaultLayer _ | .releaseState _
  | .sequence _ | .repeatableSequence _ | .cancelSequences => true
  | _ => false

/-- what such an action (and the first, second and last stage of `tick`) keeps -/
structure PFrame (s s' : Layout) : Prop where
  waiting : s'.waiting = s.waiting
  extra : s'.extraWaiting = s.extraWaiting
  queue : s'.queue = s.queue
  aq : s'.actionQueue = s.actionQueue
  osh : s.oneshot.keys = [] → s'.oneshot = s.oneshot

theorem PFrame.refl (s : Layout) : PFrame s s := ⟨rfl, rfl, rfl, rfl, fun _ => rfl⟩

theorem PFrame.trans {a b c : Layout} (h1 : PFrame a b) (h2 : PFrame b c) : PFrame a c :=
  ⟨h2.waiting.trans h1.waiting, h2.extra.trans h1.extra, h2.queue.trans h1.queue, h2.aq.trans h1.aq,
   fun hk => (h2.osh (by rw [h1.osh hk]; exact hk)).trans (h1.osh hk)⟩

theorem handlePress_inactive (o : OneShotState) (k : OshKey) (h : o.keys = []) : o.handlePress k = (o, []) := by
  unfold OneShotState.handlePress
  simp [h]

theorem handleRelease_inactive (o : OneShotState) (c : Coord) (h : o.keys = []) :
    o.handleRelease c = (o, true, none) := by
  unfold OneShotState.handleRelease
  simp [h]

theorem oshPress_pframe (s : Layout) (k : OshKey) : PFrame s (s.oshPress k).1 :=
  ⟨rfl, rfl, rfl, rfl, fun h => by
    show (s.oneshot.handlePress k).1 = s.oneshot
    rw [handlePress_inactive _ _ h]⟩

theorem oshOther_pframe (s : Layout) (b : Bool) (c : Coord) : PFrame s (oshOther s b c).1 := by
  unfold oshOther; split
  · exact oshPress_pframe s _
  · exact PFrame.refl s

theorem updateCoord_pframe (s : Layout) (c : Coord) : PFrame s (updateCoord s c) := by
  unfold updateCoord; split
  · exact ⟨rfl, rfl, rfl, rfl, fun _ => rfl⟩
  · exact PFrame.refl s

theorem prelude_pframe (s : Layout) (c : Coord) : PFrame s (prelude s c) := by
  unfold prelude
  split <;> exact ⟨rfl, rfl, rfl, rfl, fun _ => rfl⟩

theorem pushState_pframe (s : Layout) (st : St) : PFrame s (s.pushState st) := ⟨rfl, rfl, rfl, rfl, fun _ => rfl⟩
theorem setHist_pframe (s : Layout) (h : List (KeyCode × Nat)) : PFrame s { s with histKeys := h } :=
  ⟨rfl, rfl, rfl, rfl, fun _ => rfl⟩
theorem setStates_pframe (s : Layout) (st : List St) : PFrame s { s with states := st } :=
  ⟨rfl, rfl, rfl, rfl, fun _ => rfl⟩
theorem setSeqStates_pframe (s : Layout) (q : List SeqState) (st : List St) :
    PFrame s { s with activeSequences := q, states := st } := ⟨rfl, rfl, rfl, rfl, fun _ => rfl⟩
theorem setRpt_pframe (s : Layout) (a : Option Action) : PFrame s { s with rptAction := a } :=
  ⟨rfl, rfl, rfl, rfl, fun _ => rfl⟩

theorem pushKeyCodes_pframe (kcs : List KeyCode) (c : Coord) (f : Nat) : ∀ s : Layout, PFrame s (pushKeyCodes s kcs c f) := by
  induction kcs with
  | nil => intro s; exact PFrame.refl s
  | cons k ks ih =>
    intro s
    have e : pushKeyCodes s (k :: ks) c f =
        pushKeyCodes (({ s with histKeys := histPush s.histKeys k } : Layout).pushState (.normalKey k c f)) ks c f := rfl
    rw [e]
    exact ((setHist_pframe s _).trans (pushState_pframe _ _)).trans (ih _)

theorem armNoOp_pframe (s : Layout) (a : Action) (c : Coord) (os : Bool) : PFrame s (armNoOp s a c os) := by
  unfold armNoOp
  simp only []
  split
  · exact (oshPress_pframe s _).trans (setRpt_pframe _ _)
  · exact setRpt_pframe _ _

theorem armKeyCode_pframe (s : Layout) (a : Action) (kc : KeyCode) (c : Coord) (os : Bool) :
    PFrame s (armKeyCode s a kc c os) := by
  unfold armKeyCode
  simp only []
  have h2 := (((updateCoord_pframe s c).trans (setHist_pframe _ (histPush (updateCoord s c).histKeys kc))).trans
    (pushState_pframe _ (.normalKey kc c 0))).trans (oshOther_pframe _ os c)
  split
  · exact h2.trans (setRpt_pframe _ _)
  · exact h2.trans (setRpt_pframe _ _)

theorem armMultipleKeyCodes_pframe (s : Layout) (a : Action) (kcs : List KeyCode) (c : Coord) (os : Bool) :
    PFrame s (armMultipleKeyCodes s a kcs c os) := by
  unfold armMultipleKeyCodes
  simp only []
  generalize (if os = true then 0 else NORMAL_KEY_FLAG_CLEAR_ON_NEXT_ACTION) = fl
  have h2 := ((updateCoord_pframe s c).trans (pushKeyCodes_pframe kcs c fl _)).trans
    (oshOther_pframe (pushKeyCodes (updateCoord s c) kcs c fl) os c)
  split
  · exact h2.trans (setRpt_pframe _ _)
  · exact h2.trans (setRpt_pframe _ _)

theorem armLayer_pframe (s : Layout) (v : Nat) (c : Coord) (os : Bool) : PFrame s (armLayer s v c os) := by
  unfold armLayer
  simp only []
  exact ((updateCoord_pframe s c).trans (pushState_pframe _ (.layerModifier v c))).trans (oshOther_pframe _ os c)

theorem armDefaultLayer_pframe (s : Layout) (v : Nat) (c : Coord) (os : Bool) :
    PFrame s (armDefaultLayer s v c os) := by
  unfold armDefaultLayer
  simp only []
  have h1 : PFrame s (if v < (updateCoord s c).cfg.layers.length then { updateCoord s c with defaultLayer := v }
      else updateCoord s c) := by
    split
    · exact (updateCoord_pframe s c).trans ⟨rfl, rfl, rfl, rfl, fun _ => rfl⟩
    · exact updateCoord_pframe s c
  exact h1.trans (oshOther_pframe _ os c)

theorem armReleaseState_pframe (s : Layout) (a : Action) (rs : RelState) (c : Coord) (os : Bool) :
    PFrame s (armReleaseState s a rs c os) := by
  unfold armReleaseState
  simp only []
  exact ((setStates_pframe s (s.states.filter (fun st => st.releaseState rs))).trans
    (oshOther_pframe _ os c)).trans (setRpt_pframe _ _)

theorem startSequence_pframe (s : Layout) (evs : List SeqEv) : PFrame s (startSequence s evs) := by
  unfold startSequence
  exact ⟨rfl, rfl, rfl, rfl, fun _ => rfl⟩

theorem armSequence_pframe (s : Layout) (a : Action) (evs : List SeqEv) (c : Coord) (os rep : Bool) :
    PFrame s (armSequence s a evs c os rep) := by
  unfold armSequence
  simp only []
  have h1 : PFrame s (if rep = true then (startSequence s evs).pushState (.repeatingSequence evs c)
      else startSequence s evs) := by
    split
    · exact (startSequence_pframe s evs).trans (pushState_pframe _ _)
    · exact startSequence_pframe s evs
  exact (h1.trans (oshOther_pframe _ os c)).trans (setRpt_pframe _ _)

theorem armCancelSequences_pframe (s : Layout) (a : Action) (c : Coord) (os : Bool) :
    PFrame s (armCancelSequences s a c os) := by
  unfold armCancelSequences
  simp only []
  exact ((setSeqStates_pframe s [] _).trans (oshOther_pframe _ os c)).trans (setRpt_pframe _ _)

/-- **a leaf action runs to completion, returns no custom event, and keeps the frame** — for every
state, coordinate, delay, layer stack and any fuel ≥ 2 -/
theorem doAction_leaf (a : Action) (hl : Leaf a = true) (fuel : Nat) (s : Layout) (c : Coord) (d : Nat)
    (os : Bool) (ls : List Nat) :
    ∃ s', doAction (fuel + 2) s a c d os ls = .ok (s', .noEvent) ∧ PFrame s s' := by
  cases a <;> simp only [Leaf, Bool.false_eq_true] at hl <;> simp only [doAction, dispatch]
  · exact ⟨_, rfl, (prelude_pframe s c).trans (armNoOp_pframe _ _ _ _)⟩
  · exact ⟨_, rfl, (prelude_pframe s c).trans (armKeyCode_pframe _ _ _ _ _)⟩
  · exact ⟨_, rfl, (prelude_pframe s c).trans (armMultipleKeyCodes_pframe _ _ _ _ _)⟩
  · exact ⟨_, rfl, (prelude_pframe s c).trans (armLayer_pframe _ _ _ _)⟩
  · exact ⟨_, rfl, (prelude_pframe s c).trans (armDefaultLayer_pframe _ _ _ _)⟩
  · exact ⟨_, rfl, (prelude_pframe s c).trans (armSequence_pframe _ _ _ _ _ _)⟩
  · exact ⟨_, rfl, (prelude_pframe s c).trans (armSequence_pframe _ _ _ _ _ _)⟩
  · exact ⟨_, rfl, (prelude_pframe s c).trans (armCancelSequences_pframe _ _ _ _)⟩
  · exact ⟨_, rfl, (prelude_pframe s c).trans (armReleaseState_pframe _ _ _ _ _)⟩

/-! ## Part 5: the stages of `tick` -/

/-- the ageing of the queue at the top of `tick` -/
def ageQ (q : List Queued) : List Queued :=
  q.map fun (x : Queued) => { x with since := min (x.since + 1) U16_MAX }

theorem ageQ_evs (q : List Queued) : (ageQ q).map (·.ev) = q.map (·.ev) := by
  unfold ageQ
  rw [List.map_map]
  rfl

theorem ageQ_anyPress (q : List Queued) : (ageQ q).any (·.ev.isPress) = q.any (·.ev.isPress) := by
  unfold ageQ
  rw [List.any_map]
  rfl

theorem ageQ_length (q : List Queued) : (ageQ q).length = q.length := by
  unfold ageQ; simp

theorem setHists_pframe (s : Layout) (h1 : List (KeyCode × Nat)) (h2 : List (Coord × Nat)) :
    PFrame s { s with histKeys := h1, histInputs := h2 } := ⟨rfl, rfl, rfl, rfl, fun _ => rfl⟩

theorem applyEff_pframe (s : Layout) (e : Macro.Eff) : PFrame s (Macro.applyEff s e) := by
  cases e with
  | idle => exact PFrame.refl s
  | untap k => exact setStates_pframe s _
  | perform ev =>
    cases ev with
    | press kc | tap kc =>
      show PFrame s (Macro.fakePress s kc)
      unfold Macro.fakePress
      simp only []
      exact ((pushState_pframe s _).trans (setHist_pframe _ _)).trans (oshPress_pframe _ _)
    | release kc =>
      exact ⟨rfl, rfl, rfl, rfl, fun h => by
        show (s.oneshot.handleRelease (0, 0)).1 = s.oneshot
        rw [handleRelease_inactive _ _ h]⟩
    | custom id => exact pushState_pframe s _
    | noOp | delay _ | complete => exact PFrame.refl s

theorem putBack_pframe (s : Layout) (q : SeqState) : PFrame s (Macro.putBack s q) := by
  unfold Macro.putBack; split
  · exact ⟨rfl, rfl, rfl, rfl, fun _ => rfl⟩
  · exact PFrame.refl s

theorem seqLoop_pframe : ∀ (n : Nat) (s : Layout), PFrame s (Macro.seqLoop n s) := by
  intro n
  induction n with
  | zero => intro s; exact PFrame.refl s
  | succ n ih =>
    intro s
    unfold Macro.seqLoop
    split
    · exact PFrame.refl s
    · rename_i q rest _
      have h1 : PFrame s { s with activeSequences := rest } := ⟨rfl, rfl, rfl, rfl, fun _ => rfl⟩
      exact ((h1.trans (applyEff_pframe _ _)).trans (putBack_pframe _ _)).trans (ih _)

theorem restartRepeating_pframe (s : Layout) : PFrame s (Macro.restartRepeating s) := by
  unfold Macro.restartRepeating
  split
  · split
    · exact ⟨rfl, rfl, rfl, rfl, fun _ => rfl⟩
    · exact PFrame.refl s
  · exact PFrame.refl s

/-- macros in progress do not touch the pending part -/
theorem processSequences_pframe (s : Layout) : PFrame s (processSequences s) := by
  rw [Macro.processSequences_eq]
  exact (seqLoop_pframe _ s).trans (restartRepeating_pframe _)

/-- **first stage of `tick`**: the queue is aged; nothing else of the pending part changes -/
theorem tickPre_pframe (s : Layout) : PFrame { s with queue := ageQ s.queue } (tickPre s) := by
  unfold tickPre
  simp only []
  split
  · refine ((PFrame.trans ?_ (processSequences_pframe _)).trans (setHists_pframe _ _ _))
    exact ⟨rfl, rfl, rfl, rfl, fun _ => rfl⟩
  · refine ((PFrame.trans ?_ (processSequences_pframe _)).trans (setHists_pframe _ _ _))
    exact ⟨rfl, rfl, rfl, rfl, fun _ => rfl⟩

/-- **second stage**: nothing while no one-shot key is active -/
theorem tickOneshot_idle (s : Layout) (hk : s.oneshot.keys = []) : tickOneshot s = .ok (s, .noEvent) := by
  unfold tickOneshot OneShotState.tick
  simp [hk]

/-- **last stage**: only `states` can change -/
theorem processSequenceCustom_pframe (s : Layout) (cu : CustomEv) : PFrame s (processSequenceCustom s cu).1 := by
  unfold processSequenceCustom
  split
  · exact PFrame.refl s
  · exact setStates_pframe s _

/-- what a resolution keeps (it may start the rapid-event pause, so the one-shot state is not
literally unchanged) -/
structure RFrame (s s' : Layout) : Prop where
  waiting : s'.waiting = s.waiting
  extra : s'.extraWaiting = s.extraWaiting
  queue : s'.queue = s.queue
  aq : s'.actionQueue = s.actionQueue
  osh : s.oneshot.keys = [] → s'.oneshot.keys = []

theorem PFrame.toR {s s' : Layout} (h : PFrame s s') : RFrame s s' :=
  ⟨h.waiting, h.extra, h.queue, h.aq, fun hk => by rw [h.osh hk]; exact hk⟩

theorem RFrame.trans {a b c : Layout} (h1 : RFrame a b) (h2 : RFrame b c) : RFrame a c :=
  ⟨h2.waiting.trans h1.waiting, h2.extra.trans h1.extra, h2.queue.trans h1.queue, h2.aq.trans h1.aq,
   fun hk => h2.osh (h1.osh hk)⟩

theorem holdPrep_rframe (s : Layout) (w : Waiting) : RFrame s (holdPrep s w) := by
  unfold holdPrep
  simp only []
  split <;> exact ⟨rfl, rfl, rfl, rfl, fun h => h⟩

theorem timeoutPrep_rframe (s : Layout) (w : Waiting) : RFrame s (timeoutPrep s w) := by
  unfold timeoutPrep
  split <;> exact ⟨rfl, rfl, rfl, rfl, fun h => h⟩

theorem tapPost_rframe (s : Layout) : RFrame s (tapPost s) := ⟨rfl, rfl, rfl, rfl, fun h => h⟩

theorem FUEL_two : FUEL = 3998 + 2 := rfl

/-- **a resolution whose action is a leaf**: it succeeds, yields no custom event and keeps the rest
of the pending part -/
theorem resolveAct_leaf (S : Layout) (w : Waiting) (a : WAct) (ha : a ≠ .noOp)
    (h1 : Leaf w.hold = true) (h2 : Leaf w.tap = true) (h3 : Leaf w.timeoutAction = true) :
    ∃ S', resolveAct S w a = .ok (S', .noEvent) ∧ RFrame S S' := by
  cases a with
  | hold =>
    obtain ⟨S', e, f⟩ := doAction_leaf w.hold h1 3997 (holdPrep S w) w.coord (waitingDelay w) false w.layerStack
    exact ⟨S', e, (holdPrep_rframe S w).trans f.toR⟩
  | tap =>
    obtain ⟨S', e, f⟩ := doAction_leaf w.tap h2 3998 S w.coord (waitingDelay w) false w.layerStack
    refine ⟨tapPost S', ?_, f.toR.trans (tapPost_rframe S')⟩
    simp only [resolveAct, FUEL_two, e]
  | timeout =>
    obtain ⟨S', e, f⟩ := doAction_leaf w.timeoutAction h3 3998 (timeoutPrep S w) w.coord (waitingDelay w) false w.layerStack
    refine ⟨S', ?_, (timeoutPrep_rframe S w).trans f.toR⟩
    simp only [resolveAct, FUEL_two, e]
  | noOp => exact absurd rfl ha

/-! ## Part 6: the pending part as a machine of its own -/

/-- one resolution: the entry as it was when it was resolved, and the decision -/
structure Res where
  w : Waiting
  kind : WAct

/-- the pending part of a layout: `waiting`, `extra_waiting` and the event queue -/
structure Pend where
  main : Option Waiting
  extra : List Waiting
  queue : List Queued

def Pend.of (s : Layout) : Pend := ⟨s.waiting, s.extraWaiting, s.queue⟩

/-- every pending entry, `waiting` first, then `extra_waiting` front to back (arrival order) -/
def Pend.all (p : Pend) : List Waiting := p.main.toList ++ p.extra

/-- `waiting` in one tick -/
def stepMain (q : List Queued) : Option Waiting → Option Waiting × Option Res
  | none => (none, none)
  | some w =>
    match (htStep w q).2 with
    | some a => (none, some ⟨(htStep w q).1, a⟩)
    | none => (some (htStep w q).1, none)

/-- `extra_waiting` in one tick: front to back, every entry is ticked until the first one decides;
that one is taken out, the ones behind it are not ticked at all -/
def scanExtra (q : List Queued) : List Waiting → List Waiting × Option Res
  | [] => ([], none)
  | w :: rest =>
    match (htStep w q).2 with
    | some a => (rest, some ⟨(htStep w q).1, a⟩)
    | none => ((htStep w q).1 :: (scanExtra q rest).1, (scanExtra q rest).2)

/-- one tick of the pending part, and the resolutions it performs, in the order performed -/
def pendTick (p : Pend) : Pend × List Res :=
  (⟨(stepMain (ageQ p.queue) p.main).1, (scanExtra (ageQ p.queue) p.extra).1, ageQ p.queue⟩,
   (stepMain (ageQ p.queue) p.main).2.toList ++ (scanExtra (ageQ p.queue) p.extra).2.toList)

/-- `n` ticks of the pending part, with the log of resolutions -/
def pendRun : Nat → Pend → Pend × List Res
  | 0, p => (p, [])
  | n + 1, p => ((pendRun n (pendTick p).1).1, (pendTick p).2 ++ (pendRun n (pendTick p).1).2)

/-- `n` ticks of the layout without input -/
def tickN : Nat → Layout → Except Crash Layout
  | 0, s => .ok s
  | n + 1, s =>
    match tick s with
    | .error c => .error c
    | .ok (s', _) => tickN n s'

theorem scanExtra_none (q : List Queued) : ∀ l : List Waiting, (∀ w ∈ l, (htStep w q).2 = none) →
    scanExtra q l = (l.map (step1 q), none) := by
  intro l
  induction l with
  | nil => intro _; rfl
  | cons w rest ih =>
    intro h
    have hw := h w (by simp)
    have hr := ih (fun x hx => h x (by simp [hx]))
    simp only [scanExtra, hw, hr, List.map_cons]

theorem scanExtra_split (q : List Queued) (w : Waiting) (post : List Waiting) (a : WAct)
    (hw : (htStep w q).2 = some a) : ∀ pre : List Waiting, (∀ x ∈ pre, (htStep x q).2 = none) →
    scanExtra q (pre ++ w :: post) = (pre.map (step1 q) ++ post, some ⟨(htStep w q).1, a⟩) := by
  intro pre
  induction pre with
  | nil => intro _; simp only [List.nil_append, scanExtra, hw, List.map_nil]
  | cons x xs ih =>
    intro h
    have hx := h x (by simp)
    have hr := ih (fun y hy => h y (by simp [hy]))
    simp only [List.cons_append, scanExtra, hx, hr, List.map_cons]

/-- an entry left in `extra_waiting` after a tick is an old one, untouched or counted down -/
theorem scanExtra_mem (q : List Queued) : ∀ (l : List Waiting) (x : Waiting), x ∈ (scanExtra q l).1 →
    ∃ w ∈ l, x = w ∨ Counted w x := by
  intro l
  induction l with
  | nil => intro x h; cases h
  | cons w rest ih =>
    intro x h
    unfold scanExtra at h
    split at h
    · exact ⟨x, by simp [h], Or.inl rfl⟩
    · rcases List.mem_cons.mp h with rfl | h
      · exact ⟨w, by simp, Or.inr (htStep_counted w q)⟩
      · obtain ⟨y, hy, hh⟩ := ih x h
        exact ⟨y, by simp [hy], hh⟩

/-! ### the hypotheses of the run theorems -/

/-- a pending entry the run theorems speak about: made by the `HoldTap` arm, its three actions are
leaves, and its timeout applies -/
def entryOK (q : List Queued) (w : Waiting) : Bool :=
  isHT w && Leaf w.hold && Leaf w.tap && Leaf w.timeoutAction && timeoutApplies q w

/-- the states the run theorems speak about: nothing in the action queue, no one-shot key active,
every pending entry `entryOK` -/
def pendOK (s : Layout) : Bool :=
  s.actionQueue.isEmpty && s.oneshot.keys.isEmpty && (s.waiting.toList ++ s.extraWaiting).all (entryOK s.queue)

structure EOK (q : List Queued) (w : Waiting) : Prop where
  ht : isHT w = true
  hold : Leaf w.hold = true
  tap : Leaf w.tap = true
  timeoutAction : Leaf w.timeoutAction = true
  applies : timeoutApplies q w = true

theorem entryOK_iff (q : List Queued) (w : Waiting) : entryOK q w = true ↔ EOK q w := by
  unfold entryOK
  simp only [Bool.and_eq_true]
  exact ⟨fun ⟨⟨⟨⟨a, b⟩, c⟩, d⟩, e⟩ => ⟨a, b, c, d, e⟩, fun h => ⟨⟨⟨⟨h.ht, h.hold⟩, h.tap⟩, h.timeoutAction⟩, h.applies⟩⟩

theorem EOK.counted {q : List Queued} {w w' : Waiting} (h : EOK q w) (hc : Counted w w') : EOK q w' :=
  ⟨by rw [hc.isHT]; exact h.ht, by rw [hc.hold]; exact h.hold, by rw [hc.tap]; exact h.tap,
   by rw [hc.timeoutAction]; exact h.timeoutAction,
   by have := h.applies; unfold timeoutApplies at this ⊢; rw [hc.htCfg]; exact this⟩

theorem EOK.age {q : List Queued} {w : Waiting} (h : EOK q w) : EOK (ageQ q) w :=
  ⟨h.ht, h.hold, h.tap, h.timeoutAction,
   by have := h.applies; unfold timeoutApplies at this ⊢; rw [ageQ_anyPress]; exact this⟩

structure POK (s : Layout) : Prop where
  aq : s.actionQueue = []
  osh : s.oneshot.keys = []
  main : ∀ w, s.waiting = some w → EOK s.queue w
  extra : ∀ w ∈ s.extraWaiting, EOK s.queue w

theorem pendOK_iff (s : Layout) : pendOK s = true ↔ POK s := by
  unfold pendOK
  simp only [Bool.and_eq_true, List.isEmpty_iff, List.all_eq_true, List.mem_append, Option.mem_toList]
  constructor
  · rintro ⟨⟨h1, h2⟩, h3⟩
    exact ⟨h1, h2, fun w hw => (entryOK_iff _ _).mp (h3 w (Or.inl hw)),
      fun w hw => (entryOK_iff _ _).mp (h3 w (Or.inr hw))⟩
  · intro h
    refine ⟨⟨h.aq, h.osh⟩, ?_⟩
    rintro w (hw | hw)
    · exact (entryOK_iff _ _).mpr (h.main w hw)
    · exact (entryOK_iff _ _).mpr (h.extra w hw)

/-! ### the stages of a tick on such a state -/

/-- **main stage**: `waiting` is counted down, or resolved by one `resolveAct`; or, with `waiting`
empty and `extra_waiting` not, nothing at all -/
theorem main_stage (s : Layout) (q : List Queued) (hq : s.queue = q) (m : Option Waiting) (hmw : s.waiting = m)
    (hosh : s.oneshot.keys = [])
    (hm : ∀ w, s.waiting = some w → EOK s.queue w)
    (hne : s.waiting ≠ none ∨ s.extraWaiting ≠ []) :
    ∃ s2, tickMain s = .ok (s2, .noEvent) ∧
      s2.waiting = (stepMain q m).1 ∧ s2.extraWaiting = s.extraWaiting ∧
      s2.queue = s.queue ∧ s2.actionQueue = s.actionQueue ∧ s2.oneshot.keys = [] ∧
      (match (stepMain q m).2 with
        | none => s2 = { s with waiting := (stepMain q m).1 }
        | some r => resolveAct { s with waiting := none } r.w r.kind = .ok (s2, .noEvent)) := by
  subst hq; subst hmw
  cases hw : s.waiting with
  | none =>
    have he : s.extraWaiting ≠ [] := by
      rcases hne with h | h
      · exact absurd hw h
      · exact h
    refine ⟨s, nothing_dequeued_while_extra_waiting s hw he, ?_, rfl, rfl, rfl, hosh, ?_⟩
    · simp only [stepMain, hw]
    · simp only [stepMain]
      cases s with | mk => cases hw; rfl
  | some w =>
    have ok := hm w hw
    rw [tickMain_ht s w hw ok.ht]
    cases hd : (htStep w s.queue).2 with
    | none =>
      refine ⟨_, rfl, ?_, rfl, rfl, rfl, hosh, ?_⟩
      · simp only [stepMain, hd]
      · simp only [stepMain, hd]
    | some a =>
      have hc := htStep_counted w s.queue
      obtain ⟨S', e, f⟩ := resolveAct_leaf { s with waiting := none } (htStep w s.queue).1 a
        (fun h => htStep_ne_noOp w s.queue (h ▸ hd))
        (by rw [hc.hold]; exact ok.hold) (by rw [hc.tap]; exact ok.tap)
        (by rw [hc.timeoutAction]; exact ok.timeoutAction)
      refine ⟨S', e, ?_, f.extra, f.queue, f.aq, f.osh hosh, ?_⟩
      · simp only [stepMain, hd]; exact f.waiting
      · simp only [stepMain, hd]; exact e

/-- **extra-waiting stage** (no custom event so far): all entries are counted down, or the first
that decides is resolved by one `resolveAct` -/
theorem extra_stage (s : Layout) (q : List Queued) (hq : s.queue = q) (l : List Waiting) (hl : s.extraWaiting = l)
    (hosh : s.oneshot.keys = [])
    (he : ∀ w ∈ s.extraWaiting, EOK s.queue w) :
    ∃ s3, processExtraWaitings s .noEvent = .ok (s3, .noEvent) ∧
      s3.waiting = s.waiting ∧ s3.extraWaiting = (scanExtra q l).1 ∧
      s3.queue = s.queue ∧ s3.actionQueue = s.actionQueue ∧ s3.oneshot.keys = [] ∧
      (match (scanExtra q l).2 with
        | none => s3 = { s with extraWaiting := (scanExtra q l).1 }
        | some r => resolveAct { s with extraWaiting := (scanExtra q l).1 } r.w r.kind
            = .ok (s3, .noEvent)) := by
  subst hq; subst hl
  rcases processExtra_eq s (fun w hw => (he w hw).ht) with ⟨h1, h2⟩ | ⟨pre, w, post, a, h1, h2, h3, h4, h5⟩
  · have hs := scanExtra_none s.queue s.extraWaiting h1
    refine ⟨_, h2, rfl, ?_, rfl, rfl, hosh, ?_⟩
    · rw [hs]
    · rw [hs]
  · have hs := scanExtra_split s.queue w post a h3 pre h2
    rw [← h1] at hs
    have ok := he w (by rw [h1]; simp)
    have hc := htStep_counted w s.queue
    obtain ⟨S', e, f⟩ := resolveAct_leaf { s with extraWaiting := pre.map (step1 s.queue) ++ post }
      (htStep w s.queue).1 a h4
      (by rw [hc.hold]; exact ok.hold) (by rw [hc.tap]; exact ok.tap)
      (by rw [hc.timeoutAction]; exact ok.timeoutAction)
    refine ⟨S', h5.trans e, f.waiting, ?_, f.queue, f.aq, f.osh hosh, ?_⟩
    · rw [hs]; exact f.extra
    · rw [hs]; exact e

theorem stepMain_some (q : List Queued) (m : Option Waiting) (x : Waiting) (h : (stepMain q m).1 = some x) :
    ∃ w, m = some w ∧ Counted w x := by
  cases m with
  | none => cases h
  | some w =>
    cases hd : (htStep w q).2 with
    | some a => simp only [stepMain, hd] at h; cases h
    | none =>
      simp only [stepMain, hd] at h
      injection h with h
      exact ⟨w, rfl, h ▸ htStep_counted w q⟩

/-- **a whole tick, staged** (state as in `POK`, something pending): the first two stages only age
the queue; the main stage is `stepMain`; the extra-waiting stage is `scanExtra`; every logged
resolution is exactly one `resolveAct`; no custom event reaches `process_extra_waitings`; the pending
part afterwards is `pendTick`'s, and the state is again as in `POK` -/
theorem tick_staged (s : Layout) (h : POK s) (hne : s.waiting ≠ none ∨ s.extraWaiting ≠ []) :
    ∃ s2 s3 : Layout,
      (match (stepMain (ageQ s.queue) s.waiting).2 with
        | none => s2 = { tickPre s with waiting := (stepMain (ageQ s.queue) s.waiting).1 }
        | some r => resolveAct { tickPre s with waiting := none } r.w r.kind = .ok (s2, .noEvent)) ∧
      (match (scanExtra (ageQ s.queue) s.extraWaiting).2 with
        | none => s3 = { s2 with extraWaiting := (scanExtra (ageQ s.queue) s.extraWaiting).1 }
        | some r => resolveAct { s2 with extraWaiting := (scanExtra (ageQ s.queue) s.extraWaiting).1 } r.w r.kind
            = .ok (s3, .noEvent)) ∧
      tick s = .ok (processSequenceCustom s3 .noEvent) ∧
      Pend.of (processSequenceCustom s3 .noEvent).1 = (pendTick (Pend.of s)).1 ∧
      POK (processSequenceCustom s3 .noEvent).1 := by
  have f0 := tickPre_pframe s
  have w1 : (tickPre s).waiting = s.waiting := f0.waiting
  have x1 : (tickPre s).extraWaiting = s.extraWaiting := f0.extra
  have q1 : (tickPre s).queue = ageQ s.queue := f0.queue
  have a1 : (tickPre s).actionQueue = [] := f0.aq.trans h.aq
  have o1 : (tickPre s).oneshot.keys = [] := by
    have := f0.osh h.osh
    rw [this]; exact h.osh
  have e1 := tickOneshot_idle (tickPre s) o1
  obtain ⟨s2, m1, m2, m3, m4, m5, m6, m7⟩ := main_stage (tickPre s) (ageQ s.queue) q1 s.waiting w1 o1
    (fun w hw => by rw [q1]; exact (h.main w (w1 ▸ hw)).age)
    (by rw [w1, x1]; exact hne)
  have he2 : ∀ w ∈ s2.extraWaiting, EOK s2.queue w := by
    intro w hw
    rw [m3, x1] at hw
    rw [m4, q1]
    exact (h.extra w hw).age
  obtain ⟨s3, n1, n2, n3, n4, n5, n6, n7⟩ := extra_stage s2 (ageQ s.queue) (m4.trans q1) s.extraWaiting
    (m3.trans x1) m6 he2
  have f4 := processSequenceCustom_pframe s3 .noEvent
  refine ⟨s2, s3, m7, n7, ?_, ?_, ?_⟩
  · unfold KVerif.L.tick
    simp only [h.aq, e1, m1, CustomEv.update, n1]
  · show (⟨_, _, _⟩ : Pend) = ⟨_, _, _⟩
    rw [f4.waiting, f4.extra, f4.queue, n2, m2, n3, n4, m4, q1]
    rfl
  · refine ⟨?_, ?_, ?_, ?_⟩
    · rw [f4.aq, n5, m5, a1]
    · rw [f4.osh n6]; exact n6
    · intro x hx
      rw [f4.waiting, n2, m2] at hx
      rw [f4.queue, n4, m4, q1]
      obtain ⟨w, hw, hc⟩ := stepMain_some _ _ _ hx
      exact (h.main w hw).age.counted hc
    · intro x hx
      rw [f4.extra, n3] at hx
      rw [f4.queue, n4, m4, q1]
      obtain ⟨w, hw, hh⟩ := scanExtra_mem _ _ _ hx
      rcases hh with rfl | hc
      · exact (h.extra _ hw).age
      · exact (h.extra w hw).age.counted hc

/-! ### the potential: remaining countdown + number of entries ahead -/

def phiMain : Option Waiting → Nat
  | none => 0
  | some w => max w.timeout 1

/-- `max` over the entries of `extra_waiting` of (countdown, at least 1) + (position) -/
def phiExtra : Nat → List Waiting → Nat
  | _, [] => 0
  | i, w :: rest => max (max w.timeout 1 + i) (phiExtra (i + 1) rest)

/-- the tick bound: every pending entry is resolved within this many ticks -/
def Pend.pot (p : Pend) : Nat := max (phiMain p.main) (phiExtra 0 p.extra)

/-- the timeout applies to every pending entry -/
def Pend.Applies (p : Pend) : Prop := ∀ w ∈ p.all, timeoutApplies p.queue w = true

theorem phiExtra_shift : ∀ (l : List Waiting) (i : Nat), phiExtra i l ≤ phiExtra (i + 1) l - 1 := by
  intro l
  induction l with
  | nil => intro i; simp [phiExtra]
  | cons w rest ih =>
    intro i
    have := ih (i + 1)
    simp only [phiExtra]
    omega

theorem timeoutApplies_counted {q : List Queued} {w w' : Waiting} (hc : Counted w w') :
    timeoutApplies q w' = timeoutApplies q w := by
  unfold timeoutApplies; rw [hc.htCfg]

theorem timeoutApplies_age (q : List Queued) (w : Waiting) : timeoutApplies (ageQ q) w = timeoutApplies q w := by
  unfold timeoutApplies; rw [ageQ_anyPress]

theorem phiExtra_scan (q : List Queued) : ∀ (l : List Waiting) (i : Nat),
    (∀ w ∈ l, timeoutApplies q w = true) → phiExtra i (scanExtra q l).1 ≤ phiExtra i l - 1 := by
  intro l
  induction l with
  | nil => intro i _; simp [scanExtra, phiExtra]
  | cons w rest ih =>
    intro i h
    have hw := h w (by simp)
    have hr := ih (i + 1) (fun x hx => h x (by simp [hx]))
    cases hd : (htStep w q).2 with
    | some a =>
      simp only [scanExtra, hd, phiExtra]
      have := phiExtra_shift rest i
      omega
    | none =>
      have h2 := htStep_undecided w q hw hd
      have ht := (htStep_counted w q).timeout
      simp only [scanExtra, hd, phiExtra, ht]
      omega

theorem phiMain_step (q : List Queued) (m : Option Waiting) (h : ∀ w, m = some w → timeoutApplies q w = true) :
    phiMain (stepMain q m).1 ≤ phiMain m - 1 := by
  cases m with
  | none => simp [stepMain, phiMain]
  | some w =>
    cases hd : (htStep w q).2 with
    | some a => simp [stepMain, hd, phiMain]
    | none =>
      have h2 := htStep_undecided w q (h w rfl) hd
      have ht := (htStep_counted w q).timeout
      simp only [stepMain, hd, phiMain, ht]
      omega

theorem Pend.Applies.tick {p : Pend} (h : p.Applies) : (pendTick p).1.Applies := by
  intro x hx
  show timeoutApplies (ageQ p.queue) x = true
  rw [timeoutApplies_age]
  simp only [Pend.all, pendTick, List.mem_append, Option.mem_toList] at hx
  rcases hx with hx | hx
  · obtain ⟨w, hw, hc⟩ := stepMain_some _ _ _ hx
    rw [timeoutApplies_counted hc]
    exact h w (by simp [Pend.all, hw])
  · obtain ⟨w, hw, hh⟩ := scanExtra_mem _ _ _ hx
    rcases hh with rfl | hc
    · exact h _ (by simp [Pend.all, hw])
    · rw [timeoutApplies_counted hc]
      exact h w (by simp [Pend.all, hw])

/-- **every tick lowers the bound by at least one** -/
theorem pot_tick (p : Pend) (h : p.Applies) : (pendTick p).1.pot ≤ p.pot - 1 := by
  have h1 := phiMain_step (ageQ p.queue) p.main (fun w hw => by
    rw [timeoutApplies_age]; exact h w (by simp [Pend.all, hw]))
  have h2 := phiExtra_scan (ageQ p.queue) p.extra 0 (fun w hw => by
    rw [timeoutApplies_age]; exact h w (by simp [Pend.all, hw]))
  show max (phiMain (stepMain (ageQ p.queue) p.main).1) (phiExtra 0 (scanExtra (ageQ p.queue) p.extra).1) ≤
    max (phiMain p.main) (phiExtra 0 p.extra) - 1
  omega

theorem phiExtra_pos (i : Nat) (w : Waiting) (rest : List Waiting) : 1 ≤ phiExtra i (w :: rest) := by
  simp only [phiExtra]; omega

theorem pot_pos (p : Pend) (h : p.all ≠ []) : 1 ≤ p.pot := by
  unfold Pend.pot
  cases hm : p.main with
  | some w => simp only [phiMain]; omega
  | none =>
    cases he : p.extra with
    | nil => exact absurd (by simp [Pend.all, hm, he]) h
    | cons w rest => have := phiExtra_pos 0 w rest; omega

theorem pendRun_succ (n : Nat) (p : Pend) : (pendRun (n + 1) p).1 = (pendRun n (pendTick p).1).1 := rfl

/-- **the pending part empties within the bound**, and `n` is the first tick count at which it is empty -/
theorem pend_resolves : ∀ (N : Nat) (p : Pend), p.pot ≤ N → p.Applies →
    ∃ n, n ≤ p.pot ∧ (pendRun n p).1.all = [] ∧ ∀ m, m < n → (pendRun m p).1.all ≠ [] := by
  intro N
  induction N with
  | zero =>
    intro p hN _
    refine ⟨0, Nat.zero_le _, ?_, fun m hm => absurd hm (Nat.not_lt_zero _)⟩
    show p.all = []
    cases hp : p.all with
    | nil => rfl
    | cons x xs => have := pot_pos p (by rw [hp]; simp); omega
  | succ N ih =>
    intro p hN ha
    cases hp : p.all with
    | nil => exact ⟨0, Nat.zero_le _, hp, fun m hm => absurd hm (Nat.not_lt_zero _)⟩
    | cons x xs =>
      have hne : p.all ≠ [] := by rw [hp]; simp
      have h1 := pot_tick p ha
      have h0 := pot_pos p hne
      obtain ⟨n, hn, he, hf⟩ := ih (pendTick p).1 (by omega) ha.tick
      refine ⟨n + 1, by omega, he, ?_⟩
      intro m hm
      cases m with
      | zero => exact hne
      | succ k => exact hf k (by omega)

theorem pendRun_evs : ∀ (n : Nat) (p : Pend), (pendRun n p).1.queue.map (·.ev) = p.queue.map (·.ev) := by
  intro n
  induction n with
  | zero => intro p; rfl
  | succ n ih =>
    intro p
    rw [pendRun_succ, ih]
    exact ageQ_evs p.queue

/-- **`n` ticks of the layout are `n` ticks of its pending part**, as long as something is pending
at the start of each of them -/
theorem run_sim : ∀ (n : Nat) (s : Layout), POK s → (∀ m, m < n → (pendRun m (Pend.of s)).1.all ≠ []) →
    ∃ s', tickN n s = .ok s' ∧ Pend.of s' = (pendRun n (Pend.of s)).1 ∧ POK s' := by
  intro n
  induction n with
  | zero => intro s h _; exact ⟨s, rfl, rfl, h⟩
  | succ n ih =>
    intro s h hne
    have h0 : (Pend.of s).all ≠ [] := hne 0 (Nat.succ_pos _)
    have hne' : s.waiting ≠ none ∨ s.extraWaiting ≠ [] := by
      cases hw : s.waiting with
      | some w => exact Or.inl (by simp)
      | none =>
        right
        intro he
        exact h0 (by simp [Pend.all, Pend.of, hw, he])
    obtain ⟨s2, s3, _, _, e, hp, hok⟩ := tick_staged s h hne'
    obtain ⟨s', e', hp', hok'⟩ := ih (processSequenceCustom s3 .noEvent).1 hok (by
      intro m hm
      rw [hp]
      exact hne (m + 1) (by omega))
    refine ⟨s', ?_, ?_, hok'⟩
    · simp only [tickN, e]
      exact e'
    · rw [hp', hp]; rfl

/-! ### the log: every pending entry exactly once -/

/-- what identifies a pending entry across ticks: everything a tick does not count -/
abbrev WKey := Coord × Action × Action × Action × List Nat × Nat

def wkey (w : Waiting) : WKey := (w.coord, w.hold, w.tap, w.timeoutAction, w.layerStack, w.delay)

theorem Counted.wkey {w w' : Waiting} (h : Counted w w') : wkey w' = wkey w := by
  simp only [C05.wkey, h.coord, h.hold, h.tap, h.timeoutAction, h.layerStack, h.delay]

theorem stepMain_perm (q : List Queued) (m : Option Waiting) :
    m.toList.map wkey = (stepMain q m).1.toList.map wkey ++ (stepMain q m).2.toList.map (fun r => wkey r.w) := by
  cases m with
  | none => rfl
  | some w =>
    have hk := (htStep_counted w q).wkey
    cases hd : (htStep w q).2 with
    | some a => simp [stepMain, hd, hk]
    | none => simp [stepMain, hd, hk]

theorem scanExtra_perm (q : List Queued) : ∀ l : List Waiting,
    (l.map wkey).Perm ((scanExtra q l).1.map wkey ++ (scanExtra q l).2.toList.map (fun r => wkey r.w)) := by
  intro l
  induction l with
  | nil => exact List.Perm.refl _
  | cons w rest ih =>
    have hk := (htStep_counted w q).wkey
    cases hd : (htStep w q).2 with
    | some a =>
      simp only [scanExtra, hd, List.map_cons, Option.toList_some, List.map_nil, hk]
      exact (List.perm_append_singleton _ _).symm
    | none =>
      simp only [scanExtra, hd, List.map_cons, hk, List.cons_append]
      exact ih.cons _

theorem pendTick_perm (p : Pend) :
    (p.all.map wkey).Perm ((pendTick p).1.all.map wkey ++ (pendTick p).2.map (fun r => wkey r.w)) := by
  have h1 := stepMain_perm (ageQ p.queue) p.main
  have h2 := scanExtra_perm (ageQ p.queue) p.extra
  simp only [Pend.all, pendTick, List.map_append]
  rw [h1]
  generalize (stepMain (ageQ p.queue) p.main).1.toList.map wkey = A1
  generalize (stepMain (ageQ p.queue) p.main).2.toList.map (fun r => wkey r.w) = A2
  generalize p.extra.map wkey = B at h2
  generalize (scanExtra (ageQ p.queue) p.extra).1.map wkey = B1 at h2 ⊢
  generalize (scanExtra (ageQ p.queue) p.extra).2.toList.map (fun r => wkey r.w) = B2 at h2 ⊢
  -- (A1 ++ A2) ++ B ~ (A1 ++ B1) ++ (A2 ++ B2)
  have h3 : ((A1 ++ A2) ++ B).Perm ((A1 ++ A2) ++ (B1 ++ B2)) := List.Perm.append_left _ h2
  refine h3.trans ?_
  rw [List.append_assoc, List.append_assoc]
  exact List.Perm.append_left _ (List.perm_append_comm_assoc _ _ _)

/-- **over any number of ticks: the entries pending at the start are, as a multiset, the entries
still pending plus the entries in the log** — none is lost, duplicated, or resolved twice -/
theorem pendRun_perm : ∀ (n : Nat) (p : Pend),
    (p.all.map wkey).Perm ((pendRun n p).1.all.map wkey ++ (pendRun n p).2.map (fun r => wkey r.w)) := by
  intro n
  induction n with
  | zero => intro p; simp [pendRun]
  | succ n ih =>
    intro p
    have h1 := pendTick_perm p
    have h2 := ih (pendTick p).1
    simp only [pendRun, List.map_append]
    generalize (pendRun n (pendTick p).1).1.all.map wkey = X at h2 ⊢
    generalize (pendRun n (pendTick p).1).2.map (fun r => wkey r.w) = L2 at h2 ⊢
    generalize (pendTick p).2.map (fun r => wkey r.w) = L1 at h1 ⊢
    generalize (pendTick p).1.all.map wkey = Y at h1 h2
    -- p ~ Y ++ L1, Y ~ X ++ L2  ⊢  p ~ X ++ (L1 ++ L2)
    refine h1.trans ((List.Perm.append_right L1 h2).trans ?_)
    rw [List.append_assoc]
    exact List.Perm.append_left _ List.perm_append_comm

theorem stepMain_kind (q : List Queued) (m : Option Waiting) (r : Res) (h : (stepMain q m).2 = some r) :
    r.kind ≠ .noOp ∧ ∃ w, m = some w ∧ r.w = (htStep w q).1 ∧ (htStep w q).2 = some r.kind := by
  cases m with
  | none => cases h
  | some w =>
    cases hd : (htStep w q).2 with
    | none => simp only [stepMain, hd] at h; cases h
    | some a =>
      simp only [stepMain, hd] at h
      injection h with h
      subst h
      exact ⟨fun e => htStep_ne_noOp w q (by rw [hd]; exact congrArg some e), w, rfl, rfl, hd⟩

theorem scanExtra_kind (q : List Queued) : ∀ (l : List Waiting) (r : Res), (scanExtra q l).2 = some r →
    r.kind ≠ .noOp ∧ ∃ w ∈ l, r.w = (htStep w q).1 ∧ (htStep w q).2 = some r.kind := by
  intro l
  induction l with
  | nil => intro r h; cases h
  | cons w rest ih =>
    intro r h
    cases hd : (htStep w q).2 with
    | none =>
      simp only [scanExtra, hd] at h
      obtain ⟨h1, x, hx, h2⟩ := ih r h
      exact ⟨h1, x, by simp [hx], h2⟩
    | some a =>
      simp only [scanExtra, hd] at h
      injection h with h
      subst h
      exact ⟨fun e => htStep_ne_noOp w q (by rw [hd]; exact congrArg some e), w, by simp, rfl, hd⟩

/-- every logged resolution is a tap, a hold or a timeout -/
theorem pendRun_kinds : ∀ (n : Nat) (p : Pend) (r : Res), r ∈ (pendRun n p).2 → r.kind ≠ .noOp := by
  intro n
  induction n with
  | zero => intro p r h; cases h
  | succ n ih =>
    intro p r h
    simp only [pendRun, pendTick, List.mem_append, Option.mem_toList] at h
    rcases h with (h | h) | h
    · exact (stepMain_kind _ _ r h).1
    · exact (scanExtra_kind _ _ r h).1
    · exact ih _ r h

/-! ### which entry of `extra_waiting` a tick resolves, and where the others go -/

/-- position of the entry `process_extra_waitings` resolves this tick: the FIRST one that decides -/
def decider (q : List Queued) : List Waiting → Option Nat
  | [] => none
  | w :: rest =>
    match (htStep w q).2 with
    | some _ => some 0
    | none => (decider q rest).map (· + 1)

/-- the decider is the first deciding entry, it is the one logged and taken out -/
theorem decider_spec (q : List Queued) : ∀ (l : List Waiting) (j : Nat), decider q l = some j →
    ∃ w a, l[j]? = some w ∧ (htStep w q).2 = some a ∧ (∀ k x, k < j → l[k]? = some x → (htStep x q).2 = none) ∧
      (scanExtra q l).2 = some ⟨(htStep w q).1, a⟩ ∧
      (scanExtra q l).1 = (l.take j).map (step1 q) ++ l.drop (j + 1) := by
  intro l
  induction l with
  | nil => intro j h; cases h
  | cons w rest ih =>
    intro j h
    cases hd : (htStep w q).2 with
    | some a =>
      simp only [decider, hd] at h
      injection h with h
      subst h
      refine ⟨w, a, rfl, hd, fun k x hk => absurd hk (Nat.not_lt_zero _), ?_, ?_⟩
      · simp only [scanExtra, hd]
      · simp only [scanExtra, hd]; rfl
    | none =>
      simp only [decider, hd] at h
      cases hr : decider q rest with
      | none => rw [hr] at h; cases h
      | some j' =>
        rw [hr] at h
        injection h with h
        subst h
        obtain ⟨x, a, h1, h2, h3, h4, h5⟩ := ih j' hr
        refine ⟨x, a, by simpa using h1, h2, ?_, ?_, ?_⟩
        · intro k y hk hy
          cases k with
          | zero => simp at hy; subst hy; exact hd
          | succ k' => exact h3 k' y (by have : k' + 1 < j' + 1 := hk; omega) (by simpa using hy)
        · simp only [scanExtra, hd, h4]
        · simp only [scanExtra, hd, h5, List.take_succ_cons, List.map_cons, List.drop_succ_cons, List.cons_append]

theorem decider_none (q : List Queued) : ∀ (l : List Waiting), decider q l = none →
    (scanExtra q l).2 = none ∧ (scanExtra q l).1 = l.map (step1 q) := by
  intro l
  induction l with
  | nil => intro _; exact ⟨rfl, rfl⟩
  | cons w rest ih =>
    intro h
    cases hd : (htStep w q).2 with
    | some a => simp only [decider, hd] at h; cases h
    | none =>
      simp only [decider, hd] at h
      cases hr : decider q rest with
      | some j => rw [hr] at h; cases h
      | none =>
        obtain ⟨h1, h2⟩ := ih hr
        simp only [scanExtra, hd, h1, h2, List.map_cons]
        exact ⟨trivial, trivial⟩

/-- **where the entry at position `i` is after the tick**: it is the one resolved; or an entry ahead
of it was resolved and it moved up one place, NOT ticked; or it was ticked, stayed undecided and
kept its place -/
theorem scanExtra_index (q : List Queued) : ∀ (l : List Waiting) (i : Nat) (w : Waiting), l[i]? = some w →
    decider q l = some i ∨
    (∃ k, k < i ∧ decider q l = some k ∧ (scanExtra q l).1[i - 1]? = some w) ∨
    ((∀ k, decider q l = some k → i < k) ∧ (htStep w q).2 = none ∧ (scanExtra q l).1[i]? = some (step1 q w)) := by
  intro l
  induction l with
  | nil => intro i w h; simp at h
  | cons w0 rest ih =>
    intro i w h
    cases hd : (htStep w0 q).2 with
    | some a =>
      cases i with
      | zero => left; simp only [decider, hd]
      | succ i' =>
        right; left
        refine ⟨0, Nat.succ_pos _, by simp only [decider, hd], ?_⟩
        simp only [scanExtra, hd]
        simpa using h
    | none =>
      cases i with
      | zero =>
        right; right
        have : w0 = w := by simpa using h
        subst this
        refine ⟨?_, hd, ?_⟩
        · intro k hk
          simp only [decider, hd] at hk
          cases hr : decider q rest with
          | none => rw [hr] at hk; cases hk
          | some j => rw [hr] at hk; injection hk with hk; rw [← hk]; exact Nat.succ_pos _
        · simp only [scanExtra, hd]; rfl
      | succ i' =>
        have h' : rest[i']? = some w := by simpa using h
        rcases ih i' w h' with h1 | ⟨k, hk, h1, h2⟩ | ⟨h1, h2, h3⟩
        · left; simp only [decider, hd, h1]; rfl
        · right; left
          refine ⟨k + 1, by omega, by simp only [decider, hd, h1]; rfl, ?_⟩
          simp only [scanExtra, hd]
          obtain ⟨m, rfl⟩ : ∃ m, i' = m + 1 := ⟨i' - 1, by omega⟩
          simpa using h2
        · right; right
          refine ⟨?_, h2, ?_⟩
          · intro k hk
            simp only [decider, hd] at hk
            cases hr : decider q rest with
            | none => rw [hr] at hk; cases hk
            | some j =>
              rw [hr] at hk; injection hk with hk
              have := h1 j hr
              rw [← hk]
              show i' + 1 < j + 1
              omega
          · simp only [scanExtra, hd]
            simpa using h3

/-- **an entry of `extra_waiting` is resolved within (its countdown, at least 1) + (its position)
ticks**: after `n` ticks, `n + 1` within that bound, it sits at some position `j ≤ i`, unchanged but
for its counters, and the next tick resolves exactly position `j` -/
theorem extra_entry_resolves : ∀ (B : Nat) (p : Pend) (i : Nat) (w : Waiting), p.Applies →
    p.extra[i]? = some w → max w.timeout 1 + i ≤ B →
    ∃ n j w', n + 1 ≤ max w.timeout 1 + i ∧ j ≤ i ∧ (pendRun n p).1.extra[j]? = some w' ∧ wkey w' = wkey w ∧
      decider (ageQ (pendRun n p).1.queue) (pendRun n p).1.extra = some j := by
  intro B
  induction B with
  | zero => intro p i w _ _ hB; omega
  | succ B ih =>
    intro p i w ha hi hB
    have hap : timeoutApplies (ageQ p.queue) w = true := by
      rw [timeoutApplies_age]
      exact ha w (by simp [Pend.all, List.mem_of_getElem? hi])
    rcases scanExtra_index (ageQ p.queue) p.extra i w hi with h1 | ⟨k, hk, h1, h2⟩ | ⟨h1, h2, h3⟩
    · exact ⟨0, i, w, by omega, Nat.le_refl _, hi, rfl, h1⟩
    · obtain ⟨n, j, w', b1, b2, b3, b4, b5⟩ := ih (pendTick p).1 (i - 1) w ha.tick h2 (by omega)
      exact ⟨n + 1, j, w', by omega, by omega, b3, b4, b5⟩
    · have hc := htStep_counted w (ageQ p.queue)
      have h2' := htStep_undecided w (ageQ p.queue) hap h2
      have ht : (step1 (ageQ p.queue) w).timeout = w.timeout - 1 := hc.timeout
      obtain ⟨n, j, w', b1, b2, b3, b4, b5⟩ := ih (pendTick p).1 i (step1 (ageQ p.queue) w) ha.tick h3
        (by rw [ht]; omega)
      rw [ht] at b1
      exact ⟨n + 1, j, w', by omega, b2, b3, b4.trans hc.wkey, b5⟩

/-- the entry in `waiting` is resolved within (its countdown, at least 1) ticks -/
theorem main_entry_resolves : ∀ (B : Nat) (p : Pend) (w : Waiting), p.Applies → p.main = some w →
    max w.timeout 1 ≤ B →
    ∃ n w' r, n + 1 ≤ max w.timeout 1 ∧ (pendRun n p).1.main = some w' ∧ wkey w' = wkey w ∧
      (stepMain (ageQ (pendRun n p).1.queue) (some w')).2 = some r := by
  intro B
  induction B with
  | zero => intro p w _ _ hB; omega
  | succ B ih =>
    intro p w ha hm hB
    have hap : timeoutApplies (ageQ p.queue) w = true := by
      rw [timeoutApplies_age]
      exact ha w (by simp [Pend.all, hm])
    cases hd : (htStep w (ageQ p.queue)).2 with
    | some a =>
      exact ⟨0, w, ⟨(htStep w (ageQ p.queue)).1, a⟩, by omega, hm, rfl, by simp only [pendRun, stepMain, hd]⟩
    | none =>
      have hc := htStep_counted w (ageQ p.queue)
      have h2' := htStep_undecided w (ageQ p.queue) hap hd
      have hm' : (pendTick p).1.main = some (step1 (ageQ p.queue) w) := by
        simp only [pendTick, hm, stepMain, hd]
      have ht : (step1 (ageQ p.queue) w).timeout = w.timeout - 1 := hc.timeout
      obtain ⟨n, w', r, b1, b2, b3, b4⟩ := ih (pendTick p).1 _ ha.tick hm' (by rw [ht]; omega)
      rw [ht] at b1
      exact ⟨n + 1, w', r, by omega, b2, b3.trans hc.wkey, b4⟩

/-! ### after the last resolution: the rapid-event pause, then the queue -/

theorem processExtra_empty (s : Layout) (h : s.extraWaiting = []) (cu : CustomEv) :
    processExtraWaitings s cu = .ok (s, cu) := by
  cases s
  simp only at h
  subst h
  unfold processExtraWaitings
  split <;> rfl

/-- a tick with nothing pending while the rapid-event pause runs: the pause is counted down, the
queue is aged, nothing is dequeued -/
theorem tick_paused (s : Layout) (h : POK s) (hw : s.waiting = none) (he : s.extraWaiting = [])
    (hp : 0 < s.oneshot.pauseInputProcessingTicks) :
    ∃ s' cu, tick s = .ok (s', cu) ∧ POK s' ∧ s'.waiting = none ∧ s'.extraWaiting = [] ∧
      s'.queue = ageQ s.queue ∧
      s'.oneshot.pauseInputProcessingTicks = s.oneshot.pauseInputProcessingTicks - 1 := by
  have f0 := tickPre_pframe s
  have w1 : (tickPre s).waiting = none := f0.waiting.trans hw
  have x1 : (tickPre s).extraWaiting = [] := f0.extra.trans he
  have q1 : (tickPre s).queue = ageQ s.queue := f0.queue
  have a1 : (tickPre s).actionQueue = [] := f0.aq.trans h.aq
  have o1 : (tickPre s).oneshot = s.oneshot := f0.osh h.osh
  have e1 := tickOneshot_idle (tickPre s) (by rw [o1]; exact h.osh)
  have hp1 : 0 < (tickPre s).oneshot.pauseInputProcessingTicks := by rw [o1]; exact hp
  have m1 : tickMain (tickPre s) = .ok ({ tickPre s with oneshot := { (tickPre s).oneshot with
      pauseInputProcessingTicks := (tickPre s).oneshot.pauseInputProcessingTicks - 1 } }, .noEvent) := by
    unfold tickMain
    simp only [w1, x1, List.isEmpty_nil, if_true, hp1]
  generalize hs2 : ({ tickPre s with oneshot := { (tickPre s).oneshot with
      pauseInputProcessingTicks := (tickPre s).oneshot.pauseInputProcessingTicks - 1 } } : Layout) = s2 at m1
  have w2 : s2.waiting = none := by rw [← hs2]; exact w1
  have x2 : s2.extraWaiting = [] := by rw [← hs2]; exact x1
  have q2 : s2.queue = ageQ s.queue := by rw [← hs2]; exact q1
  have a2 : s2.actionQueue = [] := by rw [← hs2]; exact a1
  have k2 : s2.oneshot.keys = [] := by rw [← hs2]; show (tickPre s).oneshot.keys = []; rw [o1]; exact h.osh
  have p2 : s2.oneshot.pauseInputProcessingTicks = s.oneshot.pauseInputProcessingTicks - 1 := by
    rw [← hs2]; show (tickPre s).oneshot.pauseInputProcessingTicks - 1 = _; rw [o1]
  have n1 := processExtra_empty s2 x2 .noEvent
  have f4 := processSequenceCustom_pframe s2 .noEvent
  refine ⟨(processSequenceCustom s2 .noEvent).1, (processSequenceCustom s2 .noEvent).2, ?_, ?_,
    f4.waiting.trans w2, f4.extra.trans x2, f4.queue.trans q2, ?_⟩
  · unfold KVerif.L.tick
    simp only [h.aq, e1, m1, CustomEv.update, n1]
  · refine ⟨f4.aq.trans a2, by rw [f4.osh k2]; exact k2, ?_, ?_⟩
    · intro w hw'; rw [f4.waiting, w2] at hw'; cases hw'
    · intro w hw'; rw [f4.extra, x2] at hw'; cases hw'
  · rw [f4.osh k2]; exact p2

/-- the whole pause: as many ticks as it has left -/
theorem pause_run : ∀ (k : Nat) (s : Layout), POK s → s.waiting = none → s.extraWaiting = [] →
    s.oneshot.pauseInputProcessingTicks = k →
    ∃ s', tickN k s = .ok s' ∧ POK s' ∧ s'.waiting = none ∧ s'.extraWaiting = [] ∧
      s'.oneshot.pauseInputProcessingTicks = 0 ∧ s'.queue.map (·.ev) = s.queue.map (·.ev) := by
  intro k
  induction k with
  | zero => intro s h hw he hp; exact ⟨s, rfl, h, hw, he, hp, rfl⟩
  | succ k ih =>
    intro s h hw he hp
    obtain ⟨s1, cu, e, h1, w1, x1, q1, p1⟩ := tick_paused s h hw he (by omega)
    obtain ⟨s', e', h', w', x', p', q'⟩ := ih s1 h1 w1 x1 (by omega)
    refine ⟨s', ?_, h', w', x', p', ?_⟩
    · simp only [tickN, e]; exact e'
    · rw [q', q1, ageQ_evs]

/-- once nothing is pending and the pause is over, the main stage of the next tick takes exactly
the oldest queued event -/
theorem main_pops_oldest (s : Layout) (h : POK s) (hw : s.waiting = none) (he : s.extraWaiting = [])
    (hp : s.oneshot.pauseInputProcessingTicks = 0) (q : Queued) (rest : List Queued) (hq : s.queue = q :: rest) :
    tickOneshot (tickPre s) = .ok (tickPre s, .noEvent) ∧
    tickMain (tickPre s) =
      dequeue FUEL ((tickPre s).setQueue (ageQ rest)) ⟨q.ev, min (q.since + 1) U16_MAX⟩ := by
  have f0 := tickPre_pframe s
  have o1 : (tickPre s).oneshot = s.oneshot := f0.osh h.osh
  refine ⟨tickOneshot_idle (tickPre s) (by rw [o1]; exact h.osh), ?_⟩
  exact buffered_events_replayed_in_order (tickPre s) (f0.waiting.trans hw) (f0.extra.trans he)
    (by rw [o1]; exact hp) _ _ (by rw [f0.queue]; show ageQ s.queue = _; rw [hq]; rfl)

/-- the log of `m + 1` ticks is the log of `m` ticks followed by what the next tick resolves -/
theorem pendRun_log_snoc : ∀ (m : Nat) (p : Pend),
    (pendRun (m + 1) p).2 = (pendRun m p).2 ++ (pendTick (pendRun m p).1).2 := by
  intro m
  induction m with
  | zero => intro p; simp [pendRun]
  | succ m ih =>
    intro p
    have e1 : (pendRun (m + 1 + 1) p).2 = (pendTick p).2 ++ (pendRun (m + 1) (pendTick p).1).2 := rfl
    have e2 : (pendRun (m + 1) p).2 = (pendTick p).2 ++ (pendRun m (pendTick p).1).2 := rfl
    rw [e1, ih (pendTick p).1, e2, pendRun_succ, List.append_assoc]

theorem pendRun_empty_stays : ∀ (k : Nat) (p : Pend), p.all = [] → (pendRun k p).1.all = [] := by
  intro k
  induction k with
  | zero => intro p hp; exact hp
  | succ k ih =>
    intro p hp
    rw [pendRun_succ]
    apply ih
    have hm : p.main = none := by
      cases hm : p.main with
      | none => rfl
      | some x => simp [Pend.all, hm] at hp
    have hx : p.extra = [] := by simpa [Pend.all, hm] using hp
    simp [Pend.all, pendTick, hm, hx, stepMain, scanExtra]

theorem pendRun_add : ∀ (a b : Nat) (p : Pend), (pendRun (a + b) p).1 = (pendRun b (pendRun a p).1).1 := by
  intro a
  induction a with
  | zero => intro b p; simp [pendRun]
  | succ a ih =>
    intro b p
    have : a + 1 + b = (a + b) + 1 := by omega
    rw [this, pendRun_succ, ih, pendRun_succ]

/-- if something is pending after `n` ticks, something was pending before each of them -/
theorem pendRun_nonempty_before (n : Nat) (p : Pend) (x : Waiting) (hx : x ∈ (pendRun n p).1.all) :
    ∀ m, m < n → (pendRun m p).1.all ≠ [] := by
  intro m hm hem
  have := pendRun_empty_stays (n - m) _ hem
  rw [← pendRun_add m (n - m), show m + (n - m) = n by omega] at this
  rw [this] at hx
  cases hx

/-! ## Witnesses used by Props/C05multi.lean (definitions only) -/

/-- the waiting state the `HoldTap` arm of `do_action` builds -/
def newEntry (s : Layout) (coord : Coord) (delay timeout : Nat) (hold tap timeoutAction : Action)
    (config : HTConfig) (layerStack : List Nat) : Waiting :=
  { coord, timeout := if s.quickTapHoldTimeout then timeout - delay else timeout,
    delay := if s.quickTapHoldTimeout then 0 else delay, ticks := 0, hold, tap, timeoutAction,
    config := .holdTap config, layerStack, prevQueueLen := 255 }

/-- a pending tap-hold entry at (0, y) with countdown `T`: hold = timeout = key 100+y, tap = key 200+y -/
def plainW (cfg : HTConfig) (y T : Nat) : Waiting :=
  { coord := (0, y), timeout := T, delay := 0, ticks := 0, hold := .keyCode (100 + y), tap := .keyCode (200 + y),
    timeoutAction := .keyCode (100 + y), config := .holdTap cfg, layerStack := [0], prevQueueLen := 255 }

/-- nothing but the given pending entries -/
def pendingOnly (m : Option Waiting) (ex : List Waiting) : Layout :=
  { cfg := { layers := [[]], srcKeys := [] }, waiting := m, extraWaiting := ex }

/-- keys down after `n` ticks without input (`[0]` stands for a crash) -/
def keysAfter (n : Nat) (s : Layout) : List KeyCode :=
  match tickN n s with
  | .ok s' => s'.keycodes
  | .error _ => [0]

/-- two entries in `extra_waiting` whose countdowns run out on the same tick -/
def tieS : Layout := pendingOnly none [plainW .default 1 2, plainW .default 2 2]

/-- the first key in `waiting` with a long countdown, two later arrivals with shorter ones -/
def orderS : Layout := pendingOnly (some (plainW .default 1 100)) [plainW .default 2 3, plainW .default 3 50]

/-- a `tap-hold-except-keys` entry with nothing queued -/
def exceptS : Layout := pendingOnly none [plainW (.customExcept [45]) 1 2]

/-- ten tap-hold actions on one physical key: the first directly in `multi`, the others wrapped in `fork` -/
def tenHT (k : Nat) : Action :=
  .holdTap 3 (.keyCode (100 + k)) (.keyCode (200 + k)) (.keyCode (100 + k)) .default 0

def tenKey : Action :=
  .multipleActions (tenHT 1 :: (List.range 9).map fun i => .fork (tenHT (i + 2)) .noOp [29])

def tenStart : Layout := { cfg := { layers := [[((0, 1), tenKey)]], srcKeys := [] } }

/-- after pressing the key and `n` ticks: the keys down, the hold key of `waiting`, the hold keys of `extra_waiting` -/
def tenAfter (n : Nat) : List KeyCode × Option KeyCode × List KeyCode :=
  match tenStart.event (.press (0, 1)) with
  | .error _ => ([0], none, [])
  | .ok s =>
    match tickN n s with
    | .error _ => ([0], none, [])
    | .ok s' =>
      let hk (w : Waiting) : KeyCode := match w.hold with | .keyCode k => k | _ => 0
      (s'.keycodes, s'.waiting.map hk, s'.extraWaiting.map hk)

/-- three tap-hold keys pending (one in `waiting`, two in `extra_waiting`, different variants and
countdowns, keys / layer / macro as actions) and two events buffered behind them -/
def multiS : Layout :=
  { cfg := { layers := [[], []], srcKeys := [] },
    waiting := some { coord := (0, 30), timeout := 200, delay := 1, ticks := 0, hold := .layer 1, tap := .keyCode 30,
                      timeoutAction := .layer 1, config := .holdTap .permissiveHold, layerStack := [0],
                      prevQueueLen := 255 },
    extraWaiting :=
      [{ coord := (0, 31), timeout := 150, delay := 1, ticks := 0, hold := .keyCode 42, tap := .keyCode 31,
         timeoutAction := .keyCode 42, config := .holdTap .default, layerStack := [0], prevQueueLen := 255 },
       { coord := (0, 32), timeout := 150, delay := 1, ticks := 0, hold := .multipleKeyCodes [29, 46],
         tap := .sequence [.tap 32, .tap 33], timeoutAction := .noOp,
         config := .holdTap (.customExcept [45]), layerStack := [0], prevQueueLen := 255 }],
    queue := [⟨.press (0, 45), 0⟩, ⟨.release (0, 31), 0⟩],
    oneshot := { pauseInputProcessingDelay := 5 } }

end KVerif.C05
