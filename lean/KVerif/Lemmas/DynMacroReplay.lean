/-
Helper lemmas for C19, replay side and the glue of `tick_ms`: what `tick_replay_state` hands out,
the slack argument that shows the `extra_ticks` loop never pops an event, the invariants of the
replay state, and generic induction principles for the loops.
-/
import KVerif.Lemmas.DynMacro
namespace KVerif.DynMacro

/-! ### `tick_replay_state` -/

/-- the key events still to be fed -/
def planOf : Option Replay → List KeyEv
  | none => []
  | some st => evsQ st.queue

def outEv : Option (KeyEv × Nat) → List KeyEv
  | none => []
  | some (e, _) => [e]

/-- one call hands out the first queued key event or nothing; nothing else leaves the queue -/
theorem tickReplay_plan (beh : Beh) (rep : Option Replay) :
    planOf rep = outEv (tickReplay beh rep).2 ++ planOf (tickReplay beh rep).1 := by
  cases rep with
  | none => rfl
  | some st =>
    by_cases h0 : st.delay - 1 = 0
    · cases hq : st.queue with
      | nil => simp [tickReplay, h0, planOf, outEv, evsQ, hq]
      | cons i q =>
        cases i <;> cases beh <;>
          simp [tickReplay, h0, planOf, outEv, evsQ, evOf, hq, List.filterMap_cons]
    · simp [tickReplay, h0, planOf, outEv]

/-- ticks that can still pass before the next pop, minus one -/
def slack : Option Replay → Nat
  | none => 0
  | some st => st.delay - 1

theorem playMacro_slack (id : Nat) (store : Store) (rep : Option Replay) :
    slack (playMacro id store rep) = slack rep := by
  cases rep with
  | none => simp only [playMacro]; cases store.get id <;> simp [slack]
  | some st =>
    simp only [playMacro]
    split
    · rfl
    · cases store.get id <;> simp [slack]

theorem satAdd_le (a b : Nat) : satAdd a b ≤ a + b := Nat.min_le_left _ _

/-- the arithmetic heart of "the extra loop never overshoots": one main-loop iteration keeps
`extra ≤ i + slack` -/
theorem tickReplay_slack (beh : Beh) (rep : Option Replay) (i e : Nat) (h : e ≤ i + slack rep) :
    (match (tickReplay beh rep).2 with
      | none => e
      | some (_, d) => satAdd e d) ≤ (i + 1) + slack (tickReplay beh rep).1 := by
  cases rep with
  | none => simp [tickReplay, slack] at h ⊢; omega
  | some st =>
    simp only [slack] at h
    by_cases h0 : st.delay - 1 = 0
    · cases hq : st.queue with
      | nil => simp [tickReplay, h0, hq, slack]; omega
      | cons it q =>
        cases it with
        | press o d =>
          have h1 := satAdd_le e d
          have h2 := satAdd_le e 0
          cases beh <;> simp [tickReplay, h0, hq, slack] <;> omega
        | release o d =>
          have h1 := satAdd_le e d
          have h2 := satAdd_le e 0
          cases beh <;> simp [tickReplay, h0, hq, slack] <;> omega
        | endMacro id => simp [tickReplay, h0, hq, slack]; omega
    · simp [tickReplay, h0, slack]
      omega

/-- with positive slack nothing is popped and the slack goes down by one -/
theorem tickReplay_no_pop (beh : Beh) (rep : Option Replay) (n : Nat) (h : n + 1 ≤ slack rep) :
    (tickReplay beh rep).2 = none ∧ n ≤ slack (tickReplay beh rep).1 ∧
      planOf (tickReplay beh rep).1 = planOf rep := by
  cases rep with
  | none => simp [slack] at h
  | some st =>
    simp only [slack] at h
    have : ¬ (st.delay - 1 = 0) := by omega
    simp [tickReplay, this, slack, planOf]
    omega

/-! ### the `K`-level loops: elimination and induction principles -/

variable {L : Type}

/-- agree on everything the dynamic-macro logic reads or writes -/
def SameCore (a b : K L) : Prop :=
  a.rcd = b.rcd ∧ a.rep = b.rep ∧ a.store = b.store ∧ a.fed = b.fed ∧ a.lost = b.lost ∧ a.hint = b.hint

def Respects (Q : K L → Prop) : Prop := ∀ a b, SameCore a b → Q a → Q b

theorem doActs_inv (c : Cfg) (Q : K L → Prop)
    (hact : ∀ k a k', Q k → doAct c k a = .ok k' → Q k') :
    ∀ acts k k', Q k → doActs c k acts = .ok k' → Q k' := by
  intro acts
  induction acts with
  | nil => intro k k' hq h; simp [doActs] at h; subst h; exact hq
  | cons a r ih =>
    intro k k' hq h
    simp only [doActs] at h
    split at h
    · cases h
    · rename_i k1 hk1
      exact ih k1 k' (hact k a k1 hq hk1) h

theorem tickStates_inv (I : LayoutI L) (c : Cfg) (Q : K L → Prop) (hr : Respects Q)
    (hact : ∀ k a k', Q k → doAct c k a = .ok k' → Q k')
    (htick : ∀ k, Q k → Q { k with rcd := tickRecord k.rcd }) :
    ∀ k k', Q k → tickStates I c k = .ok k' → Q k' := by
  intro k k' hq h
  simp only [tickStates] at h
  split at h
  · cases h
  · rename_i k2 hk2
    simp only [Except.ok.injEq] at h
    subst h
    have h1 : Q { k with lay := (I.tick k.lay).1,
                         os := k.os ++ (I.tick k.lay).2.2.map (fun e => (k.nticks, e)) } :=
      hr k _ ⟨rfl, rfl, rfl, rfl, rfl, rfl⟩ hq
    have h2 := doActs_inv c Q hact _ _ _ h1 hk2
    exact hr { k2 with rcd := tickRecord k2.rcd } _ ⟨rfl, rfl, rfl, rfl, rfl, rfl⟩ (htick _ h2)

/-- one iteration of the first loop of `tick_ms` -/
def iterStep (I : LayoutI L) (c : Cfg) (k : K L) (extra : Nat) : Except Crash (K L × Nat) :=
  match tickStates I c k with
  | .error e => .error e
  | .ok k1 =>
    match tickReplay c.beh k1.rep with
    | (rep', none) => .ok ({ k1 with rep := rep' }, extra)
    | (rep', some (e, d)) =>
      .ok ({ k1 with rep := rep', lay := I.event k1.lay e, fed := k1.fed ++ [e] }, satAdd extra d)

theorem mainLoop_succ (I : LayoutI L) (c : Cfg) (n : Nat) (k : K L) (extra : Nat) :
    mainLoop I c (n + 1) k extra =
      match iterStep I c k extra with
      | .error e => .error e
      | .ok (k', e') => mainLoop I c n k' e' := by
  simp only [mainLoop, iterStep]
  cases tickStates I c k with
  | error e => rfl
  | ok k1 =>
    simp only []
    cases tickReplay c.beh k1.rep with
    | mk rep' ev =>
      cases ev with
      | none => rfl
      | some p => cases p; rfl

/-- induction principle for the first loop: `P k i e` with `i` the iterations done, `e` extra_ticks -/
theorem mainLoop_inv (I : LayoutI L) (c : Cfg) (P : K L → Nat → Nat → Prop)
    (hstep : ∀ k i e k' e', P k i e → iterStep I c k e = .ok (k', e') → P k' (i + 1) e') :
    ∀ n k i e k' e', P k i e → mainLoop I c n k e = .ok (k', e') → P k' (i + n) e' := by
  intro n
  induction n with
  | zero => intro k i e k' e' hp h; simp [mainLoop] at h; obtain ⟨rfl, rfl⟩ := h; simpa using hp
  | succ n ih =>
    intro k i e k' e' hp h
    rw [mainLoop_succ] at h
    split at h
    · cases h
    · rename_i k1 e1 h1
      have := ih k1 (i + 1) e1 k' e' (hstep k i e k1 e1 hp h1) h
      have e : i + (n + 1) = i + 1 + n := by omega
      rw [e]; exact this

/-- one iteration of the second loop; `none` = an event was popped and thrown away (`break`) -/
def extraStep (I : LayoutI L) (c : Cfg) (k : K L) : Except Crash (K L × Bool) :=
  match tickStates I c k with
  | .error e => .error e
  | .ok k1 =>
    match tickReplay c.beh k1.rep with
    | (rep', none) => .ok ({ k1 with rep := rep' }, false)
    | (rep', some (e, _)) => .ok ({ k1 with rep := rep', lost := k1.lost ++ [e] }, true)

theorem extraLoop_succ (I : LayoutI L) (c : Cfg) (n : Nat) (k : K L) :
    extraLoop I c (n + 1) k =
      match extraStep I c k with
      | .error e => .error e
      | .ok (k', true) => .ok k'
      | .ok (k', false) => extraLoop I c n k' := by
  simp only [extraLoop, extraStep]
  cases tickStates I c k with
  | error e => rfl
  | ok k1 =>
    simp only []
    cases tickReplay c.beh k1.rep with
    | mk rep' ev =>
      cases ev with
      | none => rfl
      | some p => cases p; rfl

/-- induction principle for the second loop when no event is popped: `P k n`, `n` iterations left -/
theorem extraLoop_inv (I : LayoutI L) (c : Cfg) (P : K L → Nat → Prop)
    (hstep : ∀ k n k' b, P k (n + 1) → extraStep I c k = .ok (k', b) → b = false ∧ P k' n) :
    ∀ n k k', P k n → extraLoop I c n k = .ok k' → ∃ m, P k' m := by
  intro n
  induction n with
  | zero => intro k k' hp h; simp [extraLoop] at h; subst h; exact ⟨0, hp⟩
  | succ n ih =>
    intro k k' hp h
    rw [extraLoop_succ] at h
    split at h
    · cases h
    · rename_i k1 h1
      exact absurd (hstep k n k1 true hp h1).1 (by simp)
    · rename_i k1 h1
      exact ih k1 k' (hstep k n k1 false hp h1).2 h

/-! ### facts about single actions -/

theorem doAct_slack (c : Cfg) (k : K L) (a : Act) (k' : K L) (h : doAct c k a = .ok k') :
    slack k'.rep = slack k.rep ∧ k'.fed = k.fed ∧ k'.lost = k.lost := by
  cases a with
  | record id =>
    simp only [doAct] at h
    split at h
    · cases h
    · simp only [Except.ok.injEq] at h; subst h; exact ⟨rfl, rfl, rfl⟩
  | stop n =>
    simp only [doAct] at h
    split at h
    · cases h
    · simp only [Except.ok.injEq] at h; subst h; exact ⟨rfl, rfl, rfl⟩
  | play id =>
    simp only [doAct, Except.ok.injEq] at h; subst h
    exact ⟨playMacro_slack _ _ _, rfl, rfl⟩

/-- `tick_states` does not touch the replay countdown, nor the logs of fed and lost events -/
theorem tickStates_slack (I : LayoutI L) (c : Cfg) (k k' : K L) (h : tickStates I c k = .ok k') :
    slack k'.rep = slack k.rep ∧ k'.fed = k.fed ∧ k'.lost = k.lost := by
  refine tickStates_inv I c (fun x => slack x.rep = slack k.rep ∧ x.fed = k.fed ∧ x.lost = k.lost)
    ?_ ?_ ?_ k k' ⟨rfl, rfl, rfl⟩ h
  · intro a b ⟨_, h2, _, h4, h5, _⟩ ⟨q1, q2, q3⟩
    exact ⟨by rw [← h2]; exact q1, by rw [← h4]; exact q2, by rw [← h5]; exact q3⟩
  · intro x a x' ⟨q1, q2, q3⟩ hx
    obtain ⟨r1, r2, r3⟩ := doAct_slack c x a x' hx
    exact ⟨r1.trans q1, r2.trans q2, r3.trans q3⟩
  · intro x q; exact q

/-! ### the `extra_ticks` loop never pops an event when `ms_elapsed < 65536` -/

theorem satAdd_le_max (a b : Nat) : satAdd a b ≤ U16_MAX := Nat.min_le_right _ _

theorem iterStep_slack (I : LayoutI L) (c : Cfg) (k : K L) (i e : Nat) (k' : K L) (e' : Nat)
    (hp : (e ≤ i + slack k.rep ∧ e ≤ U16_MAX) ∧ k.lost = l0) (h : iterStep I c k e = .ok (k', e')) :
    (e' ≤ (i + 1) + slack k'.rep ∧ e' ≤ U16_MAX) ∧ k'.lost = l0 := by
  simp only [iterStep] at h
  split at h
  · cases h
  · rename_i k1 hk1
    obtain ⟨s1, _, s3⟩ := tickStates_slack I c k k1 hk1
    have hs := tickReplay_slack c.beh k1.rep i e (by rw [s1]; exact hp.1.1)
    split at h
    · rename_i rep' heq
      simp only [Except.ok.injEq, Prod.mk.injEq] at h
      obtain ⟨rfl, rfl⟩ := h
      rw [heq] at hs
      exact ⟨⟨hs, hp.1.2⟩, s3.trans hp.2⟩
    · rename_i rep' ev d heq
      simp only [Except.ok.injEq, Prod.mk.injEq] at h
      obtain ⟨rfl, rfl⟩ := h
      rw [heq] at hs
      exact ⟨⟨hs, satAdd_le_max _ _⟩, s3.trans hp.2⟩

/-- the number of iterations of the second loop never exceeds the slack: for the fixed code always,
for the pinned code when `ms_elapsed < 65536` -/
theorem extra_count_le (fix : Bool) (ms e s : Nat) (h : fix = true ∨ ms < 65536)
    (h1 : e ≤ ms + s) (h2 : e ≤ U16_MAX) : e - msAsU16 fix ms ≤ s := by
  unfold msAsU16
  simp only [U16_MAX] at h2 ⊢
  cases fix with
  | true => simp only [if_true, Nat.min_def]; split <;> omega
  | false =>
    simp at h
    simp only [Bool.false_eq_true, if_false, Nat.mod_eq_of_lt h]; omega

theorem extraStep_slack (I : LayoutI L) (c : Cfg) (k : K L) (n : Nat) (k' : K L) (b : Bool)
    (hp : n + 1 ≤ slack k.rep ∧ k.lost = l0 ∧ k.fed = f0) (h : extraStep I c k = .ok (k', b)) :
    b = false ∧ (n ≤ slack k'.rep ∧ k'.lost = l0 ∧ k'.fed = f0) := by
  simp only [extraStep] at h
  split at h
  · cases h
  · rename_i k1 hk1
    obtain ⟨s1, s2, s3⟩ := tickStates_slack I c k k1 hk1
    obtain ⟨t1, t2, _⟩ := tickReplay_no_pop c.beh k1.rep n (by rw [s1]; exact hp.1)
    split at h
    · rename_i rep' heq
      simp only [Except.ok.injEq, Prod.mk.injEq] at h
      obtain ⟨rfl, rfl⟩ := h
      rw [heq] at t2
      exact ⟨rfl, t2, s3.trans hp.2.1, s2.trans hp.2.2⟩
    · rename_i rep' ev d heq
      rw [heq] at t1; simp at t1

/-- **no overshoot**: the `extra_ticks` loop of `tick_ms` never reaches its `break`, i.e. no replay
event is popped and thrown away — for the fixed code always, for the pinned code when
`ms_elapsed < 65536`. -/
theorem tickMs_lost (I : LayoutI L) (c : Cfg) (ms : Nat) (k k' : K L) (hms : c.fix = true ∨ ms < 65536)
    (h : tickMs I c ms k = .ok k') : k'.lost = k.lost := by
  simp only [tickMs] at h
  split at h
  · cases h
  · rename_i k1 extra h1
    have hm := mainLoop_inv I c (fun x i e => (e ≤ i + slack x.rep ∧ e ≤ U16_MAX) ∧ x.lost = k.lost)
      (fun x i e x' e' hp hx => iterStep_slack I c x i e x' e' hp hx) ms k 0 0 k1 extra
      ⟨⟨by omega, by simp [U16_MAX]⟩, rfl⟩ h1
    simp only [Nat.zero_add] at hm
    obtain ⟨m, hm2⟩ := extraLoop_inv I c
      (fun x n => n ≤ slack x.rep ∧ x.lost = k.lost ∧ x.fed = k1.fed)
      (fun x n x' b hp hx => extraStep_slack I c x n x' b hp hx) _ k1 k'
      ⟨extra_count_le c.fix ms extra _ hms hm.1.1 hm.1.2, hm.2, rfl⟩ h
    exact hm2.2.1

end KVerif.DynMacro
