/-
Lemmas for C16 (templates): abstracting any number of subexpression occurrences of an item into
template parameters (several parameters, several occurrences each), and the sequential
substitution of the seeded change C16d for comparison.
-/
import KVerif.Lemmas.CfgTreeSubst
namespace KVerif.CfgTree

mutual
  /-- `absTree params args pat item`: the pattern `pat` is the item `item` in which some
  occurrences of the subexpressions `args[i]` were replaced by the parameter atom `$params[i]`,
  and every atom that was kept is not a parameter reference (the parameter names are fresh). -/
  def absTree (params : List Str) (args : List Tree) : Tree → Tree → Prop
    | .atom a, e =>
      (paramIndex a params = none ∧ e = .atom a) ∨
      (∃ (i : Nat) (p : Str), params[i]? = some p ∧ a = '$' :: p ∧ args[i]? = some e)
    | .list ps, .list is => absList params args ps is
    | .list _, .atom _ => False
  def absList (params : List Str) (args : List Tree) : List Tree → List Tree → Prop
    | [], [] => True
    | p :: ps, i :: is => absTree params args p i ∧ absList params args ps is
    | [], _ :: _ => False
    | _ :: _, [] => False
end

theorem paramIndex_of_getElem : ∀ (params : List Str) (i : Nat) (p : Str), params.Nodup →
    params[i]? = some p → paramIndex ('$' :: p) params = some i
  | [], i, p, _, h => by simp at h
  | q :: qs, 0, p, _, h => by
    simp only [List.getElem?_cons_zero, Option.some.injEq] at h
    simp [paramIndex, h]
  | q :: qs, i + 1, p, hnd, h => by
    simp only [List.getElem?_cons_succ] at h
    simp only [List.nodup_cons] at hnd
    have hne : ¬ q = p := by
      intro hq; subst hq
      exact hnd.1 (List.mem_of_getElem? h)
    simp [paramIndex, hne, paramIndex_of_getElem qs i p hnd.2 h]

mutual
  /-- instantiating the pattern gives the item back — all parameters at once -/
  theorem substTree_abs (params : List Str) (args : List Tree) (hnd : params.Nodup) :
      ∀ (pat item : Tree), absTree params args pat item → substTree params args pat = item
    | .atom a, e, h => by
      simp only [absTree] at h
      rcases h with ⟨h1, rfl⟩ | ⟨i, p, hp, rfl, ha⟩
      · simp [substTree, h1]
      · simp [substTree, paramIndex_of_getElem params i p hnd hp, ha]
    | .list ps, .list is, h => by
      simp only [absTree] at h
      simp only [substTree, substList_abs params args hnd ps is h]
    | .list _, .atom _, h => by simp [absTree] at h
  theorem substList_abs (params : List Str) (args : List Tree) (hnd : params.Nodup) :
      ∀ (pats items : List Tree), absList params args pats items →
        substList params args pats = items
    | [], [], _ => rfl
    | p :: ps, i :: is, h => by
      simp only [absList] at h
      simp only [substList, substTree_abs params args hnd p i h.1, substList_abs params args hnd ps is h.2]
    | [], _ :: _, h => by simp [absList] at h
    | _ :: _, [], h => by simp [absList] at h
end

/-- The substitution of the seeded change C16d: one `visit_mut_all_atoms` pass per parameter, each
on the result of the previous one (NOT what the code does; for the counterexample only). -/
def substSeq : List Str → List Tree → List Tree → List Tree
  | p :: ps, a :: as, l => substSeq ps as (substList [p] [a] l)
  | _, _, l => l

end KVerif.CfgTree
