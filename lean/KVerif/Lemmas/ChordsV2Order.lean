/-
C09 helper lemmas for chords v2: what one tick hands to the layout, as lists - `drain_virtual_keys`,
`drain_releases` and the tail of the tick split the queue without reordering real-key events.
-/
import KVerif.Lemmas.ChordsV2Rule
namespace KVerif.C09
open KVerif.L

def row0 (qd : Queued) : Bool := qd.ev.coord.1 == 0

theorem drainVirtualKeys_split : ∀ (q dq k dq' : List Queued), drainVirtualKeys q dq = .ok (k, dq') →
    k = q.filter row0 ∧ dq' = dq ++ q.filter (fun x => !row0 x) := by
  intro q
  induction q with
  | nil => intro dq k dq' h; simp only [drainVirtualKeys] at h; cases h; simp
  | cons qd rest ih =>
    intro dq k dq' h
    simp only [drainVirtualKeys] at h
    split at h
    · rename_i h0
      split at h
      · cases h
      · rename_i k1 dq1 hr
        cases h
        obtain ⟨e1, e2⟩ := ih _ _ _ hr
        have : row0 qd = true := h0
        simp only [List.filter_cons, this, if_true, Bool.not_true, Bool.false_eq_true, if_false]
        exact ⟨by rw [e1], e2⟩
    · rename_i h0
      split at h
      · cases h
      · rename_i dq1 hp
        obtain ⟨e1, e2⟩ := ih _ _ _ h
        have : row0 qd = false := by simpa [row0] using h0
        unfold drainPushAssert at hp
        split at hp
        · cases hp
          simp only [List.filter_cons, this, Bool.false_eq_true, if_false, Bool.not_false, if_true]
          exact ⟨e1, by rw [e2]; simp⟩
        · cases hp

theorem drainReleases_pos : ∀ (q : List Queued) (np : Nat) (achs : List ActiveChord) (dq : List Queued), 0 < np →
    ∃ achs', drainReleases q np achs dq = .ok (q, achs', dq) := by
  intro q
  induction q with
  | nil => intro np achs dq _; exact ⟨achs, rfl⟩
  | cons qd rest ih =>
    intro np achs dq h
    simp only [drainReleases]
    split
    · obtain ⟨a', e⟩ := ih (np + 1) achs dq (by omega)
      rw [e]; exact ⟨a', rfl⟩
    · have : (np == 0) = false := by simp; omega
      simp only [this, Bool.false_eq_true, if_false]
      obtain ⟨a', e⟩ := ih np (releaseKeyInActive achs _) dq h
      rw [e]; exact ⟨a', rfl⟩

/-- `drain_releases` hands over exactly the releases in front of the first press, in order -/
theorem drainReleases_split : ∀ (q : List Queued) (achs : List ActiveChord) (dq k : List Queued)
    (achs' : List ActiveChord) (dq' : List Queued),
    drainReleases q 0 achs dq = .ok (k, achs', dq') → dq.length + q.length ≤ DRAIN_Q_LEN →
    ∃ lead, q = lead ++ k ∧ dq' = dq ++ lead := by
  intro q
  induction q with
  | nil => intro achs dq k achs' dq' h _; simp only [drainReleases] at h; cases h; exact ⟨[], rfl, by simp⟩
  | cons qd rest ih =>
    intro achs dq k achs' dq' h hl
    simp only [List.length_cons] at hl
    simp only [drainReleases] at h
    split at h
    · obtain ⟨a', e⟩ := drainReleases_pos rest (0 + 1) achs dq (by omega)
      rw [e] at h
      cases h
      exact ⟨[], rfl, by simp⟩
    · simp only [beq_self_eq_true, if_true] at h
      rw [drainPush_fits dq qd (by omega)] at h
      obtain ⟨lead, e1, e2⟩ := ih _ _ _ _ _ h (by simp; omega)
      exact ⟨qd :: lead, by rw [e1]; rfl, by rw [e2]; simp⟩

/-- chords v2's own events at the end of a tick: the two tap-hold trigger events and the releases of the
virtual coordinates of the chords that end -/
def tailExtra (prevLen : Nat) (s1 : ChV2) : List Queued :=
  (if s1.active.length != prevLen then [⟨.press (0, 0), 0⟩] else []) ++
  (if s1.active.any (fun a => a.status == .unreadReleased || a.status == .released) then [⟨.release (0, 0), 0⟩] else []) ++
  (s1.active.filter (fun a => a.status == .released)).map (fun a => ⟨.release (0, a.coordinate), 0⟩)

theorem tickTail_split (prevLen : Nat) (s1 s' : ChV2) (dq1 dq : List Queued)
    (h : tickTail prevLen s1 dq1 = .ok (s', dq)) (hl : dq1.length + 2 ≤ DRAIN_Q_LEN) :
    ∃ extra, dq = dq1 ++ extra ∧ s'.queue = s1.queue ∧
      s'.active = s1.active.filter (fun a => !(a.status == .released)) ∧
      ∀ x ∈ extra, x.ev = .press (0, 0) ∨ ∃ n, x.ev = .release (0, n) := by
  unfold tickTail at h
  simp only [] at h
  split at h
  · cases h
  · rename_i achs dq2 hc
    cases h
    obtain ⟨hr, hdq⟩ := clearReleased_ok _ _ _ _ hc
    refine ⟨tailExtra prevLen s1, ?_, rfl, hr, ?_⟩
    rotate_left
    · intro x hx
      simp only [tailExtra, List.mem_append, List.mem_map] at hx
      rcases hx with (hx | hx) | ⟨a, _, e⟩
      · split at hx
        · simp only [List.mem_singleton] at hx; left; rw [hx]
        · cases hx
      · split at hx
        · simp only [List.mem_singleton] at hx; right; exact ⟨0, by rw [hx]⟩
        · cases hx
      · right; exact ⟨a.coordinate, by rw [← e]⟩
    · rw [hdq]
      unfold tailExtra
      split <;> split
      · rw [drainPush_fits dq1 _ (by omega), drainPush_fits _ _ (by simp; omega)]; simp
      · rw [drainPush_fits dq1 _ (by omega)]; simp
      · rw [drainPush_fits dq1 _ (by omega)]; simp
      · simp

theorem filter_length_add {α : Type} (p : α → Bool) : ∀ (l : List α),
    (l.filter p).length + (l.filter (fun x => !p x)).length = l.length := by
  intro l
  induction l with
  | nil => rfl
  | cons a l ih =>
    simp only [List.filter_cons]
    cases p a <;> simp <;> omega

theorem filter_row0_id (l : List Queued) (h : ∀ x ∈ l, row0 x = true) : l.filter row0 = l :=
  List.filter_eq_self.mpr h

theorem ppRetain_sublist (q : List Queued) (acc : List Nat) : (ppRetain q acc).Sublist q := by
  unfold ppRetain; exact List.filter_sublist

theorem mem_ppRetain_or (q : List Queued) (acc : List Nat) (x : Queued) (hx : x ∈ q) :
    x ∈ ppRetain q acc ∨ ∃ c, x.ev = .press c ∧ acc.contains c.2 = true := by
  cases hev : x.ev with
  | release c => left; unfold ppRetain; exact List.mem_filter.mpr ⟨hx, by rw [hev]⟩
  | press c =>
    cases hc : acc.contains c.2 with
    | true => right; exact ⟨c, rfl, hc⟩
    | false => left; unfold ppRetain; exact List.mem_filter.mpr ⟨hx, by rw [hev]; simp only [hc]; rfl⟩

/-- **what `drain_inputs` hands over**, as lists -/
theorem drainInputs_split (A s1 : ChV2) (dq1 : List Queued) (layer : Nat)
    (h : drainInputs A [] layer = .ok (s1, dq1)) (hl : A.queue.length ≤ DRAIN_Q_LEN) :
    dq1.length ≤ A.queue.length ∧
    ((dq1 ++ s1.queue).filter row0).Sublist (A.queue.filter row0) ∧
    (∀ x ∈ dq1, x ∈ A.queue) ∧
    (∀ x ∈ A.queue, row0 x = true → x ∈ dq1 ∨ x ∈ s1.queue ∨
      ∃ c, x.ev = .press c ∧ ∃ a ∈ s1.active, unreadClass a.status = true ∧ a.keys.contains c.2 = true) := by
  unfold drainInputs at h
  split at h
  · cases h
    rw [drainExtend_fits [] A.queue (by simpa using hl)]
    simp only [List.nil_append, List.append_nil]
    exact ⟨Nat.le_refl _, List.Sublist.refl _, fun x hx => hx, fun x hx _ => Or.inl hx⟩
  · split at h
    · cases h
      simp only [List.nil_append]
      exact ⟨Nat.zero_le _, List.Sublist.refl _, (fun x hx => nomatch hx), fun x hx _ => Or.inr (Or.inl hx)⟩
    · simp only [] at h
      split at h
      · cases h
      · rename_i q0 dq0 hv
        split at h
        · cases h
        · rename_i q1 achs1 dq2 hr
          split at h
          · cases h
          · rename_i s2 hpp
            cases h
            obtain ⟨e0, ed0⟩ := drainVirtualKeys_split _ _ _ _ hv
            rw [List.nil_append] at ed0
            have hq0 : q0 = A.queue.filter row0 := e0
            have hdq0 : dq0 = A.queue.filter (fun x => !row0 x) := ed0
            have hlen := filter_length_add row0 A.queue
            obtain ⟨lead, e1, e2⟩ := drainReleases_split _ _ _ _ _ _ hr (by rw [hq0, hdq0]; omega)
            have hrow_q0 : ∀ x ∈ q0, row0 x = true := by
              intro x hx; rw [hq0] at hx; exact (List.mem_filter.mp hx).2
            have hrow_lead : ∀ x ∈ lead, row0 x = true := fun x hx => hrow_q0 x (by rw [e1]; exact List.mem_append_left _ hx)
            have hrow_q1 : ∀ x ∈ q1, row0 x = true := fun x hx => hrow_q0 x (by rw [e1]; exact List.mem_append_right _ hx)
            have hdq0f : dq0.filter row0 = [] := by
              rw [hdq0, List.filter_filter, List.filter_eq_nil_iff]
              intro x _; cases row0 x <;> simp
            have hsub : s2.queue.Sublist q1 ∧ (∀ x ∈ q1, x ∈ s2.queue ∨
                ∃ c, x.ev = .press c ∧ ∃ a ∈ s2.active, unreadClass a.status = true ∧ a.keys.contains c.2 = true) := by
              rcases processPresses_spec _ _ _ hpp with ⟨_, h2⟩ | ⟨_, rf, _, _, cch, coord, acc, _, _, _, _, _, hex, _, _, h9, h10⟩
              · rw [h2]; exact ⟨List.Sublist.refl _, fun x hx => Or.inl hx⟩
              · rw [h10]
                refine ⟨ppRetain_sublist _ _, fun x hx => ?_⟩
                rcases mem_ppRetain_or q1 acc x hx with h' | ⟨c, hc1, hc2⟩
                · exact Or.inl h'
                · right
                  refine ⟨c, hc1, _, by rw [h9]; exact List.mem_append_right _ (List.mem_singleton_self _), ?_, ?_⟩
                  · simp only [getActiveChord, unreadClass]; split <;> rfl
                  · simp only [exactMatch, Bool.and_eq_true] at hex
                    have := (List.all_eq_true.mp hex.1) c.2 (by simpa using hc2)
                    simpa [getActiveChord] using this
            refine ⟨?_, ?_, ?_, ?_⟩
            · rw [e2, List.length_append]
              have : lead.length ≤ q0.length := by rw [e1]; simp
              rw [hq0] at this
              rw [hdq0]; omega
            · rw [e2, List.filter_append, List.filter_append, hdq0f, List.nil_append, filter_row0_id lead hrow_lead,
                ← hq0, e1]
              exact List.Sublist.append (List.Sublist.refl _)
                (List.Sublist.trans List.filter_sublist hsub.1)
            · intro x hx
              rw [e2] at hx
              rcases List.mem_append.mp hx with h' | h'
              · rw [hdq0] at h'; exact (List.mem_filter.mp h').1
              · have : x ∈ q0 := by rw [e1]; exact List.mem_append_left _ h'
                rw [hq0] at this; exact (List.mem_filter.mp this).1
            · intro x hx hr0
              have : x ∈ q0 := by rw [hq0]; exact List.mem_filter.mpr ⟨hx, hr0⟩
              rw [e1] at this
              rcases List.mem_append.mp this with h' | h'
              · left; rw [e2]; exact List.mem_append_right _ h'
              · right; exact hsub.2 x h'

end KVerif.C09
