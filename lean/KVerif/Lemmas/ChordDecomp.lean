/-
C09 helper lemmas: `decompose_chord_into_action_queue` — the press-order scan (`decomposeFold`) and
the greedy loop (`decomposeLoop` / `shrinkEnd`), for all tables and key lists.
-/
import KVerif.Lemmas.Chord
namespace KVerif.C09
open KVerif.L

/-! ## The press-order list -/

/-- masks that contribute a new bit, in order (the `chord_key_order` array) -/
def newMasks (g : ChordsGroup) : Nat → List Queued → List Nat
  | _, [] => []
  | a, s :: l =>
    if a ||| maskOf g s != a then maskOf g s :: newMasks g (a ||| maskOf g s) l
    else newMasks g (a ||| maskOf g s) l

theorem decomposeFold_benign (w : Waiting) (g : ChordsGroup) (pre rest : List Queued) :
    ∀ (a : Nat) (order : List Nat) (dflt : Coord), (∀ s ∈ pre, stops w g s = false) →
    decomposeFold w g a order dflt (pre ++ rest) =
      decomposeFold w g (accMask g a (pre.filter (chordPress w g)))
        (order ++ newMasks g a (pre.filter (chordPress w g))) dflt rest := by
  induction pre with
  | nil => intro a order dflt _; simp [newMasks, accMask]
  | cons s pre ih =>
    intro a order dflt h
    have hs := h s (by simp)
    have ih' := fun a order => ih a order dflt (fun x hx => h x (by simp [hx]))
    simp only [List.cons_append, decomposeFold]
    by_cases hsk : w.delay - s.since > w.timeout
    · have : chordPress w g s = false := by simp [chordPress, skipped, hsk]
      simp only [hsk, if_true, List.filter_cons, this, Bool.false_eq_true, if_false]
      exact ih' a order
    · simp only [hsk, if_false]
      have hsk' : skipped w s = false := by simp [skipped, hsk]
      cases hk : g.getKeys s.ev.coord with
      | none =>
        have hcp : chordPress w g s = false := by simp [chordPress, hk]
        have hp : s.ev.isPress = false := by simpa [stops, hsk', hk] using hs
        simp only [hp, Bool.false_eq_true, if_false, List.filter_cons, hcp]
        exact ih' a order
      | some ck =>
        have hp : s.ev.isPress = true := by simpa [stops, hsk', hk] using hs
        have hcp : chordPress w g s = true := by simp [chordPress, hsk', hk, hp]
        have hm : maskOf g s = ck := by simp [maskOf, hk]
        cases he : s.ev with
        | release c => simp [he, Ev.isPress] at hp
        | press c =>
          simp only [List.filter_cons, hcp, if_true]
          rw [ih']
          simp only [accMask, List.foldl_cons, newMasks, hm]
          by_cases hn : (a ||| ck != a) = true
          · simp only [hn, if_true, List.append_assoc, List.singleton_append]
          · simp only [hn, Bool.false_eq_true, if_false]

theorem decomposeFold_stop (w : Waiting) (g : ChordsGroup) (s : Queued) (rest : List Queued)
    (a : Nat) (order : List Nat) (dflt : Coord) (h : stops w g s = true) :
    decomposeFold w g a order dflt (s :: rest) = (order, (releasedBy g (s :: rest)).getD dflt) := by
  simp only [stops, Bool.and_eq_true, Bool.not_eq_true', skipped, decide_eq_false_iff_not] at h
  simp only [decomposeFold, h.1, if_false, releasedBy]
  cases hk : g.getKeys s.ev.coord with
  | none =>
    have hp : s.ev.isPress = true := by simpa [hk] using h.2
    simp [hp]
  | some ck =>
    have hp : s.ev.isPress = false := by simpa [hk] using h.2
    cases he : s.ev with
    | press c => simp [he, Ev.isPress] at hp
    | release c => simp [Ev.coord]

/-- closed form of the press-order scan, for every queue: the keys are the first key's mask followed
by the masks of the participating presses that add a new key, in queue (= press) order; the
coordinate is that of the chord-key release that stopped the scan, if any -/
theorem decomposeFold_closed (w : Waiting) (g : ChordsGroup) (q : List Queued) (a : Nat) (order : List Nat) (dflt : Coord) :
    decomposeFold w g a order dflt q =
      (order ++ newMasks g a (participants w g q), (releasedBy g (scanRest w g q)).getD dflt) := by
  conv => lhs; rw [← scan_append w g q]
  rw [decomposeFold_benign w g _ _ _ _ _ (scanPre_benign w g q)]
  rcases scanRest_head w g q with h | ⟨s, post, h, hs⟩
  · simp [h, decomposeFold, participants, releasedBy]
  · rw [h, decomposeFold_stop w g s post _ _ _ hs]
    rfl

/-! ## The greedy loop -/

/-- OR of the keys at positions `[s, e)` -/
def orSeg (keys : List Nat) (s e : Nat) : Nat := orMasks ((keys.drop s).take (e - s))

/-- no defined chord is a run of pressed keys starting at position `j` (so key `j` is dropped:
in particular it has no defined singleton) -/
def Undef (g : ChordsGroup) (keys : List Nat) (j : Nat) : Prop :=
  ∀ e, j < e → e ≤ keys.length → g.getChord (orSeg keys j e) = none

theorem shrinkEnd_spec (g : ChordsGroup) (keys : List Nat) (start : Nat) : ∀ n : Nat,
    match shrinkEnd g keys start n with
    | some (e, a) => start < e ∧ e ≤ n ∧ g.getChord (orSeg keys start e) = some a ∧
        ∀ e', e < e' → e' ≤ n → g.getChord (orSeg keys start e') = none
    | none => ∀ e', start < e' → e' ≤ n → g.getChord (orSeg keys start e') = none := by
  intro n
  induction n with
  | zero => simp only [shrinkEnd]; intro e' h1 h2; omega
  | succ n ih =>
    simp only [shrinkEnd]
    by_cases hlt : n + 1 > start
    · simp only [hlt, if_true]
      cases hc : g.getChord (orMasks ((keys.drop start).take (n + 1 - start))) with
      | some a =>
        refine ⟨hlt, Nat.le_refl _, hc, ?_⟩
        intro e' h1 h2; omega
      | none =>
        simp only []
        cases hs : shrinkEnd g keys start n with
        | some p =>
          obtain ⟨e, a⟩ := p
          rw [hs] at ih
          obtain ⟨i1, i2, i3, i4⟩ := ih
          refine ⟨i1, by omega, i3, ?_⟩
          intro e' h1 h2
          by_cases h3 : e' = n + 1
          · subst h3; exact hc
          · exact i4 e' h1 (by omega)
        | none =>
          rw [hs] at ih
          intro e' h1 h2
          by_cases h3 : e' = n + 1
          · subst h3; exact hc
          · exact ih e' h1 (by omega)
    · simp only [hlt, if_false]
      intro e' h1 h2; omega

/-- the segments `(start, end, action)` the loop pushes, in order -/
def segs (g : ChordsGroup) (keys : List Nat) : Nat → Nat → List (Nat × Nat × Action)
  | 0, _ => []
  | fuel + 1, start =>
    if start < keys.length then
      match g.getChord (orMasks (keys.drop start)) with
      | some a => (start, keys.length, a) :: segs g keys fuel keys.length
      | none =>
        match shrinkEnd g keys start (keys.length - 1) with
        | some (e, a) => (start, e, a) :: segs g keys fuel (if e ≤ start then start + 1 else e)
        | none => segs g keys fuel (start + 1)
    else []

theorem segs_done (g : ChordsGroup) (keys : List Nat) (fuel start : Nat) (h : keys.length ≤ start) :
    segs g keys fuel start = [] := by
  cases fuel with
  | zero => rfl
  | succ f => simp only [segs]; rw [if_neg (by omega)]

/-- the action-queue entry of a segment -/
def entryOf (w : Waiting) (g : ChordsGroup) (dflt : Coord) (queued : List Queued) (keys : List Nat) (delay : Nat)
    (seg : Nat × Nat × Action) : Coord × Nat × Action :=
  (coordForChord w g dflt queued (orSeg keys seg.1 seg.2.1), delay, seg.2.2)

def pushAll (aq : ActionQueue) (es : List (Coord × Nat × Action)) : ActionQueue :=
  es.foldl (fun aq e => (pushBackWrap ACTION_QUEUE_LEN aq e).1) aq

theorem orSeg_full (keys : List Nat) (start : Nat) : orSeg keys start keys.length = orMasks (keys.drop start) := by
  unfold orSeg
  rw [List.take_of_length_le (by simp)]

/-- the loop pushes exactly the entries of `segs`, in order -/
theorem decomposeLoop_eq (w : Waiting) (g : ChordsGroup) (dflt : Coord) (queued : List Queued) (keys : List Nat)
    (delay : Nat) : ∀ (fuel start : Nat) (aq : ActionQueue),
    decomposeLoop w g dflt queued keys delay fuel start aq =
      pushAll aq ((segs g keys fuel start).map (entryOf w g dflt queued keys delay)) := by
  intro fuel
  induction fuel with
  | zero => intro start aq; rfl
  | succ fuel ih =>
    intro start aq
    simp only [decomposeLoop, segs]
    by_cases hlt : start < keys.length
    · simp only [hlt, if_true]
      cases hc : g.getChord (orMasks (keys.drop start)) with
      | some a =>
        simp only [ih, List.map_cons, pushAll, List.foldl_cons, entryOf, orSeg_full]
      | none =>
        simp only []
        cases hs : shrinkEnd g keys start (keys.length - 1) with
        | some p =>
          obtain ⟨e, a⟩ := p
          simp only [ih, List.map_cons, pushAll, List.foldl_cons, entryOf, orSeg]
        | none => simp only [ih]
    · simp only [hlt, if_false, List.map_nil, pushAll, List.foldl_nil]

/-- **the decomposition predicate**: from position `from` on, `l` lists disjoint runs of pressed keys
in increasing order; each run is a defined chord with the recorded action and is the LONGEST
defined run starting at its first key; every key outside the runs starts no defined run at all -/
def Covers (g : ChordsGroup) (keys : List Nat) : Nat → List (Nat × Nat × Action) → Prop
  | frm, [] => ∀ j, frm ≤ j → j < keys.length → Undef g keys j
  | frm, (s, e, a) :: rest =>
    frm ≤ s ∧ s < e ∧ e ≤ keys.length ∧ (∀ j, frm ≤ j → j < s → Undef g keys j) ∧
    g.getChord (orSeg keys s e) = some a ∧
    (∀ e', e < e' → e' ≤ keys.length → g.getChord (orSeg keys s e') = none) ∧
    Covers g keys e rest

theorem Covers_skip (g : ChordsGroup) (keys : List Nat) (frm : Nat) (l : List (Nat × Nat × Action))
    (hu : Undef g keys frm) (h : Covers g keys (frm + 1) l) : Covers g keys frm l := by
  cases l with
  | nil =>
    intro j h1 h2
    by_cases hj : j = frm
    · subst hj; exact hu
    · exact h j (by omega) h2
  | cons x rest =>
    obtain ⟨s, e, a⟩ := x
    obtain ⟨c1, c2, c3, c4, c5, c6, c7⟩ := h
    refine ⟨by omega, c2, c3, ?_, c5, c6, c7⟩
    intro j h1 h2
    by_cases hj : j = frm
    · subst hj; exact hu
    · exact c4 j (by omega) h2

theorem segs_covers (g : ChordsGroup) (keys : List Nat) : ∀ (fuel start : Nat),
    keys.length - start ≤ fuel → Covers g keys start (segs g keys fuel start) := by
  intro fuel
  induction fuel with
  | zero =>
    intro start h
    simp only [segs, Covers]
    intro j h1 h2; omega
  | succ fuel ih =>
    intro start h
    simp only [segs]
    by_cases hlt : start < keys.length
    · simp only [hlt, if_true]
      cases hc : g.getChord (orMasks (keys.drop start)) with
      | some a =>
        simp only [segs_done g keys fuel keys.length (Nat.le_refl _), Covers]
        refine ⟨Nat.le_refl _, hlt, Nat.le_refl _, ?_, by rw [orSeg_full]; exact hc, ?_, ?_⟩
        · intro j h1 h2; omega
        · intro e' h1 h2; omega
        · intro j h1 h2; omega
      | none =>
        simp only []
        have hsp := shrinkEnd_spec g keys start (keys.length - 1)
        cases hs : shrinkEnd g keys start (keys.length - 1) with
        | some p =>
          obtain ⟨e, a⟩ := p
          rw [hs] at hsp
          obtain ⟨s1, s2, s3, s4⟩ := hsp
          have hne : ¬ e ≤ start := by omega
          simp only [hne, if_false, Covers]
          refine ⟨Nat.le_refl _, s1, by omega, ?_, s3, ?_, ih e (by omega)⟩
          · intro j h1 h2; omega
          · intro e' h1 h2
            by_cases h3 : e' = keys.length
            · subst h3; rw [orSeg_full]; exact hc
            · exact s4 e' h1 (by omega)
        | none =>
          rw [hs] at hsp
          apply Covers_skip g keys start _ ?_ (ih (start + 1) (by omega))
          intro e' h1 h2
          by_cases h3 : e' = keys.length
          · subst h3; rw [orSeg_full]; exact hc
          · exact hsp e' h1 (by omega)
    · simp only [hlt, if_false, Covers]
      intro j h1 h2; omega

/-- `Covers` determines the list: the decomposition is THE greedy one -/
theorem Covers_unique (g : ChordsGroup) (keys : List Nat) : ∀ (l1 l2 : List (Nat × Nat × Action)) (frm : Nat),
    Covers g keys frm l1 → Covers g keys frm l2 → l1 = l2 := by
  intro l1
  induction l1 with
  | nil =>
    intro l2 frm h1 h2
    cases l2 with
    | nil => rfl
    | cons x rest =>
      obtain ⟨s, e, a⟩ := x
      obtain ⟨c1, c2, c3, _, c5, _, _⟩ := h2
      have := h1 s c1 (by omega) e c2 c3
      rw [this] at c5; cases c5
  | cons x rest ih =>
    intro l2 frm h1 h2
    obtain ⟨s, e, a⟩ := x
    obtain ⟨c1, c2, c3, c4, c5, c6, c7⟩ := h1
    cases l2 with
    | nil =>
      have := h2 s c1 (by omega) e c2 c3
      rw [this] at c5; cases c5
    | cons y rest2 =>
      obtain ⟨s', e', a'⟩ := y
      obtain ⟨d1, d2, d3, d4, d5, d6, d7⟩ := h2
      have hs : s = s' := by
        rcases Nat.lt_trichotomy s s' with h | h | h
        · have := d4 s c1 h e c2 c3; rw [this] at c5; cases c5
        · exact h
        · have := c4 s' d1 h e' d2 d3; rw [this] at d5; cases d5
      subst hs
      have he : e = e' := by
        rcases Nat.lt_trichotomy e e' with h | h | h
        · have := c6 e' h d3; rw [this] at d5; cases d5
        · exact h
        · have := d6 e h c3; rw [this] at c5; cases c5
      subst he
      have ha : a = a' := by rw [c5] at d5; cases d5; rfl
      subst ha
      rw [ih rest2 e c7 d7]

/-- more fuel than keys changes nothing: the fuelled loop is the `while` loop -/
theorem segs_fuel_enough (g : ChordsGroup) (keys : List Nat) (f1 f2 start : Nat)
    (h1 : keys.length - start ≤ f1) (h2 : keys.length - start ≤ f2) :
    segs g keys f1 start = segs g keys f2 start :=
  Covers_unique g keys _ _ start (segs_covers g keys f1 start h1) (segs_covers g keys f2 start h2)

theorem segs_length (g : ChordsGroup) (keys : List Nat) : ∀ (fuel start : Nat),
    (segs g keys fuel start).length ≤ keys.length - start := by
  intro fuel
  induction fuel with
  | zero => intro start; simp [segs]
  | succ fuel ih =>
    intro start
    simp only [segs]
    by_cases hlt : start < keys.length
    · simp only [hlt, if_true]
      cases hc : g.getChord (orMasks (keys.drop start)) with
      | some a =>
        simp only [segs_done g keys fuel keys.length (Nat.le_refl _), List.length_cons, List.length_nil]
        omega
      | none =>
        simp only []
        have hsp := shrinkEnd_spec g keys start (keys.length - 1)
        cases hs : shrinkEnd g keys start (keys.length - 1) with
        | some p =>
          obtain ⟨e, a⟩ := p
          rw [hs] at hsp
          have hne : ¬ e ≤ start := by omega
          simp only [hne, if_false, List.length_cons]
          have := ih e
          omega
        | none =>
          simp only []
          have := ih (start + 1)
          omega
    · simp [hlt]

theorem newMasks_sublist (g : ChordsGroup) : ∀ (l : List Queued) (a : Nat),
    (newMasks g a l).Sublist (l.map (maskOf g)) := by
  intro l
  induction l with
  | nil => intro a; simp [newMasks]
  | cons s l ih =>
    intro a
    simp only [newMasks, List.map_cons]
    split
    · exact (ih _).cons₂ _
    · exact (ih _).cons _

/-- every position is inside a run or starts no defined run -/
theorem Covers_total (g : ChordsGroup) (keys : List Nat) : ∀ (l : List (Nat × Nat × Action)) (frm : Nat),
    Covers g keys frm l → ∀ j, frm ≤ j → j < keys.length →
      (∃ seg ∈ l, seg.1 ≤ j ∧ j < seg.2.1) ∨ Undef g keys j := by
  intro l
  induction l with
  | nil => intro frm h j h1 h2; exact Or.inr (h j h1 h2)
  | cons x rest ih =>
    intro frm h j h1 h2
    obtain ⟨s, e, a⟩ := x
    obtain ⟨c1, c2, c3, c4, c5, c6, c7⟩ := h
    by_cases hjs : j < s
    · exact Or.inr (c4 j h1 hjs)
    · by_cases hje : j < e
      · exact Or.inl ⟨(s, e, a), by simp, by simp; omega, hje⟩
      · rcases ih e c7 j (by omega) h2 with ⟨seg, hm, hh⟩ | hu
        · exact Or.inl ⟨seg, List.mem_cons_of_mem _ hm, hh⟩
        · exact Or.inr hu

theorem orSeg_single (keys : List Nat) (j : Nat) (h : j < keys.length) : orSeg keys j (j + 1) = keys[j] := by
  unfold orSeg orMasks
  have : (keys.drop j).take (j + 1 - j) = [keys[j]] := by
    rw [Nat.add_sub_cancel_left]
    rw [List.drop_eq_getElem_cons h]
    simp only [List.take_succ_cons, List.take_zero]
  rw [this]
  simp

/-! ## Capacity of the action queue -/

theorem pushAll_fits (aq : ActionQueue) (es : List (Coord × Nat × Action))
    (h : aq.length + es.length ≤ ACTION_QUEUE_LEN) : pushAll aq es = aq ++ es := by
  unfold pushAll
  induction es generalizing aq with
  | nil => simp
  | cons e es ih =>
    simp only [List.length_cons] at h
    have hlt : aq.length < ACTION_QUEUE_LEN := by omega
    have h1 : (pushBackWrap ACTION_QUEUE_LEN aq e).1 = aq ++ [e] := by
      simp only [pushBackWrap, hlt, if_true]
    simp only [List.foldl_cons, h1]
    rw [ih (aq ++ [e]) (by simp; omega)]
    simp

end KVerif.C09
