/-
Helper lemmas for C19, recording side: the pressed-set scan, `add_release_for_all_unreleased_presses`,
and the one-event lag of `add_event` against the direct description `timed`.
-/
import KVerif.Model.DynMacro
namespace KVerif.DynMacro

/-! ### key events of items, and the scan on key events -/

def evOf : Item → Option KeyEv
  | .press o _ => some ⟨true, o⟩
  | .release o _ => some ⟨false, o⟩
  | .endMacro _ => none

/-- the key events a list of items stands for, in order -/
def evsQ (q : List Item) : List KeyEv := q.filterMap evOf

/-- the pressed-set scan on bare key events -/
def scanEv (s : List Nat) : List KeyEv → List Nat
  | [] => s
  | e :: r => scanEv (if e.press then (if e.osc ∈ s then s else s ++ [e.osc]) else s.filter (· != e.osc)) r

theorem scan_eq_scanEv (s : List Nat) (q : List Item) : scan s q = scanEv s (evsQ q) := by
  induction q generalizing s with
  | nil => rfl
  | cons i r ih =>
    cases i <;> simp [scan, evsQ, evOf, scanEv, List.filterMap_cons] <;> exact ih _

theorem evsQ_append (a b : List Item) : evsQ (a ++ b) = evsQ a ++ evsQ b := by
  simp [evsQ, List.filterMap_append]

theorem scanEv_append (s : List Nat) (a b : List KeyEv) :
    scanEv s (a ++ b) = scanEv (scanEv s a) b := by
  induction a generalizing s with
  | nil => rfl
  | cons e r ih => simp [scanEv, ih]

theorem scan_append (s : List Nat) (a b : List Item) : scan s (a ++ b) = scan (scan s a) b := by
  simp [scan_eq_scanEv, evsQ_append, scanEv_append]

/-- **Meaning of the scan.** `x` is in the set after scanning `l` from `s` iff `l` contains a press
of `x` with no release of `x` after it, or `x` was in `s` and `l` has no release of `x`. -/
theorem mem_scanEv_iff (x : Nat) (s : List Nat) (l : List KeyEv) :
    x ∈ scanEv s l ↔
      (∃ pre post, l = pre ++ ⟨true, x⟩ :: post ∧ ⟨false, x⟩ ∉ post) ∨ (x ∈ s ∧ ⟨false, x⟩ ∉ l) := by
  induction l generalizing s with
  | nil => simp [scanEv]
  | cons e r ih =>
    obtain ⟨p, o⟩ := e
    simp only [scanEv]
    rw [ih]
    cases p with
    | true =>
      simp only [if_true]
      constructor
      · rintro (⟨pre, post, h, hn⟩ | ⟨hs, hn⟩)
        · exact .inl ⟨⟨true, o⟩ :: pre, post, by simp [h], hn⟩
        · by_cases hx : x = o
          · subst hx; exact .inl ⟨[], r, rfl, hn⟩
          · refine .inr ⟨?_, by simp [hn]⟩
            split at hs
            · exact hs
            · simp at hs; rcases hs with hs | hs
              · exact hs
              · exact absurd hs hx
      · rintro (⟨pre, post, h, hn⟩ | ⟨hs, hn⟩)
        · cases pre with
          | nil =>
            simp at h; obtain ⟨h1, h2⟩ := h
            subst h2
            refine .inr ⟨?_, hn⟩
            subst h1
            split <;> simp_all
          | cons a pre' =>
            simp at h
            exact .inl ⟨pre', post, h.2, hn⟩
        · refine .inr ⟨?_, by simp at hn; exact hn⟩
          split
          · exact hs
          · simp [hs]
    | false =>
      simp only [Bool.false_eq_true, if_false]
      constructor
      · rintro (⟨pre, post, h, hn⟩ | ⟨hs, hn⟩)
        · exact .inl ⟨⟨false, o⟩ :: pre, post, by simp [h], hn⟩
        · simp at hs
          refine .inr ⟨hs.1, ?_⟩
          simp only [List.mem_cons, not_or]
          exact ⟨by intro h; injection h with _ h2; exact hs.2 h2, hn⟩
      · rintro (⟨pre, post, h, hn⟩ | ⟨hs, hn⟩)
        · cases pre with
          | nil => simp at h
          | cons a pre' =>
            simp at h
            exact .inl ⟨pre', post, h.2, hn⟩
        · simp only [List.mem_cons, not_or] at hn
          refine .inr ⟨?_, hn.2⟩
          simp only [List.mem_filter, bne_iff_ne, ne_eq]
          refine ⟨hs, ?_⟩
          intro h; subst h; exact hn.1 rfl

theorem scanEv_nodup (s : List Nat) (l : List KeyEv) (h : s.Nodup) : (scanEv s l).Nodup := by
  induction l generalizing s with
  | nil => exact h
  | cons e r ih =>
    simp only [scanEv]
    apply ih
    split
    · split
      · exact h
      · rename_i hn
        rw [List.nodup_append]
        refine ⟨h, by simp, ?_⟩
        intro a ha b hb
        simp at hb; subst hb
        intro hab; subst hab; exact hn ha
    · exact h.filter _

/-- scanning from a smaller set gives a smaller set -/
theorem scanEv_mono (s s' : List Nat) (l : List KeyEv) (h : ∀ x ∈ s', x ∈ s) :
    ∀ x ∈ scanEv s' l, x ∈ scanEv s l := by
  intro x hx
  rw [mem_scanEv_iff] at hx ⊢
  rcases hx with h1 | ⟨h2, h3⟩
  · exact .inl h1
  · exact .inr ⟨h _ h2, h3⟩

theorem scanEv_eq_nil_of_subset (s s' : List Nat) (l : List KeyEv) (h : ∀ x ∈ s', x ∈ s)
    (he : scanEv s l = []) : scanEv s' l = [] := by
  apply List.eq_nil_iff_forall_not_mem.mpr
  intro x hx
  have := scanEv_mono s s' l h x hx
  simp [he] at this

/-- a block that leaves nothing down (from the empty set) does not add anything to any set -/
theorem scanEv_balanced_subset (s : List Nat) (b : List KeyEv) (hb : scanEv [] b = []) :
    ∀ x ∈ scanEv s b, x ∈ s := by
  intro x hx
  rw [mem_scanEv_iff] at hx
  rcases hx with h1 | ⟨h2, _⟩
  · have : x ∈ scanEv [] b := (mem_scanEv_iff x [] b).mpr (.inl h1)
    simp [hb] at this
  · exact h2

/-- inserting a balanced block into a balanced sequence keeps it balanced -/
theorem scanEv_insert_balanced (a b c : List KeyEv) (hb : scanEv [] b = [])
    (h : scanEv [] (a ++ c) = []) : scanEv [] (a ++ b ++ c) = [] := by
  rw [scanEv_append] at h
  rw [scanEv_append, scanEv_append]
  exact scanEv_eq_nil_of_subset _ _ c (scanEv_balanced_subset _ b hb) h

/-- releasing every member empties the set -/
theorem scanEv_releases (s l : List Nat) (h : ∀ x ∈ s, x ∈ l) :
    scanEv s (l.map fun o => ⟨false, o⟩) = [] := by
  induction l generalizing s with
  | nil =>
    simp only [List.map_nil, scanEv]
    apply List.eq_nil_iff_forall_not_mem.mpr
    intro x hx; simpa using h x hx
  | cons o r ih =>
    simp only [List.map_cons, scanEv, Bool.false_eq_true, if_false]
    apply ih
    intro x hx
    simp only [List.mem_filter, bne_iff_ne, ne_eq] at hx
    have := h x hx.1
    simp only [List.mem_cons] at this
    rcases this with h1 | h1
    · exact absurd h1 hx.2
    · exact h1

/-! ### `add_release_for_all_unreleased_presses` -/

theorem orderBy_perm (hint u : List Nat) : (orderBy hint u).Perm u := by
  unfold orderBy
  simp only
  split
  · rename_i h; exact List.isPerm_iff.mp h
  · exact List.Perm.refl _

theorem evsQ_releases (l : List Nat) :
    evsQ (l.map (Item.release · 0)) = l.map fun o => ⟨false, o⟩ := by
  induction l with
  | nil => rfl
  | cons o r ih => simp [evsQ, evOf] at ih ⊢; exact ih

/-- whatever was recorded, after `add_release_for_all_unreleased_presses` nothing is left down -/
theorem unreleased_addReleases (hint : List Nat) (items : List Item) :
    unreleased (addReleases hint items) = [] := by
  unfold unreleased addReleases
  rw [scan_append, scan_eq_scanEv _ (List.map _ _), evsQ_releases]
  apply scanEv_releases
  intro x hx
  exact (orderBy_perm hint (unreleased items)).mem_iff.mpr hx

/-- the tail that is appended is a permutation of the keys left down -/
theorem addReleases_eq (hint : List Nat) (items : List Item) :
    ∃ tail : List Nat, addReleases hint items = items ++ tail.map (Item.release · 0) ∧
      tail.Perm (unreleased items) :=
  ⟨_, rfl, orderBy_perm _ _⟩

/-! ### items without `EndMacro` -/

def NoEnd (l : List Item) : Prop := ∀ i ∈ l, ∀ id, i ≠ .endMacro id

theorem NoEnd.append {a b : List Item} (ha : NoEnd a) (hb : NoEnd b) : NoEnd (a ++ b) := by
  intro i hi; rcases List.mem_append.mp hi with h | h
  · exact ha i h
  · exact hb i h

theorem noEnd_releases (l : List Nat) : NoEnd (l.map (Item.release · 0)) := by
  intro i hi id; simp at hi; obtain ⟨a, _, rfl⟩ := hi; simp

theorem NoEnd.addReleases {items : List Item} (hint : List Nat) (h : NoEnd items) :
    NoEnd (addReleases hint items) := h.append (noEnd_releases _)

theorem NoEnd.sublist {a b : List Item} (h : NoEnd b) (hs : ∀ i ∈ a, i ∈ b) : NoEnd a :=
  fun i hi => h i (hs i hi)

theorem noEnd_mkItem (w : Nat × Wt) (d : Nat) : NoEnd [mkItem w d] := by
  intro i hi id; simp at hi; subst hi
  obtain ⟨o, t⟩ := w; cases t <;> simp [mkItem]

theorem NoEnd.flush {r : Rec} (h : NoEnd r.items) : NoEnd r.flushItems := by
  unfold Rec.flushItems
  split
  · exact h
  · exact h.append (noEnd_mkItem _ _)

/-! ### the one-event lag against `timed` -/

/-- the record-state transitions while a recording is running and below the limit -/
def recStep (r : Rec) : RecEv → Rec
  | .press o => r.addEvent o .press
  | .release o => r.addEvent o .release
  | .tick => { r with delay := satAdd r.delay 1 }

def recRun (r : Rec) (evs : List RecEv) : Rec := evs.foldl recStep r

/-- number of leading ticks, not saturated -/
def leadN : List RecEv → Nat
  | .tick :: r => leadN r + 1
  | _ => 0

theorem leadTicks_eq (evs : List RecEv) : leadTicks evs = min (leadN evs) U16_MAX := by
  induction evs with
  | nil => simp [leadTicks, leadN]
  | cons e r ih =>
    cases e <;> simp [leadTicks, leadN]
    rw [ih]; simp only [U16_MAX]; omega

theorem recRun_id (r : Rec) (evs : List RecEv) : (recRun r evs).id = r.id := by
  induction evs generalizing r with
  | nil => rfl
  | cons e rest ih =>
    simp only [recRun, List.foldl_cons] at ih ⊢
    rw [ih]; cases e <;> rfl

/-- What is in the record state (with the waiting event flushed) after `evs`, for any start. -/
theorem flush_recRun (r : Rec) (evs : List RecEv) (hd : r.delay ≤ U16_MAX) :
    (recRun r evs).flushItems =
      match r.waiting with
      | none => r.items ++ timed evs
      | some w => r.items ++ mkItem w (min (r.delay + leadN evs) U16_MAX) :: timed evs := by
  induction evs generalizing r with
  | nil =>
    simp only [recRun, List.foldl_nil, Rec.flushItems, timed, leadN]
    cases r.waiting <;> simp [Nat.min_eq_left hd]
  | cons e rest ih =>
    simp only [recRun, List.foldl_cons] at ih ⊢
    cases e with
    | tick =>
      have := ih { r with delay := satAdd r.delay 1 } (by simp only [satAdd, U16_MAX]; omega)
      simp only [recStep] at this ⊢
      rw [this]
      cases hw : r.waiting with
      | none => simp [timed]
      | some w =>
        simp only [timed, leadN, satAdd]
        have e : min (min (r.delay + 1) U16_MAX + leadN rest) U16_MAX =
            min (r.delay + (leadN rest + 1)) U16_MAX := by
          simp only [U16_MAX] at hd ⊢; omega
        rw [e]
    | press o =>
      have := ih (r.addEvent o .press) (by simp [Rec.addEvent, U16_MAX])
      simp only [recStep] at this ⊢
      rw [this]
      simp only [Rec.addEvent, Rec.flushItems, timed, leadN, leadTicks_eq, Nat.zero_add, Nat.add_zero,
        Nat.min_eq_left hd, mkItem]
      cases r.waiting <;> simp
    | release o =>
      have := ih (r.addEvent o .release) (by simp [Rec.addEvent, U16_MAX])
      simp only [recStep] at this ⊢
      rw [this]
      simp only [Rec.addEvent, Rec.flushItems, timed, leadN, leadTicks_eq, Nat.zero_add, Nat.add_zero,
        Nat.min_eq_left hd, mkItem]
      cases r.waiting <;> simp

theorem flush_recRun_new (id : Nat) (evs : List RecEv) :
    (recRun (Rec.new id) evs).flushItems = timed evs := by
  have := flush_recRun (Rec.new id) evs (by simp [Rec.new])
  simpa [Rec.new] using this

theorem timed_length (evs : List RecEv) : (timed evs).length = keyCount evs := by
  induction evs with
  | nil => rfl
  | cons e r ih => cases e <;> simp [timed, keyCount, ih]

/-- the waiting event is the last typed one; `macro_items` holds the others -/
theorem items_recRun (r : Rec) (evs : List RecEv) :
    (recRun r evs).items.length =
      if (recRun r evs).waiting.isSome then (recRun r evs).flushItems.length - 1
      else (recRun r evs).flushItems.length := by
  unfold Rec.flushItems
  cases (recRun r evs).waiting <;> simp

theorem waiting_recRun_new (id : Nat) (evs : List RecEv) :
    (recRun (Rec.new id) evs).waiting.isSome = decide (keyCount evs ≠ 0) := by
  suffices h : ∀ r : Rec, (recRun r evs).waiting.isSome = (r.waiting.isSome || decide (keyCount evs ≠ 0)) by
    simpa [Rec.new] using h (Rec.new id)
  induction evs with
  | nil => intro r; simp [recRun, keyCount]
  | cons e rest ih =>
    intro r
    simp only [recRun, List.foldl_cons] at ih ⊢
    rw [ih]
    cases e <;> simp [recStep, Rec.addEvent, keyCount]
    by_cases h : keyCount rest = 0 <;> simp [h]

theorem items_length_recRun_new (id : Nat) (evs : List RecEv) :
    (recRun (Rec.new id) evs).items.length = keyCount evs - 1 := by
  rw [items_recRun, waiting_recRun_new, flush_recRun_new, timed_length]
  by_cases h : keyCount evs = 0 <;> simp [h]

theorem items_recRun_new (id : Nat) (evs : List RecEv) :
    (recRun (Rec.new id) evs).items = (timed evs).dropLast := by
  have hf := flush_recRun_new id evs
  have hw := waiting_recRun_new id evs
  unfold Rec.flushItems at hf
  cases h : (recRun (Rec.new id) evs).waiting with
  | none =>
    rw [h] at hf hw
    simp at hw
    have : timed evs = [] := List.eq_nil_of_length_eq_zero (by rw [timed_length]; exact hw)
    rw [← hf]; simp [hf, this]
  | some w =>
    rw [h] at hf
    simp only at hf
    rw [← hf]; simp

theorem recRun_noEnd (r : Rec) (evs : List RecEv) (h : NoEnd r.items) : NoEnd (recRun r evs).items := by
  induction evs generalizing r with
  | nil => exact h
  | cons e rest ih =>
    simp only [recRun, List.foldl_cons] at ih ⊢
    apply ih
    cases e <;> simp only [recStep, Rec.addEvent]
    · exact h.flush
    · exact h.flush
    · exact h

theorem recRun_append (r : Rec) (a b : List RecEv) : recRun r (a ++ b) = recRun (recRun r a) b := by
  simp [recRun, List.foldl_append]

theorem keyCount_append (a b : List RecEv) : keyCount (a ++ b) = keyCount a + keyCount b := by
  induction a with
  | nil => simp [keyCount]
  | cons e r ih => cases e <;> simp [keyCount, ih] <;> omega

/-- below the limit the real recording functions do what `recRun` says and save nothing -/
theorem recordAll_eq (hint : List Nat) (max id : Nat) (st : Store) (pre evs : List RecEv)
    (h : keyCount (pre ++ evs) ≤ 2 * max + 2) :
    recordAll hint max (some (recRun (Rec.new id) pre), st) evs =
      (some (recRun (Rec.new id) (pre ++ evs)), st) := by
  induction evs generalizing pre with
  | nil => simp [recordAll]
  | cons e rest ih =>
    have hstep : recOp hint max (some (recRun (Rec.new id) pre), st) e =
        (some (recRun (Rec.new id) (pre ++ [e])), st) := by
      rw [recRun_append]
      cases e with
      | press o =>
        have hl := items_length_recRun_new id pre
        have hk : keyCount pre + (keyCount rest + 1) ≤ 2 * max + 2 := by
          simpa [keyCount_append, keyCount] using h
        have : ¬ (max * 2 < (List.foldl recStep (Rec.new id) pre).items.length) := by
          have e : (List.foldl recStep (Rec.new id) pre) = recRun (Rec.new id) pre := rfl
          rw [e, hl]; omega
        simp [recOp, recordPress, this, recRun, recStep, Store.save]
      | release o => simp [recOp, recordRelease, recRun, recStep]
      | tick => simp [recOp, tickRecord, recRun, recStep]
    have := ih (pre ++ [e]) (by simpa using h)
    simp only [recordAll, List.foldl_cons] at this ⊢
    rw [hstep]
    simpa using this

end KVerif.DynMacro
