/-
C08 helper lemmas: the sequence invariant (`SeqInv`, Lemmas/MacroInv.lean) through whole ticks and
events of the layout model, on configurations built from plain keys, no-op, transparent keys, the
macro actions (`Sequence`, `RepeatableSequence`, alone or inside `MultipleActions` with a custom
action, as the eight macro list actions compile to), custom actions and `CancelSequences`.
-/
import KVerif.Lemmas.MacroInv
namespace KVerif.Macro
open KVerif.L

/-! ### the fragment -/

mutual
  /-- actions of the C08 fragment; inside `multi` no transparent key -/
  def MFrag : Action → Prop
    | .noOp | .trans | .keyCode _ | .cancelSequences | .custom _ => True
    | .sequence evs | .repeatableSequence evs => EvsOK evs
    | .multipleActions acs => MFragL acs
    | _ => False
  def MFragL : List Action → Prop
    | [] => True
    | a :: rest => MFrag a ∧ a ≠ .trans ∧ MFragL rest
end

mutual
  /-- how many sequences an action starts -/
  def seqCount : Action → Nat
    | .sequence _ | .repeatableSequence _ => 1
    | .multipleActions acs => seqCountL acs
    | _ => 0
  def seqCountL : List Action → Nat
    | [] => 0
    | a :: rest => seqCount a + seqCountL rest
end

def CfgM (c : LCfg) : Prop :=
  (∀ tbl ∈ c.layers, ∀ e ∈ tbl, MFrag e.2) ∧ (∀ e ∈ c.srcKeys, MFrag e.2)

/-- nothing but sequences is pending: no waiting state, no eager tap-dance, no queued action, no
one-shot -/
structure Quiet (s : Layout) : Prop where
  waiting : s.waiting = none
  extra : s.extraWaiting = []
  tde : s.tapDanceEager = none
  aq : s.actionQueue = []
  osh : s.oneshot.keys = []

/-- what no action of the fragment changes -/
structure Static (s s' : Layout) : Prop where
  cfg : s'.cfg = s.cfg
  waiting : s'.waiting = s.waiting
  extra : s'.extraWaiting = s.extraWaiting
  tde : s'.tapDanceEager = s.tapDanceEager
  aq : s'.actionQueue = s.actionQueue
  osh : s'.oneshot.keys = s.oneshot.keys
  tv2 : s'.transV2 = s.transV2
  dfl : s'.delegateToFirstLayer = s.delegateToFirstLayer

theorem Static.refl (s : Layout) : Static s s := ⟨rfl, rfl, rfl, rfl, rfl, rfl, rfl, rfl⟩
theorem Static.trans {a b c : Layout} (h1 : Static a b) (h2 : Static b c) : Static a c :=
  ⟨h2.cfg.trans h1.cfg, h2.waiting.trans h1.waiting, h2.extra.trans h1.extra,
   h2.tde.trans h1.tde, h2.aq.trans h1.aq, h2.osh.trans h1.osh, h2.tv2.trans h1.tv2, h2.dfl.trans h1.dfl⟩

theorem Quiet.of_static {s s' : Layout} (h : Quiet s) (hs : Static s s') : Quiet s' :=
  ⟨hs.waiting.trans h.waiting, hs.extra.trans h.extra, hs.tde.trans h.tde, hs.aq.trans h.aq, hs.osh.trans h.osh⟩

/-- static, and neither the ring nor fake keys nor repeating states are touched -/
structure Frame (s s' : Layout) : Prop where
  st : Static s s'
  seqs : s'.activeSequences = s.activeSequences
  fake : ∀ k, St.fakeKey k ∈ s'.states → St.fakeKey k ∈ s.states
  rep : ∀ evs c, St.repeatingSequence evs c ∈ s'.states → St.repeatingSequence evs c ∈ s.states

theorem Frame.refl (s : Layout) : Frame s s := ⟨Static.refl s, rfl, fun _ h => h, fun _ _ h => h⟩
theorem Frame.trans {a b c : Layout} (h1 : Frame a b) (h2 : Frame b c) : Frame a c :=
  ⟨h1.st.trans h2.st, h2.seqs.trans h1.seqs, fun k h => h1.fake k (h2.fake k h),
   fun e c' h => h1.rep e c' (h2.rep e c' h)⟩
theorem Frame.inv {s s' : Layout} (hf : Frame s s') (h : SeqInv s) : SeqInv s' :=
  h.frame hf.seqs hf.fake hf.rep

/-! ### one-shot bookkeeping never touches the key list of the one-shot state -/

theorem handlePress_keys (o : OneShotState) (k : OshKey) : (o.handlePress k).1.keys = o.keys := by
  unfold OneShotState.handlePress
  split
  · rfl
  · cases k with
    | oneShotKey c => simp only []; split <;> rfl
    | other c => simp only []; split <;> rfl

theorem handleRelease_keys (o : OneShotState) (c : Coord) : (o.handleRelease c).1.keys = o.keys := by
  unfold OneShotState.handleRelease
  split
  · rfl
  · split
    · split <;> rfl
    · rfl

theorem oshPress_frame (s : Layout) (k : OshKey) : Frame s (s.oshPress k).1 :=
  ⟨⟨rfl, rfl, rfl, rfl, rfl, handlePress_keys _ _, rfl, rfl⟩, rfl, fun _ h => h, fun _ _ h => h⟩

theorem oshOther_frame (s : Layout) (b : Bool) (c : Coord) : Frame s (oshOther s b c).1 := by
  unfold oshOther; split
  · exact oshPress_frame s _
  · exact Frame.refl s

theorem updateCoord_frame (s : Layout) (c : Coord) : Frame s (updateCoord s c) := by
  unfold updateCoord; split
  · exact ⟨⟨rfl, rfl, rfl, rfl, rfl, rfl, rfl, rfl⟩, rfl, fun _ h => h, fun _ _ h => h⟩
  · exact Frame.refl s

theorem prelude_frame (s : Layout) (c : Coord) : Frame s (prelude s c) := by
  unfold prelude
  refine ⟨⟨?_, ?_, ?_, ?_, ?_, ?_, ?_, ?_⟩, ?_, ?_, ?_⟩ <;> try (split <;> rfl)
  · intro k h
    simp only at h
    have := (List.mem_filter.mp h).1
    split at this <;> exact this
  · intro e c' h
    simp only at h
    have := (List.mem_filter.mp h).1
    split at this <;> exact this

/-- pushing a state that is neither a fake key nor a repeating sequence -/
theorem pushState_frame (s : Layout) (st : St) (h1 : ∀ k, st ≠ .fakeKey k)
    (h2 : ∀ e c, st ≠ .repeatingSequence e c) : Frame s (s.pushState st) :=
  ⟨⟨rfl, rfl, rfl, rfl, rfl, rfl, rfl, rfl⟩, rfl,
   fun k h => by
     rcases mem_pushCap h with h | h
     · exact h
     · exact absurd h.symm (h1 k),
   fun e c h => by
     rcases mem_pushCap h with h | h
     · exact h
     · exact absurd h.symm (h2 e c)⟩

theorem setRpt_frame (s : Layout) (a : Option Action) : Frame s { s with rptAction := a } :=
  ⟨⟨rfl, rfl, rfl, rfl, rfl, rfl, rfl, rfl⟩, rfl, fun _ h => h, fun _ _ h => h⟩

theorem setHist_frame (s : Layout) (h : List (KeyCode × Nat)) : Frame s { s with histKeys := h } :=
  ⟨⟨rfl, rfl, rfl, rfl, rfl, rfl, rfl, rfl⟩, rfl, fun _ h => h, fun _ _ h => h⟩

/-! ### the arms -/

theorem armNoOp_frame (s : Layout) (a : Action) (c : Coord) (o : Bool) : Frame s (armNoOp s a c o) := by
  unfold armNoOp
  split
  · exact (oshPress_frame s _).trans (setRpt_frame _ _)
  · exact setRpt_frame _ _

theorem armKeyCode_frame (s : Layout) (a : Action) (kc : KeyCode) (c : Coord) (o : Bool) :
    Frame s (armKeyCode s a kc c o) := by
  unfold armKeyCode
  have f1 := updateCoord_frame s c
  have f2 := setHist_frame (updateCoord s c) (histPush (updateCoord s c).histKeys kc)
  have f3 := pushState_frame { updateCoord s c with histKeys := histPush (updateCoord s c).histKeys kc }
    (.normalKey kc c 0) (by intro k h; cases h) (by intro e c' h; cases h)
  have f4 := oshOther_frame
    (({ updateCoord s c with histKeys := histPush (updateCoord s c).histKeys kc } : Layout).pushState (.normalKey kc c 0)) o c
  have f := ((f1.trans f2).trans f3).trans f4
  simp only []
  split
  · exact f.trans (setRpt_frame _ _)
  · exact f.trans (setRpt_frame _ _)

theorem armCustom_frame (s : Layout) (a : Action) (id : Nat) (c : Coord) (o : Bool) :
    Frame s (armCustom s a id c o).1 := by
  unfold armCustom
  have f := ((updateCoord_frame s c).trans (oshOther_frame _ o c)).trans (setRpt_frame _ (some a))
  simp only []
  split
  · exact f.trans (pushState_frame _ _ (by intro k h; cases h) (by intro e c' h; cases h))
  · exact f

theorem armSequence_static (s : Layout) (a : Action) (evs : List SeqEv) (c : Coord) (o rep : Bool) :
    Static s (armSequence s a evs c o rep) := by
  unfold armSequence
  simp only []
  generalize hs1 : startSequence s evs = s1
  have h1 : Static s s1 := by subst hs1; exact ⟨rfl, rfl, rfl, rfl, rfl, rfl, rfl, rfl⟩
  generalize hs2 : (if rep then s1.pushState (.repeatingSequence evs c) else s1) = s2
  have h2 : Static s1 s2 := by
    subst hs2; cases rep
    · exact Static.refl _
    · exact ⟨rfl, rfl, rfl, rfl, rfl, rfl, rfl, rfl⟩
  exact ((h1.trans h2).trans (oshOther_frame s2 o c).st).trans (setRpt_frame (oshOther s2 o c).1 (some a)).st

theorem armCancelSequences_static (s : Layout) (a : Action) (c : Coord) (o : Bool) :
    Static s (armCancelSequences s a c o) := by
  unfold armCancelSequences
  simp only []
  generalize hs1 : ({ s with activeSequences := [], states := s.states.filter (fun st => !(match st with | .fakeKey _ => true | _ => false)) } : Layout) = s1
  have h1 : Static s s1 := by subst hs1; exact ⟨rfl, rfl, rfl, rfl, rfl, rfl, rfl, rfl⟩
  exact (h1.trans (oshOther_frame s1 o c).st).trans (setRpt_frame (oshOther s1 o c).1 (some a)).st

/-! ### `do_action` on the fragment -/

/-- outcome of an action that starts at most `n` sequences -/
structure R (s s' : Layout) (n : Nat) : Prop where
  st : Static s s'
  inv : SeqInv s'
  len : s'.activeSequences.length ≤ s.activeSequences.length + n

theorem R.of_frame {s s' : Layout} (hf : Frame s s') (h : SeqInv s) : R s s' 0 :=
  ⟨hf.st, hf.inv h, by rw [hf.seqs]; omega⟩

theorem frag_all : ∀ fuel : Nat,
    (∀ s a coord delay o ls s' cu, SeqInv s → MFrag a → a ≠ .trans →
      doAction fuel s a coord delay o ls = .ok (s', cu) → R s s' (seqCount a)) ∧
    (∀ s a coord delay o ls s' cu, SeqInv s → MFrag a →
      dispatch fuel s a coord delay o ls = .ok (s', cu) → R s s' (seqCount a)) ∧
    (∀ s acs coord delay o ls cu0 s' cu, SeqInv s → MFragL acs →
      doActions fuel s acs coord delay o ls cu0 = .ok (s', cu) → R s s' (seqCountL acs)) := by
  intro fuel
  induction fuel with
  | zero =>
    refine ⟨?_, ?_, ?_⟩
    · intro s a coord delay o ls s' cu _ _ _ h; simp [doAction] at h
    · intro s a coord delay o ls s' cu _ _ h; simp [dispatch] at h
    · intro s acs coord delay o ls cu0 s' cu _ _ h; simp [doActions] at h
  | succ fuel ih =>
    obtain ⟨ih1, ih2, ih3⟩ := ih
    refine ⟨?_, ?_, ?_⟩
    · -- doAction: no resolution for a non-transparent action, then the prelude
      intro s a coord delay o ls s' cu hi hf hnt h
      have hp := prelude_frame s coord
      have hd : dispatch fuel (prelude s coord) a coord delay o ls = .ok (s', cu) := by
        cases a <;> first | exact absurd rfl hnt | (simp only [doAction] at h; exact h)
      have := ih2 (prelude s coord) a coord delay o ls s' cu (hp.inv hi) hf hd
      exact ⟨hp.st.trans this.st, this.inv, by rw [← hp.seqs]; exact this.len⟩
    · -- dispatch
      intro s a coord delay o ls s' cu hi hf h
      cases a <;> simp only [MFrag] at hf <;> simp only [dispatch] at h
      case noOp =>
        injection h with h; injection h with h1 h2; subst h1
        exact R.of_frame (armNoOp_frame s _ coord o) hi
      case trans => cases h
      case keyCode kc =>
        injection h with h; injection h with h1 h2; subst h1
        exact R.of_frame (armKeyCode_frame s _ kc coord o) hi
      case cancelSequences =>
        injection h with h; injection h with h1 h2; subst h1
        obtain ⟨c1, c2, _⟩ := armCancelSequences_inv s .cancelSequences coord o hi.rep
        exact ⟨armCancelSequences_static s _ coord o, c1, by rw [c2]; simp⟩
      case custom id =>
        have hfr := armCustom_frame s (.custom id) id coord o
        cases hc : armCustom s (.custom id) id coord o with
        | mk s1 c1 =>
          rw [hc] at h hfr
          injection h with h; injection h with h1 h2; subst h1
          exact R.of_frame hfr hi
      case sequence evs =>
        injection h with h; injection h with h1 h2; subst h1
        simp only [seqCount]
        obtain ⟨a1, a2, _⟩ := armSequence_inv s (.sequence evs) evs coord o false hi hf
        exact ⟨armSequence_static s _ evs coord o false, a1, a2⟩
      case repeatableSequence evs =>
        injection h with h; injection h with h1 h2; subst h1
        simp only [seqCount]
        obtain ⟨a1, a2, _⟩ := armSequence_inv s (.repeatableSequence evs) evs coord o true hi hf
        exact ⟨armSequence_static s _ evs coord o true, a1, a2⟩
      case multipleActions acs =>
        split at h
        · cases h
        · rename_i s1 c1 hr
          injection h with h; injection h with h1 h2; subst h1
          have hu := updateCoord_frame s coord
          simp only [seqCount]
          have := ih3 (updateCoord s coord) acs coord delay o ls .noEvent s1 c1 (hu.inv hi) hf hr
          have hr' := setRpt_frame s1 (some (Action.multipleActions acs))
          exact ⟨(hu.st.trans this.st).trans hr'.st, hr'.inv this.inv, by
            have := this.len; rw [hu.seqs] at this; exact this⟩
    · -- doActions
      intro s acs coord delay o ls cu0 s' cu hi hf h
      cases acs with
      | nil =>
        simp only [doActions] at h
        injection h with h; injection h with h1 h2; subst h1
        exact ⟨Static.refl s, hi, by simp [seqCountL]⟩
      | cons a rest =>
        simp only [MFragL] at hf
        simp only [seqCountL]
        simp only [doActions] at h
        split at h
        · cases h
        · rename_i s1 c1 hr
          have r1 := ih1 s a coord delay o ls s1 c1 hi hf.1 hf.2.1 hr
          have r2 := ih3 s1 rest coord delay o ls (cu0.update c1) s' cu r1.inv hf.2.2 h
          exact ⟨r1.st.trans r2.st, r2.inv, by have := r1.len; have := r2.len; omega⟩

mutual
  /-- no `CancelSequences` inside -/
  def NoCancel : Action → Prop
    | .cancelSequences => False
    | .multipleActions acs => NoCancelL acs
    | _ => True
  def NoCancelL : List Action → Prop
    | [] => True
    | a :: rest => NoCancel a ∧ NoCancelL rest
end

/-- **an action of the fragment other than `CancelSequences` leaves every active sequence as it
is**: it can only append the sequences it starts -/
theorem frag_ext : ∀ fuel : Nat,
    (∀ s a coord delay o ls s' cu, SeqInv s → MFrag a → a ≠ .trans → NoCancel a →
      s.activeSequences.length + seqCount a ≤ ACTIVE_SEQ_CAP →
      doAction fuel s a coord delay o ls = .ok (s', cu) →
      ∃ started, s'.activeSequences = s.activeSequences ++ started) ∧
    (∀ s a coord delay o ls s' cu, SeqInv s → MFrag a → NoCancel a →
      s.activeSequences.length + seqCount a ≤ ACTIVE_SEQ_CAP →
      dispatch fuel s a coord delay o ls = .ok (s', cu) →
      ∃ started, s'.activeSequences = s.activeSequences ++ started) ∧
    (∀ s acs coord delay o ls cu0 s' cu, SeqInv s → MFragL acs → NoCancelL acs →
      s.activeSequences.length + seqCountL acs ≤ ACTIVE_SEQ_CAP →
      doActions fuel s acs coord delay o ls cu0 = .ok (s', cu) →
      ∃ started, s'.activeSequences = s.activeSequences ++ started) := by
  intro fuel
  induction fuel with
  | zero =>
    refine ⟨?_, ?_, ?_⟩
    · intro s a coord delay o ls s' cu _ _ _ _ _ h; simp [doAction] at h
    · intro s a coord delay o ls s' cu _ _ _ _ h; simp [dispatch] at h
    · intro s acs coord delay o ls cu0 s' cu _ _ _ _ h; simp [doActions] at h
  | succ fuel ih =>
    obtain ⟨ih1, ih2, ih3⟩ := ih
    refine ⟨?_, ?_, ?_⟩
    · intro s a coord delay o ls s' cu hi hf hnt hnc hroom h
      have hp := prelude_frame s coord
      have hd : dispatch fuel (prelude s coord) a coord delay o ls = .ok (s', cu) := by
        cases a <;> first | exact absurd rfl hnt | (simp only [doAction] at h; exact h)
      obtain ⟨st, hst⟩ := ih2 (prelude s coord) a coord delay o ls s' cu (hp.inv hi) hf hnc
        (by rw [hp.seqs]; exact hroom) hd
      exact ⟨st, by rw [hst, hp.seqs]⟩
    · intro s a coord delay o ls s' cu hi hf hnc hroom h
      cases a <;> simp only [MFrag] at hf <;> simp only [dispatch] at h
      case noOp =>
        injection h with h; injection h with h1 h2; subst h1
        exact ⟨[], by rw [(armNoOp_frame s _ coord o).seqs]; simp⟩
      case trans => cases h
      case keyCode kc =>
        injection h with h; injection h with h1 h2; subst h1
        exact ⟨[], by rw [(armKeyCode_frame s _ kc coord o).seqs]; simp⟩
      case cancelSequences => simp [NoCancel] at hnc
      case custom id =>
        have hfr := armCustom_frame s (.custom id) id coord o
        cases hc : armCustom s (.custom id) id coord o with
        | mk s1 c1 =>
          rw [hc] at h hfr
          injection h with h; injection h with h1 h2; subst h1
          exact ⟨[], by rw [hfr.seqs]; simp⟩
      case sequence evs =>
        injection h with h; injection h with h1 h2; subst h1
        simp only [seqCount] at hroom
        obtain ⟨_, _, a2⟩ := armSequence_inv s (.sequence evs) evs coord o false hi hf
        exact ⟨_, a2 (by omega)⟩
      case repeatableSequence evs =>
        injection h with h; injection h with h1 h2; subst h1
        simp only [seqCount] at hroom
        obtain ⟨_, _, a2⟩ := armSequence_inv s (.repeatableSequence evs) evs coord o true hi hf
        exact ⟨_, a2 (by omega)⟩
      case multipleActions acs =>
        split at h
        · cases h
        · rename_i s1 c1 hr
          injection h with h; injection h with h1 h2; subst h1
          have hu := updateCoord_frame s coord
          simp only [seqCount] at hroom
          simp only [NoCancel] at hnc
          obtain ⟨st, hst⟩ := ih3 (updateCoord s coord) acs coord delay o ls .noEvent s1 c1 (hu.inv hi) hf hnc
            (by rw [hu.seqs]; exact hroom) hr
          exact ⟨st, by rw [(setRpt_frame s1 _).seqs, hst, hu.seqs]⟩
    · intro s acs coord delay o ls cu0 s' cu hi hf hnc hroom h
      cases acs with
      | nil =>
        simp only [doActions] at h
        injection h with h; injection h with h1 h2; subst h1
        exact ⟨[], by simp⟩
      | cons a rest =>
        simp only [MFragL] at hf
        simp only [NoCancelL] at hnc
        simp only [seqCountL] at hroom
        simp only [doActions] at h
        split at h
        · cases h
        · rename_i s1 c1 hr
          obtain ⟨st1, h1⟩ := ih1 s a coord delay o ls s1 c1 hi hf.1 hf.2.1 hnc.1 (by omega) hr
          have r1 := (frag_all fuel).1 s a coord delay o ls s1 c1 hi hf.1 hf.2.1 hr
          obtain ⟨st2, h2⟩ := ih3 s1 rest coord delay o ls (cu0.update c1) s' cu r1.inv hf.2.2 hnc.2
            (by have := r1.len; omega) h
          exact ⟨st1 ++ st2, by rw [h2, h1, List.append_assoc]⟩

/-! ### transparent keys resolve to actions of the fragment -/

theorem srcKey_mfrag {c : LCfg} (hc : CfgM c) (y : Nat) : MFrag (c.srcKey y) := by
  unfold LCfg.srcKey
  split
  · rename_i a hf
    exact hc.2 _ (List.mem_of_find?_eq_some hf)
  · trivial

theorem resolve_mfrag (s : Layout) (coord : Coord) (hc : CfgM s.cfg) :
    ∀ (ls : List Nat) (a : Action) (rest : List Nat), s.resolveCoord coord ls = .ok (a, rest) → MFrag a := by
  intro ls
  induction ls with
  | nil =>
    intro a rest h
    simp only [Layout.resolveCoord] at h
    split at h; · cases h
    split at h; · cases h
    split at h
    · split at h; · cases h
      injection h with h; injection h with h1 h2; subst h1
      exact srcKey_mfrag hc _
    · injection h with h; injection h with h1 h2; subst h1
      trivial
  | cons l rest' ih =>
    intro a rest h
    simp only [Layout.resolveCoord] at h
    split at h; · cases h
    split at h; · cases h
    have key : ∀ x, s.cfg.layerAction l coord = .ok x → MFrag x := by
      intro x hx
      unfold LCfg.layerAction at hx
      split at hx; · cases hx
      rename_i tbl htbl
      split at hx; · cases hx
      split at hx; · cases hx
      have hmem : tbl ∈ s.cfg.layers := List.mem_of_getElem? htbl
      split at hx
      · rename_i e a' hf
        injection hx with hx; subst hx
        exact hc.1 tbl hmem _ (List.mem_of_find?_eq_some hf)
      · injection hx with hx; subst hx
        trivial
    split at h
    · cases h
    · exact ih a rest h
    · rename_i x hnt hx
      injection h with h; injection h with h1 h2; subst h1
      exact key _ hx

theorem resolveCoord_congr {s t : Layout} (h : s.cfg = t.cfg) (coord : Coord) :
    ∀ ls, s.resolveCoord coord ls = t.resolveCoord coord ls := by
  intro ls
  induction ls with
  | nil => simp only [Layout.resolveCoord, h]
  | cons l rest ih => simp only [Layout.resolveCoord, h, ih]

/-! ### `process_sequences` changes nothing else -/

theorem fakePress_static (s : Layout) (kc : KeyCode) : Static s (fakePress s kc) := by
  unfold fakePress
  simp only []
  generalize hs1 : ({ s.pushState (.fakeKey kc) with histKeys := histPush (s.pushState (.fakeKey kc)).histKeys kc } : Layout) = s1
  have h1 : Static s s1 := by subst hs1; exact ⟨rfl, rfl, rfl, rfl, rfl, rfl, rfl, rfl⟩
  exact h1.trans (oshPress_frame s1 _).st

theorem applyEff_static (s : Layout) (e : Eff) : Static s (applyEff s e) := by
  cases e with
  | idle => exact Static.refl s
  | untap k => exact ⟨rfl, rfl, rfl, rfl, rfl, rfl, rfl, rfl⟩
  | perform ev =>
    cases ev with
    | press kc | tap kc => exact fakePress_static s kc
    | release kc =>
      exact ⟨rfl, rfl, rfl, rfl, rfl, handleRelease_keys s.oneshot (0, 0), rfl, rfl⟩
    | custom id => exact ⟨rfl, rfl, rfl, rfl, rfl, rfl, rfl, rfl⟩
    | noOp | delay _ | complete => exact Static.refl s

theorem putBack_static (s : Layout) (q : SeqState) : Static s (putBack s q) := by
  unfold putBack; split
  · exact ⟨rfl, rfl, rfl, rfl, rfl, rfl, rfl, rfl⟩
  · exact Static.refl s

theorem seqLoop_static : ∀ (n : Nat) (s : Layout), Static s (seqLoop n s) := by
  intro n
  induction n with
  | zero => intro s; exact Static.refl s
  | succ n ih =>
    intro s
    unfold seqLoop
    split
    · exact Static.refl s
    · rename_i q rest _
      have h1 : Static s { s with activeSequences := rest } := ⟨rfl, rfl, rfl, rfl, rfl, rfl, rfl, rfl⟩
      exact ((h1.trans (applyEff_static _ _)).trans (putBack_static _ _)).trans (ih _)

theorem restartRepeating_static (s : Layout) : Static s (restartRepeating s) := by
  unfold restartRepeating
  split
  · split
    · exact ⟨rfl, rfl, rfl, rfl, rfl, rfl, rfl, rfl⟩
    · exact Static.refl s
  · exact Static.refl s

theorem processSequences_static (s : Layout) : Static s (processSequences s) := by
  rw [processSequences_eq]
  exact (seqLoop_static _ s).trans (restartRepeating_static _)

/-! ### the parts of `tick` -/

theorem tickPre_spec {s : Layout} (hq : Quiet s) (hi : SeqInv s) :
    Static s (tickPre s) ∧ SeqInv (tickPre s) ∧
    (tickPre s).queue = s.queue.map (fun (q : Queued) => { q with since := min (q.since + 1) U16_MAX }) := by
  unfold tickPre
  simp only []
  split
  · rename_i tde heq
    have : s.tapDanceEager = some tde := heq
    rw [hq.tde] at this; cases this
  generalize hs1 : ({ s with queue := s.queue.map fun (q : Queued) => { q with since := min (q.since + 1) U16_MAX },
                              lptTapHoldTimeout := s.lptTapHoldTimeout - 1 } : Layout) = s1
  have h1 : Static s s1 := by subst hs1; exact ⟨rfl, rfl, rfl, rfl, rfl, rfl, rfl, rfl⟩
  have i1 : SeqInv s1 := by
    subst hs1; exact hi.frame rfl (fun _ h => h) (fun _ _ h => h)
  have hq1 : s1.queue = s.queue.map (fun (q : Queued) => { q with since := min (q.since + 1) U16_MAX }) := by
    subst hs1; rfl
  have h2 := processSequences_static s1
  have i2 := processSequences_inv s1 i1
  have hq2 : (processSequences s1).queue = s1.queue := by
    rw [processSequences_eq]
    have : ∀ n (t : Layout), (seqLoop n t).queue = t.queue := by
      intro n
      induction n with
      | zero => intro t; rfl
      | succ n ih =>
        intro t
        unfold seqLoop
        split
        · rfl
        · rename_i q rest _
          rw [ih]
          have : ∀ (u : Layout) (e : Eff), (applyEff u e).queue = u.queue := by
            intro u e
            cases e with
            | idle => rfl
            | untap k => rfl
            | perform ev => cases ev <;> rfl
          unfold putBack
          split
          · exact this _ _
          · exact this _ _
    unfold restartRepeating
    split
    · split <;> exact this _ _
    · exact this _ _
  refine ⟨?_, ?_, ?_⟩
  · exact (h1.trans h2).trans ⟨rfl, rfl, rfl, rfl, rfl, rfl, rfl, rfl⟩
  · exact i2.frame rfl (fun _ h => h) (fun _ _ h => h)
  · show (processSequences s1).queue = _
    rw [hq2, hq1]

theorem tickOneshot_quiet {s : Layout} (hq : Quiet s) : tickOneshot s = .ok (s, .noEvent) := by
  unfold tickOneshot OneShotState.tick
  simp [hq.osh]

theorem releaseStates_sub (f : Bool) (c : Coord) : ∀ (l : List St) (cu : CustomEv) (x : St),
    x ∈ (releaseStates f c l cu).1 → x ∈ l := by
  intro l
  induction l with
  | nil => intro cu x h; simp [releaseStates] at h
  | cons st rest ih =>
    intro cu x h
    unfold releaseStates at h
    split at h
    · exact List.mem_cons_of_mem _ (ih _ _ h)
    · simp only [] at h
      have hrel : ∀ st' cu', (st.release c cu) = (some st', cu') → st' = st := by
        intro st' cu' he
        unfold St.release at he
        split at he <;> (try split at he) <;> simp_all
      cases hr : st.release c cu with
      | mk r cu1 =>
        rw [hr] at h
        simp only [] at h
        cases hrest : releaseStates f c rest cu1 with
        | mk rest' cu2 =>
          rw [hrest] at h
          have ihh := ih cu1
          rw [hrest] at ihh
          cases r with
          | none => exact List.mem_cons_of_mem _ (ihh x h)
          | some st' =>
            simp only [List.mem_cons] at h
            rcases h with h | h
            · rw [h, hrel st' cu1 hr]; exact List.mem_cons_self
            · exact List.mem_cons_of_mem _ (ihh x h)

/-- a state that survives the release of coordinate `c` is not a repeating macro of `c` -/
theorem release_not_rep (st : St) (c : Coord) (cu : CustomEv) (st' : St) (cu' : CustomEv)
    (h : st.release c cu = (some st', cu')) (evs : List SeqEv) : st' ≠ .repeatingSequence evs c := by
  intro heq
  subst heq
  cases st with
  | repeatingSequence e c' =>
    simp only [St.release] at h
    split at h
    · cases h
    · rename_i hne
      injection h with h1 _
      injection h1 with h1
      injection h1 with _ h4
      subst h4
      simp at hne
  | normalKey kc c' f =>
    simp only [St.release] at h
    split at h
    · cases h
    · injection h with h1 _; injection h1 with h1; cases h1
  | layerModifier v c' =>
    simp only [St.release] at h
    split at h
    · cases h
    · injection h with h1 _; injection h1 with h1; cases h1
  | custom id c' =>
    simp only [St.release] at h
    split at h
    · cases h
    · injection h with h1 _; injection h1 with h1; cases h1
  | fakeKey kc => simp only [St.release] at h; injection h with h1 _; injection h1 with h1; cases h1
  | seqCustomPending id => simp only [St.release] at h; injection h with h1 _; injection h1 with h1; cases h1
  | seqCustomActive id => simp only [St.release] at h; injection h with h1 _; injection h1 with h1; cases h1
  | tombstone => simp only [St.release] at h; injection h with h1 _; injection h1 with h1; cases h1

/-- **releasing a key removes its repeating-macro state** -/
theorem releaseStates_no_rep (f : Bool) (c : Coord) : ∀ (l : List St) (cu : CustomEv) (evs : List SeqEv),
    St.repeatingSequence evs c ∉ (releaseStates f c l cu).1 := by
  intro l
  induction l with
  | nil => intro cu evs h; simp [releaseStates] at h
  | cons st rest ih =>
    intro cu evs h
    unfold releaseStates at h
    split at h
    · exact ih _ _ h
    · simp only [] at h
      cases hr : st.release c cu with
      | mk r cu1 =>
        rw [hr] at h
        simp only [] at h
        cases hrest : releaseStates f c rest cu1 with
        | mk rest' cu2 =>
          rw [hrest] at h
          have ihh := ih cu1 evs
          rw [hrest] at ihh
          cases r with
          | none => exact ihh h
          | some st' =>
            simp only [List.mem_cons] at h
            rcases h with h | h
            · exact release_not_rep st c cu st' cu1 hr evs h.symm
            · exact ihh h

theorem processSequenceCustom_frame (s : Layout) (cu : CustomEv) :
    Frame s (processSequenceCustom s cu).1 := by
  unfold processSequenceCustom
  split
  · exact Frame.refl s
  · have key : ∀ (l : List St) (x : St), x ∈ (processSequenceCustom.go cu l).1 →
        x ∈ l ∨ (∃ id, x = .seqCustomActive id) ∨ x = .tombstone := by
      intro l
      induction l with
      | nil => intro x h; simp [processSequenceCustom.go] at h
      | cons st rest ih =>
        intro x h
        cases st <;> simp only [processSequenceCustom.go, List.mem_cons] at h ⊢ <;>
          first
          | (rcases h with h | h
             · exact Or.inl (Or.inl h)
             · rcases ih x h with h | h
               · exact Or.inl (Or.inr h)
               · exact Or.inr h)
          | (rcases h with h | h
             · first | exact Or.inr (Or.inl ⟨_, h⟩) | exact Or.inr (Or.inr h)
             · exact Or.inl (Or.inr h))
    simp only []
    refine ⟨⟨rfl, rfl, rfl, rfl, rfl, rfl, rfl, rfl⟩, rfl, ?_, ?_⟩
    · intro k h
      rcases key _ _ h with h | ⟨id, h⟩ | h
      · exact (List.mem_filter.mp h).1
      · cases h
      · cases h
    · intro e c h
      rcases key _ _ h with h | ⟨id, h⟩ | h
      · exact (List.mem_filter.mp h).1
      · cases h
      · cases h

theorem processExtraWaitings_quiet {s : Layout} (h : s.extraWaiting = []) (cu : CustomEv) :
    ∃ s', processExtraWaitings s cu = .ok (s', cu) ∧ Frame s s' := by
  unfold processExtraWaitings
  split
  · exact ⟨s, rfl, Frame.refl s⟩
  · simp only [h, tickExtraWaitings, List.reverse_nil]
    exact ⟨_, rfl, ⟨⟨rfl, rfl, h.symm ▸ rfl, rfl, rfl, rfl, rfl, rfl⟩, rfl, fun _ h => h, fun _ _ h => h⟩⟩

/-! ### a whole tick, an event -/

theorem dequeue_spec (fuel : Nat) {s : Layout} (hc : CfgM s.cfg) (hq : Quiet s) (hi : SeqInv s) (q : Queued)
    (s' : Layout) (cu : CustomEv)
    (h : dequeue fuel s q = .ok (s', cu)) : Static s s' ∧ SeqInv s' := by
  cases fuel with
  | zero => simp [dequeue] at h
  | succ fuel =>
  simp only [dequeue] at h
  cases hev : q.ev with
  | release c =>
    rw [hev] at h
    simp only [] at h
    have hk := handleRelease_keys s.oneshot c
    generalize s.oneshot.handleRelease c = r at h hk
    obtain ⟨o, dr, ov⟩ := r
    simp only [] at h hk
    -- the states after the (up to two) release passes are among the old ones
    have hsub : ∀ x, x ∈ s'.states → x ∈ s.states := by
      intro x hx
      injection h with h; injection h with h1 h2
      subst h1
      simp only [] at hx
      cases dr <;> cases ov <;> simp only [Bool.false_eq_true, if_false, if_true] at hx
      · exact hx
      · exact releaseStates_sub _ _ _ _ _ hx
      · exact releaseStates_sub _ _ _ _ _ hx
      · exact releaseStates_sub _ _ _ _ _ (releaseStates_sub _ _ _ _ _ hx)
    injection h with h; injection h with h1 h2
    have hst : Static s s' := by subst h1; exact ⟨rfl, rfl, rfl, rfl, rfl, hk, rfl, rfl⟩
    have hseq : s'.activeSequences = s.activeSequences := by subst h1; rfl
    exact ⟨hst, hi.frame hseq (fun k hk' => hsub _ hk') (fun e c' hm => hsub _ hm)⟩
  | press c =>
    rw [hev] at h
    simp only [bind, Except.bind] at h
    cases hto : s.transOrder with
    | error e => rw [hto] at h; cases h
    | ok order =>
      rw [hto] at h
      simp only [hq.tde] at h
      cases fuel with
      | zero => simp [doAction] at h
      | succ fuel =>
      simp only [doAction] at h
      split at h
      · cases h
      · rename_i a ls hres
        have hp := prelude_frame s c
        have hf := resolve_mfrag s c hc order a ls hres
        have r := (frag_all fuel).2.1 (prelude s c) a c q.since false ls s' cu (hp.inv hi) hf h
        exact ⟨hp.st.trans r.st, r.inv⟩

/-- **one tick keeps the invariant** -/
theorem tick_inv {s : Layout} (hc : CfgM s.cfg) (hq : Quiet s) (hi : SeqInv s)
    (s' : Layout) (cu : CustomEv) (h : tick s = .ok (s', cu)) :
    Quiet s' ∧ SeqInv s' ∧ s'.cfg = s.cfg := by
  obtain ⟨p1, p2, p3⟩ := tickPre_spec hq hi
  have hq1 : Quiet (tickPre s) := hq.of_static p1
  unfold tick at h
  simp only [hq.aq, tickOneshot_quiet hq1] at h
  -- tickMain
  have hmain : ∀ s2 c2, tickMain (tickPre s) = .ok (s2, c2) → Static (tickPre s) s2 ∧ SeqInv s2 := by
    intro s2 c2 hm
    unfold tickMain at hm
    simp only [hq1.waiting, hq1.extra, List.isEmpty_nil, if_true] at hm
    split at hm
    · injection hm with hm; injection hm with h1 h2
      subst h1
      exact ⟨⟨rfl, hq1.waiting.symm, hq1.extra.symm, rfl, rfl, rfl, rfl, rfl⟩,
        p2.frame rfl (fun _ h => h) (fun _ _ h => h)⟩
    · split at hm
      · rename_i q rest hqueue
        have hs : Static (tickPre s) ((tickPre s).setQueue rest) := ⟨rfl, rfl, rfl, rfl, rfl, rfl, rfl, rfl⟩
        have hi' : SeqInv ((tickPre s).setQueue rest) := p2.frame rfl (fun _ h => h) (fun _ _ h => h)
        have := dequeue_spec FUEL (s := (tickPre s).setQueue rest) (by rw [hs.cfg, p1.cfg]; exact hc)
          (hq1.of_static hs) hi' q s2 c2 hm
        exact ⟨hs.trans this.1, this.2⟩
      · injection hm with hm; injection hm with h1 h2
        subst h1
        exact ⟨Static.refl _, p2⟩
  split at h
  · cases h
  · rename_i s2 c2 hm
    obtain ⟨m1, m2⟩ := hmain s2 c2 hm
    have hq2 : Quiet s2 := hq1.of_static m1
    obtain ⟨s3, e3, f3⟩ := processExtraWaitings_quiet hq2.extra (CustomEv.noEvent.update c2)
    rw [e3] at h
    simp only [] at h
    injection h with h
    have f4 := processSequenceCustom_frame s3 (CustomEv.noEvent.update c2)
    rw [h] at f4
    simp only [] at f4
    have hst := ((p1.trans m1).trans f3.st).trans f4.st
    exact ⟨hq.of_static hst, f4.inv (f3.inv m2), hst.cfg⟩

theorem flushWaitings_quiet : ∀ (l : List (Option Nat)) (fuel : Nat) (s s' : Layout), Quiet s →
    flushWaitings fuel s l = .ok s' → s' = s := by
  intro l
  induction l with
  | nil =>
    intro fuel s s' _ h
    cases fuel with
    | zero => simp [flushWaitings] at h
    | succ fuel => simp only [flushWaitings] at h; injection h with h; exact h.symm
  | cons i rest ih =>
    intro fuel s s' hq h
    cases fuel with
    | zero => simp [flushWaitings] at h
    | succ fuel =>
      simp only [flushWaitings, bind, Except.bind] at h
      have hw : waitingIntoHold fuel s i = .error .fuelOut ∨ waitingIntoHold fuel s i = .ok (s, .noEvent) := by
        cases fuel with
        | zero => exact Or.inl (by simp [waitingIntoHold])
        | succ fuel =>
          right
          cases i with
          | none => simp [waitingIntoHold, takeWaiting, hq.waiting]
          | some j => simp [waitingIntoHold, takeWaiting, hq.extra]
      rcases hw with hw | hw
      · rw [hw] at h; cases h
      · rw [hw] at h
        exact ih fuel s s' hq h

/-- **an event keeps the invariant**, also when the queue of 32 is full and the oldest event is
processed at once -/
theorem event_inv {s : Layout} (hc : CfgM s.cfg) (hq : Quiet s) (hi : SeqInv s) (e : Ev)
    (s' : Layout) (h : s.event e = .ok s') : Quiet s' ∧ SeqInv s' ∧ s'.cfg = s.cfg := by
  unfold Layout.event at h
  rw [FUEL_succ] at h
  -- the state with the input history updated, the queue still to be pushed
  have core : ∀ s0 : Layout, Frame s s0 →
      ∀ r : List Queued × Option Queued,
      (match r with
        | (q, ov) =>
          match ov with
          | none => (pure ({ s0 with queue := q } : Layout) : Except Crash Layout)
          | some overflow => do
            let s ← flushWaitings 3999 ({ s0 with queue := q } : Layout) (none :: (List.range EXTRA_WAITING_LEN).map some)
            let (s, _) ← dequeue 3999 s overflow
            pure s) = .ok s' →
      Quiet s' ∧ SeqInv s' ∧ s'.cfg = s.cfg := by
    intro s0 f0 r h
    obtain ⟨q, ov⟩ := r
    have f1 : Frame s ({ s0 with queue := q } : Layout) :=
      f0.trans ⟨⟨rfl, rfl, rfl, rfl, rfl, rfl, rfl, rfl⟩, rfl, fun _ h => h, fun _ _ h => h⟩
    have hq1 : Quiet ({ s0 with queue := q } : Layout) := hq.of_static f1.st
    cases ov with
    | none =>
      simp only [pure, Except.pure] at h
      injection h with h; subst h
      exact ⟨hq1, f1.inv hi, f1.st.cfg⟩
    | some overflow =>
      simp only [bind, Except.bind, pure, Except.pure] at h
      split at h
      · cases h
      · rename_i s1 hfl
        have := flushWaitings_quiet _ _ _ _ hq1 hfl
        subst this
        split at h
        · cases h
        · rename_i r hd
          obtain ⟨s2, c2⟩ := r
          injection h with h; subst h
          obtain ⟨d1, d2⟩ := dequeue_spec 3999 (by rw [f1.st.cfg]; exact hc) hq1 (f1.inv hi) overflow s2 c2 hd
          exact ⟨hq1.of_static d1, d2, d1.cfg.trans f1.st.cfg⟩
  cases e with
  | press c =>
    exact core { s with histInputs := histPush s.histInputs c }
      ⟨⟨rfl, rfl, rfl, rfl, rfl, rfl, rfl, rfl⟩, rfl, fun _ h => h, fun _ _ h => h⟩ _ h
  | release c => exact core s (Frame.refl s) _ h

/-! ### the cancellation glue (Model/MacroCancel.lean) -/

theorem cancelAll_static (l : Layout) : Static l (cancelAll l) := ⟨rfl, rfl, rfl, rfl, rfl, rfl, rfl, rfl⟩

structure KInv (k : KState) : Prop where
  quiet : Quiet k.lay
  inv : SeqInv k.lay

theorem KInv.cancel {k : KState} (h : KInv k) (d : Nat) : KInv { lay := cancelAll k.lay, cancelDur := d } :=
  ⟨h.quiet.of_static (cancelAll_static _), (cancelAll_inv k.lay).1⟩

theorem prePress_inv {k : KState} (h : KInv k) : KInv k.prePress ∧ k.prePress.lay.cfg = k.lay.cfg := by
  unfold KState.prePress
  split
  · exact ⟨h.cancel 0, rfl⟩
  · exact ⟨h, rfl⟩

theorem customEffects_inv (tbl : Nat → List CAct) (k : KState) (ce : CustomEv) (h : KInv k) :
    KInv (customEffects tbl k ce) ∧ (customEffects tbl k ce).lay.cfg = k.lay.cfg := by
  have key : ∀ (f : KState → CAct → KState),
      (∀ k a, KInv k → KInv (f k a) ∧ (f k a).lay.cfg = k.lay.cfg) →
      ∀ (l : List CAct) (k : KState), KInv k → KInv (l.foldl f k) ∧ (l.foldl f k).lay.cfg = k.lay.cfg := by
    intro f hf l
    induction l with
    | nil => intro k hk; exact ⟨hk, rfl⟩
    | cons a rest ih =>
      intro k hk
      obtain ⟨a1, a2⟩ := hf k a hk
      obtain ⟨b1, b2⟩ := ih (f k a) a1
      exact ⟨b1, b2.trans a2⟩
  cases ce with
  | noEvent => exact ⟨h, rfl⟩
  | press id =>
    refine key _ ?_ (tbl id) k h
    intro k a hk
    cases a <;> exact ⟨⟨hk.quiet, hk.inv⟩, rfl⟩
  | release id =>
    refine key _ ?_ (tbl id) k h
    intro k a hk
    cases a
    · exact ⟨hk.cancel 0, rfl⟩
    · exact ⟨hk, rfl⟩
    · exact ⟨hk, rfl⟩

theorem kpress_inv {k : KState} (hc : CfgM k.lay.cfg) (h : KInv k) (c : Coord)
    (k' : KState) (hp : k.press c = .ok k') : KInv k' ∧ k'.lay.cfg = k.lay.cfg := by
  unfold KState.press at hp
  obtain ⟨p1, p2⟩ := prePress_inv h
  simp only [] at hp
  split at hp
  · cases hp
  · rename_i l hl
    injection hp with hp; subst hp
    obtain ⟨e1, e2, e3⟩ := event_inv (p2 ▸ hc) p1.quiet p1.inv (.press c) l hl
    exact ⟨⟨e1, e2⟩, e3.trans p2⟩

theorem krelease_inv {k : KState} (hc : CfgM k.lay.cfg) (h : KInv k) (c : Coord)
    (k' : KState) (hp : k.release c = .ok k') : KInv k' ∧ k'.lay.cfg = k.lay.cfg := by
  unfold KState.release KState.rawEvent at hp
  split at hp
  · cases hp
  · rename_i l hl
    injection hp with hp; subst hp
    obtain ⟨e1, e2, e3⟩ := event_inv hc h.quiet h.inv (.release c) l hl
    exact ⟨⟨e1, e2⟩, e3⟩

theorem ktick_inv (tbl : Nat → List CAct) {k : KState} (hc : CfgM k.lay.cfg) (h : KInv k)
    (k' : KState) (keys : List KeyCode) (ht : k.tick tbl = .ok (k', keys)) :
    KInv k' ∧ k'.lay.cfg = k.lay.cfg := by
  unfold KState.tick at ht
  split at ht
  · cases ht
  · rename_i l ce hl
    obtain ⟨t1, t2, t3⟩ := tick_inv hc h.quiet h.inv l ce hl
    obtain ⟨c1, c2⟩ := customEffects_inv tbl { k with lay := l } ce ⟨t1, t2⟩
    injection ht with ht; injection ht with h1 h2
    subst h1
    exact ⟨⟨c1.quiet, c1.inv⟩, c2.trans t3⟩

end KVerif.Macro
