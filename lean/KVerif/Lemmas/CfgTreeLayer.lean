/-
Lemmas for C16 about the two layer-table fillers of `parse_layers`.
-/
import KVerif.Model.CfgTree
namespace KVerif.CfgTree

/-- first match in an association list keyed by position -/
def alookup {α} (j : Nat) : List (Nat × α) → Option α
  | [] => none
  | (k, a) :: rest => if k = j then some a else alookup j rest

theorem alookup_none_of_not_mem {α} (j : Nat) (l : List (Nat × α)) (h : j ∉ l.map (·.1)) :
    alookup j l = none := by
  induction l with
  | nil => rfl
  | cons p rest ih =>
    obtain ⟨k, a⟩ := p
    simp only [List.map_cons, List.mem_cons, not_or] at h
    simp only [alookup]
    rw [if_neg (fun hk => h.1 hk.symm)]
    exact ih h.2

theorem alookup_eq_some_iff {α} (j : Nat) (a : α) (l : List (Nat × α)) (hnd : (l.map (·.1)).Nodup) :
    alookup j l = some a ↔ (j, a) ∈ l := by
  induction l with
  | nil => simp [alookup]
  | cons p rest ih =>
    obtain ⟨k, b⟩ := p
    simp only [List.map_cons, List.nodup_cons] at hnd
    simp only [alookup, List.mem_cons, Prod.mk.injEq]
    by_cases hk : k = j
    · subst hk
      simp only [if_true, Option.some.injEq, true_and]
      constructor
      · intro h; exact Or.inl h.symm
      · intro h
        cases h with
        | inl h => exact h.symm
        | inr h =>
          exfalso; apply hnd.1
          exact List.mem_map.mpr ⟨(k, a), h, rfl⟩
    · simp only [if_neg hk]
      rw [ih hnd.2]
      constructor
      · intro h; exact Or.inr h
      · intro h
        cases h with
        | inl h => exact absurd h.1.symm hk
        | inr h => exact h

/-- permuting a duplicate-free association list does not change what it maps a position to -/
theorem alookup_perm {α} (j : Nat) (l1 l2 : List (Nat × α)) (hp : l1.Perm l2)
    (hnd : (l1.map (·.1)).Nodup) : alookup j l1 = alookup j l2 := by
  have hnd2 : (l2.map (·.1)).Nodup := (hp.map (·.1)).nodup_iff.mp hnd
  cases h : alookup j l1 with
  | some a =>
    have := (alookup_eq_some_iff j a l1 hnd).mp h
    exact ((alookup_eq_some_iff j a l2 hnd2).mpr (hp.mem_iff.mp this)).symm
  | none =>
    cases h2 : alookup j l2 with
    | none => rfl
    | some a =>
      have := (alookup_eq_some_iff j a l2 hnd2).mp h2
      have := (alookup_eq_some_iff j a l1 hnd).mpr (hp.mem_iff.mpr this)
      simp [h] at this

/-- `deflayerFill` as a lookup: position `j` holds the action written at the place of `j` in defsrc -/
theorem deflayerFill_apply {α} (order : List Nat) (acts : List α) (t : Table α) (j : Nat)
    (hnd : order.Nodup) :
    deflayerFill t order acts j = (alookup j (order.zip acts)).or (t j) := by
  induction order generalizing t acts with
  | nil => simp [deflayerFill, alookup]
  | cons o rest ih =>
    cases acts with
    | nil => simp [deflayerFill, alookup]
    | cons a acts' =>
      simp only [List.nodup_cons] at hnd
      simp only [deflayerFill, List.zip_cons_cons, alookup]
      rw [ih acts' (t.set o a) hnd.2]
      by_cases hj : o = j
      · subst hj
        have : alookup o (rest.zip acts') = none := by
          apply alookup_none_of_not_mem
          intro hm
          apply hnd.1
          have := List.mem_map.mp hm
          obtain ⟨⟨k, b⟩, hkb, hk⟩ := this
          simp only at hk; subst hk
          exact (List.of_mem_zip hkb).1
        simp [this, Table.set]
      · have hj' : ¬ j = o := fun h => hj h.symm
        simp [hj, hj', Table.set]

theorem fillDefault_apply {α} (a : α) (ps : List Nat) (t : Table α) (j : Nat) :
    fillDefault t a ps j = if (t j).isNone ∧ j ∈ ps then some a else t j := by
  induction ps generalizing t with
  | nil => simp [fillDefault]
  | cons p rest ih =>
    simp only [fillDefault]
    rw [ih]
    by_cases hp : (t p).isNone
    · simp only [hp, if_true]
      by_cases hj : j = p
      · subst hj; simp [Table.set, hp]
      · simp [Table.set, hj]
    · simp only [hp]
      by_cases hj : j = p
      · subst hj; simp [hp]
      · simp [hj]

def keyPairs {α} (ps : List (Nat × α)) : List (MapIn × α) := ps.map fun p => (MapIn.key p.1, p.2)

/-- a run of ordinary `key action` pairs with distinct, not yet used keys: each key receives its
action, nothing else changes -/
theorem layermapFill_keys {α} (order : List Nat) (n : Nat) (pu : Bool) (kps : List (Nat × α))
    (st : MapSt α) (hnd : (kps.map (·.1)).Nodup) (hdisj : ∀ k ∈ kps.map (·.1), k ∉ st.seen) :
    ∃ st', layermapFill order n pu st (keyPairs kps) = .ok st' ∧
      (∀ j, st'.table j = (alookup j kps).or (st.table j)) ∧
      st'.usedDefsrc = st.usedDefsrc ∧ st'.usedUnmapped = st.usedUnmapped ∧ st'.usedBoth = st.usedBoth ∧
      (∀ k, k ∈ st'.seen ↔ k ∈ kps.map (·.1) ∨ k ∈ st.seen) := by
  induction kps generalizing st with
  | nil => exact ⟨st, rfl, by simp [alookup], rfl, rfl, rfl, by simp⟩
  | cons p rest ih =>
    obtain ⟨k, a⟩ := p
    simp only [List.map_cons, List.nodup_cons] at hnd
    have hk : k ∉ st.seen := hdisj k (by simp)
    let st1 : MapSt α := { st with table := st.table.set k a, seen := k :: st.seen }
    have hd1 : ∀ k' ∈ rest.map (·.1), k' ∉ st1.seen := by
      intro k' hk' hmem
      simp only [st1, List.mem_cons] at hmem
      cases hmem with
      | inl h => subst h; exact hnd.1 hk'
      | inr h => exact hdisj k' (by simp [hk']) h
    obtain ⟨st', h1, h2, h3, h4, h5, h6⟩ := ih st1 hnd.2 hd1
    refine ⟨st', ?_, ?_, h3, h4, h5, ?_⟩
    · simp only [keyPairs, List.map_cons, layermapFill, layermapStep, hk, if_false]
      exact h1
    · intro j
      rw [h2 j]
      simp only [alookup, st1, Table.set]
      by_cases hj : k = j
      · subst hj
        have : alookup k rest = none := alookup_none_of_not_mem k rest hnd.1
        simp [this]
      · have hj' : ¬ j = k := fun h => hj h.symm
        simp [hj, hj']
    · intro k'
      rw [h6 k']
      simp only [st1, List.mem_cons, List.map_cons]
      constructor
      · rintro (h | h | h)
        · exact Or.inl (Or.inr h)
        · exact Or.inl (Or.inl h)
        · exact Or.inr h
      · rintro ((h | h) | h)
        · exact Or.inr (Or.inl h)
        · exact Or.inl h
        · exact Or.inr (Or.inr h)

theorem layermapFill_append {α} (order : List Nat) (n : Nat) (pu : Bool) (a b : List (MapIn × α))
    (st : MapSt α) :
    layermapFill order n pu st (a ++ b) =
      match layermapFill order n pu st a with
      | .error e => .error e
      | .ok st1 => layermapFill order n pu st1 b := by
  induction a generalizing st with
  | nil => rfl
  | cons p rest ih =>
    simp only [List.cons_append, layermapFill]
    cases layermapStep order n pu st p with
    | error e => rfl
    | ok st1 => exact ih st1


theorem alookup_append {α} (j : Nat) (l1 l2 : List (Nat × α)) :
    alookup j (l1 ++ l2) = (alookup j l1).or (alookup j l2) := by
  induction l1 with
  | nil => simp [alookup]
  | cons p rest ih =>
    obtain ⟨k, a⟩ := p
    simp only [List.cons_append, alookup]
    split <;> simp [ih]

theorem zip_keys_nodup {α} (order : List Nat) (acts : List α) (hnd : order.Nodup) :
    ((order.zip acts).map (·.1)).Nodup := by
  induction order generalizing acts with
  | nil => simp
  | cons o rest ih =>
    cases acts with
    | nil => simp
    | cons a acts' =>
      simp only [List.nodup_cons] at hnd
      simp only [List.zip_cons_cons, List.map_cons, List.nodup_cons]
      refine ⟨?_, ih acts' hnd.2⟩
      intro hm
      obtain ⟨⟨k, b⟩, hkb, hk⟩ := List.mem_map.mp hm
      simp only at hk; subst hk
      exact hnd.1 (List.of_mem_zip hkb).1

theorem exists_zip_of_mem {α} (order : List Nat) (acts : List α) (j : Nat) (hj : j ∈ order)
    (hlen : order.length ≤ acts.length) : ∃ a, (j, a) ∈ order.zip acts := by
  induction order generalizing acts with
  | nil => simp at hj
  | cons o rest ih =>
    cases acts with
    | nil => simp at hlen
    | cons a acts' =>
      simp only [List.length_cons, Nat.add_le_add_iff_right] at hlen
      simp only [List.mem_cons] at hj
      cases hj with
      | inl h => exact ⟨a, by simp [h]⟩
      | inr h =>
        obtain ⟨b, hb⟩ := ih acts' h hlen
        exact ⟨b, by simp [hb]⟩

/-- Writing a layer as `deflayermap` — the `key action` pairs of the deflayer in ANY order — fills
the same table. -/
theorem layermap_table {α} (order : List Nat) (acts : List α) (n : Nat) (pu : Bool)
    (ps : List (Nat × α)) (hnd : order.Nodup) (hperm : ps.Perm (order.zip acts)) :
    ∃ st, layermapFill order n pu { table := Table.empty } (keyPairs ps) = .ok st ∧
      st.table = deflayerFill Table.empty order acts := by
  have hz := zip_keys_nodup order acts hnd
  have hpn : (ps.map (·.1)).Nodup := (hperm.map (·.1)).nodup_iff.mpr hz
  obtain ⟨st, h1, h2, -⟩ := layermapFill_keys order n pu ps { table := Table.empty } hpn (by simp)
  refine ⟨st, h1, ?_⟩
  funext j
  rw [h2 j, deflayerFill_apply order acts _ j hnd, alookup_perm j ps _ hperm hpn]

/-- … and so does leaving out every key whose action is `d` and saying `_ d` (anywhere among the
pairs) instead. -/
theorem layermap_table_default {α} [DecidableEq α] (order : List Nat) (acts : List α) (n : Nat)
    (pu : Bool) (d : α) (ps1 ps2 : List (Nat × α)) (hnd : order.Nodup)
    (hlen : order.length ≤ acts.length)
    (hperm : (ps1 ++ ps2).Perm ((order.zip acts).filter (fun p => p.2 ≠ d))) :
    ∃ st, layermapFill order n pu { table := Table.empty }
        (keyPairs ps1 ++ (MapIn.anyDefsrc, d) :: keyPairs ps2) = .ok st ∧
      st.table = deflayerFill Table.empty order acts := by
  have hz := zip_keys_nodup order acts hnd
  have hkept : (((order.zip acts).filter (fun p => p.2 ≠ d)).map (·.1)).Nodup :=
    (List.Sublist.map _ (List.filter_sublist (l := order.zip acts))).nodup hz
  have hpn : ((ps1 ++ ps2).map (·.1)).Nodup := (hperm.map (·.1)).nodup_iff.mpr hkept
  rw [List.map_append, List.nodup_append] at hpn
  obtain ⟨hn1, hn2, hdis⟩ := hpn
  -- the pairs before `_`
  obtain ⟨st1, e1, t1, f1, f2, f3, s1⟩ :=
    layermapFill_keys order n pu ps1 { table := Table.empty } hn1 (by simp)
  -- `_ d`
  obtain ⟨st2, e2, ht2, hs2⟩ : ∃ st2, layermapStep order n pu st1 (MapIn.anyDefsrc, d) = .ok st2 ∧
      st2.table = fillDefault st1.table d order ∧ st2.seen = st1.seen := by
    have hA : st1.usedDefsrc = false := f1
    have hB : st1.usedBoth = false := f3
    refine ⟨{ st1 with table := fillDefault st1.table d order, usedDefsrc := true }, ?_, rfl, rfl⟩
    simp [layermapStep, hA, hB]
  -- the pairs after `_`
  have hd2 : ∀ k ∈ ps2.map (·.1), k ∉ st2.seen := by
    intro k hk hmem
    have : k ∈ st1.seen := hs2 ▸ hmem
    rw [s1 k] at this
    cases this with
    | inl h => exact hdis k h k hk rfl
    | inr h => simp at h
  obtain ⟨st3, e3, t3, -⟩ := layermapFill_keys order n pu ps2 st2 hn2 hd2
  refine ⟨st3, ?_, ?_⟩
  · rw [layermapFill_append, e1]
    simp only [layermapFill, e2]
    exact e3
  · funext j
    rw [t3 j, deflayerFill_apply order acts _ j hnd]
    have hk : alookup j (ps1 ++ ps2) = alookup j ((order.zip acts).filter (fun p => p.2 ≠ d)) :=
      alookup_perm j _ _ hperm (by
        rw [List.map_append, List.nodup_append]; exact ⟨hn1, hn2, hdis⟩)
    rw [alookup_append] at hk
    have t2 : st2.table j = if (st1.table j).isNone ∧ j ∈ order then some d else st1.table j := by
      rw [ht2]; exact fillDefault_apply d order st1.table j
    rw [t2, t1 j]
    simp only [Table.empty, Option.or_none]
    cases h2 : alookup j ps2 with
    | some a =>
      -- then `j` is not among the first pairs
      have hj1 : alookup j ps1 = none := by
        apply alookup_none_of_not_mem
        intro hm
        have : j ∈ ps2.map (·.1) :=
          List.mem_map.mpr ⟨(j, a), (alookup_eq_some_iff j a ps2 hn2).mp h2, rfl⟩
        exact hdis j hm j this rfl
      rw [hj1, h2] at hk
      have hm := (alookup_eq_some_iff j a _ hkept).mp hk.symm
      have hz' := (List.mem_filter.mp hm).1
      simp [(alookup_eq_some_iff j a _ hz).mpr hz']
    | none =>
      rw [h2] at hk
      simp only [Option.or_none, Option.none_or] at hk ⊢
      cases h1 : alookup j ps1 with
      | some a =>
        rw [h1] at hk
        have hm := (alookup_eq_some_iff j a _ hkept).mp hk.symm
        have hz' := (List.mem_filter.mp hm).1
        simp [(alookup_eq_some_iff j a _ hz).mpr hz']
      | none =>
        rw [h1] at hk
        by_cases hj : j ∈ order
        · obtain ⟨a, ha⟩ := exists_zip_of_mem order acts j hj hlen
          have hza := (alookup_eq_some_iff j a _ hz).mpr ha
          by_cases had : a = d
          · subst had; simp [hj, hza]
          · exfalso
            have : (j, a) ∈ (order.zip acts).filter (fun p => p.2 ≠ d) :=
              List.mem_filter.mpr ⟨ha, by simpa using had⟩
            have := (alookup_eq_some_iff j a _ hkept).mpr this
            rw [this] at hk; simp at hk
        · have : alookup j (order.zip acts) = none := by
            apply alookup_none_of_not_mem
            intro hm
            obtain ⟨⟨k, b⟩, hkb, hk'⟩ := List.mem_map.mp hm
            simp only at hk'; subst hk'
            exact hj (List.of_mem_zip hkb).1
          simp [hj, this]

end KVerif.CfgTree
