/-
C01 helper lemmas, part 7: quiescence on the combined fragment of part 6 (`QuiesceUnion.lean`):
the third stage of a tick (the undecided tap-hold key decides - while one-shot keys may be active -
or one queued event is processed), whole ticks, events, runs, the bound, and totality (through the
no-crash invariant `NCF.NC` of C02).
-/
import KVerif.Lemmas.QuiesceUnion
namespace KVerif.QU
open KVerif.L KVerif.C06 KVerif.Quiesce

/-! ## the one-shot operations of a press and the bounds -/

theorem oshOpT_keeps {B d : Nat} {o o' : OneShotState} {c : Coord} {ov : Option Coord} (op : OshOpT B o c o' ov)
    (hi : o.ticksToIgnoreEvents = 0) (hd : o.pauseInputProcessingDelay = d)
    (hp : o.pauseInputProcessingTicks ≤ d) (hl : oshLoad o ≤ B + 1) :
    o'.ticksToIgnoreEvents = 0 ∧ o'.pauseInputProcessingDelay = d ∧ o'.pauseInputProcessingTicks ≤ d ∧
    oshLoad o' ≤ B + 1 ∧ (∀ x ∈ o.releasedKeys, x ∈ o'.releasedKeys ∨ x = c) ∧
    ((o.keys = [] → o.releasedKeys = [] ∧ o.releaseOnNextTick = false) →
      (o'.keys = [] → o'.releasedKeys = [] ∧ o'.releaseOnNextTick = false)) := by
  cases op with
  | other =>
    obtain ⟨f1, f2, f3, f4, _, f6⟩ := handlePress_other_fields o c
    obtain ⟨l1, l2, l3⟩ := handlePress_other_load o c hi
    refine ⟨f4.trans hi, f6.trans hd, ?_, Nat.le_trans l1 hl, fun x hx => Or.inl (f2 ▸ hx),
      fun hidle hk => by rw [f2, f3]; exact hidle (f1 ▸ hk)⟩
    rcases l2 with l2 | l2 <;> rw [l2] <;> omega
  | activate T v hT =>
    obtain ⟨a1, _, _, a4, a5, a6, _, _⟩ := activate_fields o c T v
    obtain ⟨l1, l2, l3⟩ := activate_load o c T v
    refine ⟨a4.trans hi, a5.trans hd, by rw [l2]; exact hp, by omega, fun x hx => ?_, fun _ hk => absurd hk a1⟩
    rw [a6]
    exact (handlePress_osk_fields o c).2.2.2.1 x hx
  | skip => exact ⟨hi, hd, hp, hl, fun x hx => Or.inl hx, fun hidle => hidle⟩

/-! ## the tick on which the tap-hold key is decided -/

theorem after_decision_U {T I B d : Nat} {s : Layout} {down : List Coord} (h : UInv T I B d s down) (w : Waiting)
    (hw : s.waiting = some w) (base : Layout) (pz : Nat) (hb : Base s base pz) (hpz : pz ≤ d) (a : Action)
    (ha : Simple a) :
    UInv T I B d (simpleArm (prelude base w.coord) a w.coord false) down ∧
    (simpleArm (prelude base w.coord) a w.coord false).cfg = s.cfg ∧
    (simpleArm (prelude base w.coord) a w.coord false).waiting = none ∧
    (simpleArm (prelude base w.coord) a w.coord false).queue = s.queue ∧
    (simpleArm (prelude base w.coord) a w.coord false).lptTapHoldTimeout ≤ s.lptTapHoldTimeout ∧
    oshLoad (simpleArm (prelude base w.coord) a w.coord false).oneshot ≤ oshLoad s.oneshot := by
  obtain ⟨p1, p2, p3, p4⟩ := prelude_spec base w.coord
  have sp := simpleArm_spec (prelude base w.coord) a ha w.coord false
  have ad : Adds w.coord base (simpleArm (prelude base w.coord) a w.coord false) :=
    (prelude_adds base w.coord).trans sp.adds
  have hlpt : (simpleArm (prelude base w.coord) a w.coord false).lptTapHoldTimeout ≤ base.lptTapHoldTimeout := by
    rw [simpleArm_lpt]; exact prelude_lpt _ _
  have hosh : (simpleArm (prelude base w.coord) a w.coord false).oneshot =
      (({ s.oneshot with pauseInputProcessingTicks := pz } : OneShotState).handlePress (.other w.coord)).1 := by
    rw [sp.osh, p2, hb.osh]
    simp only [Bool.false_eq_true, if_false]
  obtain ⟨f1, f2, f3, f4, _, f6⟩ :=
    handlePress_other_fields ({ s.oneshot with pauseInputProcessingTicks := pz } : OneShotState) w.coord
  obtain ⟨l1, l2, l3⟩ :=
    handlePress_other_load ({ s.oneshot with pauseInputProcessingTicks := pz } : OneShotState) w.coord h.ignore
  have fr : Frame base (simpleArm (prelude base w.coord) a w.coord false) := p1.trans sp.frame
  have hq : (simpleArm (prelude base w.coord) a w.coord false).queue = s.queue :=
    (sp.queue.trans p3).trans hb.frame.queue
  have hcfg : (simpleArm (prelude base w.coord) a w.coord false).cfg = s.cfg := fr.cfg.trans hb.frame.cfg
  have hwn : (simpleArm (prelude base w.coord) a w.coord false).waiting = none := fr.waiting.trans hb.waiting
  obtain ⟨_, w3⟩ := h.wok w hw
  generalize simpleArm (prelude base w.coord) a w.coord false = s3 at ad hlpt hosh fr hq hcfg hwn
  have hload : oshLoad s3.oneshot ≤ oshLoad s.oneshot := by rw [hosh]; exact l1
  refine ⟨⟨fr.extra.trans (hb.frame.extra.trans h.extra), fr.tde.trans (hb.frame.tde.trans h.tde),
    fr.aq.trans (hb.frame.aq.trans h.aq), fr.seqs.trans (hb.frame.seqs.trans h.seqs), ?_, ?_, ?_, ?_, ?_,
    (fun w' hw' => by rw [hwn] at hw'; cases hw'), hcfg ▸ h.cfg, hcfg ▸ h.bound, hq ▸ h.qlen, hq ▸ h.qwf, ?_, ?_,
    Nat.le_trans (Nat.le_trans hlpt hb.lpt) h.lpt⟩, hcfg, hwn, hq, Nat.le_trans hlpt hb.lpt, hload⟩
  · intro st hst
    rcases ad.new st hst with g | g
    · exact h.states st (hb.states ▸ g)
    · exact g.2
  · rw [hosh]; exact f4.trans h.ignore
  · rw [hosh]; exact f6.trans h.delay
  · rw [hosh]
    rcases l2 with l2 | l2
    · rw [l2]; exact hpz
    · rw [l2]; exact Nat.le_of_eq h.delay
  · exact Nat.le_trans hload h.load
  · intro hk
    rw [hosh] at hk ⊢
    rw [f2, f3]
    exact h.idle (f1 ▸ hk)
  · intro st hst c hc
    rw [hq, hosh, f2]
    rcases ad.new st hst with g | g
    · exact h.owned st (hb.states ▸ g) c hc
    · have : c = w.coord := by
        have := g.1; rw [hc] at this; injection this
      subst this
      rcases w3 with g1 | g1
      · exact Or.inl g1
      · exact Or.inr (Or.inr g1)

theorem tapPost_uinv {T I B d : Nat} {s : Layout} {down : List Coord} (h : UInv T I B d s down) (hw : s.waiting = none) :
    UInv T I B d (tapPost s) down :=
  ⟨h.extra, h.tde, h.aq, h.seqs, h.states, h.ignore, h.delay,
   (by show s.oneshot.pauseInputProcessingDelay ≤ d; rw [h.delay]; exact Nat.le_refl _), h.load,
   (fun w hw' => by rw [show (tapPost s).waiting = s.waiting from rfl, hw] at hw'; cases hw'),
   h.cfg, h.bound, h.qlen, h.qwf, h.idle, h.owned, h.lpt⟩

/-! ## third stage of a tick -/

theorem UInv.main {T I B d : Nat} {s : Layout} {down : List Coord} (h : UInv T I B d s down) (s2 : Layout)
    (c2 : CustomEv) (hm : tickMain s = .ok (s2, c2)) :
    UInv T I B d s2 down ∧ c2 = .noEvent ∧ s2.cfg = s.cfg ∧
    (down = [] → uPot T I B d s2 + 1 ≤ uPot T I B d s ∨
      (s.queue = [] ∧ s.waiting = none ∧ s.oneshot.pauseInputProcessingTicks = 0 ∧ s2 = s)) := by
  cases hw : s.waiting with
  | some w =>
    obtain ⟨wk, wr⟩ := h.wok w hw
    obtain ⟨cfgc, hc⟩ := wk.cfg
    rw [tickMain_waiting_eq s w cfgc hw hc] at hm
    have hf := C05.handleHoldTap_fields { w with timeout := w.timeout - 1, ticks := min (w.ticks + 1) U16_MAX } cfgc s.queue
    have hnn := C05.handleHoldTap_ne_noOp { w with timeout := w.timeout - 1, ticks := min (w.ticks + 1) U16_MAX } cfgc s.queue
    have hrel := handleHoldTap_release { w with timeout := w.timeout - 1, ticks := min (w.ticks + 1) U16_MAX } cfgc s.queue
    generalize handleHoldTap { w with timeout := w.timeout - 1, ticks := min (w.ticks + 1) U16_MAX } cfgc s.queue = res at hm hf hnn hrel
    obtain ⟨w1, r⟩ := res
    obtain ⟨f1, f2, f3, f4, f5, f6, f7, f8, f9⟩ := hf
    simp only at f1 f2 f3 f4 f5 f6 f7 f8 f9 hm hnn hrel
    have hP0 : uPot T I B d s = queueLoad (pressW T I B d) s.queue + (w.timeout + d + 1) +
        s.oneshot.pauseInputProcessingTicks + s.lptTapHoldTimeout + oshLoad s.oneshot := by
      unfold uPot; rw [hw, wLoad_some]
    cases r with
    | none =>
      simp only [Option.map_none, applyWaitingAction] at hm
      injection hm with hm; injection hm with h1 h2; subst h1
      refine ⟨⟨h.extra, h.tde, h.aq, h.seqs, h.states, h.ignore, h.delay, h.pause, h.load, ?_, h.cfg, h.bound, h.qlen,
        h.qwf, h.idle, h.owned, h.lpt⟩, h2.symm, rfl, ?_⟩
      · intro w' hw'
        have : w' = w1 := by injection hw' with hw'; exact hw'.symm
        subst this
        exact ⟨⟨⟨cfgc, f2.trans hc⟩, f5 ▸ wk.hold, f6 ▸ wk.tap, f7 ▸ wk.to, by rw [f1]; have := wk.timeout; omega⟩,
          by rw [f3]; exact wr⟩
      · intro hd
        subst hd
        left
        have hr : ∃ x ∈ s.queue, x.ev = .release w.coord := by
          rcases wr with g | g
          · cases g
          · exact g
        have hpos : 0 < w.timeout - 1 := hrel hr rfl
        rw [hP0]
        show queueLoad (pressW T I B d) s.queue + wLoad d (some w1) + s.oneshot.pauseInputProcessingTicks +
          s.lptTapHoldTimeout + oshLoad s.oneshot + 1 ≤ _
        rw [wLoad_some, f1]
        omega
    | some a =>
      simp only [Option.map_some] at hm
      -- the three decisions share the conclusion
      have fin : ∀ (base : Layout) (pz : Nat) (act : Action), Base s base pz → pz ≤ d → Simple act →
          ∀ (post : Layout → Layout), (∀ t, UInv T I B d t down → t.waiting = none → UInv T I B d (post t) down) →
          (∀ t, UInv T I B d t down → (post t).cfg = t.cfg ∧ (post t).queue = t.queue ∧
            (post t).waiting = t.waiting ∧ (post t).lptTapHoldTimeout = t.lptTapHoldTimeout ∧
            oshLoad (post t).oneshot = oshLoad t.oneshot) →
          s2 = post (simpleArm (prelude base w.coord) act w.coord false) →
          UInv T I B d s2 down ∧ s2.cfg = s.cfg ∧ (down = [] → uPot T I B d s2 + 1 ≤ uPot T I B d s) := by
        intro base pz act hb hpz hact post hpost hpf hs2
        obtain ⟨a1, a2, a3, a4, a5, a6⟩ := after_decision_U h w hw base pz hb hpz act hact
        obtain ⟨q1, q2, q3, q4, q5⟩ := hpf (simpleArm (prelude base w.coord) act w.coord false) a1
        have hfin := hpost _ a1 a3
        subst hs2
        refine ⟨hfin, q1.trans a2, fun _ => ?_⟩
        rw [hP0]
        unfold uPot
        rw [q2, a4, q3, a3, wLoad_none, q4, q5]
        have := hfin.pause
        omega
      cases a with
      | hold =>
        rw [apply_hold s w1 (f5 ▸ wk.hold)] at hm
        injection hm with hm; injection hm with h1 h2
        have := fin (holdPrep s.clearWaiting w1) d w.hold (h.delay ▸ holdPrep_base s w1) (Nat.le_refl _) wk.hold id
          (fun t ht _ => ht) (fun t _ => ⟨rfl, rfl, rfl, rfl, rfl⟩) (by rw [← h1, f3, f5]; rfl)
        exact ⟨this.1, h2.symm, this.2.1, fun hd => Or.inl (this.2.2 hd)⟩
      | tap =>
        rw [apply_tap s w1 (f6 ▸ wk.tap)] at hm
        injection hm with hm; injection hm with h1 h2
        have := fin s.clearWaiting s.oneshot.pauseInputProcessingTicks w.tap (clearWaiting_base s) h.pause wk.tap tapPost
          (fun t ht hw' => tapPost_uinv ht hw') (fun t _ => ⟨rfl, rfl, rfl, rfl, rfl⟩) (by rw [← h1, f3, f6])
        exact ⟨this.1, h2.symm, this.2.1, fun hd => Or.inl (this.2.2 hd)⟩
      | timeout =>
        rw [apply_timeout s w1 (f7 ▸ wk.to)] at hm
        injection hm with hm; injection hm with h1 h2
        have := fin (timeoutPrep s.clearWaiting w1) s.oneshot.pauseInputProcessingTicks w.timeoutAction
          (timeoutPrep_base s w1) h.pause wk.to id (fun t ht _ => ht) (fun t _ => ⟨rfl, rfl, rfl, rfl, rfl⟩)
          (by rw [← h1, f3, f7]; rfl)
        exact ⟨this.1, h2.symm, this.2.1, fun hd => Or.inl (this.2.2 hd)⟩
      | noOp => exact absurd rfl hnn
  | none =>
    have hP0 : uPot T I B d s = queueLoad (pressW T I B d) s.queue + 0 + s.oneshot.pauseInputProcessingTicks +
        s.lptTapHoldTimeout + oshLoad s.oneshot := by
      unfold uPot; rw [hw, wLoad_none]
    have hwn : ∀ {t : Layout}, t.waiting = s.waiting → ∀ w', t.waiting = some w' →
        WOK T w' ∧ (w'.coord ∈ down ∨ ∃ x ∈ t.queue, x.ev = .release w'.coord) := by
      intro t ht w' hw'
      rw [ht, hw] at hw'; cases hw'
    by_cases hp : 0 < s.oneshot.pauseInputProcessingTicks
    · rw [tickMain_paused hw h.extra hp] at hm
      injection hm with hm; injection hm with h1 h2; subst h1
      refine ⟨⟨h.extra, h.tde, h.aq, h.seqs, h.states, h.ignore, h.delay, ?_, h.load, hwn rfl, h.cfg, h.bound, h.qlen,
        h.qwf, h.idle, h.owned, h.lpt⟩, h2.symm, rfl, fun _ => Or.inl ?_⟩
      · show s.oneshot.pauseInputProcessingTicks - 1 ≤ d
        have := h.pause; omega
      · rw [hP0]
        show queueLoad (pressW T I B d) s.queue + wLoad d s.waiting + (s.oneshot.pauseInputProcessingTicks - 1) +
          s.lptTapHoldTimeout + oshLoad s.oneshot + 1 ≤ _
        rw [hw, wLoad_none]; omega
    · have hp0 : s.oneshot.pauseInputProcessingTicks = 0 := by omega
      cases hq : s.queue with
      | nil =>
        rw [tickMain_empty hw h.extra hp0 hq] at hm
        injection hm with hm; injection hm with h1 h2; subst h1
        exact ⟨h, h2.symm, rfl, fun _ => Or.inr ⟨rfl, rfl, hp0, rfl⟩⟩
      | cons q rest =>
        rw [tickMain_pops hw h.extra hp0 q rest hq] at hm
        have hwf := h.qwf
        rw [hq] at hwf
        have hlen : rest.length < QUEUE_SIZE := by
          have := h.qlen; rw [hq] at this; simp only [List.length_cons] at this; omega
        obtain ⟨ev, n⟩ := q
        cases ev with
        | release c =>
          rw [dequeue_release_calm (s := s.setQueue rest) h.states c n] at hm
          injection hm with hm; injection hm with h1 h2; subst h1
          obtain ⟨l1, l2, l3⟩ := handleRelease_load s.oneshot c
          have inRest : ∀ c', c' ≠ c → (∃ x ∈ s.queue, x.ev = .release c') → ∃ x ∈ rest, x.ev = .release c' := by
            intro c' hne ⟨x, hx, hxe⟩
            rw [hq] at hx
            rcases List.mem_cons.mp hx with hx | hx
            · subst hx; injection hxe with hxe; exact absurd hxe.symm hne
            · exact ⟨x, hx, hxe⟩
          -- the potential
          have hpot : uPot T I B d ({ s.setQueue rest with oneshot := (s.oneshot.handleRelease c).1, states := afterRelease s.states c (s.oneshot.handleRelease c).2.1 (s.oneshot.handleRelease c).2.2 } : Layout)
              + 1 ≤ uPot T I B d s := by
            rw [hP0, hq, queueLoad_cons]
            show queueLoad (pressW T I B d) rest + wLoad d s.waiting + (s.oneshot.handleRelease c).1.pauseInputProcessingTicks +
              s.lptTapHoldTimeout + oshLoad (s.oneshot.handleRelease c).1 + 1 ≤ _
            rw [hw, wLoad_none, l2]
            have : evW (pressW T I B d) ⟨.release c, n⟩ = 1 := rfl
            omega
          refine ⟨?_, h2.symm, rfl, fun _ => Or.inl hpot⟩
          have hS : s.setQueue rest = { s with queue := rest } := rfl
          rw [hS]
          simp only []
          have hbase : ∀ (o : OneShotState) (sts : List St), o.ticksToIgnoreEvents = 0 → o.pauseInputProcessingDelay = d →
              o.pauseInputProcessingTicks ≤ d → oshLoad o ≤ B + 1 → (∀ st ∈ sts, StOK st) →
              (o.keys = [] → o.releasedKeys = [] ∧ o.releaseOnNextTick = false) →
              (∀ st ∈ sts, ∀ c', st.coord = some c' → c' ∈ down ∨ c' ∈ o.releasedKeys ∨ ∃ x ∈ rest, x.ev = .release c') →
              UInv T I B d ({ s with queue := rest, oneshot := o, states := sts } : Layout) down :=
            fun o sts g1 g2 g3 g4 g5 g6 g7 =>
              ⟨h.extra, h.tde, h.aq, h.seqs, g5, g1, g2, g3, g4, hwn rfl, h.cfg, h.bound, Nat.le_of_lt hlen, hwf.2, g6, g7, h.lpt⟩
          have hign : (s.oneshot.handleRelease c).1.ticksToIgnoreEvents = 0 := by
            by_cases hk : s.oneshot.keys = []
            · rw [handleRelease_inactive _ c hk]; exact h.ignore
            · by_cases hcc : s.oneshot.keys.contains c = true
              · rw [handleRelease_active _ c hcc]; exact h.ignore
              · rw [handleRelease_other _ c hk (by simpa using hcc)]; exact h.ignore
          refine hbase _ _ hign (l3.trans h.delay) (l2 ▸ h.pause) (Nat.le_trans l1 h.load) ?_ ?_ ?_
          · intro st hst
            unfold afterRelease at hst
            simp only [] at hst
            split at hst <;> split at hst
            all_goals first
              | exact h.states st (List.mem_filter.mp (List.mem_filter.mp hst).1).1
              | exact h.states st (List.mem_filter.mp hst).1
              | exact h.states st hst
          · by_cases hk : s.oneshot.keys = []
            · rw [handleRelease_inactive _ c hk]; exact h.idle
            · by_cases hcc : s.oneshot.keys.contains c = true
              · rw [handleRelease_active _ c hcc]; exact fun hk' => absurd hk' hk
              · rw [handleRelease_other _ c hk (by simpa using hcc)]; exact fun hk' => absurd hk' hk
          · by_cases hk : s.oneshot.keys = []
            · rw [handleRelease_inactive _ c hk]
              simp only [afterRelease, if_true]
              intro st hst c' hc'
              obtain ⟨m1, m2⟩ := List.mem_filter.mp hst
              have hne : c' ≠ c := by
                intro hcc; subst hcc; simp [hc'] at m2
              rcases h.owned st m1 c' hc' with g | g | g
              · exact Or.inl g
              · exact Or.inr (Or.inl g)
              · exact Or.inr (Or.inr (inRest c' hne g))
            · by_cases hcc : s.oneshot.keys.contains c = true
              · rw [handleRelease_active _ c hcc]
                simp only [afterRelease, Bool.false_eq_true, if_false]
                have hnew : c ∈ (pushBackWrap ONE_SHOT_MAX_ACTIVE s.oneshot.releasedKeys c).1 :=
                  mem_pushBackWrap_new _ (by decide) _ _
                have hold := mem_pushBackWrap_old ONE_SHOT_MAX_ACTIVE s.oneshot.releasedKeys c
                generalize pushBackWrap ONE_SHOT_MAX_ACTIVE s.oneshot.releasedKeys c = pr at hnew hold
                obtain ⟨rk, ov⟩ := pr
                simp only at hnew hold ⊢
                have owned' : ∀ st ∈ s.states, ∀ c', st.coord = some c' → ov ≠ some c' →
                    c' ∈ down ∨ c' ∈ rk ∨ ∃ x ∈ rest, x.ev = .release c' := by
                  intro st hst c' hc' hov
                  rcases h.owned st hst c' hc' with g | g | g
                  · exact Or.inl g
                  · rcases hold c' g with g2 | g2
                    · exact Or.inr (Or.inl g2)
                    · exact absurd g2 hov
                  · by_cases hne : c' = c
                    · subst hne; exact Or.inr (Or.inl hnew)
                    · exact Or.inr (Or.inr (inRest c' hne g))
                cases ov with
                | none =>
                  simp only
                  exact fun st hst c' hc' => owned' st hst c' hc' (by simp)
                | some c2 =>
                  simp only
                  intro st hst c' hc'
                  obtain ⟨m1, m2⟩ := List.mem_filter.mp hst
                  refine owned' st m1 c' hc' ?_
                  intro hov; injection hov with hov; subst hov; simp [hc'] at m2
              · have hcc' : s.oneshot.keys.contains c = false := by simpa using hcc
                rw [handleRelease_other _ c hk hcc']
                simp only [afterRelease, if_true]
                intro st hst c' hc'
                obtain ⟨m1, m2⟩ := List.mem_filter.mp hst
                have hne : c' ≠ c := by
                  intro hcc; subst hcc; simp [hc'] at m2
                rcases h.owned st m1 c' hc' with g | g | g
                · exact Or.inl g
                · exact Or.inr (Or.inl g)
                · exact Or.inr (Or.inr (inRest c' hne g))
        | press c =>
          obtain ⟨r1, r2⟩ := dequeue_press_U (T := T) (I := I) (B := B) (s := s.setQueue rest) h.cfg h.bound h.tde hw hlen
            c n s2 c2 hm
          obtain ⟨ov, op, hqq⟩ := r2.osh
          have hos : (s.setQueue rest).oneshot = s.oneshot := rfl
          rw [hos] at op
          obtain ⟨k1, k2, k3, k4, k5, k6⟩ := oshOpT_keeps op h.ignore h.delay h.pause h.load
          have hhead : c ∈ down ∨ ∃ x ∈ rest, x.ev = .release c := hwf.1
          have hq' : s2.queue = rest ++ ovq ov := hqq
          have inRest : ∀ c', (∃ x ∈ rest, x.ev = .release c') → ∃ x ∈ rest ++ ovq ov, x.ev = .release c' :=
            fun c' ⟨x, hx, hxe⟩ => ⟨x, List.mem_append_left _ hx, hxe⟩
          have hlpt2 : s2.lptTapHoldTimeout ≤ max s.lptTapHoldTimeout I := by
            have e : (s.setQueue rest).lptTapHoldTimeout = s.lptTapHoldTimeout := rfl
            rcases r2.wait with ⟨_, g⟩ | ⟨_, _, _, _, g⟩
            · rw [e] at g; omega
            · omega
          have hwl2 : wLoad d s2.waiting ≤ T + d + 1 := by
            rcases r2.wait with ⟨g, _⟩ | ⟨w'', g1, _, g3, _⟩
            · rw [g, wLoad_none]; exact Nat.zero_le _
            · rw [g1, wLoad_some]; have := g3.timeout; omega
          refine ⟨⟨r2.frame.extra.trans h.extra, r2.frame.tde.trans h.tde, r2.frame.aq.trans h.aq,
            r2.frame.seqs.trans h.seqs, ?_, k1, k2, k3, k4, ?_, r2.frame.cfg ▸ h.cfg, r2.frame.cfg ▸ h.bound, ?_, ?_, k6 h.idle,
            ?_, ?_⟩, r1, r2.frame.cfg, fun _ => Or.inl ?_⟩
          · intro st hst
            rcases r2.adds.new st hst with g | g
            · exact h.states st g
            · exact g.2
          · intro w' hw'
            rcases r2.wait with ⟨g, _⟩ | ⟨w'', g1, g2, g3, _⟩
            · rw [g] at hw'; cases hw'
            · rw [g1] at hw'
              injection hw' with hw'; subst hw'
              refine ⟨g3, ?_⟩
              rw [g2, hq']
              rcases hhead with g | g
              · exact Or.inl g
              · exact Or.inr (inRest c g)
          · rw [hq']
            cases ov <;> simp only [ovq, List.length_append, List.length_cons, List.length_nil] <;> omega
          · rw [hq']
            cases ov with
            | none => simpa [ovq] using hwf.2
            | some k => exact QWF_append _ _ hwf.2 trivial
          · intro st hst c' hc'
            rw [hq']
            have viaHead : c' = c → c' ∈ down ∨ c' ∈ s2.oneshot.releasedKeys ∨ ∃ x ∈ rest ++ ovq ov, x.ev = .release c' := by
              intro hcc; subst hcc
              rcases hhead with h1 | h1
              · exact Or.inl h1
              · exact Or.inr (Or.inr (inRest c' h1))
            rcases r2.adds.new st hst with h1 | h1
            · rcases h.owned st h1 c' hc' with g | g | ⟨x, hx, hxe⟩
              · exact Or.inl g
              · rcases k5 c' g with g2 | g2
                · exact Or.inr (Or.inl g2)
                · exact viaHead g2
              · rw [hq] at hx
                rcases List.mem_cons.mp hx with hx | hx
                · subst hx; cases hxe
                · exact Or.inr (Or.inr (inRest c' ⟨x, hx, hxe⟩))
            · have : c' = c := by
                have := h1.1; rw [hc'] at this; injection this
              exact viaHead this
          · have := h.lpt
            omega
          · rw [hP0, hq, queueLoad_cons]
            unfold uPot
            have hQ : queueLoad (pressW T I B d) s2.queue ≤ queueLoad (pressW T I B d) rest + 1 := by
              rw [hq', queueLoad_append]; have := ovq_load (pressW T I B d) ov; omega
            have hw1 : evW (pressW T I B d) ⟨.press c, n⟩ = pressW T I B d + 2 := rfl
            rw [hw1]
            have hW : pressW T I B d = T + 2 * d + I + B + 2 := rfl
            omega

/-! ## a whole tick, an event, runs -/

/-- **one tick without input** keeps the invariant; once no key is physically down the potential goes
down by one (it stays at zero once it is there) -/
theorem UInv.tick {T I B d : Nat} {s : Layout} {down : List Coord} (h : UInv T I B d s down) (s' : Layout)
    (cu : CustomEv) (ht : tick s = .ok (s', cu)) :
    UInv T I B d s' down ∧ s'.cfg = s.cfg ∧ (down = [] → uPot T I B d s' ≤ uPot T I B d s - 1) := by
  obtain ⟨i0, q0, w0, o0, l0, c0⟩ := h.pre
  obtain ⟨s1, e1, i1, q1, w1, l1, c1, ld1, pp1⟩ := i0.osh
  cases hm : tickMain s1 with
  | error c =>
    unfold KVerif.L.tick at ht
    simp only [h.aq, e1, hm] at ht
    cases ht
  | ok r =>
    obtain ⟨s2, c2⟩ := r
    obtain ⟨i2, hc2, cf2, pot2⟩ := i1.main s2 c2 hm
    subst hc2
    unfold KVerif.L.tick at ht
    simp only [h.aq, e1, hm, C04.processExtraWaitings_inert i2.extra, C04.processSequenceCustom_inert i2.states] at ht
    injection ht with ht; injection ht with h1 h2; subst h1
    refine ⟨i2, cf2.trans (c1.trans c0), fun hd => ?_⟩
    have hs1 : uPot T I B d s1 = queueLoad (pressW T I B d) s.queue + wLoad d s.waiting +
        s1.oneshot.pauseInputProcessingTicks + (s.lptTapHoldTimeout - 1) + oshLoad s1.oneshot := by
      unfold uPot; rw [q1, q0, w1, w0, l1, l0, queueLoad_age]
    rw [o0] at ld1 pp1
    have hs0 : uPot T I B d s = queueLoad (pressW T I B d) s.queue + wLoad d s.waiting +
        s.oneshot.pauseInputProcessingTicks + s.lptTapHoldTimeout + oshLoad s.oneshot := rfl
    rcases pot2 hd with g | ⟨g1, g2, g3, g4⟩
    · rw [hs1] at g
      rw [hs0]
      omega
    · subst g4
      have hq : s.queue = [] := by
        rw [q1, q0] at g1
        cases hs : s.queue with
        | nil => rfl
        | cons x r => rw [hs] at g1; simp [age] at g1
      rw [w1, w0] at g2
      rw [hs1, hs0, hq, g2, g3]
      simp only [queueLoad, wLoad, List.map_nil, List.sum_nil]
      omega

theorem UInv.input {T I B d : Nat} {s : Layout} {down : List Coord} (h : UInv T I B d s down) (e : Ev)
    (hq : s.queue.length < QUEUE_SIZE) :
    ∃ s', s.event e = .ok s' ∧ UInv T I B d s' (downAfter down (.ev e)) ∧ s'.queue = s.queue ++ [⟨e, 0⟩] ∧
      s'.cfg = s.cfg := by
  unfold Layout.event
  rw [FUEL_succ]
  obtain ⟨s', e1, e2, e3, e4, e5⟩ := event_room 3999 s e hq
  have e6 := event_room_lpt 3999 s e hq s' e1
  refine ⟨s', e1, ?_, e2, e5.cfg⟩
  have hrel : ∀ c, (c ∈ down ∨ ∃ x ∈ s.queue, x.ev = .release c) →
      (c ∈ downAfter down (.ev e) ∨ ∃ x ∈ s.queue ++ [⟨e, 0⟩], x.ev = .release c) := by
    intro c hc
    rcases hc with h1 | ⟨x, hx, hxe⟩
    · cases e with
      | press c' => exact Or.inl (List.mem_cons_of_mem _ h1)
      | release c' =>
        by_cases hcc : c = c'
        · subst hcc; exact Or.inr ⟨⟨.release c, 0⟩, by simp, rfl⟩
        · exact Or.inl (List.mem_filter.mpr ⟨h1, by simpa using hcc⟩)
    · exact Or.inr ⟨x, List.mem_append_left _ hx, hxe⟩
  refine ⟨e5.extra.trans h.extra, e5.tde.trans h.tde, e5.aq.trans h.aq, e5.seqs.trans h.seqs, e3 ▸ h.states,
    e4 ▸ h.ignore, e4 ▸ h.delay, e4 ▸ h.pause, e4 ▸ h.load, ?_, e5.cfg ▸ h.cfg, e5.cfg ▸ h.bound,
    by rw [e2]; simp only [List.length_append, List.length_cons, List.length_nil]; omega, ?_, e4 ▸ h.idle, ?_, e6 ▸ h.lpt⟩
  · intro w hw
    rw [e5.waiting] at hw
    obtain ⟨w1, w3⟩ := h.wok w hw
    exact ⟨w1, by rw [e2]; exact hrel _ w3⟩
  · rw [e2]
    cases e with
    | press c =>
      exact QWF_append _ _ (QWF_mono (fun x hx => List.mem_cons_of_mem _ hx) _ h.qwf) (by simp [downAfter])
    | release c => exact QWF_release c 0 _ h.qwf
  · intro st hst c hc
    rw [e3] at hst
    rw [e2, e4]
    rcases h.owned st hst c hc with g | g | g
    · rcases hrel c (Or.inl g) with g1 | g1
      · exact Or.inl g1
      · exact Or.inr (Or.inr g1)
    · exact Or.inr (Or.inl g)
    · rcases hrel c (Or.inr g) with g1 | g1
      · exact Or.inl g1
      · exact Or.inr (Or.inr g1)

/-- **every history keeps the invariant** (an event never arrives while 32 are pending) -/
theorem run_uinv {T I B d : Nat} : ∀ (ins : List In) (s : Layout) (down : List Coord), UInv T I B d s down →
    ∀ s' down', run s down ins = some (.ok (s', down')) → UInv T I B d s' down' ∧ s'.cfg = s.cfg := by
  intro ins
  induction ins with
  | nil =>
    intro s down h s' down' hr
    simp only [run] at hr
    injection hr with hr; injection hr with hr; injection hr with h1 h2
    subst h1; subst h2; exact ⟨h, rfl⟩
  | cons i rest ih =>
    intro s down h s' down' hr
    simp only [run] at hr
    split at hr
    · cases hr
    · rename_i hov
      cases i with
      | ev e =>
        have hq : s.queue.length < QUEUE_SIZE := by
          simp only [overflows, decide_eq_true_eq] at hov; omega
        obtain ⟨s1, e1, i1, _, c1⟩ := h.input e hq
        simp only [stepIn, e1] at hr
        obtain ⟨r1, r2⟩ := ih s1 _ i1 s' down' hr
        exact ⟨r1, r2.trans c1⟩
      | tick =>
        simp only [stepIn] at hr
        cases ht : tick s with
        | error c => simp only [ht] at hr; cases hr
        | ok r =>
          obtain ⟨s1, cu⟩ := r
          simp only [ht] at hr
          obtain ⟨i1, c1, _⟩ := h.tick s1 cu ht
          obtain ⟨r1, r2⟩ := ih s1 _ i1 s' down' hr
          exact ⟨r1, r2.trans c1⟩

/-- `N` ticks without input, no key physically down: the potential goes down by `N` (or reaches zero) -/
theorem quiet_ticks_U {T I B d : Nat} : ∀ (N : Nat) (s : Layout), UInv T I B d s [] →
    ∀ s' down', run s [] (List.replicate N .tick) = some (.ok (s', down')) →
    down' = [] ∧ UInv T I B d s' [] ∧ uPot T I B d s' ≤ uPot T I B d s - N := by
  intro N
  induction N with
  | zero =>
    intro s h s' down' hr
    simp only [List.replicate, run] at hr
    injection hr with hr; injection hr with hr; injection hr with h1 h2
    subst h1; subst h2; exact ⟨rfl, h, Nat.le_refl _⟩
  | succ N ih =>
    intro s h s' down' hr
    simp only [List.replicate, run, overflows, Bool.false_eq_true, if_false, stepIn] at hr
    cases ht : tick s with
    | error c => simp only [ht] at hr; cases hr
    | ok r =>
      obtain ⟨s1, cu⟩ := r
      simp only [ht, downAfter] at hr
      obtain ⟨i1, _, p1⟩ := h.tick s1 cu ht
      obtain ⟨r1, r2, r3⟩ := ih s1 i1 s' down' hr
      have := p1 rfl
      exact ⟨r1, r2, by omega⟩

/-- the bound: every queued event weighs at most `pressW + 2`; on top of that one tap-hold countdown
with its decision tick and pause, the input pause, the quick-tap window and the one-shot countdown -/
theorem uPot_le {T I B d : Nat} {s : Layout} {down : List Coord} (h : UInv T I B d s down) :
    uPot T I B d s ≤ (pressW T I B d + 2) * s.queue.length + T + 2 * d + I + B + 2 := by
  unfold uPot
  have h1 := queueLoad_le (pressW T I B d) s.queue
  have h2 := h.load
  have h3 := h.pause
  have h4 := h.lpt
  have h5 : wLoad d s.waiting ≤ T + d + 1 := by
    cases hw : s.waiting with
    | none => rw [wLoad_none]; exact Nat.zero_le _
    | some w => rw [wLoad_some]; have := (h.wok w hw).1.timeout; omega
  omega

/-- potential zero, no key down: the layout is at rest -/
theorem UInv.atRest {T I B d : Nat} {s : Layout} (h : UInv T I B d s []) (hz : uPot T I B d s = 0) :
    LayoutAtRest s := by
  unfold uPot at hz
  have hq : s.queue = [] := queueLoad_zero (pressW T I B d) _ (by omega)
  have hk : s.oneshot.keys = [] := oshLoad_zero (by omega)
  have hw : s.waiting = none := by
    cases hw : s.waiting with
    | none => rfl
    | some w => rw [hw, wLoad_some] at hz; omega
  refine ⟨?_, hq, hw, h.extra, by omega, hk, by omega, h.seqs, h.tde, h.aq⟩
  apply List.eq_nil_iff_forall_not_mem.mpr
  intro st hst
  have hok := h.states st hst
  have hco : ∃ c, st.coord = some c := by
    cases st <;> simp only [C04.StOK] at hok <;> first | exact ⟨_, rfl⟩ | exact absurd hok id
  obtain ⟨c, hc⟩ := hco
  rcases h.owned st hst c hc with g | g | ⟨x, hx, _⟩
  · cases g
  · rw [(h.idle hk).1] at g; cases g
  · rw [hq] at hx; cases hx

/-! ## totality: no crash outcome (through the invariant `NC` of C02's union theorem) -/

theorem coordOK_of {cfg : LCfg} {c : Coord} (h : CoordOK cfg c) : C04.coordOK cfg c = true := by
  simp [C04.coordOK, h.1, h.2]

theorem run_total_U {cfg : LCfg} {C P : Nat} {osh : Bool} (hC : NCF.CfgOK cfg C P osh) (hB : NCF.Budget P osh) :
    ∀ (ins : List In) (s : Layout) (down : List Coord), NCF.NC cfg s → PressesOK cfg ins →
    run s down ins = none ∨ ∃ s', run s down ins = some (.ok (s', downs down ins)) ∧ NCF.NC cfg s' := by
  intro ins
  induction ins with
  | nil => intro s down hN _; exact Or.inr ⟨s, rfl, hN⟩
  | cons i rest ih =>
    intro s down hN hP
    have hP' : PressesOK cfg rest := fun c hc => hP c (List.mem_cons_of_mem _ hc)
    simp only [run]
    split
    · exact Or.inl rfl
    · cases i with
      | ev e =>
        have he : C04.evOK cfg e = true := by
          cases e with
          | press c => exact coordOK_of (hP c List.mem_cons_self)
          | release c => rfl
        obtain ⟨s1, e1, hN1⟩ := NCF.event_ok hC hB hN e he
        simp only [stepIn, e1, downs]
        exact ih s1 _ hN1 hP'
      | tick =>
        obtain ⟨s1, cu, e1, hN1⟩ := NCF.tick_ok hC hB hN
        simp only [stepIn, e1, downs]
        exact ih s1 _ hN1 hP'

theorem quiet_total_U {cfg : LCfg} {C P : Nat} {osh : Bool} (hC : NCF.CfgOK cfg C P osh) (hB : NCF.Budget P osh) :
    ∀ (N : Nat) (s : Layout), NCF.NC cfg s → ∃ s', run s [] (List.replicate N .tick) = some (.ok (s', [])) := by
  intro N s hN
  have hP : PressesOK cfg (List.replicate N In.tick) := by
    intro c hc
    have := List.eq_of_mem_replicate hc
    cases this
  have hd : ∀ (n : Nat) (dn : List Coord), downs dn (List.replicate n In.tick) = dn := by
    intro n
    induction n with
    | zero => intro dn; rfl
    | succ n ih => intro dn; simp only [List.replicate, downs, downAfter]; exact ih dn
  rcases run_total_U hC hB (List.replicate N .tick) s [] hN hP with hn | ⟨s', hr, _⟩
  · exfalso
    have : ∀ (n : Nat) (t : Layout) (dn : List Coord), run t dn (List.replicate n .tick) ≠ none := by
      intro n
      induction n with
      | zero => intro t dn h; simp [run] at h
      | succ n ih =>
        intro t dn h
        simp only [List.replicate, run, overflows, Bool.false_eq_true, if_false] at h
        split at h
        · cases h
        · exact ih _ _ h
    exact this N s [] hn
  · rw [hd] at hr
    exact ⟨s', hr⟩

end KVerif.QU
