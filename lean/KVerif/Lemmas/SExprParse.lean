/-
Invariants of `parse_with` (Model/SExpr.lean `parseLoop`, `finish`, `parse`): the explicit stack
always has its placeholder, every span it holds is a span of the text (in bounds, ordered, on
character boundaries, line counters consistent), and no `assert!`/`expect`/slice panic is reachable.
-/
import KVerif.Lemmas.SExprLex
namespace KVerif.SExpr

/-- a position that the byte iterator can report in text `s` -/
structure PosOK (s : List Nat) (p : Pos) : Prop where
  le : p.abs ≤ s.length
  line : p.line = nl (s.take p.abs)
  lb : p.lineBeg ≤ p.abs

/-- a span of text `s`: in bounds, ordered, both ends on character boundaries -/
structure SpanOK (s : List Nat) (sp : Span) : Prop where
  file : sp.file = 1
  start : PosOK s sp.start
  stop : PosOK s sp.stop
  le : sp.start.abs ≤ sp.stop.abs
  bs : isCharBoundary s sp.start.abs = true
  be : isCharBoundary s sp.stop.abs = true

mutual
/-- every node of the expression satisfies `P` (given the atom's text, if it is an atom, and the span) -/
def SExpr.All (P : Option (List Nat) → Span → Prop) : SExpr → Prop
  | .atom t sp => P (some t) sp
  | .list xs sp => P none sp ∧ SExpr.AllL P xs
def SExpr.AllL (P : Option (List Nat) → Span → Prop) : List SExpr → Prop
  | [] => True
  | x :: r => x.All P ∧ SExpr.AllL P r
end

/-- a node of a tree parsed from `s`: its span is a span of `s`, and an atom's text is `&s[span]` -/
def NodeOK (s : List Nat) (t : Option (List Nat)) (sp : Span) : Prop :=
  SpanOK s sp ∧ ∀ txt, t = some txt → slice s sp.start.abs sp.stop.abs = .ok txt

theorem SExpr.AllL_append {P : Option (List Nat) → Span → Prop} {a b : List SExpr} :
    SExpr.AllL P (a ++ b) ↔ SExpr.AllL P a ∧ SExpr.AllL P b := by
  induction a with
  | nil => simp [SExpr.AllL]
  | cons x r ih => simp [SExpr.AllL, ih, and_assoc]

theorem Good.posOK {s pre it} (g : Good s pre it) : PosOK s ⟨pre.length, nl pre, it.lineBeg⟩ := by
  have hs := g.split
  refine ⟨by rw [hs]; simp, ?_, g.lb⟩
  simp [hs]

theorem Good.boundary {s pre it} (g : Good s pre it) (hb : Bnd it) : isCharBoundary s pre.length = true := by
  unfold isCharBoundary
  split
  · rfl
  · have hs := g.split
    unfold Bnd at hb
    cases hi : it.inp with
    | nil => simp [hs, hi]
    | cons c r => simp [hs, hi] at hb ⊢; exact hb

theorem nl_take_mono (s : List Nat) {i j : Nat} (h : i ≤ j) : nl (s.take i) ≤ nl (s.take j) := by
  unfold nl
  exact List.Sublist.count_le _ (List.take_sublist_take_left h)

theorem PosOK.line_mono {s p q} (hp : PosOK s p) (hq : PosOK s q) (h : p.abs ≤ q.abs) : p.line ≤ q.line := by
  rw [hp.line, hq.line]; exact nl_take_mono s h

/-- `Span::cover` of two spans of the same text neither panics nor leaves the text -/
theorem cover_ok {s a b} (ha : SpanOK s a) (hb : SpanOK s b) : ∃ c, a.cover b = .ok c ∧ SpanOK s c := by
  unfold Span.cover
  simp only [ha.file, hb.file, ne_eq, not_true_eq_false, if_false]
  by_cases h1 : a.start.abs ≤ b.start.abs <;> by_cases h2 : a.stop.abs ≥ b.stop.abs <;>
    simp only [h1, h2, if_true, if_false, Span.new]
  · have := ha.le
    have hl := ha.start.line_mono ha.stop this
    exact ⟨⟨a.start, a.stop, 1⟩, by simp [this, hl], ⟨rfl, ha.start, ha.stop, this, ha.bs, ha.be⟩⟩
  · have : a.start.abs ≤ b.stop.abs := by have := hb.le; omega
    have hl := ha.start.line_mono hb.stop this
    exact ⟨⟨a.start, b.stop, 1⟩, by simp [this, hl], ⟨rfl, ha.start, hb.stop, this, ha.bs, hb.be⟩⟩
  · have : b.start.abs ≤ a.stop.abs := by have := ha.le; omega
    have hl := hb.start.line_mono ha.stop this
    exact ⟨⟨b.start, a.stop, 1⟩, by simp [this, hl], ⟨rfl, hb.start, ha.stop, this, hb.bs, ha.be⟩⟩
  · have := hb.le
    have hl := hb.start.line_mono hb.stop this
    exact ⟨⟨b.start, b.stop, 1⟩, by simp [this, hl], ⟨rfl, hb.start, hb.stop, this, hb.bs, hb.be⟩⟩

/-- the stack of `parse_with`: frames opened by `(` above the placeholder -/
inductive StackInv (s : List Nat) : List Frame → Prop
  | bottom (items : List SExpr) : SExpr.AllL (NodeOK s) items → StackInv s [⟨items, Span.default⟩]
  | push (items : List SExpr) (sp : Span) (st : List Frame) :
      SpanOK s sp → SExpr.AllL (NodeOK s) items → StackInv s st → StackInv s (⟨items, sp⟩ :: st)

/-- what the front end guarantees about a diagnostic it returns -/
structure ErrOK (fx : Fixes) (s : List Nat) (e : PErr) : Prop where
  file : e.span.file = 1
  start : PosOK s e.span.start
  stop : PosOK s e.span.stop
  le : e.span.start.abs ≤ e.span.stop.abs
  bs : isCharBoundary s e.span.start.abs = true
  be : e.msg ≠ .lex .untermMlComment → (e.msg = .lex .untermMlString → fx.rawEnd = true) →
    isCharBoundary s e.span.stop.abs = true
  cm : e.msg = .lex .untermMlComment →
    e.span.start.abs + 2 ≤ s.length ∧ isCharBoundary s (e.span.start.abs + 2) = true

def MetaOK (s : List Nat) (md : List Meta) : Prop := ∀ m ∈ md, SpanOK s m.span

theorem sliceIt_ok {s p1 tok : List Nat} {its it' : It} (g1 : Good s p1 its) (g2 : Good s (p1 ++ tok) it')
    (b1 : Bnd its) (b2 : Bnd it') : sliceIt its it' = .ok tok := by
  have hinp : its.inp = tok ++ it'.inp := by
    have h1 := g1.split
    have h2 := g2.split
    rw [h1, List.append_assoc] at h2
    exact List.append_cancel_left h2
  have hb : ∀ it : It, Bnd it → it.atBoundary = true := by
    intro it hb
    unfold Bnd at hb
    unfold It.atBoundary
    cases h : it.inp with
    | nil => simp
    | cons c r => simp [h] at hb; simp [hb]
  unfold sliceIt
  have hl := g2.len
  have h3 := congrArg List.length g2.split
  simp at h3
  have hr : ¬(its.abs > it'.abs ∨ it'.abs > it'.len) := by simp [g1.abs, g2.abs, hl]; omega
  rw [if_neg hr]
  simp only [hb its b1, hb it' b2, Bool.and_self, Bool.not_true, g1.abs, g2.abs]
  simp [hinp]

/-- the literal `&s[start..end]` of a token is the text between its two iterator positions -/
theorem slice_tok {s p1 tok : List Nat} {its it' : It} (g1 : Good s p1 its) (g2 : Good s (p1 ++ tok) it')
    (b1 : Bnd its) (b2 : Bnd it') : slice s p1.length (p1 ++ tok).length = .ok tok := by
  have h2 := g2.split
  have hl := congrArg List.length h2
  simp at hl
  unfold slice
  have hr : ¬(p1.length > (p1 ++ tok).length ∨ (p1 ++ tok).length > s.length) := by simp; omega
  rw [if_neg hr]
  simp only [g1.boundary b1, g2.boundary b2, Bool.and_self, Bool.not_true]
  rw [h2]
  simp

theorem tokSpan_ok {s p1 tok : List Nat} {its it' : It} (_g1 : Good s p1 its) (g2 : Good s (p1 ++ tok) it') :
    it'.pos = .ok ⟨(p1 ++ tok).length, nl (p1 ++ tok), it'.lineBeg⟩ ∧
    Span.new ⟨p1.length, nl p1, its.lineBeg⟩ ⟨(p1 ++ tok).length, nl (p1 ++ tok), it'.lineBeg⟩ 1 =
      .ok ⟨⟨p1.length, nl p1, its.lineBeg⟩, ⟨(p1 ++ tok).length, nl (p1 ++ tok), it'.lineBeg⟩, 1⟩ := by
  refine ⟨g2.pos, ?_⟩
  simp [Span.new, nl_append]

theorem tokSpanOK {s p1 tok : List Nat} {its it' : It} (g1 : Good s p1 its) (g2 : Good s (p1 ++ tok) it')
    (b1 : Bnd its) (b2 : Bnd it') :
    SpanOK s ⟨⟨p1.length, nl p1, its.lineBeg⟩, ⟨(p1 ++ tok).length, nl (p1 ++ tok), it'.lineBeg⟩, 1⟩ :=
  ⟨rfl, g1.posOK, g2.posOK, by simp, g1.boundary b1, g2.boundary b2⟩

theorem StackInv.ne_nil {s st} (h : StackInv s st) : st ≠ [] := by cases h <;> simp

theorem StackInv.addItem {s parent rest e} (h : StackInv s (parent :: rest)) (he : SExpr.All (NodeOK s) e) :
    StackInv s (⟨parent.items ++ [e], parent.span⟩ :: rest) := by
  cases h with
  | bottom items hi => exact .bottom _ (SExpr.AllL_append.mpr ⟨hi, he, trivial⟩)
  | push items sp st hsp hi hst => exact .push _ _ _ hsp (SExpr.AllL_append.mpr ⟨hi, he, trivial⟩) hst

theorem comment_start {s p r : List Nat} {its : It} (g : Good s p its) (h : its.inp = 35 :: 124 :: r) (hn : NCA s) :
    p.length + 2 ≤ s.length ∧ isCharBoundary s (p.length + 2) = true := by
  have hs := g.split
  rw [h] at hs
  refine ⟨by rw [hs]; simp, ?_⟩
  unfold isCharBoundary
  rw [if_neg (by omega)]
  have hn' : NCA (124 :: r) := by
    rw [hs] at hn
    exact (NCA.suffix hn).tail
  cases r with
  | nil => simp [hs]
  | cons c r' =>
    have : isCont c = false := hn'.1 (by omega)
    simp [hs, this]

/-- postcondition of the token loop -/
def LoopPost (fx : Fixes) (s : List Nat) (r : Except PErr (List Frame × List Meta)) : Prop :=
  match r with
  | .ok (stack, md) => StackInv s stack ∧ MetaOK s md
  | .error e => ErrOK fx s e ∧ ((∃ l, e.msg = .lex l) ∨ e.msg = .unexpectedClose)

theorem parseLoop_spec (fx : Fixes) (ignore : Bool) (s : List Nat) (hn : NCA s) :
    ∀ (fuel : Nat) (it : It) (pre : List Nat) (stack : List Frame) (md : List Meta),
      Good s pre it → Bnd it → it.rem + 1 ≤ fuel → StackInv s stack → MetaOK s md →
      ∃ r, parseLoop fx ignore fuel it stack md = .ok r ∧ LoopPost fx s r := by
  intro fuel
  induction fuel with
  | zero => intro it pre stack md g hb hf; omega
  | succ fuel ih =>
    intro it pre stack md g hb hf hst hmd
    obtain ⟨res, hres, hpost⟩ := nextToken_spec fx ignore s (it.rem + 1) it pre g (Nat.le_refl _)
    unfold parseLoop
    simp only [hres, bind, Except.bind, pure, Except.pure]
    match res, hpost with
    | none, _ => exact ⟨_, rfl, hst, hmd⟩
    | some ((start, its), t, it'), hpost =>
      obtain ⟨sk, tok, g1, g2, htok, hstart, hcm, hbnd⟩ := hpost
      obtain ⟨b1, b2⟩ := hbnd hn hb
      obtain ⟨hp, hsp⟩ := tokSpan_ok g1 g2
      subst hstart
      simp only [hp, hsp]
      have hrem : it'.rem + 1 ≤ fuel := by
        have := g.rem_lt (mid := sk ++ tok) (by simpa using g2) (by simp [htok]); omega
      match t, hcm, b2 with
      | .error e, hcm, b2 =>
        refine ⟨_, rfl, ⟨rfl, g1.posOK, g2.posOK, by simp, g1.boundary b1, ?_, ?_⟩, .inl ⟨e, rfl⟩⟩
        · intro h1 h2
          exact g2.boundary (b2 (by intro h; apply h1; cases h; rfl) (by intro h; apply h2; cases h; rfl))
        · intro h
          obtain ⟨r, hr⟩ := hcm (by cases h; rfl)
          exact comment_start g1 hr hn
      | .ok tk, _, b2 =>
        have b2' : Bnd it' := b2 (by simp) (by simp)
        have hspan := tokSpanOK g1 g2 b1 b2'
        have g2' : Good s (pre ++ (sk ++ tok)) it' := by simpa using g2
        cases tk with
        | openP => exact ih it' _ _ md g2' b2' hrem (.push _ _ _ hspan trivial hst) hmd
        | closeP =>
          cases hst with
          | bottom items hi =>
            exact ⟨_, rfl, ⟨rfl, g1.posOK, g2.posOK, by simp, g1.boundary b1, fun _ _ => g2.boundary b2',
              by simp⟩, .inr rfl⟩
          | push items sp st hsp hi hst' =>
            match st, hst' with
            | parent :: rest', hst' =>
              obtain ⟨c, hc, hcok⟩ := cover_ok hsp hspan
              simp only [hc]
              exact ih it' _ _ md g2' b2' hrem (hst'.addItem ⟨⟨hcok, by simp⟩, hi⟩) hmd
        | str =>
          match stack, hst with
          | top :: rest, hst =>
            simp only [sliceIt_ok g1 g2 b1 b2']
            exact ih it' _ _ md g2' b2' hrem
              (hst.addItem ⟨hspan, fun txt h => by cases h; exact slice_tok g1 g2 b1 b2'⟩) hmd
        | blockComment =>
          simp only [sliceIt_ok g1 g2 b1 b2']
          refine ih it' _ _ _ g2' b2' hrem hst ?_
          intro m hm
          rcases List.mem_append.mp hm with hm | hm
          · exact hmd m hm
          · rw [List.mem_singleton.mp hm]; exact hspan
        | lineComment =>
          simp only [sliceIt_ok g1 g2 b1 b2']
          refine ih it' _ _ _ g2' b2' hrem hst ?_
          intro m hm
          rcases List.mem_append.mp hm with hm | hm
          · exact hmd m hm
          · rw [List.mem_singleton.mp hm]; exact hspan
        | whitespace =>
          simp only [sliceIt_ok g1 g2 b1 b2']
          refine ih it' _ _ _ g2' b2' hrem hst ?_
          intro m hm
          rcases List.mem_append.mp hm with hm | hm
          · exact hmd m hm
          · rw [List.mem_singleton.mp hm]; exact hspan

/-- what `parse` guarantees about the diagnostic it returns -/
structure DiagOK (fx : Fixes) (s : List Nat) (e : PErr) : Prop where
  file : e.span.file = 1
  le : e.span.start.abs ≤ e.span.stop.abs
  inb : e.span.stop.abs ≤ s.length
  bs : isCharBoundary s e.span.start.abs = true
  be : (e.msg = .lex .untermMlString → fx.rawEnd = true) → isCharBoundary s e.span.stop.abs = true

def TopsOK (s : List Nat) (tops : List TopLevel) : Prop :=
  ∀ t ∈ tops, SpanOK s t.sp ∧ SExpr.AllL (NodeOK s) t.xs

def ParsePost (fx : Fixes) (s : List Nat) (r : Except PErr (List TopLevel × List Meta)) : Prop :=
  match r with
  | .ok (tops, md) => TopsOK s tops ∧ MetaOK s md
  | .error e => DiagOK fx s e

theorem finish_tops_spec {s : List Nat} : ∀ (items : List SExpr), SExpr.AllL (NodeOK s) items →
    match finish.tops items with
    | .ok tops => TopsOK s tops
    | .error e => SpanOK s e.span ∧ e.msg = .notInList := by
  intro items
  induction items with
  | nil => intro _; simp [finish.tops, TopsOK]
  | cons x r ih =>
    intro h
    cases x with
    | atom t sp => exact ⟨h.1.1, rfl⟩
    | list xs sp =>
      have := ih h.2
      simp only [finish.tops]
      cases hr : finish.tops r with
      | error e => simp only [hr] at this; simpa [Except.map] using this
      | ok tops =>
        simp only [hr] at this
        simp only [Except.map, TopsOK]
        intro t ht
        simp at ht
        rcases ht with rfl | ht
        · exact ⟨h.1.1.1, h.1.2⟩
        · exact this t ht

theorem finish_spec (fx : Fixes) (s : List Nat) (r : Except PErr (List Frame × List Meta)) (h : LoopPost fx s r) :
    ∃ r', finish r = .ok r' ∧ ParsePost fx s r' := by
  unfold finish
  match r, h with
  | .error e, ⟨he, _⟩ =>
    by_cases hc : e.msg = .lex .untermMlComment
    · simp only [hc]
      obtain ⟨h1, h2⟩ := he.cm hc
      exact ⟨_, rfl, ⟨he.file, by simp, by simpa using h1, he.bs, fun _ => by simpa using h2⟩⟩
    · simp only
      exact ⟨_, rfl, ⟨he.file, he.le, he.stop.le, he.bs, fun h => he.be hc h⟩⟩
  | .ok (stack, md), ⟨hst, hmd⟩ =>
    cases hst with
    | bottom items hi =>
      simp only [List.isEmpty_nil, Bool.not_true, Bool.false_eq_true, if_false]
      have := finish_tops_spec items hi
      cases hr : finish.tops items with
      | error e =>
        simp only [hr] at this
        exact ⟨_, rfl, ⟨this.1.file, this.1.le, this.1.stop.le, this.1.bs, fun _ => this.1.be⟩⟩
      | ok tops =>
        simp only [hr] at this
        exact ⟨_, rfl, this, hmd⟩
    | push items sp st hsp hi hst' =>
      have : st ≠ [] := hst'.ne_nil
      cases st with
      | nil => exact absurd rfl this
      | cons a b =>
        exact ⟨_, rfl, ⟨hsp.file, hsp.le, hsp.stop.le, hsp.bs, fun _ => hsp.be⟩⟩

theorem bnd_ofText {s : List Nat} (h : validUtf8 s = true) : Bnd (It.ofText s) := by
  unfold Bnd It.ofText
  cases s with
  | nil => trivial
  | cons b r => exact head_not_cont_of_valid h

theorem stripBom_spec {s : List Nat} (h : validUtf8 s = true) :
    ∃ s', stripBom s = .ok s' ∧ validUtf8 s' = true ∧ (s' = s ∨ s = 0xEF :: 0xBB :: 0xBF :: s') := by
  unfold stripBom
  split
  · rename_i r
    have := valid_after_bom h
    exact ⟨r, by simp [this], this, .inr rfl⟩
  · exact ⟨s, rfl, h, .inl rfl⟩

/-- **the front end is total on UTF-8 texts**, with everything the later theorems need -/
theorem parse_spec (fx : Fixes) (ignore : Bool) (s : List Nat) (h : validUtf8 s = true) :
    ∃ s' r, stripBom s = .ok s' ∧ parse fx ignore s = .ok r ∧ ParsePost fx s' r := by
  obtain ⟨s', hs', hv, _⟩ := stripBom_spec h
  have hn := nca_of_valid hv
  obtain ⟨r, hr, hpost⟩ := parseLoop_spec fx ignore s' hn (s'.length + 1) (It.ofText s') [] [⟨[], Span.default⟩] []
    (Good.ofText s') (bnd_ofText hv) (by simp [It.ofText]) (.bottom [] trivial) (by intro m hm; simp at hm)
  obtain ⟨r', hr', hpost'⟩ := finish_spec fx s' r hpost
  refine ⟨s', r', hs', ?_, hpost'⟩
  unfold parse
  simp only [hs', bind, Except.bind, hr, hr']


end KVerif.SExpr
