/-
Helpers for C18multi: several simultaneous hold-for-duration / on-idle entries.

The real code keeps `vkeys_pending_release : HashMap<Coord, u16>` and `waiting_for_idle :
HashSet<FakeKeyOnIdle>` (rustc_hash Fx maps: the iteration order of `retain` is a function of the
hashes, unspecified); the model (`K.tickHeldVkeys`, `K.tickIdleTimeout`) iterates a list.  Here the
two loops are split into what they compute as a *set* (the entries kept, the entries that expire)
and the one thing that depends on the order (the order in which the events are handed to
`Layout::event`), and the dynamics of the pending entries over whole histories is shown to factor
through the finite-map view (`look`), so that an adversarial re-ordering of the container at any
moment changes nothing.
-/
import KVerif.Model.Kanata
namespace KVerif.VkeyMulti
open KVerif.L KVerif.K

/-! ## A. `tick_held_vkeys` in one tick -/

/-- the content of `vkeys_pending_release`, in iteration order -/
abbrev Pending := List (Coord × Nat)

/-- the coordinates (keys of the hash map), in iteration order -/
def keys (p : Pending) : List Coord := p.map (·.1)

/-- `*deadline = deadline.saturating_sub(1); match deadline { 0 => … }` -/
def expires (e : Coord × Nat) : Bool := e.2 - 1 == 0

/-- the entries `retain` keeps, with their countdown decremented -/
def heldKept (p : Pending) : Pending := (p.filter (fun e => !expires e)).map (fun e => (e.1, e.2 - 1))

/-- the coordinates whose release is handed to the layout in this tick, in iteration order -/
def heldReleased (p : Pending) : List Coord := (p.filter expires).map (·.1)

/-- `layout.event(Event::Release(x, y))` for each coordinate, in order -/
def releaseAll : List Coord → Layout → Except L.Crash Layout
  | [], l => .ok l
  | c :: cs, l =>
    match l.event (.release c) with
    | .error e => .error e
    | .ok l' => releaseAll cs l'

/-- the queue item of a release event that has just arrived -/
def relEv (c : Coord) : Queued := ⟨.release c, 0⟩

theorem heldKept_cons (e : Coord × Nat) (p : Pending) :
    heldKept (e :: p) = if expires e then heldKept p else (e.1, e.2 - 1) :: heldKept p := by
  unfold heldKept
  cases h : expires e <;> simp [h]

theorem heldReleased_cons (e : Coord × Nat) (p : Pending) :
    heldReleased (e :: p) = if expires e then e.1 :: heldReleased p else heldReleased p := by
  unfold heldReleased
  cases h : expires e <;> simp [h]

theorem go_eq : ∀ (rest : Pending) (k : KState) (kept : Pending),
    tickHeldVkeys.go rest k kept =
      match releaseAll (heldReleased rest) k.layout with
      | .error e => .error (.layout e)
      | .ok l => .ok { k with layout := l, vkeysPendingRelease := kept.reverse ++ heldKept rest } := by
  intro rest
  induction rest with
  | nil =>
    intro k kept
    simp [tickHeldVkeys.go, heldReleased, heldKept, releaseAll]
  | cons e rest ih =>
    intro k kept
    obtain ⟨c, d⟩ := e
    rw [heldReleased_cons, heldKept_cons]
    unfold tickHeldVkeys.go
    by_cases h : (d - 1 == 0) = true
    · have he : expires (c, d) = true := h
      simp only [h, he, if_true, releaseAll]
      cases hev : k.layout.event (.release c) with
      | error e => rfl
      | ok l => simp only []; rw [ih]
    · have he : expires (c, d) = false := by simpa [expires] using h
      simp only [h, he, if_false, Bool.false_eq_true]
      rw [ih]
      simp [List.reverse_cons, List.append_assoc]

/-- one `tick_held_vkeys` = hand the releases of the expiring entries to the layout (in iteration
order), keep the others with their countdown decremented (in iteration order) -/
theorem tickHeldVkeys_eq (k : KState) :
    tickHeldVkeys k =
      match releaseAll (heldReleased k.vkeysPendingRelease) k.layout with
      | .error e => .error (.layout e)
      | .ok l => .ok { k with layout := l, vkeysPendingRelease := heldKept k.vkeysPendingRelease } := by
  unfold tickHeldVkeys
  rw [go_eq]
  simp

theorem heldKept_perm {p p' : Pending} (h : p'.Perm p) : (heldKept p').Perm (heldKept p) :=
  (h.filter _).map _

theorem heldReleased_perm {p p' : Pending} (h : p'.Perm p) : (heldReleased p').Perm (heldReleased p) :=
  (h.filter _).map _

theorem keys_heldKept (p : Pending) : keys (heldKept p) = keys (p.filter (fun e => !expires e)) := by
  simp [keys, heldKept, List.map_map, Function.comp_def]

theorem keys_heldKept_sublist (p : Pending) : (keys (heldKept p)).Sublist (keys p) := by
  rw [keys_heldKept]
  exact List.filter_sublist.map _

theorem heldReleased_sublist (p : Pending) : (heldReleased p).Sublist (keys p) :=
  List.filter_sublist.map _

/-- in a hash map a coordinate has one countdown -/
theorem mem_unique : ∀ {p : Pending} {c : Coord} {d d' : Nat}, (keys p).Nodup →
    (c, d) ∈ p → (c, d') ∈ p → d = d' := by
  intro p
  induction p with
  | nil => intro c d d' _ h; cases h
  | cons e rest ih =>
    intro c d d' hn h1 h2
    simp only [keys, List.map_cons, List.nodup_cons] at hn
    have hk : ∀ x, (c, x) ∈ rest → c ∈ List.map (·.1) rest := fun x hx => List.mem_map.mpr ⟨(c, x), hx, rfl⟩
    rcases List.mem_cons.mp h1 with a1 | a1 <;> rcases List.mem_cons.mp h2 with a2 | a2
    · rw [← a2] at a1; exact (Prod.mk.inj a1).2
    · subst a1; exact absurd (hk _ a2) hn.1
    · subst a2; exact absurd (hk _ a1) hn.1
    · exact ih hn.2 a1 a2

/-- an entry is either released or kept, never both -/
theorem released_not_kept {p : Pending} (hn : (keys p).Nodup) {c : Coord} (h : c ∈ heldReleased p) :
    c ∉ keys (heldKept p) := by
  intro hk
  rw [keys_heldKept] at hk
  simp only [heldReleased, keys, List.mem_map, List.mem_filter] at h hk
  obtain ⟨⟨c1, d1⟩, ⟨hm1, he1⟩, rfl⟩ := h
  obtain ⟨⟨c2, d2⟩, ⟨hm2, he2⟩, hc⟩ := hk
  simp only at hc
  subst hc
  have := mem_unique hn hm1 hm2
  subst this
  simp [he1] at he2

/-! ### the layout side, while the queue has room -/

/-- a release event is appended to the layout's queue while fewer than 32 events are pending -/
theorem event_release_room (s : Layout) (c : Coord) (h : s.queue.length < QUEUE_SIZE) :
    s.event (.release c) = .ok { s with queue := s.queue ++ [relEv c] } := by
  unfold Layout.event
  rw [FUEL_succ]
  simp only [event, pushBackWrap, h, if_true]
  rfl

/-- a press event likewise (it also enters the input history) -/
theorem event_press_room (s : Layout) (c : Coord) (h : s.queue.length < QUEUE_SIZE) :
    s.event (.press c) =
      .ok { s with histInputs := histPush s.histInputs c, queue := s.queue ++ [⟨.press c, 0⟩] } := by
  unfold Layout.event
  rw [FUEL_succ]
  simp only [event, pushBackWrap, h, if_true]
  rfl

theorem releaseAll_room : ∀ (cs : List Coord) (l : Layout), l.queue.length + cs.length ≤ QUEUE_SIZE →
    releaseAll cs l = .ok { l with queue := l.queue ++ cs.map relEv } := by
  intro cs
  induction cs with
  | nil => intro l _; simp [releaseAll]
  | cons c cs ih =>
    intro l h
    simp only [List.length_cons] at h
    rw [releaseAll, event_release_room l c (by omega)]
    simp only []
    rw [ih _ (by simp only [List.length_append, List.length_cons, List.length_nil]; omega)]
    simp [List.append_assoc]

/-! ## B. the finite-map view and whole histories -/

/-- the countdown of coordinate `c` (the hash map lookup) -/
def look : Pending → Coord → Option Nat
  | [], _ => none
  | (c', d) :: rest, c => if c' = c then some d else look rest c

/-- `vkeys_pending_release.entry(coord).and_modify(|d| *d = duration).or_insert_with(..)`: the
pending entries after a hold-for-duration activation (the list form of `customPress`'s
`fakeKeyHold` arm) -/
def heldActivate (p : Pending) (c : Coord) (dur : Nat) : Pending :=
  if p.any (·.1 == c) then p.map (fun e => if e.1 == c then (c, dur) else e) else p ++ [(c, dur)]

theorem look_eq_none {p : Pending} {c : Coord} : look p c = none ↔ c ∉ keys p := by
  induction p with
  | nil => simp [look, keys]
  | cons e rest ih =>
    obtain ⟨c', d⟩ := e
    simp only [look, keys, List.map_cons, List.mem_cons, not_or]
    by_cases h : c' = c
    · simp [h]
    · simp only [h, if_false]
      rw [ih]
      simp only [keys]
      constructor
      · intro h2; exact ⟨fun e => h e.symm, h2⟩
      · intro h2; exact h2.2

theorem any_key_eq {p : Pending} {c : Coord} : p.any (·.1 == c) = true ↔ c ∈ keys p := by
  simp only [keys, List.any_eq_true, List.mem_map, beq_iff_eq]

theorem look_eq_some {p : Pending} (hn : (keys p).Nodup) {c : Coord} {d : Nat} :
    look p c = some d ↔ (c, d) ∈ p := by
  induction p with
  | nil => simp [look]
  | cons e rest ih =>
    obtain ⟨c', d'⟩ := e
    simp only [keys, List.map_cons, List.nodup_cons] at hn
    simp only [look, List.mem_cons]
    by_cases h : c' = c
    · subst h
      simp only [if_true, Option.some.injEq, Prod.mk.injEq, true_and]
      constructor
      · intro h; exact Or.inl h.symm
      · rintro (h | h)
        · exact h.symm
        · exact absurd (List.mem_map.mpr ⟨(c', d), h, rfl⟩) hn.1
    · simp only [h, if_false]
      rw [ih hn.2]
      constructor
      · intro h2; exact Or.inr h2
      · rintro (h2 | h2)
        · exact absurd (Prod.mk.inj h2).1.symm h
        · exact h2

theorem keys_perm {p p' : Pending} (h : p'.Perm p) : (keys p').Perm (keys p) := h.map _

/-- the lookup does not depend on the iteration order -/
theorem look_perm {p p' : Pending} (hn : (keys p).Nodup) (h : p'.Perm p) (c : Coord) :
    look p' c = look p c := by
  have hn' : (keys p').Nodup := (keys_perm h).nodup_iff.mpr hn
  cases hl : look p c with
  | none =>
    rw [look_eq_none] at hl ⊢
    exact fun hm => hl ((keys_perm h).mem_iff.mp hm)
  | some d =>
    rw [look_eq_some hn] at hl
    rw [look_eq_some hn']
    exact h.mem_iff.mpr hl

theorem keys_activate_present (p : Pending) (c : Coord) (dur : Nat) :
    keys (p.map (fun e => if e.1 == c then (c, dur) else e)) = keys p := by
  simp only [keys, List.map_map]
  apply List.map_congr_left
  intro e _
  simp only [Function.comp]
  by_cases h : e.1 = c
  · simp [h]
  · simp [h]

theorem keys_activate (p : Pending) (c : Coord) (dur : Nat) :
    keys (heldActivate p c dur) = if c ∈ keys p then keys p else keys p ++ [c] := by
  unfold heldActivate
  by_cases h : c ∈ keys p
  · simp only [any_key_eq.mpr h, h, if_true, keys_activate_present]
  · have : ¬ (p.any (·.1 == c) = true) := fun h2 => h (any_key_eq.mp h2)
    simp only [this, h, if_false]
    simp [keys]

theorem nodup_activate {p : Pending} (hn : (keys p).Nodup) (c : Coord) (dur : Nat) :
    (keys (heldActivate p c dur)).Nodup := by
  rw [keys_activate]
  split
  · exact hn
  · rename_i h
    rw [List.nodup_append]
    refine ⟨hn, by simp, ?_⟩
    intro a ha b hb
    simp only [List.mem_singleton] at hb
    subst hb
    intro hab; subst hab; exact h ha

theorem look_append (p q : Pending) (c : Coord) :
    look (p ++ q) c = match look p c with | some d => some d | none => look q c := by
  induction p with
  | nil => simp [look]
  | cons e rest ih =>
    obtain ⟨c', d⟩ := e
    simp only [List.cons_append, look]
    by_cases h : c' = c
    · simp [h]
    · simp only [h, if_false]; exact ih

theorem look_map_present (p : Pending) (c c' : Coord) (dur : Nat) :
    look (p.map (fun e => if e.1 == c then (c, dur) else e)) c' =
      if c' = c then (match look p c with | some _ => some dur | none => none) else look p c' := by
  induction p with
  | nil => simp [look]
  | cons e rest ih =>
    obtain ⟨c1, d⟩ := e
    simp only [List.map_cons]
    by_cases h1 : c1 = c
    · subst h1
      simp only [beq_self_eq_true, if_true, look]
      by_cases h2 : c1 = c'
      · subst h2; simp
      · have h2' : ¬ c' = c1 := fun e => h2 e.symm
        simp only [h2, h2', if_false]
        rw [ih]; simp [h2']
    · have hb : (c1 == c) = false := by simpa using h1
      simp only [hb, Bool.false_eq_true, if_false, look]
      by_cases h2 : c1 = c'
      · subst h2; simp [h1]
      · simp only [h2, if_false, h1]
        rw [ih]

/-- the map view of an activation: coordinate `c` now counts down from `dur`, every other
coordinate is untouched -/
theorem look_activate (p : Pending) (c c' : Coord) (dur : Nat) :
    look (heldActivate p c dur) c' = if c' = c then some dur else look p c' := by
  unfold heldActivate
  by_cases h : c ∈ keys p
  · simp only [any_key_eq.mpr h, if_true]
    rw [look_map_present]
    by_cases h2 : c' = c
    · simp only [h2, if_true]
      cases hl : look p c with
      | none => exact absurd h (look_eq_none.mp hl)
      | some d => rfl
    · simp [h2]
  · have : ¬ (p.any (·.1 == c) = true) := fun h2 => h (any_key_eq.mp h2)
    simp only [this, if_false, Bool.false_eq_true]
    rw [look_append]
    by_cases h2 : c' = c
    · subst h2
      simp [look_eq_none.mpr h, look]
    · have h2' : ¬ c = c' := fun e => h2 e.symm
      simp only [h2, if_false, look, h2']
      cases look p c' <;> rfl

/-- the map view of one `tick_held_vkeys`: each countdown drops by one on its own, an entry at
(saturated) zero is gone -/
theorem look_heldKept {p : Pending} (hn : (keys p).Nodup) (c : Coord) :
    look (heldKept p) c =
      match look p c with
      | some d => if d - 1 == 0 then none else some (d - 1)
      | none => none := by
  induction p with
  | nil => simp [heldKept, look]
  | cons e rest ih =>
    obtain ⟨c', d⟩ := e
    have hn' := hn
    simp only [keys, List.map_cons, List.nodup_cons] at hn'
    rw [heldKept_cons]
    simp only [look, expires]
    by_cases h : c' = c
    · subst h
      simp only [if_true]
      have hnone : look (heldKept rest) c' = none :=
        look_eq_none.mpr fun hm => hn'.1 ((keys_heldKept_sublist rest).subset hm)
      by_cases hd : (d - 1 == 0) = true
      · simp only [hd, if_true]; exact hnone
      · simp only [hd, if_false, Bool.false_eq_true, look, if_true]
    · simp only [h, if_false]
      by_cases hd : (d - 1 == 0) = true
      · simp only [hd, if_true]; exact ih hn'.2
      · simp only [hd, if_false, Bool.false_eq_true, look, h]; exact ih hn'.2

/-- the release list of one `tick_held_vkeys`, as a multiset: coordinate `c` is in it once if its
countdown reaches zero now, and not at all otherwise -/
theorem count_heldReleased {p : Pending} (hn : (keys p).Nodup) (c : Coord) :
    (heldReleased p).count c =
      match look p c with
      | some d => if d - 1 == 0 then 1 else 0
      | none => 0 := by
  induction p with
  | nil => simp [heldReleased, look]
  | cons e rest ih =>
    obtain ⟨c', d⟩ := e
    have hn' := hn
    simp only [keys, List.map_cons, List.nodup_cons] at hn'
    rw [heldReleased_cons]
    simp only [look, expires]
    by_cases h : c' = c
    · subst h
      simp only [if_true]
      have hzero : (heldReleased rest).count c' = 0 :=
        List.count_eq_zero.mpr fun hm => hn'.1 ((heldReleased_sublist rest).subset hm)
      by_cases hd : (d - 1 == 0) = true
      · simp only [hd, if_true, List.count_cons_self, hzero]
      · simp only [hd, if_false, Bool.false_eq_true]; exact hzero
    · simp only [h, if_false]
      have hb : (c' == c) = false := by simpa using h
      by_cases hd : (d - 1 == 0) = true
      · simp only [hd, if_true, List.count_cons, hb, Bool.false_eq_true, if_false, Nat.add_zero]; exact ih hn'.2
      · simp only [hd, if_false, Bool.false_eq_true]; exact ih hn'.2

theorem nodup_heldKept {p : Pending} (hn : (keys p).Nodup) : (keys (heldKept p)).Nodup :=
  hn.sublist (keys_heldKept_sublist p)

theorem nodup_heldReleased {p : Pending} (hn : (keys p).Nodup) : (heldReleased p).Nodup :=
  hn.sublist (heldReleased_sublist p)

/-! ### histories of the pending entries -/

/-- what can happen to `vkeys_pending_release` -/
inductive HStep
  /-- a `hold-for-duration` activation of coordinate `c` (`customPress`, arm `fakeKeyHold`) -/
  | act (c : Coord) (dur : Nat)
  /-- one `tick_held_vkeys` -/
  | tick
  /-- the hash map presents its entries in another order from now on (ignored unless `p'` is a
  permutation of the present entries) -/
  | reorder (p' : Pending)
  deriving DecidableEq, Repr

/-- one step: the pending entries afterwards, and (for a tick) the releases handed to the layout -/
def heldStep (p : Pending) : HStep → Pending × List (List Coord)
  | .act c dur => (heldActivate p c dur, [])
  | .tick => (heldKept p, [heldReleased p])
  | .reorder p' => (if p'.Perm p then p' else p, [])

/-- a history: the pending entries at the end and the release list of every tick, oldest first -/
def heldRun : List HStep → Pending → Pending × List (List Coord)
  | [], p => (p, [])
  | s :: rest, p =>
    ((heldRun rest (heldStep p s).1).1, (heldStep p s).2 ++ (heldRun rest (heldStep p s).1).2)

/-- number of ticks in a history -/
def ticks : List HStep → Nat
  | [] => 0
  | .tick :: rest => ticks rest + 1
  | _ :: rest => ticks rest

/-- no activation of coordinate `c` in the history -/
def noAct (c : Coord) (h : List HStep) : Bool :=
  h.all fun s => match s with | .act c' _ => c' != c | _ => true

theorem heldRun_act (c : Coord) (dur : Nat) (rest : List HStep) (p : Pending) :
    heldRun (.act c dur :: rest) p = heldRun rest (heldActivate p c dur) := by
  simp [heldRun, heldStep]

theorem heldRun_tick (rest : List HStep) (p : Pending) :
    heldRun (.tick :: rest) p =
      ((heldRun rest (heldKept p)).1, heldReleased p :: (heldRun rest (heldKept p)).2) := by
  simp [heldRun, heldStep]

theorem heldRun_reorder (p' : Pending) (rest : List HStep) (p : Pending) :
    heldRun (.reorder p' :: rest) p = heldRun rest (if p'.Perm p then p' else p) := by
  simp [heldRun, heldStep]

theorem noAct_act (c c' : Coord) (dur : Nat) (rest : List HStep) :
    noAct c (.act c' dur :: rest) = (c' != c && noAct c rest) := rfl
theorem noAct_tick (c : Coord) (rest : List HStep) : noAct c (.tick :: rest) = noAct c rest := rfl
theorem noAct_reorder (c : Coord) (p' : Pending) (rest : List HStep) :
    noAct c (.reorder p' :: rest) = noAct c rest := rfl

theorem heldRun_append (h1 h2 : List HStep) (p : Pending) :
    heldRun (h1 ++ h2) p =
      ((heldRun h2 (heldRun h1 p).1).1, (heldRun h1 p).2 ++ (heldRun h2 (heldRun h1 p).1).2) := by
  induction h1 generalizing p with
  | nil => simp [heldRun]
  | cons s rest ih => simp only [List.cons_append, heldRun, ih, List.append_assoc]

theorem nodup_reorder {p : Pending} (hn : (keys p).Nodup) (p' : Pending) :
    (keys (if p'.Perm p then p' else p)).Nodup := by
  split
  · rename_i h; exact (keys_perm h).nodup_iff.mpr hn
  · exact hn

theorem look_reorder {p : Pending} (hn : (keys p).Nodup) (p' : Pending) (c : Coord) :
    look (if p'.Perm p then p' else p) c = look p c := by
  split
  · rename_i h; exact look_perm hn h c
  · rfl

theorem nodup_step {p : Pending} (hn : (keys p).Nodup) (s : HStep) : (keys (heldStep p s).1).Nodup := by
  cases s with
  | act c dur => exact nodup_activate hn c dur
  | tick => exact nodup_heldKept hn
  | reorder p' => exact nodup_reorder hn p'

theorem nodup_run (h : List HStep) {p : Pending} (hn : (keys p).Nodup) : (keys (heldRun h p).1).Nodup := by
  induction h generalizing p with
  | nil => exact hn
  | cons s rest ih => exact ih (nodup_step hn s)

theorem length_run (h : List HStep) (p : Pending) : (heldRun h p).2.length = ticks h := by
  induction h generalizing p with
  | nil => rfl
  | cons s rest ih =>
    cases s with
    | act c dur => rw [heldRun_act]; exact ih _
    | tick => rw [heldRun_tick]; simp only [List.length_cons, ticks, ih]
    | reorder p' => rw [heldRun_reorder]; exact ih _

/-- a coordinate that is not pending and is not activated stays out: never released, never pending -/
theorem run_absent (c : Coord) : ∀ (h : List HStep) (p : Pending), (keys p).Nodup → look p c = none →
    noAct c h = true →
    look (heldRun h p).1 c = none ∧
      (heldRun h p).2.map (·.count c) = (List.range (ticks h)).map (fun _ => 0) := by
  intro h
  induction h with
  | nil => intro p _ hl _; exact ⟨hl, rfl⟩
  | cons s rest ih =>
    intro p hn hl hno
    cases s with
    | act c' dur =>
      rw [noAct_act, Bool.and_eq_true] at hno
      have hc : ¬ c = c' := by
        have := hno.1; simp only [bne_iff_ne, ne_eq] at this; exact fun e => this e.symm
      have hl1 : look (heldActivate p c' dur) c = none := by
        rw [look_activate]; simp only [hc, if_false]; exact hl
      rw [heldRun_act]
      exact ih _ (nodup_activate hn c' dur) hl1 hno.2
    | reorder p' =>
      rw [noAct_reorder] at hno
      rw [heldRun_reorder]
      exact ih _ (nodup_reorder hn p') (by rw [look_reorder hn]; exact hl) hno
    | tick =>
      rw [noAct_tick] at hno
      have hl1 : look (heldKept p) c = none := by rw [look_heldKept hn, hl]
      have hc : (heldReleased p).count c = 0 := by rw [count_heldReleased hn, hl]
      have := ih _ (nodup_heldKept hn) hl1 hno
      rw [heldRun_tick]
      simp only [ticks, List.map_cons, hc]
      rw [List.range_succ_eq_map, List.map_cons, List.map_map]
      exact ⟨this.1, by rw [this.2]; rfl⟩

/-- the closed form of one entry inside any history: with countdown `d` now and no further activation
of ITS coordinate, after the history it stands at `d − ticks` if fewer than `max d 1` ticks went by
and is gone otherwise; it is released in exactly one tick, the `max d 1`-th -/
theorem run_present (c : Coord) : ∀ (h : List HStep) (p : Pending) (d : Nat), (keys p).Nodup →
    look p c = some d → noAct c h = true →
    look (heldRun h p).1 c = (if ticks h < max d 1 then some (d - ticks h) else none) ∧
    (heldRun h p).2.map (·.count c) =
      (List.range (ticks h)).map (fun i => if i + 1 = max d 1 then 1 else 0) := by
  intro h
  induction h with
  | nil =>
    intro p d _ hl _
    have : 0 < max d 1 := by omega
    simp [heldRun, ticks, hl, this]
  | cons s rest ih =>
    intro p d hn hl hno
    cases s with
    | act c' dur =>
      rw [noAct_act, Bool.and_eq_true] at hno
      have hc : ¬ c = c' := by
        have := hno.1; simp only [bne_iff_ne, ne_eq] at this; exact fun e => this e.symm
      have hl1 : look (heldActivate p c' dur) c = some d := by
        rw [look_activate]; simp only [hc, if_false]; exact hl
      rw [heldRun_act]
      exact ih _ d (nodup_activate hn c' dur) hl1 hno.2
    | reorder p' =>
      rw [noAct_reorder] at hno
      rw [heldRun_reorder]
      exact ih _ d (nodup_reorder hn p') (by rw [look_reorder hn]; exact hl) hno
    | tick =>
      rw [noAct_tick] at hno
      rw [heldRun_tick]
      simp only [ticks, List.map_cons]
      rw [List.range_succ_eq_map, List.map_cons, List.map_map]
      by_cases hd : d - 1 = 0
      · -- released now
        have hb : (d - 1 == 0) = true := by simpa using hd
        have hl1 : look (heldKept p) c = none := by rw [look_heldKept hn, hl]; simp [hb]
        have hc : (heldReleased p).count c = 1 := by rw [count_heldReleased hn, hl]; simp [hb]
        have := run_absent c rest _ (nodup_heldKept hn) hl1 hno
        have hm : max d 1 = 1 := by omega
        refine ⟨?_, ?_⟩
        · rw [this.1, hm]; simp
        · rw [this.2, hc, hm]
          simp only [Nat.zero_add, if_true, List.cons.injEq, true_and]
          apply List.map_congr_left
          intro i _
          simp [Function.comp]
      · have hb : (d - 1 == 0) = false := by simpa using hd
        have hl1 : look (heldKept p) c = some (d - 1) := by rw [look_heldKept hn, hl]; simp [hb]
        have hc : (heldReleased p).count c = 0 := by rw [count_heldReleased hn, hl]; simp [hb]
        have := ih _ (d - 1) (nodup_heldKept hn) hl1 hno
        have hm : max d 1 = d := by omega
        have hm1 : max (d - 1) 1 = d - 1 := by omega
        refine ⟨?_, ?_⟩
        · rw [this.1, hm, hm1]
          by_cases ht : ticks rest < d - 1
          · have : ticks rest + 1 < d := by omega
            simp only [ht, this, if_true]
            congr 1; omega
          · have : ¬ ticks rest + 1 < d := by omega
            simp only [ht, this, if_false]
        · rw [this.2, hc, hm, hm1]
          have h0 : ¬ (0 + 1 = d) := by omega
          simp only [h0, if_false, List.cons.injEq, true_and]
          apply List.map_congr_left
          intro i _
          simp only [Function.comp, Nat.succ_eq_add_one]
          by_cases hi : i + 1 = d - 1
          · have : i + 1 + 1 = d := by omega
            rw [if_pos this, if_pos hi]
          · have : ¬ i + 1 + 1 = d := by omega
            rw [if_neg this, if_neg hi]

/-! ### the same history on the model's state -/

/-- the `fakeKeyHold` arm of `customPress`: re-arm if the coordinate is pending (no second press),
otherwise press the key and start the countdown -/
theorem customPress_hold_eq (k : KState) (c : Coord) (dur : Nat) (cur : List KeyCode) :
    customPress k [.fakeKeyHold c dur] cur =
      if c ∈ keys k.vkeysPendingRelease then
        .ok ({ k with vkeysPendingRelease := heldActivate k.vkeysPendingRelease c dur }, cur)
      else match k.layout.event (.press c) with
        | .error e => .error (.layout e)
        | .ok l => .ok ({ k with layout := l,
                                 vkeysPendingRelease := heldActivate k.vkeysPendingRelease c dur }, cur) := by
  simp only [customPress, customPress.go, heldActivate]
  by_cases h : c ∈ keys k.vkeysPendingRelease
  · simp only [any_key_eq.mpr h, h, if_true]
  · have : ¬ (k.vkeysPendingRelease.any (·.1 == c) = true) := fun h2 => h (any_key_eq.mp h2)
    simp only [this, h, if_false]
    cases k.layout.event (.press c) <;> rfl

/-- one step of a history on the model's state: the real `customPress` / `tickHeldVkeys` -/
def kStep (cur : List KeyCode) (k : KState) : HStep → Except K.Crash KState
  | .act c dur =>
    match customPress k [.fakeKeyHold c dur] cur with
    | .error e => .error e
    | .ok r => .ok r.1
  | .tick => tickHeldVkeys k
  | .reorder p' =>
    .ok { k with vkeysPendingRelease := if p'.Perm k.vkeysPendingRelease then p' else k.vkeysPendingRelease }

def kRun (cur : List KeyCode) : List HStep → KState → Except K.Crash KState
  | [], k => .ok k
  | s :: rest, k =>
    match kStep cur k s with
    | .error e => .error e
    | .ok k' => kRun cur rest k'

theorem kStep_pending {cur : List KeyCode} {k k' : KState} {s : HStep} (h : kStep cur k s = .ok k') :
    k'.vkeysPendingRelease = (heldStep k.vkeysPendingRelease s).1 := by
  cases s with
  | act c dur =>
    simp only [kStep, customPress_hold_eq] at h
    by_cases hc : c ∈ keys k.vkeysPendingRelease
    · simp only [hc, if_true] at h; injection h with h; subst h; rfl
    · simp only [hc, if_false] at h
      cases hev : k.layout.event (.press c) with
      | error e => simp [hev] at h
      | ok l => simp only [hev] at h; injection h with h; subst h; rfl
  | tick =>
    simp only [kStep, tickHeldVkeys_eq] at h
    cases hr : releaseAll (heldReleased k.vkeysPendingRelease) k.layout with
    | error e => simp [hr] at h
    | ok l => simp only [hr] at h; injection h with h; subst h; rfl
  | reorder p' =>
    simp only [kStep] at h
    injection h with h; subst h; rfl

theorem kRun_pending {cur : List KeyCode} : ∀ (h : List HStep) {k k' : KState}, kRun cur h k = .ok k' →
    k'.vkeysPendingRelease = (heldRun h k.vkeysPendingRelease).1 := by
  intro h
  induction h with
  | nil => intro k k' hk; simp only [kRun] at hk; injection hk with hk; subst hk; rfl
  | cons s rest ih =>
    intro k k' hk
    simp only [kRun] at hk
    cases hs : kStep cur k s with
    | error e => simp [hs] at hk
    | ok k1 =>
      simp only [hs] at hk
      rw [ih hk, kStep_pending hs]
      rfl

/-! ## C. `tick_idle_timeout` -/

/-- `self.ticks_since_idle >= wfd.idle_duration` -/
def idleFires (clk : Nat) (w : OnIdle) : Bool := decide (clk ≥ w.idle)

/-- the registrations `retain` keeps -/
def idleKept (clk : Nat) (ws : List OnIdle) : List OnIdle := ws.filter (fun w => !idleFires clk w)

/-- the registrations that fire in this call, in iteration order -/
def idleFired (clk : Nat) (ws : List OnIdle) : List OnIdle := ws.filter (idleFires clk)

/-- `handle_fakekey_action` for each, in order -/
def fireAll : List OnIdle → Layout → Except L.Crash Layout
  | [], l => .ok l
  | w :: ws, l =>
    match fakeKeyAction l w.action w.coord with
    | .error e => .error e
    | .ok l' => fireAll ws l'

theorem idle_go_eq : ∀ (rest : List OnIdle) (k : KState) (kept : List OnIdle),
    tickIdleTimeout.go rest k kept =
      match fireAll (idleFired k.ticksSinceIdle rest) k.layout with
      | .error e => .error (.layout e)
      | .ok l => .ok { k with layout := l,
                              waitingForIdle := kept.reverse ++ idleKept k.ticksSinceIdle rest } := by
  intro rest
  induction rest with
  | nil => intro k kept; simp [tickIdleTimeout.go, idleFired, idleKept, fireAll]
  | cons w rest ih =>
    intro k kept
    unfold tickIdleTimeout.go
    by_cases h : k.ticksSinceIdle ≥ w.idle
    · have hf : idleFires k.ticksSinceIdle w = true := by simp [idleFires, h]
      simp only [h, if_true, idleFired, idleKept, List.filter_cons, hf, Bool.not_true,
        Bool.false_eq_true, if_false, fireAll]
      cases hev : fakeKeyAction k.layout w.action w.coord with
      | error e => rfl
      | ok l => simp only []; rw [ih]; rfl
    · have hf : idleFires k.ticksSinceIdle w = false := by simp [idleFires, h]
      simp only [h, if_false, idleFired, idleKept, List.filter_cons, hf, Bool.not_false, if_true,
        Bool.false_eq_true]
      rw [ih]
      simp [idleFired, idleKept, List.reverse_cons, List.append_assoc]

/-- one `tick_idle_timeout` = perform the registrations whose duration has been reached (in
iteration order), keep the others (in iteration order); the clock is not touched -/
theorem tickIdleTimeout_eq (k : KState) :
    tickIdleTimeout k =
      match fireAll (idleFired k.ticksSinceIdle k.waitingForIdle) k.layout with
      | .error e => .error (.layout e)
      | .ok l => .ok { k with layout := l, waitingForIdle := idleKept k.ticksSinceIdle k.waitingForIdle } := by
  unfold tickIdleTimeout
  rw [idle_go_eq]
  simp

theorem idleKept_perm (clk : Nat) {ws ws' : List OnIdle} (h : ws'.Perm ws) :
    (idleKept clk ws').Perm (idleKept clk ws) := h.filter _

theorem idleFired_perm (clk : Nat) {ws ws' : List OnIdle} (h : ws'.Perm ws) :
    (idleFired clk ws').Perm (idleFired clk ws) := h.filter _

theorem mem_idleKept {clk : Nat} {ws : List OnIdle} {w : OnIdle} :
    w ∈ idleKept clk ws ↔ w ∈ ws ∧ clk < w.idle := by
  simp only [idleKept, List.mem_filter, idleFires, Bool.not_eq_true', decide_eq_false_iff_not, ge_iff_le,
    Nat.not_le]

theorem mem_idleFired {clk : Nat} {ws : List OnIdle} {w : OnIdle} :
    w ∈ idleFired clk ws ↔ w ∈ ws ∧ w.idle ≤ clk := by
  simp only [idleFired, List.mem_filter, idleFires, decide_eq_true_eq, ge_iff_le]

theorem nodup_idleKept {clk : Nat} {ws : List OnIdle} (h : ws.Nodup) : (idleKept clk ws).Nodup :=
  h.sublist List.filter_sublist

theorem nodup_idleFired {clk : Nat} {ws : List OnIdle} (h : ws.Nodup) : (idleFired clk ws).Nodup :=
  h.sublist List.filter_sublist

theorem count_idleFired {clk : Nat} {ws : List OnIdle} (h : ws.Nodup) (w : OnIdle) :
    (idleFired clk ws).count w = if w ∈ ws ∧ w.idle ≤ clk then 1 else 0 := by
  rw [(nodup_idleFired h).count]
  simp only [mem_idleFired]

/-- `waiting_for_idle.insert(fkd)` on the list: a registration already present is not duplicated -/
def idleReg (ws : List OnIdle) (w : OnIdle) : List OnIdle := if ws.contains w then ws else ws ++ [w]

theorem mem_idleReg {ws : List OnIdle} {w w' : OnIdle} : w' ∈ idleReg ws w ↔ w' ∈ ws ∨ w' = w := by
  unfold idleReg
  by_cases h : ws.contains w = true
  · simp only [h, if_true]
    constructor
    · exact Or.inl
    · rintro (h1 | h1)
      · exact h1
      · subst h1; exact List.contains_iff_mem.mp h
  · have h' : w ∉ ws := fun hm => h (List.contains_iff_mem.mpr hm)
    simp [h']

theorem nodup_idleReg {ws : List OnIdle} (hn : ws.Nodup) (w : OnIdle) : (idleReg ws w).Nodup := by
  unfold idleReg
  by_cases h : ws.contains w = true
  · simp only [h, if_true]; exact hn
  · simp only [h, if_false, Bool.false_eq_true]
    rw [List.nodup_append]
    refine ⟨hn, by simp, ?_⟩
    intro a ha b hb
    simp only [List.mem_singleton] at hb
    subst hb
    intro hab; subst hab
    exact h (List.contains_iff_mem.mpr ha)

/-- the `fakeKeyOnIdle` arm of `customPress`: the idle clock restarts and the registration is
inserted into the set -/
theorem customPress_onIdle_eq (k : KState) (c : Coord) (a : FkAction) (idle : Nat) (cur : List KeyCode) :
    customPress k [.fakeKeyOnIdle c a idle] cur =
      .ok ({ k with ticksSinceIdle := 0,
                    waitingForIdle := idleReg k.waitingForIdle { coord := c, action := a, idle := idle } }, cur) := by
  simp only [customPress, customPress.go, idleReg]

/-! ### histories of the on-idle registrations -/

/-- what can happen to `(ticks_since_idle, waiting_for_idle)` -/
inductive IStep
  /-- an `on-idle` action is performed by a key: registration, the idle clock restarts -/
  | reg (w : OnIdle)
  /-- the idle clock is set (by `handle_input_event`: 0; by `can_block_update_idle_waiting`: 0 when
  not idle, `min (clock + ms) 65535` when idle) — any value: the theorems hold however it moves -/
  | clock (n : Nat)
  /-- one `tick_idle_timeout` -/
  | tick
  /-- the hash set presents its entries in another order from now on (ignored unless `ws'` is a
  permutation of the present entries) -/
  | reorder (ws' : List OnIdle)
  deriving DecidableEq, Repr

abbrev IState := Nat × List OnIdle

/-- one step: the state afterwards and (for a tick) the clock value it saw and what it fired -/
def idleStep (s : IState) : IStep → IState × List (Nat × List OnIdle)
  | .reg w => ((0, idleReg s.2 w), [])
  | .clock n => ((n, s.2), [])
  | .tick => ((s.1, idleKept s.1 s.2), [(s.1, idleFired s.1 s.2)])
  | .reorder ws' => ((s.1, if ws'.Perm s.2 then ws' else s.2), [])

def idleRun : List IStep → IState → IState × List (Nat × List OnIdle)
  | [], s => (s, [])
  | x :: rest, s =>
    ((idleRun rest (idleStep s x).1).1, (idleStep s x).2 ++ (idleRun rest (idleStep s x).1).2)

def iticks : List IStep → Nat
  | [] => 0
  | .tick :: rest => iticks rest + 1
  | _ :: rest => iticks rest

/-- registration `w` is not (re-)registered in the history -/
def noReg (w : OnIdle) (h : List IStep) : Bool :=
  h.all fun s => match s with | .reg w' => w' != w | _ => true

/-- 1 at the first clock value that has reached `D`, 0 everywhere else -/
def firstHit (D : Nat) : List Nat → List Nat
  | [] => []
  | c :: cs => if D ≤ c then 1 :: cs.map (fun _ => 0) else 0 :: firstHit D cs

theorem idleRun_reg (w : OnIdle) (rest : List IStep) (s : IState) :
    idleRun (.reg w :: rest) s = idleRun rest (0, idleReg s.2 w) := by
  simp [idleRun, idleStep]
theorem idleRun_clock (n : Nat) (rest : List IStep) (s : IState) :
    idleRun (.clock n :: rest) s = idleRun rest (n, s.2) := by
  simp [idleRun, idleStep]
theorem idleRun_tick (rest : List IStep) (s : IState) :
    idleRun (.tick :: rest) s =
      ((idleRun rest (s.1, idleKept s.1 s.2)).1,
        (s.1, idleFired s.1 s.2) :: (idleRun rest (s.1, idleKept s.1 s.2)).2) := by
  simp [idleRun, idleStep]
theorem idleRun_reorder (ws' : List OnIdle) (rest : List IStep) (s : IState) :
    idleRun (.reorder ws' :: rest) s = idleRun rest (s.1, if ws'.Perm s.2 then ws' else s.2) := by
  simp [idleRun, idleStep]

theorem noReg_reg (w w' : OnIdle) (rest : List IStep) :
    noReg w (.reg w' :: rest) = (w' != w && noReg w rest) := rfl
theorem noReg_clock (w : OnIdle) (n : Nat) (rest : List IStep) : noReg w (.clock n :: rest) = noReg w rest := rfl
theorem noReg_tick (w : OnIdle) (rest : List IStep) : noReg w (.tick :: rest) = noReg w rest := rfl
theorem noReg_reorder (w : OnIdle) (ws' : List OnIdle) (rest : List IStep) :
    noReg w (.reorder ws' :: rest) = noReg w rest := rfl

theorem idleRun_append (h1 h2 : List IStep) (s : IState) :
    idleRun (h1 ++ h2) s =
      ((idleRun h2 (idleRun h1 s).1).1, (idleRun h1 s).2 ++ (idleRun h2 (idleRun h1 s).1).2) := by
  induction h1 generalizing s with
  | nil => simp [idleRun]
  | cons x rest ih => simp only [List.cons_append, idleRun, ih, List.append_assoc]

theorem nodup_ireorder {ws : List OnIdle} (hn : ws.Nodup) (ws' : List OnIdle) :
    (if ws'.Perm ws then ws' else ws).Nodup := by
  split
  · rename_i h; exact h.nodup_iff.mpr hn
  · exact hn

theorem mem_ireorder {ws : List OnIdle} (ws' : List OnIdle) (w : OnIdle) :
    w ∈ (if ws'.Perm ws then ws' else ws) ↔ w ∈ ws := by
  split
  · rename_i h; exact h.mem_iff
  · exact Iff.rfl

theorem nodup_istep {s : IState} (hn : s.2.Nodup) (x : IStep) : (idleStep s x).1.2.Nodup := by
  cases x with
  | reg w => exact nodup_idleReg hn w
  | clock n => exact hn
  | tick => exact nodup_idleKept hn
  | reorder ws' => exact nodup_ireorder hn ws'

theorem nodup_irun (h : List IStep) {s : IState} (hn : s.2.Nodup) : (idleRun h s).1.2.Nodup := by
  induction h generalizing s with
  | nil => exact hn
  | cons x rest ih => exact ih (nodup_istep hn x)

theorem length_irun (h : List IStep) (s : IState) : (idleRun h s).2.length = iticks h := by
  induction h generalizing s with
  | nil => rfl
  | cons x rest ih =>
    cases x with
    | reg w => rw [idleRun_reg]; exact ih _
    | clock n => rw [idleRun_clock]; exact ih _
    | tick => rw [idleRun_tick]; simp only [List.length_cons, iticks, ih]
    | reorder ws' => rw [idleRun_reorder]; exact ih _

/-- a registration that is not in the set and is not made stays out and never fires -/
theorem irun_absent (w : OnIdle) : ∀ (h : List IStep) (s : IState), s.2.Nodup → w ∉ s.2 → noReg w h = true →
    w ∉ (idleRun h s).1.2 ∧
    (idleRun h s).2.map (fun e => e.2.count w) = (idleRun h s).2.map (fun _ => 0) := by
  intro h
  induction h with
  | nil => intro s _ hm _; exact ⟨hm, rfl⟩
  | cons x rest ih =>
    intro s hn hm hno
    cases x with
    | reg w' =>
      rw [noReg_reg, Bool.and_eq_true] at hno
      have hc : ¬ w = w' := by
        have := hno.1; simp only [bne_iff_ne, ne_eq] at this; exact fun e => this e.symm
      rw [idleRun_reg]
      refine ih _ (nodup_idleReg hn w') ?_ hno.2
      intro hm2
      rcases mem_idleReg.mp hm2 with h1 | h1
      · exact hm h1
      · exact hc h1
    | clock n =>
      rw [noReg_clock] at hno
      rw [idleRun_clock]
      exact ih _ hn hm hno
    | reorder ws' =>
      rw [noReg_reorder] at hno
      rw [idleRun_reorder]
      exact ih _ (nodup_ireorder hn ws') (fun hm2 => hm ((mem_ireorder ws' w).mp hm2)) hno
    | tick =>
      rw [noReg_tick] at hno
      rw [idleRun_tick]
      have hk : w ∉ idleKept s.1 s.2 := fun hm2 => hm (mem_idleKept.mp hm2).1
      have hc : (idleFired s.1 s.2).count w = 0 :=
        List.count_eq_zero.mpr fun hm2 => hm (mem_idleFired.mp hm2).1
      have := ih (s.1, idleKept s.1 s.2) (nodup_idleKept hn) hk hno
      simp only [List.map_cons, hc]
      exact ⟨this.1, by rw [this.2]⟩

/-- the closed form of one registration inside any history: it fires in exactly one tick — the first
one that sees the idle clock at or above ITS duration — and is registered afterwards exactly if no
tick has seen that -/
theorem irun_present (w : OnIdle) : ∀ (h : List IStep) (s : IState), s.2.Nodup → w ∈ s.2 → noReg w h = true →
    (w ∈ (idleRun h s).1.2 ↔ ∀ e ∈ (idleRun h s).2, e.1 < w.idle) ∧
    (idleRun h s).2.map (fun e => e.2.count w) = firstHit w.idle ((idleRun h s).2.map (·.1)) := by
  intro h
  induction h with
  | nil =>
    intro s _ hm _
    simp [idleRun, firstHit, hm]
  | cons x rest ih =>
    intro s hn hm hno
    cases x with
    | reg w' =>
      rw [noReg_reg, Bool.and_eq_true] at hno
      rw [idleRun_reg]
      exact ih _ (nodup_idleReg hn w') (mem_idleReg.mpr (Or.inl hm)) hno.2
    | clock n =>
      rw [noReg_clock] at hno
      rw [idleRun_clock]
      exact ih _ hn hm hno
    | reorder ws' =>
      rw [noReg_reorder] at hno
      rw [idleRun_reorder]
      exact ih _ (nodup_ireorder hn ws') ((mem_ireorder ws' w).mpr hm) hno
    | tick =>
      rw [noReg_tick] at hno
      rw [idleRun_tick]
      simp only [List.map_cons, firstHit, List.mem_cons, forall_eq_or_imp]
      by_cases hd : w.idle ≤ s.1
      · -- fires now
        have hk : w ∉ idleKept s.1 s.2 := fun hm2 => by
          have := (mem_idleKept.mp hm2).2; omega
        have hc : (idleFired s.1 s.2).count w = 1 := by
          rw [count_idleFired hn]; simp [hm, hd]
        have := irun_absent w rest (s.1, idleKept s.1 s.2) (nodup_idleKept hn) hk hno
        refine ⟨?_, ?_⟩
        · constructor
          · intro hm2; exact absurd hm2 this.1
          · intro hall; have := hall.1; omega
        · simp only [hd, if_true, hc, List.cons.injEq, true_and]
          rw [this.2, List.map_map]
          rfl
      · have hk : w ∈ idleKept s.1 s.2 := mem_idleKept.mpr ⟨hm, by omega⟩
        have hc : (idleFired s.1 s.2).count w = 0 := by
          rw [count_idleFired hn]; simp [hd]
        have := ih (s.1, idleKept s.1 s.2) (nodup_idleKept hn) hk hno
        refine ⟨?_, ?_⟩
        · rw [this.1]
          constructor
          · intro hall; exact ⟨by omega, hall⟩
          · intro hall; exact hall.2
        · simp only [hd, if_false, hc, List.cons.injEq, true_and]
          exact this.2

/-! ### the same history on the model's state -/

/-- one step of an on-idle history on the model's state: the real `customPress` / `tickIdleTimeout`;
`clock n` stands for whatever sets `ticks_since_idle` (`handleInputEvent`, `canBlockUpdateIdleWaiting`) -/
def kiStep (cur : List KeyCode) (k : KState) : IStep → Except K.Crash KState
  | .reg w =>
    match customPress k [.fakeKeyOnIdle w.coord w.action w.idle] cur with
    | .error e => .error e
    | .ok r => .ok r.1
  | .clock n => .ok { k with ticksSinceIdle := n }
  | .tick => tickIdleTimeout k
  | .reorder ws' =>
    .ok { k with waitingForIdle := if ws'.Perm k.waitingForIdle then ws' else k.waitingForIdle }

def kiRun (cur : List KeyCode) : List IStep → KState → Except K.Crash KState
  | [], k => .ok k
  | s :: rest, k =>
    match kiStep cur k s with
    | .error e => .error e
    | .ok k' => kiRun cur rest k'

theorem kiStep_state {cur : List KeyCode} {k k' : KState} {s : IStep} (h : kiStep cur k s = .ok k') :
    (k'.ticksSinceIdle, k'.waitingForIdle) = (idleStep (k.ticksSinceIdle, k.waitingForIdle) s).1 := by
  cases s with
  | reg w =>
    simp only [kiStep, customPress_onIdle_eq] at h
    injection h with h; subst h; rfl
  | clock n =>
    simp only [kiStep] at h
    injection h with h; subst h; rfl
  | tick =>
    simp only [kiStep, tickIdleTimeout_eq] at h
    cases hr : fireAll (idleFired k.ticksSinceIdle k.waitingForIdle) k.layout with
    | error e => simp [hr] at h
    | ok l => simp only [hr] at h; injection h with h; subst h; rfl
  | reorder ws' =>
    simp only [kiStep] at h
    injection h with h; subst h; rfl

theorem kiRun_state {cur : List KeyCode} : ∀ (h : List IStep) {k k' : KState}, kiRun cur h k = .ok k' →
    (k'.ticksSinceIdle, k'.waitingForIdle) = (idleRun h (k.ticksSinceIdle, k.waitingForIdle)).1 := by
  intro h
  induction h with
  | nil => intro k k' hk; simp only [kiRun] at hk; injection hk with hk; subst hk; rfl
  | cons s rest ih =>
    intro k k' hk
    simp only [kiRun] at hk
    cases hs : kiStep cur k s with
    | error e => simp [hs] at hk
    | ok k1 =>
      simp only [hs] at hk
      rw [ih hk, kiStep_state hs]
      rfl

/-! ### the layout side of `tick_idle_timeout`, while the queue has room -/

/-- the events `handle_fakekey_action` hands to `Layout::event` (toggle looks at the key states) -/
def idleEvs (states : List St) (w : OnIdle) : List Ev :=
  match w.action with
  | .press => [.press w.coord]
  | .release => [.release w.coord]
  | .tap => [.press w.coord, .release w.coord]
  | .toggle => if statesHasCoord states w.coord then [.release w.coord] else [.press w.coord]

/-- `Layout::event` while the queue has room -/
def pushEv (l : Layout) (e : Ev) : Layout :=
  match e with
  | .press c => { l with histInputs := histPush l.histInputs c, queue := l.queue ++ [⟨.press c, 0⟩] }
  | .release c => { l with queue := l.queue ++ [⟨.release c, 0⟩] }

def pushEvs (l : Layout) (es : List Ev) : Layout := es.foldl pushEv l

theorem pushEv_states (l : Layout) (e : Ev) : (pushEv l e).states = l.states := by cases e <;> rfl
theorem pushEv_queue (l : Layout) (e : Ev) : (pushEv l e).queue = l.queue ++ [⟨e, 0⟩] := by cases e <;> rfl

theorem pushEvs_states (es : List Ev) (l : Layout) : (pushEvs l es).states = l.states := by
  induction es generalizing l with
  | nil => rfl
  | cons e es ih => simp only [pushEvs, List.foldl_cons] at ih ⊢; rw [ih, pushEv_states]

theorem pushEvs_queue (es : List Ev) (l : Layout) :
    (pushEvs l es).queue = l.queue ++ es.map (fun e => ⟨e, 0⟩) := by
  induction es generalizing l with
  | nil => simp [pushEvs]
  | cons e es ih =>
    simp only [pushEvs, List.foldl_cons] at ih ⊢
    rw [ih, pushEv_queue]; simp [List.append_assoc]

theorem event_room (l : Layout) (e : Ev) (h : l.queue.length < QUEUE_SIZE) : l.event e = .ok (pushEv l e) := by
  cases e with
  | press c => exact event_press_room l c h
  | release c => exact event_release_room l c h

theorem fakeKeyAction_room (l : Layout) (w : OnIdle)
    (h : l.queue.length + (idleEvs l.states w).length ≤ QUEUE_SIZE) :
    fakeKeyAction l w.action w.coord = .ok (pushEvs l (idleEvs l.states w)) := by
  unfold idleEvs at h ⊢
  unfold fakeKeyAction
  cases ha : w.action with
  | press =>
    simp only [ha, List.length_cons, List.length_nil] at h
    simp only [pushEvs, List.foldl_cons, List.foldl_nil]
    exact event_room l _ (by omega)
  | release =>
    simp only [ha, List.length_cons, List.length_nil] at h
    simp only [pushEvs, List.foldl_cons, List.foldl_nil]
    exact event_room l _ (by omega)
  | tap =>
    simp only [ha, List.length_cons, List.length_nil] at h
    simp only [pushEvs, List.foldl_cons, List.foldl_nil]
    rw [event_room l _ (by omega)]
    simp only []
    exact event_room _ _ (by rw [pushEv_queue]; simp only [List.length_append, List.length_cons, List.length_nil]; omega)
  | toggle =>
    simp only [ha] at h
    by_cases hs : statesHasCoord l.states w.coord = true
    · simp only [hs, if_true, List.length_cons, List.length_nil] at h
      simp only [hs, if_true, pushEvs, List.foldl_cons, List.foldl_nil]
      exact event_room l _ (by omega)
    · simp only [hs, if_false, List.length_cons, List.length_nil, Bool.false_eq_true] at h
      simp only [hs, if_false, pushEvs, List.foldl_cons, List.foldl_nil, Bool.false_eq_true]
      exact event_room l _ (by omega)

/-- while the queue has room, the registrations that fire only append their events to the queue (and
their presses to the input history), in iteration order; the key states are not touched, so every
toggle sees the key states of before the call -/
theorem fireAll_room : ∀ (ws : List OnIdle) (l : Layout),
    l.queue.length + (ws.flatMap (idleEvs l.states)).length ≤ QUEUE_SIZE →
    fireAll ws l = .ok (pushEvs l (ws.flatMap (idleEvs l.states))) := by
  intro ws
  induction ws with
  | nil => intro l _; rfl
  | cons w ws ih =>
    intro l h
    simp only [List.flatMap_cons, List.length_append] at h
    rw [fireAll, fakeKeyAction_room l w (by omega)]
    simp only []
    have hst := pushEvs_states (idleEvs l.states w) l
    have hq := pushEvs_queue (idleEvs l.states w) l
    rw [ih _ (by rw [hst, hq]; simp only [List.length_append, List.length_map]; omega), hst]
    simp only [List.flatMap_cons, pushEvs, List.foldl_append]

/-! ## D. the layout consuming release events (`Layout::dequeue`, arm `Release`) -/

/-- a key state survives the release of coordinate `c`: not flagged "clear on next release", and not
at coordinate `c` -/
def relKeep (c : Coord) (st : St) : Bool := !st.clearOnNextRelease && !(st.coord == some c)

theorem release_fst (st : St) (c : Coord) (cu : CustomEv) :
    (st.release c cu).1 = if st.coord == some c then none else some st := by
  cases st <;> simp only [St.release, St.coord] <;>
    first
    | rfl
    | (rename_i a b; by_cases h : b = c <;> simp [h])
    | (rename_i a b d; by_cases h : b = c <;> simp [h])

/-- releasing `c` does not look at states of other coordinates when it builds its custom event -/
theorem release_snd_other (st : St) (c : Coord) (cu : CustomEv) (h : (st.coord == some c) = false) :
    (st.release c cu).2 = cu := by
  cases st <;> simp only [St.release, St.coord] at h ⊢ <;>
    first
    | rfl
    | (rename_i a b; have hb : ¬ b = c := by simpa using h
       simp [hb])
    | (rename_i a b d; have hb : ¬ b = c := by simpa using h
       simp [hb])

/-- the key states after `release_states` for an ordinary release: a filter -/
theorem releaseStates_fst (c : Coord) : ∀ (xs : List St) (cu : CustomEv),
    (releaseStates true c xs cu).1 = xs.filter (relKeep c) := by
  intro xs
  induction xs with
  | nil => intro cu; rfl
  | cons st rest ih =>
    intro cu
    unfold releaseStates
    by_cases hf : st.clearOnNextRelease = true
    · simp only [hf, Bool.and_self, if_true, List.filter_cons, relKeep, Bool.not_true, Bool.false_and,
        Bool.false_eq_true, if_false]
      exact ih cu
    · have hf' : st.clearOnNextRelease = false := by simpa using hf
      simp only [hf', Bool.and_false, Bool.false_eq_true, if_false, List.filter_cons, relKeep,
        Bool.not_false, Bool.true_and]
      have h1 := release_fst st c cu
      by_cases hc : (st.coord == some c) = true
      · rw [hc] at h1
        simp only [if_true] at h1
        simp only [hc, Bool.not_true, Bool.false_eq_true, if_false]
        rw [show (st.release c cu) = ((st.release c cu).1, (st.release c cu).2) from rfl]
        simp only [h1]
        exact ih _
      · have hc' : (st.coord == some c) = false := by simpa using hc
        rw [hc'] at h1
        simp only [Bool.false_eq_true, if_false] at h1
        simp only [hc', Bool.not_false, if_true]
        rw [show (st.release c cu) = ((st.release c cu).1, (st.release c cu).2) from rfl]
        simp only [h1]
        rw [ih]

/-- the custom event of releasing `c1` is the same whether or not another coordinate `c2` has been
released before -/
theorem releaseStates_snd_filter {c1 c2 : Coord} (hne : c1 ≠ c2) : ∀ (xs : List St) (cu : CustomEv),
    (releaseStates true c1 (xs.filter (relKeep c2)) cu).2 = (releaseStates true c1 xs cu).2 := by
  intro xs
  induction xs with
  | nil => intro cu; rfl
  | cons st rest ih =>
    intro cu
    by_cases hf : st.clearOnNextRelease = true
    · -- flagged: dropped by both, contributes nothing
      have hk : relKeep c2 st = false := by simp [relKeep, hf]
      simp only [List.filter_cons, hk, Bool.false_eq_true, if_false]
      rw [ih]
      conv => rhs; unfold releaseStates
      simp only [hf, Bool.and_self, if_true]
    · have hf' : st.clearOnNextRelease = false := by simpa using hf
      by_cases hc : (st.coord == some c2) = true
      · -- at coordinate c2: removed on the left; on the right it is not at c1, so the event is unchanged
        have hk : relKeep c2 st = false := by simp [relKeep, hc]
        have hc1 : (st.coord == some c1) = false := by
          have : st.coord = some c2 := by simpa using hc
          rw [this]; simpa using fun e : c2 = c1 => hne e.symm
        simp only [List.filter_cons, hk, Bool.false_eq_true, if_false]
        rw [ih]
        conv => rhs; unfold releaseStates
        simp only [hf', Bool.and_false, Bool.false_eq_true, if_false]
        rw [show (st.release c1 cu) = ((st.release c1 cu).1, (st.release c1 cu).2) from rfl]
        simp only [release_snd_other st c1 cu hc1]
        split <;> rfl
      · have hc' : (st.coord == some c2) = false := by simpa using hc
        have hk : relKeep c2 st = true := by simp [relKeep, hf', hc']
        simp only [List.filter_cons, hk, if_true]
        conv => lhs; unfold releaseStates
        conv => rhs; unfold releaseStates
        simp only [hf', Bool.and_false, Bool.false_eq_true, if_false]
        rw [show (st.release c1 cu) = ((st.release c1 cu).1, (st.release c1 cu).2) from rfl]
        simp only []
        rw [ih]
        split <;> rfl

/-- `OneShotState::handle_release` for a coordinate that is not a one-shot key: at most the
release-on-next-tick flag is set -/
def relOsh (o : OneShotState) (c : Coord) : OneShotState :=
  if o.keys.isEmpty then o
  else if (o.endConfig == .firstRelease || o.endConfig == .firstReleaseOrRepress) &&
      o.otherPressedKeys.contains c then { o with releaseOnNextTick := true }
  else o

theorem relOsh_frame (o : OneShotState) (c : Coord) :
    (relOsh o c).keys = o.keys ∧ (relOsh o c).endConfig = o.endConfig ∧
    (relOsh o c).otherPressedKeys = o.otherPressedKeys := by
  unfold relOsh
  split
  · exact ⟨rfl, rfl, rfl⟩
  · split <;> exact ⟨rfl, rfl, rfl⟩

theorem relOsh_comm (o : OneShotState) (c1 c2 : Coord) :
    relOsh (relOsh o c1) c2 = relOsh (relOsh o c2) c1 := by
  unfold relOsh
  by_cases hk : o.keys.isEmpty = true
  · simp only [hk, if_true]
  · simp only [hk, if_false, Bool.false_eq_true]
    by_cases h1 : ((o.endConfig == .firstRelease || o.endConfig == .firstReleaseOrRepress) &&
        o.otherPressedKeys.contains c1) = true <;>
    by_cases h2 : ((o.endConfig == .firstRelease || o.endConfig == .firstReleaseOrRepress) &&
        o.otherPressedKeys.contains c2) = true <;>
    simp only [h1, h2, hk, if_true, if_false, Bool.false_eq_true]

/-- the layout after one release has been taken from the queue (coordinate not a one-shot key) -/
def releaseNow (s : Layout) (c : Coord) : Layout :=
  { s with oneshot := relOsh s.oneshot c, states := s.states.filter (relKeep c) }

/-- the custom event (release of a `Custom` action's state at `c`) that comes with it -/
def releaseCustom (states : List St) (c : Coord) : CustomEv := (releaseStates true c states .noEvent).2

theorem handleRelease_notKey (o : OneShotState) (c : Coord) (h : o.keys.contains c = false) :
    o.handleRelease c = (relOsh o c, true, none) := by
  unfold OneShotState.handleRelease relOsh
  by_cases hk : o.keys.isEmpty = true
  · simp only [hk, if_true]
  · simp only [hk, if_false, Bool.false_eq_true, h, Bool.not_false, if_true]
    split <;> rfl

/-- `Layout::dequeue` of a release whose coordinate is not a one-shot key, in closed form -/
theorem dequeue_release_eq (fuel : Nat) (s : Layout) (c : Coord) (t : Nat)
    (h : s.oneshot.keys.contains c = false) :
    dequeue (fuel + 1) s ⟨.release c, t⟩ = .ok (releaseNow s c, releaseCustom s.states c) := by
  simp only [dequeue, handleRelease_notKey s.oneshot c h, if_true]
  simp only [releaseNow, releaseCustom, releaseStates_fst]

theorem releaseNow_comm (s : Layout) (c1 c2 : Coord) :
    releaseNow (releaseNow s c1) c2 = releaseNow (releaseNow s c2) c1 := by
  simp only [releaseNow, relOsh_comm s.oneshot c1 c2, List.filter_filter]
  congr 1
  apply List.filter_congr
  intro x _
  exact Bool.and_comm _ _

theorem releaseNow_keys (s : Layout) (c : Coord) : (releaseNow s c).oneshot.keys = s.oneshot.keys :=
  (relOsh_frame s.oneshot c).1

/-- the layout consumes the queued releases of `cs` one after the other (as `tick` does, one per
tick); `age c` is how long the event of `c` has waited (irrelevant for a release).  Returns the
layout and, per release, the custom event it produced. -/
def consume (age : Coord → Nat) : List Coord → Layout → Except L.Crash (Layout × List (Coord × CustomEv))
  | [], s => .ok (s, [])
  | c :: cs, s =>
    match dequeue FUEL s ⟨.release c, age c⟩ with
    | .error e => .error e
    | .ok (s', cu) =>
      match consume age cs s' with
      | .error e => .error e
      | .ok (s'', log) => .ok (s'', (c, cu) :: log)

theorem foldl_releaseNow_keys (cs : List Coord) (s : Layout) :
    (cs.foldl releaseNow s).oneshot.keys = s.oneshot.keys := by
  induction cs generalizing s with
  | nil => rfl
  | cons c cs ih => simp only [List.foldl_cons]; rw [ih, releaseNow_keys]

/-- consuming releases of distinct coordinates (none a one-shot key): the key states are filtered by
every coordinate, and each release reports the custom event it would report alone -/
theorem consume_eq (age : Coord → Nat) : ∀ (cs : List Coord) (s : Layout), cs.Nodup →
    (∀ c ∈ cs, s.oneshot.keys.contains c = false) →
    consume age cs s = .ok (cs.foldl releaseNow s, cs.map fun c => (c, releaseCustom s.states c)) := by
  intro cs
  induction cs with
  | nil => intro s _ _; rfl
  | cons c cs ih =>
    intro s hn hk
    rw [List.nodup_cons] at hn
    have hk' : ∀ c' ∈ cs, (releaseNow s c).oneshot.keys.contains c' = false := by
      intro c' hc'; rw [releaseNow_keys]; exact hk c' (List.mem_cons_of_mem _ hc')
    unfold consume
    rw [FUEL_succ, dequeue_release_eq 3999 s c (age c) (hk c List.mem_cons_self)]
    simp only [ih (releaseNow s c) hn.2 hk', List.foldl_cons, List.map_cons]
    congr 3
    apply List.map_congr_left
    intro c' hc'
    have hne : c' ≠ c := fun e => hn.1 (e ▸ hc')
    simp only [releaseCustom, releaseNow]
    rw [releaseStates_snd_filter hne]

theorem foldl_releaseNow_states (cs : List Coord) (s : Layout) :
    (cs.foldl releaseNow s).states = s.states.filter (fun st => cs.all fun c => relKeep c st) := by
  induction cs generalizing s with
  | nil =>
    simp only [List.foldl_nil, List.all_nil]
    exact (List.filter_eq_self.mpr fun _ _ => rfl).symm
  | cons c cs ih =>
    simp only [List.foldl_cons]
    rw [ih]
    simp only [releaseNow, List.filter_filter, List.all_cons]
    apply List.filter_congr
    intro x _
    exact Bool.and_comm _ _

/-- the order in which releases are consumed does not matter for the layout that results -/
theorem foldl_releaseNow_perm {cs cs' : List Coord} (h : cs'.Perm cs) (s : Layout) :
    cs'.foldl releaseNow s = cs.foldl releaseNow s :=
  h.foldl_eq' (fun x _ y _ z => releaseNow_comm z x y) s

/-! ## E. concrete witnesses (used by the examples and counterexamples of Props/C18multi) -/

abbrev R := Except K.Crash KState

/-- `n` calls of `tick_states` -/
def ticksN : Nat → KState → R
  | 0, k => .ok k
  | n + 1, k => match tickStates k with | .error e => .error e | .ok k' => ticksN n k'

def andThen (r : R) (f : KState → R) : R := match r with | .ok k => f k | .error e => .error e

/-- what is observed: the events sent to the OS so far, the keys the layout holds down, the pending
hold-for-duration entries -/
def obsHeld (r : R) : Option (List Os × List KeyCode × Pending) :=
  match r with | .ok k => some (k.out, k.layout.keycodes, k.vkeysPendingRelease) | .error _ => none

/-- the events sent to the OS so far and the keys the layout holds down -/
def obsOut (r : R) : Option (List Os × List KeyCode) :=
  match r with | .ok k => some (k.out, k.layout.keycodes) | .error _ => none

/-- likewise with the on-idle registrations and the idle clock -/
def obsIdle (r : R) : Option (List Os × List KeyCode × List OnIdle × Nat) :=
  match r with
  | .ok k => some (k.out, k.layout.keycodes, k.waitingForIdle, k.ticksSinceIdle)
  | .error _ => none

def someMods : ModCodes := { codes := [42, 54, 56, 100, 29, 97, 125, 126], lsft := 42, rsft := 54 }

/-- ```
(defvirtualkeys v2 x  v0 (on-release-fakekey v2 press)  v1 (on-release-fakekey v2 release))
(defsrc a)
(deflayer l0 (multi (hold-for-duration 3 v0) (hold-for-duration 3 v1)))
``` with v2 v0 v1 at (1,0) (1,1) (1,2) as the real parser numbers them, `a` = 30, `x` = 45 -/
def heldCxK0 : KState :=
  { layout := { cfg := { layers := [[((0, 30), .custom 2), ((1, 0), .keyCode 45), ((1, 1), .custom 0),
                                      ((1, 2), .custom 1)]],
                         srcKeys := [(30, .keyCode 30)] } },
    customs := [[.fakeKeyOnRelease (1, 0) .press], [.fakeKeyOnRelease (1, 0) .release],
                [.fakeKeyHold (1, 1) 3, .fakeKeyHold (1, 2) 3]],
    keyOutputs := [], mods := someMods }

/-- press `a`, one tick, release `a` -/
def heldCxK1 : R :=
  andThen (handleInputEvent heldCxK0 (.press 30)) fun k =>
  andThen (ticksN 1 k) fun k => handleInputEvent k (.release 30)

/-- ```
(defvirtualkeys v2 x) (defsrc a)
(deflayer l0 (multi (on-idle-fakekey v2 press 20) (on-idle-fakekey v2 release 20)))
``` with v2 at (1,0) -/
def idleCxK0 : KState :=
  { layout := { cfg := { layers := [[((0, 30), .custom 0), ((1, 0), .keyCode 45)]],
                         srcKeys := [(30, .keyCode 30)] } },
    customs := [[.fakeKeyOnIdle (1, 0) .press 20, .fakeKeyOnIdle (1, 0) .release 20]],
    keyOutputs := [], mods := someMods }

/-- press `a`, one tick, release `a`, two ticks, then the loop sees 20 ms without input -/
def idleCxK1 : R :=
  andThen (handleInputEvent idleCxK0 (.press 30)) fun k =>
  andThen (ticksN 1 k) fun k =>
  andThen (handleInputEvent k (.release 30)) fun k =>
  andThen (ticksN 2 k) fun k => .ok (canBlockUpdateIdleWaiting k 20).1

/-- three virtual keys q w e held for a duration, two of them expiring in the same tick -/
def exK : KState :=
  { layout := { cfg := { layers := [[((1, 0), .keyCode 16), ((1, 1), .keyCode 17), ((1, 2), .keyCode 18)]],
                         srcKeys := [] },
                states := [.normalKey 16 (1, 0) 0, .normalKey 17 (1, 1) 0, .normalKey 18 (1, 2) 0] },
    customs := [], keyOutputs := [], mods := someMods,
    vkeysPendingRelease := [((1, 0), 1), ((1, 1), 3), ((1, 2), 1)] }

/-- the same configuration with nothing pending and nothing held -/
def exK0 : KState := { exK with vkeysPendingRelease := [], layout := { exK.layout with states := [] } }

def exP' : Pending := [((1, 2), 1), ((1, 0), 1), ((1, 1), 3)]

/-- three on-idle registrations, two of them with the same duration -/
def exWs : List OnIdle :=
  [{ coord := (1, 0), action := .press, idle := 20 }, { coord := (1, 1), action := .tap, idle := 50 },
   { coord := (1, 2), action := .toggle, idle := 20 }]

def exWs' : List OnIdle :=
  [{ coord := (1, 2), action := .toggle, idle := 20 }, { coord := (1, 1), action := .tap, idle := 50 },
   { coord := (1, 0), action := .press, idle := 20 }]

def exKI : KState :=
  { layout := { cfg := { layers := [[((1, 0), .keyCode 16), ((1, 1), .keyCode 17), ((1, 2), .keyCode 18)]],
                         srcKeys := [] },
                states := [.normalKey 18 (1, 2) 0] },
    customs := [], keyOutputs := [], mods := someMods,
    waitingForIdle := exWs, ticksSinceIdle := 20 }

end KVerif.VkeyMulti

