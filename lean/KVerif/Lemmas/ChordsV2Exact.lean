/-
C09 helper lemmas for chords v2: completeness of `process_presses` — all keys of an enabled chord
pressed (distinct, no participant release queued yet), with ANY table of overlapping candidates that
fits the 16-slot candidate list.
-/
import KVerif.Lemmas.ChordsV2Release
namespace KVerif.C09
open KVerif.L

/-- the enabled chords of the first key's table entry that contain all of `acc` -/
def Fk (possible : List ChordV2) (layer : Nat) (acc : List Nat) : List ChordV2 :=
  possible.filter fun pch => enabledOn layer pch && acc.all (pch.keys.contains ·)

theorem Fk_snoc (possible : List ChordV2) (layer : Nat) (acc : List Nat) (p : Nat) :
    (Fk possible layer acc).filter (·.keys.contains p) = Fk possible layer (acc ++ [p]) := by
  unfold Fk
  rw [List.filter_filter]
  congr 1
  funext pch
  simp only [List.all_append, List.all_cons, List.all_nil, Bool.and_true]
  cases enabledOn layer pch <;> cases acc.all (pch.keys.contains ·) <;> cases pch.keys.contains p <;> rfl

theorem mem_Fk {possible : List ChordV2} {layer : Nat} {acc : List Nat} {c : ChordV2} :
    c ∈ Fk possible layer acc ↔ c ∈ possible ∧ enabledOn layer c = true ∧ acc.all (c.keys.contains ·) = true := by
  unfold Fk
  simp only [List.mem_filter, Bool.and_eq_true]

/-- the loop state while nothing has been activated and `pre` has been accumulated -/
structure Mid (possible : List ChordV2) (layer since : Nat) (A0 : List ActiveChord) (T0 : Nat) (pre : List Nat) (st : PP) : Prop where
  done : st.done = false
  acc : st.acc = pre
  active : st.active = A0
  tti : st.ticksToIgnore = T0
  cands : (st.prevCount = none ∧ st.cands = [] ∧ pre = []) ∨
          (st.prevCount = some (Fk possible layer pre).length ∧ st.cands = (Fk possible layer pre).take SMOL_Q_LEN ∧
           st.ticksUntil = minPending (Fk possible layer pre) - since)

theorem Fk_snoc_length_le (possible : List ChordV2) (layer : Nat) (acc : List Nat) (p : Nat) :
    (Fk possible layer (acc ++ [p])).length ≤ (Fk possible layer acc).length := by
  rw [← Fk_snoc]; exact List.length_filter_le _ _

theorem ppCands_mid (possible : List ChordV2) (layer since : Nat) (A0 : List ActiveChord) (T0 : Nat) (pre : List Nat) (st : PP)
    (p : Nat) (hm : Mid possible layer since A0 T0 pre st) :
    ppCands possible layer st p =
      ((Fk possible layer (pre ++ [p])).take SMOL_Q_LEN, (Fk possible layer (pre ++ [p])).length,
       minPending (Fk possible layer (pre ++ [p]))) := by
  unfold ppCands
  rcases hm.cands with ⟨h1, h2, h3⟩ | ⟨h1, h2, _⟩
  · have : (st.prevCount == some st.cands.length) = false := by rw [h1]; rfl
    simp only [this, Bool.false_eq_true, if_false, hm.acc]
    rfl
  · by_cases hle : (Fk possible layer pre).length ≤ SMOL_Q_LEN
    · -- the stored list is the whole candidate set: narrow it
      have htake : (Fk possible layer pre).take SMOL_Q_LEN = Fk possible layer pre := List.take_of_length_le hle
      have : (st.prevCount == some (Fk possible layer pre).length) = true := by rw [h1]; simp
      have hle' : (Fk possible layer (pre ++ [p])).length ≤ SMOL_Q_LEN :=
        Nat.le_trans (Fk_snoc_length_le possible layer pre p) hle
      simp only [h2, htake, this, if_true, Fk_snoc, List.take_of_length_le hle']
    · -- more candidates than slots: the list is rebuilt from the table
      have hlen : st.cands.length = SMOL_Q_LEN := by
        rw [h2, List.length_take]; omega
      have : (st.prevCount == some st.cands.length) = false := by
        rw [h1, hlen]; simp; omega
      simp only [this, Bool.false_eq_true, if_false, hm.acc]
      rfl

/-- a step that activates nothing: two or more candidates, or a single incomplete one -/
theorem ppStep_mid (possible : List ChordV2) (layer since : Nat) (relFound : Option Nat) (minIdle : Nat)
    (A0 : List ActiveChord) (T0 : Nat) (pre : List Nat) (st : PP) (p : Nat)
    (hm : Mid possible layer since A0 T0 pre st)
    (hne : Fk possible layer (pre ++ [p]) ≠ [])
    (hinc : ∀ x, Fk possible layer (pre ++ [p]) = [x] → x.keys.all ((pre ++ [p]).contains ·) = false) :
    ∃ st', ppStep possible layer since relFound minIdle st p = .ok st' ∧
      Mid possible layer since A0 T0 (pre ++ [p]) st' := by
  unfold ppStep
  simp only [hm.done, Bool.false_eq_true, if_false, ppCands_mid possible layer since A0 T0 pre st p hm, hm.acc]
  generalize hF : Fk possible layer (pre ++ [p]) = F at hne hinc ⊢
  rcases F with _ | ⟨x, _ | ⟨y, l⟩⟩
  · exact absurd rfl hne
  · have := hinc x rfl
    have ht : List.take SMOL_Q_LEN [x] = [x] := rfl
    simp only [List.length_cons, List.length_nil, Nat.zero_add, ht, List.head?_cons, this, Bool.false_eq_true, if_false]
    exact ⟨_, rfl, ⟨rfl, rfl, hm.active, hm.tti, Or.inr ⟨by rw [hF]; rfl, by rw [hF]; rfl, by rw [hF]⟩⟩⟩
  · simp only [List.length_cons]
    exact ⟨_, rfl, ⟨rfl, rfl, hm.active, hm.tti, Or.inr ⟨by rw [hF]; rfl, by rw [hF], by rw [hF]⟩⟩⟩

/-- the step that completes the only remaining candidate -/
theorem ppStep_complete (possible : List ChordV2) (layer since : Nat) (relFound : Option Nat) (minIdle : Nat)
    (A0 : List ActiveChord) (T0 : Nat) (pre : List Nat) (st : PP) (p : Nat) (x : ChordV2)
    (hm : Mid possible layer since A0 T0 pre st)
    (hF : Fk possible layer (pre ++ [p]) = [x]) (hcomp : x.keys.all ((pre ++ [p]).contains ·) = true)
    (hroom : A0.length < ACTIVE_CHORDS_CAP) :
    ∃ st', ppStep possible layer since relFound minIdle st p = .ok st' ∧
      st'.done = true ∧ st'.acc = pre ++ [p] ∧ st'.ticksToIgnore = T0 ∧ st'.ticksUntil = st.ticksUntil ∧
      st'.active = A0 ++ [getActiveChord x since (freeCoord st.active st.nextCoord) relFound] := by
  unfold ppStep
  have hp : pushActive st.active (getActiveChord x since (freeCoord st.active st.nextCoord) relFound) =
      .ok (st.active ++ [getActiveChord x since (freeCoord st.active st.nextCoord) relFound]) := by
    unfold pushActive
    rw [if_pos (by rw [hm.active]; exact hroom)]
  have ht : List.take SMOL_Q_LEN [x] = [x] := rfl
  simp only [hm.done, Bool.false_eq_true, if_false, ppCands_mid possible layer since A0 T0 pre st p hm,
    hm.acc, hF, List.length_cons, List.length_nil, Nat.zero_add, ht,
    List.head?_cons, hcomp, if_true, hp]
  exact ⟨_, rfl, rfl, rfl, hm.tti, rfl, by rw [hm.active]⟩

theorem ppLoop_done (possible : List ChordV2) (layer since : Nat) (relFound : Option Nat) (minIdle : Nat) :
    ∀ (rest : List Nat) (st : PP), st.done = true → ppLoop possible layer since relFound minIdle rest st = .ok st := by
  intro rest
  induction rest with
  | nil => intro st _; rfl
  | cons p rest ih =>
    intro st hd
    have : ppStep possible layer since relFound minIdle st p = .ok st := by
      unfold ppStep; simp only [hd, if_true]
    simp only [ppLoop, this]
    exact ih st hd

/-- **the loop on the keys of a chord**: `ps = pre ++ rest` are distinct and all belong to the enabled
chord `C`, whose key set is exactly `ps`; the loop has accumulated `pre` without activating.  Then it
ends either without activation, the candidate list being the chords that contain all of `ps` (at
least two of them: `C` and a strict superset), or — when `C` is the only such chord — with `C`
activated on the last key. -/
theorem ppLoop_chord (possible : List ChordV2) (layer since : Nat) (relFound : Option Nat) (minIdle : Nat)
    (A0 : List ActiveChord) (T0 : Nat) (ps : List Nat) (C : ChordV2)
    (hnd : ps.Nodup) (hC : C ∈ possible) (hen : enabledOn layer C = true) (hex : exactMatch ps C = true)
    (hroom : A0.length < ACTIVE_CHORDS_CAP) :
    ∀ (rest pre : List Nat) (st : PP), ps = pre ++ rest → rest ≠ [] →
      Mid possible layer since A0 T0 pre st →
      ∃ st', ppLoop possible layer since relFound minIdle rest st = .ok st' ∧
        ((2 ≤ (Fk possible layer ps).length ∧ Mid possible layer since A0 T0 ps st') ∨
         (Fk possible layer ps = [C] ∧ st'.done = true ∧ st'.acc = ps ∧ st'.ticksToIgnore = T0 ∧
          ∃ coord, st'.active = A0 ++ [getActiveChord C since coord relFound])) := by
  have hsub : ps.all (C.keys.contains ·) = true := by
    simp only [exactMatch, Bool.and_eq_true] at hex; exact hex.1
  have hsup : C.keys.all (ps.contains ·) = true := by
    simp only [exactMatch, Bool.and_eq_true] at hex; exact hex.2
  intro rest
  induction rest with
  | nil => intro pre st _ h; exact absurd rfl h
  | cons p rest ih =>
    intro pre st hps _ hm
    -- C contains every prefix
    have hCin : C ∈ Fk possible layer (pre ++ [p]) := by
      rw [mem_Fk]
      refine ⟨hC, hen, ?_⟩
      rw [List.all_eq_true] at hsub ⊢
      intro k hk
      apply hsub k
      rw [hps]
      rcases List.mem_append.mp hk with h | h
      · exact List.mem_append_left _ h
      · exact List.mem_append_right _ (by simp at h; simp [h])
    have hne : Fk possible layer (pre ++ [p]) ≠ [] := List.ne_nil_of_mem hCin
    by_cases hr : rest = []
    · -- last key
      subst hr
      have hps' : ps = pre ++ [p] := hps
      simp only [ppLoop]
      match hF : Fk possible layer (pre ++ [p]), hCin with
      | [x], hCin =>
        have hx : C = x := by simpa using hCin
        subst hx
        obtain ⟨st', e, h1, h2, h3, _, h5⟩ := ppStep_complete possible layer since relFound minIdle A0 T0 pre st p C hm
          hF (by rw [← hps']; exact hsup) hroom
        refine ⟨st', by simp only [e], Or.inr ⟨by rw [hps']; exact hF, h1, by rw [hps']; exact h2, h3, _, h5⟩⟩
      | [], hCin => cases hCin
      | x :: y :: l, _ =>
        obtain ⟨st', e, hm'⟩ := ppStep_mid possible layer since relFound minIdle A0 T0 pre st p hm hne
          (by intro z hz; rw [hF] at hz; cases hz)
        refine ⟨st', by simp only [e], Or.inl ⟨by rw [hps', hF]; simp, by rw [hps']; exact hm'⟩⟩
    · -- a proper prefix: the single candidate, if any, cannot be complete
      have hinc : ∀ x, Fk possible layer (pre ++ [p]) = [x] → x.keys.all ((pre ++ [p]).contains ·) = false := by
        intro x hx
        have hxC : C = x := by rw [hx] at hCin; simpa using hCin
        subst hxC
        obtain ⟨q, hq⟩ := List.exists_mem_of_ne_nil _ hr
        have hqps : q ∈ ps := by rw [hps]; exact List.mem_append_right _ (List.mem_cons_of_mem _ hq)
        have hqC : C.keys.contains q = true := (List.all_eq_true.mp hsub) q hqps
        have hqn : q ∉ pre ++ [p] := by
          intro hmem
          rw [hps] at hnd
          have hnd' : (pre ++ [p] ++ rest).Nodup := by simpa using hnd
          exact (List.nodup_append.mp hnd').2.2 q hmem q hq rfl
        cases hall : C.keys.all ((pre ++ [p]).contains ·) with
        | false => rfl
        | true =>
          exfalso
          have := (List.all_eq_true.mp hall) q (by simpa using hqC)
          exact hqn (by simpa using this)
      obtain ⟨st1, e, hm1⟩ := ppStep_mid possible layer since relFound minIdle A0 T0 pre st p hm hne hinc
      obtain ⟨st', e', hres⟩ := ih (pre ++ [p]) st1 (by rw [hps]; simp) hr hm1
      exact ⟨st', by simp only [ppLoop, e, e'], hres⟩

end KVerif.C09
