/-
C06 helper lemmas, part 4: a dequeued *release* on a calm state, runs of the layout model over
histories, and the invariant behind "never lingers": every state in the layout belongs to a key that
is physically down, or whose release is deferred in `released_keys` (with a one-shot key active, so
the countdown is running), or whose release is still in the input queue.
-/
import KVerif.Lemmas.OneShotPress
namespace KVerif.C06
open KVerif.L

/-! ### releases -/

theorem releaseStates_stok (b : Bool) (c : Coord) : ∀ (states : List St), (∀ st ∈ states, StOK st) →
    releaseStates b c states .noEvent = (states.filter (fun st => st.coord != some c), .noEvent) := by
  intro states
  induction states with
  | nil => intro _; rfl
  | cons st rest ih =>
    intro h
    have hst := h st (by simp)
    have ihr := ih (fun x hx => h x (by simp [hx]))
    cases st <;> simp only [C04.StOK] at hst <;> try exact absurd hst id
    · rename_i kc co f
      have hcl : (St.normalKey kc co f).clearOnNextRelease = false := by
        rcases hst with h0 | h0 <;> subst h0 <;> rfl
      simp only [releaseStates, hcl, Bool.and_false, Bool.false_eq_true, if_false, St.release, ihr]
      by_cases hco : co = c
      · simp [hco, St.coord, ihr]
      · have : (co == c) = false := by simpa using hco
        simp [this, St.coord, hco, ihr]
    · rename_i v co
      simp only [releaseStates, St.clearOnNextRelease, Bool.and_false, Bool.false_eq_true, if_false, St.release, ihr]
      by_cases hco : co = c
      · simp [hco, St.coord, ihr]
      · have : (co == c) = false := by simpa using hco
        simp [this, St.coord, hco, ihr]

/-- the states after a dequeued release, given what `handle_release` answered -/
def afterRelease (states : List St) (c : Coord) (doRelease : Bool) (overflow : Option Coord) : List St :=
  let st1 := if doRelease then states.filter (fun st => st.coord != some c) else states
  match overflow with
  | some c2 => st1.filter (fun st => st.coord != some c2)
  | none => st1

/-- **a release taken from the queue, on a calm state**: `handle_release` decides; a release that is
applied removes exactly the states of its coordinate; a deferred one removes nothing, except that
the oldest deferred key is released for real when 16 are deferred already -/
theorem dequeue_release_calm {s : Layout} (hs : ∀ st ∈ s.states, StOK st) (c : Coord) (since : Nat) :
    dequeue FUEL s ⟨.release c, since⟩ =
      .ok ({ s with oneshot := (s.oneshot.handleRelease c).1,
                    states := afterRelease s.states c (s.oneshot.handleRelease c).2.1 (s.oneshot.handleRelease c).2.2 },
           .noEvent) := by
  rw [FUEL_succ]
  simp only [dequeue]
  generalize s.oneshot.handleRelease c = r
  obtain ⟨o, dr, ov⟩ := r
  simp only [afterRelease]
  cases dr <;> cases ov <;>
    simp only [releaseStates_stok _ _ _ hs, if_true, Bool.false_eq_true, if_false,
      releaseStates_stok _ _ _ (C04.stok_filter _ hs)]

/-! ### container facts -/

theorem pushBackWrap_ne_nil {α} (cap : Nat) (hc : 0 < cap) (l : List α) (x : α) : (pushBackWrap cap l x).1 ≠ [] := by
  unfold pushBackWrap
  split
  · simp
  · cases l with
    | nil => simp at *; omega
    | cons h t => simp

theorem mem_pushBackWrap_new {α} (cap : Nat) (hc : 0 < cap) (l : List α) (x : α) : x ∈ (pushBackWrap cap l x).1 := by
  unfold pushBackWrap
  split
  · simp
  · cases l with
    | nil => simp at *; omega
    | cons h t => simp

theorem mem_pushBackWrap_old {α} (cap : Nat) (l : List α) (x y : α) (h : y ∈ l) :
    y ∈ (pushBackWrap cap l x).1 ∨ (pushBackWrap cap l x).2 = some y := by
  unfold pushBackWrap
  split
  · exact Or.inl (List.mem_append_left _ h)
  · cases l with
    | nil => cases h
    | cons a t =>
      simp only
      rcases List.mem_cons.mp h with h | h
      · exact Or.inr (by rw [h])
      · exact Or.inl (List.mem_append_left _ h)

/-! ### runs -/

/-- inputs of a run: a key event, or one millisecond -/
inductive In
  | ev (e : Ev)
  | tick
  deriving Repr

/-- which keys are physically down -/
def downAfter (down : List Coord) : In → List Coord
  | .ev (.press c) => c :: down
  | .ev (.release c) => down.filter (· != c)
  | .tick => down

def stepIn (s : Layout) : In → Except Crash Layout
  | .ev e => s.event e
  | .tick => match tick s with
    | .ok (s', _) => .ok s'
    | .error c => .error c

/-- an event arrives while 32 are pending -/
def overflows (s : Layout) : In → Bool
  | .ev _ => decide (QUEUE_SIZE ≤ s.queue.length)
  | .tick => false

/-- the layout model run on a history; `none` when an event arrives while 32 are pending (the
overflow path of `Layout::event`, outside the C06 statements) -/
def run : Layout → List Coord → List In → Option (Except Crash (Layout × List Coord))
  | s, down, [] => some (.ok (s, down))
  | s, down, i :: rest =>
    if overflows s i then none
    else match stepIn s i with
      | .error c => some (.error c)
      | .ok s' => run s' (downAfter down i) rest

/-! ### the invariant -/

/-- every queued press is of a key that is still down, or is followed by that key's release -/
def QWF (down : List Coord) : List Queued → Prop
  | [] => True
  | q :: rest =>
    (match q.ev with
     | .press c => c ∈ down ∨ ∃ x ∈ rest, x.ev = .release c
     | .release _ => True) ∧ QWF down rest

structure Inv (s : Layout) (down : List Coord) : Prop where
  calm : Calm s
  cfg : CfgFrag s.cfg
  qlen : s.queue.length ≤ QUEUE_SIZE
  /-- with no one-shot key active nothing is deferred and no release is requested -/
  idle : s.oneshot.keys = [] → s.oneshot.releasedKeys = [] ∧ s.oneshot.releaseOnNextTick = false
  qwf : QWF down s.queue
  /-- **no state is stranded** -/
  owned : ∀ st ∈ s.states, ∀ c, st.coord = some c →
    c ∈ down ∨ c ∈ s.oneshot.releasedKeys ∨ ∃ x ∈ s.queue, x.ev = .release c

theorem QWF_mono {down down' : List Coord} (h : ∀ c ∈ down, c ∈ down') : ∀ q, QWF down q → QWF down' q := by
  intro q
  induction q with
  | nil => intro _; trivial
  | cons x rest ih =>
    intro hq
    refine ⟨?_, ih hq.2⟩
    have h1 := hq.1
    cases hx : x.ev with
    | press c =>
      simp only [hx] at h1 ⊢
      rcases h1 with h1 | h1
      · exact Or.inl (h c h1)
      · exact Or.inr h1
    | release c => trivial

theorem QWF_append {down : List Coord} (e : Queued) : ∀ q, QWF down q →
    (match e.ev with | .press c => c ∈ down | .release _ => True) → QWF down (q ++ [e]) := by
  intro q
  induction q with
  | nil =>
    intro _ he
    refine ⟨?_, trivial⟩
    cases hx : e.ev with
    | press c => simp only [hx] at he ⊢; exact Or.inl he
    | release c => trivial
  | cons x rest ih =>
    intro hq he
    refine ⟨?_, ih hq.2 he⟩
    have h1 := hq.1
    cases hx : x.ev with
    | press c =>
      simp only [hx] at h1 ⊢
      rcases h1 with h1 | ⟨y, hy, hye⟩
      · exact Or.inl h1
      · exact Or.inr ⟨y, List.mem_append_left _ hy, hye⟩
    | release c => trivial

/-- a key goes up: every queued press of it is now followed by its release -/
theorem QWF_release {down : List Coord} (c : Coord) (n : Nat) : ∀ q, QWF down q →
    QWF (down.filter (· != c)) (q ++ [⟨.release c, n⟩]) := by
  intro q
  induction q with
  | nil => intro _; exact ⟨trivial, trivial⟩
  | cons x rest ih =>
    intro hq
    refine ⟨?_, ih hq.2⟩
    have h1 := hq.1
    cases hx : x.ev with
    | press c' =>
      simp only [hx] at h1 ⊢
      rcases h1 with h1 | ⟨y, hy, hye⟩
      · by_cases hcc : c' = c
        · subst hcc
          exact Or.inr ⟨⟨.release c', n⟩, by simp, rfl⟩
        · exact Or.inl (List.mem_filter.mpr ⟨h1, by simpa using hcc⟩)
      · exact Or.inr ⟨y, List.mem_append_left _ hy, hye⟩
    | release c' => trivial

theorem QWF_age {down : List Coord} : ∀ q, QWF down q → QWF down (age q) := by
  intro q
  induction q with
  | nil => intro _; trivial
  | cons x rest ih =>
    intro hq
    refine ⟨?_, ih hq.2⟩
    have h1 := hq.1
    show (match x.ev with | .press c => c ∈ down ∨ ∃ y ∈ age rest, y.ev = .release c | .release _ => True)
    cases hx : x.ev with
    | press c =>
      simp only [hx] at h1 ⊢
      rcases h1 with h1 | ⟨y, hy, hye⟩
      · exact Or.inl h1
      · exact Or.inr ⟨{ y with since := min (y.since + 1) U16_MAX }, List.mem_map.mpr ⟨y, hy, rfl⟩, hye⟩
    | release c => trivial

theorem mem_age_release {q : List Queued} {c : Coord} (h : ∃ x ∈ q, x.ev = .release c) :
    ∃ x ∈ age q, x.ev = .release c := by
  obtain ⟨y, hy, hye⟩ := h
  exact ⟨{ y with since := min (y.since + 1) U16_MAX }, List.mem_map.mpr ⟨y, hy, rfl⟩, hye⟩

end KVerif.C06
