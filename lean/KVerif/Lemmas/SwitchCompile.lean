/-
C10 helper lemmas, part 2: the opcode array produced by the compiler is laid out as `LayL` demands
(so `run_cfg` applies), and decoding inverts encoding on the ranges the parser guarantees.
-/
import KVerif.Lemmas.Switch
namespace KVerif.Switch

theorem lossyCompress_lt (t : Nat) (h : t < 65536) : lossyCompress t < 1024 := by
  unfold lossyCompress; split
  · omega
  · split <;> omega

macro "decode_tac" : tactic => `(tactic| (
  unfold decode
  simp only [KEY_MAX, MAX_OPCODE_LEN, INPUT_VAL, HISTORICAL_INPUT_VAL, LAYER_VAL, BASE_LAYER_VAL]
  repeat' (split <;> try omega)))

/-- decode ∘ encode on one-word leaves (any following word). -/
theorem decode_leaf1 (l : Leaf) (h : l.InRange) (hw : l.width = 1) (nx : Option Nat) :
    ∃ a, l.encode = [a] ∧ decode a nx = .ok l.toOpTy := by
  cases l with
  | key kc =>
    simp only [Leaf.InRange, KEY_MAX] at h
    refine ⟨kc % 4096, rfl, ?_⟩
    generalize hx : kc % 4096 = x
    simp only [Leaf.toOpTy]
    decode_tac
    all_goals (congr 2; omega)
  | keyHist kc r =>
    simp only [Leaf.InRange] at h
    refine ⟨_, rfl, ?_⟩
    generalize hx : kc % 4096 + HISTORICAL_KEYCODE_VAL + r * 4096 = x
    simp only [HISTORICAL_KEYCODE_VAL] at hx
    simp only [Leaf.toOpTy]
    decode_tac
    all_goals (congr 2 <;> omega)
  | ticksLt n t =>
    simp only [Leaf.InRange] at h
    have hc := lossyCompress_lt t h.2
    refine ⟨_, rfl, ?_⟩
    generalize hx : TICKS_SINCE_VAL_LT + lossyCompress t + n * 1024 = x
    simp only [TICKS_SINCE_VAL_LT] at hx
    simp only [Leaf.toOpTy, effTicks]
    decode_tac
    all_goals (congr 2; (try omega); (try (congr 1; omega)))
  | ticksGt n t =>
    simp only [Leaf.InRange] at h
    have hc := lossyCompress_lt t h.2
    refine ⟨_, rfl, ?_⟩
    generalize hx : TICKS_SINCE_VAL_GT + lossyCompress t + n * 1024 = x
    simp only [TICKS_SINCE_VAL_GT] at hx
    simp only [Leaf.toOpTy, effTicks]
    decode_tac
    all_goals (congr 2; (try omega); (try (congr 1; omega)))
  | input _ _ => simp [Leaf.width] at hw
  | inputHist _ _ _ => simp [Leaf.width] at hw
  | layer _ => simp [Leaf.width] at hw
  | baseLayer _ => simp [Leaf.width] at hw

/-- decode ∘ encode on two-word leaves. -/
theorem decode_leaf2 (l : Leaf) (h : l.InRange) (hw : l.width = 2) :
    ∃ a b, l.encode = [a, b] ∧ decode a (some b) = .ok l.toOpTy := by
  cases l with
  | key _ => simp [Leaf.width] at hw
  | keyHist _ _ => simp [Leaf.width] at hw
  | ticksLt _ _ => simp [Leaf.width] at hw
  | ticksGt _ _ => simp [Leaf.width] at hw
  | input row y =>
    simp only [Leaf.InRange] at h
    refine ⟨_, _, rfl, ?_⟩
    generalize hx : row % 4 * 16384 + y = x
    simp only [Leaf.toOpTy]
    unfold decode
    simp only [KEY_MAX, MAX_OPCODE_LEN, INPUT_VAL]
    simp
    constructor <;> omega
  | inputHist row y r =>
    simp only [Leaf.InRange] at h
    refine ⟨_, _, rfl, ?_⟩
    generalize hx : row % 4 * 16384 + r * 2048 + y = x
    simp only [Leaf.toOpTy]
    unfold decode
    simp only [KEY_MAX, MAX_OPCODE_LEN, INPUT_VAL, HISTORICAL_INPUT_VAL]
    simp
    refine ⟨?_, ?_, ?_⟩ <;> omega
  | layer l =>
    refine ⟨_, _, rfl, ?_⟩
    simp only [Leaf.toOpTy]
    unfold decode
    simp [KEY_MAX, MAX_OPCODE_LEN, INPUT_VAL, HISTORICAL_INPUT_VAL, LAYER_VAL]
  | baseLayer l =>
    refine ⟨_, _, rfl, ?_⟩
    simp only [Leaf.toOpTy]
    unfold decode
    simp [KEY_MAX, MAX_OPCODE_LEN, INPUT_VAL, HISTORICAL_INPUT_VAL, LAYER_VAL, BASE_LAYER_VAL]

theorem decode_bool (o : BOp) (e : Nat) (he : e ≤ MAX_OPCODE_LEN) (nx : Option Nat) :
    decode (o.toVal + e) nx = .ok (.boolOp o e) := by
  simp only [MAX_OPCODE_LEN] at he
  cases o <;>
  · generalize hx : BOp.toVal _ + e = x
    simp only [BOp.toVal, OR_VAL, AND_VAL, NOT_VAL] at hx
    decode_tac
    all_goals (congr 2; omega)

theorem Leaf.encode_length (l : Leaf) : l.encode.length = l.width := by
  cases l <;> rfl

theorem Leaf.toOpTy_width (l : Leaf) : opWidth l.toOpTy = l.width := by cases l <;> rfl

theorem Leaf.toOpTy_not_bool (l : Leaf) (o : BOp) (e : Nat) : l.toOpTy ≠ .boolOp o e := by
  cases l <;> simp [Leaf.toOpTy]

mutual
  theorem compileAt_length (base : Nat) : (e : BExpr) → (compileAt base e).length = e.size
    | .leaf l => by simp [compileAt, BExpr.size, Leaf.encode_length]
    | .node o cs => by
      simp only [compileAt, List.length_cons, BExpr.size, compileListAt_length (base + 1) cs]; omega
  theorem compileListAt_length (base : Nat) : (es : List BExpr) →
      (compileListAt base es).length = BExpr.sizeList es
    | [] => rfl
    | e :: es => by
      simp only [compileListAt, List.length_append, BExpr.sizeList, compileAt_length base e,
        compileListAt_length (base + e.size) es]
end

mutual
  /-- all leaves satisfy the constructor asserts -/
  def BExpr.InRange : BExpr → Prop
    | .leaf l => l.InRange
    | .node _ cs => BExpr.InRangeList cs
  def BExpr.InRangeList : List BExpr → Prop
    | [] => True
    | e :: es => e.InRange ∧ BExpr.InRangeList es
end

mutual
  /-- every operator's end index fits the 12-bit field (the parser's length check) -/
  def BExpr.EndsOK (i : Nat) : BExpr → Prop
    | .leaf _ => True
    | .node _ cs => i + 1 + BExpr.sizeList cs ≤ MAX_OPCODE_LEN ∧ BExpr.EndsOKList (i + 1) cs
  def BExpr.EndsOKList (i : Nat) : List BExpr → Prop
    | [] => True
    | e :: es => e.EndsOK i ∧ BExpr.EndsOKList (i + e.size) es
end

theorem fetchRaw_at (pre mid post : List Nat) (env : Env) (a : Nat) (tl : List Nat)
    (hm : mid = a :: tl) :
    fetchRaw (pre ++ mid ++ post) env pre.length =
      (match decode a ((tl ++ post)[0]?) with
        | .error c => .error c
        | .ok (.boolOp op e) => .ok (.grp op e)
        | .ok t => .ok (.leaf (opWidth t) (leafVal env t))) := by
  subst hm
  have h0 : (pre ++ (a :: tl) ++ post)[pre.length]? = some a := by
    simp [List.append_assoc]
  have h1 : (pre ++ (a :: tl) ++ post)[pre.length + 1]? = (tl ++ post)[0]? := by
    rw [List.append_assoc, List.getElem?_append_right (by omega)]
    simp
  unfold fetchRaw
  rw [h0, h1]
  rfl

mutual
  theorem layE_compile (env : Env) : (e : BExpr) → (pre post : List Nat) → e.InRange →
      e.EndsOK pre.length →
      LayE (fetchRaw (pre ++ compileAt pre.length e ++ post) env) env pre.length e
    | .leaf l, pre, post, hr, _ => by
      simp only [LayE, compileAt]
      simp only [BExpr.InRange] at hr
      rcases Nat.lt_or_ge l.width 2 with hw | hw
      · have hw1 : l.width = 1 := by have := l.width_pos; omega
        obtain ⟨a, ha, hd⟩ := decode_leaf1 l hr hw1 (([] ++ post)[0]?)
        rw [fetchRaw_at pre l.encode post env a [] ha, hd]
        have hnb := l.toOpTy_not_bool
        cases ht : l.toOpTy with
        | boolOp o e => exact absurd ht (hnb o e)
        | _ => simp only [Leaf.den, ht, ← l.toOpTy_width, opWidth]
      · have hw2 : l.width = 2 := by cases l <;> simp [Leaf.width] at hw ⊢
        obtain ⟨a, b, hab, hd⟩ := decode_leaf2 l hr hw2
        rw [fetchRaw_at pre l.encode post env a [b] hab]
        simp only [List.cons_append, List.getElem?_cons_zero, hd]
        have hnb := l.toOpTy_not_bool
        cases ht : l.toOpTy with
        | boolOp o e => exact absurd ht (hnb o e)
        | _ => simp only [Leaf.den, ht, ← l.toOpTy_width, opWidth]
    | .node o cs, pre, post, hr, he => by
      simp only [BExpr.InRange] at hr
      simp only [BExpr.EndsOK] at he
      simp only [LayE, compileAt]
      refine ⟨?_, ?_⟩
      · rw [fetchRaw_at pre _ post env _ _ rfl]
        rw [compileListAt_length]
        rw [decode_bool o _ he.1]
      · have := layL_compile env cs (pre ++ [o.toVal + (pre.length + 1 + (compileListAt (pre.length + 1) cs).length)])
          post hr (by simpa using he.2)
        simpa [List.append_assoc] using this
  theorem layL_compile (env : Env) : (es : List BExpr) → (pre post : List Nat) → BExpr.InRangeList es →
      BExpr.EndsOKList pre.length es →
      LayL (fetchRaw (pre ++ compileListAt pre.length es ++ post) env) env pre.length es
    | [], _, _, _, _ => by simp [LayL]
    | e :: es, pre, post, hr, he => by
      simp only [BExpr.InRangeList] at hr
      simp only [BExpr.EndsOKList] at he
      simp only [LayL, compileListAt]
      refine ⟨?_, ?_⟩
      · have := layE_compile env e pre (compileListAt (pre.length + (compileAt pre.length e).length) es ++ post)
          hr.1 he.1
        simpa [List.append_assoc] using this
      · have := layL_compile env es (pre ++ compileAt pre.length e) post hr.2
          (by simpa [compileAt_length] using he.2)
        simpa [List.append_assoc, compileAt_length] using this
end

end KVerif.Switch
