/-
C09 helper lemmas: what the simple action kinds do to `states` (so that a chord's action is held at
every participating coordinate), and what a release removes.
-/
import KVerif.Lemmas.ChordTick
namespace KVerif.C09
open KVerif.L

theorem updateCoord_states (s : Layout) (c : Coord) : (updateCoord s c).states = s.states := by
  unfold updateCoord; split <;> rfl

theorem oshOther_states (s : Layout) (o : Bool) (c : Coord) : (oshOther s o c).1.states = s.states := by
  unfold oshOther Layout.oshPress; split <;> rfl

theorem prelude_states (s : Layout) (c : Coord) :
    (prelude s c).states = s.states.filter (fun st => !st.clearOnNextAction) := by
  unfold prelude; split <;> rfl

theorem armKeyCode_states (s : Layout) (a : Action) (kc : KeyCode) (c : Coord) (o : Bool) :
    (armKeyCode s a kc c o).states = pushCap STATES_CAP s.states (.normalKey kc c 0) := by
  unfold armKeyCode
  simp only []
  split <;>
  · show (oshOther _ o c).1.states = _
    rw [oshOther_states]
    simp only [Layout.pushState, updateCoord_states]

theorem doAction_keyCode (f : Nat) (s : Layout) (kc : KeyCode) (c : Coord) (d : Nat) (o : Bool) (ls : List Nat) :
    doAction (f + 2) s (.keyCode kc) c d o ls = .ok (armKeyCode (prelude s c) (.keyCode kc) kc c o, .noEvent) := by
  simp only [doAction, dispatch]

theorem FUEL_succ2 : FUEL = 3998 + 2 := rfl

/-- the states after a key-code action has been performed on each coordinate in turn -/
def pushAllKeys (kc : KeyCode) : List Coord → List St → List St
  | [], sts => sts
  | c :: cs, sts =>
    pushAllKeys kc cs (pushCap STATES_CAP (sts.filter (fun st => !st.clearOnNextAction)) (.normalKey kc c 0))

theorem doAction_keyCode_states (s : Layout) (kc : KeyCode) (c : Coord) (d : Nat) (ls : List Nat) :
    ∃ s', doAction FUEL s (.keyCode kc) c d false ls = .ok (s', .noEvent) ∧
      s'.states = pushCap STATES_CAP (s.states.filter (fun st => !st.clearOnNextAction)) (.normalKey kc c 0) := by
  rw [FUEL_succ2, doAction_keyCode]
  exact ⟨_, rfl, by rw [armKeyCode_states, prelude_states]⟩

theorem repeat_keyCode_states (kc : KeyCode) (d : Nat) (ls : List Nat) : ∀ (cs : List Coord) (s : Layout),
    ∃ s', repeatForCoords (.keyCode kc) d ls cs s = .ok s' ∧ s'.states = pushAllKeys kc cs s.states := by
  intro cs
  induction cs with
  | nil => intro s; exact ⟨s, rfl, rfl⟩
  | cons c cs ih =>
    intro s
    obtain ⟨s1, e1, h1⟩ := doAction_keyCode_states s kc c d ls
    obtain ⟨s2, e2, h2⟩ := ih s1
    refine ⟨s2, ?_, ?_⟩
    · simp only [repeatForCoords, e1, e2]
    · rw [h2, h1]; rfl

/-- a chord whose action is a plain key: `waiting_into_tap` presses that key once per participating
coordinate (the chord's own coordinate, then the pressed queue) and nothing else changes `states` -/
theorem keyCode_chord_tap (s : Layout) (w : Waiting) (kc : KeyCode) (pq : List Coord)
    (hw : s.waiting = some w) (ht : w.tap = .keyCode kc) :
    ∃ s', waitingIntoTap s (some pq) none = .ok (s', .noEvent) ∧
      s'.states = pushAllKeys kc (w.coord :: pq) s.states := by
  simp only [waitingIntoTap, takeWaiting, hw, Option.map_some, ht]
  obtain ⟨s1, e1, h1⟩ := doAction_keyCode_states s.clearWaiting kc w.coord (waitingDelay w) w.layerStack
  obtain ⟨s2, e2, h2⟩ := repeat_keyCode_states kc (waitingDelay w) w.layerStack pq s1
  simp only [e1, chordRepeat, simpleAction, if_true, e2]
  refine ⟨tapPost s2, rfl, ?_⟩
  show s2.states = _
  rw [h2, h1]; rfl

theorem mem_pushCap {α} {cap : Nat} {l : List α} {x y : α} (h : y ∈ pushCap cap l x) : y ∈ l ∨ y = x := by
  unfold pushCap at h
  split at h
  · simpa using h
  · exact Or.inl h

/-- every state after the chord fired is an old one or the chord's key at a participating coordinate -/
theorem pushAllKeys_new (kc : KeyCode) : ∀ (cs : List Coord) (sts : List St) (st : St),
    st ∈ pushAllKeys kc cs sts → st ∈ sts ∨ ∃ c ∈ cs, st = .normalKey kc c 0 := by
  intro cs
  induction cs with
  | nil => intro sts st h; exact Or.inl h
  | cons c cs ih =>
    intro sts st h
    rcases ih _ st h with h1 | ⟨c', hc', e⟩
    · rcases mem_pushCap h1 with h2 | h2
      · exact Or.inl (List.mem_filter.mp h2).1
      · exact Or.inr ⟨c, by simp, h2⟩
    · exact Or.inr ⟨c', by simp [hc'], e⟩

theorem pushAllKeys_length (kc : KeyCode) : ∀ (cs : List Coord) (sts : List St),
    (pushAllKeys kc cs sts).length ≤ sts.length + cs.length := by
  intro cs
  induction cs with
  | nil => intro sts; simp [pushAllKeys]
  | cons c cs ih =>
    intro sts
    have h1 := ih (pushCap STATES_CAP (sts.filter (fun st => !st.clearOnNextAction)) (.normalKey kc c 0))
    have h2 : (pushCap STATES_CAP (sts.filter (fun st => !st.clearOnNextAction)) (St.normalKey kc c 0)).length ≤ sts.length + 1 := by
      unfold pushCap
      have := List.length_filter_le (fun st => !st.clearOnNextAction) sts
      split <;> simp <;> omega
    simp only [pushAllKeys, List.length_cons]
    omega

theorem pushAllKeys_keeps (kc : KeyCode) : ∀ (cs : List Coord) (sts : List St) (st : St),
    st ∈ sts → st.clearOnNextAction = false → st ∈ pushAllKeys kc cs sts := by
  intro cs
  induction cs with
  | nil => intro sts st h _; exact h
  | cons c cs ih =>
    intro sts st h hf
    apply ih _ st _ hf
    unfold pushCap
    have : st ∈ sts.filter (fun st => !st.clearOnNextAction) := List.mem_filter.mpr ⟨h, by simp [hf]⟩
    split
    · exact List.mem_append_left _ this
    · exact this

/-- with room in `states` (64 entries) the key is held at EVERY participating coordinate -/
theorem pushAllKeys_all (kc : KeyCode) : ∀ (cs : List Coord) (sts : List St),
    sts.length + cs.length ≤ STATES_CAP → ∀ c ∈ cs, St.normalKey kc c 0 ∈ pushAllKeys kc cs sts := by
  intro cs
  induction cs with
  | nil => intro sts _ c hc; cases hc
  | cons c0 cs ih =>
    intro sts hlen c hc
    simp only [List.length_cons] at hlen
    have hfl := List.length_filter_le (fun st => !st.clearOnNextAction) sts
    have hpush : pushCap STATES_CAP (sts.filter (fun st => !st.clearOnNextAction)) (St.normalKey kc c0 0) =
        sts.filter (fun st => !st.clearOnNextAction) ++ [St.normalKey kc c0 0] := by
      unfold pushCap; rw [if_pos (by omega)]
    simp only [pushAllKeys]
    rcases List.mem_cons.mp hc with rfl | hc'
    · apply pushAllKeys_keeps
      · rw [hpush]; simp
      · rfl
    · apply ih _ _ c hc'
      rw [hpush]; simp; omega

/-- `waiting_into_tap` for a decided chord: one `do_action` at the chord's coordinate, then the
repetition on the pressed queue, then the rapid-event pause -/
theorem waitingIntoTap_chord (S : Layout) (w1 : Waiting) (g : ChordsGroup) (hS : S.waiting = some w1)
    (hc : w1.config = .chord g) (pq : List Coord) (s' : Layout) (cu : CustomEv)
    (h : waitingIntoTap S (some pq) none = .ok (s', cu)) :
    ∃ s1 s2, doAction FUEL S.clearWaiting w1.tap w1.coord (min (w1.delay + w1.ticks) U16_MAX) false w1.layerStack = .ok (s1, cu) ∧
      chordRepeat w1.tap pq (min (w1.delay + w1.ticks) U16_MAX) w1.layerStack s1 = .ok s2 ∧ s' = tapPost s2 := by
  simp only [waitingIntoTap, takeWaiting, hS, Option.map_some, waitingDelay, hc] at h
  split at h
  · cases h
  · rename_i s1 ret hd
    split at h
    · cases h
    · rename_i s2 hrep
      injection h with h; injection h with e1 e2
      subst e2
      exact ⟨s1, s2, hd, hrep, e1.symm⟩

/-! ## Release -/

theorem release_coord (st : St) (c : Coord) (cu : CustomEv) :
    match (st.release c cu).1 with
    | some st' => st' = st ∧ st.coord ≠ some c
    | none => st.coord = some c := by
  cases st <;> simp only [St.release, St.coord]
  all_goals first
    | (rename_i coord; by_cases h : coord = c <;> simp [h]; done)
    | (rename_i a coord; by_cases h : coord = c <;> simp [h]; done)
    | (rename_i a coord b; by_cases h : coord = c <;> simp [h]; done)
    | simp

/-- releasing coordinate `c`: what remains are old states, none of them at `c`; a state at another
coordinate that is not flagged clear-on-next-release remains -/
theorem releaseStates_spec (b : Bool) (c : Coord) : ∀ (sts : List St) (cu : CustomEv),
    (∀ st ∈ (releaseStates b c sts cu).1, st ∈ sts ∧ st.coord ≠ some c) ∧
    (∀ st ∈ sts, st.coord ≠ some c → st.clearOnNextRelease = false → st ∈ (releaseStates b c sts cu).1) := by
  intro sts
  induction sts with
  | nil => intro cu; simp [releaseStates]
  | cons x sts ih =>
    intro cu
    simp only [releaseStates]
    by_cases hb : (b && x.clearOnNextRelease) = true
    · simp only [hb, if_true]
      obtain ⟨i1, i2⟩ := ih cu
      refine ⟨fun st h => ⟨List.mem_cons_of_mem _ (i1 st h).1, (i1 st h).2⟩, ?_⟩
      intro st h h1 h2
      rcases List.mem_cons.mp h with rfl | h'
      · simp [h2] at hb
      · exact i2 st h' h1 h2
    · simp only [hb, Bool.false_eq_true, if_false]
      have hr := release_coord x c cu
      obtain ⟨i1, i2⟩ := ih (x.release c cu).2
      cases hx : (x.release c cu).1 with
      | none =>
        rw [hx] at hr
        simp only []
        refine ⟨fun st h => ⟨List.mem_cons_of_mem _ (i1 st h).1, (i1 st h).2⟩, ?_⟩
        intro st h h1 h2
        rcases List.mem_cons.mp h with rfl | h'
        · exact absurd hr h1
        · exact i2 st h' h1 h2
      | some x' =>
        rw [hx] at hr
        obtain ⟨rfl, hne⟩ := hr
        simp only []
        refine ⟨?_, ?_⟩
        · intro st h
          rcases List.mem_cons.mp h with rfl | h'
          · exact ⟨by simp, hne⟩
          · exact ⟨List.mem_cons_of_mem _ (i1 st h').1, (i1 st h').2⟩
        · intro st h h1 h2
          rcases List.mem_cons.mp h with rfl | h'
          · simp
          · exact List.mem_cons_of_mem _ (i2 st h' h1 h2)

/-- `dequeue` of a release while no one-shot key is active -/
theorem dequeue_release (f : Nat) (s : Layout) (c : Coord) (since : Nat) (ho : s.oneshot.keys = []) :
    ∃ cu, dequeue (f + 1) s ⟨.release c, since⟩ =
      .ok ({ s with states := (releaseStates true c s.states .noEvent).1 }, cu) := by
  simp only [dequeue, OneShotState.handleRelease, ho, List.isEmpty_nil, if_true]
  exact ⟨_, rfl⟩

end KVerif.C09
