/-
C02 helper: a DECIDABLE well-formedness check of a `switch` case's opcode array that is sound for the
evaluator by construction: the array is decompiled into a key-match list, and accepted iff the model
of the parser's compiler (`compileTop`, with its own length and depth checks) maps that list back to
exactly this array, every operator has an operand and every leaf is in the range the opcode
constructors assert.  Soundness is then `eval_no_crash` of C10; nothing has to be proved about the
decompiler.
-/
import KVerif.Props.C10
namespace KVerif.Switch

/-- the leaf an opcode type stands for -/
def leafOfTy : OpTy → Option Leaf
  | .boolOp _ _ => none
  | .keyCode kc => some (.key kc)
  | .histKeyCode kc back => some (.keyHist kc back)
  | .input row y => some (.input row y)
  | .histInput row y back => some (.inputHist row y back)
  | .ticksLt nth t => some (.ticksLt nth t)
  | .ticksGt nth t => some (.ticksGt nth t)
  | .layer l => some (.layer l)
  | .baseLayer l => some (.baseLayer l)

mutual
  /-- the expression that starts at index `i`, and the index after it -/
  def decompOne (ops : List Nat) : Nat → Nat → Option (BExpr × Nat)
    | 0, _ => none
    | fuel + 1, i =>
      match ops[i]? with
      | none => none
      | some op =>
        match decode op ops[i+1]? with
        | .error _ => none
        | .ok (.boolOp o e) =>
          match decompList ops fuel (i + 1) e with
          | some cs => some (.node o cs, e)
          | none => none
        | .ok t =>
          match leafOfTy t with
          | some l => some (.leaf l, i + opWidth t)
          | none => none
  /-- the expressions in `[i, e)` -/
  def decompList (ops : List Nat) : Nat → Nat → Nat → Option (List BExpr)
    | 0, _, _ => none
    | fuel + 1, i, e =>
      if i ≥ e then some []
      else
        match decompOne ops fuel i with
        | none => none
        | some (x, j) =>
          match decompList ops fuel j e with
          | some r => some (x :: r)
          | none => none
end

mutual
  def BExpr.neB : BExpr → Bool
    | .leaf _ => true
    | .node _ cs => !cs.isEmpty && BExpr.neListB cs
  def BExpr.neListB : List BExpr → Bool
    | [] => true
    | e :: es => e.neB && BExpr.neListB es
end

mutual
  def BExpr.inRangeB : BExpr → Bool
    | .leaf l => decide l.InRange
    | .node _ cs => BExpr.inRangeListB cs
  def BExpr.inRangeListB : List BExpr → Bool
    | [] => true
    | e :: es => e.inRangeB && BExpr.inRangeListB es
end

mutual
  theorem BExpr.neB_sound : (e : BExpr) → e.neB = true → e.NE
    | .leaf _, _ => trivial
    | .node _ cs, h => by
      simp only [BExpr.neB, Bool.and_eq_true, Bool.not_eq_true', List.isEmpty_eq_false_iff] at h
      exact ⟨h.1, BExpr.neListB_sound cs h.2⟩
  theorem BExpr.neListB_sound : (es : List BExpr) → BExpr.neListB es = true → BExpr.NEList es
    | [], _ => trivial
    | e :: es, h => by
      simp only [BExpr.neListB, Bool.and_eq_true] at h
      exact ⟨BExpr.neB_sound e h.1, BExpr.neListB_sound es h.2⟩
end

mutual
  theorem BExpr.inRangeB_sound : (e : BExpr) → e.inRangeB = true → e.InRange
    | .leaf l, h => by
      simp only [BExpr.inRangeB, decide_eq_true_eq] at h
      exact h
    | .node _ cs, h => by
      simp only [BExpr.inRangeB] at h
      exact BExpr.inRangeListB_sound cs h
  theorem BExpr.inRangeListB_sound : (es : List BExpr) → BExpr.inRangeListB es = true → BExpr.InRangeList es
    | [], _ => trivial
    | e :: es, h => by
      simp only [BExpr.inRangeListB, Bool.and_eq_true] at h
      exact ⟨BExpr.inRangeB_sound e h.1, BExpr.inRangeListB_sound es h.2⟩
end

/-- **the opcode check** (decidable): the array is what the parser's compiler produces for the
key-match list it decompiles to -/
def opsCompiled (ops : List Nat) : Bool :=
  match decompList ops (2 * ops.length + 2) 0 ops.length with
  | none => false
  | some es =>
    (match compileTop es with
     | .ok ops' => decide (ops' = ops)
     | .error _ => false) && BExpr.neListB es && BExpr.inRangeListB es

/-- **opsCompiled_sound**: an accepted opcode array is evaluated without a crash, in every environment
(the depth `assert!`, the `expect` on two-word opcodes and the `unreachable!` arms are not reached) -/
theorem opsCompiled_sound (ops : List Nat) (h : opsCompiled ops = true) (env : Env) :
    ∃ b, evalOps ops env = .ok b := by
  unfold opsCompiled at h
  split at h
  · cases h
  · rename_i es _
    simp only [Bool.and_eq_true] at h
    obtain ⟨⟨h1, h2⟩, h3⟩ := h
    split at h1
    · rename_i ops' hc
      simp only [decide_eq_true_eq] at h1
      subst h1
      exact eval_no_crash es _ env hc (BExpr.neListB_sound es h2) (BExpr.inRangeListB_sound es h3)
    · cases h1

end KVerif.Switch
