/-
Helper lemmas for Props/C12kan.lean: the sequence hooks of the composed kanata-level model
(Model/Kanata.lean + Model/KanataSeq.lean) when everything but the sequence state is at rest, and
the press loop in the hidden input modes.
-/
import KVerif.Lemmas.KanataDynQuiet
import KVerif.Lemmas.KanataQuiet
import KVerif.Props.C07
import KVerif.Props.C12
import KVerif.Lemmas.SeqFrame
namespace KVerif.K
open KVerif.L KVerif.C07

theorem pressKey_outFrame (k : KState) (x : KeyCode) : ∃ o, pressKey k x = { k with out := o } := by
  unfold pressKey
  split
  · exact ⟨k.out, rfl⟩
  · split
    · exact ⟨_, rfl⟩
    · split <;> exact ⟨_, rfl⟩

theorem releaseKey_outFrame (k : KState) (x : KeyCode) : ∃ o, releaseKey k x = { k with out := o } := by
  unfold releaseKey
  split
  · exact ⟨k.out, rfl⟩
  · split
    · exact ⟨_, rfl⟩
    · split
      · exact ⟨k.out, rfl⟩
      · exact ⟨_, rfl⟩

theorem emitSeq_outFrame (k : KState) (outs : List Seq.Out) : ∃ o, emitSeq k outs = { k with out := o } := by
  induction outs generalizing k with
  | nil => exact ⟨k.out, rfl⟩
  | cons e r ih =>
    cases e with
    | down c =>
      obtain ⟨o1, h1⟩ := pressKey_outFrame k c
      obtain ⟨o2, h2⟩ := ih ({ k with out := o1 })
      exact ⟨o2, by simp only [emitSeq, h1, h2]⟩
    | up c =>
      obtain ⟨o1, h1⟩ := releaseKey_outFrame k c
      obtain ⟨o2, h2⟩ := ih ({ k with out := o1 })
      exact ⟨o2, by simp only [emitSeq, h1, h2]⟩

theorem emitSeq_nil (k : KState) : emitSeq k [] = k := rfl

/-- `tick_sequence_state` with more than one tick left: the timer goes down by one, nothing else -/
theorem seqTick_running (s : SeqK) (n : Nat) (ha : s.st.active = true) (hb : s.st.ticksUntilTimeout = n + 2) :
    seqTick s = .ok ({ s with st := { s.st with ticksUntilTimeout := n + 1 } }, []) := by
  unfold seqTick Seq.tickSeq
  simp [ha, hb]

/-- `tick_sequence_state` with one tick left: the sequence is cancelled -/
theorem seqTick_last (s : SeqK) (ha : s.st.active = true) (hb : s.st.ticksUntilTimeout = 1) :
    ∃ st' outs, seqTick s = .ok ({ s with st := st' }, outs) ∧ st'.active = false := by
  unfold seqTick Seq.tickSeq
  simp only [ha, hb]
  refine ⟨_, _, rfl, ?_⟩
  exact (Seq.cancelSequence_fields _).1



/-- everything but the sequence state is at rest: the hypotheses of C07's `MayBlock` without
`is_idle`'s verdict (which sequence mode makes false) -/
structure SeqQuiet (k : KState) (cur' : List KeyCode) (ost : Override.OverrideStates) : Prop where
  quiet : QuietLayout k.layout
  caps : k.capsWord = none
  curEmpty : k.curKeys = []
  wanted : k.overrides.overrideKeys (adjustKeys k k.layout.keycodes) k.overrideStates = .ok (cur', ost)
  noErase : ost.toRemove = []
  synced : Synced k cur'
  scroll : k.scroll = none
  hscroll : k.hscroll = none
  moveV : k.moveV = none
  moveH : k.moveH = none
  wfi : k.waitingForIdle = []
  vk : k.vkeysPendingRelease = []
  noRec : k.dyn.rcd = none      -- [dyn] no dynamic macro is being recorded (its delay counter would tick)

/-- one `tick_states` with everything but the sequence state at rest: the layout ages, the sequence
timer ticks (`seqTick`), the OS gets what `tick_sequence_state` sends and nothing else -/
theorem seqQuiet_tick (k : KState) (cur' : List KeyCode) (ost : Override.OverrideStates)
    (h : SeqQuiet k cur' ost) (sk : SeqK) (outs : List Seq.Out) (hs : seqTick k.seq = .ok (sk, outs)) :
    ∃ o, tickStates k = .ok { afterQuietTick k cur' ost with seq := sk, out := o } ∧
      (outs = [] → o = k.out) ∧
      SeqQuiet { afterQuietTick k cur' ost with seq := sk, out := o } cur' ost := by
  have hq := h.quiet
  obtain ⟨l', ht, hst, hq', hk⟩ := handleKeystateChanges_quiet k hq h.caps h.curEmpty cur' ost h.wanted h.noErase h.synced
  have hl' : l' = tickPre k.layout := by
    have := tick_quiet_eq k.layout hq
    rw [ht] at this; injection this with this; injection this
  subst hl'
  let k1 : KState := { k with layout := tickPre k.layout, overrideStates := ost, curKeys := cur' }
  have e2 : handleScrolling k1 = .ok k1 := handleScrolling_none k1 h.scroll h.hscroll
  have e3 : handleMoveMouse k1 = .ok k1 := handleMoveMouse_none k1 h.moveV h.moveH
  obtain ⟨o, ho⟩ := emitSeq_outFrame ({ k1 with seq := sk } : KState) outs
  have e3s : tickSequenceState k1 = .ok { k1 with seq := sk, out := o } := by
    unfold tickSequenceState
    show (match seqTick k.seq with
      | .error c => Except.error (Crash.seq c)
      | .ok (sk, outs) => Except.ok (emitSeq { k1 with seq := sk } outs)) = _
    rw [hs]; simp only []
    rw [ho]
  let k1s : KState := { k1 with seq := sk, out := o }
  have e4 : tickIdleTimeout k1s = .ok k1s := tickIdleTimeout_nil k1s h.wfi
  let k2 : KState := { k1s with macroOnPressCancelDuration := k1s.macroOnPressCancelDuration - 1, prevKeys := k1s.curKeys, curKeys := [] }
  have e5 : tickHeldVkeys k2 = .ok k2 := tickHeldVkeys_nil k2 h.vk
  have hk2 : k2 = { afterQuietTick k cur' ost with seq := sk, out := o } := rfl
  refine ⟨o, ?_, ?_, ?_⟩
  · unfold tickStates
    simp only [hk]
    change (match handleScrolling k1 with
      | .error c => Except.error c
      | .ok k => _) = _
    rw [e2]; simp only []
    rw [e3]; simp only []
    rw [e3s]; simp only []
    rw [e4]; simp only []
    have e6 : dynTickRecord { k1s with macroOnPressCancelDuration := k1s.macroOnPressCancelDuration - 1 }
        = { k1s with macroOnPressCancelDuration := k1s.macroOnPressCancelDuration - 1 } :=
      dynTickRecord_none _ h.noRec
    rw [e6]
    rw [← hk2]; exact e5
  · intro hn
    subst hn
    have : emitSeq ({ k1 with seq := sk } : KState) [] = { k1 with seq := sk } := rfl
    rw [this] at ho
    have := congrArg KState.out ho
    exact this.symm
  · have hkc : (tickPre k.layout).keycodes = k.layout.keycodes := by unfold Layout.keycodes; rw [hst]
    refine ⟨hq', h.caps, rfl, ?_, h.noErase, ⟨fun _ hx => hx, fun _ hx => hx⟩, h.scroll, h.hscroll, h.moveV, h.moveH, h.wfi, h.vk, h.noRec⟩
    show k.overrides.overrideKeys (adjustKeys ({ afterQuietTick k cur' ost with seq := sk, out := o } : KState) (tickPre k.layout).keycodes) ost = .ok (cur', ost)
    have hadj : adjustKeys ({ afterQuietTick k cur' ost with seq := sk, out := o } : KState) (tickPre k.layout).keycodes = adjustKeys k k.layout.keycodes := by
      rw [hkc]; rfl
    rw [hadj]
    have hw := h.wanted
    unfold Override.Overrides.overrideKeys at hw ⊢
    split
    · rename_i he
      simp only [he, if_true] at hw
      injection hw with hw; injection hw with h1 h2
      rw [h1]
    · rename_i he
      simp only [he] at hw
      exact hw



/-- fewer ticks than the timer has left: still in sequence mode, nothing sent, nothing tapped -/
theorem seq_mode_stays (n : Nat) : ∀ (k : KState) (cur' : List KeyCode) (ost : Override.OverrideStates),
    SeqQuiet k cur' ost → k.seq.st.active = true → n < k.seq.st.ticksUntilTimeout →
    ∃ kn, ticksN n k = .ok kn ∧ SeqQuiet kn cur' ost ∧ kn.seq.st.active = true ∧
      kn.seq.st.ticksUntilTimeout = k.seq.st.ticksUntilTimeout - n ∧ kn.seq.st.mode = k.seq.st.mode ∧
      kn.layout.states = k.layout.states ∧ kn.layout.queue = [] ∧ kn.out = k.out := by
  induction n with
  | zero =>
    intro k cur' ost hq ha _
    exact ⟨k, rfl, hq, ha, rfl, rfl, rfl, hq.quiet.queue, rfl⟩
  | succ n ih =>
    intro k cur' ost hq ha hn
    obtain ⟨m, hm⟩ : ∃ m, k.seq.st.ticksUntilTimeout = m + 2 := ⟨k.seq.st.ticksUntilTimeout - 2, by omega⟩
    have hs := seqTick_running k.seq m ha hm
    obtain ⟨o, ht, ho, hq1⟩ := seqQuiet_tick k cur' ost hq _ _ hs
    have ho' := ho rfl
    subst ho'
    obtain ⟨kn, e, q, a, t, md, st, qu, ou⟩ := ih _ cur' ost hq1 ha (by show n < m + 1; omega)
    refine ⟨kn, ?_, q, a, ?_, md, ?_, qu, ou⟩
    · simp only [ticksN, ht]; exact e
    · rw [t]; show m + 1 - n = _; omega
    · rw [st]
      exact (tickPre_quiet k.layout hq.quiet).1


theorem reconcile_mode (t : Seq.Trie Nat) (e : Seq.Eng) (std ovl : List Nat × Seq.Res × Bool) :
    (Seq.reconcile t e std ovl).1.st.mode = e.st.mode := by
  unfold Seq.reconcile
  split
  · rfl
  · rfl
  · rfl
  · simp only []
    split
    · exact (Seq.cancelSequence_fields _).2.2.2.1
    · rfl

theorem finish_mode (t : Seq.Trie Nat) (x : Seq.Eng × Seq.Res × Seq.Res) :
    (Seq.finish t x).st.mode = x.1.st.mode := by
  unfold Seq.finish
  split
  · exact (Seq.terminate_fields _ _ _).2.2.1
  · split
    · simp only []
      split
      · exact (Seq.terminate_fields _ _ _).2.2.1
      · exact (Seq.terminate_fields _ _ _).2.2.1
    · rfl

theorem doSeqPress_mode (t : Seq.Trie Nat) (mc : Bool) (e : Seq.Eng) (k mm : Nat) :
    (Seq.doSeqPress t mc e k mm).st.mode = e.st.mode := by
  unfold Seq.doSeqPress
  rw [finish_mode, reconcile_mode]
  rfl

/-- the fields of the sequence record a key press leaves alone -/
theorem seqKeyPress_cfg (s : SeqK) (l : Layout) (x : KeyCode) (mm : Nat) (s' : SeqK) (l' : Layout)
    (outs : List Seq.Out) (h : seqKeyPress s l x mm = .ok (s', l', outs)) :
    s'.trie = s.trie ∧ s'.modcancel = s.modcancel ∧ s'.alwaysOn = s.alwaysOn ∧
    s'.st = (Seq.doSeqPress s.trie s.modcancel (engOf s l) x mm).st ∧
    outs = (Seq.doSeqPress s.trie s.modcancel (engOf s l) x mm).out := by
  unfold seqKeyPress applyEng at h
  split at h
  · cases h
  · injection h with h
    injection h with h1 h2
    injection h2 with h2 h3
    subst h1 h3
    exact ⟨rfl, rfl, rfl, rfl, rfl⟩

/-- **the press loop in the hidden modes**: if sequence mode is on in a hidden mode when the press
loop starts and still on when it ends (no always-on), the loop sent nothing to the OS -/
theorem pressLoop_hidden_silent (cur : List KeyCode) (xs : List KeyCode) : ∀ (k k' : KState),
    k.seq.st.active = true → k.seq.st.mode ≠ .visibleBackspaced → k.seq.alwaysOn = false →
    (∀ j, k.seq.trie.getOrDescendant [] ≠ .hasValue j) →
    pressLoop cur xs k = .ok k' → k'.seq.st.active = true → k'.out = k.out := by
  induction xs with
  | nil =>
    intro k k' _ _ _ _ h _
    unfold pressLoop at h
    injection h with h; rw [← h]
  | cons x xs ih =>
    intro k k' ha hm hao hne h hk'
    unfold pressLoop at h
    split at h
    · exact ih k k' ha hm hao hne h hk'
    · have haos : k.seq.alwaysOnStep = k.seq := by
        unfold SeqK.alwaysOnStep; simp [hao]
      simp only [haos, ha, if_true] at h
      split at h
      · cases h
      · rename_i sk l outs hkp
        obtain ⟨c1, c2, c3, c4, c5⟩ := seqKeyPress_cfg _ _ _ _ _ _ _ hkp
        have hmode : sk.st.mode = k.seq.st.mode := by rw [c4, doSeqPress_mode]; rfl
        have hhid := (Seq.hidden_presses_nothing k.seq.trie hne k.seq.modcancel (engOf k.seq k.layout) hm).1 x (Seq.modMaskOf cur)
        -- whether the sequence state is still active after this key
        cases hact : sk.st.active with
        | false =>
          -- sequence mode ended here; without always-on it stays off, contradicting `hk'`
          exfalso
          have hoff : (emitSeq ({ k with prevKeys := k.prevKeys ++ [x], lastPressedKey := x, seq := sk, layout := l } : KState) outs).seq.off = true := by
            rw [emitSeq_seq]; show sk.off = true
            unfold SeqK.off; rw [hact, c3, hao]; rfl
          rw [pressLoop_off _ _ _ hoff] at h
          injection h with h
          have : k'.seq.st.active = false := by
            rw [← h, pressNew_seq, emitSeq_seq]; exact hact
          rw [this] at hk'; cases hk'
        | true =>
          have hout : outs = [] := by
            rcases hhid with h1 | h1
            · rw [c5]; exact h1
            · exfalso
              have : sk.st.active = false := by rw [c4]; exact h1.2.1
              rw [this] at hact; cases hact
          subst hout
          have := ih _ k' (by rw [emitSeq_seq]; exact hact) (by rw [emitSeq_seq]; show sk.st.mode ≠ _; rw [hmode]; exact hm)
            (by rw [emitSeq_seq]; show sk.alwaysOn = false; rw [c3]; exact hao)
            (by rw [emitSeq_seq]; show ∀ j, sk.trie.getOrDescendant [] ≠ _; rw [c1]; exact hne) h hk'
          rw [this]; rfl


/-! ## the composed model refines the stand-alone engine -/

/-- the sequence hooks as `tick_states` drives them, one call at a time (the composed counterpart of
`Seq.engStep`): a newly pressed key reaches the press loop with no modifier held, one
`tick_sequence_state`, the all-released hook -/
def kanSeqStep (k : KState) : Seq.Inp → Except Crash KState
  | .key x =>
    if k.seq.st.active then
      match seqKeyPress k.seq k.layout x 0 with
      | .error e => .error (.layout e)
      | .ok (sk, l, outs) => .ok (emitSeq { k with seq := sk, layout := l } outs)
    else .ok (pressKey k x)
  | .tick => tickSequenceState k
  | .released =>
    match seqAllReleased k.seq k.layout with
    | .error e => .error (.layout e)
    | .ok (sk, l, outs) => .ok (emitSeq { k with seq := sk, layout := l } outs)

def kanSeqRun : KState → List Seq.Inp → Except Crash KState
  | k, [] => .ok k
  | k, i :: is =>
    match kanSeqStep k i with
    | .error c => .error c
    | .ok k' => kanSeqRun k' is

theorem retainStates_self (states : List St) : retainStates (states.map viewSt) states = states := by
  unfold retainStates
  apply List.filter_eq_self.mpr
  intro s hs
  simp only [List.contains_eq_mem, List.mem_map, decide_eq_true_eq]
  exact ⟨s, hs, rfl⟩

/-- carrying back a result that tapped nothing and kept the states: only the sequence state and the
OS output change -/
theorem applyEng_notap (s : SeqK) (l : Layout) (r : Seq.Eng) (ht : r.taps = []) (hs : r.states = l.states.map viewSt) :
    applyEng s l r = .ok ({ s with st := r.st }, l, r.out) := by
  unfold applyEng
  rw [ht, hs, retainStates_self]
  rfl

theorem pressKey_setSeq (k : KState) (x : KeyCode) (s : SeqK) :
    ({ pressKey k x with seq := s } : KState) = pressKey { k with seq := s } x := by
  unfold pressKey
  simp only []
  by_cases hc : k.ignoreMin ≤ x ∧ x ≤ k.ignoreMax
  · simp only [hc, and_self, if_true]
  · simp only [hc, if_false]
    cases hb : k.btnCodes.find? (·.1 == x) with
    | some b => rfl
    | none =>
      simp only []
      cases hw : k.wheelCodes.find? (·.1 == x) with
      | some d => rfl
      | none => rfl

theorem releaseKey_setSeq (k : KState) (x : KeyCode) (s : SeqK) :
    ({ releaseKey k x with seq := s } : KState) = releaseKey { k with seq := s } x := by
  unfold releaseKey
  simp only []
  by_cases hc : k.ignoreMin ≤ x ∧ x ≤ k.ignoreMax
  · simp only [hc, and_self, if_true]
  · simp only [hc, if_false]
    cases hb : k.btnCodes.find? (·.1 == x) with
    | some b => rfl
    | none =>
      simp only []
      cases hw : k.wheelCodes.find? (·.1 == x) with
      | some d => rfl
      | none => rfl

theorem emitSeq_setSeq (k : KState) (outs : List Seq.Out) (s : SeqK) :
    ({ emitSeq k outs with seq := s } : KState) = emitSeq { k with seq := s } outs := by
  induction outs generalizing k with
  | nil => rfl
  | cons e r ih =>
    cases e with
    | down c => simp only [emitSeq]; rw [ih, pressKey_setSeq]
    | up c => simp only [emitSeq]; rw [ih, releaseKey_setSeq]

theorem emitSeq_append (k : KState) (a b : List Seq.Out) : emitSeq k (a ++ b) = emitSeq (emitSeq k a) b := by
  induction a generalizing k with
  | nil => rfl
  | cons e r ih =>
    cases e with
    | down c => simp only [List.cons_append, emitSeq, ih]
    | up c => simp only [List.cons_append, emitSeq, ih]

theorem cancelSequence_setStates (e : Seq.Eng) (ss : List Seq.KState) :
    Seq.cancelSequence { e with states := ss } = { Seq.cancelSequence e with states := ss } := by
  unfold Seq.cancelSequence
  cases h : e.st.mode <;> simp [h]

/-- `tick_sequence_state` does not look at the layout -/
theorem tickSeq_setStates (e : Seq.Eng) (ss : List Seq.KState) :
    Seq.tickSeq { e with states := ss } =
      (match Seq.tickSeq e with | .ok r => .ok { r with states := ss } | .error c => .error c) := by
  cases ha : e.st.active with
  | false => simp only [Seq.tickSeq, ha, Bool.not_false, if_true]
  | true =>
    simp only [Seq.tickSeq, ha, Bool.not_true, Bool.false_eq_true, if_false]
    by_cases h0 : e.st.ticksUntilTimeout = 0
    · simp only [h0, if_true]
    · simp only [h0, if_false]
      by_cases h1 : e.st.ticksUntilTimeout - 1 = 0
      · simp only [h1, if_true]
        congr 1
        exact cancelSequence_setStates { e with st := { e.st with ticksUntilTimeout := 0, active := true } } ss
      · simp only [h1, if_false]

theorem seqTick_of_engine (s : SeqK) (l : Layout) (r : Seq.Eng) (h : Seq.tickSeq (engOf s l) = .ok r) :
    seqTick s = .ok ({ s with st := r.st }, r.out) := by
  have := tickSeq_setStates (engOf s l) []
  rw [h] at this
  unfold seqTick
  have he : ({ st := s.st, states := [] } : Seq.Eng) = { engOf s l with states := [] } := rfl
  rw [he, this]

/-- one engine step on the view of `k` that taps nothing, while sequence mode is on: the composed
step changes the sequence state and the OS output as the engine says, and nothing else -/
theorem kanSeqStep_of_engStep (k : KState) (i : Seq.Inp) (r : Seq.Eng) (ha : k.seq.st.active = true)
    (h : Seq.engStep k.seq.trie k.seq.modcancel (engOf k.seq k.layout) i = .ok r) (ht : r.taps = []) :
    kanSeqStep k i = .ok (emitSeq { k with seq := { k.seq with st := r.st } } r.out) := by
  have hs : r.states = k.layout.states.map viewSt :=
    Seq.engStep_notap _ _ _ r i h (by rw [ht]; rfl)
  cases i with
  | key x =>
    simp only [Seq.engStep, engOf, ha, if_true] at h
    injection h with h
    simp only [kanSeqStep, ha, if_true, seqKeyPress, engOf, h, applyEng_notap _ _ r ht hs]
  | tick =>
    simp only [Seq.engStep] at h
    simp only [kanSeqStep, tickSequenceState, seqTick_of_engine _ _ r h]
  | released =>
    simp only [Seq.engStep] at h
    injection h with h
    simp only [kanSeqStep, seqAllReleased, ha, Bool.not_true, Bool.false_eq_true, if_false, h,
      applyEng_notap _ _ r ht hs]


theorem engOf_emitSeq (k : KState) (st : Seq.SeqState) (outs : List Seq.Out) :
    engOf (emitSeq { k with seq := { k.seq with st := st } } outs).seq
      (emitSeq { k with seq := { k.seq with st := st } } outs).layout =
    { st := st, states := k.layout.states.map viewSt, out := [], taps := [] } := by
  rw [emitSeq_seq, emitSeq_layout]; rfl

/-- **the composed model refines the stand-alone engine** (any table, any mode): a stream of hook
calls that the engine, run on the view of `k`, answers without tapping a virtual key and without
leaving sequence mode is answered by the composed model with the same sequence state and the same OS
events, and nothing else of `Kanata` or of the layout changes -/
theorem kanSeqRun_of_engRun : ∀ (is : List Seq.Inp) (k : KState) (e' : Seq.Eng),
    Seq.engRun k.seq.trie k.seq.modcancel (engOf k.seq k.layout) is = .ok e' → e'.taps = [] →
    e'.st.active = true →
    kanSeqRun k is = .ok (emitSeq { k with seq := { k.seq with st := e'.st } } e'.out)
  | [], k, e', h, _, _ => by
    simp only [Seq.engRun] at h
    injection h with h; subst h
    rfl
  | i :: is, k, e', h, ht, ha => by
    simp only [Seq.engRun] at h
    cases h1 : Seq.engStep k.seq.trie k.seq.modcancel (engOf k.seq k.layout) i with
    | error c => rw [h1] at h; cases h
    | ok r1 =>
      rw [h1] at h
      simp only [] at h
      have hr1a : r1.st.active = true := Seq.engRun_active_back _ _ is r1 e' h ha
      have hka : k.seq.st.active = true := Seq.engStep_active_back _ _ _ r1 i h1 hr1a
      obtain ⟨p2, hp2⟩ := Seq.engRun_taps_mono _ _ is r1 e' h
      have hr1t : r1.taps = [] := by
        rw [ht] at hp2
        exact (List.append_eq_nil_iff.mp hp2.symm).1
      have hr1s : r1.states = k.layout.states.map viewSt :=
        Seq.engStep_notap _ _ _ r1 i h1 (by rw [hr1t]; rfl)
      have hstep := kanSeqStep_of_engStep k i r1 hka h1 hr1t
      -- the rest of the run, from the view of the state after this step
      let k1 : KState := emitSeq { k with seq := { k.seq with st := r1.st } } r1.out
      have hE : engOf k1.seq k1.layout = { st := r1.st, states := k.layout.states.map viewSt, out := [], taps := [] } :=
        engOf_emitSeq k r1.st r1.out
      have hr1 : r1 = (engOf k1.seq k1.layout).pre r1.out [] := by
        rw [hE]
        cases r1 with
        | mk st states out taps =>
          simp only [Seq.Eng.pre, List.append_nil] at hr1t hr1s ⊢
          subst hr1t; subst hr1s; rfl
      have hk1t : k1.seq.trie = k.seq.trie := by show (emitSeq _ _).seq.trie = _; rw [emitSeq_seq]
      have hk1m : k1.seq.modcancel = k.seq.modcancel := by show (emitSeq _ _).seq.modcancel = _; rw [emitSeq_seq]
      have h' : Seq.engRun k.seq.trie k.seq.modcancel ((engOf k1.seq k1.layout).pre r1.out []) is = .ok e' := by
        rw [← hr1]; exact h
      rw [Seq.engRun_pre] at h'
      cases h2 : Seq.engRun k.seq.trie k.seq.modcancel (engOf k1.seq k1.layout) is with
      | error c => rw [h2] at h'; cases h'
      | ok e2 =>
        rw [h2] at h'
        simp only [Seq.mapPre] at h'
        injection h' with h'
        clear h
        have h := h'
        have he2t : e2.taps = [] := by
          have : e'.taps = [] ++ e2.taps := by rw [← h]; rfl
          rw [ht] at this; exact this.symm
        have he2a : e2.st.active = true := by
          have : e'.st = e2.st := by rw [← h]; rfl
          rw [← this]; exact ha
        have ih := kanSeqRun_of_engRun is k1 e2 (by rw [hk1t, hk1m]; exact h2) he2t he2a
        simp only [kanSeqRun, hstep]
        rw [ih]
        have hst : e'.st = e2.st := by rw [← h]; rfl
        have hout : e'.out = r1.out ++ e2.out := by rw [← h]; rfl
        rw [hst, hout, emitSeq_append]
        congr 1
        show emitSeq ({ k1 with seq := { k1.seq with st := e2.st } } : KState) e2.out = _
        have hk1seq : k1.seq = { k.seq with st := r1.st } := by show (emitSeq _ _).seq = _; rw [emitSeq_seq]
        rw [hk1seq]
        show emitSeq ({ emitSeq { k with seq := { k.seq with st := r1.st } } r1.out with seq := { k.seq with st := e2.st } } : KState) e2.out = _
        rw [emitSeq_setSeq]


theorem kanSeqRun_append : ∀ (a b : List Seq.Inp) (k : KState),
    kanSeqRun k (a ++ b) = (match kanSeqRun k a with | .error c => .error c | .ok k1 => kanSeqRun k1 b)
  | [], b, k => rfl
  | i :: a, b, k => by
    simp only [List.cons_append, kanSeqRun]
    cases kanSeqStep k i with
    | error c => rfl
    | ok k1 => exact kanSeqRun_append a b k1

open KVerif.Seq in
/-- leader, then the keys of a defined sequence of a plain prefix-free table, every key in time: the
composed model leaves the layout alone until the last key, then hands it exactly one press and one
release of the sequence's virtual key and leaves sequence mode -/
theorem kan_typed_sequence {k : KState} (hp : PlainTrie k.seq.trie) (hok : TrieOK k.seq.trie)
    (u : Key) (x j : Nat) (pre : List Inp) (hs : (u ++ [x], j) ∈ k.seq.trie.entries)
    (ha : k.seq.st.active = true) (hseq : k.seq.st.sequence = []) (hT : 0 < k.seq.st.timeout)
    (hb : k.seq.st.ticksUntilTimeout = k.seq.st.timeout)
    (hkeys : keysOf pre = u) (hwt : WellTimed k.seq.st.timeout k.seq.st.timeout pre) :
    ∃ k1, kanSeqRun k pre = .ok k1 ∧ k1.layout = k.layout ∧ k1.seq.st.active = true ∧
      (k.seq.st.mode ≠ .visibleBackspaced → k1.out = k.out) ∧
      ∃ keep : St → Bool, ∀ l1 l2,
        ({ k.layout with states := k.layout.states.filter keep } : Layout).event (.press (1, j)) = .ok l1 →
        l1.event (.release (1, j)) = .ok l2 →
        ∃ k', kanSeqRun k (pre ++ [.key x]) = .ok k' ∧ k'.layout = l2 ∧ k'.seq.st.active = false ∧
          (k.seq.st.mode ≠ .visibleBackspaced → k'.out = k.out) := by
  have hplain := plain_of_mem hp hs
  have hku : ∀ y ∈ keysOf pre, plainKey y = true := fun y hy => hplain y (by rw [hkeys] at hy; simp [hy])
  have hkk : plainKey x = true := hplain x (by simp)
  have htr : absTrack k.seq.trie.entries (engOf k.seq k.layout).st.sequence (keysOf pre) = some u := by
    show absTrack k.seq.trie.entries k.seq.st.sequence (keysOf pre) = some u
    rw [hseq, hkeys]
    simpa using absTrack_prefix hok hs u [] [x] (by simp) (by simp)
  obtain ⟨e1, hr, h1a, h1s, h1t, h1st, _, h1m, _, _, _, h1o⟩ :=
    run_tracks hp k.seq.modcancel pre (engOf k.seq k.layout) k.seq.st.timeout u ha
      (by show ∀ y ∈ k.seq.st.sequence, y < 1024; rw [hseq]; simp) hb hT hT hku hwt htr
  have hsim := kanSeqRun_of_engRun pre k e1 hr h1t h1a
  let k1 : KState := emitSeq { k with seq := { k.seq with st := e1.st } } e1.out
  have hk1l : k1.layout = k.layout := by show (emitSeq _ _).layout = _; rw [emitSeq_layout]
  have hk1s : k1.seq = { k.seq with st := e1.st } := by show (emitSeq _ _).seq = _; rw [emitSeq_seq]
  have hhid : k.seq.st.mode ≠ .visibleBackspaced → e1.out = [] := by
    intro hm
    rw [h1o]
    show [] ++ (if k.seq.st.mode = _ then _ else _) = []
    simp [hm]
  -- the completing key
  let E1 : Eng := { st := e1.st, states := k.layout.states.map viewSt, out := [], taps := [] }
  have hE1 : engOf k1.seq k1.layout = E1 := engOf_emitSeq k e1.st e1.out
  have hs1 : ∀ y ∈ E1.st.sequence, y < 1024 := by
    show ∀ y ∈ e1.st.sequence, y < 1024
    rw [h1s]; intro y hy; exact plainKey_lt (hplain y (by simp [hy]))
  have hks := key_step hp k.seq.modcancel E1 hkk hs1
  have hE1seq : E1.st.sequence = u := h1s
  rw [hE1seq, absKey_complete hok hs] at hks
  obtain ⟨ovl, b, _, hd⟩ := hks
  let T : Eng := terminate { pressBase E1 x with st := { (pressBase E1 x).st with sequence := u ++ [x], overlapped := ovl } } j b
  have pf := pressBase_fields E1 hkk
  have hTf := terminate_fields { pressBase E1 x with st := { (pressBase E1 x).st with sequence := u ++ [x], overlapped := ovl } } j b
  have hTt : T.taps = [j] := by
    show (terminate _ j b).taps = _
    rw [hTf.2.1]; show (pressBase E1 x).taps ++ [j] = _; rw [pf.2.1]; rfl
  refine ⟨k1, hsim, hk1l, by rw [hk1s]; exact h1a, ?_, fun s => T.states.contains (viewSt s), ?_⟩
  · intro hm
    show (emitSeq _ e1.out).out = _
    rw [hhid hm]; rfl
  · intro l1 l2 hl1 hl2
    have hstep : kanSeqStep k1 (.key x) = .ok (emitSeq { k1 with seq := { k1.seq with st := T.st }, layout := l2 } T.out) := by
      have hact : k1.seq.st.active = true := by rw [hk1s]; exact h1a
      simp only [kanSeqStep, hact, if_true, seqKeyPress, hE1]
      have hk1t : k1.seq.trie = k.seq.trie := by rw [hk1s]
      have hk1m : k1.seq.modcancel = k.seq.modcancel := by rw [hk1s]
      have hd' : doSeqPress k1.seq.trie k1.seq.modcancel E1 x 0 = T := by rw [hk1t, hk1m]; exact hd
      rw [hd']
      show (match applyEng k1.seq k1.layout T with
        | .error e => Except.error (Crash.layout e)
        | .ok (sk, l, outs) => Except.ok (emitSeq { k1 with seq := sk, layout := l } outs)) = _
      unfold applyEng
      rw [hTt, hk1l]
      have : retainStates T.states k.layout.states = k.layout.states.filter (fun s => T.states.contains (viewSt s)) := rfl
      rw [this]
      simp only [tapVkeys, hl1, hl2]
    refine ⟨emitSeq { k1 with seq := { k1.seq with st := T.st }, layout := l2 } T.out, ?_, by rw [emitSeq_layout], ?_, ?_⟩
    · rw [kanSeqRun_append, hsim]
      show (match kanSeqStep k1 (.key x) with
        | .error c => Except.error c
        | .ok k' => kanSeqRun k' []) = _
      rw [hstep]; rfl
    · rw [emitSeq_seq]; exact hTf.1
    · intro hm
      have hTo : T.out = [] := by
        show (terminate _ j b).out = _
        have hmodeE : E1.st.mode = k.seq.st.mode := h1m
        have hmodeT : (pressBase E1 x).st.mode = k.seq.st.mode := pf.2.2.2.2.1.trans hmodeE
        rw [hTf.2.2.2 (fun h => hm (hmodeT ▸ h))]
        show (pressBase E1 x).out = []
        rw [pf.2.2.2.2.2.2.2.2, hmodeE]
        simp [hm, E1]
      rw [hTo]
      show k1.out = k.out
      show (emitSeq _ e1.out).out = _
      rw [hhid hm]; rfl


/-- what `kanSeqStep (.key x)` stands for: the press loop of `handle_keystate_changes` with `x` as the
only new key and no modifier in the wanted list (`prev_keys` and `last_pressed_key` are updated before
the sequence code runs) -/
theorem pressLoop_single (k : KState) (cur : List KeyCode) (x : KeyCode) (hx : k.prevKeys.contains x = false)
    (hm : Seq.modMaskOf cur = 0) (hao : k.seq.alwaysOn = false ∨ k.seq.st.active = true) :
    pressLoop cur [x] k = kanSeqStep { k with prevKeys := k.prevKeys ++ [x], lastPressedKey := x } (.key x) := by
  have haos : k.seq.alwaysOnStep = k.seq := by
    unfold SeqK.alwaysOnStep
    rcases hao with h | h <;> simp [h]
  unfold pressLoop
  simp only [hx, Bool.false_eq_true, if_false, haos, hm, kanSeqStep]
  cases ha : k.seq.st.active with
  | false => simp only [Bool.false_eq_true, if_false, pressLoop]
  | true =>
    simp only [if_true]
    cases seqKeyPress k.seq k.layout x 0 with
    | error e => rfl
    | ok r => obtain ⟨sk, l, outs⟩ := r; simp only [pressLoop]

/-- what `kanSeqStep .released` stands for: the block run when the last held key has been released -/
theorem seqReleasedHook_step (k : KState) (hp : k.prevKeys ≠ []) :
    seqReleasedHook k [] = kanSeqStep k .released := by
  unfold seqReleasedHook
  have : k.prevKeys.isEmpty = false := by
    cases h : k.prevKeys with
    | nil => exact absurd h hp
    | cons a b => rfl
  simp only [List.isEmpty_nil, this, Bool.not_false, Bool.and_self, if_true, kanSeqStep]
  cases seqAllReleased k.seq k.layout with
  | error e => rfl
  | ok r => rfl


end KVerif.K
