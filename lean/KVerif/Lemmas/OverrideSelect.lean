/-
C13 helper lemmas, part 2: the stateful `filter(..).last()` of `update_keys` as "first of the
longest matching overrides", and `Overrides::new` as grouping by key in table order.
-/
import KVerif.Lemmas.OverrideMask
namespace KVerif.Override

/-- What `Override::try_new` guarantees: `in_mod_oscs` holds modifiers only, the trigger key is not
a modifier. -/
def Override.WF (o : Override) : Prop := (∀ m ∈ o.inMods, isMod m = true) ∧ isMod o.inKey = false

/-- every input modifier of `o` is among the keys `pre` -/
def Override.modsIn (o : Override) (pre : List Nat) : Bool := o.inMods.all (pre.contains ·)

theorem Override.modsIn_iff (o : Override) (pre : List Nat) :
    o.modsIn pre = true ↔ ∀ m ∈ o.inMods, m ∈ pre := by
  simp [Override.modsIn]

/-- `selectLoop` without masks and without the crash outcome -/
def selectPure (pre : List Nat) : List Override → Nat → Option Override → Option Override
  | [], _, best => best
  | o :: rest, cur, best =>
    if o.modsIn pre then
      if o.inMods.length + 1 ≤ cur then selectPure pre rest cur best
      else selectPure pre rest (o.inMods.length + 1) (some o)
    else selectPure pre rest cur best

theorem getModMask_eq (o : Override) (h : ∀ m ∈ o.inMods, isMod m = true) :
    o.getModMask = .ok (modsOf o.inMods 0) := by
  have : o.inMods.all isMod = true := by simpa using h
  simp [Override.getModMask, orMasks_eq, this]

theorem selectLoop_eq (pre : List Nat) (ovds : List Override) (hwf : ∀ o ∈ ovds, o.WF)
    (cur : Nat) (best : Option Override) :
    selectLoop (modsOf pre 0) ovds cur best = .ok (selectPure pre ovds cur best) := by
  induction ovds generalizing cur best with
  | nil => rfl
  | cons o rest ih =>
    have hw := (hwf o (by simp)).1
    have ihr := fun c b => ih (fun o' ho' => hwf o' (by simp [ho'])) c b
    have hiff := mask_match_iff o.inMods pre hw
    simp only [selectLoop, selectPure, getModMask_eq o hw]
    by_cases hm : o.modsIn pre = true
    · have : modsOf o.inMods 0 &&& modsOf pre 0 = modsOf o.inMods 0 :=
        hiff.mpr ((o.modsIn_iff pre).mp hm)
      simp only [this, hm, if_true]
      split <;> exact ihr _ _
    · have : ¬ (modsOf o.inMods 0 &&& modsOf pre 0 = modsOf o.inMods 0) :=
        fun h => hm ((o.modsIn_iff pre).mpr (hiff.mp h))
      simp only [this, hm, if_false]
      exact ihr _ _

/-- Loop invariant of the selection: either nothing beat the running maximum, or the result is the
first override of strictly larger size than everything before it and at least as large as
everything after it. -/
theorem selectPure_spec (pre : List Nat) (l : List Override) (cur : Nat) (best : Option Override) :
    (selectPure pre l cur best = best ∧
        ∀ o ∈ l, o.modsIn pre = true → o.inMods.length + 1 ≤ cur) ∨
    (∃ l1 w l2, l = l1 ++ w :: l2 ∧ selectPure pre l cur best = some w ∧ w.modsIn pre = true ∧
        cur < w.inMods.length + 1 ∧
        (∀ o ∈ l1, o.modsIn pre = true → o.inMods.length < w.inMods.length) ∧
        (∀ o ∈ l2, o.modsIn pre = true → o.inMods.length ≤ w.inMods.length)) := by
  induction l generalizing cur best with
  | nil => left; simp [selectPure]
  | cons o rest ih =>
    simp only [selectPure]
    by_cases hm : o.modsIn pre = true
    · simp only [hm, if_true]
      by_cases hle : o.inMods.length + 1 ≤ cur
      · simp only [hle, if_true]
        rcases ih cur best with ⟨h1, h2⟩ | ⟨l1, w, l2, hl, hs, hw, hc, hb, ha⟩
        · left
          refine ⟨h1, ?_⟩
          intro o' ho' hm'
          rcases List.mem_cons.mp ho' with rfl | ho'
          · exact hle
          · exact h2 o' ho' hm'
        · right
          refine ⟨o :: l1, w, l2, by simp [hl], hs, hw, hc, ?_, ha⟩
          intro o' ho' hm'
          rcases List.mem_cons.mp ho' with rfl | ho'
          · omega
          · exact hb o' ho' hm'
      · simp only [hle, if_false]
        rcases ih (o.inMods.length + 1) (some o) with ⟨h1, h2⟩ | ⟨l1, w, l2, hl, hs, hw, hc, hb, ha⟩
        · right
          refine ⟨[], o, rest, by simp, h1, hm, by omega, by simp, ?_⟩
          intro o' ho' hm'
          have := h2 o' ho' hm'
          omega
        · right
          refine ⟨o :: l1, w, l2, by simp [hl], hs, hw, by omega, ?_, ha⟩
          intro o' ho' hm'
          rcases List.mem_cons.mp ho' with rfl | ho'
          · omega
          · exact hb o' ho' hm'
    · simp only [hm]
      rcases ih cur best with ⟨h1, h2⟩ | ⟨l1, w, l2, hl, hs, hw, hc, hb, ha⟩
      · left
        refine ⟨h1, ?_⟩
        intro o' ho' hm'
        rcases List.mem_cons.mp ho' with rfl | ho'
        · exact absurd hm' hm
        · exact h2 o' ho' hm'
      · right
        refine ⟨o :: l1, w, l2, by simp [hl], hs, hw, hc, ?_, ha⟩
        intro o' ho' hm'
        rcases List.mem_cons.mp ho' with rfl | ho'
        · exact absurd hm' hm
        · exact hb o' ho' hm'

/-- "`w` is the first of the longest overrides of `l` all of whose modifiers are in `pre`" -/
def FirstLongest (pre : List Nat) (l : List Override) (w : Override) : Prop :=
  ∃ l1 l2, l = l1 ++ w :: l2 ∧ w.modsIn pre = true ∧
    (∀ o ∈ l1, o.modsIn pre = true → o.inMods.length < w.inMods.length) ∧
    (∀ o ∈ l2, o.modsIn pre = true → o.inMods.length ≤ w.inMods.length)

theorem FirstLongest.unique {pre : List Nat} {l : List Override} {w w' : Override}
    (h : FirstLongest pre l w) (h' : FirstLongest pre l w') : w = w' := by
  obtain ⟨l1, l2, hl, hw, hb, ha⟩ := h
  obtain ⟨l1', l2', hl', hw', hb', ha'⟩ := h'
  rw [hl] at hl'
  rcases List.append_eq_append_iff.mp hl' with ⟨m, h1, h2⟩ | ⟨m, h1, h2⟩
  · -- l1' = l1 ++ m, w :: l2 = m ++ w' :: l2'
    cases m with
    | nil => simp at h2; exact h2.1
    | cons x m' =>
      simp only [List.cons_append, List.cons.injEq] at h2
      obtain ⟨rfl, h2⟩ := h2
      have hlt := hb' w (by simp [h1]) hw
      have hle := ha w' (by simp [h2]) hw'
      omega
  · cases m with
    | nil => simp at h2; exact h2.1.symm
    | cons x m' =>
      simp only [List.cons_append, List.cons.injEq] at h2
      obtain ⟨rfl, h2⟩ := h2
      have hlt := hb w' (by simp [h1]) hw'
      have hle := ha' w (by simp [h2]) hw
      omega

/-- The selection started the way `update_keys` starts it. -/
theorem selectPure_some_iff (pre : List Nat) (l : List Override) (w : Override) :
    selectPure pre l 0 none = some w ↔ FirstLongest pre l w := by
  rcases selectPure_spec pre l 0 none with ⟨h1, h2⟩ | ⟨l1, w', l2, hl, hs, hw, _, hb, ha⟩
  · constructor
    · intro h; rw [h1] at h; cases h
    · rintro ⟨l1, l2, hl, hw, _, _⟩
      have := h2 w (by simp [hl]) hw
      omega
  · have hfl : FirstLongest pre l w' := ⟨l1, l2, hl, hw, hb, ha⟩
    constructor
    · intro h; rw [hs] at h; cases h; exact hfl
    · intro h; rw [hs, hfl.unique h]

theorem selectPure_none_iff (pre : List Nat) (l : List Override) :
    selectPure pre l 0 none = none ↔ ∀ o ∈ l, o.modsIn pre = false := by
  rcases selectPure_spec pre l 0 none with ⟨h1, h2⟩ | ⟨l1, w', l2, hl, hs, hw, _, _, _⟩
  · constructor
    · intro _ o ho
      cases hm : o.modsIn pre with
      | false => rfl
      | true => have := h2 o ho hm; omega
    · intro _; exact h1
  · constructor
    · intro h; rw [hs] at h; cases h
    · intro h
      have := h w' (by simp [hl])
      rw [hw] at this; cases this

/-! ### `Overrides::new` -/

def groupOf (m : List (Nat × List Override)) (k : Nat) : List Override :=
  match m.find? (fun e => e.1 == k) with
  | some e => e.2
  | none => []

theorem groupOf_insertOvr (m : List (Nat × List Override)) (o : Override) (k : Nat) :
    groupOf (insertOvr m o) k = groupOf m k ++ (if o.inKey = k then [o] else []) := by
  induction m with
  | nil =>
    by_cases h : o.inKey = k <;> simp [insertOvr, groupOf, List.find?, h]
  | cons e rest ih =>
    obtain ⟨k', v⟩ := e
    simp only [insertOvr]
    by_cases hk : k' = o.inKey
    · subst hk
      by_cases h : o.inKey = k
      · simp [groupOf, List.find?, h]
      · have hb : (o.inKey == k) = false := by simp [h]
        simp [groupOf, List.find?, h, hb]
    · simp only [hk, if_false]
      by_cases h : k' = k
      · subst h
        have : ¬ o.inKey = k' := fun h => hk h.symm
        simp [groupOf, List.find?, this]
      · have hb : (k' == k) = false := by simp [h]
        have e1 : groupOf ((k', v) :: insertOvr rest o) k = groupOf (insertOvr rest o) k := by
          simp [groupOf, List.find?, hb]
        have e2 : groupOf ((k', v) :: rest) k = groupOf rest k := by
          simp [groupOf, List.find?, hb]
        rw [e1, e2, ih]

theorem groupOf_foldl (tbl : List Override) (m : List (Nat × List Override)) (k : Nat) :
    groupOf (tbl.foldl insertOvr m) k = groupOf m k ++ tbl.filter (fun o => o.inKey == k) := by
  induction tbl generalizing m with
  | nil => simp
  | cons o rest ih =>
    simp only [List.foldl_cons, ih, groupOf_insertOvr, List.filter_cons]
    by_cases h : o.inKey = k <;> simp [h]

/-- **grouping**: the overrides of a key, in the order in which the configuration lists them. -/
theorem groupOf_new (tbl : List Override) (k : Nat) :
    groupOf (Overrides.new tbl).byOsc k = tbl.filter (fun o => o.inKey == k) := by
  show groupOf (tbl.foldl insertOvr []) k = _
  rw [groupOf_foldl]
  simp [groupOf]

theorem insertOvr_ne_nil (m : List (Nat × List Override)) (o : Override) : insertOvr m o ≠ [] := by
  cases m with
  | nil => simp [insertOvr]
  | cons e rest =>
    obtain ⟨k, v⟩ := e
    simp only [insertOvr]; split <;> simp

theorem foldl_insertOvr_ne_nil (tbl : List Override) (m : List (Nat × List Override)) (h : m ≠ []) :
    tbl.foldl insertOvr m ≠ [] := by
  induction tbl generalizing m with
  | nil => simpa
  | cons o rest ih => exact ih _ (insertOvr_ne_nil m o)

theorem isEmpty_new (tbl : List Override) : (Overrides.new tbl).isEmpty = tbl.isEmpty := by
  cases tbl with
  | nil => rfl
  | cons o rest =>
    have := foldl_insertOvr_ne_nil rest (insertOvr [] o) (insertOvr_ne_nil [] o)
    simp only [Overrides.new, Overrides.isEmpty, List.foldl_cons, List.isEmpty_cons]
    cases h : List.foldl insertOvr (insertOvr [] o) rest with
    | nil => exact absurd h this
    | cons _ _ => rfl

theorem get_eq_groupOf (t : Overrides) (k : Nat) :
    (t.get k = none ∧ groupOf t.byOsc k = []) ∨ t.get k = some (groupOf t.byOsc k) := by
  unfold Overrides.get groupOf
  cases t.byOsc.find? (fun e => e.1 == k) with
  | none => left; simp
  | some e => right; simp

end KVerif.Override
