/-
C13 helper lemmas, part 3: the single pass of `override_keys` over the key list, in closed form.
-/
import KVerif.Lemmas.OverrideSelect
namespace KVerif.Override

/-! ### push-if-absent -/

theorem mem_pushUnique {l : List Nat} {x y : Nat} : x ∈ pushUnique l y ↔ x ∈ l ∨ x = y := by
  unfold pushUnique
  split
  · constructor
    · exact Or.inl
    · rintro (h | rfl) <;> assumption
  · simp

theorem nodup_pushUnique {l : List Nat} {y : Nat} (h : l.Nodup) : (pushUnique l y).Nodup := by
  unfold pushUnique
  split
  · exact h
  · rename_i hn
    rw [List.nodup_append]
    refine ⟨h, by simp, ?_⟩
    intro a ha b hb
    simp at hb; subst hb
    intro hab; subst hab; exact hn ha

theorem mem_foldl_pushUnique {ys l : List Nat} {x : Nat} :
    x ∈ ys.foldl pushUnique l ↔ x ∈ l ∨ x ∈ ys := by
  induction ys generalizing l with
  | nil => simp
  | cons y rest ih =>
    simp only [List.foldl_cons, ih, mem_pushUnique, List.mem_cons]
    constructor
    · rintro ((h | h) | h)
      · exact Or.inl h
      · exact Or.inr (Or.inl h)
      · exact Or.inr (Or.inr h)
    · rintro (h | h | h)
      · exact Or.inl (Or.inl h)
      · exact Or.inl (Or.inr h)
      · exact Or.inr h

theorem nodup_foldl_pushUnique {ys l : List Nat} (h : l.Nodup) : (ys.foldl pushUnique l).Nodup := by
  induction ys generalizing l with
  | nil => simpa
  | cons y rest ih => exact ih (nodup_pushUnique h)

/-- pushing keeps what is there, in place -/
theorem pushUnique_prefix (l : List Nat) (y : Nat) : ∃ t, pushUnique l y = l ++ t := by
  unfold pushUnique
  split
  · exact ⟨[], by simp⟩
  · exact ⟨[y], rfl⟩

theorem foldl_pushUnique_prefix (ys l : List Nat) : ∃ t, ys.foldl pushUnique l = l ++ t := by
  induction ys generalizing l with
  | nil => exact ⟨[], by simp⟩
  | cons y rest ih =>
    obtain ⟨t1, h1⟩ := pushUnique_prefix l y
    obtain ⟨t2, h2⟩ := ih (pushUnique l y)
    exact ⟨t1 ++ t2, by rw [List.foldl_cons, h2, h1, List.append_assoc]⟩

theorem foldl_pushUnique_nil_of_nodup (ys : List Nat) (h : ys.Nodup) (l : List Nat)
    (hd : ∀ y ∈ ys, y ∉ l) : ys.foldl pushUnique l = l ++ ys := by
  induction ys generalizing l with
  | nil => simp
  | cons y rest ih =>
    have hy : y ∉ l := hd y (by simp)
    have hp : pushUnique l y = l ++ [y] := by simp [pushUnique, hy]
    rw [List.nodup_cons] at h
    rw [List.foldl_cons, hp, ih h.2 (l ++ [y])]
    · simp
    · intro z hz
      simp only [List.mem_append, List.mem_singleton, not_or]
      exact ⟨hd z (by simp [hz]), fun hzy => h.1 (hzy ▸ hz)⟩

theorem mem_addRemovedKeys {o : Override} {r : List Nat} {x : Nat} :
    x ∈ o.addRemovedKeys r ↔ x ∈ r ∨ x ∈ o.combo := by
  simp [Override.addRemovedKeys, Override.combo, mem_pushUnique, mem_foldl_pushUnique, or_assoc]

theorem mem_addOverrideKeys {o : Override} {a : List Nat} {x : Nat} :
    x ∈ o.addOverrideKeys a ↔ x ∈ a ∨ x ∈ o.outs := by
  simp [Override.addOverrideKeys, Override.outs, mem_pushUnique, mem_foldl_pushUnique, or_assoc]

theorem nodup_addOverrideKeys {o : Override} {a : List Nat} (h : a.Nodup) :
    (o.addOverrideKeys a).Nodup :=
  nodup_pushUnique (nodup_foldl_pushUnique h)

theorem nodup_addRemovedKeys {o : Override} {a : List Nat} (h : a.Nodup) :
    (o.addRemovedKeys a).Nodup :=
  nodup_pushUnique (nodup_foldl_pushUnique h)

theorem addOverrideKeys_prefix (o : Override) (a : List Nat) : ∃ t, o.addOverrideKeys a = a ++ t := by
  obtain ⟨t1, h1⟩ := foldl_pushUnique_prefix o.outMods a
  obtain ⟨t2, h2⟩ := pushUnique_prefix (o.outMods.foldl pushUnique a) o.outKey
  exact ⟨t1 ++ t2, by rw [Override.addOverrideKeys, h2, h1, List.append_assoc]⟩

/-- an output list written without repetition is added as written -/
theorem addOverrideKeys_nil_of_nodup (o : Override) (h : o.outs.Nodup) :
    o.addOverrideKeys [] = o.outs := by
  have h' : (o.outMods ++ [o.outKey]).Nodup := h
  rw [List.nodup_append] at h'
  obtain ⟨h1, _, h3⟩ := h'
  have e := foldl_pushUnique_nil_of_nodup o.outMods h1 [] (by simp)
  simp only [List.nil_append] at e
  have hk : o.outKey ∉ o.outMods := fun hm => h3 _ hm _ (by simp) rfl
  simp [Override.addOverrideKeys, Override.outs, e, pushUnique, hk]

/-! ### the pass -/

/-- the override chosen for a non-modifier key `k` when the keys `pre` precede it -/
def winnerAt (tbl : List Override) (pre : List Nat) (k : Nat) : Option Override :=
  selectPure pre (tbl.filter (fun o => o.inKey == k)) 0 none

/-- the overrides that fire while `ks` is traversed after `pre`, in firing order -/
def applied (tbl : List Override) : List Nat → List Nat → List Override
  | _, [] => []
  | pre, k :: ks =>
    (if isMod k then [] else (winnerAt tbl pre k).toList) ++ applied tbl (pre ++ [k]) ks

def remOf (ws : List Override) (rem : List Nat) : List Nat :=
  ws.foldl (fun r o => o.addRemovedKeys r) rem
def addOf (ws : List Override) (add : List Nat) : List Nat :=
  ws.foldl (fun a o => o.addOverrideKeys a) add

theorem updateKeys_eq (tbl : List Override) (hwf : ∀ o ∈ tbl, o.WF) (k : Nat) (pre add rem : List Nat) :
    (Overrides.new tbl).updateKeys k (modsOf pre 0) add rem =
      .ok (match winnerAt tbl pre k with
           | some w => (w.addOverrideKeys add, w.addRemovedKeys rem)
           | none => (add, rem)) := by
  have hg := groupOf_new tbl k
  have hsel : ∀ g, g = tbl.filter (fun o => o.inKey == k) →
      selectLoop (modsOf pre 0) g 0 none = .ok (winnerAt tbl pre k) := by
    intro g hg'
    subst hg'
    exact selectLoop_eq pre _ (fun o ho => hwf o (List.mem_filter.mp ho).1) 0 none
  unfold Overrides.updateKeys
  rcases get_eq_groupOf (Overrides.new tbl) k with ⟨h1, h2⟩ | h1
  · rw [h1]
    have : winnerAt tbl pre k = none := by
      unfold winnerAt; rw [← hg, h2]; rfl
    simp [this]
  · rw [h1]
    simp only [hsel _ hg]
    cases winnerAt tbl pre k <;> rfl

theorem pass_eq (tbl : List Override) (hwf : ∀ o ∈ tbl, o.WF) (ks pre add rem : List Nat) :
    pass (Overrides.new tbl) ks ⟨modsOf pre 0, rem, add⟩ =
      .ok ⟨modsOf (pre ++ ks) 0, remOf (applied tbl pre ks) rem, addOf (applied tbl pre ks) add⟩ := by
  induction ks generalizing pre add rem with
  | nil => simp [pass, applied, remOf, addOf]
  | cons k rest ih =>
    simp only [pass, OverrideStates.update]
    cases hm : maskForKey k with
    | some m =>
      have hmod : isMod k = true := by simp [isMod, hm]
      simp only [← modsOf_snoc_mod 0 hm]
      rw [ih]
      simp [applied, hmod, List.append_assoc]
    | none =>
      have hmod : isMod k = false := by simp [isMod, hm]
      simp only [updateKeys_eq tbl hwf k pre add rem]
      cases hw : winnerAt tbl pre k with
      | none =>
        simp only []
        rw [← modsOf_snoc_nonmod 0 hm, ih]
        simp [applied, hmod, hw, List.append_assoc]
      | some w =>
        simp only []
        rw [← modsOf_snoc_nonmod 0 hm, ih]
        simp [applied, hmod, hw, List.append_assoc, remOf, addOf]

/-- **closed form of `override_keys`** for a non-empty table produced by `try_new`. -/
theorem overrideKeys_eq (tbl : List Override) (hwf : ∀ o ∈ tbl, o.WF) (hne : tbl ≠ [])
    (ks : List Nat) (st : OverrideStates) :
    (Overrides.new tbl).overrideKeys ks st =
      .ok (ks.filter (fun k => !((remOf (applied tbl [] ks) []).contains k)) ++ addOf (applied tbl [] ks) [],
           ⟨modsOf ks 0, remOf (applied tbl [] ks) [], addOf (applied tbl [] ks) []⟩) := by
  have he : (Overrides.new tbl).isEmpty = false := by
    rw [isEmpty_new]; cases tbl with
    | nil => exact absurd rfl hne
    | cons _ _ => rfl
  have hp := pass_eq tbl hwf ks [] [] []
  have h0 : (⟨modsOf [] 0, [], []⟩ : OverrideStates) = OverrideStates.new := rfl
  rw [h0] at hp
  simp only [Overrides.overrideKeys, he, hp, List.nil_append]
  rfl

theorem overrideKeys_empty (ks : List Nat) (st : OverrideStates) :
    (Overrides.new []).overrideKeys ks st = .ok (ks, st) := rfl

/-! ### what was removed, what was added -/

theorem mem_remOf {ws : List Override} {r : List Nat} {x : Nat} :
    x ∈ remOf ws r ↔ x ∈ r ∨ ∃ o ∈ ws, x ∈ o.combo := by
  induction ws generalizing r with
  | nil => simp [remOf]
  | cons w rest ih =>
    have : remOf (w :: rest) r = remOf rest (w.addRemovedKeys r) := rfl
    rw [this, ih, mem_addRemovedKeys]
    constructor
    · rintro ((h | h) | ⟨o, ho, hx⟩)
      · exact Or.inl h
      · exact Or.inr ⟨w, by simp, h⟩
      · exact Or.inr ⟨o, by simp [ho], hx⟩
    · rintro (h | ⟨o, ho, hx⟩)
      · exact Or.inl (Or.inl h)
      · rcases List.mem_cons.mp ho with rfl | ho
        · exact Or.inl (Or.inr hx)
        · exact Or.inr ⟨o, ho, hx⟩

theorem mem_addOf {ws : List Override} {a : List Nat} {x : Nat} :
    x ∈ addOf ws a ↔ x ∈ a ∨ ∃ o ∈ ws, x ∈ o.outs := by
  induction ws generalizing a with
  | nil => simp [addOf]
  | cons w rest ih =>
    have : addOf (w :: rest) a = addOf rest (w.addOverrideKeys a) := rfl
    rw [this, ih, mem_addOverrideKeys]
    constructor
    · rintro ((h | h) | ⟨o, ho, hx⟩)
      · exact Or.inl h
      · exact Or.inr ⟨w, by simp, h⟩
      · exact Or.inr ⟨o, by simp [ho], hx⟩
    · rintro (h | ⟨o, ho, hx⟩)
      · exact Or.inl (Or.inl h)
      · rcases List.mem_cons.mp ho with rfl | ho
        · exact Or.inl (Or.inr hx)
        · exact Or.inr ⟨o, ho, hx⟩

theorem nodup_addOf {ws : List Override} {a : List Nat} (h : a.Nodup) : (addOf ws a).Nodup := by
  induction ws generalizing a with
  | nil => simpa [addOf]
  | cons w rest ih => exact ih (nodup_addOverrideKeys h)

theorem nodup_remOf {ws : List Override} {a : List Nat} (h : a.Nodup) : (remOf ws a).Nodup := by
  induction ws generalizing a with
  | nil => simpa [remOf]
  | cons w rest ih => exact ih (nodup_addRemovedKeys h)

theorem winnerAt_inKey {tbl : List Override} {pre : List Nat} {k : Nat} {w : Override}
    (h : winnerAt tbl pre k = some w) : w ∈ tbl ∧ w.inKey = k := by
  obtain ⟨l1, l2, hl, _⟩ := (selectPure_some_iff pre _ w).mp h
  have : w ∈ tbl.filter (fun o => o.inKey == k) := by rw [hl]; simp
  simpa using List.mem_filter.mp this

/-- an override fires iff its (non-modifier) key occurs somewhere in the list and it is the one
selected there, given the keys before that occurrence -/
theorem mem_applied {tbl : List Override} {pre ks : List Nat} {o : Override} :
    o ∈ applied tbl pre ks ↔
      ∃ l1 l2, ks = l1 ++ o.inKey :: l2 ∧ isMod o.inKey = false ∧
        winnerAt tbl (pre ++ l1) o.inKey = some o := by
  induction ks generalizing pre with
  | nil => simp [applied]
  | cons k rest ih =>
    simp only [applied, List.mem_append, ih]
    constructor
    · rintro (h | ⟨l1, l2, hl, hm, hw⟩)
      · by_cases hk : isMod k = true
        · simp [hk] at h
        · simp only [hk] at h
          have hw : winnerAt tbl pre k = some o := by
            cases hw : winnerAt tbl pre k with
            | none => simp [hw] at h
            | some w => simp [hw] at h; rw [h]
          have hik := (winnerAt_inKey hw).2
          refine ⟨[], rest, by simp [hik], ?_, by simpa [hik] using hw⟩
          rw [hik]; simpa using hk
      · exact ⟨k :: l1, l2, by simp [hl], hm, by simpa [List.append_assoc] using hw⟩
    · rintro ⟨l1, l2, hl, hm, hw⟩
      cases l1 with
      | nil =>
        simp only [List.nil_append, List.cons.injEq] at hl
        obtain ⟨rfl, _⟩ := hl
        left
        simp only [List.append_nil] at hw
        simp [hm, hw]
      | cons x l1' =>
        simp only [List.cons_append, List.cons.injEq] at hl
        obtain ⟨rfl, hl⟩ := hl
        right
        exact ⟨l1', l2, hl, hm, by simpa [List.append_assoc] using hw⟩

theorem applied_nil_tbl (pre ks : List Nat) : applied [] pre ks = [] := by
  induction ks generalizing pre with
  | nil => rfl
  | cons k rest ih =>
    simp only [applied, ih, List.append_nil]
    split
    · rfl
    · simp [winnerAt, selectPure]

/-- `o` fires on the key list `ks`: its (non-modifier) key occurs in `ks`, and among the overrides
of that key, in table order, `o` is the first of the longest ones all of whose modifiers occur
*before that occurrence*. -/
def Fires (tbl : List Override) (ks : List Nat) (o : Override) : Prop :=
  ∃ l1 l2, ks = l1 ++ o.inKey :: l2 ∧ isMod o.inKey = false ∧
    FirstLongest l1 (tbl.filter (fun o' => o'.inKey == o.inKey)) o

theorem fires_iff_applied {tbl : List Override} {ks : List Nat} {o : Override} :
    Fires tbl ks o ↔ o ∈ applied tbl [] ks := by
  rw [mem_applied]
  simp only [Fires, List.nil_append, winnerAt, selectPure_some_iff]


/-- pushing keys that are all there already changes nothing -/
theorem addOverrideKeys_idem (o : Override) (a : List Nat) (h : ∀ x ∈ o.outs, x ∈ a) :
    o.addOverrideKeys a = a := by
  have h1 : ∀ (ys l : List Nat), (∀ y ∈ ys, y ∈ l) → ys.foldl pushUnique l = l := by
    intro ys
    induction ys with
    | nil => intro l _; rfl
    | cons y rest ih =>
      intro l hy
      have : pushUnique l y = l := by simp [pushUnique, hy y (by simp)]
      rw [List.foldl_cons, this]
      exact ih l (fun z hz => hy z (by simp [hz]))
  have hm : ∀ y ∈ o.outMods, y ∈ a := fun y hy => h y (by simp [Override.outs, hy])
  have hk : o.outKey ∈ a := h _ (by simp [Override.outs])
  simp [Override.addOverrideKeys, h1 _ _ hm, pushUnique, hk]

theorem addOf_all_same (o : Override) (ws : List Override) (hall : ∀ o' ∈ ws, o' = o)
    (hne : ws ≠ []) : addOf ws [] = o.addOverrideKeys [] := by
  cases ws with
  | nil => exact absurd rfl hne
  | cons w rest =>
    have hw : w = o := hall w (by simp)
    subst hw
    have hrest : ∀ (l : List Override), (∀ o' ∈ l, o' = w) → ∀ a, (∀ x ∈ w.outs, x ∈ a) →
        addOf l a = a := by
      intro l
      induction l with
      | nil => intro _ a _; rfl
      | cons v l' ih =>
        intro hl a ha
        have hv : v = w := hl v (by simp)
        subst hv
        show addOf l' (v.addOverrideKeys a) = a
        rw [addOverrideKeys_idem v a ha]
        exact ih (fun o' ho' => hl o' (by simp [ho'])) a ha
    show addOf rest (w.addOverrideKeys []) = _
    exact hrest rest (fun o' ho' => hall o' (by simp [ho'])) _
      (fun x hx => mem_addOverrideKeys.mpr (Or.inr hx))


end KVerif.Override
