/-
Helper lemmas for C15 (success half): the state a complete `do_live_reload` leaves, compared field by
field with `Kanata::new` of the new configuration (both INTERPRETED from the regenerated lists), and
what the first tick after a reload does with the keys that were still down.
-/
import KVerif.Lemmas.ReloadSim
namespace KVerif.Reload
open KVerif.Gen.Reload

variable {W : World}

/-! ### the fields a successful reload does not bring to the constructor's value -/

/-- plumbing: the output sink handle (`kbd_out`, re-configured in place by `update_kbd_out`), the
command line (`cfg_paths`) and the position in it (`cur_cfg_idx`: it selects the file that was just
loaded), the wall clock (`last_tick`, `time_remainder`) and the TCP server address (a command-line
argument; the `tx` notification handle is a parameter, not a field) -/
def retainedPlumbing : List Field :=
  [.kbd_out, .cfg_paths, .cur_cfg_idx, .last_tick, .time_remainder, .tcp_server_address]

/-- options that are read once, before the processing loop starts (device selection, the stored X11
repeat rate, `allow-hardware-repeat`); documented as not reloadable -/
def retainedStartupOnly : List Field :=
  [.kbd_in_paths, .continue_if_no_devices, .include_names, .exclude_names, .x11_repeat_rate,
   .device_detect_mode, .allow_hardware_repeat]

/-- what the user produced while kanata ran: the dynamic macros recorded before the reload and the
saved clipboard contents; kept (recorded as probably intended) -/
def retainedUserData : List Field := [.dynamic_macros, .saved_clipboard_content]

/-- THE list of fields on which a reloaded instance may differ from a freshly constructed one -/
def retainedOnReload : List Field := retainedPlumbing ++ retainedStartupOnly ++ retainedUserData

/-- the retained fields that the reload bookkeeping itself does not read -/
def retainedOpaque : List Field :=
  [.kbd_out, .last_tick, .time_remainder, .tcp_server_address] ++ retainedStartupOnly ++ retainedUserData

/-- the three fields `do_live_reload` leaves alone that are nevertheless in the constructor's
condition when it runs: the key lists (nothing is down) and the request flag (`handle_time_ticks`
clears it just before the call) -/
def coveredByIdle : List Field := [.cur_keys, .prev_keys, .live_reload_requested]

/-- Check, on the regenerated lists only, that field `f` of a completely reloaded instance holds what
`Kanata::new` stores in it: either it is reset to a constant and the constructor's initialiser does not
mention `cfg` either, or it is assigned from `cfg` (and not reset afterwards) and the constructor
computes it from `cfg` too, or it is one of the three fields covered by the idle hypothesis. -/
def freshCheck (f : Field) : Bool :=
  if f ∈ assignedReset resetPart then
    ctorNew.lookup f != some true && f != .cfg_paths && f != .cur_cfg_idx
  else if f ∈ assignedFromCfg silentPart then ctorNew.lookup f == some true
  else f ∈ coveredByIdle && ctorNew.lookup f != some true && f != .cfg_paths && f != .cur_cfg_idx

/-- every field outside the retained list passes the check (a field added to `struct Kanata` without
a reset in `do_live_reload` appears in `Gen.Reload.Field`, is in neither list, and stops this proof) -/
theorem freshCheck_all (f : Field) (h : f ∉ retainedOnReload) : freshCheck f = true := by
  revert h; cases f <;> decide

/-- the retained list is tight: it is exactly the set of fields that `do_live_reload` never assigns,
minus the three covered by the idle hypothesis -/
theorem retained_exact (f : Field) :
    f ∈ retainedOnReload ↔ (f ∉ assigned reloadSteps ∧ f ∉ coveredByIdle) := by
  cases f <;> decide

theorem retainedOpaque_eq (f : Field) :
    f ∈ retainedOpaque ↔ (f ∈ retainedOnReload ∧ f ≠ .cfg_paths ∧ f ≠ .cur_cfg_idx) := by
  cases f <;> decide

theorem freshAt_cfg (ctor : List (Field × Bool)) (paths : List Nat) (idx : Nat) (c : W.Cfg) (f : Field)
    (h : ctor.lookup f = some true) : (freshAt (W := W) ctor paths idx c) f = W.cfgVal f c := by
  simp only [freshAt, h]

theorem freshAt_const (ctor : List (Field × Bool)) (paths : List Nat) (idx : Nat) (c : W.Cfg) (f : Field)
    (h : ctor.lookup f ≠ some true) : (freshAt (W := W) ctor paths idx c) f = constVal W paths idx f := by
  simp only [freshAt]

/-- field by field: a complete reload leaves what the constructor stores, wherever `freshCheck` holds -/
theorem reloaded_get_fresh (hW0 : ∀ c, W.currentLayer (W.cfgVal .layout c) = 0) (c : W.Cfg) (s : KSt W)
    (paths : List Nat) (idx : Nat)
    (hreq : s .live_reload_requested = false) (hprev : s .prev_keys = ([] : List Nat))
    (hcur : s .cur_keys = ([] : List Nat)) (f : Field) (hf : freshCheck f = true) :
    (reloaded c s) f = (freshAt (W := W) ctorNew paths idx c) f := by
  simp only [reloaded]
  rw [applyReset_get, applyCfg_get]
  unfold freshCheck at hf
  by_cases h1 : f ∈ assignedReset resetPart
  · simp only [h1, if_true, Bool.and_eq_true, bne_iff_ne, ne_eq] at hf ⊢
    obtain ⟨⟨hl, hp⟩, hi⟩ := hf
    rw [freshAt_const _ _ _ _ _ hl, constVal_eq _ _ f hp hi]
    by_cases hpl : f = .prev_layer
    · subst hpl
      simp only [resetVal, typedInit]
      exact hW0 c
    · exact resetVal_eq _ f hpl
  · simp only [h1, if_false] at hf ⊢
    by_cases h2 : f ∈ assignedFromCfg silentPart
    · simp only [h2, if_true, beq_iff_eq] at hf ⊢
      rw [freshAt_cfg _ _ _ _ _ hf]
    · simp only [h2, if_false, Bool.and_eq_true, bne_iff_ne, ne_eq, decide_eq_true_eq] at hf ⊢
      obtain ⟨⟨⟨hm, hl⟩, hp⟩, hi⟩ := hf
      rw [freshAt_const _ _ _ _ _ hl, constVal_eq _ _ f hp hi]
      simp only [coveredByIdle, List.mem_cons, List.mem_nil_iff, or_false] at hm
      rcases hm with e | e | e
      · subst e; exact hcur
      · subst e; exact hprev
      · subst e; exact hreq

/-! ### the first tick after a reload -/

/-- after `tick_states` the list of keys held at the OS is what `handle_keystate_changes` computed -/
theorem tickStates_prev_keys (nr : Bool) (s s' : KSt W) (os : List W.Os)
    (h : tickStatesG nr s = .ok (s', os)) :
    s' .prev_keys = (W.ksc s).1 .cur_keys ∧ s' .cur_keys = ([] : List Nat) ∧
    ∃ l2 : List W.Os, os = (W.ksc s).2.2 ++ l2 := by
  unfold tickStatesG at h
  simp only at h
  split at h
  · simp at h
  · rename_i s2 h2
    simp at h
    obtain ⟨rfl, rfl⟩ := h
    obtain ⟨_, _, _, a4⟩ := applyActs_framed _ _ _ h2
    have e2 : s2 .cur_keys = (W.ksc s).1 .cur_keys := by
      rw [a4 .cur_keys (by decide)]
      exact frame_out _ _ _ (by decide)
    have e3 := (tickIdleTimeout_framed s2).2.2.2.2.2
    refine ⟨?_, by simp [St.set], _, rfl⟩
    simp only [St.set_other _ _ _ _ (show Field.prev_keys ≠ .cur_keys by decide), St.set_same]
    rw [(frameK_keys _ _).1]
    rw [St.set_other _ _ _ _ (show Field.cur_keys ≠ .macro_on_press_cancel_duration by decide), e3, e2]

/-- What "the OS release pass" of `handle_keystate_changes` means for an abstract world: every key
that the previous tick left pressed at the OS (`prev_keys`) and that the layout does not hold any
more (`cur_keys` as computed by this call) is released in this call; `up k` is the OS event "release
`k`". -/
structure ReleasePass (W : World) (up : Nat → W.Os) : Prop where
  rel : ∀ (s : KSt W) (k : Nat), k ∈ (s .prev_keys : List Nat) →
    k ∉ ((W.ksc s).1 .cur_keys : List Nat) → up k ∈ (W.ksc s).2.2

/-- the first tick after a state in which keys were still down: each of them is either held by the
layout itself in that tick or released at the OS -/
theorem tickStates_releases (up : Nat → W.Os) (hR : ReleasePass W up) (nr : Bool) (s s' : KSt W)
    (os : List W.Os) (h : tickStatesG nr s = .ok (s', os)) (k : Nat)
    (hk : k ∈ (s .prev_keys : List Nat)) : k ∈ (s' .prev_keys : List Nat) ∨ up k ∈ os := by
  obtain ⟨e1, _, l2, e3⟩ := tickStates_prev_keys nr s s' os h
  by_cases hm : k ∈ ((W.ksc s).1 .cur_keys : List Nat)
  · left; rw [e1]; exact hm
  · right; rw [e3]; exact List.mem_append_left _ (hR.rel s k hk hm)

end KVerif.Reload
