/-
The run of a whole chord from a fresh state (used by `zippy_net_text_basic`) with the state it ends
in, and the run of the remaining keys of a longer chord after a shorter one has been activated in
the same hold (used by `zippy_net_text_extends_partial`).
-/
import KVerif.Lemmas.ZippyForm
import KVerif.Lemmas.ZippyMods
namespace KVerif.Zippy
open KVerif.TextBuf

theorem basic_run (cfg : Cfg) (K : Key) (out : List ZchOut) (s : Zchd) (b : Buf)
    (front : List (Nat × Nat)) (last : Nat)
    (hent : BasicEntry cfg.dict K out)
    (hkeys : ∀ x ∈ K, isZippyIgnored x = false)
    (hout : out.isEmpty = false) (hko : ∀ o ∈ out, CharKey o.osc)
    (hperm : (front.map (·.1) ++ [last]).Perm K)
    (hgap : ∀ kg ∈ front, kg.2 ≤ TICKS_UNTIL_FORCE_STATE_RESET)
    (hdl : cfg.ticksChordDeadline = 0 ∨ (front.map (·.2)).sum < cfg.ticksChordDeadline)
    (hfresh : Fresh s) (hmods : ModsAgree s b)
    (hss : s.smartSpaceState = .inactive ∨ ∀ x ∈ K, cfg.punctuation.contains (puncOf s x) = false) :
    let r := zRun cfg s (chordHist front ++ [.press last])
    (b.run r.2).rtext = withSmartSpace cfg out (typeOuts b.rtext (s.lsft || s.rsft) out) ∧
    ModsAgree s (b.run r.2) ∧ r.1.lastPress = .isChord ∧ r.1.inputKeys = K ∧
    (hasFollowups cfg.dict [K] = false →
      Forming cfg (postPhase (freshPhase s) cfg (front.map (·.1) ++ [last]) out) s r.1 [] 0 0) := by
  intro r
  have hne := hent.root_nonempty
  have hmem : ∀ x, x ∈ front.map (·.1) ++ [last] ↔ x ∈ K := fun x => hperm.mem_iff
  have hnodupK : K.Nodup := hent.sorted.imp (fun h => Nat.ne_of_lt h)
  have hnodup : (front.map (·.1) ++ [last]).Nodup := hperm.nodup_iff.mpr hnodupK
  have hlastK : last ∈ K := (hmem last).mp (by simp)
  have hlast_notin : last ∉ front.map (·.1) := by
    intro h
    have := List.nodup_append.mp hnodup
    exact this.2.2 last h last (by simp) rfl
  have hfull : chordKey (front.map (·.1) ++ [last]) = K :=
    strictSorted_ext _ _ (strictSorted_chordKey _) hent.sorted
      (fun x => by rw [mem_chordKey]; exact hmem x)
  -- every key set reached before the last press is a proper part of `K`
  have hpart : ∀ ks : List Nat, (∀ x ∈ ks, x ∈ front.map (·.1)) →
      lookupLevel cfg.dict [] (chordKey ks) = .isSubset := by
    intro ks hks
    apply hent.lookup_part
    · intro x hx
      exact (hmem x).mp (List.mem_append_left _ (hks x ((mem_chordKey _ _).mp hx)))
    · intro heq
      have : last ∈ chordKey ks := heq ▸ hlastK
      exact hlast_notin (hks last ((mem_chordKey _ _).mp this))
  have hcpl : phaseCpl (freshPhase s) out = 0 := by
    unfold phaseCpl freshPhase
    simp only
    split <;> rfl
  have hrun : r = zRun cfg s (chordHist front ++ [.press last]) := rfl
  rw [zRun_append] at hrun
  have hlastrun : ∀ s', zRun cfg s' [.press last] = zchPressKey cfg s' last := by
    intro s'; simp [zRun, zStep]
  have hdrop : ∀ (b' : Buf) (n : Nat), BufForming b b' n →
      List.drop ((freshPhase s).ctd0 + (n : Int) - ((0 : Nat) : Int)).toNat b'.rtext = b.rtext := by
    intro b' n hb'
    obtain ⟨L, hL, hrt⟩ := hb'.text
    have : ((freshPhase s).ctd0 + (n : Int) - ((0 : Nat) : Int)).toNat = n := by simp [freshPhase]
    rw [this, hrt, ← hL]; simp
  cases front with
  | nil =>
    simp only [chordHist, List.flatMap_nil, zRun, List.nil_append, hlastrun] at hrun
    have hb0 : BufForming b b ([] : List Nat).length := ⟨⟨[], rfl, rfl⟩, rfl, rfl, rfl⟩
    have hss' : s.smartSpaceState = .inactive ∨ cfg.punctuation.contains (puncOf s last) = false := by
      rcases hss with h | h
      · exact Or.inl h
      · exact Or.inr (h last hlastK)
    have := final_press (cfg := cfg) (out := out) hfresh.ready hb0 hmods hne last (hkeys last hlastK)
      (by simp only [freshPhase, List.nil_append]
          rw [show chordKey [last] = K from by simpa using hfull]; exact hent.lookup_full)
      hss' hout hko
    have hlk1 : lookupLevel cfg.dict [] (chordKey ((freshPhase s).pre ++ (([] : List Nat) ++ [last]))) = .hasValue out := by
      simp only [freshPhase, List.nil_append]
      rw [show chordKey [last] = K from by simpa using hfull]; exact hent.lookup_full
    have hpost := fun hnf => final_press_post (cfg := cfg) (out := out) hfresh.ready hne last (hkeys last hlastK)
      hlk1 hss' hout (by
        simp only [freshPhase, List.nil_append]
        rw [show chordKey [last] = K from by simpa using hfull]; exact hnf)
    rw [hcpl, hdrop b _ hb0] at this
    rw [hrun]
    simp only [freshPhase, List.nil_append, List.drop_zero] at this
    rw [show chordKey [last] = K from by simpa using hfull] at this
    refine ⟨by simpa [zStep] using this.1, by simpa [zStep] using this.2.1, by simpa [zStep] using this.2.2.1,
      by simpa [zStep] using this.2.2.2, ?_⟩
    intro hnf
    simpa [zStep, freshPhase] using hpost hnf
  | cons kg rest =>
    obtain ⟨k1, g1⟩ := kg
    simp only [List.map_cons, List.cons_append, List.sum_cons] at hmem hfull hdl hlast_notin hpart
    have hk1K : k1 ∈ K := (hmem k1).mp (by simp)
    have hss1 : s.smartSpaceState = .inactive ∨ cfg.punctuation.contains (puncOf s k1) = false := by
      rcases hss with h | h
      · exact Or.inl h
      · exact Or.inr (h k1 hk1K)
    obtain ⟨hf1, hb1⟩ := hfresh.press (b := b) hne k1 (hkeys k1 hk1K) hss1
      (hpart [k1] (by intro x hx; simp at hx; simp [hx]))
    have hg1 : g1 ≤ TICKS_UNTIL_FORCE_STATE_RESET := hgap (k1, g1) (List.mem_cons_self ..)
    have hf2 := hf1.ticks g1 (by omega)
      (by rcases hdl with h0 | h1; exact Or.inl h0; exact Or.inr (by omega))
    obtain ⟨e', c', hf3, hb3⟩ := forming_rest (b0 := b) hne rest _ _ [k1] (0 + g1) (0 + g1) hf2 hb1
      (fun kg hkg => hkeys kg.1 ((hmem kg.1).mp (by
        simp only [List.mem_cons, List.mem_append, List.mem_map, List.mem_singleton]
        exact Or.inr (Or.inl ⟨kg, hkg, rfl⟩))))
      (by intro hp; simp at hp)
      (by
        intro ks _ hpre
        simp only [freshPhase, List.nil_append]
        apply hpart
        intro x hx
        simp only [List.singleton_append, List.mem_cons] at hx ⊢
        rcases hx with hx | hx
        · exact Or.inl hx
        · exact Or.inr (hpre.subset hx))
      (fun kg hkg => hgap kg (List.mem_cons_of_mem _ hkg))
      (by rcases hdl with h0 | h1; exact Or.inl h0; exact Or.inr (by omega))
    have hfin := final_press (cfg := cfg) (out := out) hf3.ready hb3 hmods hne last (hkeys last hlastK)
      (by simp only [freshPhase, List.nil_append]
          rw [show chordKey ([k1] ++ List.map (fun x => x.1) rest ++ [last]) = K from by
            simpa [List.append_assoc] using hfull]
          exact hent.lookup_full)
      (Or.inl (hf3.ss (by simp))) hout hko
    have hpost := fun hnf => final_press_post (cfg := cfg) (out := out) hf3.ready hne last (hkeys last hlastK)
      (by simp only [freshPhase, List.nil_append]
          rw [show chordKey ([k1] ++ List.map (fun x => x.1) rest ++ [last]) = K from by
            simpa [List.append_assoc] using hfull]
          exact hent.lookup_full)
      (Or.inl (hf3.ss (by simp))) hout (by
        simp only [freshPhase, List.nil_append]
        rw [show chordKey ([k1] ++ List.map (fun x => x.1) rest ++ [last]) = K from by
          simpa [List.append_assoc] using hfull]
        exact hnf)
    rw [hcpl, hdrop _ _ hb3] at hfin
    simp only [freshPhase, List.nil_append, List.drop_zero] at hfin
    rw [show chordKey ([k1] ++ List.map (fun x => x.1) rest ++ [last]) = K from by
      simpa [List.append_assoc] using hfull] at hfin
    rw [chordHist_cons, zRun_append, zRun_pressTicks] at hrun
    simp only [hlastrun] at hrun
    rw [hrun]
    simp only [run_append]
    refine ⟨by simpa using hfin.1, by simpa using hfin.2.1, by simpa using hfin.2.2.1,
      by simpa using hfin.2.2.2, ?_⟩
    intro hnf
    simpa [freshPhase, List.append_assoc] using hpost hnf


/-- the characters of an expansion, in typing order -/
def expansionChars (sh : Bool) : List ZchOut → List Ch
  | [] => []
  | o :: os => mkCh o.osc (o.shift || sh) o.ag :: expansionChars false os

theorem typeOuts_noBackspace (rt : List Ch) (sh : Bool) (out : List ZchOut)
    (h : ∀ o ∈ out, o.osc ≠ KEY_BACKSPACE) :
    typeOuts rt sh out = (expansionChars sh out).reverse ++ rt := by
  induction out generalizing rt sh with
  | nil => simp [typeOuts, expansionChars]
  | cons o os ih =>
    have ho : o.osc ≠ KEY_BACKSPACE := h o (List.mem_cons_self ..)
    rw [typeOuts, ih _ _ (fun o' h' => h o' (List.mem_cons_of_mem _ h'))]
    simp [expansionChars, stroke, ho]


/-! ### The remaining keys of a longer chord, after a shorter one has been activated in this hold -/

/-- `K2 ↦ out2` is a top-level chord stored once, `K1` lies inside it, and the top-level chords whose
keys all lie in `K2` are exactly `K1` and `K2`. -/
structure ExtEntry (d : Dict) (K1 K2 : Key) (out2 : List ZchOut) : Prop where
  mem : (K2, out2) ∈ level d []
  ne : K2 ≠ []
  sorted : StrictSorted K2
  uniq : ∀ out', (K2, out') ∈ level d [] → out' = out2
  inside : ∀ kv ∈ level d [], isSubsetOf kv.1 K2 = true → kv.1 = K1 ∨ kv.1 = K2

theorem ExtEntry.lookup_full {d : Dict} {K1 K2 : Key} {out2 : List ZchOut} (h : ExtEntry d K1 K2 out2) :
    lookupLevel d [] K2 = .hasValue out2 := by
  rw [lookupLevel_eq]
  unfold lookupSpec
  rw [lastInsert_unique h.mem h.ne h.uniq]

theorem ExtEntry.lookup_part {d : Dict} {K1 K2 : Key} {out2 : List ZchOut} (h : ExtEntry d K1 K2 out2)
    (S : Key) (hsub : ∀ x ∈ S, x ∈ K2) (hn1 : S ≠ K1) (hn2 : S ≠ K2) :
    lookupLevel d [] S = .isSubset := by
  rw [lookupLevel_eq]
  unfold lookupSpec
  have hnone : lastInsert (level d []) S = none := by
    apply lastInsert_none_of_not_mem
    intro kv hkv heq
    rcases h.inside kv hkv (by rw [heq]; exact (isSubsetOf_iff S K2).mpr hsub) with h1 | h1
    · exact hn1 (heq ▸ h1)
    · exact hn2 (heq ▸ h1)
  rw [hnone]
  have hany : (level d []).any (fun kv => !kv.1.isEmpty && isSubsetOf S kv.1) = true := by
    simp only [List.any_eq_true]
    refine ⟨(K2, out2), h.mem, ?_⟩
    simp only [Bool.and_eq_true, Bool.not_eq_true', List.isEmpty_eq_false_iff]
    exact ⟨h.ne, (isSubsetOf_iff S K2).mpr hsub⟩
  simp [hany]

/-- From a state in which the keys `ph.pre` (the shorter chord, already activated) are down, the
remaining keys of `K2` go down in any order: each but the last is typed, the last one completes `K2`. -/
theorem ext_run (cfg : Cfg) (ph : Phase) (K1 K2 : Key) (out2 : List ZchOut) (s0 s : Zchd) (b0 b : Buf)
    (e c : Nat) (front : List (Nat × Nat)) (last : Nat)
    (hf : Forming cfg ph s0 s [] e c) (hbm : b.lsft = b0.lsft ∧ b.rsft = b0.rsft ∧ b.ralt = b0.ralt)
    (hm0 : ModsAgree s0 b0)
    (hne : ssmIsEmpty (levelSsm cfg.dict []) = false)
    (hext : ExtEntry cfg.dict K1 K2 out2)
    (hpre : ∀ x, x ∈ ph.pre ↔ x ∈ K1) (hK1 : StrictSorted K1)
    (hkeys : ∀ x ∈ K2, isZippyIgnored x = false)
    (hnew : ∀ kg ∈ front, kg.1 ∉ K1)
    (hall : ∀ x, x ∈ ph.pre ++ (front.map (·.1) ++ [last]) ↔ x ∈ K2)
    (hlast : last ∉ ph.pre ++ front.map (·.1)) (hlast1 : last ∉ K1)
    (hpunc : s.smartSpaceState = .inactive ∨ ∀ x ∈ K2, cfg.punctuation.contains (puncOf s0 x) = false)
    (hout : out2.isEmpty = false) (hko : ∀ o ∈ out2, CharKey o.osc)
    (hgap : ∀ kg ∈ front, kg.2 ≤ TICKS_UNTIL_FORCE_STATE_RESET)
    (hdl : cfg.ticksChordDeadline = 0 ∨ e + (front.map (·.2)).sum < cfg.ticksChordDeadline) :
    let r := zRun cfg s (chordHist front ++ [.press last])
    (∃ L : List Ch, L.length = front.length ∧
      (b.run r.2).rtext = withSmartSpace cfg out2
        (typeOuts ((L ++ b.rtext).drop (ph.ctd0 + front.length - (phaseCpl ph out2 : Int)).toNat)
          (s0.lsft || s0.rsft) (out2.drop (phaseCpl ph out2)))) ∧
    ModsAgree s0 (b.run r.2) ∧ r.1.lastPress = .isChord := by
  intro r
  have hlastK : last ∈ K2 := (hall last).mp (by simp)
  have hfull : chordKey (ph.pre ++ (front.map (·.1) ++ [last])) = K2 :=
    strictSorted_ext _ _ (strictSorted_chordKey _) hext.sorted
      (fun x => by rw [mem_chordKey]; exact hall x)
  -- key sets reached before the last press: K1 plus some (at least one) new keys, never all of K2
  have hpart : ∀ ks : List Nat, ks ≠ [] → (∀ x ∈ ks, x ∈ front.map (·.1)) →
      lookupLevel cfg.dict [] (chordKey (ph.pre ++ ks)) = .isSubset := by
    intro ks hks hsub
    apply hext.lookup_part
    · intro x hx
      rw [mem_chordKey] at hx
      apply (hall x).mp
      rcases List.mem_append.mp hx with h | h
      · exact List.mem_append_left _ h
      · exact List.mem_append_right _ (List.mem_append_left _ (hsub x h))
    · intro heq
      obtain ⟨y, hy⟩ := List.exists_mem_of_ne_nil ks hks
      have hy1 : y ∈ chordKey (ph.pre ++ ks) := (mem_chordKey _ _).mpr (List.mem_append_right _ hy)
      rw [heq] at hy1
      obtain ⟨kg, hkg, hk⟩ := List.mem_map.mp (hsub y hy)
      exact hnew kg hkg (hk ▸ hy1)
    · intro heq
      have : last ∈ chordKey (ph.pre ++ ks) := heq ▸ hlastK
      rw [mem_chordKey] at this
      apply hlast
      rcases List.mem_append.mp this with h | h
      · exact List.mem_append_left _ h
      · exact List.mem_append_right _ (hsub last h)
  have hb0 : BufForming b b ([] : List Nat).length := ⟨⟨[], rfl, rfl⟩, rfl, rfl, rfl⟩
  have hpo : ∀ (s' : Zchd) (k : Nat), s'.lsft = s0.lsft → s'.rsft = s0.rsft → s'.altgr = s0.altgr →
      puncOf s' k = puncOf s0 k := by
    intro s' k h1 h2 h3; simp [puncOf, h1, h2, h3]
  obtain ⟨e', c', hf3, hb3⟩ := forming_rest (b0 := b) hne front s b [] e c hf hb0
    (fun kg hkg => hkeys kg.1 ((hall kg.1).mp (by
      simp only [List.mem_append, List.mem_map, List.mem_singleton]
      exact Or.inr (Or.inl ⟨kg, hkg, rfl⟩))))
    (by
      intro _
      rcases hpunc with h | h
      · exact Or.inl h
      · exact Or.inr (fun kg hkg => h kg.1 ((hall kg.1).mp (by
          simp only [List.mem_append, List.mem_map, List.mem_singleton]
          exact Or.inr (Or.inl ⟨kg, hkg, rfl⟩)))))
    (by
      intro ks hks hpre
      simp only [List.nil_append]
      exact hpart ks hks (fun x hx => hpre.subset hx))
    hgap hdl
  simp only [List.nil_append] at hf3 hb3
  have hss : (zRun cfg s (chordHist front)).1.smartSpaceState = .inactive ∨
      cfg.punctuation.contains (puncOf (zRun cfg s (chordHist front)).1 last) = false := by
    by_cases hfe : front.map (·.1) = []
    · have : front = [] := by simpa using hfe
      subst this
      simp only [chordHist, List.flatMap_nil, zRun]
      rcases hpunc with h | h
      · exact Or.inl h
      · exact Or.inr (by rw [hpo s last hf.lsft hf.rsft hf.altgr]; exact h last hlastK)
    · exact Or.inl (hf3.ss hfe)
  have hm0' : ModsAgree s0 b := by
    obtain ⟨h1, h2, h3⟩ := hm0
    exact ⟨by rw [hbm.1, h1], by rw [hbm.2.1, h2], by rw [hbm.2.2, h3]⟩
  have hfin := final_press (cfg := cfg) (out := out2) hf3.ready hb3 hm0' hne last (hkeys last hlastK)
    (by rw [hfull]; exact hext.lookup_full) hss hout hko
  have hrun : r = zRun cfg s (chordHist front ++ [.press last]) := rfl
  rw [zRun_append] at hrun
  have hlastrun : ∀ s', zRun cfg s' [.press last] = zchPressKey cfg s' last := by
    intro s'; simp [zRun, zStep]
  simp only [hlastrun] at hrun
  rw [hrun]
  simp only [run_append]
  obtain ⟨L, hL, hrt⟩ := hb3.text
  refine ⟨⟨L, by simpa using hL, ?_⟩, hfin.2.1, hfin.2.2.1⟩
  rw [hfin.1, hrt]
  simp

/-! ### Expansions without Backspace / no-erase outputs -/

/-- every output writes exactly one erasable character -/
def PlainOuts (outs : List ZchOut) : Prop := ∀ o ∈ outs, o.osc ≠ KEY_BACKSPACE ∧ o.noErase = false

theorem PlainOuts.noBs {outs : List ZchOut} (h : PlainOuts outs) : ∀ o ∈ outs, o.osc ≠ KEY_BACKSPACE :=
  fun o ho => (h o ho).1

theorem displayLen_plain_aux (outs : List ZchOut) (h : PlainOuts outs) (n : Int) :
    outs.foldl (fun n o => n + o.charCount) n = n + outs.length := by
  induction outs generalizing n with
  | nil => simp
  | cons o os ih =>
    have ho := h o (List.mem_cons_self ..)
    rw [List.foldl_cons, ih (fun o' h' => h o' (List.mem_cons_of_mem _ h'))]
    simp only [ZchOut.charCount, ho.1, ho.2, if_false, List.length_cons, Bool.false_eq_true]
    omega

theorem displayLen_plain (outs : List ZchOut) (h : PlainOuts outs) : displayLen outs = outs.length := by
  unfold displayLen
  rw [displayLen_plain_aux outs h 0]; simp

theorem expansionChars_length (sh : Bool) (outs : List ZchOut) : (expansionChars sh outs).length = outs.length := by
  induction outs generalizing sh with
  | nil => rfl
  | cons o os ih => simp [expansionChars, ih]

theorem expansionChars_append (a b : List ZchOut) :
    expansionChars false (a ++ b) = expansionChars false a ++ expansionChars false b := by
  induction a with
  | nil => rfl
  | cons o os ih => simp [expansionChars, ih]

theorem commonPrefixLen_le (p c : List ZchOut) :
    commonPrefixLen p c ≤ p.length ∧ commonPrefixLen p c ≤ c.length := by
  induction p generalizing c with
  | nil => simp [commonPrefixLen]
  | cons a as ih =>
    cases c with
    | nil => simp [commonPrefixLen]
    | cons b bs =>
      unfold commonPrefixLen
      split
      · simp
      · have := ih bs
        simp only [List.length_cons]; omega

theorem commonPrefixLen_take (p c : List ZchOut) :
    p.take (commonPrefixLen p c) = c.take (commonPrefixLen p c) := by
  induction p generalizing c with
  | nil => simp [commonPrefixLen]
  | cons a as ih =>
    cases c with
    | nil => simp [commonPrefixLen]
    | cons b bs =>
      unfold commonPrefixLen
      split
      · simp
      · rename_i h
        have hab : a = b := by
          simp only [Bool.or_eq_true, decide_eq_true_eq, not_or, ne_eq, Decidable.not_not] at h
          exact h.2
        simp [List.take_succ_cons, hab, ih bs]

theorem typeOuts_append_false (rt : List Ch) (a b : List ZchOut) :
    typeOuts rt false (a ++ b) = typeOuts (typeOuts rt false a) false b := by
  induction a generalizing rt with
  | nil => rfl
  | cons o os ih => simp only [List.cons_append, typeOuts, ih]

theorem typeOuts_plain_length (rt : List Ch) (outs : List ZchOut) (h : PlainOuts outs) :
    (typeOuts rt false outs).length = outs.length + rt.length := by
  rw [typeOuts_noBackspace _ _ _ h.noBs]
  simp [expansionChars_length]

/-- Erasing all but the first `n` characters of a plain expansion leaves the expansion's first `n`
outputs typed. -/
theorem typeOuts_plain_drop (rt : List Ch) (outs : List ZchOut) (h : PlainOuts outs) (n : Nat)
    (hn : n ≤ outs.length) :
    (typeOuts rt false outs).drop (outs.length - n) = typeOuts rt false (outs.take n) := by
  induction outs generalizing rt n with
  | nil => simp [typeOuts]
  | cons o os ih =>
    have hos : PlainOuts os := fun o' h' => h o' (List.mem_cons_of_mem _ h')
    have ho : o.osc ≠ KEY_BACKSPACE := (h o (List.mem_cons_self ..)).1
    cases n with
    | zero =>
      simp only [List.take_zero, typeOuts, List.length_cons, Nat.sub_zero, Bool.or_false]
      have h1 := ih (stroke rt o.osc o.shift o.ag) hos 0 (by omega)
      simp only [Nat.sub_zero, List.take_zero, typeOuts] at h1
      rw [← List.drop_drop, h1]
      simp [stroke, ho]
    | succ m =>
      simp only [List.take_succ_cons, typeOuts, List.length_cons, Bool.or_false]
      have := ih (stroke rt o.osc o.shift o.ag) hos m (by simp only [List.length_cons] at hn; omega)
      rw [show os.length + 1 - (m + 1) = os.length - m from by omega]
      exact this

theorem PlainOuts.take {outs : List ZchOut} (h : PlainOuts outs) (n : Nat) : PlainOuts (outs.take n) :=
  fun o ho => h o (List.mem_of_mem_take ho)

theorem PlainOuts.drop {outs : List ZchOut} (h : PlainOuts outs) (n : Nat) : PlainOuts (outs.drop n) :=
  fun o ho => h o (List.mem_of_mem_drop ho)

/-- Holding a key that zippychord ignores (e.g. shift) for `n` ticks from an idle enabled state only
advances `ticksSinceStateChange`. -/
theorem idle_ticks (s : Zchd) (n : Nat) (hen : s.enabledState = .enabled) (htud : s.ticksUntilDisable = 0)
    (hc : s.capsWord = false) (h : s.ticksSinceStateChange + n ≤ TICKS_UNTIL_FORCE_STATE_RESET) :
    ticksN s n = { s with ticksSinceStateChange := s.ticksSinceStateChange + n } := by
  induction n generalizing s with
  | zero => rfl
  | succ n ih =>
    rw [ticksN, tick_idle s hen htud hc (by omega)]
    have := ih { s with ticksSinceStateChange := s.ticksSinceStateChange + 1 } hen htud hc (by simp only; omega)
    rw [this]
    simp only [Nat.add_assoc, Nat.add_comm 1 n]


end KVerif.Zippy
