/-
The run of a whole chord from a fresh state (used by `zippy_net_text_basic`) with the state it ends
in, and the run of the remaining keys of a longer chord after a shorter one has been activated in
the same hold (used by `zippy_net_text_extends_partial`).
-/
import KVerif.Lemmas.ZippyForm
import KVerif.Lemmas.ZippyMods
namespace KVerif.Zippy
open KVerif.TextBuf

/-- What a chord run (all presses of one phase, the last one completing the chord) leaves. -/
structure RunResult (cfg : Cfg) (ph : Phase) (s0 : Zchd) (base : Buf) (n : Nat) (keys : List Nat)
    (out : List ZchOut) (ctx : Path) (isPrio : Bool) (r : Zchd × List OsEv) (b : Buf) : Prop where
  /-- `n` characters were typed on the way; then the backspaces, the rest of the expansion, the smart space -/
  text : ∃ L : List Ch, L.length = n ∧
    (b.run r.2).rtext = withSmartSpace cfg out
      (typeOuts ((L ++ base.rtext).drop (phaseBs ph n out isPrio))
        ((s0.lsft || s0.rsft) && decide (phaseCpl ph out isPrio = 0)) (out.drop (phaseCpl ph out isPrio)))
  mods : ModsAgree s0 (b.run r.2)
  chord : r.1.lastPress = .isChord
  held : r.1.inputKeys = chordKey (ph.pre ++ keys)
  post : Forming cfg (postPhase ph cfg (ph.pre ++ keys) out ctx) s0 r.1 [] 0 0
  ss : r.1.smartSpaceState = (if wantsSmartSpace cfg out = true ∧ cfg.smartSpace = .full then .sent else .inactive)

/-- From a forming state (possibly at the very start of a phase in which keys are already held):
the remaining presses, the last one completing a chord. -/
theorem phase_finish (cfg : Cfg) (ph : Phase) (s0 s : Zchd) (b0 b : Buf) (pressed : List Nat) (e c : Nat)
    (rest : List (Nat × Nat)) (last : Nat) (out : List ZchOut) (ctx : Path) (isPrio : Bool)
    (hf : Forming cfg ph s0 s pressed e c) (hb : BufForming b0 b pressed.length) (hm0 : ModsAgree s0 b0)
    (hne : ssmIsEmpty (levelSsm cfg.dict []) = false)
    (hign : ∀ k ∈ rest.map (·.1) ++ [last], isZippyIgnored k = false)
    (hpunc : pressed = [] → (s.smartSpaceState = .inactive ∨
      ∀ k ∈ rest.map (·.1) ++ [last], cfg.punctuation.contains (puncOf s0 k) = false))
    (hpart : ∀ ks, ks ≠ [] → ks <+: rest.map (·.1) →
      findChordK cfg ph.prio0 (chordKey (ph.pre ++ (pressed ++ ks))) = .subset)
    (hfull : (findChordK cfg ph.prio0 (chordKey (ph.pre ++ (pressed ++ (rest.map (·.1) ++ [last]))))).act =
      some (ctx, out, isPrio))
    (hout : out.isEmpty = false) (hko : ∀ o ∈ out, CharKey o.osc)
    (hgap : ∀ kg ∈ rest, kg.2 ≤ TICKS_UNTIL_FORCE_STATE_RESET)
    (hdl : cfg.ticksChordDeadline = 0 ∨ e + (rest.map (·.2)).sum < cfg.ticksChordDeadline) :
    RunResult cfg ph s0 b0 (pressed.length + rest.length) (pressed ++ (rest.map (·.1) ++ [last])) out ctx isPrio
      ((zRun cfg s (chordHist rest ++ [.press last])).1,
       (zRun cfg s (chordHist rest ++ [.press last])).2) b := by
  obtain ⟨e', c', hf3, hb3⟩ := forming_rest (b0 := b0) hne rest s b pressed e c hf hb
    (fun kg hkg => hign kg.1 (List.mem_append_left _ (List.mem_map.mpr ⟨kg, hkg, rfl⟩)))
    (by
      intro hp
      rcases hpunc hp with h | h
      · exact Or.inl h
      · exact Or.inr (fun kg hkg => h kg.1 (List.mem_append_left _ (List.mem_map.mpr ⟨kg, hkg, rfl⟩))))
    hpart hgap hdl
  have hpo : puncOf (zRun cfg s (chordHist rest)).1 last = puncOf s0 last := by
    simp [puncOf, hf3.lsft, hf3.rsft, hf3.altgr]
  have hss : (zRun cfg s (chordHist rest)).1.smartSpaceState = .inactive ∨
      cfg.punctuation.contains (puncOf (zRun cfg s (chordHist rest)).1 last) = false := by
    by_cases hp : pressed ++ rest.map (·.1) = []
    · have hp1 : pressed = [] := (List.append_eq_nil_iff.mp hp).1
      have hp2 : rest = [] := by simpa using (List.append_eq_nil_iff.mp hp).2
      subst hp2
      simp only [chordHist, List.flatMap_nil, zRun]
      rcases hpunc hp1 with h | h
      · exact Or.inl h
      · right
        have : puncOf s last = puncOf s0 last := by simp [puncOf, hf.lsft, hf.rsft, hf.altgr]
        rw [this]; exact h last (by simp)
    · exact Or.inl (hf3.ss hp)
  have hlastI : isZippyIgnored last = false := hign last (by simp)
  have hfc' : (findChordK cfg ph.prio0 (chordKey (ph.pre ++ ((pressed ++ rest.map (·.1)) ++ [last])))).act =
      some (ctx, out, isPrio) := by simpa [List.append_assoc] using hfull
  have hfin := final_press (cfg := cfg) (out := out) hf3.ready hb3 hm0 hne last hlastI ctx isPrio hfc' hss hout hko
  have hpost := final_press_post (cfg := cfg) (out := out) hf3.ready hne last hlastI ctx isPrio hfc' hss hout
  have hrun : zRun cfg s (chordHist rest ++ [.press last]) =
      ((zchPressKey cfg (zRun cfg s (chordHist rest)).1 last).1,
       (zRun cfg s (chordHist rest)).2 ++ (zchPressKey cfg (zRun cfg s (chordHist rest)).1 last).2) := by
    rw [zRun_append]; simp [zRun, zStep]
  rw [hrun]
  simp only
  obtain ⟨L, hL, hrt⟩ := hb3.text
  refine ⟨⟨L, by simpa using hL, ?_⟩, ?_, hfin.2.2.1, ?_, ?_, hpost.2⟩
  · rw [run_append, hfin.1, hrt]; simp
  · rw [run_append]; exact hfin.2.1
  · rw [hfin.2.2.2]; simp [List.append_assoc]
  · simpa [List.append_assoc] using hpost.1

/-- A whole chord from an idle state (nothing held, no deadline running). -/
theorem idle_run (cfg : Cfg) (s : Zchd) (b : Buf) (front : List (Nat × Nat)) (last : Nat)
    (out : List ZchOut) (ctx : Path) (isPrio : Bool)
    (hidle : Idle s) (hmods : ModsAgree s b)
    (hne : ssmIsEmpty (levelSsm cfg.dict []) = false)
    (hign : ∀ k ∈ front.map (·.1) ++ [last], isZippyIgnored k = false)
    (hss : s.smartSpaceState = .inactive ∨
      cfg.punctuation.contains (puncOf s ((front.map (·.1) ++ [last]).headD 0)) = false)
    (hpart : ∀ ks, ks ≠ [] → ks <+: front.map (·.1) → findChordK cfg s.prioritized (chordKey ks) = .subset)
    (hfull : (findChordK cfg s.prioritized (chordKey (front.map (·.1) ++ [last]))).act = some (ctx, out, isPrio))
    (hout : out.isEmpty = false) (hko : ∀ o ∈ out, CharKey o.osc)
    (hgap : ∀ kg ∈ front, kg.2 ≤ TICKS_UNTIL_FORCE_STATE_RESET)
    (hdl : cfg.ticksChordDeadline = 0 ∨ (front.map (·.2)).sum < cfg.ticksChordDeadline) :
    RunResult cfg (idlePhase s) s b front.length (front.map (·.1) ++ [last]) out ctx isPrio
      ((zRun cfg s (chordHist front ++ [.press last])).1,
       (zRun cfg s (chordHist front ++ [.press last])).2) b := by
  cases front with
  | nil =>
    have hb0 : BufForming b b ([] : List Nat).length := ⟨⟨[], rfl, rfl⟩, rfl, rfl, rfl⟩
    have hlastI : isZippyIgnored last = false := hign last (by simp)
    have hss' : s.smartSpaceState = .inactive ∨ cfg.punctuation.contains (puncOf s last) = false := by
      simpa using hss
    have hfc' : (findChordK cfg (idlePhase s).prio0 (chordKey ((idlePhase s).pre ++ (([] : List Nat) ++ [last])))).act =
        some (ctx, out, isPrio) := by simpa [idlePhase] using hfull
    have hfin := final_press (cfg := cfg) (out := out) hidle.ready hb0 hmods hne last hlastI ctx isPrio hfc' hss' hout hko
    have hpost := final_press_post (cfg := cfg) (out := out) hidle.ready hne last hlastI ctx isPrio hfc' hss' hout
    have hrun : zRun cfg s (chordHist [] ++ [.press last]) = zchPressKey cfg s last := by
      simp [chordHist, zRun, zStep]
    rw [hrun]
    refine ⟨⟨[], rfl, ?_⟩, hfin.2.1, hfin.2.2.1, ?_, ?_, hpost.2⟩
    · simpa using hfin.1
    · simpa [idlePhase] using hfin.2.2.2
    · simpa [idlePhase] using hpost.1
  | cons kg rest =>
    obtain ⟨k1, g1⟩ := kg
    simp only [List.map_cons, List.cons_append, List.sum_cons] at hign hss hpart hfull hdl
    have hss1 : s.smartSpaceState = .inactive ∨ cfg.punctuation.contains (puncOf s k1) = false := by
      simpa using hss
    obtain ⟨hf1, hb1⟩ := hidle.press (b := b) hne k1 (hign k1 (by simp)) hss1
      (hpart [k1] (by simp) (by simp))
    have hg1 : g1 ≤ TICKS_UNTIL_FORCE_STATE_RESET := hgap (k1, g1) (List.mem_cons_self ..)
    have hf2 := hf1.ticks g1 (by omega)
      (by rcases hdl with h0 | h1; exact Or.inl h0; exact Or.inr (by omega))
    have hres := phase_finish cfg (idlePhase s) s (ticksN (zchPressKey cfg s k1).1 g1) b
      (b.run (zchPressKey cfg s k1).2) [k1] (0 + g1) (0 + g1) rest last out ctx isPrio hf2 hb1 hmods hne
      (fun k hk => hign k (List.mem_cons_of_mem _ hk))
      (by intro hp; simp at hp)
      (by
        intro ks hks hpre
        simp only [idlePhase, List.nil_append]
        exact hpart (k1 :: ks) (by simp) (by simpa using hpre))
      (by simpa [idlePhase] using hfull)
      hout hko (fun kg hkg => hgap kg (List.mem_cons_of_mem _ hkg))
      (by rcases hdl with h0 | h1; exact Or.inl h0; exact Or.inr (by omega))
    have hrun : zRun cfg s (chordHist ((k1, g1) :: rest) ++ [.press last]) =
        ((zRun cfg (ticksN (zchPressKey cfg s k1).1 g1) (chordHist rest ++ [.press last])).1,
         (zchPressKey cfg s k1).2 ++ (zRun cfg (ticksN (zchPressKey cfg s k1).1 g1) (chordHist rest ++ [.press last])).2) := by
      rw [chordHist_cons, List.append_assoc, zRun_append, zRun_pressTicks]
    rw [hrun]
    obtain ⟨⟨L, hL, ht⟩, hm, hc, hh, hp, hsss⟩ := hres
    refine ⟨⟨L, by simpa [Nat.add_comm] using hL, ?_⟩, ?_, hc, ?_, ?_, hsss⟩
    · simp only [run_append] at ht ⊢
      simpa [Nat.add_comm] using ht
    · simpa [run_append] using hm
    · simpa [idlePhase] using hh
    · simpa [idlePhase] using hp

/-- the state and buffer a chord really starts from: after the punctuation erasure of a smart space,
if the first key triggers it -/
def afterPunct (cfg : Cfg) (s : Zchd) (first : Nat) : Zchd :=
  if punctFires cfg s first then { punctState s with smartSpaceState := .inactive } else s

def bufAfterPunct (cfg : Cfg) (s : Zchd) (first : Nat) (b : Buf) : Buf :=
  if punctFires cfg s first then { b with rtext := b.rtext.tail } else b

theorem zRun_first_punct (cfg : Cfg) (s : Zchd) (k : Nat) (rest : List ZEv)
    (hne : ssmIsEmpty (levelSsm cfg.dict []) = false) (hk : isZippyIgnored k = false) :
    zRun cfg s (.press k :: rest) =
      ((zRun cfg (afterPunct cfg s k) (.press k :: rest)).1,
       (if punctFires cfg s k then bspc else []) ++ (zRun cfg (afterPunct cfg s k) (.press k :: rest)).2) := by
  unfold afterPunct
  cases h : punctFires cfg s k
  · simp
  · simp only [if_true, zRun, zStep]
    rw [press_punct cfg s k hne hk h]
    simp [List.append_assoc]

theorem chordHist_head (front : List (Nat × Nat)) (last : Nat) :
    chordHist front ++ [ZEv.press last] =
      ZEv.press ((front.map (·.1) ++ [last]).headD 0) :: (chordHist front ++ [ZEv.press last]).tail := by
  cases front with
  | nil => simp [chordHist]
  | cons kg r => simp [chordHist_cons, pressTicks]

/-- A whole chord from an idle state, whatever the smart-space state: a punctuation key pressed
first after a smart space erases that space (one backspace) and the chord then runs as usual. -/
theorem idle_run_any (cfg : Cfg) (s : Zchd) (b : Buf) (front : List (Nat × Nat)) (last : Nat)
    (out : List ZchOut) (ctx : Path) (isPrio : Bool)
    (hidle : Idle s) (hmods : ModsAgree s b)
    (hne : ssmIsEmpty (levelSsm cfg.dict []) = false)
    (hign : ∀ k ∈ front.map (·.1) ++ [last], isZippyIgnored k = false)
    (hpart : ∀ ks, ks ≠ [] → ks <+: front.map (·.1) → findChordK cfg s.prioritized (chordKey ks) = .subset)
    (hfull : (findChordK cfg s.prioritized (chordKey (front.map (·.1) ++ [last]))).act = some (ctx, out, isPrio))
    (hout : out.isEmpty = false) (hko : ∀ o ∈ out, CharKey o.osc)
    (hgap : ∀ kg ∈ front, kg.2 ≤ TICKS_UNTIL_FORCE_STATE_RESET)
    (hdl : cfg.ticksChordDeadline = 0 ∨ (front.map (·.2)).sum < cfg.ticksChordDeadline) :
    let first := (front.map (·.1) ++ [last]).headD 0
    let s' := afterPunct cfg s first
    let b' := bufAfterPunct cfg s first b
    let r := zRun cfg s (chordHist front ++ [.press last])
    let r' := zRun cfg s' (chordHist front ++ [.press last])
    b.run r.2 = b'.run r'.2 ∧ r.1 = r'.1 ∧
    RunResult cfg (idlePhase s') s' b' front.length (front.map (·.1) ++ [last]) out ctx isPrio (r'.1, r'.2) b' := by
  intro first s' b' r r'
  have hfirstI : isZippyIgnored first = false := by
    apply hign
    cases front with
    | nil => simp [first]
    | cons kg rr => simp [first]
  have hrun : r = (r'.1, (if punctFires cfg s first then bspc else []) ++ r'.2) := by
    show zRun cfg s (chordHist front ++ [.press last]) =
      ((zRun cfg s' (chordHist front ++ [.press last])).1,
       (if punctFires cfg s first then bspc else []) ++ (zRun cfg s' (chordHist front ++ [.press last])).2)
    obtain ⟨t, ht⟩ : ∃ t, chordHist front ++ [ZEv.press last] = ZEv.press first :: t :=
      ⟨_, chordHist_head front last⟩
    rw [ht]
    exact zRun_first_punct cfg s first t hne hfirstI
  have hs'flags : s'.lsft = s.lsft ∧ s'.rsft = s.rsft ∧ s'.altgr = s.altgr := by
    simp only [s', afterPunct]; split <;> simp [punctState]
  have hidle' : Idle s' := by
    simp only [s', afterPunct]
    split
    · exact ⟨hidle.en, hidle.keys, by simp [punctState, hidle.keys, hidle.ctd], hidle.tud, hidle.caps⟩
    · exact hidle
  have hprio' : s'.prioritized = s.prioritized := by
    simp only [s', afterPunct]; split <;> simp [punctState]
  have hbrun : b.run (if punctFires cfg s first then bspc else []) = b' := by
    simp only [b', bufAfterPunct]
    split
    · rw [run_bspc]
    · rfl
  have hmods' : ModsAgree s' b' := by
    obtain ⟨h1, h2, h3⟩ := hmods
    have : b'.lsft = b.lsft ∧ b'.rsft = b.rsft ∧ b'.ralt = b.ralt := by
      simp only [b', bufAfterPunct]; split <;> simp
    exact ⟨by rw [this.1, h1, hs'flags.1], by rw [this.2.1, h2, hs'flags.2.1], by rw [this.2.2, h3, hs'flags.2.2]⟩
  have hss' : s'.smartSpaceState = .inactive ∨
      cfg.punctuation.contains (puncOf s' ((front.map (·.1) ++ [last]).headD 0)) = false := by
    simp only [s', afterPunct]
    cases hf : punctFires cfg s first
    · simp only [Bool.false_eq_true, if_false]
      exact (punctFires_false_iff cfg s first).mp hf
    · exact Or.inl (by simp)
  refine ⟨?_, by rw [hrun], ?_⟩
  · rw [hrun]; simp only [run_append, hbrun]
  · exact idle_run cfg s' b' front last out ctx isPrio hidle' hmods' hne hign hss'
      (by rw [hprio']; exact hpart) (by rw [hprio']; exact hfull) hout hko hgap hdl

/-- the characters of an expansion, in typing order -/
def expansionChars (sh : Bool) : List ZchOut → List Ch
  | [] => []
  | o :: os => mkCh o.osc (o.shift || sh) o.ag :: expansionChars false os

theorem typeOuts_noBackspace (rt : List Ch) (sh : Bool) (out : List ZchOut)
    (h : ∀ o ∈ out, o.osc ≠ KEY_BACKSPACE) :
    typeOuts rt sh out = (expansionChars sh out).reverse ++ rt := by
  induction out generalizing rt sh with
  | nil => simp [typeOuts, expansionChars]
  | cons o os ih =>
    have ho : o.osc ≠ KEY_BACKSPACE := h o (List.mem_cons_self ..)
    rw [typeOuts, ih _ _ (fun o' h' => h o' (List.mem_cons_of_mem _ h'))]
    simp [expansionChars, stroke, ho]


/-! ### A top-level chord without a shorter chord inside it, from a fresh state -/

theorem Fresh.idle {s : Zchd} (h : Fresh s) : Idle s := ⟨h.en, h.keys, h.ctd, h.tud, h.caps⟩

/-- Facts about a permutation `front ++ [last]` of a strictly sorted key set. -/
theorem perm_facts {K : Key} {front : List (Nat × Nat)} {last : Nat} (hs : StrictSorted K)
    (hperm : (front.map (·.1) ++ [last]).Perm K) :
    (∀ x, x ∈ front.map (·.1) ++ [last] ↔ x ∈ K) ∧ last ∈ K ∧ last ∉ front.map (·.1) ∧
    chordKey (front.map (·.1) ++ [last]) = K := by
  have hmem : ∀ x, x ∈ front.map (·.1) ++ [last] ↔ x ∈ K := fun x => hperm.mem_iff
  have hnodupK : K.Nodup := hs.imp (fun h => Nat.ne_of_lt h)
  have hnodup : (front.map (·.1) ++ [last]).Nodup := hperm.nodup_iff.mpr hnodupK
  refine ⟨hmem, (hmem last).mp (by simp), ?_, ?_⟩
  · intro h
    have := List.nodup_append.mp hnodup
    exact this.2.2 last h last (by simp) rfl
  · exact strictSorted_ext _ _ (strictSorted_chordKey _) hs (fun x => by rw [mem_chordKey]; exact hmem x)

/-- The run of a basic chord (see `zippy_net_text_basic`), with the state it ends in. -/
theorem basic_run (cfg : Cfg) (K : Key) (out : List ZchOut) (s : Zchd) (b : Buf)
    (front : List (Nat × Nat)) (last : Nat)
    (hent : BasicEntry cfg.dict K out)
    (hkeys : ∀ x ∈ K, isZippyIgnored x = false)
    (hout : out.isEmpty = false) (hko : ∀ o ∈ out, CharKey o.osc)
    (hperm : (front.map (·.1) ++ [last]).Perm K)
    (hgap : ∀ kg ∈ front, kg.2 ≤ TICKS_UNTIL_FORCE_STATE_RESET)
    (hdl : cfg.ticksChordDeadline = 0 ∨ (front.map (·.2)).sum < cfg.ticksChordDeadline)
    (hfresh : Fresh s) (hmods : ModsAgree s b) :
    let first := (front.map (·.1) ++ [last]).headD 0
    let r := zRun cfg s (chordHist front ++ [.press last])
    (b.run r.2).rtext =
      withSmartSpace cfg out (typeOuts (bufAfterPunct cfg s first b).rtext (s.lsft || s.rsft) out) ∧
    ModsAgree s (b.run r.2) ∧ r.1.lastPress = .isChord ∧ r.1.inputKeys = K ∧
    Forming cfg (postPhase (idlePhase (afterPunct cfg s first)) cfg (front.map (·.1) ++ [last]) out [])
      s r.1 [] 0 0 ∧
    r.1.smartSpaceState = (if wantsSmartSpace cfg out = true ∧ cfg.smartSpace = .full then .sent else .inactive) := by
  intro first r
  obtain ⟨hmem, hlastK, hlast_notin, hfull⟩ := perm_facts hent.sorted hperm
  have hprio : s.prioritized = none := hfresh.prio
  have hpart : ∀ ks, ks ≠ [] → ks <+: front.map (·.1) → findChordK cfg s.prioritized (chordKey ks) = .subset := by
    intro ks _ hpre
    rw [hprio, findChordK_none]
    have : lookupLevel cfg.dict [] (chordKey ks) = .isSubset := by
      apply hent.lookup_part
      · intro x hx
        exact (hmem x).mp (List.mem_append_left _ (hpre.subset ((mem_chordKey _ _).mp hx)))
      · intro heq
        have : last ∈ chordKey ks := heq ▸ hlastK
        exact hlast_notin (hpre.subset ((mem_chordKey _ _).mp this))
    rw [this]
  have hfc : (findChordK cfg s.prioritized (chordKey (front.map (·.1) ++ [last]))).act = some ([], out, false) := by
    rw [hprio, findChordK_none, hfull, hent.lookup_full]; rfl
  obtain ⟨hb, hr1, hres⟩ := idle_run_any cfg s b front last out [] false hfresh.idle hmods hent.root_nonempty
    (fun k hk => hkeys k ((hmem k).mp hk)) hpart hfc hout hko hgap hdl
  obtain ⟨⟨L, hL, ht⟩, hm, hc, hh, hp, hsss⟩ := hres
  -- flags and history of the state after the punctuation erasure
  have hs' : (afterPunct cfg s first).lsft = s.lsft ∧ (afterPunct cfg s first).rsft = s.rsft ∧
      (afterPunct cfg s first).altgr = s.altgr ∧ (afterPunct cfg s first).priorActivation = none := by
    simp only [afterPunct]; split <;> simp [punctState, hfresh.prior]
  have hcpl : phaseCpl (idlePhase (afterPunct cfg s first)) out false = 0 := by
    unfold phaseCpl idlePhase
    simp only [hs'.2.2.2]
    split <;> rfl
  have hbs : phaseBs (idlePhase (afterPunct cfg s first)) front.length out false = front.length := by
    unfold phaseBs
    rw [hcpl]
    simp [idlePhase]
  refine ⟨?_, ?_, ?_, ?_, ?_, ?_⟩
  rotate_right
  · show (zRun cfg s (chordHist front ++ [.press last])).1.smartSpaceState = _
    rw [hr1]; exact hsss
  · show (b.run (zRun cfg s (chordHist front ++ [.press last])).2).rtext = _
    rw [hb, ht, hcpl, hbs, ← hL, List.drop_left, hs'.1, hs'.2.1]
    simp only [List.drop_zero, decide_true, Bool.and_true]
    rfl
  · show ModsAgree s (b.run (zRun cfg s (chordHist front ++ [.press last])).2)
    rw [hb]
    obtain ⟨h1, h2, h3⟩ := hm
    exact ⟨by rw [h1, hs'.1], by rw [h2, hs'.2.1], by rw [h3, hs'.2.2.1]⟩
  · show (zRun cfg s (chordHist front ++ [.press last])).1.lastPress = _
    rw [hr1]; exact hc
  · show (zRun cfg s (chordHist front ++ [.press last])).1.inputKeys = _
    rw [hr1, hh]; simpa [idlePhase] using hfull
  · show Forming cfg _ s (zRun cfg s (chordHist front ++ [.press last])).1 [] 0 0
    rw [hr1]
    have := hp
    simp only [idlePhase, List.nil_append] at this ⊢
    obtain ⟨a1, a2, a3, a4, a5, a6, a7, a8, a9, a10, a11, a12, a13, a14⟩ := this
    exact ⟨a1, a2, a3, a4, a5, a6, a7, by rw [a8, hs'.1], by rw [a9, hs'.2.1], by rw [a10, hs'.2.2.1], a11, a12, a13, a14⟩

/-! ### The remaining keys of a longer chord, after a shorter one has been activated in this hold -/

/-- `K2 ↦ out2` is a top-level chord stored once, and every top-level chord whose keys all lie in
`K2` is `K2` itself or lies inside `K1` (so between `K1` and `K2` there is no other chord). -/
structure ExtEntry (d : Dict) (K1 K2 : Key) (out2 : List ZchOut) : Prop where
  mem : (K2, out2) ∈ level d []
  ne : K2 ≠ []
  sorted : StrictSorted K2
  uniq : ∀ out', (K2, out') ∈ level d [] → out' = out2
  inside : ∀ kv ∈ level d [], isSubsetOf kv.1 K2 = true → (∀ x ∈ kv.1, x ∈ K1) ∨ kv.1 = K2

theorem ExtEntry.lookup_full {d : Dict} {K1 K2 : Key} {out2 : List ZchOut} (h : ExtEntry d K1 K2 out2) :
    lookupLevel d [] K2 = .hasValue out2 := by
  rw [lookupLevel_eq]
  unfold lookupSpec
  rw [lastInsert_unique h.mem h.ne h.uniq]

theorem ExtEntry.lookup_part {d : Dict} {K1 K2 : Key} {out2 : List ZchOut} (h : ExtEntry d K1 K2 out2)
    (S : Key) (hsub : ∀ x ∈ S, x ∈ K2) (hn1 : ∃ y ∈ S, y ∉ K1) (hn2 : S ≠ K2) :
    lookupLevel d [] S = .isSubset := by
  rw [lookupLevel_eq]
  unfold lookupSpec
  have hnone : lastInsert (level d []) S = none := by
    apply lastInsert_none_of_not_mem
    intro kv hkv heq
    rcases h.inside kv hkv (by rw [heq]; exact (isSubsetOf_iff S K2).mpr hsub) with h1 | h1
    · obtain ⟨y, hy, hny⟩ := hn1
      exact hny (h1 y (heq ▸ hy))
    · exact hn2 (heq ▸ h1)
  rw [hnone]
  have hany : (level d []).any (fun kv => !kv.1.isEmpty && isSubsetOf S kv.1) = true := by
    simp only [List.any_eq_true]
    refine ⟨(K2, out2), h.mem, ?_⟩
    simp only [Bool.and_eq_true, Bool.not_eq_true', List.isEmpty_eq_false_iff]
    exact ⟨h.ne, (isSubsetOf_iff S K2).mpr hsub⟩
  simp [hany]

/-! ### Expansions without Backspace / no-erase outputs -/

/-- every output writes exactly one erasable character -/
def PlainOuts (outs : List ZchOut) : Prop := ∀ o ∈ outs, o.osc ≠ KEY_BACKSPACE ∧ o.noErase = false

theorem PlainOuts.noBs {outs : List ZchOut} (h : PlainOuts outs) : ∀ o ∈ outs, o.osc ≠ KEY_BACKSPACE :=
  fun o ho => (h o ho).1

theorem displayLen_plain_aux (outs : List ZchOut) (h : PlainOuts outs) (n : Int) :
    outs.foldl (fun n o => n + o.charCount) n = n + outs.length := by
  induction outs generalizing n with
  | nil => simp
  | cons o os ih =>
    have ho := h o (List.mem_cons_self ..)
    rw [List.foldl_cons, ih (fun o' h' => h o' (List.mem_cons_of_mem _ h'))]
    simp only [ZchOut.charCount, ho.1, ho.2, if_false, List.length_cons, Bool.false_eq_true]
    omega

theorem displayLen_plain (outs : List ZchOut) (h : PlainOuts outs) : displayLen outs = outs.length := by
  unfold displayLen
  rw [displayLen_plain_aux outs h 0]; simp

theorem expansionChars_length (sh : Bool) (outs : List ZchOut) : (expansionChars sh outs).length = outs.length := by
  induction outs generalizing sh with
  | nil => rfl
  | cons o os ih => simp [expansionChars, ih]

theorem expansionChars_append (a b : List ZchOut) :
    expansionChars false (a ++ b) = expansionChars false a ++ expansionChars false b := by
  induction a with
  | nil => rfl
  | cons o os ih => simp [expansionChars, ih]

theorem commonPrefixLen_le (p c : List ZchOut) :
    commonPrefixLen p c ≤ p.length ∧ commonPrefixLen p c ≤ c.length := by
  induction p generalizing c with
  | nil => simp [commonPrefixLen]
  | cons a as ih =>
    cases c with
    | nil => simp [commonPrefixLen]
    | cons b bs =>
      unfold commonPrefixLen
      split
      · simp
      · have := ih bs
        simp only [List.length_cons]; omega

theorem commonPrefixLen_take (p c : List ZchOut) :
    p.take (commonPrefixLen p c) = c.take (commonPrefixLen p c) := by
  induction p generalizing c with
  | nil => simp [commonPrefixLen]
  | cons a as ih =>
    cases c with
    | nil => simp [commonPrefixLen]
    | cons b bs =>
      unfold commonPrefixLen
      split
      · simp
      · rename_i h
        have hab : a = b := by
          simp only [Bool.or_eq_true, decide_eq_true_eq, not_or, ne_eq, Decidable.not_not] at h
          exact h.2
        simp [List.take_succ_cons, hab, ih bs]

theorem typeOuts_append_false (rt : List Ch) (a b : List ZchOut) :
    typeOuts rt false (a ++ b) = typeOuts (typeOuts rt false a) false b := by
  induction a generalizing rt with
  | nil => rfl
  | cons o os ih => simp only [List.cons_append, typeOuts, ih]

theorem typeOuts_append (rt : List Ch) (sh : Bool) (a b : List ZchOut) :
    typeOuts rt sh (a ++ b) = typeOuts (typeOuts rt sh a) (sh && a.isEmpty) b := by
  cases a with
  | nil => simp [typeOuts]
  | cons o os =>
    simp only [List.cons_append, typeOuts, List.isEmpty_cons, Bool.and_false, typeOuts_append_false]

theorem typeOuts_plain_length (rt : List Ch) (sh : Bool) (outs : List ZchOut) (h : PlainOuts outs) :
    (typeOuts rt sh outs).length = outs.length + rt.length := by
  rw [typeOuts_noBackspace _ _ _ h.noBs]
  simp [expansionChars_length]

/-- Erasing all but the first `n` characters of a plain expansion leaves the expansion's first `n`
outputs typed. -/
theorem typeOuts_plain_drop (rt : List Ch) (sh : Bool) (outs : List ZchOut) (h : PlainOuts outs) (n : Nat)
    (hn : n ≤ outs.length) :
    (typeOuts rt sh outs).drop (outs.length - n) = typeOuts rt sh (outs.take n) := by
  induction outs generalizing rt n sh with
  | nil => simp [typeOuts]
  | cons o os ih =>
    have hos : PlainOuts os := fun o' h' => h o' (List.mem_cons_of_mem _ h')
    have ho : o.osc ≠ KEY_BACKSPACE := (h o (List.mem_cons_self ..)).1
    cases n with
    | zero =>
      simp only [List.take_zero, typeOuts, List.length_cons, Nat.sub_zero]
      have h1 := ih (stroke rt o.osc (o.shift || sh) o.ag) false hos 0 (by omega)
      simp only [Nat.sub_zero, List.take_zero, typeOuts] at h1
      rw [← List.drop_drop, h1]
      simp [stroke, ho]
    | succ m =>
      simp only [List.take_succ_cons, typeOuts, List.length_cons]
      have := ih (stroke rt o.osc (o.shift || sh) o.ag) false hos m (by simp only [List.length_cons] at hn; omega)
      rw [show os.length + 1 - (m + 1) = os.length - m from by omega]
      exact this

theorem PlainOuts.take {outs : List ZchOut} (h : PlainOuts outs) (n : Nat) : PlainOuts (outs.take n) :=
  fun o ho => h o (List.mem_of_mem_take ho)

theorem PlainOuts.drop {outs : List ZchOut} (h : PlainOuts outs) (n : Nat) : PlainOuts (outs.drop n) :=
  fun o ho => h o (List.mem_of_mem_drop ho)

/-! ### Chords that extend eagerly activated chords, to any depth -/

/-- The chord `K ↦ out` has just been activated in this hold (possibly superseding shorter ones) and
is still held: the screen shows `base ++ out (++ smart space)`, and the counters say so. -/
def Eager (cfg : Cfg) (s0 : Zchd) (base : Buf) (K : Key) (out : List ZchOut) (s : Zchd) (b : Buf) : Prop :=
  ∃ ph : Phase, Forming cfg ph s0 s [] 0 0 ∧ (∀ x, x ∈ ph.pre ↔ x ∈ K) ∧ ph.prior0 = some out ∧
    ph.sh0 ≠ 0 ∧ ph.prio0 = none ∧ ph.ctd0 = out.length + (if wantsSmartSpace cfg out then 1 else 0) ∧
    b.rtext = withSmartSpace cfg out (typeOuts base.rtext (s0.lsft || s0.rsft) out) ∧
    ModsAgree s0 b ∧ PlainOuts out

/-- One more level: with `K1 ↦ out1` eagerly on screen, `g` ticks pass and the remaining keys of a
chord `K2 ↦ out2` that extends it go down in any order. -/
theorem extends_step (cfg : Cfg) (s0 : Zchd) (base : Buf) (K1 K2 : Key) (out1 out2 : List ZchOut)
    (s : Zchd) (b : Buf) (g : Nat) (front : List (Nat × Nat)) (last : Nat)
    (he : Eager cfg s0 base K1 out1 s b)
    (hne : ssmIsEmpty (levelSsm cfg.dict []) = false)
    (hext : ExtEntry cfg.dict K1 K2 out2) (hnf : hasFollowups cfg.dict [K2] = false)
    (hsub : ∀ x ∈ K1, x ∈ K2)
    (hkeys : ∀ x ∈ K2, isZippyIgnored x = false)
    (hout : out2.isEmpty = false) (hko : ∀ o ∈ out2, CharKey o.osc) (hp2 : PlainOuts out2)
    (hperm : (front.map (·.1) ++ [last]).Perm (K2.filter (fun x => !K1.contains x)))
    (hpunc : ∀ x ∈ K2, cfg.punctuation.contains (puncOf s0 x) = false)
    (hgap : ∀ kg ∈ front, kg.2 ≤ TICKS_UNTIL_FORCE_STATE_RESET) (hg : g ≤ TICKS_UNTIL_FORCE_STATE_RESET)
    (hdl : cfg.ticksChordDeadline = 0 ∨ g + (front.map (·.2)).sum < cfg.ticksChordDeadline) :
    let r := zRun cfg s (List.replicate g .tick ++ (chordHist front ++ [.press last]))
    Eager cfg s0 base K2 out2 r.1 (b.run r.2) := by
  intro r
  obtain ⟨ph, hf, hpre, hprior, hsh, hprio, hctd, htext, hmods, hp1⟩ := he
  have hf2 := hf.ticks g (by omega) (by rcases hdl with h0 | h1; exact Or.inl h0; exact Or.inr (by omega))
  simp only [Nat.zero_add] at hf2
  have hmem2 : ∀ x, x ∈ front.map (·.1) ++ [last] ↔ (x ∈ K2 ∧ x ∉ K1) := by
    intro x
    rw [hperm.mem_iff]
    simp [List.mem_filter]
  have hnodup2 : (front.map (·.1) ++ [last]).Nodup := by
    apply hperm.nodup_iff.mpr
    exact (hext.sorted.imp (fun h => Nat.ne_of_lt h)).filter _
  have hall : ∀ x, x ∈ ph.pre ++ (front.map (·.1) ++ [last]) ↔ x ∈ K2 := by
    intro x
    rw [List.mem_append, hpre x, hmem2 x]
    constructor
    · rintro (h | h)
      · exact hsub x h
      · exact h.1
    · intro h
      by_cases h1 : x ∈ K1
      · exact Or.inl h1
      · exact Or.inr ⟨h, h1⟩
  have hlastK : last ∈ K2 := ((hmem2 last).mp (by simp)).1
  have hlast1 : last ∉ K1 := ((hmem2 last).mp (by simp)).2
  have hlastnot : last ∉ ph.pre ++ front.map (·.1) := by
    intro h
    rcases List.mem_append.mp h with h | h
    · exact hlast1 ((hpre last).mp h)
    · have := List.nodup_append.mp hnodup2
      exact this.2.2 last h last (by simp) rfl
  have hfullK : chordKey (ph.pre ++ (front.map (·.1) ++ [last])) = K2 :=
    strictSorted_ext _ _ (strictSorted_chordKey _) hext.sorted
      (fun x => by rw [mem_chordKey]; exact hall x)
  have hpart : ∀ ks, ks ≠ [] → ks <+: front.map (·.1) →
      findChordK cfg ph.prio0 (chordKey (ph.pre ++ (([] : List Nat) ++ ks))) = .subset := by
    intro ks hks hpre'
    rw [hprio, findChordK_none, List.nil_append]
    have : lookupLevel cfg.dict [] (chordKey (ph.pre ++ ks)) = .isSubset := by
      apply hext.lookup_part
      · intro x hx
        rw [mem_chordKey] at hx
        apply (hall x).mp
        rcases List.mem_append.mp hx with h | h
        · exact List.mem_append_left _ h
        · exact List.mem_append_right _ (List.mem_append_left _ (hpre'.subset h))
      · obtain ⟨y, hy⟩ := List.exists_mem_of_ne_nil ks hks
        refine ⟨y, (mem_chordKey _ _).mpr (List.mem_append_right _ hy), ?_⟩
        exact ((hmem2 y).mp (List.mem_append_left _ (hpre'.subset hy))).2
      · intro heq
        have : last ∈ chordKey (ph.pre ++ ks) := heq ▸ hlastK
        rw [mem_chordKey] at this
        apply hlastnot
        rcases List.mem_append.mp this with h | h
        · exact List.mem_append_left _ h
        · exact List.mem_append_right _ (hpre'.subset h)
    rw [this]
  have hfc : (findChordK cfg ph.prio0 (chordKey (ph.pre ++ (([] : List Nat) ++ (front.map (·.1) ++ [last]))))).act =
      some ([], out2, false) := by
    rw [hprio, findChordK_none, List.nil_append, hfullK, hext.lookup_full]; rfl
  have hb0 : BufForming b b ([] : List Nat).length := ⟨⟨[], rfl, rfl⟩, rfl, rfl, rfl⟩
  have hres := phase_finish cfg ph s0 (ticksN s g) b b [] g g front last out2 [] false hf2 hb0 hmods hne
    (fun k hk => hkeys k ((hmem2 k).mp hk).1)
    (fun _ => Or.inr (fun k hk => hpunc k ((hmem2 k).mp hk).1))
    hpart hfc hout hko hgap hdl
  have hrun : r = ((zRun cfg (ticksN s g) (chordHist front ++ [.press last])).1,
      (zRun cfg (ticksN s g) (chordHist front ++ [.press last])).2) := by
    show zRun cfg s (List.replicate g .tick ++ (chordHist front ++ [.press last])) = _
    rw [zRun_append, zRun_ticks]; simp
  rw [hrun]
  obtain ⟨⟨L, hL, ht⟩, hm, _, _, hpost, _⟩ := hres
  simp only [List.nil_append, List.length_nil, Nat.zero_add] at hL ht hpost
  have hcpl : phaseCpl ph out2 false = commonPrefixLen out1 out2 := by
    unfold phaseCpl
    simp [hsh, hprior]
  have hn := commonPrefixLen_le out1 out2
  refine ⟨postPhase ph cfg (ph.pre ++ (front.map (·.1) ++ [last])) out2 [], hpost, ?_, rfl, ?_, ?_, ?_, ?_, hm, hp2⟩
  · intro x; simp only [postPhase]; exact hall x
  · simp [postPhase]
  · simp only [postPhase, List.nil_append, hfullK, hnf]; rfl
  · simp only [postPhase, displayLen_plain out2 hp2]
  · -- what is on screen
    rw [ht, hcpl, htext]
    have hbs : phaseBs ph front.length out2 false =
        L.length + ((if wantsSmartSpace cfg out1 then 1 else 0) + (out1.length - commonPrefixLen out1 out2)) := by
      unfold phaseBs
      rw [hcpl, hctd]
      simp only [Bool.false_eq_true, if_false]
      split <;> omega
    rw [hbs, List.drop_append, List.drop_eq_nil_of_le (by omega), Nat.add_sub_cancel_left, List.nil_append]
    have hdrop : List.drop ((if wantsSmartSpace cfg out1 = true then 1 else 0) + (out1.length - commonPrefixLen out1 out2))
        (withSmartSpace cfg out1 (typeOuts base.rtext (s0.lsft || s0.rsft) out1)) =
        typeOuts base.rtext (s0.lsft || s0.rsft) (out1.take (commonPrefixLen out1 out2)) := by
      rw [← typeOuts_plain_drop base.rtext _ out1 hp1 _ hn.1]
      unfold withSmartSpace
      split
      · simp only [stroke, KEY_SPACE, KEY_BACKSPACE]
        rw [Nat.add_comm 1]
        simp [List.drop_succ_cons]
      · simp
    rw [hdrop]
    have hemp : (decide (commonPrefixLen out1 out2 = 0)) = (out1.take (commonPrefixLen out1 out2)).isEmpty := by
      by_cases h0 : commonPrefixLen out1 out2 = 0
      · simp [h0]
      · have : 0 < commonPrefixLen out1 out2 := by omega
        cases out1 with
        | nil => simp at hn; omega
        | cons o os =>
          obtain ⟨m, hm'⟩ := Nat.exists_eq_succ_of_ne_zero h0
          simp [hm', h0]
    rw [hemp, ← typeOuts_append, commonPrefixLen_take, List.take_append_drop]

/-- A basic chord without follow-ups, pressed from a fresh state, is eagerly on screen. -/
theorem basic_eager (cfg : Cfg) (K : Key) (out : List ZchOut) (s : Zchd) (b : Buf)
    (front : List (Nat × Nat)) (last : Nat)
    (hent : BasicEntry cfg.dict K out) (hnf : hasFollowups cfg.dict [K] = false)
    (hkeys : ∀ x ∈ K, isZippyIgnored x = false)
    (hout : out.isEmpty = false) (hko : ∀ o ∈ out, CharKey o.osc) (hp : PlainOuts out)
    (hperm : (front.map (·.1) ++ [last]).Perm K)
    (hgap : ∀ kg ∈ front, kg.2 ≤ TICKS_UNTIL_FORCE_STATE_RESET)
    (hdl : cfg.ticksChordDeadline = 0 ∨ (front.map (·.2)).sum < cfg.ticksChordDeadline)
    (hfresh : Fresh s) (hmods : ModsAgree s b) :
    let r := zRun cfg s (chordHist front ++ [.press last])
    Eager cfg s (bufAfterPunct cfg s ((front.map (·.1) ++ [last]).headD 0) b) K out r.1 (b.run r.2) := by
  intro r
  obtain ⟨ht, hm, _, _, hpost, _⟩ := basic_run cfg K out s b front last hent hkeys hout hko hperm hgap hdl hfresh hmods
  obtain ⟨hmem, _, _, hfull⟩ := perm_facts hent.sorted hperm
  refine ⟨_, hpost, ?_, rfl, ?_, ?_, ?_, ht, hm, hp⟩
  · intro x; simp only [postPhase, idlePhase, List.nil_append]; exact hmem x
  · simp [postPhase]
  · simp only [postPhase, idlePhase, List.nil_append, hfull, hnf]; rfl
  · simp only [postPhase, displayLen_plain out hp]

/-- One level of a tower of chords: the chord, the ticks before its first new key, the new keys. -/
structure Step where
  K : Key
  out : List ZchOut
  g : Nat
  front : List (Nat × Nat)
  last : Nat

/-- what `extends_step` needs of a level above `K1` -/
structure StepOK (cfg : Cfg) (s0 : Zchd) (K1 : Key) (st : Step) : Prop where
  ext : ExtEntry cfg.dict K1 st.K st.out
  nf : hasFollowups cfg.dict [st.K] = false
  sub : ∀ x ∈ K1, x ∈ st.K
  keys : ∀ x ∈ st.K, isZippyIgnored x = false
  out : st.out.isEmpty = false
  ko : ∀ o ∈ st.out, CharKey o.osc
  plain : PlainOuts st.out
  perm : (st.front.map (·.1) ++ [st.last]).Perm (st.K.filter (fun x => !K1.contains x))
  punc : ∀ x ∈ st.K, cfg.punctuation.contains (puncOf s0 x) = false
  gap : ∀ kg ∈ st.front, kg.2 ≤ TICKS_UNTIL_FORCE_STATE_RESET
  g : st.g ≤ TICKS_UNTIL_FORCE_STATE_RESET
  dl : cfg.ticksChordDeadline = 0 ∨ st.g + (st.front.map (·.2)).sum < cfg.ticksChordDeadline

def TowerOK (cfg : Cfg) (s0 : Zchd) : Key → List Step → Prop
  | _, [] => True
  | K1, st :: r => StepOK cfg s0 K1 st ∧ TowerOK cfg s0 st.K r

def towerHist : List Step → List ZEv
  | [] => []
  | st :: r => (List.replicate st.g .tick ++ (chordHist st.front ++ [.press st.last])) ++ towerHist r

def towerTop (K1 : Key) (out1 : List ZchOut) : List Step → Key × List ZchOut
  | [] => (K1, out1)
  | st :: r => towerTop st.K st.out r

/-- Any number of levels, by induction. -/
theorem tower_run (cfg : Cfg) (s0 : Zchd) (base : Buf) (steps : List Step) :
    ∀ (K1 : Key) (out1 : List ZchOut) (s : Zchd) (b : Buf),
      ssmIsEmpty (levelSsm cfg.dict []) = false →
      Eager cfg s0 base K1 out1 s b → TowerOK cfg s0 K1 steps →
      Eager cfg s0 base (towerTop K1 out1 steps).1 (towerTop K1 out1 steps).2
        (zRun cfg s (towerHist steps)).1 (b.run (zRun cfg s (towerHist steps)).2) := by
  induction steps with
  | nil => intro K1 out1 s b _ he _; simpa [towerHist, towerTop, zRun, run_nil] using he
  | cons st r ih =>
    intro K1 out1 s b hne he hok
    obtain ⟨h1, hrest⟩ := hok
    have hstep := extends_step cfg s0 base K1 st.K out1 st.out s b st.g st.front st.last he hne
      h1.ext h1.nf h1.sub h1.keys h1.out h1.ko h1.plain h1.perm h1.punc h1.gap h1.g h1.dl
    have := ih st.K st.out _ _ hne hstep hrest
    simp only [towerHist, towerTop]
    rw [zRun_append, run_append]
    exact this

/-- Holding a key that zippychord ignores (e.g. shift) for `n` ticks from an idle enabled state only
advances `ticksSinceStateChange`. -/
theorem idle_ticks (s : Zchd) (n : Nat) (hen : s.enabledState = .enabled) (htud : s.ticksUntilDisable = 0)
    (hc : s.capsWord = false) (h : s.ticksSinceStateChange + n ≤ TICKS_UNTIL_FORCE_STATE_RESET) :
    ticksN s n = { s with ticksSinceStateChange := s.ticksSinceStateChange + n } := by
  induction n generalizing s with
  | zero => rfl
  | succ n ih =>
    rw [ticksN, tick_idle s hen htud hc (by omega)]
    have := ih { s with ticksSinceStateChange := s.ticksSinceStateChange + 1 } hen htud hc (by simp only; omega)
    rw [this]
    simp only [Nat.add_assoc, Nat.add_comm 1 n]


end KVerif.Zippy
